#!/bin/bash
# revert-overlay.sh <commit> [<commit>...]: builds /tmp/lead/ov/<first>/overlay.json mapping the /repo files the
# commits touched to copies of the CURRENT files with just those commits' hunks reverted
set -e
first=$1
d=/tmp/lead/ov/$first
rm -rf $d; mkdir -p $d/tree
cd /repo
files=$(for c in "$@"; do git show --name-only --format= $c; done | sort -u)
for f in $files; do mkdir -p $d/tree/$(dirname $f); cp $f $d/tree/$f; done
for c in "$@"; do git show $c --format= | (cd $d/tree && patch -p1 -R -s --no-backup-if-mismatch); done
python3 - "$d" $files <<'PY'
import json,sys
d=sys.argv[1]
json.dump({"Replace":{"/repo/"+f:d+"/tree/"+f for f in sys.argv[2:]}},open(d+"/overlay.json","w"),indent=1)
PY
echo $d/overlay.json

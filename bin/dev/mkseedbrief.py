#!/usr/bin/env python3
# writes /tmp/seed3-CNN.property.txt: property text + abridged list of changes already produced
import json, os, sys, glob
props = {}
for l in open('/verif/properties.jsonl'):
    p = json.loads(l); props[p['id']] = p
for pid in sys.argv[1:]:
    p = props[pid]
    out = []
    out.append("Property %s: %s\n" % (pid, p['title']))
    out.append(p['statement'] + "\n")
    out.append("Quantified over: " + p['quantifier']['text'] + "\n")
    out.append("Relevant source files: " + ", ".join(p['anchors']['files']) + "\n")
    prior = []
    for d in sorted(glob.glob('/verif/seeded/%s-*' % pid)):
        try:
            m = json.load(open(d + '/meta.json'))
        except Exception:
            continue
        s = m.get('summary') or m.get('mechanism') or m.get('title') or ''
        prior.append("- " + s[:420].replace("\n", " "))
    out.append("\nChanges ALREADY produced by other people for this property — do NOT repeat these or close variants of them; use a different mechanism and a different code site:\n")
    out.append("\n".join(prior) + "\n")
    open('/tmp/%s-%s.property.txt' % (os.environ.get('SEEDPFX','seed3'), pid), 'w').write("\n".join(out))
    print(pid, len(prior))

#!/bin/bash
# fixfast.sh <message-file>: build, vet, unit tests of internal/ (not the slow tests/ suite), commit all changes in /repo/internal
cd /repo
export GOFLAGS=-mod=mod GOPROXY=off
go build ./... || exit 1
go vet ./internal/server/ ./internal/collection/ ./internal/field/ ./internal/endpoint/ >/dev/null 2>&1 || { echo "VET FAILED"; go vet ./internal/... 2>&1 | tail -5; exit 1; }
out=$(go test -vet=off -count=1 -timeout 5m ./internal/... 2>&1) || { echo "$out" | tail -20; echo "UNIT TESTS FAIL"; exit 1; }
git checkout go.sum 2>/dev/null
git add -A internal
git commit -q -F "$1" && git log --oneline | head -1

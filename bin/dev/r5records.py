import json,glob,os,re,subprocess
head=subprocess.run(['git','-C','/repo','log','--format=%h','-1'],capture_output=True,text=True).stdout.strip()
extra={
 'C01-r5-1':("MISSED by C01 quick (the window between the sweeper's scan under the shared lock and its delete is microseconds wide unless a reader holds the lock across a sweep). CAUGHT by the check that owns the mechanism, C14 quick (sweeprace): ",'C14'),
 'C17-r5-1':("MISSED by the first run of C17 (no command was ever issued INSIDE a subscription on a JSON-mode connection). CAUGHT after the new `subcommands` sub-check (RESP / OUTPUT json / native connections run the same drawn in-subscription commands): ",'C17'),
 'C17-r5-2':("MISSED by the first run of C17 (the Lua type pool had no table mixing the reserved member err with other members). CAUGHT after such tables were added to the pools of all six EVAL commands: ",'C17'),
 'C18-r5-2':("MISSED by the first run of C18 (no script ever wrote into its own KEYS/ARGV). CAUGHT after the new TestC18_ArgTables sub-check (polluters write into KEYS/ARGV, observers with and without keys/args on the same and other connections): ",'C18'),
 'C10-r5-2':("MISSED by the first run of C10 (no burst of more than 256 notifications was ever queued behind a failing endpoint). CAUGHT after the new `webhook-burst` sub-check (300 SETs behind a held request that ends 500, then quiet; thorough: sizes around 256/512/1000 and all endings): ",'C10'),
 'C20-r5-1':("MISSED by the first run of C20 (never more than one LIVE roam fence per key). CAUGHT after 45 % of the live cases open 1-3 further live fences on the same key with crowds of 30-70 neighbours (a race: the key varies with the seed): ",'C20'),
 'C20-r5-2':("MISSED by the first run of C20 (crowds stayed below 100). CAUGHT after the deterministic TestC20_Crowd (130 neighbours, mover in/out) and crowd sizes 101 and 130 in the generator: ",'C20'),
}
for d in sorted(glob.glob('/verif/seeded/*-r5-*')):
    name=os.path.basename(d); short='-'.join(name.split('-')[:3])
    m=json.load(open(d+'/meta.json')); prop=m['property']
    pre,chk=extra.get(short,("CAUGHT by %s quick: "%prop,prop))
    log='/verif/.build/seedlog5/%s.%s.log'%(name,chk)
    keys=[]
    if os.path.exists(log):
        for l in open(log,errors='replace'):
            mm=re.search(r'VIOLATION property=\S+ replay=\S+\s+\(([^:]+(?::[a-z0-9_\-]+)*?):',l)
            if mm and mm.group(1) not in keys: keys.append(mm.group(1))
    if not keys:
        m['detection']='MISSED by %s quick so far (strengthening requested from the check author)'%chk
    else:
        m['detection']=pre+'violation keys: '+', '.join(keys[:4])
    m['checked_with']='bin/seedconfirm seeded/%s and bin/seedrun seeded/%s/patch.diff %s (quick tier, VERIF_SEED=1)'%(name,name,chk)
    m['reverified']={'repo_head':head,'own_check_violations':len(keys)}
    json.dump(m,open(d+'/meta.json','w'),indent=1)
    print(short,m['detection'][:150])

#!/bin/bash
cd /verif
for c in "$@"; do
  s=$(date +%s)
  VERIF_SEED=5 bin/check $c thorough > .build/thorough-$c.log 2>&1
  rc=$?
  echo "$c rc=$rc $(( $(date +%s) - s ))s $(grep -a -c VIOLATION .build/thorough-$c.log) violations $(grep -a 'thorough ok' .build/thorough-$c.log | cut -c1-120)" >> .build/thorough-all.out
done

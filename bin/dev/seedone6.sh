#!/bin/bash
name=$1; chk=$2
cd /verif
bin/seedrun seeded/$name/patch.diff $chk 2>&1 | grep -a -v "built\|overlay" | cut -c1-400 | head -8 > .build/seedlog5/$name.$chk.log 2>&1

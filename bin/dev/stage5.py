import json,os,re,shutil,sys
props=sys.argv[1:]
names=[]
for p in props:
    for n in ('1','2'):
        d='/tmp/seed5-out/%s/%s'%(p,n)
        if not os.path.exists(d+'/meta.json') or not os.path.exists(d+'/patch.diff'):
            print("missing",d); continue
        m=json.load(open(d+'/meta.json'))
        s=re.sub(r'[^a-z0-9]+','-',(m.get('summary') or m.get('title') or 'x').lower()).strip('-')
        name=('%s-r5-%s-%s'%(p,n,'-'.join(s.split('-')[:6])))[:60].rstrip('-')
        dst='/verif/seeded/'+name
        if not os.path.exists(dst): shutil.copytree(d,dst)
        names.append((name,p))
open('/verif/.build/seedbatch7.txt','a').write("".join("%s %s\n"%x for x in names))
print("\n".join(n for n,_ in names))

#!/bin/bash
# r5batch.sh NAME CHECK ... : seedconfirm then seedrun (quick) for each pair
cd /verif
while [ $# -gt 1 ]; do
  name=$1; chk=$2; shift 2
  if [ ! -f seeded/$name/confirm.json ]; then bin/seedconfirm seeded/$name > .build/seedlog5/$name.confirm.log 2>&1; fi
  echo "$name confirm: $(python3 -c "import json;d=json.load(open('seeded/$name/confirm.json'));print(d.get('confirmed'),{k:v for k,v in d.items() if isinstance(v,bool)})" 2>/dev/null)"
  .build/seedone6.sh $name $chk
  echo "$name $chk: $(grep -a -c VIOLATION .build/seedlog5/$name.$chk.log) violations; $(grep -a 'VIOLATION' .build/seedlog5/$name.$chk.log | head -1 | cut -c1-220)"
done

#!/bin/bash
# fixcommit.sh <message-file>: build, run the repo suite (retrying flakes), commit all changes in /repo/internal
cd /repo
export GOFLAGS=-mod=mod GOPROXY=off
go build ./... || exit 1
go vet ./internal/server/ ./internal/collection/ ./internal/field/ >/dev/null 2>&1 || { echo "VET FAILED"; go vet ./internal/server/ ./internal/collection/ ./internal/field/ 2>&1 | tail -5; exit 1; }
ok=0
for i in 1 2 3 4; do
  out=$(go test -vet=off -count=1 -timeout 10m ./internal/... ./tests/ 2>&1)
  if [ $? -eq 0 ]; then ok=1; break; fi
  echo "suite attempt $i failed: $(echo "$out" | grep -a 'tests_test.go\|FAIL:' | head -3)"
done
[ $ok = 1 ] || { echo "SUITE FAILS"; exit 1; }
git checkout go.sum 2>/dev/null
git add -A internal
git commit -q -F "$1" && git log --oneline | head -1

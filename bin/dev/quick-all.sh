#!/bin/bash
cd /verif
seed=${1:-1}
: > .build/quick-all-$seed.out
for c in C01 C02 C03 C04 C05 C06 C07 C08 C09 C10 C11 C12 C13 C14 C15 C16 C17 C18 C19 C20; do
  s=$(date +%s)
  VERIF_SEED=$seed bin/check $c quick > .build/quick-$c-$seed.log 2>&1
  rc=$?
  echo "$c rc=$rc $(( $(date +%s) - s ))s $(grep -a -c VIOLATION .build/quick-$c-$seed.log)v $(grep -a -c KNOWN-FINDING .build/quick-$c-$seed.log)k $(grep -a 'quick ok' .build/quick-$c-$seed.log | cut -c1-100)" >> .build/quick-all-$seed.out
done

#!/usr/bin/env python3
# C15: connections that went live before requirepass was set keep obtaining data without ever
# authenticating, and CLIENT KILL cannot terminate them.
import sys, time, json, socket
sys.path.insert(0, '/tmp/reader-out/R8')
from t38 import *

PORT = 24806
p, d = start(PORT, 'p6')
try:
    admin = Conn(PORT); admin.do('CLIENT', 'SETNAME', 'admin')
    admin.do('SETCHAN', 'ch', 'WITHIN', 'fleet', 'FENCE', 'BOUNDS', 0, 0, 10, 10)
    sub = Conn(PORT, timeout=1); print('sub', sub.do('SUBSCRIBE', 'ch'))
    fence = Conn(PORT, timeout=1); print('fence', fence.do('WITHIN', 'fleet', 'FENCE', 'BOUNDS', 0, 0, 10, 10))
    mon = Conn(PORT, timeout=1); print('mon', mon.do('MONITOR'))
    aof = Conn(PORT, timeout=1); print('aof', aof.do('AOF', 0))
    time.sleep(0.2)
    for x in (sub, fence, mon, aof):
        x.s.settimeout(0.3)
        try:
            x.buf = b''; x.s.recv(65536)
        except Exception:
            pass
    print('requirepass:', admin.do('CONFIG', 'SET', 'requirepass', 'sekret'))
    print('admin must auth now:', admin.do('GET', 'fleet', 'truck1'), '->', admin.do('AUTH', 'sekret'))
    fresh = Conn(PORT); print('fresh unauthenticated conn SUBSCRIBE:', fresh.do('SUBSCRIBE', 'ch'))
    lst = admin.do('CLIENT', 'LIST').decode(); print(lst)
    for l in lst.strip().split('\n'):
        if 'name=admin' not in l:
            i = l.split()[0].split('=')[1]
            print('CLIENT KILL ID', i, '->', admin.do('CLIENT', 'KILL', 'ID', i))
    print('secret write:', admin.do('SET', 'fleet', 'truck1', 'FIELD', 'secret', 42, 'POINT', 5, 5))
    time.sleep(0.5)
    for name, x in (('subscriber', sub), ('live fence', fence), ('monitor', mon), ('aof stream', aof)):
        try:
            data = x.s.recv(65536)
        except socket.timeout:
            data = b'(nothing)'
        print('%-11s received after password was set: %r' % (name, data[:160]))
finally:
    stop(p)

#!/usr/bin/env python3
# TIMEOUT-wrapped fence with WHEREEVAL: the interpreter taken for the fence is never returned
import sys
sys.path.insert(0, '/tmp/reader-out/R8')
from t38 import *

PORT = 24803
p, d = start(PORT, 'p3')
try:
    c = Conn(PORT)
    print(c.do('SET', 'k', 'a', 'POINT', 1, 1))
    print('before:', c.do('EVAL', 'return 1', 0))
    n = 0
    last = None
    for i in range(1100):
        r = c.do('TIMEOUT', '0', 'NEARBY', 'k', 'WHEREEVAL', 'return true', 0, 'FENCE', 'POINT', 1, 1, 100)
        if repr(r) != repr(last):
            print(i, r)
            last = r
    other = Conn(PORT)
    print('after, other connection EVAL:', other.do('EVAL', 'return 1', 0))
    print('after, other connection SCAN WHEREEVAL:', other.do('SCAN', 'k', 'WHEREEVAL', 'return true', 0))
    import time
    time.sleep(25)  # pool pruner runs every 10s
    print('25s later EVAL:', other.do('EVAL', 'return 1', 0))
finally:
    stop(p)

#!/usr/bin/env python3
import sys, time, json, socket
sys.path.insert(0, '/tmp/reader-out/R8')
from t38 import *

PORT = 24809


def tryconn(host, label, fam=socket.AF_INET):
    try:
        s = socket.socket(fam, socket.SOCK_STREAM)
        s.settimeout(1)
        s.connect((host, PORT))
        s.sendall(b'*3\r\n$3\r\nGET\r\n$1\r\nk\r\n$1\r\na\r\n')
        d = b''
        try:
            while True:
                x = s.recv(65536)
                if not x:
                    d += b'<EOF>'
                    break
                d += x
        except socket.timeout:
            pass
        print('  %-40s %r' % (label, d[:70]))
    except Exception as e:
        print('  %-40s EXC %r' % (label, e))


for args in (['--protected-mode', 'yes'], ['--protected-mode', 'no'], [], ['--protected-mode', 'yes', '-h', '0.0.0.0'], ['--protected-mode', 'yes', '-h', '::']):
    p, d = start(PORT, 'p9', args)
    try:
        print('server args', args)
        c = Conn(PORT)
        c.do('SET', 'k', 'a', 'POINT', 1, 1)
        tryconn('127.0.0.1', 'loopback v4')
        tryconn('192.0.2.2', 'eth0 v4')
        tryconn('fd00::2', 'eth0 v6', socket.AF_INET6)
        tryconn('::1', 'loopback v6', socket.AF_INET6)
        tryconn('::ffff:192.0.2.2', 'v4-mapped eth0', socket.AF_INET6)
        if args == ['--protected-mode', 'yes']:
            print(' CONFIG SET requirepass x ->', c.do('CONFIG', 'SET', 'requirepass', 'x'))
            tryconn('192.0.2.2', 'eth0 v4 (password set)')
            c.do('AUTH', 'x'); print(' clear password', c.do('CONFIG', 'SET', 'requirepass', ''))
            tryconn('192.0.2.2', 'eth0 v4 (password cleared)')
            print(' CONFIG SET protected-mode no ->', c.do('CONFIG', 'SET', 'protected-mode', 'no'))
            tryconn('192.0.2.2', 'eth0 v4 (config protected-mode no)')
    finally:
        stop(p)

#!/usr/bin/env python3
# C15: gates matrix
import sys, json, time, os
sys.path.insert(0, '/tmp/reader-out/R8')
from t38 import *

PORT = 24802
GEO = '{"type":"Point","coordinates":[1,1]}'
CMDS = [
    ['AOF', '0'], ['AOFMD5', '0', '10'], ['AOFSHRINK'], ['BOUNDS', 'k'], ['CHANS', '*'], ['CONFIG', 'GET', '*'],
    ['CONFIG', 'REWRITE'], ['CONFIG', 'SET', 'keepalive', '300'], ['DEL', 'k', 'nosuch'], ['DELCHAN', 'c'], ['DELHOOK', 'h'],
    ['DROP', 'nokey'], ['EVAL', 'return 1', '0'], ['EVALNA', 'return 1', '0'], ['EVALRO', 'return 1', '0'],
    ['EVAL', "return tile38.call('get','k','a')", '0'], ['EVALNA', "return tile38.call('get','k','a')", '0'],
    ['EVALRO', "return tile38.call('get','k','a')", '0'],
    ['EVALNA', "return tile38.call('test','get','k','a','intersects','bounds','0','0','10','10')", '0'],
    ['EVALNA', "return tile38.call('stats','k')", '0'],
    ['EVALNA', "return tile38.call('set','k','z','point',1,1)", '0'],
    ['EVALRO', "return tile38.call('set','k','z','point',1,1)", '0'],
    ['EVALNASHA', 'abc', '0'], ['EVALROSHA', 'abc', '0'], ['EVALSHA', 'abc', '0'],
    ['EXISTS', 'k', 'a'], ['EXPIRE', 'k', 'nosuch', '10'], ['FEXISTS', 'k', 'a', 'f'], ['FGET', 'k', 'a', 'f'], ['FLUSHDB'],
    ['FSET', 'k', 'a', 'f', '1'], ['GC'], ['GET', 'k', 'a'], ['HOOKS', '*'],
    ['INTERSECTS', 'k', 'BOUNDS', '0', '0', '10', '10'], ['JDEL', 'k', 'j', 'x'], ['JGET', 'k', 'a'], ['JSET', 'k', 'j', 'x', '1'],
    ['KEYS', '*'], ['NEARBY', 'k', 'POINT', '1', '1'], ['OUTPUT'], ['PDEL', 'k', 'zz*'], ['PDELCHAN', 'zz*'], ['PDELHOOK', 'zz*'],
    ['PERSIST', 'k', 'a'], ['PING'], ['ECHO', 'x'], ['READONLY', 'no'], ['RENAME', 'nokey', 'nokey2'], ['RENAMENX', 'nokey', 'nokey2'],
    ['SCAN', 'k'], ['SCRIPT', 'EXISTS', 'abc'], ['SCRIPT', 'FLUSH'], ['SCRIPT', 'LOAD', 'return 1'], ['SEARCH', 'k'], ['SERVER'], ['SERVER', 'ext'],
    ['INFO'], ['ROLE'], ['HEALTHZ'],
    ['SET', 'k', 'b', 'POINT', '2', '2'], ['SETCHAN', 'c', 'WITHIN', 'k', 'FENCE', 'BOUNDS', '0', '0', '1', '1'],
    ['SETHOOK', 'h', 'http://127.0.0.1:1/', 'WITHIN', 'k', 'FENCE', 'BOUNDS', '0', '0', '1', '1'],
    ['STATS', 'k'], ['TEST', 'GET', 'k', 'a', 'INTERSECTS', 'BOUNDS', '0', '0', '10', '10'],
    ['TEST', 'POINT', '1', '1', 'INTERSECTS', 'GET', 'k', 'a'],
    ['TIMEOUT', '1', 'GET', 'k', 'a'], ['TIMEOUT', '1', 'SCAN', 'k'], ['TIMEOUT', '1', 'TEST', 'GET', 'k', 'a', 'INTERSECTS', 'BOUNDS', '0', '0', '10', '10'],
    ['TIMEOUT', '1', 'SET', 'k', 'b', 'POINT', '2', '2'], ['TIMEOUT', '1', 'EVAL', "return tile38.call('set','k','z','point',1,1)", '0'],
    ['TTL', 'k', 'a'], ['TYPE', 'k'], ['WITHIN', 'k', 'BOUNDS', '0', '0', '10', '10'],
    ['CLIENT', 'LIST'], ['CLIENT', 'GETNAME'], ['CLIENT', 'SETNAME', 'x'], ['CLIENT', 'KILL', 'ID', '99999'],
    ['REPLCONF', 'listening-port', '1234'], ['HELLO', '3'], ['MASSINSERT', '1', '1'], ['SLEEP', '0'],
    ['PUBLISH', 'c', 'm'],
]
LIVE = [['SUBSCRIBE', 'c'], ['PSUBSCRIBE', '*'], ['MONITOR'], ['NEARBY', 'k', 'FENCE', 'POINT', '1', '1', '1000'], ['AOF', '0'], ['QUIT']]


def run_matrix(label, mkconn):
    print('=== ' + label)
    for cmd in CMDS + LIVE:
        c = mkconn()
        try:
            r = c.do(*cmd)
        except Closed:
            r = 'CLOSED'
        except TimeoutError:
            r = 'NOREPLY'
        c.close()
        if not isinstance(r, Err):
            print('   PASS  %-90s -> %r' % (' '.join(cmd)[:90], r if not isinstance(r, (bytes, list)) else str(r)[:100]))
        else:
            print('   err   %-90s -> %s' % (' '.join(cmd)[:90], r.args[0][:60]))


def dump(c):
    return c.do('SCAN', 'k'), c.do('HOOKS', '*'), c.do('CHANS', '*'), c.do('KEYS', '*')


which = sys.argv[1]
if which == 'pass':
    p, d = start(PORT, 'p2', ['--dev'])
    try:
        c = Conn(PORT)
        c.do('SET', 'k', 'a', 'FIELD', 'f', '5', 'POINT', '1', '1')
        before = dump(c)
        c.do('CONFIG', 'SET', 'requirepass', 'sekret')
        run_matrix('password set, unauthenticated', lambda: Conn(PORT, timeout=1.5))
        a = Conn(PORT); print(a.do('AUTH', 'sekret'))
        after = dump(a)
        print('state unchanged:', before == after)
        if before != after:
            print(before); print(after)
    finally:
        stop(p)
elif which == 'follower':
    p, d = start(PORT, 'p2f', ['--dev'])
    c = Conn(PORT)
    c.do('SET', 'k', 'a', 'FIELD', 'f', '5', 'POINT', '1', '1')
    c.do('SET', 'k', 'j', 'OBJECT', GEO)
    c.close()
    stop(p)
    cfg = json.load(open(d + '/config'))
    cfg['follow_host'] = '127.0.0.1'
    cfg['follow_port'] = 24899  # nobody listens
    json.dump(cfg, open(d + '/config', 'w'))
    p, d = start(PORT, 'p2f', ['--dev'], fresh=False)
    try:
        run_matrix('follower, never caught up (leader down), local data present', lambda: Conn(PORT, timeout=1.5))
    finally:
        stop(p)
elif which == 'readonly':
    p, d = start(PORT, 'p2r', ['--dev'])
    try:
        c = Conn(PORT)
        c.do('SET', 'k', 'a', 'FIELD', 'f', '5', 'POINT', '1', '1')
        c.do('SET', 'k', 'j', 'OBJECT', GEO)
        c.do('SETCHAN', 'c', 'WITHIN', 'k', 'FENCE', 'BOUNDS', '0', '0', '1', '1')
        before = dump(c)
        sz = os.path.getsize(d + '/appendonly.aof')
        print(c.do('READONLY', 'yes'))
        CMDS.remove(['READONLY', 'no'])
        run_matrix('read-only', lambda: Conn(PORT, timeout=1.5))
        after = dump(c)
        print('state unchanged:', before == after, 'aof unchanged:', sz == os.path.getsize(d + '/appendonly.aof'))
        if before != after:
            print(before); print(after)
    finally:
        stop(p)

#!/usr/bin/env python3
# a MONITOR client that stops reading stalls every other client (sendMonitor writes to the
# monitor socket synchronously, under monconnsMu and the caller's server lock)
import sys, time, socket
sys.path.insert(0, '/tmp/reader-out/R8')
from t38 import *

PORT = 24813
p, d = start(PORT, 'p12')
try:
    mon = socket.socket(); mon.setsockopt(socket.SOL_SOCKET, socket.SO_RCVBUF, 4096)
    mon.connect(('127.0.0.1', PORT)); mon.sendall(b'MONITOR\r\n'); time.sleep(0.2)
    c = Conn(PORT, timeout=5)
    big = 'x' * 20000
    t0 = time.time()
    n = 0
    try:
        for i in range(2000):
            c.do('SET', 'k', 'id%d' % i, 'STRING', big)
            n += 1
        print('no stall after', n, 'commands')
    except TimeoutError:
        print('writer stalled after %d SETs (%.1fs)' % (n, time.time() - t0))
        o = Conn(PORT, timeout=3)
        try:
            print('other client PING:', o.do('PING'))
            print('other client GET:', o.do('GET', 'k', 'id0')[:10])
        except TimeoutError:
            print('other client: no reply within 3s -> whole server stalled')
finally:
    p.kill(); p.wait()

#!/usr/bin/env python3
# TIMEOUT on long scans with WHEREEVAL etc: do interpreters/locks leak?
import sys, time, random
sys.path.insert(0, '/tmp/reader-out/R8')
from t38 import *

PORT = 24812
p, d = start(PORT, 'p11', ['--dev'])
try:
    c = Conn(PORT, timeout=60)
    print(c.do('MASSINSERT', 1, 60000))
    print(c.do('STATS', 'mi:0'))
    cmds = [
        ['SCAN', 'mi:0', 'WHEREEVAL', 'return FIELDS["fname:0"] == 99', 0, 'COUNT'],
        ['NEARBY', 'mi:0', 'WHEREEVAL', 'return FIELDS["fname:0"] == 99', 0, 'COUNT', 'POINT', 1, 1],
        ['WITHIN', 'mi:0', 'WHEREEVAL', 'return FIELDS["fname:0"] == 99', 0, 'COUNT', 'BOUNDS', -90, -180, 90, 180],
        ['INTERSECTS', 'mi:0', 'WHEREEVAL', 'return FIELDS["fname:0"] == 99', 0, 'COUNT', 'BOUNDS', -90, -180, 90, 180],
        ['SEARCH', 'mi:0', 'WHEREEVAL', 'return FIELDS["fname:0"] == 99', 0, 'COUNT'],
        ['SCAN', 'mi:0', 'WHERE', 'fname:0 == 99', 'COUNT'],
        ['EVAL', 'local n=0 for i=1,100000000 do n=n+1 end return n', 0],
        ['EVALRO', "return tile38.call('scan','mi:0','WHEREEVAL','return FIELDS[\"fname:0\"] == 99',0,'COUNT')", 0],
        ['EVALNA', "return tile38.call('TIMEOUT','0.005','scan','mi:0','WHEREEVAL','return FIELDS[\"fname:0\"] == 99',0,'COUNT')", 0],
    ]
    for cmd in cmds:
        t = time.time()
        r = c.do(*cmd)
        print('plain   %-14s %.2fs -> %s' % (cmd[0], time.time() - t, str(r)[:60]) if cmd[0] != 'EVAL' else 'skip plain busy EVAL')
        if cmd[0] == 'EVAL':
            pass
    seen = {}
    for i in range(1500):
        cmd = random.choice(cmds)
        r = c.do('TIMEOUT', '0.005', *cmd)
        seen.setdefault((cmd[0], str(r)[:70]), 0)
        seen[(cmd[0], str(r)[:70])] += 1
    for k, v in sorted(seen.items()):
        print(v, k)
    o = Conn(PORT)
    print('EVAL afterwards:', o.do('EVAL', 'return 1', 0))
    print('SET afterwards:', o.do('SET', 'x', 'y', 'POINT', 1, 1))
    print('KEYS leak check (script globals):', o.do('EVAL', 'return {tostring(KEYS), tostring(ARGV), tostring(DEADLINE)}', 0))
finally:
    stop(p)

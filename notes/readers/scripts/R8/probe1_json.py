#!/usr/bin/env python3
# C17: every admin command's JSON reply is valid JSON with boolean ok, hostile names/values
import sys, json
sys.path.insert(0, '/tmp/reader-out/R8')
from t38 import *

PORT = 24801
p, d = start(PORT, 'p1', ['--dev'])
bad = []
try:
    c = Conn(PORT, timeout=1.5)
    assert c.do('OUTPUT', 'json')
    hostile = ['a"b', 'a\\b', 'a\nb', 'x\x00y', b'\xff\xfe', 'NaN', 'Inf', '1e5', 'true', '{"a":1}', '', ' ', 'a b', ' ', '"', '\\']
    cmds = []
    for h in hostile:
        cmds += [
            ['CLIENT', 'SETNAME', h], ['CLIENT', 'GETNAME'], ['CLIENT', 'LIST'],
            ['CLIENT', 'KILL', h], ['CLIENT', 'KILL', 'ID', h], ['CLIENT', 'KILL', 'ADDR', h], ['CLIENT', h],
            ['CONFIG', 'GET', h], ['CONFIG', 'SET', h, h], ['CONFIG', 'SET', 'requirepass', h], ['CONFIG', 'GET', '*'],
            ['AUTH', h], ['CONFIG', 'SET', 'requirepass', ''],
            ['CONFIG', 'SET', 'leaderauth', h], ['CONFIG', 'GET', 'leaderauth'],
            ['CONFIG', 'SET', 'logconfig', h], ['CONFIG', 'GET', 'logconfig'], ['CONFIG', 'REWRITE'],
            ['CONFIG', 'SET', 'replica_announce_ip', h], ['CONFIG', 'GET', '*'],
            ['CONFIG', 'SET', 'maxmemory', h], ['CONFIG', 'SET', 'autogc', h], ['CONFIG', 'SET', 'keepalive', h],
            ['CONFIG', 'SET', 'protected-mode', h], ['CONFIG', 'SET', 'replica-priority', h], ['CONFIG', 'SET', 'replica_announce_port', h],
            ['CONFIG', h], ['CONFIG'], ['SCRIPT', h], ['SCRIPT'],
            ['SERVER', h], ['INFO', h], ['STATS', h], ['HEALTHZ', h], ['OUTPUT', h], ['ROLE', h], ['GC', h],
            ['TIMEOUT', h, 'GET', 'a', 'b'], ['TIMEOUT', '1', h], ['TIMEOUT', h], ['TIMEOUT', '0', 'SERVER'],
            ['READONLY', h], ['FOLLOW', h], ['FOLLOW', h, h], ['PING', h], ['ECHO', h], ['HELLO', h], ['MONITOR', h],
            ['AOFMD5', h, h], ['AOF', h], ['REPLCONF', h, h], ['REPLCONF', 'listening-port', h], ['REPLCONF', 'ip-address', h],
            ['ROLE'], ['INFO'], ['SERVER'], ['SERVER', 'ext'], ['INFO', 'replication'],
            ['SCRIPT', 'LOAD', h], ['SCRIPT', 'EXISTS', h], ['EVAL', h, '0'], ['EVALSHA', h, '0'],
            [h], [h, h],
        ]
    cmds += [['CONFIG', 'SET', 'maxmemory', ''], ['CONFIG', 'SET', 'autogc', ''], ['CONFIG', 'SET', 'keepalive', '']]
    for cmd in cmds:
        print('>',cmd,flush=True)
        try:
            j, raw = c.dojson(*cmd)
        except TimeoutError:
            bad.append(('TIMEOUT-NOREPLY', cmd))
            c = Conn(PORT, timeout=1.5)
            c.do('OUTPUT', 'json')
            continue
        except Closed:
            bad.append(('CLOSED', cmd))
            c = Conn(PORT, timeout=1.5)
            c.do('OUTPUT', 'json')
            continue
        if j is None or not isinstance(j, dict) or not isinstance(j.get('ok'), bool) or (j['ok'] is False and 'err' not in j):
            bad.append((cmd, raw))
            # make sure we are still in json mode
        if p.poll() is not None:
            bad.append(('SERVER DIED', cmd))
            break
    for b in bad:
        print('BAD', b)
    print('done', len(cmds), 'bad', len(bad))
finally:
    stop(p)

#!/usr/bin/env python3
# OOM gate: which commands that grow the dataset are refused when used memory > maxmemory
import sys, time
sys.path.insert(0, '/tmp/reader-out/R8')
from t38 import *

PORT = 24804
p, d = start(PORT, 'p4')
try:
    c = Conn(PORT)
    print(c.do('SET', 'k', 'a', 'POINT', 1, 1))
    print(c.do('SET', 'k', 'j', 'OBJECT', '{"type":"Point","coordinates":[1,1]}'))
    print(c.do('CONFIG', 'SET', 'maxmemory', '1'))
    print('CONFIG GET maxmemory', c.do('CONFIG', 'GET', 'maxmemory'))
    print('SERVER max_heap_size', dict(zip(*[iter(c.do('SERVER'))] * 2)).get(b'max_heap_size'))
    for cmd in [
        ['SET', 'k', 'b', 'POINT', 2, 2], ['SET', 'k', 's', 'STRING', 'x' * 100], ['FSET', 'k', 'a', 'f', 1],
        ['JSET', 'k', 'j', 'properties.big', 'x' * 100000], ['JSET', 'k', 'newobj', 'a.b', 'x' * 100000], ['JSET', 'newkey', 'newobj', 'a.b', 'x' * 100000],
        ['JDEL', 'k', 'j', 'properties.big'],
        ['EVAL', "return tile38.call('set','k','c','point',3,3)", 0],
        ['EVAL', "return tile38.call('jset','k','viascript','a','" + 'y' * 1000 + "')", 0],
        ['RENAME', 'k', 'k2'], ['RENAME', 'k2', 'k'], ['EXPIRE', 'k', 'a', 1000], ['PERSIST', 'k', 'a'],
        ['SETCHAN', 'c', 'WITHIN', 'k', 'FENCE', 'BOUNDS', 0, 0, 1, 1], ['SETHOOK', 'h', 'http://127.0.0.1:1/', 'WITHIN', 'k', 'FENCE', 'BOUNDS', 0, 0, 1, 1],
        ['SCRIPT', 'LOAD', 'return 12345'],
        ['GET', 'k', 'a'], ['SCAN', 'k', 'IDS'], ['DEL', 'k', 'a'], ['KEYS', '*'],
    ]:
        r = c.do(*cmd)
        print('%-60s -> %s' % (' '.join(str(x)[:30] for x in cmd)[:60], str(r)[:100]))
    print(c.do('CONFIG', 'SET', 'maxmemory', '0'))
    print(c.do('SET', 'k', 'b', 'POINT', 2, 2))
finally:
    stop(p)

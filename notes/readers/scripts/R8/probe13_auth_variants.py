#!/usr/bin/env python3
import sys, time, socket
sys.path.insert(0, '/tmp/reader-out/R8')
from t38 import *
PORT = 24814
p, d = start(PORT, 'p13')
def http(req):
    s = socket.create_connection(('127.0.0.1', PORT)); s.settimeout(2); s.sendall(req)
    try:
        r = s.recv(65536)
    except Exception as e:
        r = repr(e).encode()
    s.close()
    return r.split(b'\r\n\r\n', 1)[-1][:90]
try:
    c = Conn(PORT); c.do('SET', 'k', 'a', 'POINT', 1, 1); c.do('CONFIG', 'SET', 'requirepass', 'sekret')
    for pw in ['sekret ', ' sekret', '\tsekret\r\n', 'sekret\x00', 'SEKRET', 'sekre', 'sekrett', '']:
        x = Conn(PORT); print('AUTH %r ->' % pw, x.do('AUTH', pw), '| then GET ->', str(x.do('GET', 'k', 'a'))[:40])
    x = Conn(PORT); print('AUTH (no arg) ->', x.do('AUTH'))
    x = Conn(PORT); print('AUTH a b ->', x.do('AUTH', 'sekret', 'extra'))
    print('http no auth      ', http(b'GET /get+k+a HTTP/1.1\r\n\r\n'))
    print('http good auth    ', http(b'GET /get+k+a HTTP/1.1\r\nAuthorization: sekret\r\n\r\n'))
    print('http bearer       ', http(b'GET /get+k+a HTTP/1.1\r\nAuthorization: Bearer sekret\r\n\r\n'))
    print('http 2 auth hdrs  ', http(b'GET /get+k+a HTTP/1.1\r\nAuthorization: sekret\r\nAuthorization: wrong\r\n\r\n'))
    print('http auth lower   ', http(b'GET /get+k+a HTTP/1.1\r\nauthorization:sekret\r\n\r\n'))
    print('http write        ', http(b'GET /set+k+b+point+1+1 HTTP/1.1\r\nAuthorization: wrong\r\n\r\n'))
    print('http healthz      ', http(b'GET /healthz HTTP/1.1\r\n\r\n'))
    print('http server       ', http(b'GET /server HTTP/1.1\r\n\r\n'))
    print('http viewer       ', http(b'GET /viewer HTTP/1.1\r\n\r\n')[:40])
    print('http mvt          ', http(b'GET /k/0/0/0.mvt HTTP/1.1\r\n\r\n')[:80])
    print('post body         ', http(b'POST / HTTP/1.1\r\nContent-Length: 7\r\n\r\nget k a'))
    print('native            ', http(b'$7 get k a\r\n'))
    print('telnet            ', http(b'get k a\r\n'))
    c.do('AUTH', 'sekret'); print(c.do('SCAN', 'k', 'IDS'))
finally:
    stop(p)

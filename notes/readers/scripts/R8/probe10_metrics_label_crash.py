#!/usr/bin/env python3
# C16: non-UTF-8 bytes reach prometheus label values -> panic -> whole server dies
import sys, time, socket, urllib.request
sys.path.insert(0, '/tmp/reader-out/R8')
from t38 import *

PORT = 24810
MPORT = 24811


def alive(p):
    time.sleep(0.5)
    return p.poll() is None


which = sys.argv[1]
if which == 'http-auth':
    # unauthenticated client, wrong password in the HTTP Authorization header, command name = byte 0xff
    p, d = start(PORT, 'p10a')
    try:
        c = Conn(PORT)
        c.do('CONFIG', 'SET', 'requirepass', 'sekret')
        victim = Conn(PORT); print('victim AUTH', victim.do('AUTH', 'sekret'), victim.do('SET', 'k', 'a', 'POINT', 1, 1))
        s = socket.create_connection(('127.0.0.1', PORT)); s.settimeout(2)
        s.sendall(b'GET /%ff HTTP/1.1\r\nAuthorization: wrong\r\n\r\n')
        try:
            print('attacker got', s.recv(4096)[:200])
        except Exception as e:
            print('attacker exc', repr(e))
        print('server alive:', alive(p))
        try:
            print('victim GET', victim.do('GET', 'k', 'a'))
        except Exception as e:
            print('victim exc', repr(e))
        print(open(d + '.log', 'rb').read()[-700:].decode('utf-8', 'replace'))
    finally:
        stop(p)
elif which == 'metrics-key':
    p, d = start(PORT, 'p10b', ['--metrics-addr', '127.0.0.1:%d' % MPORT])
    try:
        c = Conn(PORT)
        print(urllib.request.urlopen('http://127.0.0.1:%d/metrics' % MPORT, timeout=3).read()[:60])
        print('SET', c.do('SET', b'fleet\xff', 'a', 'POINT', 1, 1))
        try:
            print(urllib.request.urlopen('http://127.0.0.1:%d/metrics' % MPORT, timeout=3).read()[:60])
        except Exception as e:
            print('scrape exc', repr(e))
        print('server alive:', alive(p))
        print(open(d + '.log', 'rb').read()[-500:].decode('utf-8', 'replace'))
    finally:
        stop(p)

#!/usr/bin/env python3
import sys, time, json
sys.path.insert(0, '/tmp/reader-out/R8')
from t38 import *

PORT = 24805
p, d = start(PORT, 'p5')
try:
    c = Conn(PORT); c.do('CLIENT','SETNAME','me')
    sub = Conn(PORT); print('sub', sub.do('SUBSCRIBE', 'ch'))
    fence = Conn(PORT); print('fence', fence.do('NEARBY', 'k', 'FENCE', 'POINT', 1, 1, 1000))
    mon = Conn(PORT); print('mon', mon.do('MONITOR'))
    aof = Conn(PORT); print('aof', aof.do('AOF', 0))
    plain = Conn(PORT); print('plain', plain.do('CLIENT', 'SETNAME', '007'))
    lst = c.do('CLIENT', 'LIST').decode()
    print(lst)
    ids = [l.split()[0].split('=')[1] for l in lst.strip().split('\n') if 'name=me' not in l]
    for i in ids:
        print('KILL ID', i, c.do('CLIENT', 'KILL', 'ID', i))
    time.sleep(0.3)
    print(c.do('CLIENT', 'LIST').decode())
    print('publish reaches killed subscriber?', c.do('PUBLISH', 'ch', 'hello'))
    c.do('OUTPUT', 'json')
    print(c.do('CLIENT', 'LIST'))
    print(c.do('CLIENT', 'SETNAME', '1e3'), c.do('CLIENT', 'GETNAME'), c.do('CLIENT', 'LIST'))
finally:
    stop(p)

#!/usr/bin/env python3
# CONFIG SET / REWRITE / restart round trip
import sys, time, json
sys.path.insert(0, '/tmp/reader-out/R8')
from t38 import *

PORT = 24807


def getall(c):
    r = c.do('CONFIG', 'GET', '*')
    return dict(zip(r[0::2], r[1::2]))


cases = [
    {'requirepass': b'p\xff\xfeq'},
    {'requirepass': 'pa"ss\\word\n'},
    {'requirepass': ' lead'},
    {'leaderauth': b'\xc3\x28'},
    {'maxmemory': '1500'},
    {'maxmemory': '3000mb'},
    {'maxmemory': '17179869184gb'},
    {'maxmemory': '9223372036854775808'},
    {'keepalive': '0'},
    {'keepalive': '18446744073709551615'},
    {'autogc': '5'},
    {'protected-mode': 'NO'},
    {'logconfig': '{"level":"debug","encoding":"json"}'},
    {'logconfig': 'not json'},
    {'replica_announce_ip': '10.0.0.1', 'replica_announce_port': '1234', 'replica-priority': '7'},
]
for i, case in enumerate(cases):
    p, d = start(PORT, 'p7')
    try:
        c = Conn(PORT)
        for k, v in case.items():
            r = c.do('CONFIG', 'SET', k, v)
            if isinstance(r, Err):
                print(case, 'SET ->', r)
        pw = case.get('requirepass')
        if pw is not None:
            print('  AUTH after set:', c.do('AUTH', pw))
        before = getall(c)
        print('  REWRITE', c.do('CONFIG', 'REWRITE'))
        c.close()
        stop(p)
        p, d = start(PORT, 'p7', fresh=False)
        c = Conn(PORT)
        if pw is not None:
            print('  AUTH after restart with the same password:', c.do('AUTH', pw))
            if isinstance(pw, bytes):
                alt = pw.decode('utf-8', 'replace').encode()
                print('  AUTH after restart with U+FFFD-replaced password %r:' % alt, c.do('AUTH', alt))
        after = getall(c)
        if isinstance(after, dict) and before != after:
            for k in before:
                if before[k] != after.get(k):
                    print('  DIFF', case, k, before[k], '->', after.get(k))
        else:
            print('  same', case)
    except Exception as e:
        print('  EXC', case, repr(e))
        print(open(d + '.log', 'rb').read()[-600:])
    finally:
        stop(p)

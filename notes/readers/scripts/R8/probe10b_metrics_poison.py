#!/usr/bin/env python3
# unauthenticated HTTP request with a wrong Authorization header still gets a metrics label for its (arbitrary) command name
import sys, time, socket, urllib.request
sys.path.insert(0, '/tmp/reader-out/R8')
from t38 import *
PORT = 24810; MPORT = 24811
p, d = start(PORT, 'p10c', ['--metrics-addr', '127.0.0.1:%d' % MPORT])
def scrape():
    try:
        r = urllib.request.urlopen('http://127.0.0.1:%d/metrics' % MPORT, timeout=3)
        body = r.read().decode('utf-8', 'replace')
        return r.status, [l for l in body.split('\n') if 'cmd_duration_seconds_count' in l]
    except urllib.error.HTTPError as e:
        return e.code, e.read()[:300]
    except Exception as e:
        return 'exc', repr(e)
try:
    c = Conn(PORT)
    c.do('CONFIG', 'SET', 'requirepass', 'sekret')
    for path in (b'/bogus1', b'/bogus2', b'/%ff'):
        s = socket.create_connection(('127.0.0.1', PORT)); s.settimeout(2)
        s.sendall(b'GET ' + path + b' HTTP/1.1\r\nAuthorization: wrong\r\n\r\n')
        print(path, s.recv(4096).split(b'\r\n\r\n')[1][:60]); s.close()
        print('  scrape:', scrape())
    time.sleep(0.3)
    print('alive', p.poll() is None)
finally:
    stop(p)

#!/usr/bin/env python3
# tiny helper: start a tile38 server from /tmp/reader-out/R8 and talk RESP to it
import socket, subprocess, time, os, shutil, json, sys

BIN = '/tmp/reader-out/R8/t38-R8'


def start(port, name=None, args=(), fresh=True, env=None):
    d = '/tmp/reader-out/R8/data-%s' % (name or port)
    if fresh:
        shutil.rmtree(d, ignore_errors=True)
    os.makedirs(d, exist_ok=True)
    log = open(d + '.log', 'ab')
    e = dict(os.environ)
    if env:
        e.update(env)
    p = subprocess.Popen([BIN, '-d', d, '-p', str(port)] + list(args), stdout=log, stderr=log, env=e)
    for _ in range(100):
        try:
            s = socket.create_connection(('127.0.0.1', port), timeout=1)
            s.close()
            break
        except OSError:
            time.sleep(0.05)
    # wait until loaded
    for _ in range(100):
        c = Conn(port)
        r = c.do('SERVER')
        c.close()
        if not (isinstance(r, Err) and 'LOADING' in str(r)):
            break
        time.sleep(0.05)
    return p, d


def stop(p):
    p.terminate()
    try:
        p.wait(5)
    except Exception:
        p.kill()
        p.wait()


class Err(Exception):
    def __repr__(self):
        return 'Err(%r)' % (self.args[0],)


class Closed(Exception):
    pass


class Conn:
    def __init__(self, port, host='127.0.0.1', timeout=5):
        self.s = socket.create_connection((host, port), timeout=timeout)
        self.buf = b''

    def close(self):
        try:
            self.s.close()
        except Exception:
            pass

    def send(self, *args):
        out = b'*%d\r\n' % len(args)
        for a in args:
            if not isinstance(a, bytes):
                a = str(a).encode('utf-8', 'surrogateescape')
            out += b'$%d\r\n%s\r\n' % (len(a), a)
        self.s.sendall(out)

    def raw(self, b):
        self.s.sendall(b)

    def _fill(self):
        d = self.s.recv(65536)
        if not d:
            raise Closed()
        self.buf += d

    def _line(self):
        while b'\r\n' not in self.buf:
            self._fill()
        i = self.buf.index(b'\r\n')
        l = self.buf[:i]
        self.buf = self.buf[i + 2:]
        return l

    def read(self):
        l = self._line()
        t, rest = l[:1], l[1:]
        if t == b'+':
            return rest.decode('utf-8', 'replace')
        if t == b'-':
            return Err(rest.decode('utf-8', 'replace'))
        if t == b':':
            return int(rest)
        if t == b'$':
            n = int(rest)
            if n < 0:
                return None
            while len(self.buf) < n + 2:
                self._fill()
            v = self.buf[:n]
            assert self.buf[n:n + 2] == b'\r\n', 'bad bulk terminator %r' % self.buf[n:n + 10]
            self.buf = self.buf[n + 2:]
            return v
        if t == b'*':
            n = int(rest)
            if n < 0:
                return None
            return [self.read() for _ in range(n)]
        raise Exception('bad resp type line %r' % l)

    def do(self, *args):
        self.send(*args)
        return self.read()

    def dojson(self, *args):
        """in JSON output mode: returns (parsed or None, rawbytes)"""
        r = self.do(*args)
        if isinstance(r, bytes):
            try:
                return json.loads(r.decode('utf-8')), r
            except Exception as e:
                return None, r
        return None, r

#!/usr/bin/env python3
# C19: SERVER / SERVER ext / STATS totals vs retrievable truth under random history
import sys, time, json, random
sys.path.insert(0, '/tmp/reader-out/R8')
from t38 import *

PORT = 24808
seed = int(sys.argv[1]) if len(sys.argv) > 1 else 1
random.seed(seed)
p, d = start(PORT, 'p8')
KEYS = ['k1', 'k2', 'k3']
IDS = ['a', 'b', 'c', 'd']


def rnd_obj():
    r = random.random()
    if r < 0.2:
        return ['POINT', random.randint(-80, 80), random.randint(-170, 170)]
    if r < 0.3:
        return ['POINT', random.randint(-80, 80), random.randint(-170, 170), random.randint(0, 9)]
    if r < 0.45:
        return ['STRING', 'v' * random.randint(0, 20)]
    if r < 0.55:
        return ['BOUNDS', 1, 1, 2, 2]
    if r < 0.65:
        return ['HASH', '9q8yyk8']
    if r < 0.75:
        return ['OBJECT', '{"type":"LineString","coordinates":[[0,0],[1,1],[2,0]]}']
    if r < 0.8:
        return ['OBJECT', '{"type":"FeatureCollection","features":[]}']
    if r < 0.85:
        return ['OBJECT', '{"type":"GeometryCollection","geometries":[]}']
    if r < 0.9:
        return ['OBJECT', '{"type":"MultiPoint","coordinates":[[0,0],[1,1],[2,0]]}']
    if r < 0.95:
        return ['OBJECT', '{"type":"Feature","geometry":{"type":"Point","coordinates":[3,4]},"properties":{"a":1}}']
    return ['OBJECT', '{"type":"Polygon","coordinates":[[[0,0],[1,0],[1,1],[0,1],[0,0]]]}']


def check(c, step, lastcmd):
    keys = c.do('KEYS', '*')
    srv = dict(zip(*[iter(c.do('SERVER'))] * 2))
    ext = dict(zip(*[iter(c.do('SERVER', 'ext'))] * 2))
    tot = {'num_objects': 0, 'num_points': 0, 'num_strings': 0, 'in_memory_size': 0}
    problems = []
    for k in keys:
        st = c.do('STATS', k)[0]
        st = dict(zip(*[iter(st)] * 2))
        for f in tot:
            tot[f] += int(st[f.encode()])
        n_ids = len(c.do('SCAN', k, 'IDS')[1])
        cnt = c.do('SCAN', k, 'COUNT')
        if n_ids != int(st[b'num_objects']) or cnt != n_ids:
            problems.append(('stats/scan', k, st, n_ids, cnt))
        if n_ids == 0:
            problems.append(('empty collection listed', k))
        # strings: SEARCH iterates only string values
        nstr = c.do('SEARCH', k, 'COUNT')
        sids = c.do('SEARCH', k, 'IDS')[1]
        if len(sids) != nstr:
            problems.append(('search count vs ids', k, nstr, sids))
        for i in c.do('SCAN', k, 'IDS')[1]:
            if c.do('GET', k, i) is None:
                problems.append(('scan id not gettable', k, i))
        if nstr != int(st[b'num_strings']):
            problems.append(('num_strings', k, nstr, st))
    for f in tot:
        if int(srv[f.encode()]) != tot[f]:
            problems.append(('SERVER ' + f, srv[f.encode()], tot[f]))
        if int(ext[('tile38_' + f).encode()]) != tot[f]:
            problems.append(('SERVER ext ' + f, ext[('tile38_' + f).encode()], tot[f]))
    if int(srv[b'num_collections']) != len(keys) or int(ext[b'tile38_num_collections']) != len(keys):
        problems.append(('num_collections', srv[b'num_collections'], len(keys)))
    nh = len(c.do('HOOKS', '*')) + len(c.do('CHANS', '*'))
    if int(srv[b'num_hooks']) != nh:
        problems.append(('num_hooks', srv[b'num_hooks'], nh))
    if problems:
        print('step', step, 'after', lastcmd)
        for pr in problems:
            print('   ', pr)
    return not problems


try:
    c = Conn(PORT)
    ok = True
    for step in range(600):
        k = random.choice(KEYS); i = random.choice(IDS)
        r = random.random()
        if r < 0.45:
            cmd = ['SET', k, i]
            if random.random() < 0.3:
                cmd += ['FIELD', 'f', random.randint(0, 3)]
            if random.random() < 0.2:
                cmd += ['EX', random.choice([0.2, 100])]
            cmd += rnd_obj()
        elif r < 0.55:
            cmd = ['DEL', k, i]
        elif r < 0.6:
            cmd = ['RENAME', k, random.choice(KEYS)]
        elif r < 0.65:
            cmd = ['RENAMENX', k, random.choice(KEYS)]
        elif r < 0.68:
            cmd = ['DROP', k]
        elif r < 0.72:
            cmd = ['PDEL', k, random.choice(['a*', '*', '[bc]'])]
        elif r < 0.78:
            cmd = ['JSET', k, i, random.choice(['x', 'properties.z', 'coordinates.0', 'type']), random.choice(['1', 'Point', 'abc'])]
        elif r < 0.82:
            cmd = ['JDEL', k, i, random.choice(['x', 'properties', 'coordinates', 'type', 'geometry'])]
        elif r < 0.87:
            cmd = ['FSET', k, i, 'g', random.randint(0, 2)]
        elif r < 0.9:
            cmd = ['EXPIRE', k, i, random.choice([0.1, 50])]
        elif r < 0.92:
            cmd = ['PERSIST', k, i]
        elif r < 0.93:
            cmd = ['FLUSHDB']
        elif r < 0.95:
            cmd = ['SETCHAN', 'ch' + str(random.randint(0, 2)), 'WITHIN', k, 'FENCE', 'BOUNDS', 0, 0, 5, 5]
        elif r < 0.97:
            cmd = ['SETHOOK', 'hk' + str(random.randint(0, 2)), 'http://127.0.0.1:1/x', 'WITHIN', k, 'FENCE', 'BOUNDS', 0, 0, 5, 5]
        elif r < 0.98:
            cmd = ['PDELCHAN', '*']
        else:
            cmd = ['AOFSHRINK']
        res = c.do(*cmd)
        if 0.2 in cmd or 0.1 in cmd:
            time.sleep(0.6)
        if not check(c, step, (cmd, res)):
            ok = False
            break
    print('seed', seed, 'ok' if ok else 'MISMATCH')
finally:
    stop(p)

#!/usr/bin/env python3
import sys, time, json
sys.path.insert(0, '/tmp/reader-out/R8')
from t38 import *
PORT = 24815
p, d = start(PORT, 'p14')
VOL = {'mem_alloc','heap_size','heap_released','avg_item_size','threads','elapsed'}
try:
    r = Conn(PORT); j = Conn(PORT); j.do('OUTPUT', 'json')
    r.do('SET', 'k', 'a', 'POINT', 1, 1); r.do('SET', 'k', 's', 'STRING', 'x'); r.do('CLIENT','SETNAME','0x1p4'); j.do('CLIENT','SETNAME','1_0')
    r.do('CONFIG','SET','requirepass','007'); r.do('AUTH','007'); j.do('AUTH','007')
    r.do('CONFIG','SET','maxmemory','5000')
    # SERVER
    rs = dict(zip(*[iter(r.do('SERVER'))]*2)); js = j.dojson('SERVER')[0]['stats']
    for k, v in js.items():
        rv = rs[k.encode()].decode()
        if k not in VOL and str(v).lower() != rv.lower() and not (isinstance(v,(int,float)) and float(rv)==float(v)):
            print('SERVER diff', k, v, rv)
    print('SERVER keys equal', set(js) == {k.decode() for k in rs})
    rs = dict(zip(*[iter(r.do('SERVER','ext'))]*2)); js = j.dojson('SERVER','ext')[0]['stats']
    print('SERVER ext keys equal', set(js) == {k.decode() for k in rs})
    # CONFIG GET
    rc = r.do('CONFIG','GET','*'); rc = dict(zip(rc[0::2], rc[1::2])); jc = j.dojson('CONFIG','GET','*')[0]['properties']
    for k, v in jc.items():
        if rc[k.encode()].decode() != v: print('CONFIG diff', k, v, rc[k.encode()])
    print('CONFIG GET', jc)
    print('STATS', r.do('STATS','k','nokey'), j.dojson('STATS','k','nokey')[0]['stats'])
    print('ROLE', r.do('ROLE'), j.dojson('ROLE')[0]['role'])
    print('CLIENT LIST', r.do('CLIENT','LIST'), j.dojson('CLIENT','LIST')[0]['list'])
    ri = r.do('INFO').decode(); ji = j.dojson('INFO')[0]['info']
    rk = {l.split(':')[0] for l in ri.split('\r\n') if ':' in l and not l.startswith('#')}
    print('INFO keys equal', rk == set(ji), rk ^ set(ji))
    print('HEALTHZ', r.do('HEALTHZ'), j.dojson('HEALTHZ')[0])
    print('OUTPUT', r.do('OUTPUT'), j.dojson('OUTPUT')[0])
    print('GC', r.do('GC'), j.dojson('GC')[0])
finally:
    stop(p)

from t38 import *
s = Server(24907, '/tmp/reader-out/R9/data/p7')
c = Conn(24907)
cj = Conn(24907); cj.cmd('OUTPUT','json')
try:
    show(c,'SET','k','a','POINT',1,2)
    show(c,'FSET','k','a','s0','"0"','s1','"12"','st','"true"','sn','"null"','sj','"{\\"a\\":1}"','snan','"nan"','sp','" x "','se','""', 'big', '1e999', 'hex','0x10')
    show(c,'GET','k','a','WITHFIELDS')
    show(cj,'GET','k','a','WITHFIELDS')
    show(c,'SCAN','k','WHERE','s1','==',12,'IDS')
    show(c,'AOFSHRINK'); time.sleep(1)
    c.close(); cj.close(); s.restart()
    c = Conn(24907); cj = Conn(24907); cj.cmd('OUTPUT','json')
    show(c,'GET','k','a','WITHFIELDS')
    show(cj,'GET','k','a','WITHFIELDS')
finally:
    s.stop()
print(open('/tmp/reader-out/R9/data/p7/appendonly.aof','rb').read())

import sys
from t38 import *
n = int(sys.argv[1]); which = sys.argv[2]
s = Server(24911, '/tmp/reader-out/R9/data/p11')
c = Conn(24911)
c.s.settimeout(120)
try:
    c.cmd('SET','k','a','FIELD','f',1,'POINT',1,2)
    deep = '['*n
    try:
        if which == 'obj':
            r = c.cmd('SET','k','b','OBJECT','{"type":"Polygon","coordinates":' + '['*n + ']'*n + '}')
        elif which == 'obj2':
            r = c.cmd('SET','k','b','OBJECT','{"type":"Feature","geometry":{"type":"Point","coordinates":[1,2]},"properties":' + '['*n + ']'*n + '}')
        elif which == 'where':
            r = c.cmd('SCAN','k','WHERE','f',deep,'+inf','COUNT')
        elif which == 'wherein':
            r = c.cmd('SCAN','k','WHEREIN','f',1,deep,'COUNT')
        elif which == 'fsetvalid':
            r = c.cmd('FSET','k','a','f','['*n + ']'*n)
        print('reply', repr(r)[:100])
    except (EOFError, ConnectionError, OSError) as e:
        print('connection lost', repr(e))
    time.sleep(0.5)
    print('server alive:', s.p.poll() is None)
finally:
    s.stop(kill=True)
import subprocess
print(subprocess.run("grep -m2 -n 'fatal\\|goroutine stack\\|panic' /tmp/reader-out/R9/data/p11/server.log", shell=True, capture_output=True, text=True).stdout)

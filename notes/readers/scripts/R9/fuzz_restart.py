# random edge-y keyspace commands; compare full dump before and after restart
import random, json, sys
from t38 import *
seed = int(sys.argv[1]) if len(sys.argv) > 1 else 1
N = int(sys.argv[2]) if len(sys.argv) > 2 else 400
rnd = random.Random(seed)
PORT = 24902
s = Server(PORT, '/tmp/reader-out/R9/data/fz')
keys = ['k1','k2','K1','k.3']
ids = ['a','b','A','', 'a.b', '0', '-1']
fnames = ['f','g','F','j','j.b','f.0','', ' h ','0']
fvals = ['0','1','0.0','-0','1e999','abc','ABC','"q"','"12"','{"b":1}','[1,2]','true','false','null','nan','inf','-inf','',' 7 ','+5','0x10','1_0', '00', 'Infinity', '"nan"', '{"b":{"c":[1,2]}}']
paths = ['a','a.b','arr.-1','arr.0','arr.2','-1','0','1',':1','a\\.b','#','arr.#','a.#','*','a*','a?','a\\*','type','coordinates.0','coordinates.2','properties.p','geometry.coordinates.0','id','a.-1','arr.-1.x','arr.#.x','@this','a|b','a.@reverse','..a','a..b','.','!','#(a=1)','arr.#(x=1).y','"a"']
jvals = ['1','x','true','null','01','-','1e5','{"x":1}','[1]','{bad','','"s"',' 1','200','abc def','\\','"']
def obj():
    r = rnd.random()
    if r < .25: return ['POINT', rnd.choice(['1','-1','90','33.5']), rnd.choice(['2','180','-115.1'])]
    if r < .35: return ['POINT', '1', '2', rnd.choice(['0','5','-0','1e3'])]
    if r < .45: return ['BOUNDS','1','2','3','4']
    if r < .55: return ['HASH', rnd.choice(['9q9','s','9tbnthxzr0','u4pruydqqvj'])]
    if r < .75: return ['STRING', rnd.choice(['hello','','{"a":1,"arr":[1,2,{"x":1}]}','[1,2,3]','5','"s"','{"type":"Point","coordinates":[1,2]}'])]
    return ['OBJECT', rnd.choice([
        '{"type":"Point","coordinates":[1,2]}',
        '{"type":"Point","coordinates":[1,2,3]}',
        '{"type":"Feature","geometry":{"type":"Point","coordinates":[1,2]},"properties":{"p":1}}',
        '{"type":"Feature","geometry":{"type":"Point","coordinates":[1,2]},"properties":{"p":1},"id":7}',
        '{"type":"LineString","coordinates":[[1,2],[3,4]]}',
        '{"type":"GeometryCollection","geometries":[]}',
        '{"type":"FeatureCollection","features":[]}',
        '{"type":"Polygon","coordinates":[[[0,0],[1,0],[1,1],[0,1],[0,0]]]}',
        '{"type":"MultiPoint","coordinates":[[1,2],[3,4]]}',
        '{"type":"Feature","geometry":{"type":"Point","coordinates":[1,2]},"properties":{"type":"Circle","radius":100,"radius_units":"m"}}',
    ])]
def gen():
    k = rnd.choice(keys); i = rnd.choice(ids)
    r = rnd.random()
    if r < .25:
        opts = []
        for _ in range(rnd.randrange(4)):
            o = rnd.random()
            if o < .5: opts += ['FIELD', rnd.choice(fnames), rnd.choice(fvals)]
            elif o < .7: opts += ['EX', rnd.choice(['1000','1e30','5e3','nan','99999999999'])]
            elif o < .85: opts += ['NX']
            else: opts += ['XX']
        parts = [opts, obj()]
        if rnd.random() < .2: parts.reverse()
        return ['SET', k, i] + parts[0] + parts[1]
    if r < .4:
        a = ['FSET', k, i]
        if rnd.random() < .3: a.append('XX')
        for _ in range(rnd.randrange(1,4)): a += [rnd.choice(fnames), rnd.choice(fvals)]
        if rnd.random() < .1: a.append('xx')
        return a
    if r < .45: return ['DEL', k, i] + (['ERRON404'] if rnd.random()<.3 else [])
    if r < .48: return ['PDEL', k, rnd.choice(['a*','*','A','[ab]','a.?','\\a'])]
    if r < .50: return ['DROP', k]
    if r < .55: return [rnd.choice(['RENAME','RENAMENX']), k, rnd.choice(keys)]
    if r < .60: return ['EXPIRE', k, i, rnd.choice(['1000','1e30','nan','5000.5','99999999999'])]
    if r < .65: return ['PERSIST', k, i]
    if r < .85:
        a = ['JSET', k, i, rnd.choice(paths), rnd.choice(jvals)]
        if rnd.random() < .3: a.append(rnd.choice(['RAW','STR']))
        return a
    if r < .99: return ['JDEL', k, i, rnd.choice(paths)]
    return ['FLUSHDB']

def dump():
    c = Conn(PORT)
    cj = Conn(PORT); cj.cmd('OUTPUT','json')
    out = {}
    ks = c.cmd('KEYS','*')
    for k in ks:
        r = c.cmd("SCAN", k, "LIMIT", 100000)
        if isinstance(r, Exception): print("SCAN ERR", repr(k), r); out[repr(k)] = str(r); continue
        rj = json.loads(cj.cmd('SCAN', k, 'LIMIT', 100000))
        del rj['elapsed']
        ent = {}
        for it in r[1]:
            idv = it[0]
            ttl = c.cmd('TTL', k, idv)
            ent[repr(idv)] = (it[1:], ttl != -1)
        out[repr(k)] = (ent, json.dumps(rj, sort_keys=True))
    st = c.cmd('SERVER')
    c.close(); cj.close()
    return out

c = Conn(PORT)
hist = []
rc = 0
try:
    rounds = 0
    for n in range(N):
        a = gen()
        try:
            r = c.cmd(*a)
        except EOFError:
            print('CONNECTION LOST after', a); rc = 2; break
        hist.append((a, r))
        if (n+1) % 40 == 0:
            before = dump()
            c.close()
            try:
                s.restart(kill=rnd.random()<.5)
            except RuntimeError as e:
                print('SERVER FAILED TO RESTART', e); rc = 3
                for h in hist[-45:]: print('   ', h)
                break
            after = dump()
            c = Conn(PORT)
            if before != after:
                rc = 1
                print('MISMATCH after restart at step', n)
                for k in set(before)|set(after):
                    if before.get(k) != after.get(k):
                        print(' key', k); print('  before', before.get(k)); print('  after ', after.get(k))
                for h in hist[-45:]: print('   ', h)
                break
finally:
    s.stop()
print('seed', seed, 'rc', rc)
sys.exit(rc)

from t38 import *
s = Server(24908, '/tmp/reader-out/R9/data/p8')
c = Conn(24908)
try:
    show(c,'SET','k','a','FIELD',' h ',5,'POINT',1,2)
    show(c,'GET','k','a','WITHFIELDS')
    show(c,'FGET','k','a',' h ')
    show(c,'FEXISTS','k','a',' h ')
    show(c,'FGET','k','a','h')
    show(c,'FSET','k','a',' h ',5)
    show(c,'FSET','k','a',' h ',6)
    show(c,'FGET','k','a',' h ')
    show(c,'SCAN','k','WHERE',' h ','==',6,'IDS')
    show(c,'SCAN','k','WHERE','h','==',6,'IDS')
finally:
    s.stop()

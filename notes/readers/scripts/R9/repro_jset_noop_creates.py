# C01: JSET with a complex path that matches nothing replies OK, and on a missing id/key
# it creates an empty-string object (and the collection).
from t38 import *
s = Server(24920, '/tmp/reader-out/R9/data/r1')
c = Conn(24920)
try:
    show(c,'KEYS','*')
    show(c,'JSET','newkey','newid','a*','VAL')
    show(c,'JGET','newkey','newid','a*')
    show(c,'KEYS','*')
    show(c,'GET','newkey','newid')
    show(c,'SCAN','newkey')
    show(c,'JSET','newkey','id2','#','VAL')
    show(c,'JSET','newkey','id3','x.#(a=1).b','VAL')
    show(c,'JSET','newkey','id4','@this','VAL')
    show(c,'SCAN','newkey','IDS')
    c.close(); s.restart(); c = Conn(24920)
    show(c,'SCAN','newkey')
    print('-- compare: simple path on missing id creates a document, JDEL on missing id creates nothing')
    show(c,'JSET','k2','i','a','VAL'); show(c,'GET','k2','i')
    show(c,'JDEL','k3','i','a'); show(c,'KEYS','*')
finally:
    s.stop()

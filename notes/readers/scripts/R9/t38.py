import socket, subprocess, time, os, shutil, signal

BIN = '/tmp/reader-out/R9/t38-R9'

class Server:
    def __init__(self, port, d, fresh=True, extra=()):
        self.port = port
        self.dir = d
        if fresh and os.path.exists(d):
            shutil.rmtree(d)
        os.makedirs(d, exist_ok=True)
        self.extra = list(extra)
        self.start()

    def start(self):
        self.log = open(os.path.join(self.dir, 'server.log'), 'ab')
        self.p = subprocess.Popen([BIN, '-d', self.dir, '-p', str(self.port), '--dev'] + self.extra,
                                  stdout=self.log, stderr=self.log)
        for _ in range(100):
            try:
                c = Conn(self.port)
                r = c.cmd('PING')
                c.close()
                if r == 'PONG':
                    # wait for loading
                    c = Conn(self.port)
                    for _ in range(1200):
                        r = c.cmd('SERVER')
                        if not (isinstance(r, Exception) and 'LOADING' in str(r)):
                            break
                        time.sleep(0.05)
                    c.close()
                    return
            except (ConnectionRefusedError, OSError):
                pass
            if self.p.poll() is not None:
                raise RuntimeError('server exited rc=%s' % self.p.returncode)
            time.sleep(0.05)
        raise RuntimeError('server did not start')

    def stop(self, kill=False):
        if self.p.poll() is None:
            self.p.send_signal(signal.SIGKILL if kill else signal.SIGTERM)
            self.p.wait()
        self.log.close()

    def restart(self, kill=False):
        self.stop(kill)
        self.start()


class RespErr(Exception):
    pass


class Conn:
    def __init__(self, port):
        self.s = socket.create_connection(('127.0.0.1', port))
        self.f = self.s.makefile('rb')

    def close(self):
        self.s.close()

    def send(self, *args):
        out = b'*%d\r\n' % len(args)
        for a in args:
            if isinstance(a, str):
                a = a.encode('utf-8', 'surrogateescape')
            elif not isinstance(a, bytes):
                a = str(a).encode()
            out += b'$%d\r\n%s\r\n' % (len(a), a)
        self.s.sendall(out)

    def read(self):
        line = self.f.readline()
        if not line:
            raise EOFError
        t, rest = line[:1], line[1:-2]
        if t == b'+':
            return rest.decode('utf-8', 'replace')
        if t == b'-':
            return RespErr(rest.decode('utf-8', 'replace'))
        if t == b':':
            return int(rest)
        if t == b'$':
            n = int(rest)
            if n < 0:
                return None
            data = self.f.read(n + 2)[:-2]
            try:
                return data.decode('utf-8')
            except UnicodeDecodeError:
                return data
        if t == b'*':
            n = int(rest)
            if n < 0:
                return None
            return [self.read() for _ in range(n)]
        raise ValueError(line)

    def cmd(self, *args):
        self.send(*args)
        return self.read()


def show(c, *args):
    r = c.cmd(*args)
    print('  %-70s -> %r' % (' '.join(repr(a) if (isinstance(a, str) and (' ' in a or a == '')) else str(a) for a in args), r))
    return r

# C01: GET/SCAN ... HASH of an object at latitude 90 (or longitude 180) returns the geohash of the
# opposite edge of the world (south pole / -180).
from t38 import *
s = Server(24921, '/tmp/reader-out/R9/data/r2')
c = Conn(24921)
try:
    show(c,'SET','k','np','POINT',90,10)
    show(c,'GET','k','np','HASH',6)            # expected 'upzpgx' (cell whose max lat is 90)
    show(c,'SCAN','k','HASHES',6)
    show(c,'INTERSECTS','k','IDS','HASH','h0p058')   # the cell GET named (lat -90..) does not hold the object
    show(c,'INTERSECTS','k','IDS','HASH','upzpgx')   # the cell that does
    show(c,'SET','k','np2','POINT',89.99999999,10)
    show(c,'GET','k','np2','HASH',6)
    show(c,'SET','k','am','POINT',10,180)
    show(c,'GET','k','am','HASH',6)            # 's' side expected 'xbpbpb'; gives the lon -180 cell
    show(c,'SET','k','both','POINT',90,180)
    show(c,'GET','k','both','HASH',6)          # '000000' = (-90,-180)
finally:
    s.stop()

import random
from t38 import *
s = Server(24905, '/tmp/reader-out/R9/data/p5')
c = Conn(24905)
rnd = random.Random(5)
try:
    # warm up sstring with many names so ids need 2-3 byte varints
    c.cmd('SET','w','w','POINT',1,2)
    for i in range(0, 20000, 50):
        a = ['FSET','w','w']
        for j in range(i, i+50): a += ['warm%d'%j, '1']
        c.cmd(*a)
    c.cmd('DROP','w')
    names = ['n%d'%i for i in range(200)] + ['L'+'x'*rnd.randrange(100,400)+str(i) for i in range(20)]
    model = {}
    c.cmd('SET','k','a','POINT',1,2)
    bad = 0
    for step in range(3000):
        n = rnd.choice(names)
        r = rnd.random()
        if r < .25: v = '0'
        elif r < .5: v = str(rnd.randrange(1,10**rnd.randrange(1,18)))
        elif r < .7: v = 's' * rnd.choice([0,1,126,127,128,129,16383,16384,20000])
        elif r < .8: v = rnd.choice(['true','false','null'])
        else: v = '{"a":"%s"}' % ('y'*rnd.choice([1,120,130,17000]))
        exp_changed = 1 if model.get(n,'0') != v else 0
        got = c.cmd('FSET','k','a',n,v)
        if v == '0': model.pop(n, None)
        else: model[n] = v
        if got != exp_changed:
            bad += 1; print('FSET reply', n[:10], v[:20], got, exp_changed)
        if step % 100 == 0:
            r = c.cmd('GET','k','a','WITHFIELDS')
            fl = r[1] if len(r) > 1 else []
            got = dict(zip(fl[::2], fl[1::2]))
            if got != model or fl[::2] != sorted(fl[::2]):
                bad += 1; print('MISMATCH at', step, set(got.items()) ^ set(model.items()))
    print('bad', bad, 'fields', len(model))
    c.close(); s.restart(); c = Conn(24905)
    r = c.cmd('GET','k','a','WITHFIELDS')
    fl = r[1] if len(r) > 1 else []
    print('after restart equal:', dict(zip(fl[::2], fl[1::2])) == model)
finally:
    s.stop()

from t38 import *
s = Server(24903, '/tmp/reader-out/R9/data/p3')
c = Conn(24903)
paths = ['a','a.b','arr.-1','arr.0','arr.2','-1','0','1',':1','a\\.b','#','arr.#','a.#','*','a*','a?','a\\*','a.-1','arr.-1.x','arr.#.x','@this','a|b','a.@reverse','..a','a..b','.','!','#(a=1)','arr.#(x=1).y','"a"','a\\','\\','a\\\\b','a b','a:b','a.:1','~true','a\x00b','\xc3\xa9']
try:
    n=0
    for start in [None,'{"a":{"b":[1,2]},"arr":[{"x":1,"y":2},3]}','[1,2,3]','5','hello']:
        for p in paths:
            n+=1
            i='i%d'%n
            if start is not None: c.cmd('SET','j',i,'STRING',start)
            r=c.cmd('JSET','j',i,p,'VAL')
            g=c.cmd('JGET','j',i,p)
            o=c.cmd('GET','j',i)
            flag = '' if (isinstance(r,Exception) or g=='VAL') else '   <<<<'
            print('%-45r path=%-16r JSET->%-50r JGET->%-12r GET->%r%s'%(start,p,r,g,o,flag))
finally:
    s.stop()

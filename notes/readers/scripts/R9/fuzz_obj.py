# mutate GeoJSON documents / JSET paths, watch for crash
import random, sys
from t38 import *
seed = int(sys.argv[1]); N = int(sys.argv[2])
rnd = random.Random(seed)
s = Server(24912, '/tmp/reader-out/R9/data/fo')
c = Conn(24912)
base = [
 '{"type":"Point","coordinates":[1,2]}',
 '{"type":"Point","coordinates":[1,2,3],"bbox":[0,0,3,3]}',
 '{"type":"MultiPoint","coordinates":[[1,2],[3,4]]}',
 '{"type":"LineString","coordinates":[[1,2],[3,4]]}',
 '{"type":"MultiLineString","coordinates":[[[1,2],[3,4]],[[5,6],[7,8]]]}',
 '{"type":"Polygon","coordinates":[[[0,0],[10,0],[10,10],[0,10],[0,0]],[[1,1],[2,1],[2,2],[1,2],[1,1]]]}',
 '{"type":"MultiPolygon","coordinates":[[[[0,0],[10,0],[10,10],[0,10],[0,0]]],[[[20,20],[30,20],[30,30],[20,20]]]]}',
 '{"type":"GeometryCollection","geometries":[{"type":"Point","coordinates":[1,2]},{"type":"LineString","coordinates":[[1,2],[3,4]]}]}',
 '{"type":"Feature","geometry":{"type":"Point","coordinates":[1,2]},"properties":{"a":1},"id":"x"}',
 '{"type":"Feature","geometry":{"type":"Point","coordinates":[1,2]},"properties":{"type":"Circle","radius":1000,"radius_units":"km"}}',
 '{"type":"FeatureCollection","features":[{"type":"Feature","geometry":{"type":"Point","coordinates":[1,2]},"properties":{}}]}',
]
toks = ['null','true','[]','{}','""','"x"','0','-1','1e999','-1e999','1e-999','[1]','[[]]','[null,null]','{"type":"Point"}','{"type":"Point","coordinates":[]}','"Circle"','90','180','-180','91','1e30','NaN','[1,2,3,4,5]','[[1,2]]','{"type":"Polygon","coordinates":[]}','{"type":"Polygon","coordinates":[[]]}','{"type":"LineString","coordinates":[[1,2]]}','{"type":"GeometryCollection","geometries":[]}']
paths = ['type','coordinates','coordinates.0','coordinates.0.0','coordinates.0.0.0','coordinates.0.-1','coordinates.-1','bbox','bbox.0','bbox.-1','geometry','geometry.type','geometry.coordinates','geometry.coordinates.0','geometries','geometries.0','geometries.-1','geometries.0.type','features','features.0','features.0.geometry','features.-1','properties','properties.type','properties.radius','properties.radius_units','id']
import re
n = 0
try:
    for it in range(N):
        doc = rnd.choice(base)
        r = rnd.random()
        if r < .5:
            # textual mutation: replace a random JSON number/array/string token
            spans = [m.span() for m in re.finditer(r'-?\d+(\.\d+)?|"[A-Za-z_]*"|\[[^\[\]]*\]', doc)]
            for _ in range(rnd.randrange(1,3)):
                if not spans: break
                a,b = rnd.choice(spans)
                doc2 = doc[:a] + rnd.choice(toks) + doc[b:]
                doc = doc2
                spans = [m.span() for m in re.finditer(r'-?\d+(\.\d+)?|"[A-Za-z_]*"|\[[^\[\]]*\]', doc)]
            cmd = ['SET','k','o','OBJECT',doc]
            c.cmd(*cmd)
        else:
            c.cmd('SET','k','o','OBJECT',doc)
            for _ in range(rnd.randrange(1,4)):
                if rnd.random() < .7:
                    cmd = ['JSET','k','o',rnd.choice(paths),rnd.choice(toks),'RAW']
                else:
                    cmd = ['JDEL','k','o',rnd.choice(paths)]
                c.cmd(*cmd)
        # exercise reads
        for q in (['GET','k','o'],['GET','k','o','POINT'],['GET','k','o','BOUNDS'],['GET','k','o','HASH','7'],['BOUNDS','k'],['SCAN','k'],['WITHIN','k','BOUNDS',-90,-180,90,180],['NEARBY','k','POINT',1,2]):
            cmd = q
            c.cmd(*q)
        n += 1
    print('ok', n)
except (EOFError, ConnectionError) as e:
    print('CRASH/EOF after', cmd if len(str(cmd))<500 else str(cmd)[:500], 'doc=', doc)
    time.sleep(.3)
    print('server alive', s.p.poll() is None)
finally:
    s.stop(kill=True)

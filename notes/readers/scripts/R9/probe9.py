# deep nesting -> stack exhaustion?
import sys
from t38 import *
n = int(sys.argv[1]); which = sys.argv[2]
s = Server(24909, '/tmp/reader-out/R9/data/p9')
c = Conn(24909)
try:
    c.cmd('SET','k','a','POINT',1,2)
    deep = '['*n
    try:
        if which == 'fset':
            r = c.cmd('FSET','k','a','f',deep)
        elif which == 'set':
            r = c.cmd('SET','k','b','OBJECT',deep)
        elif which == 'jset':
            r = c.cmd('JSET','k','s','a',deep,'RAW')
        elif which == 'string':
            r = c.cmd('SET','k','s','STRING',deep); print(repr(r)[:80]); r = c.cmd('JGET','k','s','a')
        print('reply', repr(r)[:100])
    except (EOFError, ConnectionError) as e:
        print('connection lost', e)
    time.sleep(0.5)
    print('server alive:', s.p.poll() is None)
finally:
    s.stop()
import subprocess
print(subprocess.run("grep -m3 -n 'fatal\\|stack\\|panic' /tmp/reader-out/R9/data/p9/server.log", shell=True, capture_output=True, text=True).stdout)

# C01: JDEL on a geometry object answers +OK (the SET reply) instead of :1
from t38 import *
s = Server(24922, '/tmp/reader-out/R9/data/r3')
c = Conn(24922)
try:
    show(c,'SET','k','str','STRING','{"a":1,"b":2}')
    show(c,'JDEL','k','str','a')
    show(c,'SET','k','geo','OBJECT','{"type":"Feature","geometry":{"type":"Point","coordinates":[1,2]},"properties":{"a":1,"b":2}}')
    show(c,'JDEL','k','geo','properties.a')
    show(c,'JDEL','k','geo','properties.zzz')
finally:
    s.stop()

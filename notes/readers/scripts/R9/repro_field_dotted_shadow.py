# C01: a field literally named "j.b" is shadowed by member b of a JSON field "j"
from t38 import *
s = Server(24924, '/tmp/reader-out/R9/data/r5')
c = Conn(24924)
try:
    show(c,'SET','k','a','POINT',1,2)
    show(c,'FSET','k','a','j','{"b":1}')
    show(c,'FSET','k','a','j.b',1)     # -> 0: "unchanged", nothing stored
    show(c,'GET','k','a','WITHFIELDS')
    show(c,'FSET','k','a','j.b',7)     # -> 1, stored
    show(c,'GET','k','a','WITHFIELDS') # shows j.b = 7
    show(c,'FGET','k','a','j.b')       # -> 1 (reads j's member, not the field just written)
    show(c,'SCAN','k','WHERE','j.b','==',7,'IDS')
    show(c,'SCAN','k','WHERE','j.b','==',1,'IDS')
    show(c,'FSET','k','a','j.b',0)     # deletes the literal field, reply 1
    show(c,'FSET','k','a','j.b',0)     # literal field is gone, still reply 1 (compares against j's member)
finally:
    s.stop()

# C16: one command with a deeply nested JSON-looking argument kills the whole process
# (gjson.Valid recurses per nesting level -> "fatal error: stack overflow", not recoverable)
import sys
from t38 import *
which = sys.argv[1] if len(sys.argv) > 1 else 'where'
n = int(sys.argv[2]) if len(sys.argv) > 2 else 8000000
s = Server(24923, '/tmp/reader-out/R9/data/r4')
c = Conn(24923); other = Conn(24923)
try:
    print(c.cmd('SET','k','a','FIELD','f',1,'POINT',1,2))
    deep = '['*n
    try:
        if which == 'where':   r = c.cmd('SCAN','k','WHERE','f',deep,'+inf','COUNT')     # a read-only command
        elif which == 'fset':  r = c.cmd('FSET','k','a','f',deep)
        elif which == 'field': r = c.cmd('SET','k','b','FIELD','f',deep,'POINT',1,2)
        elif which == 'obj':   r = c.cmd('SET','k','b','OBJECT','{"type":"Polygon","coordinates":' + '['*n + ']'*n + '}')
        print('reply', repr(r)[:100])
    except (EOFError, ConnectionError, OSError) as e:
        print('connection lost', repr(e))
    time.sleep(0.5)
    try: print('other connection PING:', other.cmd('PING'))
    except Exception as e: print('other connection:', repr(e))
    print('server alive:', s.p.poll() is None, 'exit code', s.p.poll())
finally:
    s.stop(kill=True)
import subprocess
print(subprocess.run("grep -m3 'fatal\\|goroutine stack\\|gjson.valid' /tmp/reader-out/R9/data/r4/server.log", shell=True, capture_output=True, text=True).stdout)

# nested GeometryCollection: parse time grows quadratically, under the write lock
import sys
from t38 import *
s = Server(24910, '/tmp/reader-out/R9/data/p10')
c = Conn(24910)
try:
    for n in [5000, 10000, 20000, 40000]:
        deep = '{"type":"GeometryCollection","geometries":['*n + '{"type":"Point","coordinates":[1,2]}' + ']}'*n
        t = time.time()
        r = c.cmd('SET','k','b','OBJECT',deep)
        print('levels', n, 'bytes', len(deep), 'reply', repr(r)[:60], 'secs %.2f' % (time.time()-t))
finally:
    s.stop(kill=True)

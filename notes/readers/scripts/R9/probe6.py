from t38 import *
s = Server(24906, '/tmp/reader-out/R9/data/p6')
c = Conn(24906)
try:
    show(c,'SET','k','a','POINT',90,180)
    show(c,'GET','k','a','HASH',6)
    show(c,'SET','k','a','POINT',90,0)
    show(c,'GET','k','a','HASH',6)
    show(c,'SET','k','a','POINT',0,180)
    show(c,'GET','k','a','HASH',6)
    show(c,'SET','k','a','POINT',89.9999999,179.9999999)
    show(c,'GET','k','a','HASH',6)
    show(c,'SET','k','a','POINT',-90,-180)
    show(c,'GET','k','a','HASH',6)
    show(c,'SET','k','a','POINT',100,200)
    show(c,'GET','k','a','HASH',6)
    import random
    rnd = random.Random(1)
    B32 = '0123456789bcdefghjkmnpqrstuvwxyz'
    bad = 0
    for i in range(3000):
        n = rnd.randrange(1,13)
        h = ''.join(rnd.choice(B32) for _ in range(n))
        c.cmd('SET','k','h','HASH',h)
        g = c.cmd('GET','k','h','HASH',n)
        if g != h:
            bad += 1
            if bad < 10: print('roundtrip', h, g, c.cmd('GET','k','h'))
    print('bad roundtrips', bad)
finally:
    s.stop()

#!/usr/bin/env python3
# Healthy endpoint. A SET whose notification was generated (and the SET acknowledged) while the
# hook existed is never delivered when the hook is deleted right afterwards: the manager goroutine
# sees closed==true before it ever runs proc().
import sys, time, json
sys.path.insert(0, '/tmp/reader-out/R7')
from lib import *

PORT = 24702
p = start_server(PORT, 'b')
try:
    c = Client(PORT)
    ep = Endpoint(24712)
    rounds = 40
    lost = 0
    pipelined = len(sys.argv) > 1 and sys.argv[1] == 'pipe'
    for i in range(rounds):
        name = 'h%d' % i
        assert c.cmd('SETHOOK', name, 'http://127.0.0.1:24712/', 'NEARBY', 'fleet', 'FENCE', 'DETECT', 'inside',
                     'POINT', 33, -115, 100000) == 1
        time.sleep(0.05)
        if pipelined:
            c.sendraw(enc('SET', 'fleet', 't%d' % i, 'POINT', 33, -115) + enc('DELHOOK', name))
            r1, r2 = c.read(), c.read()
        else:
            r1 = c.cmd('SET', 'fleet', 't%d' % i, 'POINT', 33, -115)   # acknowledged ...
            r2 = c.cmd('DELHOOK', name)                                  # ... before the hook is deleted
        assert r1 == 'OK' and r2 == 1, (r1, r2)
    time.sleep(2)
    got = [json.loads(b) for b in ep.ok()]
    hooks = set(j['hook'] for j in got)
    missing = [i for i in range(rounds) if 'h%d' % i not in hooks]
    print('rounds=%d delivered=%d lost=%d (hooks %s)' % (rounds, len(hooks), len(missing), missing[:10]))
finally:
    stop_server(p)

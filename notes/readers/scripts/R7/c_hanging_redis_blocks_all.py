#!/usr/bin/env python3
# One hook points at a redis:// endpoint that accepts the connection but never answers (hang).
# After that, the healthy HTTP endpoint of a completely different hook receives nothing any more:
# RedisConn.Send blocks forever holding conn.mu, Manager.run()/Manager.Send() call conn.Expired()
# (which takes conn.mu) while holding the manager-wide epc.mu.
import sys, time, json, socket, threading
sys.path.insert(0, '/tmp/reader-out/R7')
from lib import *

PORT = 24704
HANG = 24720

def hang_server():
    ls = socket.socket()
    ls.setsockopt(socket.SOL_SOCKET, socket.SO_REUSEADDR, 1)
    ls.bind(('127.0.0.1', HANG))
    ls.listen(16)
    conns = []
    while True:
        c, _ = ls.accept()
        conns.append(c)   # keep open, never reply

threading.Thread(target=hang_server, daemon=True).start()
p = start_server(PORT, 'c')
try:
    c = Client(PORT)
    ep = Endpoint(24714)
    assert c.cmd('SETHOOK', 'good', 'http://127.0.0.1:24714/', 'NEARBY', 'buses', 'FENCE', 'DETECT', 'inside',
                 'POINT', 10, 10, 100000) == 1
    assert c.cmd('SETHOOK', 'bad', 'redis://127.0.0.1:%d/chan' % HANG, 'NEARBY', 'fleet', 'FENCE', 'DETECT', 'inside',
                 'POINT', 33, -115, 100000) == 1
    print('SET buses b0:', c.cmd('SET', 'buses', 'b0', 'POINT', 10, 10))
    time.sleep(1)
    print('good endpoint got so far:', [json.loads(b)['id'] for b in ep.ok()])
    print('SET fleet t0 (goes to the hanging redis endpoint):', c.cmd('SET', 'fleet', 't0', 'POINT', 33, -115))
    time.sleep(2.5)
    for i in range(1, 6):
        print('SET buses b%d:' % i, c.cmd('SET', 'buses', 'b%d' % i, 'POINT', 10, 10))
    wait = float(sys.argv[1]) if len(sys.argv) > 1 else 8
    time.sleep(wait)
    print('after %.0fs the good endpoint got: %s  (expected b0..b5)' % (wait, [json.loads(b)['id'] for b in ep.ok()]))
    print('SERVER still answers:', c.cmd('PING'))
finally:
    stop_server(p)

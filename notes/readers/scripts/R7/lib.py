import socket, subprocess, os, shutil, time, threading, json, sys
from http.server import BaseHTTPRequestHandler, ThreadingHTTPServer

BIN = '/tmp/reader-out/R7/t38-R7'


def start_server(port, name, extra=()):
    d = '/tmp/reader-out/R7/data-%s' % name
    shutil.rmtree(d, ignore_errors=True)
    os.makedirs(d)
    log = open(d + '.log', 'w')
    p = subprocess.Popen([BIN, '-d', d, '-p', str(port), '--dev', '-vv'] + list(extra),
                         stdout=log, stderr=log)
    for _ in range(100):
        try:
            c = Client(port)
            if c.cmd('PING') == 'PONG':
                c.close()
                return p
        except Exception:
            time.sleep(0.1)
    raise RuntimeError('server did not start')


def restart_server(port, name, extra=()):
    d = '/tmp/reader-out/R7/data-%s' % name
    log = open(d + '.log', 'a')
    p = subprocess.Popen([BIN, '-d', d, '-p', str(port), '--dev', '-vv'] + list(extra),
                         stdout=log, stderr=log)
    for _ in range(100):
        try:
            c = Client(port)
            if c.cmd('PING') == 'PONG':
                c.close()
                return p
        except Exception:
            time.sleep(0.1)
    raise RuntimeError('server did not start')


def stop_server(p):
    p.terminate()
    try:
        p.wait(5)
    except Exception:
        p.kill()


def enc(*args):
    out = b'*%d\r\n' % len(args)
    for a in args:
        if not isinstance(a, bytes):
            a = str(a).encode()
        out += b'$%d\r\n%s\r\n' % (len(a), a)
    return out


class Client:
    def __init__(self, port, timeout=10):
        self.s = socket.create_connection(('127.0.0.1', port))
        self.s.settimeout(timeout)
        self.buf = b''

    def close(self):
        try:
            self.s.close()
        except Exception:
            pass

    def send(self, *args):
        self.s.sendall(enc(*args))

    def sendraw(self, b):
        self.s.sendall(b)

    def _fill(self):
        d = self.s.recv(65536)
        if not d:
            raise EOFError
        self.buf += d

    def _line(self):
        while b'\r\n' not in self.buf:
            self._fill()
        i = self.buf.index(b'\r\n')
        l = self.buf[:i]
        self.buf = self.buf[i + 2:]
        return l

    def read(self):
        l = self._line()
        t = l[:1]
        if t == b'+':
            return l[1:].decode()
        if t == b'-':
            return 'ERR:' + l[1:].decode()
        if t == b':':
            return int(l[1:])
        if t == b'$':
            n = int(l[1:])
            if n < 0:
                return None
            while len(self.buf) < n + 2:
                self._fill()
            v = self.buf[:n]
            self.buf = self.buf[n + 2:]
            try:
                return v.decode()
            except Exception:
                return v
        if t == b'*':
            n = int(l[1:])
            return [self.read() for _ in range(n)]
        raise ValueError(l)

    def cmd(self, *args):
        self.send(*args)
        return self.read()


class Endpoint:
    """HTTP endpoint that records bodies. mode: callable(body)->(status, delay) or fixed."""

    def __init__(self, port, status=200):
        self.port = port
        self.status = status
        self.delay = 0
        self.got = []
        self.lock = threading.Lock()
        ep = self

        class H(BaseHTTPRequestHandler):
            protocol_version = 'HTTP/1.1'

            def log_message(self, *a):
                pass

            def do_POST(self):
                n = int(self.headers.get('Content-Length', '0'))
                body = self.rfile.read(n).decode('utf-8', 'replace')
                st = ep.status
                if ep.delay:
                    time.sleep(ep.delay)
                with ep.lock:
                    ep.got.append((time.time(), st, body))
                self.send_response(st)
                self.send_header('Content-Length', '0')
                self.end_headers()

        self.srv = ThreadingHTTPServer(('127.0.0.1', port), H)
        self.t = threading.Thread(target=self.srv.serve_forever, daemon=True)
        self.t.start()

    def ok(self):
        with self.lock:
            return [b for (_, st, b) in self.got if st == 200]

    def stop(self):
        self.srv.shutdown()
        self.srv.server_close()

#!/usr/bin/env python3
# A subscriber / live fence client that stops reading must not make writers or other subscribers
# suffer.
import sys, time, json, threading
sys.path.insert(0, '/tmp/reader-out/R7')
from lib import *

PORT = 24709
p = start_server(PORT, 'g')
try:
    c = Client(PORT)
    assert c.cmd('SETCHAN', 'ch', 'NEARBY', 'fleet', 'FENCE', 'DETECT', 'inside', 'POINT', 33, -115, 100000) == 1
    stalled = Client(PORT)
    print('stalled SUBSCRIBE:', stalled.cmd('SUBSCRIBE', 'ch'))
    stalled2 = Client(PORT)
    stalled2.send('NEARBY', 'fleet', 'FENCE', 'DETECT', 'inside', 'POINT', 33, -115, 100000)
    print('stalled live fence:', stalled2.read())
    good = Client(PORT, timeout=30)
    print('good PSUBSCRIBE:', good.cmd('PSUBSCRIBE', 'c*'))
    goodlive = Client(PORT, timeout=30)
    goodlive.send('NEARBY', 'fleet', 'FENCE', 'DETECT', 'inside', 'POINT', 33, -115, 100000)
    print('good live fence:', goodlive.read())
    N = 4000
    big = 'x' * 20000
    t0 = time.time()
    for i in range(N):
        r = c.cmd('SET', 'fleet', 't', 'FIELD', 'seq', i + 1, 'OBJECT',
                  json.dumps({"type": "Feature", "geometry": {"type": "Point", "coordinates": [-115, 33]},
                              "properties": {"pad": big}}))
        assert r == 'OK', r
    print('%d SETs (%.0f MB of notifications per receiver) took %.1fs' % (N, N * 20000 / 1e6, time.time() - t0))
    seqs = []
    for i in range(N):
        m = good.read()
        assert m[0] == 'pmessage'
        seqs.append(json.loads(m[3])['fields'].get('seq', 0))
    print('good pattern subscriber: got %d, in order: %s' % (len(seqs), seqs == list(range(1, N + 1))))
    seqs = []
    for i in range(N):
        m = goodlive.read()
        seqs.append(json.loads(m)['fields'].get('seq', 0))
    print('good live fence: got %d, in order: %s' % (len(seqs), seqs == list(range(1, N + 1))))
finally:
    stop_server(p)

#!/usr/bin/env python3
# stress: several hooks on one key, two endpoints each (first one flaky: 500 / refuse periods),
# concurrent writers. Check per hook: every write's notification delivered (answered 200) exactly
# once and in write order (writes carry a global sequence number assigned under a lock that also
# covers the SET round trip, so the send order is the apply order).
import sys, time, json, threading, random
sys.path.insert(0, '/tmp/reader-out/R7')
from lib import *

PORT = 24708
p = start_server(PORT, 'f')
random.seed(int(sys.argv[1]) if len(sys.argv) > 1 else 1)
try:
    c = Client(PORT)
    NH = 4
    eps = []
    for h in range(NH):
        e1 = Endpoint(24730 + 2 * h)
        e2 = Endpoint(24731 + 2 * h)
        eps.append((e1, e2))
        assert c.cmd('SETHOOK', 'hook%d' % h,
                     'http://127.0.0.1:%d/,http://127.0.0.1:%d/' % (e1.port, e2.port),
                     'NEARBY', 'fleet', 'FENCE', 'DETECT', 'inside', 'POINT', 33, -115, 100000) == 1
    stop = False

    def flake():
        while not stop:
            for (e1, e2) in eps:
                r = random.random()
                e1.status = 500 if r < 0.4 else 200
                r = random.random()
                e2.status = 503 if r < 0.4 else 200
            time.sleep(random.random() * 0.3)
    ft = threading.Thread(target=flake, daemon=True)
    ft.start()

    seq = [0]
    lk = threading.Lock()
    N = 150

    def writer(w):
        cc = Client(PORT)
        for i in range(N):
            with lk:
                seq[0] += 1
                s = seq[0]
                r = cc.cmd('SET', 'fleet', 'w%d' % w, 'FIELD', 'seq', s, 'POINT', 33, -115)
                assert r == 'OK', r
            time.sleep(random.random() * 0.01)
    ws = [threading.Thread(target=writer, args=(w,)) for w in range(3)]
    t0 = time.time()
    for t in ws: t.start()
    for t in ws: t.join()
    print('writes done in %.1fs, total %d' % (time.time() - t0, seq[0]))
    stop = True
    ft.join()
    for (e1, e2) in eps:
        e1.status = 200
        e2.status = 200
    time.sleep(5)
    bad = False
    for h, (e1, e2) in enumerate(eps):
        allm = sorted([(t, b) for (t, st, b) in e1.got + e2.got if st == 200])
        seqs = [int(json.loads(b)['fields']['seq']) for (t, b) in allm]
        dups = len(seqs) - len(set(seqs))
        missing = sorted(set(range(1, seq[0] + 1)) - set(seqs))
        inorder = seqs == sorted(seqs)
        print('hook%d: delivered(200)=%d dups=%d missing=%d inorder=%s' % (h, len(seqs), dups, len(missing), inorder))
        if dups or missing or not inorder:
            bad = True
            print('   missing', missing[:20])
            if not inorder:
                for i in range(1, len(seqs)):
                    if seqs[i] < seqs[i - 1]:
                        print('   out of order at', i, seqs[max(0, i - 3):i + 3]); break
    print('BAD' if bad else 'OK')
finally:
    stop_server(p)

#!/usr/bin/env python3
# Two hooks whose names differ only in bytes that are not valid UTF-8 ("h\xff" and "h\xfe") are two
# hooks for SETHOOK/HOOKS/DELHOOK, but one and the same in the delivery queue (both read back as
# "h�"): each manager takes the other's notifications and posts them to its own endpoint.
import sys, time, json
sys.path.insert(0, '/tmp/reader-out/R7')
from lib import *

PORT = 24707
p = start_server(PORT, 'e')
try:
    c = Client(PORT)
    epB = Endpoint(24717)
    A, B = b'h\xff', b'h\xfe'
    print('SETHOOK A (endpoint down, key fleet):',
          c.cmd('SETHOOK', A, 'http://127.0.0.1:24727/', 'NEARBY', 'fleet', 'FENCE', 'DETECT', 'inside', 'POINT', 33, -115, 1000))
    print('SETHOOK B (endpoint up, key buses):',
          c.cmd('SETHOOK', B, 'http://127.0.0.1:24717/', 'NEARBY', 'buses', 'FENCE', 'DETECT', 'inside', 'POINT', 10, 10, 1000))
    print('hooks:', [h[0] for h in c.cmd('HOOKS', '*')])
    print('SET fleet t1:', c.cmd('SET', 'fleet', 't1', 'POINT', 33, -115))
    time.sleep(1)
    print('SET buses b1:', c.cmd('SET', 'buses', 'b1', 'POINT', 10, 10))
    time.sleep(2)
    print("endpoint of B received (expected only key 'buses'):")
    for b in epB.ok():
        j = json.loads(b)
        print('   ', {k: j.get(k) for k in ('hook', 'key', 'id', 'detect')})
finally:
    stop_server(p)

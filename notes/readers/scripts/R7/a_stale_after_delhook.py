#!/usr/bin/env python3
# A hook whose endpoint is down is deleted while its queue is non-empty. A new, unrelated hook
# that happens to get the same name (other key, other endpoint) then receives the dead hook's
# notifications.
import sys, time, json
sys.path.insert(0, '/tmp/reader-out/R7')
from lib import *

PORT = 24701
p = start_server(PORT, 'a')
try:
    c = Client(PORT)
    epB = Endpoint(24711)
    # endpoint 24710 is closed (connection refused)
    print('SETHOOK h (dead endpoint, key fleet):',
          c.cmd('SETHOOK', 'h', 'http://127.0.0.1:24710/', 'NEARBY', 'fleet', 'FENCE', 'POINT', 33, -115, 100000))
    print('SET fleet t1:', c.cmd('SET', 'fleet', 't1', 'POINT', 33, -115))
    print('SET fleet t2:', c.cmd('SET', 'fleet', 't2', 'POINT', 33.01, -115))
    time.sleep(1.2)
    print('DELHOOK h:', c.cmd('DELHOOK', 'h'))
    print('HOOKS *:', c.cmd('HOOKS', '*'))
    time.sleep(1)
    print('SETHOOK h (healthy endpoint B, key buses):',
          c.cmd('SETHOOK', 'h', 'http://127.0.0.1:24711/', 'WITHIN', 'buses', 'FENCE', 'BOUNDS', 10, 10, 11, 11))
    time.sleep(2)
    got = epB.ok()
    print('endpoint B received %d messages (expected 0: nothing was written to "buses")' % len(got))
    for b in got:
        j = json.loads(b)
        print('   ', {k: j.get(k) for k in ('command', 'detect', 'hook', 'key', 'id')})
finally:
    stop_server(p)

#!/usr/bin/env python3
# endpoint answering 204 No Content (a success status): message is re-POSTed every 0.5 s for 30 s
import sys, time, json
sys.path.insert(0, '/tmp/reader-out/R7')
from lib import *
PORT = 24750
p = start_server(PORT, 'h')
try:
    c = Client(PORT); ep = Endpoint(24751, status=204)
    c.cmd('SETHOOK','h','http://127.0.0.1:24751/','NEARBY','fleet','FENCE','DETECT','inside','POINT',33,-115,1000)
    c.cmd('SET','fleet','t1','POINT',33,-115)
    c.cmd('SET','fleet','t2','POINT',33,-115)
    time.sleep(5)
    print('after 5 s endpoint (always 204) got', [json.loads(b)['id'] for (_,_,b) in ep.got])
finally:
    stop_server(p)

#!/usr/bin/env python3
# Healthy but slow endpoint (150 ms per request). 20 acknowledged SETs, then DELHOOK (or the hook's
# own EX deadline). Everything that was not yet dequeued by the running proc() batch is never
# delivered, although it stays in the queue.
import sys, time, json
sys.path.insert(0, '/tmp/reader-out/R7')
from lib import *

PORT = 24703
p = start_server(PORT, 'b2')
try:
    c = Client(PORT)
    ep = Endpoint(24713)
    ep.delay = 0.15
    mode = sys.argv[1] if len(sys.argv) > 1 else 'del'
    args = ['SETHOOK', 'h', 'http://127.0.0.1:24713/']
    if mode == 'ex':
        args += ['EX', '1']
    args += ['NEARBY', 'fleet', 'FENCE', 'DETECT', 'inside', 'POINT', 33, -115, 100000]
    assert c.cmd(*args) == 1
    t0 = time.time()
    for i in range(20):
        assert c.cmd('SET', 'fleet', 't%d' % i, 'POINT', 33, -115) == 'OK'
        time.sleep(0.04)
    print('20 SETs acknowledged after %.2fs' % (time.time() - t0))
    if mode == 'del':
        print('DELHOOK:', c.cmd('DELHOOK', 'h'))
    time.sleep(6)
    print('HOOKS:', c.cmd('HOOKS', '*'))
    got = [json.loads(b)['id'] for b in ep.ok()]
    print('delivered %d of 20: %s' % (len(got), got))
finally:
    stop_server(p)

#!/usr/bin/env python3
# The queue is kept in a file (queue.db) so that it survives restarts, but proc() removes a hook's
# whole backlog from it BEFORE trying to send and puts it back only after the attempt failed.
# With an endpoint that hangs (5 s client timeout) the backlog is out of the file almost all the
# time: a clean SIGTERM + restart a few seconds later, with the endpoint healthy again, delivers
# nothing.
import sys, time, json, socket, threading
sys.path.insert(0, '/tmp/reader-out/R7')
from lib import *

PORT = 24706
EP = 24716
p = start_server(PORT, 'd')
ep = Endpoint(EP)
ep.delay = 60      # hangs: tile38's client gives up after 5 s
try:
    c = Client(PORT)
    assert c.cmd('SETHOOK', 'h', 'http://127.0.0.1:%d/' % EP, 'NEARBY', 'fleet', 'FENCE', 'DETECT', 'inside',
                 'POINT', 33, -115, 100000) == 1
    for i in range(5):
        assert c.cmd('SET', 'fleet', 't%d' % i, 'POINT', 33, -115) == 'OK'
    time.sleep(float(sys.argv[1]) if len(sys.argv) > 1 else 7)
    print('5 SETs acknowledged, endpoint hanging; stopping the server cleanly (SIGTERM)')
    c.close()
    stop_server(p)
    ep.delay = 0      # endpoint recovers
    p = restart_server(PORT, 'd')
    c = Client(PORT)
    print('restarted; HOOKS:', [h[0] for h in c.cmd('HOOKS', '*')])
    time.sleep(4)
    ids = [json.loads(b)['id'] for (t, st, b) in ep.got]
    print('endpoint (healthy since the restart) received: %s  (expected t0..t4)' % ids)
finally:
    stop_server(p)

import sys, time, json, socket, threading, signal
sys.path.insert(0, '/tmp/reader-out/R7')
from lib import *
PORT=24705; HANG=24721
def hang_server():
    ls = socket.socket(); ls.setsockopt(socket.SOL_SOCKET, socket.SO_REUSEADDR, 1)
    ls.bind(('127.0.0.1', HANG)); ls.listen(16); conns=[]
    while True:
        c,_ = ls.accept(); conns.append(c)
threading.Thread(target=hang_server, daemon=True).start()
p = start_server(PORT, 'cdump')
c = Client(PORT); ep = Endpoint(24715)
c.cmd('SETHOOK','good','http://127.0.0.1:24715/','NEARBY','buses','FENCE','DETECT','inside','POINT',10,10,100000)
c.cmd('SETHOOK','bad','redis://127.0.0.1:%d/chan'%HANG,'NEARBY','fleet','FENCE','DETECT','inside','POINT',33,-115,100000)
c.cmd('SET','fleet','t0','POINT',33,-115)
time.sleep(2.5)
c.cmd('SET','buses','b1','POINT',10,10)
time.sleep(1)
p.send_signal(signal.SIGABRT)
p.wait(5)

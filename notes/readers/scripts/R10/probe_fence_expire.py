#!/usr/bin/env python3
import time, sys, socket
sys.path.insert(0, "/tmp/reader-out/R10")
from t38lib import *

PORT = 25037
p = start(PORT, "fence")
c = Conn(PORT)
print(c.do("SETCHAN", "ch", "NEARBY", "fleet", "FENCE", "POINT", "1", "2", "1000"))
print(c.do("SETCHAN", "roam", "NEARBY", "fleet", "FENCE", "ROAM", "fleet", "*", "1000"))
sub = Conn(PORT)
print(sub.do("SUBSCRIBE", "ch", "roam"))
print(sub.read())
live = Conn(PORT)
print(live.do("NEARBY", "fleet", "FENCE", "POINT", "1", "2", "1000"))

print(c.do("SET", "fleet", "a", "EX", "0.5", "POINT", "1", "2"))
print(c.do("SET", "fleet", "b", "POINT", "1", "2.0001"))
time.sleep(1.5)
print(c.do("SET", "fleet", "b", "POINT", "1", "2.0002"))
time.sleep(0.5)
sub.s.settimeout(0.5)
live.s.settimeout(0.5)
print("--- channel messages")
try:
    while True:
        print(sub.read())
except socket.timeout:
    pass
print("--- live messages")
try:
    while True:
        print(live.read())
except socket.timeout:
    pass
stop(p)

import socket, subprocess, time, os, shutil, signal

BIN = "/tmp/reader-out/R10/t38-R10"
BASE = "/tmp/reader-out/R10/data"


class Conn:
    def __init__(self, port, timeout=10):
        self.s = socket.create_connection(("127.0.0.1", port), timeout=timeout)
        self.buf = b""

    def send(self, *args):
        out = b"*%d\r\n" % len(args)
        for a in args:
            if not isinstance(a, bytes):
                a = str(a).encode()
            out += b"$%d\r\n%s\r\n" % (len(a), a)
        self.s.sendall(out)

    def _line(self):
        while b"\r\n" not in self.buf:
            d = self.s.recv(65536)
            if not d:
                raise EOFError
            self.buf += d
        i = self.buf.index(b"\r\n")
        l = self.buf[:i]
        self.buf = self.buf[i + 2:]
        return l

    def _n(self, n):
        while len(self.buf) < n:
            d = self.s.recv(65536)
            if not d:
                raise EOFError
            self.buf += d
        r = self.buf[:n]
        self.buf = self.buf[n:]
        return r

    def read(self):
        l = self._line()
        t = l[:1]
        if t == b"+":
            return l[1:].decode()
        if t == b"-":
            return "ERR:" + l[1:].decode()
        if t == b":":
            return int(l[1:])
        if t == b"$":
            n = int(l[1:])
            if n < 0:
                return None
            r = self._n(n + 2)[:-2]
            try:
                return r.decode()
            except Exception:
                return r
        if t == b"*":
            n = int(l[1:])
            if n < 0:
                return None
            return [self.read() for _ in range(n)]
        raise ValueError(l)

    def do(self, *args):
        self.send(*args)
        return self.read()

    def close(self):
        self.s.close()


def start(port, name, fresh=True, extra=()):
    d = os.path.join(BASE, name)
    if fresh and os.path.exists(d):
        shutil.rmtree(d)
    os.makedirs(d, exist_ok=True)
    log = open(os.path.join(d, "log.txt"), "ab")
    p = subprocess.Popen([BIN, "-d", d, "-p", str(port), "--dev", *extra],
                         stdout=log, stderr=log)
    for _ in range(200):
        try:
            c = Conn(port)
            r = c.do("PING")
            c.close()
            if r == "PONG":
                # wait for load
                c = Conn(port)
                r = c.do("SERVER")
                c.close()
                if not (isinstance(r, str) and r.startswith("ERR:LOADING")):
                    return p
        except Exception:
            pass
        time.sleep(0.05)
    raise RuntimeError("server did not start")


def stop(p, hard=False):
    if hard:
        p.send_signal(signal.SIGKILL)
    else:
        p.send_signal(signal.SIGTERM)
    p.wait()

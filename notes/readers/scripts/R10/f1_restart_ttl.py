#!/usr/bin/env python3
# F1: deadlines are logged as relative seconds, a restart re-arms them from zero
import time, sys
sys.path.insert(0, "/tmp/reader-out/R10")
from t38lib import *

PORT = 25001
p = start(PORT, "f1")
c = Conn(PORT)
t0 = time.time()
print("SET EX 4 ->", c.do("SET", "fleet", "a", "EX", "4", "POINT", "1", "2"))
print("SETCHAN EX 4 ->", c.do("SETCHAN", "ch", "EX", "4", "NEARBY", "fleet", "FENCE", "POINT", "1", "2", "100"))
time.sleep(3)
print("t=%.1f TTL before restart: %r" % (time.time() - t0, c.do("TTL", "fleet", "a")))
c.close()
stop(p)  # clean stop
time.sleep(3)  # the deadline (t=4) passes while the server is down
p = start(PORT, "f1", fresh=False)
c = Conn(PORT)
print("t=%.1f after restart: GET %r TTL %r" % (time.time() - t0, c.do("GET", "fleet", "a"), c.do("TTL", "fleet", "a")))
c.do("OUTPUT", "json")
print("CHANS:", c.do("CHANS", "*"))
c.do("OUTPUT", "resp")
time.sleep(2.5)
print("t=%.1f still there? GET %r TTL %r" % (time.time() - t0, c.do("GET", "fleet", "a"), c.do("TTL", "fleet", "a")))
time.sleep(2)
print("t=%.1f GET %r" % (time.time() - t0, c.do("GET", "fleet", "a")))
c.close()
stop(p)

#!/usr/bin/env python3
import time, sys, random, threading
sys.path.insert(0, "/tmp/reader-out/R10")
from t38lib import *

PORT = 25061
p = start(PORT, "shr")
c = Conn(PORT)
N = 30000
random.seed(5)
# many collections so that the shrink takes several key batches
for i in range(N):
    key = "k%02d" % (i % 40)
    if i % 3 == 0:
        c.send("SET", key, "e%d" % i, "FIELD", "f", i, "EX", "%.2f" % (1.5 + random.random() * 4), "POINT", 1, 2)
    else:
        c.send("SET", key, "p%d" % i, "POINT", 1, 2)
for i in range(N):
    c.read()
for i in range(30):
    c.do("SETCHAN", "ch%d" % i, "EX", "%.2f" % (1.5 + random.random() * 4), "NEARBY", "k00", "FENCE", "POINT", 1, 2, 100)
print("loaded", c.do("SERVER")[1])
t0 = time.time()
# shrink over and over while objects expire; also overwrite some objects with and without EX
w = Conn(PORT)
while time.time() - t0 < 7.5:
    c.do("AOFSHRINK")
    for j in range(200):
        i = random.randrange(0, N, 3)
        key = "k%02d" % (i % 40)
        r = random.random()
        if r < 0.3:
            w.do("SET", key, "e%d" % i, "POINT", 3, 4)             # drops the deadline
        elif r < 0.6:
            w.do("SET", key, "e%d" % i, "EX", "0.3", "POINT", 3, 4)  # new short deadline
        elif r < 0.8:
            w.do("PERSIST", key, "e%d" % i)
        else:
            w.do("EXPIRE", key, "e%d" % i, "0.2")
    time.sleep(0.05)
time.sleep(1.5)
c.do("AOFSHRINK")
time.sleep(1.0)


def snapshot(c):
    out = {}
    for k in c.do("KEYS", "*")[0:1] and c.do("KEYS", "*"):
        ids = c.do("SCAN", k, "LIMIT", 1000000, "IDS")[1]
        for i in ids:
            out[(k, i)] = c.do("TTL", k, i) >= 0
    chans = sorted(x[0] for x in c.do("CHANS", "*"))
    return out, chans


before, chb = snapshot(c)
print("before restart: objects", len(before), "with deadline", sum(before.values()), "chans", len(chb))
c.close(); w.close()
stop(p, hard=True)
p = start(PORT, "shr", fresh=False)
c = Conn(PORT)
after, cha = snapshot(c)
print("after restart: objects", len(after), "with deadline", sum(after.values()), "chans", len(cha))
print("only before:", [k for k in before if k not in after][:10])
print("only after:", [k for k in after if k not in before][:10])
print("deadline flag differs:", [k for k in before if k in after and before[k] != after[k]][:10])
print("chans differ:", set(chb) ^ set(cha))
stop(p)

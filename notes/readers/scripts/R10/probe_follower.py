#!/usr/bin/env python3
import time, sys, socket
sys.path.insert(0, "/tmp/reader-out/R10")
from t38lib import *

LP, FP = 25041, 25042
L = start(LP, "L")
F = start(FP, "F")
l = Conn(LP)
f = Conn(FP)
print(l.do("SET", "k", "a", "EX", "2", "POINT", "1", "2"))
print(l.do("SET", "k", "b", "POINT", "1", "2"))
print(l.do("SETCHAN", "c1", "EX", "2", "NEARBY", "k", "FENCE", "POINT", "1", "2", "1000"))
time.sleep(1.2)
print("FOLLOW", f.do("FOLLOW", "127.0.0.1", LP))
for _ in range(100):
    r = f.do("SCAN", "k", "IDS")
    if not (isinstance(r, str) and r.startswith("ERR")):
        break
    time.sleep(0.05)
print("F scan", r, "TTL a on F", f.do("TTL", "k", "a"), "on L", l.do("TTL", "k", "a"))
print("F chans", f.do("CHANS", "*"))
time.sleep(2.5)
print("after expiry: L scan", l.do("SCAN", "k", "IDS"), "F scan", f.do("SCAN", "k", "IDS"))
print("L chans", l.do("CHANS", "*"), "F chans", f.do("CHANS", "*"))
a = open(BASE + "/L/appendonly.aof", "rb").read()
b = open(BASE + "/F/appendonly.aof", "rb").read()
print("aof equal:", a == b, len(a), len(b))

# leader dies while an object is about to expire
print(l.do("SET", "k", "c", "EX", "1", "POINT", "1", "2"))
time.sleep(0.3)
print("F has c:", f.do("GET", "k", "c"))
stop(L, hard=True)
time.sleep(3)
print("3s later, leader dead: F GET c:", f.do("GET", "k", "c"), "TTL", f.do("TTL", "k", "c"), "SCAN", f.do("SCAN", "k", "IDS"))
print("F nearby:", f.do("NEARBY", "k", "IDS", "POINT", "1", "2", "100"))
time.sleep(5)
print("8s later: F GET c:", f.do("GET", "k", "c"))
print(f.do("FOLLOW", "no", "one"))
time.sleep(0.5)
print("after FOLLOW no one: F GET c:", f.do("GET", "k", "c"))
stop(F)

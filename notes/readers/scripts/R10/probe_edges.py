#!/usr/bin/env python3
import time, sys
sys.path.insert(0, "/tmp/reader-out/R10")
from t38lib import *

PORT = 25002
p = start(PORT, "edges")
c = Conn(PORT)
vals = ["0", "-1", "1e-10", "nan", "inf", "-inf", "1e300", "-1e300", "9223372036", "9223372037", "7e9", "0x1p4", "+5", " 5", "5 ", "1e-320", "-0"]
for i, v in enumerate(vals):
    r = c.do("SET", "k", "o%d" % i, "EX", v, "POINT", "1", "2")
    print("EX %r -> %r TTL %r" % (v, r, c.do("TTL", "k", "o%d" % i)))
time.sleep(0.5)
print("SCAN:", c.do("SCAN", "k", "IDS"))
for i, v in enumerate(vals):
    r = c.do("SET", "k", "p", "POINT", "1", "2")
    r = c.do("EXPIRE", "k", "p", v)
    print("EXPIRE %r -> %r TTL %r" % (v, r, c.do("TTL", "k", "p")))
    time.sleep(0.45)
    print("    after: GET", c.do("GET", "k", "p"))
for i, v in enumerate(vals):
    r = c.do("SETCHAN", "c%d" % i, "EX", v, "NEARBY", "k", "FENCE", "POINT", "1", "2", "100")
    print("SETCHAN EX %r -> %r" % (v, r))
c.do("OUTPUT", "json")
print(c.do("CHANS", "*"))
time.sleep(0.5)
print(c.do("CHANS", "*"))
c.do("OUTPUT", "resp")
print("AOFSHRINK", c.do("AOFSHRINK"))
time.sleep(1)
print(open(BASE + "/edges/appendonly.aof", "rb").read().decode(errors="replace").replace("\r\n", " "))
c.close()
stop(p)
p = start(PORT, "edges", fresh=False)
c = Conn(PORT)
print("SCAN:", c.do("SCAN", "k", "IDS"))
c.do("OUTPUT", "json")
print(c.do("CHANS", "*"))
stop(p)

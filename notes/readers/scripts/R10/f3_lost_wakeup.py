#!/usr/bin/env python3
# liveAOF: f.Read -> EOF ... fcond.Wait() is not atomic with flushAOF's Broadcast.
# A flush that lands in between is not seen by the follower's stream until the
# NEXT flush; on a quiescent leader that is never.
import time, sys, random
sys.path.insert(0, "/tmp/reader-out/R10")
from t38lib import *

LP, FP = 25051, 25052
L = start(LP, "L3")
F = start(FP, "F3")
a = Conn(LP)
b = Conn(LP)
f = Conn(FP)
print("FOLLOW", f.do("FOLLOW", "127.0.0.1", LP))
a.do("SET", "k", "seed", "POINT", 1, 2)
for _ in range(200):
    r = f.do("GET", "k", "seed")
    if isinstance(r, str) and r.startswith("{"):
        break
    time.sleep(0.05)
print("follower caught up:", r)

N = int(sys.argv[1]) if len(sys.argv) > 1 else 3000
lost = 0
for i in range(N):
    d = random.random() * 0.0003
    a.send("SET", "k", "a", "POINT", 1, i)
    t = time.perf_counter()
    while time.perf_counter() - t < d:
        pass
    b.send("SET", "k", "b", "POINT", 1, i)
    a.read()
    b.read()
    time.sleep(0.03)
    ra = f.do("GET", "k", "a", "POINT")
    rb = f.do("GET", "k", "b", "POINT")
    if ra != ["1", str(i)] or rb != ["1", str(i)]:
        time.sleep(1.5)  # more than the 1 s background flush: nothing to flush, nothing broadcast
        ra2 = f.do("GET", "k", "a", "POINT")
        rb2 = f.do("GET", "k", "b", "POINT")
        la = a.do("GET", "k", "a", "POINT")
        lb = a.do("GET", "k", "b", "POINT")
        print("trial %d delay %.0fus: follower a=%r b=%r; 1.5 s later a=%r b=%r; leader a=%r b=%r" % (i, d * 1e6, ra, rb, ra2, rb2, la, lb))
        if ra2 != la or rb2 != lb:
            lost += 1
            print("   -> STILL BEHIND after 1.5 s of leader silence; role:", f.do("SERVER")[0:2], "healthz:", f.do("HEALTHZ"))
            if lost >= 3:
                break
print("lost wakeups:", lost, "of", i + 1)
stop(F)
stop(L)

import sys,time
sys.path.insert(0, "/tmp/reader-out/R10")
from t38lib import *
PORT=25004
for it in range(15):
    p = start(PORT, "dbg3")
    c = Conn(PORT)
    for i in range(8):
        c.do("SET","k","o%d"%i,"EX","100","POINT",1,2)
    for i in range(8):
        c.do("SETCHAN","c%d"%i,"EX","100","NEARBY","k","FENCE","POINT",1,2,100)
    for i in range(5):
        c.do("SETCHAN","d%d"%i,"EX","0","NEARBY","k","FENCE","POINT",1,2,100)
        c.do("SET","k","x%d"%i,"EX","0","POINT",1,2)
    time.sleep(0.5)
    c.do("AOFSHRINK")
    time.sleep(1)
    c.close()
    stop(p)
    p = start(PORT, "dbg3", fresh=False)
    c = Conn(PORT)
    r = c.do("SCAN","k","IDS")
    print(it, r)
    stop(p)
    if r[1] == []:
        print(open(BASE+"/dbg3/log.txt").read()[-1500:])
        break

#!/usr/bin/env python3
# model: key -> id -> (kind, has_deadline); long deadlines only. Checks replies of TTL sign and
# state after restart / shrink+restart.
import time, sys, random
sys.path.insert(0, "/tmp/reader-out/R10")
from t38lib import *

PORT = 25071
seed = int(sys.argv[1]) if len(sys.argv) > 1 else 1
random.seed(seed)
p = start(PORT, "fz")
c = Conn(PORT)
model = {}
keys = ["a", "b", "c"]
ids = ["1", "2", "3", "4"]


def snapshot():
    out = {}
    ks = c.do("KEYS", "*")
    for k in ks:
        for i in c.do("SCAN", k, "IDS")[1]:
            t = c.do("TTL", k, i)
            out[(k, i)] = t >= 0
    return out


def mflat():
    return {(k, i): v for k, d in model.items() for i, v in d.items()}


def check(tag):
    s = snapshot()
    m = mflat()
    if s != m:
        print("MISMATCH at", tag)
        print("  server-only/diff:", {k: v for k, v in s.items() if m.get(k) != v})
        print("  model-only/diff:", {k: v for k, v in m.items() if s.get(k) != v})
        print("  log tail:", oplog[-15:])
        sys.exit(1)


oplog = []
for step in range(int(sys.argv[2]) if len(sys.argv) > 2 else 1500):
    k = random.choice(keys); i = random.choice(ids)
    r = random.random()
    if r < 0.30:
        args = ["SET", k, i]
        ex = random.random() < 0.5
        nx = random.random() < 0.15
        xx = (not nx) and random.random() < 0.15
        if random.random() < 0.3:
            args += ["FIELD", "f", random.randint(0, 3)]
        if ex:
            args += ["EX", random.choice(["1000", "1e9", "nan", "5000.5", "inf"])]
        if nx: args.append("NX")
        if xx: args.append("XX")
        kind = random.choice(["POINT", "STRING", "BOUNDS", "OBJECT"])
        if kind == "POINT": args += ["POINT", 1, 2]
        elif kind == "STRING": args += ["STRING", "v%d" % random.randint(0, 3)]
        elif kind == "BOUNDS": args += ["BOUNDS", 1, 2, 3, 4]
        else: args += ["OBJECT", '{"type":"LineString","coordinates":[[1,2],[3,4]]}']
        rep = c.do(*args)
        exists = i in model.get(k, {})
        if (nx and exists) or (xx and not exists):
            assert rep is None, (args, rep)
        else:
            assert rep == "OK", (args, rep)
            model.setdefault(k, {})[i] = ex
    elif r < 0.40:
        rep = c.do("FSET", k, i, "g", random.randint(0, 2))
        args = ["FSET", k, i]
    elif r < 0.50:
        args = ["EXPIRE", k, i, random.choice(["1000", "1e12", "nan"])]
        rep = c.do(*args)
        if i in model.get(k, {}):
            assert rep == 1, (args, rep); model[k][i] = True
        else:
            assert rep == 0, (args, rep)
    elif r < 0.60:
        args = ["PERSIST", k, i]
        rep = c.do(*args)
        if i in model.get(k, {}) and model[k][i]:
            assert rep == 1, (args, rep); model[k][i] = False
        else:
            assert rep == 0, (args, rep)
    elif r < 0.66:
        args = ["DEL", k, i]
        rep = c.do(*args)
        if i in model.get(k, {}):
            del model[k][i]
            if not model[k]: del model[k]
    elif r < 0.70:
        k2 = random.choice(keys)
        cmd = random.choice(["RENAME", "RENAMENX"])
        args = [cmd, k, k2]
        rep = c.do(*args)
        if k in model:
            if cmd == "RENAME" or k2 not in model:
                v = model.pop(k)
                model[k2] = v
    elif r < 0.72:
        args = ["PDEL", k, random.choice(["1*", "*", "[23]"])]
        rep = c.do(*args)
        import fnmatch
        if k in model:
            for ii in list(model[k]):
                if fnmatch.fnmatchcase(ii, args[2]):
                    del model[k][ii]
            if not model[k]: del model[k]
    elif r < 0.73:
        args = ["DROP", k]
        rep = c.do(*args)
        model.pop(k, None)
    elif r < 0.76:
        args = ["TTL", k, i]
        rep = c.do(*args)
        if i in model.get(k, {}):
            assert (rep >= 0) == model[k][i], (args, rep, model[k][i])
        else:
            assert rep == -2, (args, rep)
    elif r < 0.79:
        args = ["AOFSHRINK"]
        rep = c.do(*args)
        time.sleep(0.05)
    elif r < 0.82:
        args = ["RESTART"]
        check("pre-restart %d" % step)
        c.close()
        hard = random.random() < 0.7
        stop(p, hard=hard)
        p = start(PORT, "fz", fresh=False)
        c = Conn(PORT)
        oplog.append(("RESTART", hard))
        check("post-restart %d" % step)
        continue
    else:
        args = ["EVAL", "return tile38.call('SET', KEYS[1], ARGV[1], 'EX', '777', 'POINT', 5, 6)", 1, k, i]
        rep = c.do(*args)
        model.setdefault(k, {})[i] = True
    oplog.append((args, rep))
    if step % 50 == 0:
        check("step %d" % step)
check("end")
print("seed", seed, "ok")
stop(p)

import sys,time
sys.path.insert(0, "/tmp/reader-out/R10")
from t38lib import *
p = start(25002, "edges", fresh=False)
c = Conn(25002)
print(c.do("SCAN","k","IDS"))
print(c.do("SERVER"))
stop(p)

import sys,time
sys.path.insert(0, "/tmp/reader-out/R10")
from t38lib import *
p = start(25003, "dbg2")
c = Conn(25003)
for i in range(5):
    c.do("SET","k","o%d"%i,"EX","100","POINT",1,2)
print(c.do("SCAN","k","IDS"))
print(c.do("AOFSHRINK"))
time.sleep(1)
c.close()
stop(p)
print(open(BASE+"/dbg2/log.txt").read()[-300:])
p = start(25003, "dbg2", fresh=False)
c = Conn(25003)
print(c.do("SCAN","k","IDS"))
stop(p)
print(open(BASE+"/dbg2/log.txt").read()[-600:])

#!/usr/bin/env python3
# --spinlock: rwspinlock.Lock()/LockLowPriority() only get in when no reader holds the lock,
# and readers never defer to a waiting writer. Overlapping readers keep the expiry sweeper
# (and every writer, and the aof sync) out for as long as they overlap.
import time, sys, threading
sys.path.insert(0, "/tmp/reader-out/R10")
from t38lib import *

PORT = 25091
extra = sys.argv[1:]  # pass --spinlock
p = start(PORT, "spin", extra=extra)
c = Conn(PORT)
N = 200000
for i in range(N):
    c.send("SET", "big", "o%d" % i, "POINT", 1, 2)
for i in range(N):
    c.read()
stop_flag = False
lat = []


def reader():
    r = Conn(PORT, timeout=60)
    while not stop_flag:
        t = time.time()
        r.do("SCAN", "big", "WHERE", "foo", 1, 2, "COUNT")
        lat.append(time.time() - t)


print("SET with EX 1:", c.do("SET", "k", "ttl", "EX", "1", "POINT", 1, 2))
t0 = time.time()
ths = [threading.Thread(target=reader) for _ in range(8)]
for t in ths:
    t.start()
g = Conn(PORT, timeout=60)
seen_gone = None
while time.time() - t0 < 20:
    r = g.do("GET", "k", "ttl")
    if r is None:
        seen_gone = time.time() - t0
        break
    time.sleep(0.1)
print("extra args %r: object with EX 1 %s" % (extra, ("gone after %.1f s" % seen_gone) if seen_gone else "STILL SERVED after 20 s, TTL=%r" % g.do("TTL", "k", "ttl")))
# a plain write under the same load
w = Conn(PORT, timeout=60)
t1 = time.time()
w.send("SET", "k", "w", "POINT", 1, 2)
w.s.settimeout(15)
try:
    print("SET under read load answered", w.read(), "after %.2f s" % (time.time() - t1))
except Exception as e:
    print("SET under read load: no answer within 15 s (%s)" % type(e).__name__)
stop_flag = True
for t in ths:
    t.join()
print("reads done:", len(lat), "avg %.1f ms" % (1000 * sum(lat) / len(lat)))
stop(p, hard=True)

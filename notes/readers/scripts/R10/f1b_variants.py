#!/usr/bin/env python3
# F1 variants: (a) kill -9 shortly before the deadline, long downtime -> object is back with a full TTL
# (b) AOFSHRINK does not help: it also writes relative seconds
# (c) a follower that connects late reports a TTL that is too long by the age of the command
import time, sys
sys.path.insert(0, "/tmp/reader-out/R10")
from t38lib import *

LP, FP = 25081, 25082
L = start(LP, "L1b")
l = Conn(LP)
t0 = time.time()
l.do("SET", "k", "a", "EX", "3", "POINT", 1, 2)
l.do("SET", "k", "b", "POINT", 1, 2)
l.do("EXPIRE", "k", "b", "3")
l.do("SET", "k", "c", "EX", "3", "POINT", 1, 2)
time.sleep(1.0)
l.do("AOFSHRINK")   # c (and a, b) are rewritten with the seconds that remain now (~2)
time.sleep(1.5)
F = start(FP, "F1b")
f = Conn(FP)
f.do("FOLLOW", "127.0.0.1", LP)
for _ in range(100):
    r = f.do("TTL", "k", "a")
    if isinstance(r, int):
        break
    time.sleep(0.02)
print("t=%.1f  TTL a: leader %r follower %r" % (time.time() - t0, l.do("TTL", "k", "a"), r))
stop(F)
stop(L, hard=True)          # t ~ 2.6, deadline is t=3
time.sleep(4)
L = start(LP, "L1b", fresh=False)
l = Conn(LP)
print("t=%.1f after kill -9 + 4 s downtime: SCAN %r TTLs %r" % (time.time() - t0, l.do("SCAN", "k", "IDS"),
      [l.do("TTL", "k", x) for x in "abc"]))
time.sleep(1.0)
print("t=%.1f SCAN %r" % (time.time() - t0, l.do("SCAN", "k", "IDS")))
time.sleep(1.5)
print("t=%.1f SCAN %r" % (time.time() - t0, l.do("SCAN", "k", "IDS")))
stop(L)

import socket, subprocess, time, os, shutil, math, json

BIN = '/tmp/reader-out/R12/t38-R12'

class Conn:
    def __init__(self, port):
        for i in range(100):
            try:
                self.s = socket.create_connection(('127.0.0.1', port))
                break
            except OSError:
                time.sleep(0.1)
        self.buf = b''
    def send(self, *args):
        out = b'*%d\r\n' % len(args)
        for a in args:
            if not isinstance(a, bytes):
                a = str(a).encode()
            out += b'$%d\r\n%s\r\n' % (len(a), a)
        self.s.sendall(out)
    def _line(self):
        while b'\r\n' not in self.buf:
            d = self.s.recv(65536)
            if not d:
                raise EOFError
            self.buf += d
        i = self.buf.index(b'\r\n')
        l = self.buf[:i]
        self.buf = self.buf[i+2:]
        return l
    def _n(self, n):
        while len(self.buf) < n+2:
            d = self.s.recv(65536)
            if not d:
                raise EOFError
            self.buf += d
        r = self.buf[:n]
        self.buf = self.buf[n+2:]
        return r
    def read(self):
        l = self._line()
        t = l[:1]
        if t == b'+':
            return l[1:].decode()
        if t == b'-':
            return Exception(l[1:].decode())
        if t == b':':
            return int(l[1:])
        if t == b'$':
            n = int(l[1:])
            if n < 0:
                return None
            return self._n(n).decode('utf8', 'replace')
        if t == b'*':
            n = int(l[1:])
            if n < 0:
                return None
            return [self.read() for _ in range(n)]
        raise Exception('bad resp %r' % l)
    def do(self, *args):
        self.send(*args)
        return self.read()

class Server:
    def __init__(self, port, name='d'):
        self.port = port
        self.dir = '/tmp/reader-out/R12/data-%d' % port
        shutil.rmtree(self.dir, ignore_errors=True)
        self.p = subprocess.Popen([BIN, '-d', self.dir, '-p', str(port), '--dev'],
                                  stdout=subprocess.DEVNULL, stderr=subprocess.DEVNULL)
    def conn(self):
        return Conn(self.port)
    def stop(self):
        self.p.kill()
        self.p.wait()
        shutil.rmtree(self.dir, ignore_errors=True)

R = 6371e3
def hav(lat1, lon1, lat2, lon2):
    p1 = math.radians(lat1); p2 = math.radians(lat2)
    l1 = math.radians(lon1); l2 = math.radians(lon2)
    a = math.sin((p2-p1)/2)**2 + math.cos(p1)*math.cos(p2)*math.sin((l2-l1)/2)**2
    return R*2*math.asin(math.sqrt(min(1.0, a)))

# randomized differential for ROAM fences (C20) via SETCHAN/SUBSCRIBE with PUBLISH markers
from lib import *
import random, sys
seed = int(sys.argv[1]) if len(sys.argv)>1 else 1
random.seed(seed)
s = Server(25212)
def hv(a,b): return hav(a[0],a[1],b[0],b[1])
try:
    c = s.conn(); sub = s.conn()
    mode = sys.argv[2] if len(sys.argv)>2 else 'pole'
    radius = float(sys.argv[3]) if len(sys.argv)>3 else 5000.0
    nodwell = len(sys.argv)>4
    args=['SETCHAN','rc','NEARBY','fleet']
    if nodwell: args.append('NODWELL')
    args+=['FENCE','ROAM','fleet','*',radius]
    print(c.do(*args))
    print(sub.do('SUBSCRIBE','rc'))
    def rpos():
        d = radius/111194.9*3
        if mode=='pole':
            return (round(90-random.uniform(0,d),7), round(random.uniform(-180,180),5))
        if mode=='spole':
            return (round(-90+random.uniform(0,d),7), round(random.uniform(-180,180),5))
        if mode=='anti':
            lo = 180-random.uniform(0,d)
            if random.random()<0.5: lo=-lo
            return (round(random.uniform(-d,d)+60,7), round(lo,7))
        return (round(random.uniform(-d,d)+30,7), round(random.uniform(-d,d)+30,7))
    pos={}
    bad=0
    for step in range(600):
        id='t%d'%random.randrange(12)
        p=rpos()
        old=pos.get(id)
        r=c.do('SET','fleet',id,'POINT',repr(p[0]),repr(p[1]))
        assert r=='OK'
        c.do('PUBLISH','rc','MARK')
        msgs=[]
        while True:
            m=sub.read()
            if m[0]=='message' and m[2]=='MARK': break
            msgs.append(json.loads(m[2]))
        others={k:v for k,v in pos.items() if k!=id}
        newn={k for k,v in others.items() if hv(p,v)<=radius}
        oldn={k for k,v in others.items() if old is not None and hv(old,v)<=radius}
        exp_near = (newn-oldn) if nodwell else newn
        exp_far = oldn-newn
        got_near={m['nearby']['id'] for m in msgs if 'nearby' in m}
        got_far={m['faraway']['id'] for m in msgs if 'faraway' in m}
        # tolerance: ignore objects within 1 mm of the radius
        def edge(k,ref): return abs(hv(ref,others[k])-radius)<1e-3
        dn=(got_near^exp_near); df=(got_far^exp_far)
        dn={k for k in dn if not edge(k,p) and not (old and edge(k,old))}
        df={k for k in df if not edge(k,p) and not (old and edge(k,old))}
        if dn or df:
            bad+=1
            print('MISMATCH step',step,id,'old',old,'new',p,'near diff',dn,'far diff',df)
            for k in dn|df: print('   ',k,others[k],'d_new',hv(p,others[k]),'d_old',old and hv(old,others[k]))
            if bad>5: break
        for m in msgs:
            for kind in ('nearby','faraway'):
                if kind in m:
                    k=m[kind]['id']; d=hv(p,others[k])
                    if abs(m[kind]['meters']-d)>0.002:
                        print('METERS',kind,k,m[kind]['meters'],d); bad+=1
        pos[id]=p
    print('done',mode,radius,'bad=',bad)
finally:
    s.stop()

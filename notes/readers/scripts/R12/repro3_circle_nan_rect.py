# stored Circle whose radius reaches the pole: its polygon rect has NaN latitudes
from lib import *
s = Server(25203)
try:
    c = s.conn()
    def circ(lat,lon,r): return json.dumps({"type":"Feature","geometry":{"type":"Point","coordinates":[lon,lat]},"properties":{"type":"Circle","radius":r}})
    print(c.do('SET','k','circ','OBJECT',circ(1.5,10,9840751)))
    print(c.do('SET','k','p1','POINT',1,1))
    print(c.do('SET','k','p2','POINT',40,40))
    print(c.do('SET','k','p3','POINT',-40,100))
    print(c.do('SET','k','p4','POINT',-80,-100))
    print(c.do('NEARBY','k','DISTANCE','IDS','POINT',0,0))
    print(c.do('NEARBY','k','DISTANCE','IDS','POINT',0,0,1000))
    print(c.do('NEARBY','k','DISTANCE','IDS','POINT',0,0,5000000))
    print(c.do('NEARBY','k','DISTANCE','IDS','POINT',-80,-100, 5))
    print(c.do('OUTPUT','json'))
    print(c.do('NEARBY','k','DISTANCE','IDS','POINT',0,0))
    print(c.do('GET','k','circ','BOUNDS'))
    print(c.do('SCAN','k','BOUNDS'))
    print(c.do('BOUNDS','k'))
    print(c.do('GET','k','circ','HASH', 5))
    print(c.do('GET','k','circ','POINT'))
finally:
    s.stop()

# randomized differential: WITHIN/INTERSECTS (index) vs TEST GET k id ... (per object)
from lib import *
import random, sys
seed = int(sys.argv[1]) if len(sys.argv)>1 else 1
random.seed(seed)
s = Server(25211)
LATS=[-90,90,0,89.95,-89.95,89.9999,-89.9999,45,85.05112878,-85.05112878]
LONS=[-180,180,0,179.99,-179.99,179.9999,-179.9999,90]
def rlat():
    return random.choice(LATS) if random.random()<0.3 else round(random.uniform(-90,90),random.choice([0,2,6]))
def rlon():
    return random.choice(LONS) if random.random()<0.3 else round(random.uniform(-180,180),random.choice([0,2,6]))
def circ(lat,lon,r): return json.dumps({"type":"Feature","geometry":{"type":"Point","coordinates":[lon,lat]},"properties":{"type":"Circle","radius":r}})
def rrad(): return random.choice([0,0.001,0.5,100,5000,1e5,2e6,9e6,1.1e7,2.1e7,3e7,4.1e7])
try:
    c = s.conn()
    ids=[]
    N=300
    for i in range(N):
        id='o%d'%i
        k=random.random()
        if k<0.45:
            r=c.do('SET','k',id,'POINT',rlat(),rlon())
        elif k<0.6:
            la,lo=rlat(),rlon()
            la2=min(90,la+random.choice([0,0.001,1,30])); lo2=min(180,lo+random.choice([0,0.001,1,100]))
            r=c.do('SET','k',id,'BOUNDS',la,lo,la2,lo2)
        elif k<0.75:
            r=c.do('SET','k',id,'OBJECT',circ(rlat(),rlon(),rrad()))
        elif k<0.8:
            r=c.do('SET','k',id,'OBJECT',json.dumps({"type":"FeatureCollection","features":[json.loads(circ(rlat(),rlon(),rrad())),{"type":"Feature","geometry":{"type":"Point","coordinates":[rlon(),rlat()]},"properties":{}}]}))
        else:
            pts=[(rlon(),rlat()) for _ in range(random.randint(2,4))]
            if random.random()<0.5:
                g={"type":"LineString","coordinates":[list(p) for p in pts]}
            else:
                pts=pts+[(rlon(),rlat())]
                pts.append(pts[0])
                g={"type":"Polygon","coordinates":[[list(p) for p in pts]]}
            r=c.do('SET','k',id,'OBJECT',json.dumps(g))
        if r!='OK':
            print('set failed',id,r); continue
        ids.append(id)
    bad=0
    for qi in range(150):
        k=random.random()
        if k<0.4:
            area=['CIRCLE',rlat(),rlon(),rrad()]
        elif k<0.6:
            la,lo=rlat(),rlon()
            area=['BOUNDS',la,lo,min(90,la+random.choice([0,0.01,5,60])),min(180,lo+random.choice([0,0.01,5,200]))]
        elif k<0.7:
            z=random.randint(0,5); n=1<<z
            area=['TILE',random.choice([0,n-1,random.randrange(n)]),random.choice([0,n-1,random.randrange(n)]),z]
        elif k<0.8:
            area=['QUADKEY',''.join(random.choice('0123') for _ in range(random.randint(1,6)))]
        elif k<0.9:
            area=['SECTOR',rlat(),rlon(),random.choice([1000,1e5,3e6]),random.choice([0,350,90,-10]),random.choice([10,45,180,370])]
        else:
            area=['GET','k',random.choice(ids)]
        for cmd in ['WITHIN','INTERSECTS']:
            r=c.do(cmd,'k','LIMIT',100000,'IDS',*area)
            if isinstance(r,Exception):
                print('err',cmd,area,r); break
            got=set(r[1])
            exp=set()
            for id in ids:
                t=c.do('TEST','GET','k',id,cmd,*area)
                if t==1: exp.add(id)
                elif t!=0: print('test err',id,area,t)
            if got!=exp:
                bad+=1
                print('MISMATCH',cmd,area,'index-only',sorted(got-exp)[:5],'test-only',sorted(exp-got)[:5])
                for id in list(got-exp)[:2]+list(exp-got)[:2]:
                    print('   ',id,c.do('GET','k',id))
        if bad>6: break
    print('done bad=',bad)
finally:
    s.stop()

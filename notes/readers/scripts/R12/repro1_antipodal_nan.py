# C13/C17: object exactly antipodal to the query point gets distance NaN
from lib import *
s = Server(25200)
try:
    c = s.conn()
    c.do('SET','k','anti','POINT',41.214, 164.753)   # antipode of the query point
    c.do('SET','k','a','POINT',12,120)
    c.do('SET','k','b','POINT',10,100)
    c.do('SET','k','c','POINT',-12,-54)
    c.do('SET','k','d','POINT',0,0)
    print('kNN      :', c.do('NEARBY','k','DISTANCE','IDS','POINT',-41.214, -15.247))
    print('r=4900km :', c.do('NEARBY','k','DISTANCE','IDS','POINT',-41.214, -15.247, 4900000))
    print('LIMIT 2  :', c.do('NEARBY','k','LIMIT',2,'IDS','POINT',-41.214, -15.247))
    c.do('OUTPUT','json')
    print(c.do('NEARBY','k','DISTANCE','IDS','POINT',-41.214, -15.247))
finally:
    s.stop()

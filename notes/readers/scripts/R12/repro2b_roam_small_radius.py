# C20: ROAM radius 1.5176 m, neighbour 1.5161 m away (due east): not reported
from lib import *
import select
s = Server(25202)
try:
    c = s.conn()
    f = s.conn()
    radius='1.5176419692148138'
    print('fence', f.do('NEARBY','fleet','FENCE','ROAM','fleet','*',radius))
    print(c.do('SET','fleet','a','POINT','-54.25245975276144','84.39533921998279'))
    print(c.do('SET','fleet','b','POINT','-54.25245975276369','84.39531588124999'))
    print('NEARBY says:', c.do('NEARBY','fleet','DISTANCE','POINT','-54.25245975276369','84.39531588124999',radius))
    r,_,_ = select.select([f.s],[],[],0.8)
    print('fence msg:', f.read() if r else 'NONE')
finally:
    s.stop()

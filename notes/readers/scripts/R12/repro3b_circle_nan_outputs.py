# more JSON outputs with NaN for a stored circle whose disc touches a pole
from lib import *
s = Server(25205)
try:
    c = s.conn()
    def circ(lat,lon,r): return json.dumps({"type":"Feature","geometry":{"type":"Point","coordinates":[lon,lat]},"properties":{"type":"Circle","radius":r}})
    print(c.do('SET','only','circ','OBJECT',circ(1.5,10,9840751)))
    print(c.do('OUTPUT','json'))
    for cmd in (['BOUNDS','only'],['GET','only','circ','BOUNDS'],['INTERSECTS','only','CLIP','BOUNDS',-10,-10,10,10],
                ['NEARBY','only','DISTANCE','POINT',0,0],['SCAN','only','BOUNDS']):
        r=c.do(*cmd)
        try:
            json.loads(r, parse_constant=lambda x: (_ for _ in ()).throw(ValueError(x)))
            ok='valid JSON'
        except ValueError as e:
            ok='INVALID JSON (%s)'%e
        print(' '.join(map(str,cmd)),'->',ok,'\n    ',r[:300])
finally:
    s.stop()

# randomized differential: NEARBY vs brute-force; WITHIN/INTERSECTS vs TEST
from lib import *
import random, sys
seed = int(sys.argv[1]) if len(sys.argv)>1 else 1
random.seed(seed)
s = Server(25210)
twoPi=2*math.pi; halfPi=math.pi/2
def distRad(pa,la,pb,lb):
    if pa==pb and la==lb: return 0.0
    a=math.sin((pa-pb)/2)**2+math.sin((la-lb)/2)**2*math.cos(pa)*math.cos(pb)
    return 2*math.asin(math.sqrt(min(1.0,a)))
def prd(pLat,pLng,minLat,minLng,maxLat,maxLng):
    r=math.pi/180
    q,lq,l,ll,h,lh = pLat*r,pLng*r,minLat*r,minLng*r,maxLat*r,maxLng*r
    if l>=h and ll>=lh: return distRad(l,ll,q,lq)
    if ll<=lq<=lh:
        if l<=q<=h: return 0.0
        if q<l: return l-q
        return q-h
    de=ll-lq; dw=lq-lh
    if de<0: de+=twoPi
    if dw<0: dw+=twoPi
    if de<=dw: d=de; edge=ll
    else: d=dw; edge=lh
    sd,cd=math.sin(d),math.cos(d); tq=math.tan(q)
    if d>=halfPi:
        mid=(h+l)/2
        if tq>=math.tan(mid)*cd: return distRad(q,lq,h,edge)
        return distRad(q,lq,l,edge)
    if tq>=math.tan(h)*cd: return distRad(q,lq,h,edge)
    if tq<=math.tan(l)*cd: return distRad(q,lq,l,edge)
    return math.asin(math.cos(q)*sd)

LATS=[-90,90,0,89.95,-89.95,89.9999,-89.9999,45]
LONS=[-180,180,0,179.99,-179.99,179.9999,-179.9999,90]
def rlat():
    return random.choice(LATS) if random.random()<0.3 else round(random.uniform(-90,90),random.choice([0,2,6]))
def rlon():
    return random.choice(LONS) if random.random()<0.3 else round(random.uniform(-180,180),random.choice([0,2,6]))
try:
    c = s.conn()
    objs={}
    N=400
    for i in range(N):
        id='o%d'%i
        k=random.random()
        if k<0.6:
            la,lo=rlat(),rlon()
            if random.random()<0.2 and objs:  # duplicate
                r=random.choice(list(objs.values())); la,lo=r[0],r[1]
            r=c.do('SET','k',id,'POINT',la,lo)
            objs[id]=(la,lo,la,lo)
        elif k<0.8:
            la,lo=rlat(),rlon()
            la2=min(90,la+random.choice([0.001,1,30])); lo2=min(180,lo+random.choice([0.001,1,100]))
            r=c.do('SET','k',id,'BOUNDS',la,lo,la2,lo2)
            objs[id]=(la,lo,la2,lo2)
        else:
            pts=[(rlon(),rlat()) for _ in range(random.randint(2,4))]
            if random.random()<0.5:
                g={"type":"LineString","coordinates":[list(p) for p in pts]}
            else:
                pts=pts+[(rlon(),rlat())]
                pts.append(pts[0])
                g={"type":"Polygon","coordinates":[[list(p) for p in pts]]}
            r=c.do('SET','k',id,'OBJECT',json.dumps(g))
            xs=[p[0] for p in pts]; ys=[p[1] for p in pts]
            objs[id]=(min(ys),min(xs),max(ys),max(xs))
        assert r=='OK',(r,id)
    bad=0
    for qi in range(300):
        qlat,qlon=rlat(),rlon()
        exp=sorted(((R*prd(qlat,qlon,*objs[id]),id) for id in objs))
        # full result in pages
        lim=random.choice([1,3,7,50,100,1000])
        rad=None
        if random.random()<0.5:
            rad=random.choice([0.5,1000,1e5,5e6,1.5e7,2.1e7,5e7])
        got=[]; cur=0; pages=0
        while True:
            args=['NEARBY','k','CURSOR',cur,'LIMIT',lim,'DISTANCE','IDS','POINT',qlat,qlon]
            if rad is not None: args.append(rad)
            r=c.do(*args)
            cur=r[0]; got+=[(float(x[1]),x[0]) for x in r[1]]
            pages+=1
            if cur==0 or pages>50: break
        if pages>50:
            exp=exp[:len(got)]
        if rad is not None:
            exp=[e for e in exp if e[0]<=rad+1e-3]  # tolerance at the edge
        ok=True
        if len(got)!=len(exp):
            # allow boundary tolerance
            ok=False
        else:
            for (gd,gid),(ed,eid) in zip(got,exp):
                if abs(gd-ed)>0.5: ok=False;break
            ds=[g[0] for g in got]
            if any(ds[i]>ds[i+1]+1e-6 for i in range(len(ds)-1)): ok=False
            if len(set(g[1] for g in got))!=len(got): ok=False
            if not pages>50 and set(g[1] for g in got)!=set(e[1] for e in exp):
                # ties may reorder but sets must match
                ok=False
        if not ok:
            bad+=1
            print('MISMATCH q',qlat,qlon,'lim',lim,'rad',rad,'got',len(got),'exp',len(exp))
            for i,(g,e) in enumerate(zip(got,exp)):
                if abs(g[0]-e[0])>0.5 or g[1]!=e[1]:
                    print('  first diff at',i,g,e,objs[g[1]],objs[e[1]]);break
            if bad>8: break
    print('nearby done bad=',bad)
finally:
    s.stop()

# stored 5 km circle at lon 179.99: its rectangle spans lon 0.035..359.945
from lib import *
s = Server(25206)
try:
    c = s.conn()
    def circ(lat,lon,r): return json.dumps({"type":"Feature","geometry":{"type":"Point","coordinates":[lon,lat]},"properties":{"type":"Circle","radius":r}})
    print(c.do('SET','k','c','OBJECT',circ(0,179.99,5000)))
    print(c.do('SET','k','p','POINT',0,90.001))
    print('bounds of c:', c.do('GET','k','c','BOUNDS'))
    print('NEARBY 0,90 radius 1 km:', c.do('NEARBY','k','DISTANCE','IDS','POINT',0,90,1000))
    print('NEARBY 0,90 knn:', c.do('NEARBY','k','DISTANCE','IDS','POINT',0,90))
    print('true distance centre:', hav(0,90,0,179.99))
    print('INTERSECTS BOUNDS -1 50 1 60:', c.do('INTERSECTS','k','IDS','BOUNDS',-1,50,1,60))
    print('TEST:', c.do('TEST','GET','k','c','INTERSECTS','BOUNDS',-1,50,1,60))
    print('BOUNDS k:', c.do('BOUNDS','k'))
finally:
    s.stop()

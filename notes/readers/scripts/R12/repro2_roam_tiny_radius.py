# C20: ROAM fence with a radius below ~0.285 m never reports a neighbour that is
# not exactly coincident, although NEARBY with the same radius finds it.
from lib import *
import select
s = Server(25201)
try:
    c = s.conn()
    f = s.conn()
    for radius in ['0.25', '0.30', '1', '2']:
        c.do('DROP','fleet')
        f = s.conn()
        print('fence', radius, f.do('NEARBY','fleet','FENCE','ROAM','fleet','*',radius))
        # b is `frac`*radius due east of a, on the equator
        frac = 0.4 if float(radius) < 0.5 else 0.998
        dlon = float(radius)*frac/111194.92664455873
        print(c.do('SET','fleet','a','POINT',0,10))
        print(c.do('SET','fleet','b','POINT',0,repr(10+dlon)))
        print('NEARBY says:', c.do('NEARBY','fleet','DISTANCE','POINT',0,repr(10+dlon),radius))
        time.sleep(0.3)
        r,_,_ = select.select([f.s],[],[],0.5)
        if r or f.buf:
            print('fence msg:', f.read())
        else:
            print('fence msg: NONE')
        f.s.close()
finally:
    s.stop()

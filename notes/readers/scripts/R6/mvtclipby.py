from r import *
c = C()
c.do('DROP','mc'); c.do('SET','mc','p','POINT',30,-45)
def tile(*args):
    c.send(*args)
    l=c.f.readline()
    if not l.startswith(b'*2'): return l
    c.f.readline(); n=int(c.f.readline()[1:-2]); return c.f.read(n+2)[:-2]
a=tile('INTERSECTS','mc','MVT',1,1,2)
b=tile('INTERSECTS','mc','MVT',1,1,2,'CLIPBY','BOUNDS',-85,-180,85,180)
z=tile('INTERSECTS','mc','MVT',0,0,0)
print('plain      ',a.hex()); print('with clipby',b.hex()); print('tile 0/0/0 ',z.hex())
print('clipby==plain',a==b,' clipby==tile0',b==z)

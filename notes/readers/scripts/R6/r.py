import socket, json, sys

class C:
    def __init__(self, port=24600, host='127.0.0.1'):
        self.s = socket.create_connection((host, port))
        self.f = self.s.makefile('rb')

    def send(self, *args):
        out = b'*%d\r\n' % len(args)
        for a in args:
            if not isinstance(a, bytes):
                a = str(a).encode()
            out += b'$%d\r\n%s\r\n' % (len(a), a)
        self.s.sendall(out)

    def read(self):
        line = self.f.readline()
        if not line:
            raise EOFError('closed')
        t = line[:1]
        body = line[1:-2]
        if t == b'+':
            return body.decode('utf8', 'replace')
        if t == b'-':
            return 'ERR:' + body.decode('utf8', 'replace')
        if t == b':':
            return int(body)
        if t == b'$':
            n = int(body)
            if n < 0:
                return None
            d = self.f.read(n + 2)[:-2]
            return d.decode('utf8', 'replace')
        if t == b'*':
            n = int(body)
            if n < 0:
                return None
            return [self.read() for _ in range(n)]
        raise ValueError('bad resp %r' % line)

    def do(self, *args):
        self.send(*args)
        return self.read()

def show(c, *args):
    r = c.do(*args)
    print(' '.join(str(a) for a in args), '=>', r)
    return r

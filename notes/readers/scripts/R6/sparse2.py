import time, threading
from r import *
c = C()
c.do('DROP','sp')
c.do('SET','sp','p','POINT',1,1)
def bg():
    t=time.time()
    r = c.do('TIMEOUT','2','WITHIN','sp','SPARSE',14,'IDS','BOUNDS',-10,-10,10,10)
    print('SPARSE 14 with TIMEOUT 2 ->', r, round(time.time()-t,2),'s')
th = threading.Thread(target=bg); th.start()
time.sleep(0.5)
c2 = C(); c2.s.settimeout(60)
t=time.time(); print('other GET', c2.do('GET','sp','p'), round(time.time()-t,2),'s')
t=time.time(); print('other SET', c2.do('SET','sp','q','POINT',50,50), round(time.time()-t,2),'s')
c3 = C(); c3.s.settimeout(60)
t=time.time(); print('third GET (after a writer queued)', c3.do('GET','sp','p'), round(time.time()-t,2),'s')
th.join()

import time, socket
from r import *
c = C()
c.s.settimeout(5)
t=time.time()
try:
    print('GET', c.do('GET','sp','p'), round(time.time()-t,3))
    t=time.time()
    print('SET', c.do('SET','other','x','POINT',1,1), round(time.time()-t,3))
except Exception as e:
    print('EXC', repr(e), round(time.time()-t,3))

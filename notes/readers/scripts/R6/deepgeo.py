import sys, time
from r import *
n = int(sys.argv[1]); mode = sys.argv[2]
c = C()
deep = '['*n + ']'*n
if mode=='member':
    obj = '{"type":"Point","coordinates":[1,2],"x":%s}' % deep
elif mode=='coords':
    obj = '{"type":"Polygon","coordinates":%s}' % deep
elif mode=='props':
    obj = '{"type":"Feature","geometry":{"type":"Point","coordinates":[1,2]},"properties":{"x":%s}}' % deep
t=time.time()
try:
    r = c.do('TEST','OBJECT',obj,'INTERSECTS','BOUNDS',0,0,3,3)
    print(mode,'reply', str(r)[:100], 'in', round(time.time()-t,2))
except Exception as e:
    print(mode,'EXC', repr(e), 'in', round(time.time()-t,2))
try:
    c2 = C(); print('PING after:', c2.do('PING'))
except Exception as e:
    print('server gone:', repr(e))

from r import *
c = C()
c.do('DROP','ae')
# three disjoint boxes A,B,C, points pa in A, pb in B, pc in C
c.do('SET','ae','pa','POINT',0.5,0.5)
c.do('SET','ae','pb','POINT',10.5,10.5)
c.do('SET','ae','pc','POINT',20.5,20.5)
A=['BOUNDS',0,0,1,1]; B=['BOUNDS',10,10,11,11]; Cc=['BOUNDS',20,20,21,21]
ALL=['BOUNDS',-1,-1,30,30]
# A or B and C  : expected {pa} (B and C disjoint)
show(c,'INTERSECTS','ae','IDS',*A,'OR',*B,'AND',*Cc)
# ( A or B ) and C : expected {}
show(c,'INTERSECTS','ae','IDS','(',*A,'OR',*B,')','AND',*Cc)
# ALL and ( A or B ) : expected {pa,pb}
show(c,'INTERSECTS','ae','IDS',*ALL,'AND','(',*A,'OR',*B,')')
# C and ( A or B ) : expected {}
show(c,'INTERSECTS','ae','IDS',*Cc,'AND','(',*A,'OR',*B,')')
# A and ( B or C ) : expected {}
show(c,'INTERSECTS','ae','IDS',*A,'AND','(',*B,'OR',*Cc,')')
# A or ( B and C ) ; expected {pa}
show(c,'INTERSECTS','ae','IDS',*A,'OR','(',*B,'AND',*Cc,')')
# TEST equivalents
show(c,'TEST','POINT',20.5,20.5,'INTERSECTS',*A,'OR',*B,'AND',*Cc)
show(c,'TEST','POINT',10.5,10.5,'INTERSECTS',*A,'AND','(',*B,'OR',*Cc,')')

import random
from r import *
random.seed(5)
c = C()
c.do('DROP','pg')
n=40
for i in range(n):
    k = random.random()
    if k<0.5:
        c.do('SET','pg','p%d'%i,'FIELD','a',random.randint(0,5),'POINT',random.uniform(-5,5),random.uniform(-5,5))
    elif k<0.8:
        la,lo=random.uniform(-5,5),random.uniform(-5,5)
        c.do('SET','pg','r%d'%i,'FIELD','a',random.randint(0,5),'BOUNDS',la,lo,la+random.uniform(0,3),lo+random.uniform(0,3))
    else:
        la,lo=random.uniform(-5,5),random.uniform(-5,5)
        c.do('SET','pg','l%d'%i,'FIELD','a',random.randint(0,5),'OBJECT','{"type":"LineString","coordinates":[[%f,%f],[%f,%f]]}'%(lo,la,lo+2,la-2))
def paged(cmd, opts, area, limit):
    out=[]; cur=0; it=0
    while True:
        r = c.do(cmd,'pg','CURSOR',cur,'LIMIT',limit,*opts,*area)
        if not isinstance(r,list): return r
        out += r[1]; cur = r[0]; it+=1
        if cur==0 or it>200: break
    return out
bad=0
for cmd,area in [('NEARBY',['POINT',0,0]),('NEARBY',['POINT',0,0,300000]),('WITHIN',['BOUNDS',-4,-4,4,4]),('INTERSECTS',['BOUNDS',-4,-4,4,4]),('INTERSECTS',['CIRCLE',0,0,300000]),('WITHIN',['CIRCLE',0,0,300000]),('INTERSECTS',['BOUNDS',-4,-4,4,4,'CLIPBY','BOUNDS',0,0,9,9])]:
    for opts in [['IDS'],['WHERE','a > 2','IDS'],['WHERE','a','>','2','IDS'],['MATCH','p*','IDS'],['WHERE','a > 2 && id.match("r*")','IDS'],['DISTANCE','IDS'] if cmd=='NEARBY' else ['CLIP','IDS'] if cmd=='INTERSECTS' and area[0]=='BOUNDS' else ['POINTS']]:
        full = c.do(cmd,'pg','LIMIT',100000,*opts,*area)
        if not isinstance(full,list): print(cmd,opts,area,full); continue
        full=full[1]
        for limit in range(1,len(full)+2):
            p = paged(cmd,opts,area,limit)
            if p != full:
                bad+=1; print('MISMATCH',cmd,opts,area,limit,len(full),len(p) if isinstance(p,list) else p)
                break
print('bad',bad)

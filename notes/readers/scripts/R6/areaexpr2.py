from r import *
c = C()
P=['POINT',0.5,0.5]
A=['BOUNDS',0,0,1,1]; B=['BOUNDS',10,10,11,11]; Cc=['BOUNDS',20,20,21,21]
show(c,'TEST',*P,'INTERSECTS',*A)
show(c,'TEST',*P,'INTERSECTS','(',*A,')')
show(c,'TEST',*P,'INTERSECTS','(','(',*A,')',')')
show(c,'TEST',*P,'INTERSECTS','NOT','(',*B,')')
show(c,'TEST',*P,'INTERSECTS','(',*A,')','OR',*B)
show(c,'TEST',*P,'INTERSECTS',*B,'OR','(',*A,')')
show(c,'TEST',*P,'INTERSECTS',*A,*B)
show(c,'TEST',*P,'INTERSECTS',*B,*A)
show(c,'TEST',*P,'INTERSECTS',*B,'NOT',*A)
show(c,'TEST','(',*P,')','INTERSECTS',*A)
show(c,'TEST','NOT',*P,'INTERSECTS','NOT',*A)
show(c,'TEST','NOT',*P,'INTERSECTS',*A)
show(c,'TEST',*P,'INTERSECTS','NOT',*A)
# documented-style examples
show(c,'TEST',*P,'INTERSECTS',*A,'AND',*B,'OR',*Cc)   # (A&B)|C -> 0
show(c,'TEST',*P,'INTERSECTS',*Cc,'OR',*A,'AND',*B)   # C|(A&B) -> 0
show(c,'TEST',*P,'INTERSECTS',*B,'AND','(',*A,'OR',*Cc,')')   # B&(A|C) -> 0
show(c,'TEST',*P,'INTERSECTS','(',*A,'OR',*Cc,')','AND',*B)   # (A|C)&B -> 0

import time
from r import *
c = C()
c.do('DROP','sp')
c.do('SET','sp','p','POINT',1,1)
for lvl in [8,10,11,12,16,17]:
    t=time.time()
    r = c.do('WITHIN','sp','SPARSE',lvl,'IDS','BOUNDS',-10,-10,10,10) if lvl<13 else c.do('TIMEOUT','2','WITHIN','sp','SPARSE',lvl,'IDS','BOUNDS',-10,-10,10,10)
    print(lvl, r, round(time.time()-t,3))

import json
from r import *
c = C()
c.do('DROP','j2')
print(c.do('SET','j2','big','BOUNDS',-80,-170,80,170))
print(c.do('SET','j2','ln','OBJECT','{"type":"LineString","coordinates":[[-170,-80],[170,80]]}'))
print(c.do('OUTPUT','json'))
cmds = [
 ('TEST','BOUNDS','-inf','-inf','inf','inf','INTERSECTS','CLIP','BOUNDS',0,0,1,1),
 ('TEST','BOUNDS',0,0,1,1,'INTERSECTS','CLIP','BOUNDS','-inf','-inf','inf','inf'),
 ('TEST','BOUNDS',0,0,1,1,'INTERSECTS','CLIP','BOUNDS','nan','nan','nan','nan'),
 ('TEST','BOUNDS',0,0,10,10,'INTERSECTS','CLIP','BOUNDS',5,5,'inf','inf'),
 ('TEST','OBJECT','{"type":"LineString","coordinates":[[0,0],[10,10]]}','INTERSECTS','CLIP','BOUNDS',5,5,'inf','inf'),
 ('TEST','OBJECT','{"type":"LineString","coordinates":[[0,0],[10,10]]}','INTERSECTS','CLIP','BOUNDS','-inf',5,'inf',6),
 ('TEST','OBJECT','{"type":"LineString","coordinates":[[0,0],[1e308,1e308]]}','INTERSECTS','CLIP','BOUNDS',5,5,6,6),
 ('TEST','OBJECT','{"type":"LineString","coordinates":[[-1e308,-1e308],[1e308,1e308]]}','INTERSECTS','CLIP','BOUNDS',5,5,6,6),
 ('TEST','OBJECT','{"type":"Polygon","coordinates":[[[-1e308,-1e308],[1e308,-1e308],[1e308,1e308],[-1e308,1e308],[-1e308,-1e308]]]}','INTERSECTS','CLIP','BOUNDS',5,5,6,6),
 ('INTERSECTS','j2','CLIP','BOUNDS','-inf',5,'inf',6),
 ('INTERSECTS','j2','CLIP','BOUNDS',5,5,'inf','inf'),
 ('INTERSECTS','j2','CLIP','TILE',0,0,0),
 ('INTERSECTS','j2','BOUNDS','nan','nan','nan','nan'),
 ('INTERSECTS','j2','BOUNDS','-inf','-inf','inf','inf'),
 ('WITHIN','j2','BOUNDS','-inf','-inf','inf','inf'),
 ('WITHIN','j2','BOUNDS','BOUNDS','-inf','-inf','inf','inf'),
 ('INTERSECTS','j2','BUFFER','1e300','POINT',1,1),
 ('INTERSECTS','j2','BUFFER','1e7','POINT',89,1),
 ('INTERSECTS','j2','BUFFER','100','OBJECT','{"type":"LineString","coordinates":[[0,0],[0,0]]}'),
]
for cmd in cmds:
    r = c.do(*cmd)
    try:
        d = json.loads(r)
        d.pop('elapsed',None)
        print('   ', ' '.join(map(str,cmd))[:120], '=>', json.dumps(d)[:300])
    except Exception as e:
        print('INVALID JSON', ' '.join(map(str,cmd))[:120], '=>', r[:400])

import socket
def http(path):
    s = socket.create_connection(('127.0.0.1',24600)); s.settimeout(3)
    s.sendall(('GET %s HTTP/1.1\r\nHost: x\r\nConnection: close\r\n\r\n' % path).encode())
    data=b''
    try:
        while True:
            d=s.recv(65536)
            if not d: break
            data+=d
    except Exception as e:
        data+=b'<<timeout>>'
    print(path, '=>', data[:400])
    print()
http('/j2/0/0/0.mvt')
http('/j2/0/0/0.pbf?limit=1')
http('/j2/0/0/0.mvt?sparse=abc')
http('/j2/0/0/0.mvt?sparse=2')
http('/nokey/0/0/0.mvt')
http('/j2/99/0/0.mvt')
http('/j2/0/0/.mvt')
http('/.mvt')
http('/a/b.mvt')
http('/a/b/c/d/e.mvt')
http('/j%202/0/0/0.mvt')
http('/j2/0/0/0%.mvt')
http('/j2/0/0/0.mvt?limit=%zz')
http('/j2+x/0/0/0.mvt')

import socket, base64, json
from r import *
c = C()
c.do('DROP','mv'); c.do('SET','mv','p','POINT',10,10)
# RESP bytes
c.send('INTERSECTS','mv','LIMIT','100000000','MVT',0,0,0)
# read raw: *2 :0 $n bytes
f=c.f
assert f.readline().startswith(b'*2'); f.readline()
n=int(f.readline()[1:-2]); resp_tile=f.read(n+2)[:-2]
c.do('OUTPUT','json')
j=json.loads(c.do('INTERSECTS','mv','LIMIT','100000000','MVT',0,0,0))
json_tile=base64.b64decode(j['mvt']+'==')
s = socket.create_connection(('127.0.0.1',24600))
s.sendall(b'GET /mv/0/0/0.mvt HTTP/1.1\r\nHost: x\r\n\r\n')
data=b''
while True:
    d=s.recv(65536)
    if not d: break
    data+=d
head,body=data.split(b'\r\n\r\n',1)
cl=int([l for l in head.split(b'\r\n') if l.lower().startswith(b'content-length')][0].split(b':')[1])
print('RESP tile', len(resp_tile), 'JSON tile', len(json_tile), 'equal', resp_tile==json_tile)
print('HTTP content-length', cl, 'body len', len(body), 'body==tile', body==resp_tile, 'body==tile+CRLF', body==resp_tile+b'\r\n')
def pb(buf):
    i=0; out=[]
    def varint():
        nonlocal i
        v=0;s=0
        while True:
            if i>=len(buf): raise ValueError('truncated varint')
            b=buf[i]; i+=1; v|=(b&0x7f)<<s; s+=7
            if b<0x80: return v
    while i<len(buf):
        k=varint(); wt=k&7
        if wt==0: varint()
        elif wt==2:
            l=varint()
            if i+l>len(buf): raise ValueError('truncated bytes field')
            i+=l
        elif wt==5:
            if i+4>len(buf): raise ValueError('truncated fixed32 (field %d)'%(k>>3))
            i+=4
        elif wt==1:
            if i+8>len(buf): raise ValueError('truncated fixed64')
            i+=8
        else: raise ValueError('bad wiretype %d'%wt)
        out.append((k>>3,wt))
    return out
for name,b in [('RESP',resp_tile),('HTTP',body[:cl])]:
    try: print(name,'protobuf parse ok',pb(b))
    except Exception as e: print(name,'protobuf parse FAILED:',e)

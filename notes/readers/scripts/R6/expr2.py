from r import *
c = C()
c.do('DROP','e2')
vals = {'n0':'0','n1':'1','n2':'2.5','nneg':'-3','s1':'abc','s2':'ABD','s3':'10x','t':'true','f':'false','nu':'null','j':'{"a":1}','inf':'inf','nan':'nan','big':'9007199254740993','e':'1e3','hex':'0x10','empty':''}
for k,v in vals.items():
    r = c.do('SET','e2',k,'FIELD','f',v,'POINT',1,1)
    if r!='OK': print('set',k,v,r)
c.do('SET','e2','missing','POINT',1,1)
print(c.do('SCAN','e2'))
comps = [('1','1'),('0','0'),('2.5','2.5'),('abc','"abc"'),('ABC','"ABC"'),('true','true'),('false','false'),('null','null'),('1000','1000'),('9007199254740992','9007199254740992'),('16','16'),('inf','Infinity')]
for fv, ev in comps:
    for op in ['<','<=','>','>=','==','!=']:
        a = c.do('SCAN','e2','WHERE','f',op,fv,'IDS')
        b = c.do('SCAN','e2','WHERE','f %s %s'%(op,ev),'IDS')
        if a != b:
            print('DIFF f %s %s: field=%s expr=%s' % (op, fv, a[1] if isinstance(a,list) else a, b[1] if isinstance(b,list) else b))

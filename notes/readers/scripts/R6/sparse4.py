from r import *
c = C()
c.do('DROP','s4')
# circle centre (0,0) radius 1000 km  (~9 deg). A sits in the NW corner of the circle's bounding box, outside the disc.
c.do('SET','s4','A_corner','POINT',8.5,-8.5)
c.do('SET','s4','B_inside','POINT',-2,2)
c.do('SET','s4','C_inside','POINT',-3,-3)
area=['CIRCLE',0,0,1000000]
for cmd in ['INTERSECTS','WITHIN']:
    show(c,cmd,'s4','IDS',*area)
    for sp in [1,2,4]:
        show(c,cmd,'s4','SPARSE',sp,'IDS',*area)
show(c,'NEARBY','s4','IDS','POINT',0,0,1000000)
show(c,'NEARBY','s4','SPARSE',1,'IDS','POINT',0,0,1000000)
# rect area, WITHIN: a rect object straddling the query edge is a candidate that fails WITHIN
c.do('DROP','s5')
c.do('SET','s5','straddle','BOUNDS',8,-12,12,-8)   # crosses the NW corner of the query box
c.do('SET','s5','in1','POINT',-2,2)
c.do('SET','s5','in2','POINT',3,3)
show(c,'WITHIN','s5','IDS','BOUNDS',-10,-10,10,10)
show(c,'WITHIN','s5','SPARSE',1,'IDS','BOUNDS',-10,-10,10,10)
show(c,'WITHIN','s5','SPARSE',1,'COUNT','BOUNDS',-10,-10,10,10)

import sys, time
from r import *
n = int(sys.argv[1])
c = C()
c.do('SET','dt','p1','POINT',1,1)
expr = '0?1:'*n + '1'
t=time.time()
try:
    r = c.do('SCAN','dt','WHERE',expr,'IDS')
    print('reply', r, 'in', time.time()-t)
except Exception as e:
    print('EXC', repr(e), 'in', time.time()-t)
try:
    c2 = C()
    print('PING after:', c2.do('PING'))
except Exception as e:
    print('server gone:', repr(e))

import sys, time
from r import *
n = int(sys.argv[1])
c = C()
c.do('SET','dj','p1','POINT',1,1)
v = '['*n + ']'*n
t=time.time()
try:
    r = c.do('SCAN','dj','WHERE','f','==',v,'IDS')
    print('reply', r, 'in', time.time()-t)
except Exception as e:
    print('EXC', repr(e), 'in', time.time()-t)
try:
    c2 = C()
    print('PING after:', c2.do('PING'))
except Exception as e:
    print('server gone:', repr(e))

from r import *
c = C()
c.do('DROP','ec')
c.do('SET','ec','origin','POINT',0,0)
c.do('SET','ec','box0','BOUNDS',-1,-1,1,1)
c.do('SET','ec','far','POINT',55,55)
c.do('SET','ec','efc','OBJECT','{"type":"FeatureCollection","features":[]}')
c.do('SET','ec','emp','OBJECT','{"type":"MultiPolygon","coordinates":[]}')
c.do('SET','ec','egc','OBJECT','{"type":"GeometryCollection","geometries":[]}')
for cmd in ['WITHIN','INTERSECTS']:
    show(c,cmd,'ec','IDS','BOUNDS',-5,-5,5,5,'CLIPBY','BOUNDS',50,50,60,60)
    show(c,cmd,'ec','IDS','OBJECT','{"type":"Polygon","coordinates":[[[-5,-5],[5,-5],[5,5],[-5,5],[-5,-5]]]}','CLIPBY','BOUNDS',50,50,60,60)
    show(c,cmd,'ec','IDS','OBJECT','{"type":"MultiPolygon","coordinates":[[[[-5,-5],[5,-5],[5,5],[-5,5],[-5,-5]]]]}','CLIPBY','BOUNDS',50,50,60,60)
    show(c,cmd,'ec','IDS','OBJECT','{"type":"MultiPolygon","coordinates":[]}')
    show(c,cmd,'ec','IDS','OBJECT','{"type":"FeatureCollection","features":[]}')
    show(c,cmd,'ec','IDS','BOUNDS',-5,-5,5,5)
    show(c,cmd,'ec','IDS','BOUNDS',-90,-180,90,180)
for o in ['origin','box0','efc','emp','egc']:
  for cmd in ['WITHIN','INTERSECTS']:
    show(c,'TEST','GET','ec',o,cmd,'OBJECT','{"type":"MultiPolygon","coordinates":[]}')
    show(c,'TEST','GET','ec',o,cmd,'OBJECT','{"type":"FeatureCollection","features":[]}')
    show(c,'TEST','GET','ec',o,cmd,'BOUNDS',-5,-5,5,5)

import json
from r import *
c = C()
c.do('DROP','j')
c.do('SET','j','p1','FIELD','a',1,'FIELD','na"me','x"y','POINT',1,1)
c.do('SET','j','p"2','FIELD','b','{"k":[1,2]}','POINT',1.5,1.5,7)
c.do('SET','j','poly','OBJECT','{"type":"Polygon","coordinates":[[[0,0],[2,0],[2,2],[0,2],[0,0]]]}')
c.do('SET','j','line','OBJECT','{"type":"LineString","coordinates":[[-1,-1],[3,3]]}')
c.do('SET','j','str','STRING','he"llo')
c.do('SET','j','nanf','FIELD','n','nan','FIELD','i','-inf','POINT',1,1)
print(c.do('OUTPUT','json'))
cmds = [
 ('NEARBY','j','POINT',1,1),
 ('NEARBY','j','DISTANCE','POINT',1,1,100000),
 ('NEARBY','j','DISTANCE','IDS','POINT',1,1,100000),
 ('NEARBY','j','SPARSE',2,'DISTANCE','POINT',1,1,100000),
 ('NEARBY','j','SPARSE',2,'DISTANCE','IDS','POINT',1,1,100000),
 ('NEARBY','j','SPARSE',2,'POINT',1,1),
 ('NEARBY','j','DISTANCE','POINTS','POINT',1,1),
 ('NEARBY','j','DISTANCE','BOUNDS','POINT',1,1),
 ('NEARBY','j','DISTANCE','HASHES',5,'POINT',1,1),
 ('NEARBY','j','DISTANCE','COUNT','POINT',1,1),
 ('NEARBY','j','BUFFER',10,'POINT',1,1),
 ('INTERSECTS','j','CLIP','BOUNDS',0.5,0.5,1.7,1.7),
 ('INTERSECTS','j','CLIP','IDS','BOUNDS',0.5,0.5,1.7,1.7),
 ('INTERSECTS','j','CLIP','POINTS','BOUNDS',0.5,0.5,1.7,1.7),
 ('INTERSECTS','j','CLIP','BOUNDS','BOUNDS',0.5,0.5,1.7,1.7),
 ('INTERSECTS','j','CLIP','HASHES',4,'BOUNDS',0.5,0.5,1.7,1.7),
 ('INTERSECTS','j','CLIP','BOUNDS',50,50,51,51),
 ('INTERSECTS','j','MVT',0,0,0),
 ('INTERSECTS','j','COUNT','MVT',0,0,0),
 ('INTERSECTS','j','IDS','MVT',0,0,0),
 ('WITHIN','j','MVT',0,0,0),
 ('INTERSECTS','j','BUFFER',1000,'POINT',1,1),
 ('INTERSECTS','j','BUFFER',1000,'BOUNDS',0,0,1,1),
 ('INTERSECTS','j','BUFFER',1000,'GET','j','line'),
 ('INTERSECTS','j','BUFFER',1000,'GET','j','str'),
 ('INTERSECTS','j','GET','j','str'),
 ('INTERSECTS','j','SPARSE',1,'BOUNDS',-10,-10,10,10),
 ('WITHIN','j','SPARSE',3,'POINTS','BOUNDS',-10,-10,10,10),
 ('TEST','GET','j','poly','INTERSECTS','CLIP','BOUNDS',1,1,3,3),
 ('TEST','GET','j','line','INTERSECTS','CLIP','BOUNDS',1,1,3,3),
 ('TEST','GET','j','line','INTERSECTS','CLIP','BOUNDS',10,10,13,13),
 ('TEST','GET','j','str','INTERSECTS','BOUNDS',1,1,3,3),
 ('TEST','GET','j','nope','INTERSECTS','BOUNDS',1,1,3,3),
 ('TEST','OBJECT','{bad','INTERSECTS','BOUNDS',1,1,3,3),
 ('SCAN','j','WHERE','a == 1'),
 ('SCAN','j','WHERE','n','==','nan'),
 ('SCAN','j','WHERE','b.k[1] == 2','IDS'),
 ('SEARCH','j','WHERE','a == 1'),
 ('SEARCH','j'),
 ('SCAN','j','WHERE','a =~ "("'),
 ('WITHIN','j','WHEREIN','a',1,1,'BOUNDS',-10,-10,10,10),
 ('WITHIN','j','WHEREIN','a',2,1,'BOUNDS',-10,-10,10,10),
]
for cmd in cmds:
    r = c.do(*cmd)
    try:
        d = json.loads(r)
        ok = 'ok' in d and isinstance(d['ok'],bool) and (d['ok'] or 'err' in d)
        d.pop('elapsed',None)
        s = json.dumps(d)
        print(('   ' if ok else 'BAD'), ' '.join(map(str,cmd)), '=>', s[:230])
    except Exception as e:
        print('INVALID JSON', cmd, '=>', r[:300])

import random
from r import *
random.seed(11)
c = C()
c.do('DROP','s3')
for i in range(300):
    k=random.random()
    la,lo=random.uniform(-60,60),random.uniform(-170,170)
    if k<0.6: c.do('SET','s3','p%d'%i,'FIELD','a',random.randint(0,3),'POINT',la,lo)
    elif k<0.8: c.do('SET','s3','r%d'%i,'FIELD','a',random.randint(0,3),'BOUNDS',la,lo,la+random.uniform(0,20),lo+random.uniform(0,8))
    else: c.do('SET','s3','l%d'%i,'OBJECT','{"type":"LineString","coordinates":[[%f,%f],[%f,%f]]}'%(lo,la,lo+random.uniform(-9,9),la+random.uniform(-20,20)))
bad=0
for t in range(200):
    la,lo=random.uniform(-60,60),random.uniform(-170,170)
    area = random.choice([['BOUNDS',la,lo,la+random.uniform(0,30),lo+random.uniform(0,10)],['CIRCLE',la,lo,random.uniform(1000,3000000)],
        ['OBJECT','{"type":"Polygon","coordinates":[[[%f,%f],[%f,%f],[%f,%f],[%f,%f]]]}'%(lo,la,lo+20,la,lo+10,la+20,lo,la)]])
    cmd=random.choice(['WITHIN','INTERSECTS'])
    opts = random.choice([[],['WHERE','a > 1'],['MATCH','p*']])
    full=set(c.do(cmd,'s3','LIMIT',100000,*opts,'IDS',*area)[1])
    for sp in [1,2,3,5]:
        r=c.do(cmd,'s3','SPARSE',sp,*opts,'IDS',*area)
        ids=r[1]
        cnt=c.do(cmd,'s3','SPARSE',sp,*opts,'COUNT',*area)
        if len(ids)!=len(set(ids)) or not set(ids)<=full or cnt!=len(ids) or (full and not ids and not opts):
            bad+=1; print('BAD',cmd,sp,opts,area,len(full),ids[:5],cnt)
    if area[0]=='CIRCLE':
        full=set(c.do('NEARBY','s3','LIMIT',100000,*opts,'IDS','POINT',*area[1:])[1])
        inter=set(c.do('INTERSECTS','s3','LIMIT',100000,*opts,'IDS',*area)[1])
        for sp in [1,3]:
            ids=c.do('NEARBY','s3','SPARSE',sp,*opts,'IDS','POINT',*area[1:])[1]
            if not set(ids)<=inter: bad+=1; print('BAD NEARBY sparse not subset of intersects', area, set(ids)-inter)
        # note nearby (bbox distance) vs intersects circle can differ for extended objects
print('bad',bad)

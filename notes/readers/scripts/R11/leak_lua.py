#!/usr/bin/env python3
# TIMEOUT + FENCE + WHEREEVAL: the interpreters taken for the fence are never
# returned when the post-command deadline check turns "going live" into "timeout".
# usage: leak_lua.py PORT
import socket, sys

PORT = int(sys.argv[1])


def enc(args):
    out = b"*%d\r\n" % len(args)
    for a in args:
        a = str(a).encode()
        out += b"$%d\r\n%s\r\n" % (len(a), a)
    return out


def rd(f):
    l = f.readline()
    t = l[:1]
    if t in (b"+", b"-", b":"):
        return l[:-2]
    if t == b"$":
        n = int(l[1:-2])
        return None if n < 0 else f.read(n + 2)[:-2]
    if t == b"*":
        return [rd(f) for _ in range(int(l[1:-2]))]
    raise ValueError(l)


s = socket.create_connection(("127.0.0.1", PORT))
f = s.makefile("rb")


def do(*a):
    s.sendall(enc(a))
    return rd(f)


print("before:", do("EVAL", "return 1", 0))
last = None
for i in range(1100):
    last = do("TIMEOUT", "0", "NEARBY", "fleet", "FENCE", "WHEREEVAL", "return true", 0, "POINT", 33, -115, 1000)
print("reply of the leaking command:", last)
s2 = socket.create_connection(("127.0.0.1", PORT))
f2 = s2.makefile("rb")
s2.sendall(enc(["EVAL", "return 1", 0]))
print("after, other connection EVAL:", rd(f2))
s2.sendall(enc(["SCAN", "fleet", "WHEREEVAL", "return true", 0]))
print("after, other connection SCAN WHEREEVAL:", rd(f2))
s2.sendall(enc(["SCRIPT", "LOAD", "return 1"]))
print("after, other connection SCRIPT LOAD:", rd(f2))

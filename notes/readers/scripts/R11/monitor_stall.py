#!/usr/bin/env python3
# A MONITOR client that stops reading freezes every other connection:
# sendMonitor writes to the monitor socket while holding monconnsMu and the
# caller's server lock (read or write).
# usage: monitor_stall.py PORT
import socket, sys, time

PORT = int(sys.argv[1])


def enc(args):
    out = b"*%d\r\n" % len(args)
    for a in args:
        a = a if isinstance(a, bytes) else str(a).encode()
        out += b"$%d\r\n%s\r\n" % (len(a), a)
    return out


mon = socket.create_connection(("127.0.0.1", PORT))
mon.setsockopt(socket.SOL_SOCKET, socket.SO_RCVBUF, 4096)
mon.sendall(enc(["MONITOR"]))
time.sleep(0.3)
print("monitor:", mon.recv(100))
# from now on the monitor client never reads again

w = socket.create_connection(("127.0.0.1", PORT))
w.settimeout(5)
f = w.makefile("rb")
big = b"x" * 60000
n = 0
try:
    for i in range(2000):
        w.sendall(enc(["SET", "k", "id%d" % i, "STRING", big]))
        l = f.readline()
        assert l == b"+OK\r\n", l
        n += 1
except socket.timeout:
    print("writer: SET number %d got no reply within 5 s" % (n + 1))

o = socket.create_connection(("127.0.0.1", PORT))
o.settimeout(5)
o.sendall(enc(["GET", "k", "id0"]))
try:
    d = o.recv(100)
    print("other connection GET:", d[:40])
except socket.timeout:
    print("other connection: GET got no reply within 5 s (server is frozen)")
p = socket.create_connection(("127.0.0.1", PORT))
p.settimeout(5)
p.sendall(enc(["PING"]))
print("PING (takes no lock, not monitored):", p.recv(100))

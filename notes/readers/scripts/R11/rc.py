#!/usr/bin/env python3
# tiny RESP client: rc.py PORT cmd args... ; prints the reply
import socket, sys
def enc(args):
    out = b"*%d\r\n" % len(args)
    for a in args:
        a = a.encode() if isinstance(a, str) else a
        out += b"$%d\r\n%s\r\n" % (len(a), a)
    return out
def rd(f):
    l = f.readline()
    if not l: return "<closed>"
    t = l[:1]
    if t in (b"+", b"-", b":"): return l[:-2].decode()
    if t == b"$":
        n = int(l[1:-2])
        return None if n < 0 else f.read(n + 2)[:-2].decode(errors="replace")
    if t == b"*": return [rd(f) for _ in range(int(l[1:-2]))]
    return l
s = socket.create_connection(("127.0.0.1", int(sys.argv[1]))); s.settimeout(5)
f = s.makefile("rb"); s.sendall(enc(sys.argv[2:])); print(rd(f))

#!/usr/bin/env python3
# CLIENT KILL reads Client.closer under connsmu only; a connection that goes live
# (FENCE / SUBSCRIBE / MONITOR / AOF) clears it without any lock.
# usage: kill_live_race.py PORT SECONDS
import socket, sys, threading, time

PORT = int(sys.argv[1]); DUR = float(sys.argv[2])
stop = time.time() + DUR


def enc(args):
    out = b"*%d\r\n" % len(args)
    for a in args:
        a = str(a).encode()
        out += b"$%d\r\n%s\r\n" % (len(a), a)
    return out


def liver():
    while time.time() < stop:
        try:
            s = socket.create_connection(("127.0.0.1", PORT))
            s.settimeout(0.05)
            s.sendall(enc(["SUBSCRIBE", "ch"]))
            try:
                s.recv(4096)
            except socket.timeout:
                pass
            s.close()
        except Exception:
            pass


def killer():
    s = socket.create_connection(("127.0.0.1", PORT))
    f = s.makefile("rb")
    while time.time() < stop:
        s.sendall(enc(["CLIENT", "LIST"]))
        l = f.readline()
        n = int(l[1:-2])
        body = f.read(n + 2)[:-2]
        ids = [ln.split()[0][3:].decode() for ln in body.split(b"\n") if ln.startswith(b"id=")]
        hi = max(int(i) for i in ids)
        # kill the newest connections and the ones about to be created
        batch = b"".join(enc(["CLIENT", "KILL", "ID", i]) for i in range(hi - 2, hi + 6))
        s.sendall(batch)
        for _ in range(8):
            f.readline()


ths = [threading.Thread(target=liver) for _ in range(6)] + [threading.Thread(target=killer) for _ in range(2)]
for t in ths:
    t.start()
for t in ths:
    t.join()
print("done")

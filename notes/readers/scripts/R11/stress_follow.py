#!/usr/bin/env python3
# leader on LPORT, follower on FPORT (both race builds). Writes go to the leader,
# reads/admin to the follower, and the follower is switched FOLLOW <-> FOLLOW no one.
# usage: stress_follow.py LPORT FPORT SECONDS
import socket, sys, threading, time, random

LPORT = int(sys.argv[1]); FPORT = int(sys.argv[2]); DUR = float(sys.argv[3])
stop = time.time() + DUR


def enc(args):
    out = b"*%d\r\n" % len(args)
    for a in args:
        if not isinstance(a, bytes):
            a = str(a).encode()
        out += b"$%d\r\n%s\r\n" % (len(a), a)
    return out


class C:
    def __init__(self, port):
        self.s = socket.create_connection(("127.0.0.1", port))
        self.s.settimeout(20)
        self.f = self.s.makefile("rb")

    def rd(self):
        l = self.f.readline()
        if not l:
            raise EOFError()
        t = l[:1]
        if t in (b"+", b"-", b":"):
            return l[1:-2]
        if t == b"$":
            n = int(l[1:-2])
            if n < 0:
                return None
            return self.f.read(n + 2)[:-2]
        if t == b"*":
            n = int(l[1:-2])
            return [self.rd() for _ in range(max(n, 0))]
        raise ValueError(l)

    def do(self, *args):
        self.s.sendall(enc(args))
        return self.rd()


errs = []


def writer(i):
    random.seed(i)
    c = C(LPORT)
    n = 0
    while time.time() < stop:
        k = "k%d" % random.randint(0, 2)
        r = random.random()
        try:
            if r < 0.6:
                c.do("SET", k, "id%d" % random.randint(0, 200), "FIELD", "f", n, "POINT", 33 + random.random(), -115 + random.random())
            elif r < 0.7:
                c.do("DEL", k, "id%d" % random.randint(0, 200))
            elif r < 0.8:
                c.do("SET", k, "s%d" % random.randint(0, 20), "EX", 1, "STRING", "x" * random.randint(1, 2000))
            elif r < 0.85:
                c.do("SETCHAN", "c%d" % random.randint(0, 3), "WITHIN", k, "FENCE", "BOUNDS", 33, -115, 34, -114)
            elif r < 0.9:
                c.do("PUBLISH", "c1", "hello")
            elif r < 0.92:
                c.do("AOFSHRINK")
            elif r < 0.96:
                c.do("INFO")
            else:
                c.do("ROLE")
            n += 1
        except Exception as e:
            errs.append(repr(e))
            time.sleep(0.05)
            c = C(LPORT)


def reader(i):
    random.seed(100 + i)
    c = C(FPORT)
    while time.time() < stop:
        k = "k%d" % random.randint(0, 2)
        r = random.random()
        try:
            if r < 0.2:
                c.do("SCAN", k, "LIMIT", 20)
            elif r < 0.3:
                c.do("GET", k, "id%d" % random.randint(0, 200))
            elif r < 0.4:
                c.do("SERVER")
            elif r < 0.5:
                c.do("SERVER", "EXT")
            elif r < 0.6:
                c.do("INFO")
            elif r < 0.7:
                c.do("ROLE")
            elif r < 0.8:
                c.do("HEALTHZ")
            elif r < 0.85:
                c.do("AOFSHRINK")
            elif r < 0.9:
                c.do("STATS", k)
            elif r < 0.95:
                c.do("NEARBY", k, "LIMIT", 5, "POINT", 33.5, -114.5)
            else:
                c.do("EVALRO", "return tile38.call('scan', KEYS[1], 'limit', 3)", 1, k)
        except Exception as e:
            errs.append(repr(e))
            time.sleep(0.05)
            c = C(FPORT)


def flipper():
    c = C(FPORT)
    while time.time() < stop:
        try:
            c.do("FOLLOW", "127.0.0.1", LPORT)
            time.sleep(random.random() * 1.5)
            if random.random() < 0.5:
                c.do("FOLLOW", "no", "one")
                time.sleep(random.random() * 0.3)
        except Exception as e:
            errs.append(repr(e))
            time.sleep(0.1)
            c = C(FPORT)


ths = [threading.Thread(target=writer, args=(i,)) for i in range(4)]
ths += [threading.Thread(target=reader, args=(i,)) for i in range(4)]
ths += [threading.Thread(target=flipper)]
for t in ths:
    t.start()
for t in ths:
    t.join()
from collections import Counter
print("done; errors:", Counter(errs).most_common(8))

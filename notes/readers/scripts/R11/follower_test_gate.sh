#!/bin/bash
# TEST ... GET key id is answered by a follower that never caught up (GET/SCAN are refused).
# usage: follower_test_gate.sh PORT   (needs ./t38-R11 and ./rc.py in the current directory)
P=${1:-25121}; D=d3; rm -rf $D; mkdir $D
./t38-R11 -d $D -p $P -q & PID=$!; sleep 1.5
python3 rc.py $P SET fleet truck1 POINT 33.5 -112.2
kill $PID; sleep 1
python3 - <<PY
import json
p='$D/config'; c=json.load(open(p)); c['follow_host']='127.0.0.1'; c['follow_port']=1; json.dump(c,open(p,'w'))
PY
./t38-R11 -d $D -p $P -q & PID=$!; sleep 2
for c in "GET fleet truck1" "SCAN fleet" "TEST GET fleet truck1 INTERSECTS CLIP BOUNDS -90 -180 90 180" "TEST GET fleet truck1 WITHIN BOUNDS 33 -113 34 -112"; do echo "> $c"; python3 rc.py $P $c; done
kill $PID

#!/usr/bin/env python3
# Broad concurrent workload against a race-enabled tile38 server.
# usage: stress.py PORT SECONDS [METRICSPORT]
import socket, sys, threading, time, random, urllib.request

PORT = int(sys.argv[1])
DUR = float(sys.argv[2])
MPORT = int(sys.argv[3]) if len(sys.argv) > 3 else 0
stop = time.time() + DUR


def enc(args):
    out = b"*%d\r\n" % len(args)
    for a in args:
        if not isinstance(a, bytes):
            a = str(a).encode()
        out += b"$%d\r\n%s\r\n" % (len(a), a)
    return out


class C:
    def __init__(self):
        self.s = socket.create_connection(("127.0.0.1", PORT))
        self.s.settimeout(10)
        self.f = self.s.makefile("rb")

    def rd(self):
        l = self.f.readline()
        if not l:
            raise EOFError()
        t = l[:1]
        if t in (b"+", b"-", b":"):
            return l[1:-2]
        if t == b"$":
            n = int(l[1:-2])
            if n < 0:
                return None
            d = self.f.read(n + 2)
            return d[:-2]
        if t == b"*":
            n = int(l[1:-2])
            return [self.rd() for _ in range(max(n, 0))]
        raise ValueError(l)

    def do(self, *args):
        self.s.sendall(enc(args))
        return self.rd()

    def close(self):
        try:
            self.s.close()
        except Exception:
            pass


KEYS = ["k1", "k2", "k3"]
SCRIPT_W = "return tile38.call('set', KEYS[1], ARGV[1], 'point', 33, -115)"
SCRIPT_R = "return tile38.call('get', KEYS[1], ARGV[1])"
SCRIPT_S = "return tile38.call('scan', KEYS[1], 'limit', 5)"
SCRIPT_NA = ("tile38.call('set', KEYS[1], ARGV[1], 'point', 33, -115); "
             "tile38.call('get', KEYS[1], ARGV[1]); return tile38.call('del', KEYS[1], ARGV[1])")


def rid():
    return "id%d" % random.randint(0, 40)


def gen():
    k = random.choice(KEYS)
    r = random.random()
    lat = 33 + random.random()
    lon = -115 + random.random()
    cmds = [
        lambda: ("SET", k, rid(), "FIELD", "speed", random.randint(0, 100), "POINT", lat, lon),
        lambda: ("SET", k, rid(), "EX", "0.2", "POINT", lat, lon),
        lambda: ("SET", k, rid(), "OBJECT", '{"type":"Polygon","coordinates":[[[%f,%f],[%f,%f],[%f,%f],[%f,%f]]]}' % (lon, lat, lon + .1, lat, lon + .1, lat + .1, lon, lat)),
        lambda: ("SET", k, rid(), "STRING", "hello%d" % random.randint(0, 9)),
        lambda: ("SET", k, rid(), "OBJECT", '{"type":"Feature","geometry":{"type":"Point","coordinates":[%f,%f]},"properties":{"a":%d}}' % (lon, lat, random.randint(0, 9))),
        lambda: ("FSET", k, rid(), "speed", random.randint(0, 100)),
        lambda: ("GET", k, rid(), "WITHFIELDS"),
        lambda: ("DEL", k, rid()),
        lambda: ("PDEL", k, "id1*"),
        lambda: ("FGET", k, rid(), "speed"),
        lambda: ("EXISTS", k, rid()),
        lambda: ("FEXISTS", k, rid(), "speed"),
        lambda: ("TTL", k, rid()),
        lambda: ("EXPIRE", k, rid(), 1),
        lambda: ("PERSIST", k, rid()),
        lambda: ("JSET", k, rid(), "properties.a", random.randint(0, 9)),
        lambda: ("JGET", k, rid(), "properties.a"),
        lambda: ("JDEL", k, rid(), "properties.a"),
        lambda: ("SCAN", k, "LIMIT", 10),
        lambda: ("SCAN", k, "WHERE", "speed", 10, 50, "COUNT"),
        lambda: ("SCAN", k, "WHERE", "speed > 10 && id =~ 'id[0-9]'", "IDS"),
        lambda: ("SCAN", k, "WHEREEVAL", "return FIELDS.speed ~= nil and FIELDS.speed > tonumber(ARGV[1])", 1, 20, "IDS"),
        lambda: ("SEARCH", k, "MATCH", "hello*", "LIMIT", 5),
        lambda: ("NEARBY", k, "LIMIT", 5, "POINT", lat, lon, 50000),
        lambda: ("NEARBY", k, "DISTANCE", "LIMIT", 5, "POINT", lat, lon),
        lambda: ("WITHIN", k, "IDS", "BOUNDS", 33, -115, 34, -114),
        lambda: ("WITHIN", k, "IDS", "CIRCLE", lat, lon, 30000),
        lambda: ("INTERSECTS", k, "COUNT", "BOUNDS", 33, -115, 34, -114),
        lambda: ("INTERSECTS", k, "IDS", "GET", random.choice(KEYS), rid()),
        lambda: ("WITHIN", k, "SPARSE", 2, "IDS", "BOUNDS", 33, -115, 34, -114),
        lambda: ("TIMEOUT", "0.0001", "SCAN", k, "LIMIT", 1000),
        lambda: ("TIMEOUT", "0.5", "WITHIN", k, "IDS", "BOUNDS", 33, -115, 34, -114),
        lambda: ("TEST", "POINT", lat, lon, "WITHIN", "BOUNDS", 33, -115, 34, -114),
        lambda: ("BOUNDS", k),
        lambda: ("TYPE", k),
        lambda: ("KEYS", "*"),
        lambda: ("STATS", k, "nokey"),
        lambda: ("SERVER",),
        lambda: ("SERVER", "EXT"),
        lambda: ("INFO",),
        lambda: ("ROLE",),
        lambda: ("HEALTHZ",),
        lambda: ("PING",),
        lambda: ("CLIENT", "LIST"),
        lambda: ("CLIENT", "SETNAME", "n%d" % random.randint(0, 9)),
        lambda: ("CLIENT", "GETNAME"),
        lambda: ("EVAL", SCRIPT_W, 1, k, rid()),
        lambda: ("EVALRO", SCRIPT_R, 1, k, rid()),
        lambda: ("EVALRO", SCRIPT_S, 1, k),
        lambda: ("EVALNA", SCRIPT_NA, 1, k, rid()),
        lambda: ("EVALNA", SCRIPT_S, 1, k),
        lambda: ("SCRIPT", "LOAD", "return %d" % random.randint(0, 50)),
        lambda: ("SCRIPT", "EXISTS", "abc"),
        lambda: ("EVALSHA", "abc", 0),
        lambda: ("SETHOOK", "h%d" % random.randint(0, 5), "http://127.0.0.1:25102/x", "NEARBY", k, "FENCE", "POINT", lat, lon, 50000),
        lambda: ("SETHOOK", "hx%d" % random.randint(0, 5), "http://127.0.0.1:25102/x", "EX", "0.3", "WITHIN", k, "FENCE", "DETECT", "cross,enter", "BOUNDS", 33, -115, 34, -114),
        lambda: ("DELHOOK", "h%d" % random.randint(0, 5)),
        lambda: ("PDELHOOK", "hx*"),
        lambda: ("HOOKS", "*"),
        lambda: ("SETCHAN", "c%d" % random.randint(0, 5), "WITHIN", k, "FENCE", "BOUNDS", 33, -115, 34, -114),
        lambda: ("SETCHAN", "cr%d" % random.randint(0, 2), "NEARBY", k, "FENCE", "ROAM", random.choice(KEYS), "*", 30000),
        lambda: ("DELCHAN", "c%d" % random.randint(0, 5)),
        lambda: ("CHANS", "*"),
        lambda: ("PUBLISH", "c1", "hi"),
        lambda: ("CONFIG", "GET", "maxmemory"),
        lambda: ("CONFIG", "SET", "keepalive", random.randint(100, 400)),
        lambda: ("GC",) if r < 0.02 else ("PING",),
        lambda: ("AOFSHRINK",) if r < 0.1 else ("PING",),
        lambda: ("RENAME", k, random.choice(KEYS)) if r < 0.05 else ("PING",),
        lambda: ("RENAMENX", k, "kx") if r < 0.05 else ("PING",),
        lambda: ("DROP", k) if r < 0.03 else ("PING",),
        lambda: ("FLUSHDB",) if r < 0.01 else ("PING",),
        lambda: ("SCRIPT", "FLUSH") if r < 0.05 else ("PING",),
        lambda: ("READONLY", "no") if r < 0.05 else ("PING",),
        lambda: ("OUTPUT", random.choice(["json", "resp"])) if r < 0.1 else ("PING",),
        lambda: ("AOFMD5", 0, 10),
        lambda: ("REPLCONF", "listening-port", 1234),
        lambda: ("REPLCONF", "ip-address", "10.0.0.1"),
        lambda: ("CONFIG", "REWRITE"),
        lambda: ("CONFIG", "SET", "maxmemory", random.choice(["0", "10gb"])),
        lambda: ("config set", "keepalive", "200"),
        lambda: ("MASSINSERT", 2, 20) if r < 0.2 else ("PING",),
        lambda: ("INFO", "all"),
        lambda: ("SETHOOK", "hl%d" % random.randint(0, 3), "local://c1", "WITHIN", k, "FENCE", "BOUNDS", 33, -115, 34, -114),
        lambda: ("SETHOOK", "hw%d" % random.randint(0, 3), "http://127.0.0.1:25102/x", "WITHIN", k, "WHEREEVAL", "return FIELDS.speed ~= nil", 0, "FENCE", "BOUNDS", 33, -115, 34, -114),
        lambda: ("PDELHOOK", "hw*") if r < 0.3 else ("PING",),
        lambda: ("TIMEOUT", "0", "NEARBY", k, "FENCE", "POINT", 33, -115, 1000),
        lambda: ("TIMEOUT", "1", "EVALRO", SCRIPT_S, 1, k),
        lambda: ("TIMEOUT", "1", "EVALNA", SCRIPT_S, 1, k),
        lambda: ("WITHIN", k, "WHEREEVAL", "return true", 0, "IDS", "CIRCLE", lat, lon, 30000),
        lambda: ("NEARBY", k, "WHEREIN", "speed", 2, 10, 20, "LIMIT", 5, "POINT", lat, lon),
        lambda: ("INTERSECTS", k, "CLIP", "BOUNDS", 33, -115, 34, -114),
        lambda: ("SEARCH", k, "WHERE", "speed", 0, 100, "DESC"),
    ]
    return random.choice(cmds)()


errs = []


def worker(i):
    random.seed(i)
    c = None
    while time.time() < stop:
        try:
            if c is None:
                c = C()
            for _ in range(random.randint(1, 50)):
                c.do(*gen())
            if random.random() < 0.1:
                c.close()
                c = None
        except Exception as e:
            errs.append(repr(e))
            if c:
                c.close()
            c = None
            time.sleep(0.05)


def liver(i):
    # connections that go live: fences, subscribe, monitor, aof
    random.seed(1000 + i)
    while time.time() < stop:
        try:
            c = C()
            c.s.settimeout(0.3 + random.random())
            k = random.choice(KEYS)
            kind = random.randint(0, 5)
            if kind == 0:
                c.s.sendall(enc(["NEARBY", k, "FENCE", "POINT", 33.5, -114.5, 60000]))
            elif kind == 1:
                c.s.sendall(enc(["WITHIN", k, "FENCE", "DETECT", "enter,exit,cross", "BOUNDS", 33, -115, 34, -114]))
            elif kind == 2:
                c.s.sendall(enc(["NEARBY", k, "FENCE", "ROAM", random.choice(KEYS), "*", 30000]))
            elif kind == 3:
                c.s.sendall(enc(["PSUBSCRIBE", "c*"]))
            elif kind == 4:
                c.s.sendall(enc(["MONITOR"]))
            else:
                c.s.sendall(enc(["AOF", 0]))
            try:
                while time.time() < stop:
                    d = c.s.recv(65536)
                    if not d:
                        break
            except socket.timeout:
                pass
            c.close()
        except Exception as e:
            errs.append(repr(e))
            time.sleep(0.05)


def killer():
    random.seed(77)
    c = None
    while time.time() < stop:
        try:
            if c is None:
                c = C()
            lst = c.do("CLIENT", "LIST")
            ids = []
            if isinstance(lst, bytes):
                for line in lst.split(b"\n"):
                    if line.startswith(b"id="):
                        ids.append(line.split()[0][3:].decode())
            if ids:
                c.do("CLIENT", "KILL", "ID", random.choice(ids))
            time.sleep(0.02)
        except Exception as e:
            if c:
                c.close()
            c = None


def metrics():
    while time.time() < stop:
        try:
            urllib.request.urlopen("http://127.0.0.1:%d/metrics" % MPORT, timeout=5).read()
        except Exception as e:
            errs.append(repr(e))
        time.sleep(0.05)


def httper():
    while time.time() < stop:
        try:
            urllib.request.urlopen("http://127.0.0.1:%d/SERVER" % PORT, timeout=5).read()
            urllib.request.urlopen("http://127.0.0.1:%d/SCAN+k1+LIMIT+3" % PORT, timeout=5).read()
        except Exception as e:
            errs.append(repr(e))
        time.sleep(0.05)


ths = [threading.Thread(target=worker, args=(i,)) for i in range(10)]
ths += [threading.Thread(target=liver, args=(i,)) for i in range(4)]
ths += [threading.Thread(target=killer)]
ths += [threading.Thread(target=httper)]
if MPORT:
    ths += [threading.Thread(target=metrics)]
for t in ths:
    t.start()
for t in ths:
    t.join()
from collections import Counter
print("done; errors:", Counter(errs).most_common(8))

// Package gen holds the rapid generators shared by the property checks. All
// randomness comes from rapid so that failing cases shrink and replay.
package gen

import (
	"fmt"
	"strconv"
	"strings"

	"pgregory.net/rapid"
)

// Names is the alphabet a case draws keys, ids and field names from.
type Names struct {
	Keys, IDs, Fields []string
}

// SmallNames forces collisions.
var SmallNames = Names{
	Keys:   []string{"k1", "k2", "k3"},
	IDs:    []string{"a", "b", "c", "d"},
	Fields: []string{"f", "g", "h"},
}

var textAlphabet = []rune("abcXYZ019 _-:/*?[]^\\\"'{}(),.é世")

// TextName draws a non-empty name with glob metacharacters, spaces, quotes and
// some non-ASCII text; dot controls whether '.' may appear.
func TextName(t *rapid.T, label string, dot bool) string {
	for {
		rs := rapid.SliceOfN(rapid.SampledFrom(textAlphabet), 1, 8).Draw(t, label)
		s := string(rs)
		if !dot {
			s = strings.ReplaceAll(s, ".", "_")
		}
		if strings.TrimSpace(s) == "" {
			continue
		}
		return s
	}
}

// DrawNames draws the alphabet of a case: mostly the small one, otherwise a
// few text-class names.
func DrawNames(t *rapid.T) Names {
	if rapid.IntRange(0, 9).Draw(t, "nameclass") < 7 {
		return SmallNames
	}
	var n Names
	for i := 0; i < 3; i++ {
		n.Keys = append(n.Keys, TextName(t, "key", true))
	}
	for i := 0; i < 4; i++ {
		n.IDs = append(n.IDs, TextName(t, "id", true))
	}
	for len(n.Fields) < 3 {
		f := strings.TrimSpace(TextName(t, "field", false))
		switch strings.ToLower(f) {
		case "xx", "return", "z", "lat", "lon", "":
			continue
		}
		n.Fields = append(n.Fields, f)
	}
	return n
}

// HostileNames draws names with bytes that stress framing, ordering and
// escaping: NUL, 0xff, CR/LF, invalid UTF-8, and one very long name.
func HostileNames(t *rapid.T) Names {
	parts := []string{"\x00", "\xff", "\r\n", "a", "\x00\x00", "\xff\xff", "é", "\xc3", " ", "*"}
	mk := func(label string) string {
		for {
			ps := rapid.SliceOfN(rapid.SampledFrom(parts), 1, 4).Draw(t, label)
			s := strings.Join(ps, "")
			if strings.TrimSpace(s) != "" {
				return s
			}
		}
	}
	var n Names
	for i := 0; i < 3; i++ {
		n.Keys = append(n.Keys, mk("hkey"))
	}
	for i := 0; i < 3; i++ {
		n.IDs = append(n.IDs, mk("hid"))
	}
	n.IDs = append(n.IDs, strings.Repeat("L", rapid.IntRange(70000, 200000).Draw(t, "longlen")))
	n.Fields = []string{"f\x00g", "\xffh", "g"}
	return n
}

func pick(t *rapid.T, label string, xs []string) string {
	return rapid.SampledFrom(xs).Draw(t, label)
}

var fieldValues = []string{
	"0", "1", "-5", "2", "10", "1.0", "1.5", "1e3", "-0", "0.0", "007", "+5", ".5",
	"nan", "NaN", "inf", "-Inf", "+infinity",
	"true", "false", "null",
	`{"a":1}`, `{"a": 1, "b": [1, 2]}`, `[1, 2]`, `[]`, `{}`,
	`"hello"`, `"0"`, `"true"`, `"a b"`,
	"abc", "ABC", "Abc", "abd", "hello world", " 12 ", "  padded ", "é世", "a\"b", "x\\y",
}

// FieldValue draws a field value covering every branch of the normalisation
// rule, plus random integers and decimals.
func FieldValue(t *rapid.T) string {
	switch rapid.IntRange(0, 9).Draw(t, "fvclass") {
	case 0:
		return strconv.Itoa(rapid.IntRange(-1000, 1000).Draw(t, "fvint"))
	case 1:
		return strconv.FormatFloat(float64(rapid.IntRange(-100000, 100000).Draw(t, "fvdec"))/100, 'f', -1, 64)
	}
	return pick(t, "fv", fieldValues)
}

// Coord draws a coordinate in [-lim, lim] with at most 6 decimals, often integral.
func Coord(t *rapid.T, label string, lim int) float64 {
	if rapid.Bool().Draw(t, label+"int") {
		return float64(rapid.IntRange(-lim, lim).Draw(t, label))
	}
	return float64(rapid.IntRange(-lim*1000000, lim*1000000).Draw(t, label)) / 1e6
}

func ff(f float64) string { return strconv.FormatFloat(f, 'f', -1, 64) }

func pos(t *rapid.T) string {
	return "[" + ff(Coord(t, "lon", 180)) + "," + ff(Coord(t, "lat", 90)) + "]"
}

func ring(t *rapid.T) string {
	// an axis-aligned quadrilateral, closed
	x0, y0 := Coord(t, "x0", 170), Coord(t, "y0", 80)
	w := float64(rapid.IntRange(1, 900).Draw(t, "w")) / 100
	h := float64(rapid.IntRange(1, 900).Draw(t, "h")) / 100
	p := func(x, y float64) string { return "[" + ff(x) + "," + ff(y) + "]" }
	return "[" + strings.Join([]string{p(x0, y0), p(x0+w, y0), p(x0+w, y0+h), p(x0, y0+h), p(x0, y0)}, ",") + "]"
}

// Geometry draws a GeoJSON geometry text.
func Geometry(t *rapid.T, depth int) string {
	max := 6
	if depth > 0 {
		max = 5
	}
	switch rapid.IntRange(0, max).Draw(t, "geomkind") {
	case 0:
		return `{"type":"Point","coordinates":` + pos(t) + `}`
	case 1:
		n := rapid.IntRange(2, 4).Draw(t, "npos")
		ps := make([]string, n)
		for i := range ps {
			ps[i] = pos(t)
		}
		return `{"type":"LineString","coordinates":[` + strings.Join(ps, ",") + `]}`
	case 2:
		return `{"type":"Polygon","coordinates":[` + ring(t) + `]}`
	case 3:
		n := rapid.IntRange(1, 3).Draw(t, "npos")
		ps := make([]string, n)
		for i := range ps {
			ps[i] = pos(t)
		}
		return `{"type":"MultiPoint","coordinates":[` + strings.Join(ps, ",") + `]}`
	case 4:
		return `{"type":"MultiPolygon","coordinates":[[` + ring(t) + `],[` + ring(t) + `]]}`
	case 5:
		return `{"type":"Point","coordinates":[` + ff(Coord(t, "lon", 180)) + "," + ff(Coord(t, "lat", 90)) + "," + ff(Coord(t, "z", 1000)) + `]}`
	default:
		n := rapid.IntRange(0, 2).Draw(t, "ngeoms")
		gs := make([]string, n)
		for i := range gs {
			gs[i] = Geometry(t, depth+1)
		}
		return `{"type":"GeometryCollection","geometries":[` + strings.Join(gs, ",") + `]}`
	}
}

// GeoJSON draws a GeoJSON object text: geometry, Feature or FeatureCollection.
func GeoJSON(t *rapid.T) string {
	switch rapid.IntRange(0, 5).Draw(t, "gjkind") {
	case 0, 1, 2:
		return Geometry(t, 0)
	case 3:
		return `{"type":"Feature","geometry":` + Geometry(t, 0) + `,"properties":{"name":"` + pick(t, "pname", []string{"x", "y z", "é"}) + `","speed":` + strconv.Itoa(rapid.IntRange(0, 99).Draw(t, "speed")) + `}}`
	case 4:
		return `{"type":"Feature","id":"` + pick(t, "fid", []string{"f1", "f2"}) + `","geometry":` + Geometry(t, 0) + `,"properties":{}}`
	default:
		n := rapid.IntRange(0, 2).Draw(t, "nfeat")
		fs := make([]string, n)
		for i := range fs {
			fs[i] = `{"type":"Feature","geometry":` + Geometry(t, 1) + `,"properties":{}}`
		}
		return `{"type":"FeatureCollection","features":[` + strings.Join(fs, ",") + `]}`
	}
}

var geohashChars = []rune("0123456789bcdefghjkmnpqrstuvwxyz")

var stringValues = []string{"hello", "Hello", "", " ", "a b c", "0", "12.5", `{"a":1}`, `{"n":{"m":"x"}}`, "é世界", "with\r\nnewline", "quote\"and\\slash", "*?[glob]"}

// ObjectSpec draws the object part of a SET: every documented kind.
func ObjectSpec(t *rapid.T) []string {
	switch rapid.IntRange(0, 9).Draw(t, "objkind") {
	case 0, 1, 2:
		return []string{"POINT", ff(Coord(t, "lat", 90)), ff(Coord(t, "lon", 180))}
	case 3:
		return []string{"POINT", ff(Coord(t, "lat", 90)), ff(Coord(t, "lon", 180)), ff(Coord(t, "z", 1000))}
	case 4:
		la, lo := Coord(t, "minlat", 80), Coord(t, "minlon", 170)
		return []string{"BOUNDS", ff(la), ff(lo), ff(la + float64(rapid.IntRange(0, 900).Draw(t, "dlat"))/100), ff(lo + float64(rapid.IntRange(0, 900).Draw(t, "dlon"))/100)}
	case 5:
		return []string{"HASH", string(rapid.SliceOfN(rapid.SampledFrom(geohashChars), 1, 12).Draw(t, "geohash"))}
	case 6, 7:
		return []string{"OBJECT", GeoJSON(t)}
	default:
		if rapid.Bool().Draw(t, "strfixed") {
			return []string{"STRING", pick(t, "strval", stringValues)}
		}
		return []string{"STRING", rapid.StringN(0, 40, 80).Draw(t, "strrand")}
	}
}

// EX draws an expiry far enough in the future that the sweeper never matters.
func EX(t *rapid.T) string {
	return strconv.Itoa(rapid.IntRange(100000, 900000).Draw(t, "ex"))
}

// EscMeta escapes the glob metacharacters of a name, giving a pattern that
// matches exactly that name (names may contain '*', '?', '[' and '\\').
func EscMeta(name string) string {
	var b []byte
	for i := 0; i < len(name); i++ {
		switch name[i] {
		case '*', '?', '[', ']', '\\':
			b = append(b, '\\')
		}
		b = append(b, name[i])
	}
	return string(b)
}

// EscFirst puts a (redundant) escape in front of the first byte of a name
// when that byte is ASCII: the pattern still matches exactly the name.
func EscFirst(name string) string {
	if name == "" || name[0] >= 0x80 {
		return EscMeta(name)
	}
	return "\\" + EscMeta(name)[func() int {
		if name[0] == '*' || name[0] == '?' || name[0] == '[' || name[0] == ']' || name[0] == '\\' {
			return 1
		}
		return 0
	}():]
}

var jsetPaths = []string{"a", "b", "a.b", "n.m", "name", "properties.tag", "properties.speed", "extra"}

// KeyspaceCmd draws one keyspace command over the given names. Weights favour
// writes; every command and option combination of the documented grammar that
// the reference model covers can appear.
func KeyspaceCmd(t *rapid.T, ns Names) []string {
	k := func() string { return pick(t, "key", ns.Keys) }
	id := func() string { return pick(t, "id", ns.IDs) }
	fn := func() string {
		f := pick(t, "field", ns.Fields)
		// names are stored trimmed: writers and readers may both pad them
		if rapid.IntRange(0, 11).Draw(t, "padfield") == 5 {
			f = " " + f + "\t"
		}
		return f
	}
	switch rapid.IntRange(0, 41).Draw(t, "cmd") {
	case 0, 1, 2, 3, 4, 5, 6, 7:
		args := []string{"SET", k(), id()}
		nf := rapid.IntRange(0, 3).Draw(t, "nfields")
		if nf == 3 {
			nf = 0 // most SETs carry 0-2 fields
		}
		for i := 0; i < nf; i++ {
			args = append(args, "FIELD", fn(), FieldValue(t))
		}
		if rapid.IntRange(0, 3).Draw(t, "ex?") == 0 {
			args = append(args, "EX", EX(t))
		}
		switch rapid.IntRange(0, 9).Draw(t, "nxxx") {
		case 0:
			args = append(args, "NX")
		case 1:
			args = append(args, "XX")
		}
		return append(args, ObjectSpec(t)...)
	case 8, 9, 10, 11:
		args := []string{"FSET", k(), id()}
		if rapid.IntRange(0, 3).Draw(t, "xx?") == 0 {
			args = append(args, "XX")
		}
		n := rapid.IntRange(1, 3).Draw(t, "npairs")
		for i := 0; i < n; i++ {
			args = append(args, fn(), FieldValue(t))
		}
		return args
	case 12, 13:
		if rapid.Bool().Draw(t, "erron404") {
			return []string{"DEL", k(), id(), "ERRON404"}
		}
		return []string{"DEL", k(), id()}
	case 14:
		pats := []string{"*", id(), id() + "*", "[a-b]*", "?", "*" + id(), EscMeta(id()), EscMeta(id()) + "*", EscFirst(id()), "*" + EscMeta(id())}
		return []string{"PDEL", k(), pick(t, "pat", pats)}
	case 15:
		return []string{"DROP", k()}
	case 16, 17:
		return []string{"RENAME", k(), k()}
	case 18:
		return []string{"RENAMENX", k(), k()}
	case 19:
		if rapid.IntRange(0, 3).Draw(t, "flush?") == 0 {
			return []string{"FLUSHDB"}
		}
		return []string{"DROP", k()}
	case 20, 21:
		return []string{"EXPIRE", k(), id(), EX(t)}
	case 22, 23:
		return []string{"PERSIST", k(), id()}
	case 24, 25:
		jp := jsetPaths
		if rapid.Bool().Draw(t, "jshort") {
			jp = jsetPaths[:4]
		}
		args := []string{"JSET", k(), id(), pick(t, "path", jp)}
		if rapid.IntRange(0, 11).Draw(t, "jemptypath") == 0 {
			args[3] = "" // refused: must leave no trace, also on a missing collection
		}
		vals := []string{"hello", "12", "1.50", "true", "null", "x y", `{"q":1}`, "-3e2", "é"}
		v := pick(t, "jval", vals)
		args = append(args, v)
		switch rapid.IntRange(0, 4).Draw(t, "jopt") {
		case 0:
			args = append(args, "STR")
		case 1:
			if v == `{"q":1}` || v == "12" || v == "true" || v == "null" || v == "1.50" || v == "-3e2" {
				args = append(args, "RAW")
			}
		}
		return args
	case 26:
		return []string{"JDEL", k(), id(), pick(t, "path", jsetPaths)}
	case 27, 28:
		if rapid.IntRange(0, 3).Draw(t, "jpath?") > 0 {
			return []string{"JGET", k(), id(), pick(t, "path", jsetPaths[:4])}
		}
		return []string{"JGET", k(), id()}
	case 29, 30, 31:
		args := []string{"GET", k(), id()}
		switch rapid.IntRange(0, 3).Draw(t, "getopt") {
		case 0:
			args = append(args, "WITHFIELDS")
		case 1:
			args = append(args, "POINT")
		case 2:
			args = append(args, "OBJECT")
		}
		return args
	case 32, 33:
		return []string{"FGET", k(), id(), fn()}
	case 34:
		return []string{"EXISTS", k(), id()}
	case 35:
		return []string{"FEXISTS", k(), id(), fn()}
	case 36:
		return []string{"TTL", k(), id()}
	case 37:
		return []string{"TYPE", k()}
	case 38:
		pats := []string{"*", k(), "k*", "?" + "*", EscMeta(k()), EscFirst(k()), EscMeta(k()) + "*"}
		return []string{"KEYS", pick(t, "kpat", pats)}
	default:
		args := []string{"SCAN", k()}
		out := rapid.IntRange(0, 3).Draw(t, "scanout")
		if out != 2 && rapid.Bool().Draw(t, "limit?") {
			args = append(args, "LIMIT", strconv.Itoa(rapid.IntRange(1, 5).Draw(t, "limit")))
		}
		if rapid.IntRange(0, 3).Draw(t, "desc?") == 0 {
			args = append(args, "DESC")
		}
		switch out {
		case 1:
			args = append(args, "IDS")
		case 2:
			args = append(args, "COUNT")
		case 3:
			args = append(args, "OBJECTS")
		}
		return args
	}
}

// Describe renders a command list compactly for samples.
func Describe(cmds [][]string) []string {
	out := make([]string, len(cmds))
	for i, c := range cmds {
		out[i] = fmt.Sprintf("%q", c)
	}
	return out
}

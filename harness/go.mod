module github.com/tidwall/tile38/verif/harness

go 1.24.0

require (
	github.com/anishathalye/porcupine v1.3.0
	github.com/mmcloughlin/geohash v0.10.0
	github.com/tidwall/geojson v1.4.6
	github.com/tidwall/tile38 v0.0.0
	github.com/yuin/gopher-lua v1.1.1
	pgregory.net/rapid v1.3.0
)

require (
	cloud.google.com/go v0.121.4 // indirect
	cloud.google.com/go/auth v0.16.3 // indirect
	cloud.google.com/go/auth/oauth2adapt v0.2.8 // indirect
	cloud.google.com/go/compute/metadata v0.7.0 // indirect
	cloud.google.com/go/iam v1.5.2 // indirect
	cloud.google.com/go/pubsub v1.50.0 // indirect
	cloud.google.com/go/pubsub/v2 v2.0.0 // indirect
	github.com/Azure/azure-amqp-common-go/v4 v4.2.0 // indirect
	github.com/Azure/azure-event-hubs-go/v3 v3.6.2 // indirect
	github.com/Azure/azure-sdk-for-go v65.0.0+incompatible // indirect
	github.com/Azure/go-amqp v1.0.0 // indirect
	github.com/Azure/go-autorest/autorest v0.11.28 // indirect
	github.com/Azure/go-autorest/autorest/adal v0.9.21 // indirect
	github.com/Azure/go-autorest/autorest/date v0.3.0 // indirect
	github.com/Azure/go-autorest/autorest/to v0.4.0 // indirect
	github.com/Azure/go-autorest/autorest/validation v0.3.1 // indirect
	github.com/Azure/go-autorest/logger v0.2.1 // indirect
	github.com/Azure/go-autorest/tracing v0.6.0 // indirect
	github.com/IBM/sarama v1.46.0 // indirect
	github.com/aws/aws-sdk-go v1.55.8 // indirect
	github.com/beorn7/perks v1.0.1 // indirect
	github.com/cespare/xxhash/v2 v2.3.0 // indirect
	github.com/cloudflare/cloudflare-go/v4 v4.6.0 // indirect
	github.com/davecgh/go-spew v1.1.1 // indirect
	github.com/devigned/tab v0.1.1 // indirect
	github.com/eapache/go-resiliency v1.7.0 // indirect
	github.com/eapache/go-xerial-snappy v0.0.0-20230731223053-c322873962e3 // indirect
	github.com/eapache/queue v1.1.0 // indirect
	github.com/eclipse/paho.mqtt.golang v1.5.1 // indirect
	github.com/felixge/httpsnoop v1.0.4 // indirect
	github.com/go-logr/logr v1.4.3 // indirect
	github.com/go-logr/stdr v1.2.2 // indirect
	github.com/golang-jwt/jwt/v4 v4.5.2 // indirect
	github.com/golang/protobuf v1.5.4 // indirect
	github.com/golang/snappy v0.0.4 // indirect
	github.com/gomodule/redigo v1.9.2 // indirect
	github.com/google/s2a-go v0.1.9 // indirect
	github.com/google/uuid v1.6.0 // indirect
	github.com/googleapis/enterprise-certificate-proxy v0.3.6 // indirect
	github.com/googleapis/gax-go/v2 v2.15.0 // indirect
	github.com/gorilla/websocket v1.5.3 // indirect
	github.com/hashicorp/go-uuid v1.0.3 // indirect
	github.com/iwpnd/sectr v0.1.2 // indirect
	github.com/jcmturner/aescts/v2 v2.0.0 // indirect
	github.com/jcmturner/dnsutils/v2 v2.0.0 // indirect
	github.com/jcmturner/gofork v1.7.6 // indirect
	github.com/jcmturner/gokrb5/v8 v8.4.4 // indirect
	github.com/jcmturner/rpc/v2 v2.0.3 // indirect
	github.com/jmespath/go-jmespath v0.4.0 // indirect
	github.com/jpillora/backoff v1.0.0 // indirect
	github.com/klauspost/compress v1.18.0 // indirect
	github.com/klauspost/cpuid/v2 v2.0.9 // indirect
	github.com/mitchellh/mapstructure v1.5.0 // indirect
	github.com/munnerz/goautoneg v0.0.0-20191010083416-a7dc8b61c822 // indirect
	github.com/nats-io/nats.go v1.44.0 // indirect
	github.com/nats-io/nkeys v0.4.11 // indirect
	github.com/nats-io/nuid v1.0.1 // indirect
	github.com/pierrec/lz4/v4 v4.1.22 // indirect
	github.com/prometheus/client_golang v1.23.0 // indirect
	github.com/prometheus/client_model v0.6.2 // indirect
	github.com/prometheus/common v0.65.0 // indirect
	github.com/prometheus/procfs v0.16.1 // indirect
	github.com/rcrowley/go-metrics v0.0.0-20250401214520-65e299d6c5c9 // indirect
	github.com/streadway/amqp v1.1.0 // indirect
	github.com/tidwall/btree v1.8.1 // indirect
	github.com/tidwall/buntdb v1.3.2 // indirect
	github.com/tidwall/conv v0.1.0 // indirect
	github.com/tidwall/expr v0.14.0 // indirect
	github.com/tidwall/geoindex v1.7.0 // indirect
	github.com/tidwall/gjson v1.18.0 // indirect
	github.com/tidwall/grect v0.1.4 // indirect
	github.com/tidwall/hashmap v1.8.1 // indirect
	github.com/tidwall/match v1.2.0 // indirect
	github.com/tidwall/mvt v0.2.1 // indirect
	github.com/tidwall/pretty v1.2.1 // indirect
	github.com/tidwall/redcon v1.6.2 // indirect
	github.com/tidwall/resp v0.1.1 // indirect
	github.com/tidwall/rtred v0.1.2 // indirect
	github.com/tidwall/rtree v1.10.0 // indirect
	github.com/tidwall/sjson v1.2.5 // indirect
	github.com/tidwall/tinylru v1.2.1 // indirect
	github.com/tidwall/tinyqueue v0.1.1 // indirect
	github.com/xdg-go/pbkdf2 v1.0.0 // indirect
	github.com/xdg-go/scram v1.1.2 // indirect
	github.com/xdg-go/stringprep v1.0.4 // indirect
	github.com/zeebo/xxh3 v1.0.2 // indirect
	go.opencensus.io v0.24.0 // indirect
	go.opentelemetry.io/auto/sdk v1.1.0 // indirect
	go.opentelemetry.io/contrib/instrumentation/google.golang.org/grpc/otelgrpc v0.61.0 // indirect
	go.opentelemetry.io/contrib/instrumentation/net/http/otelhttp v0.61.0 // indirect
	go.opentelemetry.io/otel v1.36.0 // indirect
	go.opentelemetry.io/otel/metric v1.36.0 // indirect
	go.opentelemetry.io/otel/trace v1.36.0 // indirect
	go.uber.org/atomic v1.11.0 // indirect
	go.uber.org/multierr v1.10.0 // indirect
	go.uber.org/zap v1.27.0 // indirect
	golang.org/x/crypto v0.45.0 // indirect
	golang.org/x/net v0.47.0 // indirect
	golang.org/x/oauth2 v0.30.0 // indirect
	golang.org/x/sync v0.18.0 // indirect
	golang.org/x/sys v0.38.0 // indirect
	golang.org/x/term v0.37.0 // indirect
	golang.org/x/text v0.31.0 // indirect
	golang.org/x/time v0.12.0 // indirect
	google.golang.org/api v0.246.0 // indirect
	google.golang.org/genproto v0.0.0-20250603155806-513f23925822 // indirect
	google.golang.org/genproto/googleapis/api v0.0.0-20250721164621-a45f3dfb1074 // indirect
	google.golang.org/genproto/googleapis/rpc v0.0.0-20250728155136-f173205681a0 // indirect
	google.golang.org/grpc v1.74.2 // indirect
	google.golang.org/protobuf v1.36.6 // indirect
	layeh.com/gopher-json v0.0.0-20201124131017-552bb3c4c3bf // indirect
)

replace github.com/tidwall/tile38 => /repo

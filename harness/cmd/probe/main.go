// probe starts an in-process server on a fresh directory and runs the commands
// given on stdin (one per line; arguments are space separated, Go-quoted
// strings allowed; a line "RAW <go-quoted bytes>" sends raw bytes and prints
// whatever comes back within 300 ms; "RESTART" restarts on the same dir).
package main

import (
	"bufio"
	"fmt"
	"os"
	"strconv"
	"strings"
	"time"

	"github.com/tidwall/tile38/verif/harness/t38"
)

func split(line string) []string {
	var out []string
	for len(line) > 0 {
		line = strings.TrimLeft(line, " ")
		if line == "" {
			break
		}
		if line[0] == '"' {
			q, err := strconv.QuotedPrefix(line)
			if err == nil {
				s, _ := strconv.Unquote(q)
				out = append(out, s)
				line = line[len(q):]
				continue
			}
		}
		i := strings.IndexByte(line, ' ')
		if i < 0 {
			i = len(line)
		}
		out = append(out, line[:i])
		line = line[i:]
	}
	return out
}

func main() {
	srv, err := t38.Start(t38.Opts{DevMode: true, HTTP: true})
	if err != nil {
		panic(err)
	}
	c := srv.MustDial()
	sc := bufio.NewScanner(os.Stdin)
	sc.Buffer(make([]byte, 1<<20), 1<<20)
	for sc.Scan() {
		line := strings.TrimSpace(sc.Text())
		if line == "" || line[0] == '#' {
			continue
		}
		if line == "RESTART" {
			c.Close()
			srv.Stop()
			srv, err = t38.Start(t38.Opts{DevMode: true, HTTP: true, Dir: srv.Dir})
			if err != nil {
				panic(err)
			}
			c = srv.MustDial()
			fmt.Println("> restarted")
			continue
		}
		if strings.HasPrefix(line, "RAW ") {
			b, err := strconv.Unquote(strings.TrimSpace(line[4:]))
			if err != nil {
				fmt.Println("bad RAW:", err)
				continue
			}
			rc := srv.MustDial()
			rc.SendRaw([]byte(b))
			rc.C.SetReadDeadline(time.Now().Add(300 * time.Millisecond))
			buf := make([]byte, 65536)
			n, err := rc.C.Read(buf)
			fmt.Printf("> RAW %q -> %q err=%v\n", b, buf[:n], err)
			rc.Close()
			continue
		}
		args := split(line)
		v, err := c.Do(args...)
		if err != nil {
			fmt.Printf("> %s -> transport error %v\n", t38.CmdString(args), err)
			c = srv.MustDial()
			continue
		}
		if strings.ToLower(args[0]) == "output" && len(args) == 2 {
			c.JSON = strings.ToLower(args[1]) == "json"
		}
		fmt.Printf("> %s -> %s\n", t38.CmdString(args), v)
	}
	srv.Stop()
}

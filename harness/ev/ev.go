// Package ev collects what a check actually explored (evaluations, distinct
// non-trivial cases, labels, samples), records violations with their replay
// files, and knows the committed list of known findings. Every test process
// writes one "part" file per collector; bin/check merges the parts into
// /verif/evidence/<id>.json and prints the VIOLATION / KNOWN-FINDING lines.
package ev

import (
	"bufio"
	"encoding/json"
	"flag"
	"fmt"
	"hash/fnv"
	"os"
	"path/filepath"
	"sort"
	"strconv"
	"strings"
	"sync"
	"time"
)

// ---- run parameters -------------------------------------------------------

func Tier() string {
	if os.Getenv("VERIF_TIER") == "thorough" {
		return "thorough"
	}
	return "quick"
}

func Thorough() bool { return Tier() == "thorough" }

// Pick returns q in the quick tier and t in the thorough tier.
func Pick(q, t int) int {
	if Thorough() {
		return t
	}
	return q
}

// Shard is the index of this process among the parallel shards of a run.
func Shard() int {
	n, _ := strconv.Atoi(os.Getenv("VERIF_SHARD"))
	return n
}

// Shards is the number of parallel shard processes.
func Shards() int {
	n, _ := strconv.Atoi(os.Getenv("VERIF_SHARDS"))
	if n < 1 {
		n = 1
	}
	return n
}

// BaseSeed is VERIF_SEED as given.
func BaseSeed() int64 {
	n, _ := strconv.ParseInt(os.Getenv("VERIF_SEED"), 10, 64)
	return n
}

// Seed derives the non-zero PRNG seed of this process for sub-check name.
func Seed(name string) uint64 {
	h := fnv.New64a()
	fmt.Fprintf(h, "%d/%d/%s", BaseSeed(), Shard(), name)
	s := h.Sum64()
	if s == 0 {
		s = 1
	}
	return s >> 1 // rapid parses the flag as uint64; keep it comfortably in range
}

// Rapid configures pgregory.net/rapid for the calling sub-check: number of
// cases, deterministic seed, no fail files (the harness writes its own
// replays), bounded shrinking.
func Rapid(name string, checks int) {
	flag.Set("rapid.checks", strconv.Itoa(checks))
	flag.Set("rapid.seed", strconv.FormatUint(Seed(name), 10))
	flag.Set("rapid.nofailfile", "true")
	if flag.Lookup("rapid.shrinktime") != nil {
		st := "20s"
		if Thorough() {
			st = "60s"
		}
		flag.Set("rapid.shrinktime", st)
	}
}

func partsDir() string {
	d := os.Getenv("VERIF_PARTS")
	if d == "" {
		d = filepath.Join(os.TempDir(), "verif-parts")
	}
	os.MkdirAll(d, 0o755)
	return d
}

func replaysDir() string {
	d := os.Getenv("VERIF_REPLAYS")
	if d == "" {
		d = "/verif/replays"
	}
	os.MkdirAll(d, 0o755)
	return d
}

// ---- known findings ---------------------------------------------------------

// Finding is one line of KNOWN_FINDINGS.jsonl.
type Finding struct {
	Property string `json:"property"`
	ID       string `json:"id"`
	Status   string `json:"status"` // "known" or "fixed"
	What     string `json:"what"`
	Commit   string `json:"commit,omitempty"`
}

var (
	findingsOnce sync.Once
	findings     []Finding
)

func loadFindings() {
	p := os.Getenv("VERIF_KNOWN")
	if p == "" {
		p = "/verif/KNOWN_FINDINGS.jsonl"
	}
	f, err := os.Open(p)
	if err != nil {
		return
	}
	defer f.Close()
	sc := bufio.NewScanner(f)
	sc.Buffer(make([]byte, 1<<20), 1<<20)
	for sc.Scan() {
		line := strings.TrimSpace(sc.Text())
		if line == "" || strings.HasPrefix(line, "#") {
			continue
		}
		var fd Finding
		if json.Unmarshal([]byte(line), &fd) == nil && fd.ID != "" {
			findings = append(findings, fd)
		}
	}
}

// KnownActive reports whether finding id is listed with status "known" (for
// any property). Generators exclude the triggering shape of an active known
// finding by construction; "fixed" entries suppress nothing.
func KnownActive(id string) bool {
	findingsOnce.Do(loadFindings)
	for _, f := range findings {
		if f.ID == id && f.Status == "known" {
			return true
		}
	}
	return false
}

// ---- collector -------------------------------------------------------------

// Violation is a recorded property violation.
type Violation struct {
	Key    string `json:"key"` // finding key: matched against KNOWN_FINDINGS ids
	What   string `json:"what"`
	Replay string `json:"replay"`
}

type part struct {
	Property     string         `json:"property_id"`
	Sub          string         `json:"sub"`
	Level        string         `json:"level"`
	Tier         string         `json:"tier"`
	Seed         int64          `json:"seed"`
	Shard        int            `json:"shard"`
	Evaluations  int            `json:"evaluations"`
	NonTrivial   []uint64       `json:"nontrivial_hashes"`
	Rule         string         `json:"rule"`
	Labels       map[string]int `json:"labels"`
	Samples      []any          `json:"samples"`
	Notes        []string       `json:"notes,omitempty"`
	Assumptions  []string       `json:"assumptions,omitempty"`
	Exhaustive   *bool          `json:"exhaustive,omitempty"`
	States       int            `json:"states,omitempty"`
	Transitions  int            `json:"transitions,omitempty"`
	Excluded     map[string]int `json:"excluded,omitempty"`
	Violations   []Violation    `json:"violations"`
	KnownSeen    []Violation    `json:"known_seen"`
	Inconclusive []string       `json:"inconclusive,omitempty"`
	WallS        float64        `json:"wall_s"`
	Completed    bool           `json:"completed"`
}

// Collector gathers evidence for one sub-check of one property.
type Collector struct {
	mu      sync.Mutex
	p       part
	nt      map[uint64]struct{}
	start   time.Time
	pending *pendingFail
	maxSamp int
	sampN   int
}

type pendingFail struct {
	key, what string
	replay    any
}

// New creates a collector. level is "exploration" or "fault_enumeration".
func New(property, sub, level string) *Collector {
	return &Collector{
		p: part{
			Property: property, Sub: sub, Level: level, Tier: Tier(),
			Seed: BaseSeed(), Shard: Shard(),
			Labels: map[string]int{}, Excluded: map[string]int{},
		},
		nt:      map[uint64]struct{}{},
		start:   time.Now(),
		maxSamp: 6,
	}
}

// Rule states how cases are generated and what makes one non-trivial.
func (c *Collector) Rule(s string) { c.mu.Lock(); c.p.Rule = s; c.mu.Unlock() }

func (c *Collector) Assume(s string) {
	c.mu.Lock()
	c.p.Assumptions = append(c.p.Assumptions, s)
	c.mu.Unlock()
}

func (c *Collector) Note(format string, a ...any) {
	c.mu.Lock()
	if len(c.p.Notes) < 40 {
		c.p.Notes = append(c.p.Notes, fmt.Sprintf(format, a...))
	}
	c.mu.Unlock()
}

// Case counts one generated case / execution.
func (c *Collector) Case() { c.mu.Lock(); c.p.Evaluations++; c.mu.Unlock() }

// Cases counts n executions.
func (c *Collector) Cases(n int) { c.mu.Lock(); c.p.Evaluations += n; c.mu.Unlock() }

// NonTrivial records a non-trivial case under its distinctness key.
func (c *Collector) NonTrivial(key string) {
	h := fnv.New64a()
	h.Write([]byte(key))
	c.mu.Lock()
	if len(c.nt) < 400000 {
		c.nt[h.Sum64()] = struct{}{}
	}
	c.mu.Unlock()
}

// Label counts an occurrence of a case class.
func (c *Collector) Label(name string) { c.mu.Lock(); c.p.Labels[name]++; c.mu.Unlock() }

func (c *Collector) LabelN(name string, n int) { c.mu.Lock(); c.p.Labels[name] += n; c.mu.Unlock() }

// Excluded counts a generated shape that was dropped because it triggers the
// listed known finding.
func (c *Collector) Excluded(finding string) { c.mu.Lock(); c.p.Excluded[finding]++; c.mu.Unlock() }

// Sample keeps a few actual cases, spread over the run.
func (c *Collector) Sample(v any) {
	c.mu.Lock()
	defer c.mu.Unlock()
	c.sampN++
	if len(c.p.Samples) < c.maxSamp {
		c.p.Samples = append(c.p.Samples, v)
		return
	}
	// keep early ones, replace the last slot sparsely so late cases show up too
	if c.sampN%997 == 0 {
		c.p.Samples[c.maxSamp-1] = v
	}
}

// WantSample says whether Sample would currently store its argument (lets
// callers avoid building expensive sample values).
func (c *Collector) WantSample() bool {
	c.mu.Lock()
	defer c.mu.Unlock()
	return len(c.p.Samples) < c.maxSamp || (c.sampN+1)%997 == 0
}

func (c *Collector) Exhaustive(b bool) { c.mu.Lock(); c.p.Exhaustive = &b; c.mu.Unlock() }

func (c *Collector) States(states, transitions int) {
	c.mu.Lock()
	c.p.States += states
	c.p.Transitions += transitions
	c.mu.Unlock()
}

// Inconclusive records a budget hit: never a violation.
func (c *Collector) Inconclusive(format string, a ...any) {
	c.mu.Lock()
	if len(c.p.Inconclusive) < 40 {
		c.p.Inconclusive = append(c.p.Inconclusive, fmt.Sprintf(format, a...))
	}
	c.mu.Unlock()
}

// Failer is the part of testing.TB / rapid.T a collector needs to fail a case.
type Failer interface {
	Fatalf(format string, args ...any)
	Helper()
}

// Fail records a violation for the case being executed and fails it. Under
// rapid the property function is re-executed while shrinking; only the last
// failing execution (the shrunk one) is kept, and written out by Flush.
func (c *Collector) Fail(t Failer, key, what string, replay any) {
	t.Helper()
	c.mu.Lock()
	c.pending = &pendingFail{key: key, what: what, replay: replay}
	c.mu.Unlock()
	t.Fatalf("VIOLATION-CANDIDATE key=%s: %s", key, what)
}

// Violation records a violation immediately (for checks not driven by rapid).
func (c *Collector) Violation(key, what string, replay any) string {
	path := c.writeReplay(key, what, replay)
	c.mu.Lock()
	if len(c.p.Violations) < 50 {
		c.p.Violations = append(c.p.Violations, Violation{Key: key, What: what, Replay: path})
	}
	c.mu.Unlock()
	return path
}

// Known records that the probe of a listed known finding still reproduces.
func (c *Collector) Known(id, what string) {
	c.mu.Lock()
	c.p.KnownSeen = append(c.p.KnownSeen, Violation{Key: id, What: what})
	c.mu.Unlock()
}

func (c *Collector) writeReplay(key, what string, replay any) string {
	name := fmt.Sprintf("%s-%s-%s-s%d-%d.json", c.p.Property, c.p.Sub, sanitize(key), BaseSeed(), Shard())
	path := filepath.Join(replaysDir(), name)
	doc := map[string]any{
		"property": c.p.Property, "check": c.p.Sub, "key": key, "what": what,
		"tier": c.p.Tier, "seed": BaseSeed(), "shard": Shard(), "data": replay,
	}
	b, err := json.MarshalIndent(doc, "", " ")
	if err != nil {
		b, _ = json.Marshal(map[string]any{"property": c.p.Property, "check": c.p.Sub, "key": key, "what": what, "data": fmt.Sprintf("%+v", replay)})
	}
	os.WriteFile(path, b, 0o644)
	return path
}

func sanitize(s string) string {
	var b strings.Builder
	for _, r := range s {
		if r >= 'a' && r <= 'z' || r >= 'A' && r <= 'Z' || r >= '0' && r <= '9' || r == '-' || r == '_' {
			b.WriteRune(r)
		} else {
			b.WriteByte('_')
		}
	}
	if b.Len() > 60 {
		return b.String()[:60]
	}
	return b.String()
}

// Flush writes the part file. Call it with defer/t.Cleanup so it also runs
// when the test fails. done says the sub-check ran to completion.
func (c *Collector) Flush() {
	c.mu.Lock()
	pend := c.pending
	c.pending = nil
	c.mu.Unlock()
	if pend != nil {
		c.Violation(pend.key, pend.what, pend.replay)
	}
	c.mu.Lock()
	defer c.mu.Unlock()
	c.p.NonTrivial = c.p.NonTrivial[:0]
	for h := range c.nt {
		c.p.NonTrivial = append(c.p.NonTrivial, h)
	}
	sort.Slice(c.p.NonTrivial, func(i, j int) bool { return c.p.NonTrivial[i] < c.p.NonTrivial[j] })
	c.p.WallS = time.Since(c.start).Seconds()
	c.p.Completed = true
	b, err := json.Marshal(c.p)
	if err != nil {
		// samples may hold something unmarshalable; degrade rather than lose the part
		c.p.Samples = []any{fmt.Sprintf("%+v", c.p.Samples)}
		b, _ = json.Marshal(c.p)
	}
	name := fmt.Sprintf("%s.%s.%d.%d.json", c.p.Property, c.p.Sub, Shard(), os.Getpid())
	os.WriteFile(filepath.Join(partsDir(), name), b, 0o644)
}

// ReplayFile returns the replay document named by VERIF_REPLAY, if any.
func ReplayFile() (doc struct {
	Property string          `json:"property"`
	Check    string          `json:"check"`
	Key      string          `json:"key"`
	What     string          `json:"what"`
	Data     json.RawMessage `json:"data"`
}, ok bool) {
	p := os.Getenv("VERIF_REPLAY")
	if p == "" {
		return doc, false
	}
	b, err := os.ReadFile(p)
	if err != nil {
		return doc, false
	}
	if json.Unmarshal(b, &doc) != nil {
		return doc, false
	}
	return doc, true
}

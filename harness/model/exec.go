package model

import (
	"strconv"
	"strings"

	"github.com/tidwall/tile38/verif/harness/t38"
)

// Exec applies a command (as an argument vector in the documented grammar) to
// the model and returns the expected reply. Shapes outside the modelled
// grammar return Reply{Unsupported: true} and leave the model untouched.
func Exec(db *DB, args []string) Reply {
	if len(args) == 0 {
		return Reply{Unsupported: true}
	}
	un := Reply{Unsupported: true}
	cmd := strings.ToLower(args[0])
	a := args[1:]
	switch cmd {
	case "set":
		if len(a) < 3 {
			return un
		}
		sa := SetArgs{Key: a[0], ID: a[1]}
		i := 2
		for i < len(a) {
			switch strings.ToLower(a[i]) {
			case "field":
				if i+2 >= len(a) {
					return un
				}
				sa.Fields = append(sa.Fields, [2]string{a[i+1], a[i+2]})
				i += 3
			case "ex":
				if i+1 >= len(a) {
					return un
				}
				if _, err := strconv.ParseFloat(a[i+1], 64); err != nil {
					return un
				}
				sa.EX = true
				i += 2
			case "nx":
				if sa.XX {
					return un
				}
				sa.NX = true
				i++
			case "xx":
				if sa.NX {
					return un
				}
				sa.XX = true
				i++
			case "string":
				if i+2 != len(a) {
					return un
				}
				sa.Obj = ObjSpec{Kind: "string", Args: a[i+1:]}
				i = len(a)
			case "point":
				switch len(a) - i {
				case 3:
					sa.Obj = ObjSpec{Kind: "point", Args: a[i+1:]}
				case 4:
					sa.Obj = ObjSpec{Kind: "pointz", Args: a[i+1:]}
				default:
					return un
				}
				i = len(a)
			case "bounds":
				if len(a)-i != 5 {
					return un
				}
				sa.Obj = ObjSpec{Kind: "bounds", Args: a[i+1:]}
				i = len(a)
			case "hash":
				if len(a)-i != 2 {
					return un
				}
				sa.Obj = ObjSpec{Kind: "hash", Args: a[i+1:]}
				i = len(a)
			case "object":
				if len(a)-i != 2 {
					return un
				}
				sa.Obj = ObjSpec{Kind: "object", Args: a[i+1:]}
				i = len(a)
			default:
				return un
			}
		}
		if sa.Obj.Kind == "" {
			return un
		}
		return db.Set(sa)
	case "fset":
		if len(a) < 4 {
			return un
		}
		key, id := a[0], a[1]
		rest := a[2:]
		xx := false
		if strings.ToLower(rest[0]) == "xx" {
			xx = true
			rest = rest[1:]
		}
		if len(rest) == 0 || len(rest)%2 != 0 {
			return un
		}
		var fs [][2]string
		for i := 0; i < len(rest); i += 2 {
			switch strings.ToLower(rest[i]) {
			case "xx", "return":
				return un
			}
			fs = append(fs, [2]string{rest[i], rest[i+1]})
		}
		return db.Fset(key, id, xx, fs)
	case "del":
		switch {
		case len(a) == 2:
			return db.Del(a[0], a[1], false)
		case len(a) == 3 && strings.ToLower(a[2]) == "erron404":
			return db.Del(a[0], a[1], true)
		}
		return un
	case "pdel":
		if len(a) != 2 || !GlobValid(a[1]) {
			return un
		}
		return db.Pdel(a[0], a[1])
	case "drop":
		if len(a) != 1 {
			return un
		}
		return db.Drop(a[0])
	case "flushdb":
		if len(a) != 0 {
			return un
		}
		return db.FlushDB()
	case "rename", "renamenx":
		if len(a) != 2 {
			return un
		}
		return db.Rename(a[0], a[1], cmd == "renamenx")
	case "expire":
		if len(a) != 3 {
			return un
		}
		if _, err := strconv.ParseFloat(a[2], 64); err != nil {
			return un
		}
		return db.Expire(a[0], a[1])
	case "persist":
		if len(a) != 2 {
			return un
		}
		return db.Persist(a[0], a[1])
	case "get":
		if len(a) < 2 {
			return un
		}
		wf, point := false, false
		for _, o := range a[2:] {
			switch strings.ToLower(o) {
			case "withfields":
				wf = true
			case "object":
			case "point":
				point = true
			default:
				return un
			}
		}
		if point {
			if wf {
				return un
			}
			return db.GetPoint(a[0], a[1])
		}
		return db.Get(a[0], a[1], wf)
	case "fget":
		if len(a) != 3 || strings.Contains(a[2], ".") {
			return un
		}
		return db.Fget(a[0], a[1], a[2])
	case "exists":
		if len(a) != 2 {
			return un
		}
		return db.Exists(a[0], a[1])
	case "fexists":
		if len(a) != 3 || strings.Contains(a[2], ".") {
			return un
		}
		return db.Fexists(a[0], a[1], a[2])
	case "ttl":
		if len(a) != 2 {
			return un
		}
		return db.TTL(a[0], a[1])
	case "type":
		if len(a) != 1 {
			return un
		}
		return db.Type(a[0])
	case "keys":
		if len(a) != 1 || !GlobValid(a[0]) {
			return un
		}
		return db.Keys(a[0])
	case "scan":
		if len(a) < 1 {
			return un
		}
		limit, out, desc := 0, "objects", false
		hasLimit := false
		for i := 1; i < len(a); i++ {
			switch strings.ToLower(a[i]) {
			case "limit":
				if i+1 >= len(a) {
					return un
				}
				n, err := strconv.Atoi(a[i+1])
				if err != nil || n < 1 {
					return un
				}
				limit = n
				hasLimit = true
				i++
			case "asc":
			case "desc":
				desc = true
			case "ids":
				out = "ids"
			case "count":
				out = "count"
			case "objects":
				out = "objects"
			default:
				return un
			}
		}
		if out == "count" && hasLimit {
			return un
		}
		return db.Scan(a[0], limit, out, desc)
	case "jset":
		if len(a) != 4 && len(a) != 5 {
			return un
		}
		raw, str := false, false
		if len(a) == 5 {
			switch strings.ToLower(a[4]) {
			case "raw":
				raw = true
			case "str":
				str = true
			default:
				return un
			}
		}
		if a[2] == "" {
			// refused before anything is created (sjson: "path cannot be empty")
			return errReply(cmd, "path cannot be empty")
		}
		if !simplePath(a[2]) {
			return un
		}
		return db.Jset(a[0], a[1], a[2], a[3], raw, str)
	case "jget":
		switch len(a) {
		case 2:
			return db.Jget(a[0], a[1], "", false)
		case 3:
			if !simplePath(a[2]) {
				return un
			}
			return db.Jget(a[0], a[1], a[2], true)
		}
		return un
	case "jdel":
		if len(a) != 3 || !simplePath(a[2]) {
			return un
		}
		return db.Jdel(a[0], a[1], a[2])
	case "sethook", "setchan":
		// SETHOOK name endpoints <NEARBY|WITHIN|INTERSECTS> key ... FENCE ... ; SETCHAN name <...>
		// (no META/EX in the modelled shape). Only the name -> (key, kind, definition) map is modelled.
		isChan := cmd == "setchan"
		min := 5
		if isChan {
			min = 4
		}
		if len(a) < min {
			return un
		}
		rest := a[1:]
		if !isChan {
			rest = a[2:]
		}
		switch strings.ToLower(rest[0]) {
		case "nearby", "within", "intersects":
		default:
			return un
		}
		name, key := a[0], rest[1]
		def := strings.Join(a, "\x00")
		if prev, ok := db.HookKeys[name]; ok {
			if prev.Channel != isChan {
				return errReply(cmd, "hooks and channels cannot share the same name")
			}
			if prev.Def == def {
				return okReply(t38.Int(0))
			}
		}
		db.HookKeys[name] = HookRef{Key: key, Channel: isChan, Def: def}
		r := okReply(t38.Int(1))
		r.Mutated = true
		return r
	case "delhook", "delchan":
		if len(a) != 1 {
			return un
		}
		isChan := cmd == "delchan"
		if prev, ok := db.HookKeys[a[0]]; ok && prev.Channel == isChan {
			delete(db.HookKeys, a[0])
			r := okReply(t38.Int(1))
			r.Mutated = true
			return r
		}
		return okReply(t38.Int(0))
	}
	return un
}

// simplePath: dotted path of plain alphabetic member names (no array
// indexes, wildcards or escapes).
func simplePath(p string) bool {
	if p == "" {
		return false
	}
	for _, seg := range strings.Split(p, ".") {
		if seg == "" {
			return false
		}
		for i := 0; i < len(seg); i++ {
			c := seg[i]
			if !(c >= 'a' && c <= 'z' || c >= 'A' && c <= 'Z' || c == '_') {
				return false
			}
		}
	}
	return true
}

// IsWrite reports whether a command name is one of the keyspace writes.
func IsWrite(cmd string) bool {
	switch strings.ToLower(cmd) {
	case "set", "fset", "del", "pdel", "drop", "flushdb", "rename", "renamenx", "expire", "persist", "jset", "jdel":
		return true
	}
	return false
}

// Package model holds the reference implementations the checks compare the
// server against: the keyspace model, field-value normalisation and order,
// a glob matcher, great-circle distance. None of it calls tile38's own
// packages (internal/...); the GeoJSON text of an object is produced with the
// third-party tidwall/geojson library, which is part of the trusted base.
package model

import (
	"encoding/json"
	"math"
	"regexp"
	"strconv"
	"strings"
)

// Kind of a field value, in the documented comparison order.
type Kind int

const (
	KNull Kind = iota
	KFalse
	KNumber
	KString
	KTrue
	KJSON
)

// FVal is a normalised field value.
type FVal struct {
	Kind Kind
	Data string  // text as the server reports it in RESP mode
	Num  float64 // for KNumber
}

// ZeroFVal is what a missing field reads as.
var ZeroFVal = FVal{Kind: KNumber, Data: "0", Num: 0}

var jsonNumberRE = regexp.MustCompile(`^-?(0|[1-9][0-9]*)(\.[0-9]+)?([eE][+-]?[0-9]+)?$`)

// minify removes insignificant whitespace outside JSON strings.
func minify(s string) string {
	var b strings.Builder
	inStr := false
	esc := false
	for i := 0; i < len(s); i++ {
		c := s[i]
		if inStr {
			b.WriteByte(c)
			if esc {
				esc = false
			} else if c == '\\' {
				esc = true
			} else if c == '"' {
				inStr = false
			}
			continue
		}
		if c <= ' ' {
			continue
		}
		if c == '"' {
			inStr = true
		}
		b.WriteByte(c)
	}
	return b.String()
}

// NormField implements the documented normalisation of a field value given
// as text: trim; numbers (incl. nan/inf spellings) become Numbers keeping
// their text when it is a JSON number; true/false/null; JSON containers are
// minified; a quoted JSON string means its contents; everything else is a
// String.
func NormField(data string) FVal {
	data = strings.TrimSpace(data)
	if num, err := strconv.ParseFloat(data, 64); err == nil {
		switch {
		case math.IsInf(num, +1):
			return FVal{Kind: KNumber, Data: "+Inf", Num: num}
		case math.IsInf(num, -1):
			return FVal{Kind: KNumber, Data: "-Inf", Num: num}
		case math.IsNaN(num):
			return FVal{Kind: KNumber, Data: "NaN", Num: num}
		}
		if jsonNumberRE.MatchString(data) {
			return FVal{Kind: KNumber, Data: data, Num: num}
		}
	} else if json.Valid([]byte(data)) {
		switch data[0] {
		case 'n':
			return FVal{Kind: KNull, Data: "null"}
		case 't':
			return FVal{Kind: KTrue, Data: "true"}
		case 'f':
			return FVal{Kind: KFalse, Data: "false"}
		case '{', '[':
			return FVal{Kind: KJSON, Data: minify(data)}
		case '"':
			var s string
			if json.Unmarshal([]byte(data), &s) == nil {
				data = s
			}
		}
	}
	switch strings.ToLower(data) {
	case "nan":
		return FVal{Kind: KNumber, Data: "NaN", Num: math.NaN()}
	case "inf", "+inf", "infinity", "+infinity":
		return FVal{Kind: KNumber, Data: "+Inf", Num: math.Inf(1)}
	case "-inf", "-infinity":
		return FVal{Kind: KNumber, Data: "-Inf", Num: math.Inf(-1)}
	}
	return FVal{Kind: KString, Data: data}
}

// IsZero: the value "0" means unset.
func (v FVal) IsZero() bool { return v.Kind == KNumber && v.Data == "0" }

func lowerASCII(s string) string {
	b := []byte(s)
	for i, c := range b {
		if c >= 'A' && c <= 'Z' {
			b[i] = c + 32
		}
	}
	return string(b)
}

// Less is the documented order: Null < False < Number < String < True < JSON;
// numbers numerically, strings ASCII-case-insensitively, the rest by text.
func (v FVal) Less(o FVal) bool {
	if v.Kind != o.Kind {
		return v.Kind < o.Kind
	}
	switch v.Kind {
	case KNumber:
		// NaN has a fixed place: before every other number, equal only to NaN
		if v.Num != v.Num || o.Num != o.Num {
			return v.Num != v.Num && o.Num == o.Num
		}
		return v.Num < o.Num
	case KString:
		return lowerASCII(v.Data) < lowerASCII(o.Data)
	}
	return v.Data < o.Data
}

// Same is equality under the order (neither is less).
func (v FVal) Same(o FVal) bool { return !v.Less(o) && !o.Less(v) }

// Identical is "the very same value": same kind and same text. A write of a
// value that is merely Same as the stored one (other letter case, another
// spelling of the number) still replaces it: values read back as written.
func (v FVal) Identical(o FVal) bool { return v.Kind == o.Kind && v.Data == o.Data }

// JSONValue is the value as it appears in JSON-mode replies, decoded:
// json.Number, string, bool, nil, or a decoded container.
func (v FVal) JSONValue() any {
	switch v.Kind {
	case KNumber:
		switch v.Data {
		case "NaN", "+Inf", "-Inf":
			return v.Data
		}
		return json.Number(v.Data)
	case KString:
		return v.Data
	case KTrue:
		return true
	case KFalse:
		return false
	case KNull:
		return nil
	case KJSON:
		return DecodeJSON(v.Data)
	}
	return nil
}

// DecodeJSON decodes with numbers kept as json.Number.
func DecodeJSON(s string) any {
	dec := json.NewDecoder(strings.NewReader(s))
	dec.UseNumber()
	var v any
	if err := dec.Decode(&v); err != nil {
		return decodeErr{s, err.Error()}
	}
	return v
}

type decodeErr struct{ Text, Err string }

package model

import "unicode/utf8"

// Reference glob matcher for the documented syntax: '*' any sequence, '?' any
// one character, '[a-z]' / '[^a-z]' classes with ranges and escapes, '\x'
// literal x; everything else matches itself. Characters are UTF-8 code points
// for '?' and classes (an invalid byte counts as one character), bytes for
// literals. A malformed pattern matches nothing. Written independently of
// internal/glob as a plain backtracking matcher over a parsed token list.

type gtok struct {
	kind byte // 'l' literal byte, '?' any char, '*' star, '[' class
	lit  byte
	neg  bool
	rs   [][2]rune
}

func parseGlob(p string) ([]gtok, bool) {
	var toks []gtok
	for i := 0; i < len(p); {
		switch c := p[i]; c {
		case '*':
			toks = append(toks, gtok{kind: '*'})
			i++
		case '?':
			toks = append(toks, gtok{kind: '?'})
			i++
		case '\\':
			if i+1 >= len(p) {
				return nil, false
			}
			toks = append(toks, gtok{kind: 'l', lit: p[i+1]})
			i += 2
		case '[':
			i++
			t := gtok{kind: '['}
			if i < len(p) && p[i] == '^' {
				t.neg = true
				i++
			}
			n := 0
			for {
				if i >= len(p) {
					return nil, false
				}
				if p[i] == ']' && n > 0 {
					i++
					break
				}
				rd := func() (rune, bool) {
					if i >= len(p) || p[i] == '-' || p[i] == ']' {
						return 0, false
					}
					if p[i] == '\\' {
						i++
						if i >= len(p) {
							return 0, false
						}
					}
					r, w := utf8.DecodeRuneInString(p[i:])
					if r == utf8.RuneError && w == 1 {
						return 0, false
					}
					i += w
					return r, true
				}
				lo, ok := rd()
				if !ok {
					return nil, false
				}
				hi := lo
				if i < len(p) && p[i] == '-' {
					i++
					hi, ok = rd()
					if !ok {
						return nil, false
					}
				}
				t.rs = append(t.rs, [2]rune{lo, hi})
				n++
			}
			toks = append(toks, t)
		default:
			toks = append(toks, gtok{kind: 'l', lit: c})
			i++
		}
	}
	return toks, true
}

func matchToks(toks []gtok, s string) bool {
	for len(toks) > 0 {
		t := toks[0]
		switch t.kind {
		case '*':
			for len(toks) > 1 && toks[1].kind == '*' {
				toks = toks[1:]
			}
			if len(toks) == 1 {
				return true
			}
			for i := 0; i <= len(s); i++ {
				if matchToks(toks[1:], s[i:]) {
					return true
				}
			}
			return false
		case 'l':
			if len(s) == 0 || s[0] != t.lit {
				return false
			}
			s = s[1:]
		case '?':
			if len(s) == 0 {
				return false
			}
			_, w := utf8.DecodeRuneInString(s)
			s = s[w:]
		case '[':
			if len(s) == 0 {
				return false
			}
			r, w := utf8.DecodeRuneInString(s)
			in := false
			for _, rg := range t.rs {
				if rg[0] <= r && r <= rg[1] {
					in = true
				}
			}
			if in == t.neg {
				return false
			}
			s = s[w:]
		}
		toks = toks[1:]
	}
	return len(s) == 0
}

// GlobValid reports whether the pattern is well formed.
func GlobValid(p string) bool {
	_, ok := parseGlob(p)
	return ok
}

// GlobMatch reports whether s matches pattern p.
func GlobMatch(p, s string) bool {
	toks, ok := parseGlob(p)
	if !ok {
		return false
	}
	return matchToks(toks, s)
}

// GlobPrefixEndsFF reports whether the literal prefix of pattern p (the bytes
// before the first metacharacter or escape) is non-empty and ends in 0xff —
// the shape of the listed known finding glob-limits-0xff.
func GlobPrefixEndsFF(p string) bool {
	n := 0
	for n < len(p) {
		switch p[n] {
		case '*', '?', '[', '\\':
			return n > 0 && p[n-1] == 0xff
		}
		n++
	}
	return n > 0 && p[n-1] == 0xff
}

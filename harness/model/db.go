package model

import (
	"encoding/json"
	"fmt"
	"math"
	"reflect"
	"sort"
	"strconv"
	"strings"

	"github.com/mmcloughlin/geohash"
	"github.com/tidwall/geojson"
	"github.com/tidwall/geojson/geometry"
	"github.com/tidwall/tile38/verif/harness/t38"
)

// MObj is one object of the model.
type MObj struct {
	Spatial bool   // geometry (true) or string value (false)
	Text    string // exact object text the server must return (when Sem == nil)
	Sem     any    // when non-nil: decoded JSON the returned text must equal semantically
	Fields  map[string]FVal
	HasTTL  bool
}

func (o *MObj) clone() *MObj {
	c := *o
	c.Fields = make(map[string]FVal, len(o.Fields))
	for k, v := range o.Fields {
		c.Fields[k] = v
	}
	return &c
}

// DB is the sequential reference model: collection -> id -> object.
type DB struct {
	Cols map[string]map[string]*MObj
	// Hooks on keys (name -> key, channel?) only matter for RENAME refusals.
	HookKeys map[string]HookRef
}

type HookRef struct {
	Key     string
	Channel bool
	Def     string // the defining arguments (a repeated identical definition answers 0)
}

func NewDB() *DB {
	return &DB{Cols: map[string]map[string]*MObj{}, HookKeys: map[string]HookRef{}}
}

// Clone deep-copies the model.
func (db *DB) Clone() *DB {
	n := NewDB()
	for k, col := range db.Cols {
		m := make(map[string]*MObj, len(col))
		for id, o := range col {
			m[id] = o.clone()
		}
		n.Cols[k] = m
	}
	for k, v := range db.HookKeys {
		n.HookKeys[k] = v
	}
	return n
}

// Reply is what the model expects a command to answer.
type Reply struct {
	RESP t38.Value
	// TTLClass: RESP integer is only compared by class (-2, -1, >= 0).
	TTLClass bool
	// SemObj: RESP bulk payload (or the marked element) is compared as decoded JSON against Sem.
	Sem any
	// JSON-mode expectation.
	JOK  bool
	JErr string
	J    map[string]any // members (other than ok/err/elapsed) that must be present with these decoded values
	// JSkip: JSON payload not modelled beyond ok/err.
	JSkip bool
	// Mutated says whether the model state changed.
	Mutated bool
	// Unsupported means the model does not cover this shape (never generated).
	Unsupported bool
}

func errReply(cmd, msg string) Reply {
	r := Reply{JOK: false, JErr: msg}
	if msg == "invalid number of arguments" {
		r.RESP = t38.Err("ERR wrong number of arguments for '" + cmd + "' command")
		return r
	}
	word := strings.Split(msg, " ")[0]
	uc := len(word) > 0
	for i := 0; i < len(word); i++ {
		if word[i] < 'A' || word[i] > 'Z' {
			uc = false
			break
		}
	}
	if !uc {
		msg = "ERR " + msg
	}
	r.RESP = t38.Err(msg)
	return r
}

func okReply(v t38.Value) Reply { return Reply{RESP: v, JOK: true} }

// ---- object construction ---------------------------------------------------

// ObjSpec describes the object part of a SET.
type ObjSpec struct {
	Kind string // "point", "pointz", "bounds", "hash", "object", "string"
	Args []string
}

// ffmt formats a float the way Go's shortest 'f' formatting does.
func ffmt(f float64) string { return strconv.FormatFloat(f, 'f', -1, 64) }

// BuildObject returns the object text the server must serve for spec, and
// whether it is a geometry. ok=false means the spec is not acceptable input.
func BuildObject(spec ObjSpec) (text string, spatial bool, ok bool) {
	pf := func(s string) (float64, bool) {
		f, err := strconv.ParseFloat(s, 64)
		return f, err == nil
	}
	switch spec.Kind {
	case "string":
		return spec.Args[0], false, true
	case "point":
		lat, ok1 := pf(spec.Args[0])
		lon, ok2 := pf(spec.Args[1])
		if !ok1 || !ok2 {
			return "", false, false
		}
		return geojson.NewPoint(geometry.Point{X: lon, Y: lat}).String(), true, true
	case "pointz":
		lat, ok1 := pf(spec.Args[0])
		lon, ok2 := pf(spec.Args[1])
		z, ok3 := pf(spec.Args[2])
		if !ok1 || !ok2 || !ok3 {
			return "", false, false
		}
		return geojson.NewPointZ(geometry.Point{X: lon, Y: lat}, z).String(), true, true
	case "bounds":
		var v [4]float64
		for i := range v {
			f, k := pf(spec.Args[i])
			if !k {
				return "", false, false
			}
			v[i] = f
		}
		return geojson.NewRect(geometry.Rect{Min: geometry.Point{X: v[1], Y: v[0]}, Max: geometry.Point{X: v[3], Y: v[2]}}).String(), true, true
	case "hash":
		lat, lon := geohash.Decode(spec.Args[0])
		return geojson.NewPoint(geometry.Point{X: lon, Y: lat}).String(), true, true
	case "object":
		o, err := geojson.Parse(spec.Args[0], nil)
		if err != nil {
			return "", false, false
		}
		return o.String(), true, true
	}
	return "", false, false
}

// SetArgs is a parsed SET command.
type SetArgs struct {
	Key, ID string
	Fields  [][2]string // name, raw value
	EX      bool
	NX, XX  bool
	Obj     ObjSpec
}

func reservedField(n string) bool { return n == "z" || n == "lat" || n == "lon" }

// Set applies SET.
func (db *DB) Set(a SetArgs) Reply {
	for _, f := range a.Fields {
		if reservedField(f[0]) {
			return errReply("set", "invalid argument '"+f[0]+"'")
		}
	}
	text, spatial, ok := BuildObject(a.Obj)
	if !ok {
		return Reply{Unsupported: true}
	}
	col := db.Cols[a.Key]
	var old *MObj
	if col != nil {
		old = col[a.ID]
	}
	nada := func() Reply {
		r := Reply{RESP: t38.Nil(), JOK: false}
		if a.NX {
			r.JErr = "id already exists"
		} else {
			r.JErr = "id not found"
		}
		return r
	}
	if a.XX && old == nil {
		return nada()
	}
	if a.NX && old != nil {
		return nada()
	}
	n := &MObj{Spatial: spatial, Text: text, Fields: map[string]FVal{}, HasTTL: a.EX}
	if old != nil {
		for k, v := range old.Fields {
			n.Fields[k] = v
		}
	}
	for _, f := range a.Fields {
		applyField(n.Fields, strings.TrimSpace(f[0]), NormField(f[1]))
	}
	if col == nil {
		col = map[string]*MObj{}
		db.Cols[a.Key] = col
	}
	col[a.ID] = n
	r := okReply(t38.Simple("OK"))
	r.Mutated = true
	return r
}

// applyField implements "set a field": 0 removes, the identical value leaves
// things as they are, anything else replaces (values read back as written).
func applyField(m map[string]FVal, name string, v FVal) {
	prev, has := m[name]
	if has {
		if v.IsZero() {
			delete(m, name)
			return
		}
		if prev.Identical(v) {
			return
		}
		m[name] = v
		return
	}
	if v.IsZero() {
		return
	}
	m[name] = v
}

// Fset applies FSET key id [XX] name value ...
func (db *DB) Fset(key, id string, xx bool, fields [][2]string) Reply {
	for _, f := range fields {
		if reservedField(f[0]) {
			return errReply("fset", "invalid argument '"+f[0]+"'")
		}
	}
	col := db.Cols[key]
	if col == nil {
		return errReply("fset", "key not found")
	}
	o := col[id]
	if o == nil {
		if xx {
			return okReply(t38.Int(0))
		}
		return errReply("fset", "id not found")
	}
	n := 0
	for _, f := range fields {
		name := strings.TrimSpace(f[0])
		v := NormField(f[1])
		prev, has := o.Fields[name]
		if !has {
			prev = ZeroFVal
		}
		if !prev.Identical(v) {
			applyField(o.Fields, name, v)
			n++
		}
	}
	r := okReply(t38.Int(int64(n)))
	r.Mutated = n > 0
	return r
}

func (db *DB) dropIfEmpty(key string) {
	if c, ok := db.Cols[key]; ok && len(c) == 0 {
		delete(db.Cols, key)
	}
}

// Del applies DEL key id [ERRON404].
func (db *DB) Del(key, id string, erron404 bool) Reply {
	col := db.Cols[key]
	if col == nil {
		if erron404 {
			return errReply("del", "key not found")
		}
		return okReply(t38.Int(0))
	}
	if _, ok := col[id]; !ok {
		if erron404 {
			return errReply("del", "id not found")
		}
		return okReply(t38.Int(0))
	}
	delete(col, id)
	db.dropIfEmpty(key)
	r := okReply(t38.Int(1))
	r.Mutated = true
	return r
}

// Pdel applies PDEL key pattern.
func (db *DB) Pdel(key, pattern string) Reply {
	col := db.Cols[key]
	n := 0
	for id := range col {
		if GlobMatch(pattern, id) {
			delete(col, id)
			n++
		}
	}
	db.dropIfEmpty(key)
	r := okReply(t38.Int(int64(n)))
	r.Mutated = n > 0
	return r
}

// Drop applies DROP key.
func (db *DB) Drop(key string) Reply {
	if _, ok := db.Cols[key]; !ok {
		return okReply(t38.Int(0))
	}
	delete(db.Cols, key)
	r := okReply(t38.Int(1))
	r.Mutated = true
	return r
}

// FlushDB applies FLUSHDB.
func (db *DB) FlushDB() Reply {
	db.Cols = map[string]map[string]*MObj{}
	db.HookKeys = map[string]HookRef{}
	r := okReply(t38.Simple("OK"))
	r.Mutated = true
	return r
}

// Rename applies RENAME / RENAMENX.
func (db *DB) Rename(key, newKey string, nx bool) Reply {
	cmd := "rename"
	if nx {
		cmd = "renamenx"
	}
	col, ok := db.Cols[key]
	if !ok {
		return errReply(cmd, "key not found")
	}
	hasHook, hasChan := false, false
	for _, h := range db.HookKeys {
		if h.Key == key || h.Key == newKey {
			if h.Channel {
				hasChan = true
			} else {
				hasHook = true
			}
		}
	}
	if hasHook {
		return errReply(cmd, "key has hooks set")
	}
	if hasChan {
		return errReply(cmd, "key has channels set")
	}
	_, exists := db.Cols[newKey]
	if exists && nx {
		return okReply(t38.Int(0))
	}
	delete(db.Cols, key)
	db.Cols[newKey] = col
	if key == newKey {
		// RENAME k k: the collection is removed and put back
		db.Cols[newKey] = col
	}
	var r Reply
	if nx {
		r = okReply(t38.Int(1))
	} else {
		r = okReply(t38.Simple("OK"))
	}
	r.Mutated = true
	return r
}

// Expire applies EXPIRE key id seconds.
func (db *DB) Expire(key, id string) Reply {
	col := db.Cols[key]
	if col == nil {
		return Reply{RESP: t38.Int(0), JOK: false, JErr: "key not found"}
	}
	o := col[id]
	if o == nil {
		return Reply{RESP: t38.Int(0), JOK: false, JErr: "id not found"}
	}
	o.HasTTL = true
	r := okReply(t38.Int(1))
	r.Mutated = true
	return r
}

// Persist applies PERSIST key id.
func (db *DB) Persist(key, id string) Reply {
	col := db.Cols[key]
	if col == nil {
		return Reply{RESP: t38.Int(0), JOK: false, JErr: "key not found"}
	}
	o := col[id]
	if o == nil {
		return Reply{RESP: t38.Int(0), JOK: false, JErr: "id not found"}
	}
	if !o.HasTTL {
		return okReply(t38.Int(0))
	}
	o.HasTTL = false
	r := okReply(t38.Int(1))
	r.Mutated = true
	return r
}

// ---- reads -------------------------------------------------------------------

func (db *DB) lookup(key, id string) (*MObj, string) {
	col := db.Cols[key]
	if col == nil {
		return nil, "key not found"
	}
	o := col[id]
	if o == nil {
		return nil, "id not found"
	}
	return o, ""
}

// SortedFieldNames returns names in byte order (the server's list order).
func SortedFieldNames(m map[string]FVal) []string {
	ns := make([]string, 0, len(m))
	for n := range m {
		ns = append(ns, n)
	}
	sort.Strings(ns)
	return ns
}

func fieldsRESP(o *MObj) []t38.Value {
	var out []t38.Value
	for _, n := range SortedFieldNames(o.Fields) {
		out = append(out, t38.Bulk(n), t38.Bulk(o.Fields[n].Data))
	}
	return out
}

func fieldsJSON(o *MObj) map[string]any {
	m := map[string]any{}
	for n, v := range o.Fields {
		m[n] = v.JSONValue()
	}
	return m
}

// objJSON is the decoded JSON form of the object in JSON-mode replies.
func objJSON(o *MObj) any {
	if o.Sem != nil {
		if o.Spatial {
			return o.Sem
		}
		// string documents are served as a JSON string holding the text; text is only known semantically
		return semString{o.Sem}
	}
	if o.Spatial {
		return DecodeJSON(o.Text)
	}
	return o.Text
}

// semString marks "a JSON string whose content, decoded as JSON, equals V".
type semString struct{ V any }

// Get applies GET key id [WITHFIELDS] (object output).
func (db *DB) Get(key, id string, withFields bool) Reply {
	o, e := db.lookup(key, id)
	if o == nil {
		return Reply{RESP: t38.Nil(), JOK: false, JErr: e}
	}
	r := Reply{JOK: true, J: map[string]any{"object": objJSON(o)}}
	obj := t38.Bulk(o.Text)
	if o.Sem != nil {
		r.Sem = o.Sem
	}
	if withFields {
		if len(o.Fields) > 0 {
			r.RESP = t38.Array(obj, t38.Array(fieldsRESP(o)...))
			r.J["fields"] = fieldsJSON(o)
		} else {
			r.RESP = t38.Array(obj)
		}
	} else {
		r.RESP = obj
	}
	return r
}

// GetPoint applies GET key id POINT for point objects whose text we know.
func (db *DB) GetPoint(key, id string) Reply {
	o, e := db.lookup(key, id)
	if o == nil {
		return Reply{RESP: t38.Nil(), JOK: false, JErr: e}
	}
	if !o.Spatial || o.Sem != nil {
		return Reply{Unsupported: true}
	}
	g, err := geojson.Parse(o.Text, nil)
	if err != nil {
		return Reply{Unsupported: true}
	}
	c := g.Center()
	var z float64
	for gg := g; ; {
		if p, ok := gg.(*geojson.Point); ok {
			z = p.Z()
		} else if f, ok := gg.(*geojson.Feature); ok {
			gg = f.Base()
			continue
		}
		break
	}
	vals := []t38.Value{t38.Bulk(ffmt(c.Y)), t38.Bulk(ffmt(c.X))}
	j := map[string]any{"lat": json.Number(ffmt(c.Y)), "lon": json.Number(ffmt(c.X))}
	if z != 0 {
		vals = append(vals, t38.Bulk(ffmt(z)))
		j["z"] = json.Number(ffmt(z))
	}
	return Reply{RESP: t38.Array(vals...), JOK: true, J: map[string]any{"point": j}}
}

// Fget applies FGET key id field (names without '.').
func (db *DB) Fget(key, id, name string) Reply {
	o, e := db.lookup(key, id)
	if o == nil {
		return errReply("fget", e)
	}
	// names are stored without the white space around them; a reader that
	// gives the padded name means the same field
	v, ok := o.Fields[strings.TrimSpace(name)]
	if !ok {
		v = ZeroFVal
	}
	return Reply{RESP: t38.Bulk(v.Data), JOK: true, J: map[string]any{"value": v.JSONValue()}}
}

// Exists applies EXISTS key id.
func (db *DB) Exists(key, id string) Reply {
	if db.Cols[key] == nil {
		return errReply("exists", "key not found")
	}
	_, ok := db.Cols[key][id]
	return Reply{RESP: t38.Int(b2i(ok)), JOK: true, J: map[string]any{"exists": ok}}
}

// Fexists applies FEXISTS key id field.
func (db *DB) Fexists(key, id, name string) Reply {
	o, e := db.lookup(key, id)
	if o == nil {
		return errReply("fexists", e)
	}
	_, ok := o.Fields[strings.TrimSpace(name)]
	return Reply{RESP: t38.Int(b2i(ok)), JOK: true, J: map[string]any{"exists": ok}}
}

func b2i(b bool) int64 {
	if b {
		return 1
	}
	return 0
}

// TTL applies TTL key id (compared by class).
func (db *DB) TTL(key, id string) Reply {
	o, e := db.lookup(key, id)
	if o == nil {
		return Reply{RESP: t38.Int(-2), JOK: false, JErr: e, TTLClass: true}
	}
	if !o.HasTTL {
		return Reply{RESP: t38.Int(-1), JOK: true, TTLClass: true, J: map[string]any{"ttl": json.Number("-1")}}
	}
	return Reply{RESP: t38.Int(1), JOK: true, TTLClass: true, JSkip: true}
}

// Type applies TYPE key.
func (db *DB) Type(key string) Reply {
	if db.Cols[key] == nil {
		return Reply{RESP: t38.Simple("none"), JOK: false, JErr: "key not found"}
	}
	return Reply{RESP: t38.Simple("hash"), JOK: true, J: map[string]any{"type": "hash"}}
}

// SortedKeys lists collection keys in byte order.
func (db *DB) SortedKeys() []string {
	ks := make([]string, 0, len(db.Cols))
	for k := range db.Cols {
		ks = append(ks, k)
	}
	sort.Strings(ks)
	return ks
}

// Keys applies KEYS pattern.
func (db *DB) Keys(pattern string) Reply {
	var vals []t38.Value
	js := []any{}
	for _, k := range db.SortedKeys() {
		if GlobMatch(pattern, k) {
			vals = append(vals, t38.Bulk(k))
			js = append(js, k)
		}
	}
	return Reply{RESP: t38.Array(vals...), JOK: true, J: map[string]any{"keys": js}}
}

// SortedIDs lists the ids of a collection in byte order.
func (db *DB) SortedIDs(key string) []string {
	col := db.Cols[key]
	ids := make([]string, 0, len(col))
	for id := range col {
		ids = append(ids, id)
	}
	sort.Strings(ids)
	return ids
}

// Scan applies SCAN key [LIMIT n] [IDS|COUNT] (no filters, cursor 0).
// output: "objects", "ids", "count".
func (db *DB) Scan(key string, limit int, output string, desc bool) Reply {
	ids := db.SortedIDs(key)
	if desc {
		for i, j := 0, len(ids)-1; i < j; i, j = i+1, j-1 {
			ids[i], ids[j] = ids[j], ids[i]
		}
	}
	if output == "count" {
		n := len(ids)
		// an explicit LIMIT is honoured by the counting scan only when filters are present;
		// the unfiltered shortcut reports the collection size (generator never passes LIMIT with COUNT)
		return Reply{RESP: t38.Int(int64(n)), JOK: true, J: map[string]any{"count": json.Number(strconv.Itoa(n)), "cursor": json.Number("0")}}
	}
	if limit <= 0 {
		limit = 100
	}
	cursor := 0
	if len(ids) >= limit {
		// the scan stops as soon as it has `limit` items and reports how far it got
		ids = ids[:limit]
		cursor = limit
	}
	var items []t38.Value
	r := Reply{JOK: true, JSkip: true}
	var sems []any
	for _, id := range ids {
		o := db.Cols[key][id]
		if output == "ids" {
			items = append(items, t38.Bulk(id))
			continue
		}
		it := []t38.Value{t38.Bulk(id), t38.Bulk(o.Text)}
		sems = append(sems, o.Sem)
		if f := fieldsRESP(o); len(f) > 0 {
			it = append(it, t38.Array(f...))
		}
		items = append(items, t38.Array(it...))
	}
	r.RESP = t38.Array(t38.Int(int64(cursor)), t38.Array(items...))
	if output == "objects" {
		any := false
		for _, s := range sems {
			if s != nil {
				any = true
			}
		}
		if any {
			r.Sem = scanSems(sems)
		}
	}
	return r
}

type scanSems []any

// ---- JSON documents (JSET/JGET/JDEL) -----------------------------------------

// JVal classifies the value argument of JSET the way the command documents:
// numbers, true, false, null are raw unless STR; RAW forces raw.
func JVal(val string, raw, str bool) (any, bool) {
	if !str && !raw {
		switch val {
		case "true", "false", "null":
			raw = true
		default:
			raw = jsonNumberRE.MatchString(val)
		}
	}
	if raw {
		v := DecodeJSON(val)
		if _, bad := v.(decodeErr); bad {
			return nil, false
		}
		return v, true
	}
	return val, true
}

func setPath(doc any, path []string, v any) any {
	if len(path) == 0 {
		return v
	}
	m, ok := doc.(map[string]any)
	if !ok {
		m = map[string]any{}
	}
	m[path[0]] = setPath(m[path[0]], path[1:], v)
	return m
}

func getPath(doc any, path []string) (any, bool) {
	if len(path) == 0 {
		return doc, true
	}
	m, ok := doc.(map[string]any)
	if !ok {
		return nil, false
	}
	c, ok := m[path[0]]
	if !ok {
		return nil, false
	}
	return getPath(c, path[1:])
}

func delPath(doc any, path []string) bool {
	m, ok := doc.(map[string]any)
	if !ok || len(path) == 0 {
		return false
	}
	if len(path) == 1 {
		if _, ok := m[path[0]]; !ok {
			return false
		}
		delete(m, path[0])
		return true
	}
	return delPath(m[path[0]], path[1:])
}

func deepCopy(v any) any {
	switch x := v.(type) {
	case map[string]any:
		m := make(map[string]any, len(x))
		for k, e := range x {
			m[k] = deepCopy(e)
		}
		return m
	case []any:
		a := make([]any, len(x))
		for i, e := range x {
			a[i] = deepCopy(e)
		}
		return a
	}
	return v
}

// docOf returns the decoded JSON document of an object if it is one.
func docOf(o *MObj) (any, bool) {
	if o.Sem != nil {
		return deepCopy(o.Sem), true
	}
	v := DecodeJSON(o.Text)
	if _, bad := v.(decodeErr); bad {
		return nil, false
	}
	if _, isObj := v.(map[string]any); !isObj {
		return nil, false
	}
	return v, true
}

// Jset applies JSET key id path value [RAW|STR] for simple dotted paths on a
// missing object, a JSON-object string document, or a geometry.
func (db *DB) Jset(key, id, path, val string, raw, str bool) Reply {
	v, ok := JVal(val, raw, str)
	if !ok {
		return Reply{Unsupported: true}
	}
	col := db.Cols[key]
	var o *MObj
	if col != nil {
		o = col[id]
	}
	var doc any = map[string]any{}
	if o != nil {
		d, ok := docOf(o)
		if !ok {
			return Reply{Unsupported: true}
		}
		doc = d
	}
	doc = setPath(doc, strings.Split(path, "."), v)
	if o != nil && o.Spatial {
		// re-enters SET key id OBJECT json: fields kept, deadline dropped
		txt, _ := json.Marshal(doc)
		if _, err := geojson.Parse(string(txt), nil); err != nil {
			return Reply{Unsupported: true}
		}
		o.Sem = normGeoSem(doc)
		o.HasTTL = false
		r := okReply(t38.Simple("OK"))
		r.Mutated = true
		return r
	}
	n := &MObj{Spatial: false, Sem: doc, Fields: map[string]FVal{}}
	if o != nil {
		n.Fields = o.Fields
	}
	if col == nil {
		col = map[string]*MObj{}
		db.Cols[key] = col
	}
	col[id] = n
	r := okReply(t38.Simple("OK"))
	r.Mutated = true
	return r
}

// normGeoSem converts numbers to float64 because a geometry's numbers are
// re-formatted by the GeoJSON encoder.
func normGeoSem(v any) any {
	switch x := v.(type) {
	case json.Number:
		f, _ := x.Float64()
		return f
	case map[string]any:
		for k, e := range x {
			x[k] = normGeoSem(e)
		}
	case []any:
		for i, e := range x {
			x[i] = normGeoSem(e)
		}
	}
	return v
}

// Jget applies JGET key id [path] for leaf values.
func (db *DB) Jget(key, id, path string, hasPath bool) Reply {
	o, e := db.lookup(key, id)
	if o == nil {
		return Reply{RESP: t38.Nil(), JOK: false, JErr: e}
	}
	doc, ok := docOf(o)
	if !ok {
		return Reply{Unsupported: true}
	}
	if !hasPath {
		r := Reply{RESP: t38.Bulk(""), Sem: doc, JOK: true, JSkip: true}
		if o.Spatial {
			r.Sem = normGeoSem(doc)
		}
		return r
	}
	v, found := getPath(doc, strings.Split(path, "."))
	if !found {
		return Reply{RESP: t38.Nil(), JOK: true, J: map[string]any{}}
	}
	switch x := v.(type) {
	case string:
		return Reply{RESP: t38.Bulk(x), JOK: true, J: map[string]any{"value": x}}
	case json.Number:
		if o.Spatial {
			return Reply{Unsupported: true}
		}
		// JGET renders a number the way gjson's String() does: integers as
		// written, everything else re-formatted in shortest 'f' notation
		txt := string(x)
		isInt := true
		for i := 0; i < len(txt); i++ {
			if (txt[i] < '0' || txt[i] > '9') && !(i == 0 && txt[i] == '-') {
				isInt = false
			}
		}
		if !isInt {
			f, _ := x.Float64()
			txt = strconv.FormatFloat(f, 'f', -1, 64)
		}
		return Reply{RESP: t38.Bulk(txt), JOK: true, J: map[string]any{"value": txt}}
	case bool:
		s := strconv.FormatBool(x)
		return Reply{RESP: t38.Bulk(s), JOK: true, J: map[string]any{"value": s}}
	case nil:
		return Reply{RESP: t38.Bulk(""), JOK: true, J: map[string]any{"value": ""}}
	}
	// containers: compare semantically
	r := Reply{RESP: t38.Bulk(""), Sem: v, JOK: true, JSkip: true}
	if o.Spatial {
		r.Sem = normGeoSem(deepCopy(v))
	}
	return r
}

// Jdel applies JDEL key id path.
func (db *DB) Jdel(key, id, path string) Reply {
	col := db.Cols[key]
	if col == nil {
		return Reply{RESP: t38.Int(0), JOK: false, JErr: "key not found"}
	}
	o := col[id]
	if o == nil {
		return Reply{RESP: t38.Int(0), JOK: false, JErr: "path not found"}
	}
	doc, ok := docOf(o)
	if !ok {
		return Reply{Unsupported: true}
	}
	if !delPath(doc, strings.Split(path, ".")) {
		return Reply{RESP: t38.Int(0), JOK: false, JErr: "path not found"}
	}
	if o.Spatial {
		txt, _ := json.Marshal(doc)
		if _, err := geojson.Parse(string(txt), nil); err != nil {
			return Reply{Unsupported: true}
		}
		o.Sem = normGeoSem(doc)
		o.HasTTL = false
		// the reply is JDEL's own (:1), although the geometry path goes through SET
		r := okReply(t38.Int(1))
		r.Mutated = true
		return r
	}
	o.Sem = doc
	o.Text = ""
	o.HasTTL = false
	r := okReply(t38.Int(1))
	r.Mutated = true
	return r
}

// ---- comparison with the server ------------------------------------------------

// SemEqual compares decoded JSON values; numbers compare by value when either
// side is a float64 (geometry), by text otherwise.
func SemEqual(a, b any) bool {
	switch x := a.(type) {
	case map[string]any:
		y, ok := b.(map[string]any)
		if !ok || len(x) != len(y) {
			return false
		}
		for k, e := range x {
			f, ok := y[k]
			if !ok || !SemEqual(e, f) {
				return false
			}
		}
		return true
	case []any:
		y, ok := b.([]any)
		if !ok || len(x) != len(y) {
			return false
		}
		for i := range x {
			if !SemEqual(x[i], y[i]) {
				return false
			}
		}
		return true
	case semString:
		s, ok := b.(string)
		if !ok {
			return false
		}
		return SemEqual(x.V, DecodeJSON(s))
	case float64:
		return numEq(x, b)
	case json.Number:
		if yn, ok := b.(json.Number); ok {
			return x == yn
		}
		f, _ := x.Float64()
		return numEq(f, b)
	}
	if s, ok := b.(semString); ok {
		return SemEqual(s, a)
	}
	return reflect.DeepEqual(a, b)
}

func numEq(f float64, b any) bool {
	switch y := b.(type) {
	case float64:
		return f == y || (math.IsNaN(f) && math.IsNaN(y))
	case json.Number:
		g, err := y.Float64()
		return err == nil && f == g
	}
	return false
}

// CheckRESP compares a server reply in RESP mode with the expectation.
func (r Reply) CheckRESP(got t38.Value) string {
	if r.TTLClass {
		if got.Kind != ':' {
			return fmt.Sprintf("TTL reply is not an integer: %s", got)
		}
		want := r.RESP.Int
		if (want >= 0) != (got.Int >= 0) || (want < 0 && want != got.Int) {
			return fmt.Sprintf("TTL class: got %d, model %d", got.Int, want)
		}
		return ""
	}
	if r.Sem != nil {
		return semCheck(r.RESP, got, r.Sem)
	}
	if !got.Equal(r.RESP) {
		return fmt.Sprintf("got %s, model %s", got, r.RESP)
	}
	return ""
}

// semCheck compares structure exactly but object payloads semantically.
func semCheck(want, got t38.Value, sem any) string {
	switch s := sem.(type) {
	case scanSems:
		if got.Kind != '*' || len(got.Arr) != 2 || got.Arr[1].Kind != '*' || len(got.Arr[1].Arr) != len(want.Arr[1].Arr) || !got.Arr[0].Equal(want.Arr[0]) {
			return fmt.Sprintf("got %s, model %s", got, want)
		}
		for i, it := range got.Arr[1].Arr {
			w := want.Arr[1].Arr[i]
			if it.Kind != '*' || len(it.Arr) != len(w.Arr) {
				return fmt.Sprintf("item %d: got %s, model %s", i, it, w)
			}
			for j := range it.Arr {
				if j == 1 && s[i] != nil {
					if !SemEqual(s[i], DecodeJSON(it.Arr[1].Str)) {
						return fmt.Sprintf("item %d object: got %s, model (semantic) %v", i, it.Arr[1], s[i])
					}
					continue
				}
				if !it.Arr[j].Equal(w.Arr[j]) {
					return fmt.Sprintf("item %d: got %s, model %s", i, it, w)
				}
			}
		}
		return ""
	}
	// single object, possibly inside [obj, fields]
	if want.Kind == '*' {
		if got.Kind != '*' || len(got.Arr) != len(want.Arr) {
			return fmt.Sprintf("got %s, model %s", got, want)
		}
		if !SemEqual(sem, DecodeJSON(got.Arr[0].Str)) {
			return fmt.Sprintf("object: got %s, model (semantic) %v", got.Arr[0], sem)
		}
		for j := 1; j < len(got.Arr); j++ {
			if !got.Arr[j].Equal(want.Arr[j]) {
				return fmt.Sprintf("got %s, model %s", got, want)
			}
		}
		return ""
	}
	if got.Kind != '$' || got.Null {
		return fmt.Sprintf("got %s, model a document equal to %v", got, sem)
	}
	if !SemEqual(sem, DecodeJSON(got.Str)) {
		return fmt.Sprintf("got %s, model (semantic) %v", got, sem)
	}
	return ""
}

// CheckJSON compares a decoded JSON-mode reply with the expectation.
func (r Reply) CheckJSON(got t38.JSONReply) string {
	if got.OK != r.JOK {
		return fmt.Sprintf("ok: got %v (%s), model %v (%s)", got.OK, got.Raw, r.JOK, r.JErr)
	}
	if !r.JOK {
		if got.Err != r.JErr {
			return fmt.Sprintf("err: got %q, model %q", got.Err, r.JErr)
		}
		return ""
	}
	if r.JSkip {
		return ""
	}
	for name, want := range r.J {
		gv, ok := got.Get(name)
		if !ok {
			return fmt.Sprintf("member %q missing in %s", name, got.Raw)
		}
		if !SemEqual(want, gv) {
			return fmt.Sprintf("member %q: got %v, model %v (reply %s)", name, gv, want, got.Raw)
		}
	}
	for name := range got.M {
		if name == "ok" || name == "elapsed" {
			continue
		}
		if _, ok := r.J[name]; !ok {
			return fmt.Sprintf("unexpected member %q in %s", name, got.Raw)
		}
	}
	return ""
}

// Dump renders the model as the dump the server should produce.
func (db *DB) Dump() *t38.Dump {
	d := t38.NewDump()
	for k, col := range db.Cols {
		m := map[string]t38.Obj{}
		for id, o := range col {
			ob := t38.Obj{Object: o.Text, HasTTL: o.HasTTL}
			for _, n := range SortedFieldNames(o.Fields) {
				ob.Fields = append(ob.Fields, [2]string{n, o.Fields[n].Data})
			}
			m[id] = ob
		}
		d.Keys[k] = m
	}
	return d
}

// DiffDump compares the model with a server dump, honouring semantic objects.
func (db *DB) DiffDump(got *t38.Dump) string {
	want := db.Dump()
	// replace semantic objects by the server text when semantically equal
	for k, col := range db.Cols {
		for id, o := range col {
			if o.Sem == nil {
				continue
			}
			g, ok := got.Keys[k][id]
			if !ok {
				continue
			}
			if SemEqual(o.Sem, DecodeJSON(g.Object)) {
				w := want.Keys[k][id]
				w.Object = g.Object
				want.Keys[k][id] = w
			} else {
				w := want.Keys[k][id]
				w.Object = fmt.Sprintf("<document equal to %v>", o.Sem)
				want.Keys[k][id] = w
			}
		}
	}
	// hooks are not part of the keyspace model
	g2 := *got
	g2.Hooks, g2.Chans = want.Hooks, want.Chans
	return want.Diff(&g2)
}

// Package t38 is the harness-side plumbing for talking to a tile38 server:
// a strict RESP codec, connections, in-process and subprocess launchers,
// a canonical state dump and an append-only-file parser. Nothing in here
// calls tile38 code except the launcher (server.Serve).
package t38

import (
	"bufio"
	"bytes"
	"errors"
	"fmt"
	"io"
	"strconv"
	"strings"
)

// Value is a parsed RESP value.
type Value struct {
	Kind byte // '+', '-', ':', '$', '*'
	Null bool // $-1 or *-1
	Str  string
	Int  int64
	Arr  []Value
}

func (v Value) IsErr() bool { return v.Kind == '-' }

// String renders a value compactly and unambiguously (used for comparisons
// and for evidence samples).
func (v Value) String() string {
	var b strings.Builder
	v.write(&b)
	return b.String()
}

func (v Value) write(b *strings.Builder) {
	switch v.Kind {
	case '+':
		b.WriteString("+" + v.Str)
	case '-':
		b.WriteString("-" + v.Str)
	case ':':
		b.WriteString(":" + strconv.FormatInt(v.Int, 10))
	case '$':
		if v.Null {
			b.WriteString("nil")
		} else {
			b.WriteString(strconv.Quote(v.Str))
		}
	case '*':
		if v.Null {
			b.WriteString("nil*")
			return
		}
		b.WriteByte('[')
		for i, e := range v.Arr {
			if i > 0 {
				b.WriteByte(' ')
			}
			e.write(b)
		}
		b.WriteByte(']')
	default:
		b.WriteString("?")
	}
}

// Text returns the payload of a bulk or simple string (or integer text).
func (v Value) Text() string {
	switch v.Kind {
	case ':':
		return strconv.FormatInt(v.Int, 10)
	}
	return v.Str
}

// Equal is deep equality.
func (v Value) Equal(o Value) bool {
	if v.Kind != o.Kind || v.Null != o.Null || v.Str != o.Str || v.Int != o.Int || len(v.Arr) != len(o.Arr) {
		return false
	}
	for i := range v.Arr {
		if !v.Arr[i].Equal(o.Arr[i]) {
			return false
		}
	}
	return true
}

// Constructors used by reference models.
func Simple(s string) Value { return Value{Kind: '+', Str: s} }
func Err(s string) Value    { return Value{Kind: '-', Str: s} }
func Int(n int64) Value     { return Value{Kind: ':', Int: n} }
func Bulk(s string) Value   { return Value{Kind: '$', Str: s} }
func Nil() Value            { return Value{Kind: '$', Null: true} }
func Array(a ...Value) Value {
	if a == nil {
		a = []Value{}
	}
	return Value{Kind: '*', Arr: a}
}

var ErrProtocol = errors.New("RESP protocol error")

// ReadValue reads exactly one RESP value, strictly: CRLF line ends, decimal
// lengths, no trailing garbage inside the frame.
func ReadValue(br *bufio.Reader) (Value, error) {
	line, err := readLine(br)
	if err != nil {
		return Value{}, err
	}
	if len(line) == 0 {
		return Value{}, fmt.Errorf("%w: empty line", ErrProtocol)
	}
	switch line[0] {
	case '+':
		return Value{Kind: '+', Str: string(line[1:])}, nil
	case '-':
		return Value{Kind: '-', Str: string(line[1:])}, nil
	case ':':
		n, err := strconv.ParseInt(string(line[1:]), 10, 64)
		if err != nil {
			return Value{}, fmt.Errorf("%w: bad integer %q", ErrProtocol, line)
		}
		return Value{Kind: ':', Int: n}, nil
	case '$':
		n, err := strconv.ParseInt(string(line[1:]), 10, 64)
		if err != nil || n < -1 {
			return Value{}, fmt.Errorf("%w: bad bulk length %q", ErrProtocol, line)
		}
		if n == -1 {
			return Value{Kind: '$', Null: true}, nil
		}
		buf := make([]byte, n+2)
		if _, err := io.ReadFull(br, buf); err != nil {
			return Value{}, err
		}
		if buf[n] != '\r' || buf[n+1] != '\n' {
			return Value{}, fmt.Errorf("%w: bulk not terminated by CRLF", ErrProtocol)
		}
		return Value{Kind: '$', Str: string(buf[:n])}, nil
	case '*':
		n, err := strconv.ParseInt(string(line[1:]), 10, 64)
		if err != nil || n < -1 {
			return Value{}, fmt.Errorf("%w: bad array length %q", ErrProtocol, line)
		}
		if n == -1 {
			return Value{Kind: '*', Null: true}, nil
		}
		arr := make([]Value, 0, n)
		for i := int64(0); i < n; i++ {
			e, err := ReadValue(br)
			if err != nil {
				return Value{}, err
			}
			arr = append(arr, e)
		}
		return Value{Kind: '*', Arr: arr}, nil
	}
	return Value{}, fmt.Errorf("%w: unknown type byte %q in %q", ErrProtocol, line[0], line)
}

func readLine(br *bufio.Reader) ([]byte, error) {
	var out []byte
	for {
		part, err := br.ReadSlice('\n')
		out = append(out, part...)
		if err == bufio.ErrBufferFull {
			continue
		}
		if err != nil {
			return nil, err
		}
		break
	}
	if len(out) < 2 || out[len(out)-2] != '\r' {
		return nil, fmt.Errorf("%w: line not terminated by CRLF: %q", ErrProtocol, out)
	}
	return out[:len(out)-2], nil
}

// ParseAll parses a byte slice that must consist of whole RESP values only.
func ParseAll(b []byte) ([]Value, error) {
	br := bufio.NewReader(bytes.NewReader(b))
	var vals []Value
	for {
		if _, err := br.Peek(1); err == io.EOF {
			return vals, nil
		}
		v, err := ReadValue(br)
		if err != nil {
			return vals, err
		}
		vals = append(vals, v)
	}
}

// EncodeCmd encodes a command as a RESP array of bulk strings.
func EncodeCmd(args ...string) []byte {
	var b []byte
	b = append(b, '*')
	b = strconv.AppendInt(b, int64(len(args)), 10)
	b = append(b, '\r', '\n')
	for _, a := range args {
		b = append(b, '$')
		b = strconv.AppendInt(b, int64(len(a)), 10)
		b = append(b, '\r', '\n')
		b = append(b, a...)
		b = append(b, '\r', '\n')
	}
	return b
}

package t38

import (
	"bufio"
	"encoding/json"
	"errors"
	"fmt"
	"net"
	"os"
	"strconv"
	"strings"
	"sync"
	"time"
)

// ReplyTimeout is how long a client waits for one reply from an otherwise
// idle server before the wait is reported as a hang.
var ReplyTimeout = 30 * time.Second

// ErrHang is returned when no reply arrives within ReplyTimeout.
var ErrHang = errors.New("no reply within the hang budget")

var (
	journalMu sync.Mutex
	journalF  *os.File
	connSeq   int
)

func init() {
	if p := os.Getenv("VERIF_JOURNAL"); p != "" {
		f, err := os.OpenFile(p, os.O_CREATE|os.O_WRONLY|os.O_APPEND, 0o644)
		if err == nil {
			journalF = f
		}
	}
}

// JournalNote appends a free-form line to the command journal (if enabled).
func JournalNote(s string) {
	if journalF == nil {
		return
	}
	journalMu.Lock()
	journalF.WriteString("# " + s + "\n")
	journalMu.Unlock()
}

func journal(id int, addr string, args []string) {
	if journalF == nil {
		return
	}
	var b strings.Builder
	b.WriteString(strconv.Itoa(id))
	b.WriteByte(' ')
	b.WriteString(addr)
	for _, a := range args {
		b.WriteByte(' ')
		if len(a) > 300 {
			b.WriteString(strconv.Quote(a[:300]) + fmt.Sprintf("...(%d bytes)", len(a)))
		} else {
			b.WriteString(strconv.Quote(a))
		}
	}
	b.WriteByte('\n')
	journalMu.Lock()
	journalF.WriteString(b.String())
	journalMu.Unlock()
}

// Conn is one client connection.
type Conn struct {
	C    net.Conn
	BR   *bufio.Reader
	id   int
	addr string
	JSON bool // connection is in OUTPUT json mode
}

// Dial connects to addr ("host:port").
func Dial(addr string) (*Conn, error) {
	return DialFrom("", addr)
}

// DialFrom connects with a chosen local source IP ("" = default).
func DialFrom(localIP, addr string) (*Conn, error) {
	d := net.Dialer{Timeout: 5 * time.Second}
	if localIP != "" {
		d.LocalAddr = &net.TCPAddr{IP: net.ParseIP(localIP)}
	}
	c, err := d.Dial("tcp", addr)
	if err != nil {
		return nil, err
	}
	if tc, ok := c.(*net.TCPConn); ok {
		tc.SetNoDelay(true)
	}
	journalMu.Lock()
	connSeq++
	id := connSeq
	journalMu.Unlock()
	return &Conn{C: c, BR: bufio.NewReaderSize(c, 1<<16), id: id, addr: addr}, nil
}

func (c *Conn) Close() error { return c.C.Close() }

// Send writes one command without reading the reply.
func (c *Conn) Send(args ...string) error {
	journal(c.id, c.addr, args)
	_, err := c.C.Write(EncodeCmd(args...))
	return err
}

// SendRaw writes raw bytes.
func (c *Conn) SendRaw(b []byte) error {
	_, err := c.C.Write(b)
	return err
}

// Recv reads one RESP value.
func (c *Conn) Recv() (Value, error) {
	return c.RecvTimeout(ReplyTimeout)
}

func (c *Conn) RecvTimeout(d time.Duration) (Value, error) {
	c.C.SetReadDeadline(time.Now().Add(d))
	v, err := ReadValue(c.BR)
	if err != nil {
		var ne net.Error
		if errors.As(err, &ne) && ne.Timeout() {
			return v, ErrHang
		}
	}
	return v, err
}

// Do sends a command and reads its reply.
func (c *Conn) Do(args ...string) (Value, error) {
	if err := c.Send(args...); err != nil {
		return Value{}, err
	}
	return c.Recv()
}

// MustDo is Do that panics on transport errors (used in set-up code).
func (c *Conn) MustDo(args ...string) Value {
	v, err := c.Do(args...)
	if err != nil {
		panic(fmt.Sprintf("transport error on %q: %v", args, err))
	}
	return v
}

// SetJSON switches the connection's output mode.
func (c *Conn) SetJSON(on bool) error {
	mode := "resp"
	if on {
		mode = "json"
	}
	v, err := c.Do("OUTPUT", mode)
	if err != nil {
		return err
	}
	if v.IsErr() {
		return fmt.Errorf("OUTPUT %s: %s", mode, v.Str)
	}
	c.JSON = on
	return nil
}

// JSONReply is a decoded JSON-mode reply.
type JSONReply struct {
	Raw string
	OK  bool
	Err string
	M   map[string]json.RawMessage
}

// DecodeJSONReply checks the well-formedness rules of JSON-mode replies: one
// valid JSON object with a boolean "ok", and a non-empty string "err" iff ok
// is false.
func DecodeJSONReply(raw string) (JSONReply, error) {
	r := JSONReply{Raw: raw}
	dec := json.NewDecoder(strings.NewReader(raw))
	dec.UseNumber()
	if err := dec.Decode(&r.M); err != nil {
		return r, fmt.Errorf("invalid JSON reply %q: %v", raw, err)
	}
	if dec.More() {
		return r, fmt.Errorf("trailing data after JSON document: %q", raw)
	}
	okRaw, has := r.M["ok"]
	if !has {
		return r, fmt.Errorf("JSON reply without ok: %q", raw)
	}
	switch string(okRaw) {
	case "true":
		r.OK = true
	case "false":
	default:
		return r, fmt.Errorf("JSON reply ok is not a boolean: %q", raw)
	}
	if eraw, has := r.M["err"]; has {
		if err := json.Unmarshal(eraw, &r.Err); err != nil {
			return r, fmt.Errorf("JSON reply err is not a string: %q", raw)
		}
	}
	if !r.OK && r.Err == "" {
		return r, fmt.Errorf("JSON reply ok:false without err: %q", raw)
	}
	if r.OK && r.Err != "" {
		return r, fmt.Errorf("JSON reply ok:true with err: %q", raw)
	}
	return r, nil
}

// DoJSON sends a command on a connection in JSON mode and decodes the reply.
func (c *Conn) DoJSON(args ...string) (JSONReply, error) {
	v, err := c.Do(args...)
	if err != nil {
		return JSONReply{}, err
	}
	if v.Kind != '$' || v.Null {
		return JSONReply{Raw: v.String()}, fmt.Errorf("JSON-mode reply is not a bulk string: %s", v)
	}
	return DecodeJSONReply(v.Str)
}

// Get returns a member of the JSON reply as a generic value (numbers kept as
// json.Number).
func (r JSONReply) Get(name string) (any, bool) {
	raw, ok := r.M[name]
	if !ok {
		return nil, false
	}
	dec := json.NewDecoder(strings.NewReader(string(raw)))
	dec.UseNumber()
	var v any
	if err := dec.Decode(&v); err != nil {
		return nil, false
	}
	return v, true
}

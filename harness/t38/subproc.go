package t38

import (
	"bufio"
	"bytes"
	"fmt"
	"net"
	"os"
	"os/exec"
	"strconv"
	"sync"
	"syscall"
)

func newReader(c net.Conn) *bufio.Reader { return bufio.NewReaderSize(c, 1<<16) }

// ServerBin is the path of the tile38-server binary built from /repo by the
// driver (bin/check) with the verif tag.
func ServerBin() string { return os.Getenv("VERIF_SERVER_BIN") }

// Proc is a subprocess server with captured stderr.
type Proc struct {
	*Srv
	Stderr *syncBuf
}

type syncBuf struct {
	mu sync.Mutex
	b  bytes.Buffer
}

func (s *syncBuf) Write(p []byte) (int, error) {
	s.mu.Lock()
	defer s.mu.Unlock()
	if s.b.Len() < 1<<20 {
		s.b.Write(p)
	}
	return len(p), nil
}
func (s *syncBuf) String() string {
	s.mu.Lock()
	defer s.mu.Unlock()
	return s.b.String()
}

// StartProc launches the server binary as a child process (retrying when the
// chosen port is lost to another process before the child binds it).
func StartProc(o Opts) (*Proc, error) {
	var lastErr error
	for attempt := 0; attempt < 5; attempt++ {
		p, err := startProcOnce(o)
		if err == nil {
			return p, nil
		}
		lastErr = err
	}
	return nil, lastErr
}

func startProcOnce(o Opts) (*Proc, error) {
	bin := ServerBin()
	if bin == "" {
		return nil, fmt.Errorf("VERIF_SERVER_BIN not set")
	}
	if o.Dir == "" {
		o.Dir = NewDir("pdata")
	}
	host := o.Host
	if host == "" {
		host = "127.0.0.1"
	}
	port := FreePort()
	args := []string{"-d", o.Dir, "-p", strconv.Itoa(port), "-h", host}
	if o.DevMode {
		args = append([]string{"--dev"}, args...)
	}
	if o.Spinlock {
		args = append([]string{"--spinlock"}, args...)
	}
	if o.HTTP {
		args = append([]string{"--http-transport", "yes"}, args...)
	}
	if o.Protected != "" {
		args = append([]string{"--protected-mode", o.Protected}, args...)
	} else {
		args = append([]string{"--protected-mode", "no"}, args...)
	}
	cmd := exec.Command(bin, args...)
	eb := &syncBuf{}
	cmd.Stderr = eb
	cmd.Stdout = eb
	cmd.SysProcAttr = &syscall.SysProcAttr{Pdeathsig: syscall.SIGKILL}
	if err := cmd.Start(); err != nil {
		return nil, err
	}
	s := &Srv{
		Addr: net.JoinHostPort(host, strconv.Itoa(port)),
		Port: port, Dir: o.Dir, Opts: o, cmd: cmd,
		done: make(chan error, 1),
	}
	exited := make(chan struct{})
	go func() { cmd.Wait(); close(exited) }()
	s.exited = exited
	p := &Proc{Srv: s, Stderr: eb}
	if err := s.waitReady(); err != nil {
		s.Stop()
		return nil, fmt.Errorf("%v; stderr: %s", err, eb.String())
	}
	return p, nil
}

// Alive reports whether the child process is still running.
func (p *Proc) Alive() bool {
	select {
	case <-p.exited:
		return false
	default:
		return true
	}
}

// Kill sends SIGKILL and waits.
func (p *Proc) Kill() {
	p.cmd.Process.Signal(syscall.SIGKILL)
	<-p.exited
}

package t38

import (
	"bufio"
	"bytes"
	"fmt"
	"os"
)

// AOFCmd is one command of an append-only file with its byte extent.
type AOFCmd struct {
	Args  []string
	Start int64
	End   int64 // offset just past the command
}

// ParseAOFBytes parses b as a sequence of RESP arrays of bulk strings. It
// returns the complete commands and the offset where parsing stopped (equal
// to len(b) when the file is clean). NUL bytes between commands are skipped.
func ParseAOFBytes(b []byte) (cmds []AOFCmd, consumed int64, err error) {
	pos := int64(0)
	for {
		for pos < int64(len(b)) && b[pos] == 0 {
			pos++
		}
		if pos >= int64(len(b)) {
			return cmds, pos, nil
		}
		rd := bytes.NewReader(b[pos:])
		br := bufio.NewReaderSize(rd, 16)
		v, rerr := ReadValue(br)
		if rerr != nil {
			return cmds, pos, nil // torn tail (or garbage): stop here
		}
		used := int64(len(b[pos:])) - int64(rd.Len()) - int64(br.Buffered())
		if v.Kind != '*' || v.Null {
			return cmds, pos, fmt.Errorf("aof: non-array value at offset %d: %s", pos, v)
		}
		args := make([]string, len(v.Arr))
		for i, a := range v.Arr {
			if a.Kind != '$' || a.Null {
				return cmds, pos, fmt.Errorf("aof: non-bulk argument at offset %d: %s", pos, v)
			}
			args[i] = a.Str
		}
		cmds = append(cmds, AOFCmd{Args: args, Start: pos, End: pos + used})
		pos += used
	}
}

// ParseAOF reads and parses an append-only file.
func ParseAOF(path string) ([]AOFCmd, int64, error) {
	b, err := os.ReadFile(path)
	if err != nil {
		return nil, 0, err
	}
	return ParseAOFBytes(b)
}

package t38

import (
	"fmt"
	"io"
	"net"
	"os"
	"os/exec"
	"path/filepath"
	"runtime"
	"strconv"
	"sync"
	"sync/atomic"
	"syscall"
	"time"

	"github.com/tidwall/tile38/internal/log"
	"github.com/tidwall/tile38/internal/server"
)

func init() {
	if os.Getenv("VERIF_SERVERLOG") == "1" {
		log.SetOutput(os.Stderr)
		log.SetLevel(3)
	} else {
		log.SetOutput(io.Discard)
	}
}

// Opts configures a server instance.
type Opts struct {
	Dir       string // data directory; created under WorkDir() when empty
	DevMode   bool
	Spinlock  bool
	HTTP      bool
	Protected string // "" => "no"
	Host      string // "" => 127.0.0.1
	Output    string // "", "resp", "json"
}

// Srv is a running server (in-process or subprocess).
type Srv struct {
	Addr string
	Port int
	Dir  string
	Opts Opts

	// in-process
	shutdown chan bool
	done     chan error

	// subprocess
	cmd    *exec.Cmd
	exited chan struct{}

	stopOnce sync.Once
}

// WorkDir returns the scratch root for data directories.
func WorkDir() string {
	d := os.Getenv("VERIF_WORK")
	if d == "" {
		d = filepath.Join(os.TempDir(), "verif-work")
	}
	os.MkdirAll(d, 0o755)
	return d
}

var stops atomic.Int64

var (
	dirMu  sync.Mutex
	dirSeq int
)

// NewDir makes a fresh empty data directory.
func NewDir(prefix string) string {
	dirMu.Lock()
	dirSeq++
	n := dirSeq
	dirMu.Unlock()
	d := filepath.Join(WorkDir(), fmt.Sprintf("%s-%d-%d", prefix, os.Getpid(), n))
	os.RemoveAll(d)
	os.MkdirAll(d, 0o755)
	return d
}

var (
	portMu     sync.Mutex
	portBlocks [][2]int   // [next, end) ranges this process has leased
	portLocks  []*os.File // lock files kept open for the life of the process
	portRecent = map[int]bool{}
)

const (
	portBase      = 12000 // below the kernel's ephemeral range, above the repo tests' 10000+
	portBlockSize = 100
	portNumBlocks = 200
)

// leaseBlock takes an exclusive flock on one block of ports so that no other
// harness process hands out the same ports (a port picked with bind-to-:0 and
// released can be grabbed by another process before the server binds it; the
// loser's readiness probe is then answered by a foreign server).
func leaseBlock() bool {
	dir := filepath.Join(os.TempDir(), "verif-portlocks")
	os.MkdirAll(dir, 0o777)
	start := os.Getpid() % portNumBlocks
	for i := 0; i < portNumBlocks; i++ {
		b := (start + i*7) % portNumBlocks
		f, err := os.OpenFile(filepath.Join(dir, fmt.Sprintf("block-%03d.lock", b)), os.O_CREATE|os.O_RDWR, 0o666)
		if err != nil {
			continue
		}
		if syscall.Flock(int(f.Fd()), syscall.LOCK_EX|syscall.LOCK_NB) != nil {
			f.Close()
			continue
		}
		portLocks = append(portLocks, f)
		lo := portBase + b*portBlockSize
		portBlocks = append(portBlocks, [2]int{lo, lo + portBlockSize})
		return true
	}
	return false
}

func canBind(p int) bool {
	ln, err := net.Listen("tcp", fmt.Sprintf("127.0.0.1:%d", p))
	if err != nil {
		return false
	}
	ln.Close()
	return true
}

// FreePort returns a TCP port on 127.0.0.1 that is currently bindable and is
// leased to this process (see leaseBlock). Ports are cycled within the leased
// blocks; a recently handed-out port is not reused until the block wraps.
func FreePort() int {
	portMu.Lock()
	defer portMu.Unlock()
	for round := 0; round < 3; round++ {
		for bi := range portBlocks {
			b := &portBlocks[bi]
			for b[0] < b[1] {
				p := b[0]
				b[0]++
				if portRecent[p] {
					continue
				}
				if canBind(p) {
					portRecent[p] = true
					return p
				}
			}
		}
		if len(portBlocks) < 8 && leaseBlock() {
			continue
		}
		// every leased block is used up: wrap around
		portRecent = map[int]bool{}
		for bi := range portBlocks {
			portBlocks[bi][0] = portBlocks[bi][1] - portBlockSize
		}
		if len(portBlocks) == 0 {
			break
		}
	}
	// fall back to a kernel-chosen port
	ln, err := net.Listen("tcp", "127.0.0.1:0")
	if err != nil {
		panic(err)
	}
	p := ln.Addr().(*net.TCPAddr).Port
	ln.Close()
	return p
}

// Start launches an in-process server and waits until it answers PING.
func Start(o Opts) (*Srv, error) {
	var lastErr error
	for attempt := 0; attempt < 5; attempt++ {
		s, err := startOnce(o)
		if err == nil {
			return s, nil
		}
		lastErr = err
	}
	return nil, lastErr
}

func startOnce(o Opts) (*Srv, error) {
	if o.Dir == "" {
		o.Dir = NewDir("data")
	}
	host := o.Host
	if host == "" {
		host = "127.0.0.1"
	}
	port := FreePort()
	s := &Srv{
		Addr:     net.JoinHostPort(host, strconv.Itoa(port)),
		Port:     port,
		Dir:      o.Dir,
		Opts:     o,
		shutdown: make(chan bool),
		done:     make(chan error, 1),
	}
	go func() {
		s.done <- server.Serve(server.Options{
			Host:          host,
			Port:          port,
			Dir:           o.Dir,
			UseHTTP:       o.HTTP,
			DevMode:       o.DevMode,
			AppendOnly:    true,
			Shutdown:      s.shutdown,
			Spinlock:      o.Spinlock,
			ProtectedMode: o.Protected,
			ClientOutput:  o.Output,
		})
	}()
	if err := s.waitReady(); err != nil {
		s.Stop()
		return nil, err
	}
	return s, nil
}

func (s *Srv) waitReady() error {
	deadline := time.Now().Add(60 * time.Second)
	for time.Now().Before(deadline) {
		select {
		case err := <-s.done:
			s.done <- err
			if err == nil {
				err = fmt.Errorf("server returned before becoming ready")
			}
			return err
		default:
		}
		if s.exited != nil {
			select {
			case <-s.exited:
				return fmt.Errorf("server process exited during start-up")
			default:
			}
		}
		c, err := net.DialTimeout("tcp", s.Addr, time.Second)
		if err == nil {
			cc := &Conn{C: c, BR: newReader(c)}
			c.SetDeadline(time.Now().Add(5 * time.Second))
			c.Write(EncodeCmd("SERVER"))
			v, err := ReadValue(cc.BR)
			c.Close()
			// SERVER is refused with "LOADING" until the log is replayed.
			if err == nil && !(v.IsErr() && len(v.Str) >= 7 && v.Str[:7] == "LOADING") {
				return nil
			}
		}
		time.Sleep(2 * time.Millisecond)
	}
	return fmt.Errorf("server at %s did not become ready", s.Addr)
}

// Stop shuts an in-process server down cleanly (or kills a subprocess) and
// waits for it. It returns Serve's error.
func (s *Srv) Stop() error {
	var err error
	s.stopOnce.Do(func() {
		if s.cmd != nil {
			s.cmd.Process.Signal(syscall.SIGKILL)
			return
		}
		close(s.shutdown)
		select {
		case err = <-s.done:
		case <-time.After(60 * time.Second):
			err = fmt.Errorf("server did not stop within 60s")
		}
		// a stopped in-process server leaves its files to the finalizers; collect
		// now and then so that descriptor use stays bounded over thousands of starts
		if n := stops.Add(1); n%64 == 0 {
			runtime.GC()
		}
	})
	return err
}

// StopAsync starts a clean shutdown and returns immediately.
func (s *Srv) StopAsync() {
	go s.Stop()
}

// Dial opens a connection to the server.
func (s *Srv) Dial() (*Conn, error) { return Dial(s.Addr) }

// MustDial panics on failure.
func (s *Srv) MustDial() *Conn {
	c, err := s.Dial()
	if err != nil {
		panic(err)
	}
	return c
}

// AOFPath is the path of the server's append-only file.
func (s *Srv) AOFPath() string { return filepath.Join(s.Dir, "appendonly.aof") }

// CopyDir copies a data directory (regular files only) — the on-disk state a
// process kill at this instant would leave behind.
func CopyDir(src, dst string) error {
	os.RemoveAll(dst)
	if err := os.MkdirAll(dst, 0o755); err != nil {
		return err
	}
	ents, err := os.ReadDir(src)
	if err != nil {
		return err
	}
	for _, e := range ents {
		if !e.Type().IsRegular() {
			continue
		}
		b, err := os.ReadFile(filepath.Join(src, e.Name()))
		if err != nil {
			if os.IsNotExist(err) {
				continue
			}
			return err
		}
		if err := os.WriteFile(filepath.Join(dst, e.Name()), b, 0o644); err != nil {
			return err
		}
	}
	return nil
}

package t38

import (
	"fmt"
	"io"
	"net"
	"os"
	"os/exec"
	"path/filepath"
	"strconv"
	"strings"
	"sync"
	"syscall"
	"time"

	"github.com/tidwall/tile38/internal/log"
	"github.com/tidwall/tile38/internal/server"
)

func init() {
	if os.Getenv("VERIF_SERVERLOG") == "1" {
		log.SetOutput(os.Stderr)
		log.SetLevel(3)
	} else {
		log.SetOutput(io.Discard)
	}
}

// Opts configures a server instance.
type Opts struct {
	Dir       string // data directory; created under WorkDir() when empty
	DevMode   bool
	Spinlock  bool
	HTTP      bool
	Protected string // "" => "no"
	Host      string // "" => 127.0.0.1
	Output    string // "", "resp", "json"
}

// Srv is a running server (in-process or subprocess).
type Srv struct {
	Addr string
	Port int
	Dir  string
	Opts Opts

	// in-process
	shutdown chan bool
	done     chan error

	// subprocess
	cmd    *exec.Cmd
	exited chan struct{}

	stopOnce sync.Once
}

// WorkDir returns the scratch root for data directories.
func WorkDir() string {
	d := os.Getenv("VERIF_WORK")
	if d == "" {
		d = filepath.Join(os.TempDir(), "verif-work")
	}
	os.MkdirAll(d, 0o755)
	return d
}

var (
	dirMu  sync.Mutex
	dirSeq int
)

// NewDir makes a fresh empty data directory.
func NewDir(prefix string) string {
	dirMu.Lock()
	dirSeq++
	n := dirSeq
	dirMu.Unlock()
	d := filepath.Join(WorkDir(), fmt.Sprintf("%s-%d-%d", prefix, os.Getpid(), n))
	os.RemoveAll(d)
	os.MkdirAll(d, 0o755)
	return d
}

var (
	portMu    sync.Mutex
	portsUsed = map[int]bool{}
)

// FreePort asks the kernel for an unused TCP port on 127.0.0.1 that this
// process has not handed out before. Another process can still grab the port
// between this call and the server's own bind; Start detects that by checking
// who owns the listening socket (ownsListener) and retries.
func FreePort() int {
	portMu.Lock()
	defer portMu.Unlock()
	for {
		ln, err := net.Listen("tcp", "127.0.0.1:0")
		if err != nil {
			panic(err)
		}
		p := ln.Addr().(*net.TCPAddr).Port
		ln.Close()
		if portsUsed[p] {
			continue
		}
		if len(portsUsed) > 20000 {
			portsUsed = map[int]bool{}
		}
		portsUsed[p] = true
		return p
	}
}

// ownsListener reports whether process pid holds the socket listening on
// TCP port (IPv4), by matching the socket inode from /proc/net/tcp against the
// process's file descriptors. ok=false when /proc cannot answer.
func ownsListener(pid, port int) (owns bool, ok bool) {
	b, err := os.ReadFile("/proc/net/tcp")
	if err != nil {
		return false, false
	}
	want := fmt.Sprintf(":%04X", port)
	var inodes []string
	for _, line := range strings.Split(string(b), "\n")[1:] {
		f := strings.Fields(line)
		if len(f) < 10 || f[3] != "0A" || !strings.HasSuffix(f[1], want) {
			continue
		}
		inodes = append(inodes, f[9])
	}
	if len(inodes) == 0 {
		return false, true
	}
	fds, err := os.ReadDir(fmt.Sprintf("/proc/%d/fd", pid))
	if err != nil {
		return false, false
	}
	for _, fd := range fds {
		l, err := os.Readlink(fmt.Sprintf("/proc/%d/fd/%s", pid, fd.Name()))
		if err != nil {
			continue
		}
		for _, in := range inodes {
			if l == "socket:["+in+"]" {
				return true, true
			}
		}
	}
	return false, true
}

// Start launches an in-process server and waits until it answers PING.
func Start(o Opts) (*Srv, error) {
	var lastErr error
	for attempt := 0; attempt < 5; attempt++ {
		s, err := startOnce(o)
		if err == nil {
			return s, nil
		}
		lastErr = err
	}
	return nil, lastErr
}

func startOnce(o Opts) (*Srv, error) {
	if o.Dir == "" {
		o.Dir = NewDir("data")
	}
	host := o.Host
	if host == "" {
		host = "127.0.0.1"
	}
	port := FreePort()
	s := &Srv{
		Addr:     net.JoinHostPort(host, strconv.Itoa(port)),
		Port:     port,
		Dir:      o.Dir,
		Opts:     o,
		shutdown: make(chan bool),
		done:     make(chan error, 1),
	}
	go func() {
		s.done <- server.Serve(server.Options{
			Host:          host,
			Port:          port,
			Dir:           o.Dir,
			UseHTTP:       o.HTTP,
			DevMode:       o.DevMode,
			AppendOnly:    true,
			Shutdown:      s.shutdown,
			Spinlock:      o.Spinlock,
			ProtectedMode: o.Protected,
			ClientOutput:  o.Output,
		})
	}()
	if err := s.waitReady(); err != nil {
		s.Stop()
		return nil, err
	}
	return s, nil
}

func (s *Srv) waitReady() error {
	deadline := time.Now().Add(60 * time.Second)
	for time.Now().Before(deadline) {
		select {
		case err := <-s.done:
			s.done <- err
			if err == nil {
				err = fmt.Errorf("server returned before becoming ready")
			}
			return err
		default:
		}
		if s.exited != nil {
			select {
			case <-s.exited:
				return fmt.Errorf("server process exited during start-up")
			default:
			}
		}
		c, err := net.DialTimeout("tcp", s.Addr, time.Second)
		if err == nil {
			cc := &Conn{C: c, BR: newReader(c)}
			c.SetDeadline(time.Now().Add(5 * time.Second))
			c.Write(EncodeCmd("SERVER"))
			v, err := ReadValue(cc.BR)
			c.Close()
			// SERVER is refused with "LOADING" until the log is replayed.
			if err == nil && !(v.IsErr() && len(v.Str) >= 7 && v.Str[:7] == "LOADING") {
				pid := os.Getpid()
				if s.cmd != nil {
					pid = s.cmd.Process.Pid
				}
				if owns, ok := ownsListener(pid, s.Port); ok && !owns {
					return fmt.Errorf("port %d is served by a foreign process (lost the bind race)", s.Port)
				}
				return nil
			}
		}
		time.Sleep(2 * time.Millisecond)
	}
	return fmt.Errorf("server at %s did not become ready", s.Addr)
}

// Stop shuts an in-process server down cleanly (or kills a subprocess) and
// waits for it. It returns Serve's error.
func (s *Srv) Stop() error {
	var err error
	s.stopOnce.Do(func() {
		if s.cmd != nil {
			s.cmd.Process.Signal(syscall.SIGKILL)
			return
		}
		close(s.shutdown)
		select {
		case err = <-s.done:
		case <-time.After(60 * time.Second):
			err = fmt.Errorf("server did not stop within 60s")
		}
	})
	return err
}

// StopAsync starts a clean shutdown and returns immediately.
func (s *Srv) StopAsync() {
	go s.Stop()
}

// Dial opens a connection to the server.
func (s *Srv) Dial() (*Conn, error) { return Dial(s.Addr) }

// MustDial panics on failure.
func (s *Srv) MustDial() *Conn {
	c, err := s.Dial()
	if err != nil {
		panic(err)
	}
	return c
}

// AOFPath is the path of the server's append-only file.
func (s *Srv) AOFPath() string { return filepath.Join(s.Dir, "appendonly.aof") }

// CopyDir copies a data directory (regular files only) — the on-disk state a
// process kill at this instant would leave behind.
func CopyDir(src, dst string) error {
	os.RemoveAll(dst)
	if err := os.MkdirAll(dst, 0o755); err != nil {
		return err
	}
	ents, err := os.ReadDir(src)
	if err != nil {
		return err
	}
	for _, e := range ents {
		if !e.Type().IsRegular() {
			continue
		}
		b, err := os.ReadFile(filepath.Join(src, e.Name()))
		if err != nil {
			if os.IsNotExist(err) {
				continue
			}
			return err
		}
		if err := os.WriteFile(filepath.Join(dst, e.Name()), b, 0o644); err != nil {
			return err
		}
	}
	return nil
}

package t38

import (
	"encoding/json"
	"fmt"
	"sort"
	"strconv"
	"strings"
)

// Obj is one object as visible through the protocol.
type Obj struct {
	Object string      `json:"object"`           // object text as returned by SCAN ... OBJECTS
	Fields [][2]string `json:"fields,omitempty"` // name, value text; in server order (sorted by name)
	HasTTL bool        `json:"has_ttl,omitempty"`
}

// HookInfo is one hook or channel as listed by HOOKS/CHANS.
type HookInfo struct {
	Name      string      `json:"name"`
	Key       string      `json:"key"`
	Endpoints []string    `json:"endpoints,omitempty"`
	Command   []string    `json:"command"`
	Meta      [][2]string `json:"meta,omitempty"`
	HasTTL    bool        `json:"has_ttl,omitempty"`
}

// Dump is the whole visible dataset.
type Dump struct {
	Keys  map[string]map[string]Obj `json:"keys"`
	Hooks map[string]HookInfo       `json:"hooks,omitempty"`
	Chans map[string]HookInfo       `json:"chans,omitempty"`
}

// NewDump returns an empty dump.
func NewDump() *Dump {
	return &Dump{Keys: map[string]map[string]Obj{}, Hooks: map[string]HookInfo{}, Chans: map[string]HookInfo{}}
}

// Canon renders the dump canonically (maps are sorted by encoding/json).
func (d *Dump) Canon() string {
	b, _ := json.Marshal(d)
	return string(b)
}

// NumObjects counts objects.
func (d *Dump) NumObjects() int {
	n := 0
	for _, m := range d.Keys {
		n += len(m)
	}
	return n
}

// Diff describes the first differences between two dumps ("" if equal).
func (d *Dump) Diff(o *Dump) string {
	var out []string
	add := func(f string, a ...any) {
		if len(out) < 8 {
			out = append(out, fmt.Sprintf(f, a...))
		}
	}
	keys := map[string]bool{}
	for k := range d.Keys {
		keys[k] = true
	}
	for k := range o.Keys {
		keys[k] = true
	}
	var ks []string
	for k := range keys {
		ks = append(ks, k)
	}
	sort.Strings(ks)
	for _, k := range ks {
		a, aok := d.Keys[k]
		b, bok := o.Keys[k]
		if !aok {
			add("key %q only in B (%d ids)", k, len(b))
			continue
		}
		if !bok {
			add("key %q only in A (%d ids)", k, len(a))
			continue
		}
		ids := map[string]bool{}
		for id := range a {
			ids[id] = true
		}
		for id := range b {
			ids[id] = true
		}
		var is []string
		for id := range ids {
			is = append(is, id)
		}
		sort.Strings(is)
		for _, id := range is {
			x, xok := a[id]
			y, yok := b[id]
			switch {
			case !xok:
				add("%q/%q only in B: %+v", k, id, y)
			case !yok:
				add("%q/%q only in A: %+v", k, id, x)
			default:
				xs, _ := json.Marshal(x)
				ys, _ := json.Marshal(y)
				if string(xs) != string(ys) {
					add("%q/%q differs: A=%s B=%s", k, id, xs, ys)
				}
			}
		}
	}
	hd := func(kind string, a, b map[string]HookInfo) {
		names := map[string]bool{}
		for n := range a {
			names[n] = true
		}
		for n := range b {
			names[n] = true
		}
		var ns []string
		for n := range names {
			ns = append(ns, n)
		}
		sort.Strings(ns)
		for _, n := range ns {
			x, xok := a[n]
			y, yok := b[n]
			xs, _ := json.Marshal(x)
			ys, _ := json.Marshal(y)
			switch {
			case !xok:
				add("%s %q only in B: %s", kind, n, ys)
			case !yok:
				add("%s %q only in A: %s", kind, n, xs)
			case string(xs) != string(ys):
				add("%s %q differs: A=%s B=%s", kind, n, xs, ys)
			}
		}
	}
	hd("hook", d.Hooks, o.Hooks)
	hd("chan", d.Chans, o.Chans)
	return strings.Join(out, "; ")
}

// TakeDump reads the whole visible state through fresh connections.
func TakeDump(addr string) (*Dump, error) {
	c, err := Dial(addr)
	if err != nil {
		return nil, err
	}
	defer c.Close()
	return TakeDumpOn(c)
}

// TakeDumpOn reads the whole visible state using connection c, which must be
// in RESP mode. Hook TTL flags are fetched via a temporary switch to JSON.
func TakeDumpOn(c *Conn) (*Dump, error) {
	d := NewDump()
	v, err := c.Do("KEYS", "*")
	if err != nil {
		return nil, err
	}
	if v.Kind != '*' {
		return nil, fmt.Errorf("KEYS *: unexpected reply %s", v)
	}
	for _, kv := range v.Arr {
		key := kv.Str
		sv, err := c.Do("SCAN", key, "LIMIT", "1000000000")
		if err != nil {
			return nil, err
		}
		if sv.Kind != '*' || len(sv.Arr) != 2 || sv.Arr[1].Kind != '*' {
			return nil, fmt.Errorf("SCAN %q: unexpected reply %s", key, sv)
		}
		if sv.Arr[0].Int != 0 {
			return nil, fmt.Errorf("SCAN %q with huge LIMIT returned cursor %d", key, sv.Arr[0].Int)
		}
		m := map[string]Obj{}
		var ids []string
		for _, it := range sv.Arr[1].Arr {
			if it.Kind != '*' || len(it.Arr) < 2 {
				return nil, fmt.Errorf("SCAN %q: unexpected item %s", key, it)
			}
			id := it.Arr[0].Str
			o := Obj{Object: it.Arr[1].Str}
			if len(it.Arr) >= 3 {
				fa := it.Arr[2].Arr
				if len(fa)%2 != 0 {
					return nil, fmt.Errorf("SCAN %q: odd field array %s", key, it)
				}
				for i := 0; i+1 < len(fa); i += 2 {
					o.Fields = append(o.Fields, [2]string{fa[i].Str, fa[i+1].Str})
				}
			}
			if _, dup := m[id]; dup {
				return nil, fmt.Errorf("SCAN %q: duplicate id %q", key, id)
			}
			m[id] = o
			ids = append(ids, id)
		}
		// TTL flags, pipelined in batches.
		for i := 0; i < len(ids); i += 400 {
			j := i + 400
			if j > len(ids) {
				j = len(ids)
			}
			var buf []byte
			for _, id := range ids[i:j] {
				buf = append(buf, EncodeCmd("TTL", key, id)...)
			}
			if err := c.SendRaw(buf); err != nil {
				return nil, err
			}
			for _, id := range ids[i:j] {
				tv, err := c.Recv()
				if err != nil {
					return nil, err
				}
				if tv.Kind != ':' {
					return nil, fmt.Errorf("TTL %q %q: unexpected reply %s", key, id, tv)
				}
				if tv.Int >= 0 {
					o := m[id]
					o.HasTTL = true
					m[id] = o
				}
			}
		}
		d.Keys[key] = m
	}
	if err := c.SetJSON(true); err != nil {
		return nil, err
	}
	defer c.SetJSON(false)
	for _, kind := range []string{"hooks", "chans"} {
		r, err := c.DoJSON(strings.ToUpper(kind), "*")
		if err != nil {
			return nil, err
		}
		if !r.OK {
			return nil, fmt.Errorf("%s *: %s", kind, r.Err)
		}
		var list []struct {
			Name      string            `json:"name"`
			Key       string            `json:"key"`
			TTL       int               `json:"ttl"`
			Endpoints []string          `json:"endpoints"`
			Command   []string          `json:"command"`
			Meta      map[string]string `json:"meta"`
		}
		if err := json.Unmarshal(r.M[kind], &list); err != nil {
			return nil, fmt.Errorf("%s *: %v in %s", kind, err, r.Raw)
		}
		for _, h := range list {
			hi := HookInfo{Name: h.Name, Key: h.Key, Endpoints: h.Endpoints, Command: h.Command, HasTTL: h.TTL >= 0}
			var mk []string
			for k := range h.Meta {
				mk = append(mk, k)
			}
			sort.Strings(mk)
			for _, k := range mk {
				hi.Meta = append(hi.Meta, [2]string{k, h.Meta[k]})
			}
			if kind == "hooks" {
				d.Hooks[h.Name] = hi
			} else {
				d.Chans[h.Name] = hi
			}
		}
	}
	return d, nil
}

// Quote is strconv.Quote, exported for sample rendering.
func Quote(s string) string { return strconv.Quote(s) }

// CmdString renders a command for samples/replays.
func CmdString(args []string) string {
	var b strings.Builder
	for i, a := range args {
		if i > 0 {
			b.WriteByte(' ')
		}
		if len(a) > 120 {
			b.WriteString(strconv.Quote(a[:120]) + fmt.Sprintf("..(%dB)", len(a)))
		} else if a != "" && !strings.ContainsAny(a, " \"\\\r\n\t\x00") && isPrintable(a) {
			b.WriteString(a)
		} else {
			b.WriteString(strconv.Quote(a))
		}
	}
	return b.String()
}

func isPrintable(s string) bool {
	for i := 0; i < len(s); i++ {
		if s[i] < 0x20 || s[i] > 0x7e {
			return false
		}
	}
	return true
}

// C19: counters, bounds and every access path agree with the retrievable
// dataset. Stateful random programs (as in C01, biased to small alphabets so
// that overwrites change an object's kind, deadline and size); after every
// step the counters reported by STATS/SERVER/BOUNDS/KEYS/COUNT are recomputed
// from the objects the model says are retrievable, every access path is
// compared, and the VERIFAUDIT hook cross-checks the internal indexes.
package c19

import (
	"encoding/json"
	"fmt"
	"math"
	"os"
	"sort"
	"strconv"
	"strings"
	"testing"

	"github.com/tidwall/geojson"
	"github.com/tidwall/tile38/verif/harness/ev"
	"github.com/tidwall/tile38/verif/harness/gen"
	"github.com/tidwall/tile38/verif/harness/model"
	"github.com/tidwall/tile38/verif/harness/t38"
	"pgregory.net/rapid"
)

var (
	srv  *t38.Srv
	conn *t38.Conn
	cdmp *t38.Conn
)

func TestMain(m *testing.M) {
	var err error
	srv, err = t38.Start(t38.Opts{})
	if err != nil {
		fmt.Fprintln(os.Stderr, err)
		os.Exit(2)
	}
	conn = srv.MustDial()
	cdmp = srv.MustDial()
	code := m.Run()
	srv.Stop()
	os.Exit(code)
}

type program struct {
	Cmds [][]string `json:"cmds"`
}

func statsMap(v t38.Value) map[string]int64 {
	m := map[string]int64{}
	for i := 0; i+1 < len(v.Arr); i += 2 {
		n, _ := strconv.ParseInt(v.Arr[i+1].Text(), 10, 64)
		m[v.Arr[i].Str] = n
	}
	return m
}

type objInfo struct {
	spatial bool
	empty   bool
	points  int
	slack   int        // a BOUNDS object is held as a 2-point rectangle but serialised as a 5-point polygon
	rect    [4]float64 // minx miny maxx maxy
}

func describe(o *model.MObj, text string) objInfo {
	if !o.Spatial {
		return objInfo{}
	}
	g, err := geojson.Parse(text, nil)
	if err != nil {
		return objInfo{spatial: true, empty: true}
	}
	r := g.Rect()
	slack := 0
	if pg, ok := g.(*geojson.Polygon); ok && g.NumPoints() == 5 && len(pg.Base().Holes) == 0 && pg.Base().Exterior.NumPoints() == 5 {
		ext := pg.Base().Exterior
		rectlike := true
		for i := 0; i < 5; i++ {
			pt := ext.PointAt(i)
			if (pt.X != r.Min.X && pt.X != r.Max.X) || (pt.Y != r.Min.Y && pt.Y != r.Max.Y) {
				rectlike = false
			}
		}
		if rectlike {
			slack = 3
		}
	}
	return objInfo{spatial: true, empty: g.Empty(), points: g.NumPoints(), slack: slack, rect: [4]float64{r.Min.X, r.Min.Y, r.Max.X, r.Max.Y}}
}

func idsOf(v t38.Value) []string {
	var out []string
	if v.Kind == '*' && len(v.Arr) == 2 {
		for _, e := range v.Arr[1].Arr {
			if e.Kind == '*' && len(e.Arr) > 0 {
				out = append(out, e.Arr[0].Str)
			} else {
				out = append(out, e.Str)
			}
		}
	}
	sort.Strings(out)
	return out
}

// checkAll recomputes every counter from the model + dump and compares.
func checkAll(db *model.DB, fail func(key, what string)) {
	d, err := t38.TakeDumpOn(cdmp)
	if err != nil {
		fail("c19-harness", err.Error())
		return
	}
	if diff := db.DiffDump(d); diff != "" {
		fail("state-mismatch", "visible dataset differs from the model: "+diff)
		return
	}
	// internal audit
	if v := conn.MustDo("VERIFAUDIT"); v.Kind != '*' {
		fail("c19-harness", "VERIFAUDIT: "+v.String())
	} else if len(v.Arr) > 0 {
		var ps []string
		for _, e := range v.Arr {
			ps = append(ps, e.Str)
		}
		fail("audit:"+auditClass(ps[0]), "internal structures disagree with the id map: "+strings.Join(ps, "; "))
	}
	var totObjects, totStrings, totPoints, totSlack int64
	keys := db.SortedKeys()
	for _, k := range keys {
		var nobj, nstr, npts, slack int64
		var have bool
		var bx [4]float64
		var strs, geoms []string
		for _, id := range db.SortedIDs(k) {
			o := db.Cols[k][id]
			info := describe(o, d.Keys[k][id].Object)
			nobj++
			if !info.spatial {
				nstr++
				strs = append(strs, id)
				continue
			}
			npts += int64(info.points)
			slack += int64(info.slack)
			if info.empty {
				continue
			}
			geoms = append(geoms, id)
			if !have {
				bx = info.rect
				have = true
			} else {
				bx[0] = math.Min(bx[0], info.rect[0])
				bx[1] = math.Min(bx[1], info.rect[1])
				bx[2] = math.Max(bx[2], info.rect[2])
				bx[3] = math.Max(bx[3], info.rect[3])
			}
		}
		totObjects += nobj
		totStrings += nstr
		totPoints += npts
		totSlack += slack
		st := conn.MustDo("STATS", k)
		if st.Kind != '*' || len(st.Arr) != 1 || st.Arr[0].Null {
			fail("stats", fmt.Sprintf("STATS %q = %s", k, st))
			continue
		}
		sm := statsMap(st.Arr[0])
		if sm["num_objects"] != nobj || sm["num_strings"] != nstr || sm["num_points"] > npts || sm["num_points"] < npts-slack || (npts-sm["num_points"])%3 != 0 {
			fail("stats-counters", fmt.Sprintf("STATS %q reports objects=%d strings=%d points=%d, recomputed from the retrievable objects: %d/%d/%d", k, sm["num_objects"], sm["num_strings"], sm["num_points"], nobj, nstr, npts))
		}
		// BOUNDS
		b := conn.MustDo("BOUNDS", k)
		if b.Kind == '*' && len(b.Arr) == 2 {
			got := [4]float64{}
			got[0], _ = strconv.ParseFloat(b.Arr[0].Arr[0].Str, 64)
			got[1], _ = strconv.ParseFloat(b.Arr[0].Arr[1].Str, 64)
			got[2], _ = strconv.ParseFloat(b.Arr[1].Arr[0].Str, 64)
			got[3], _ = strconv.ParseFloat(b.Arr[1].Arr[1].Str, 64)
			if got != bx {
				fail("bounds", fmt.Sprintf("BOUNDS %q = %v, min/max over the non-empty geometries = %v", k, got, bx))
			}
		} else {
			fail("bounds", fmt.Sprintf("BOUNDS %q = %s", k, b))
		}
		// counts
		if v := conn.MustDo("SCAN", k, "COUNT"); v.Int != nobj {
			fail("scan-count", fmt.Sprintf("SCAN %q COUNT = %s, %d objects are retrievable", k, v, nobj))
		}
		if v := conn.MustDo("SEARCH", k, "COUNT"); v.Int != nstr {
			fail("search-count", fmt.Sprintf("SEARCH %q COUNT = %s, %d strings are retrievable", k, v, nstr))
		}
		// access paths
		if got := idsOf(conn.MustDo("SEARCH", k, "LIMIT", "100000", "IDS")); strings.Join(got, "\x00") != strings.Join(strs, "\x00") {
			fail("path-search", fmt.Sprintf("SEARCH %q returns %q, the retrievable strings are %q", k, got, strs))
		}
		if got := idsOf(conn.MustDo("INTERSECTS", k, "LIMIT", "100000", "IDS", "BOUNDS", "-90", "-180", "90", "180")); strings.Join(got, "\x00") != strings.Join(geoms, "\x00") {
			fail("path-spatial", fmt.Sprintf("INTERSECTS %q BOUNDS world returns %q, the retrievable non-empty geometries are %q", k, got, geoms))
		}
		// spatial COUNT over a covering area must equal the ids the same search returns
		for _, q := range [][]string{
			{"INTERSECTS", k, "COUNT", "BOUNDS", "-90", "-180", "90", "180"},
			{"WITHIN", k, "COUNT", "BOUNDS", "-90", "-180", "90", "180"},
			{"INTERSECTS", k, "COUNT", "TILE", "0", "0", "0"},
			{"INTERSECTS", k, "COUNT", "QUADKEY", "0"},
		} {
			idq := append([]string{q[0], q[1], "LIMIT", "100000", "IDS"}, q[3:]...)
			want := int64(len(idsOf(conn.MustDo(idq...))))
			if q[0] == "INTERSECTS" && q[3] == "BOUNDS" {
				// everything non-empty intersects the world rectangle (WITHIN it is not guaranteed:
				// a circle reaching across the antimeridian is not inside it)
				want = int64(len(geoms))
			}
			if v := conn.MustDo(q...); v.Kind != ':' || v.Int != want {
				fail("spatial-count", fmt.Sprintf("%s = %s, the same search returns %d ids (%d non-empty geometries are retrievable)", t38.CmdString(q), v, want, len(geoms)))
			}
		}
		if got := idsOf(conn.MustDo("NEARBY", k, "LIMIT", "100000", "IDS", "POINT", "0", "0")); strings.Join(got, "\x00") != strings.Join(geoms, "\x00") {
			fail("path-nearby", fmt.Sprintf("NEARBY %q returns %q, the retrievable non-empty geometries are %q", k, got, geoms))
		}
	}
	// SERVER totals
	sv := conn.MustDo("SERVER")
	sm := statsMap(sv)
	if sm["num_objects"] != totObjects || sm["num_strings"] != totStrings || sm["num_points"] > totPoints || sm["num_points"] < totPoints-totSlack || sm["num_collections"] != int64(len(keys)) {
		fail("server-totals", fmt.Sprintf("SERVER reports collections=%d objects=%d strings=%d points=%d, recomputed %d/%d/%d/%d", sm["num_collections"], sm["num_objects"], sm["num_strings"], sm["num_points"], len(keys), totObjects, totStrings, totPoints))
	}
}

func auditClass(p string) string {
	for _, w := range []string{"spatial index", "values index", "expires", "weight", "points counter", "geometry counter", "string counter", "hooksOut", "hookTree", "hookCross", "hookExpires", "group", "empty but still present"} {
		if strings.Contains(p, w) {
			return strings.ReplaceAll(w, " ", "-")
		}
	}
	return "other"
}

// fieldArg renders a stored field value so that setting it again yields the same value.
func fieldArg(v model.FVal) string {
	if v.Kind == model.KString {
		if n := model.NormField(v.Data); n.Kind != model.KString || n.Data != v.Data {
			b, _ := json.Marshal(v.Data)
			return string(b)
		}
	}
	return v.Data
}

// checkWeight copies every collection into a fresh key with plain SETs and
// compares STATS of both (metamorphic recomputation of in_memory_size).
func checkWeight(db *model.DB, fail func(key, what string)) {
	d, err := t38.TakeDumpOn(cdmp)
	if err != nil {
		return
	}
	for _, k := range db.SortedKeys() {
		ck := "copy\x01of\x01" + k
		for _, id := range db.SortedIDs(k) {
			o := db.Cols[k][id]
			cmd := []string{"SET", ck, id}
			for _, n := range model.SortedFieldNames(o.Fields) {
				cmd = append(cmd, "FIELD", n, fieldArg(o.Fields[n]))
			}
			if o.Spatial {
				cmd = append(cmd, "OBJECT", d.Keys[k][id].Object)
			} else {
				cmd = append(cmd, "STRING", d.Keys[k][id].Object)
			}
			if v := conn.MustDo(cmd...); v.IsErr() {
				fail("c19-harness", fmt.Sprintf("copy %s: %s", t38.CmdString(cmd), v))
				return
			}
		}
		a := statsMap(conn.MustDo("STATS", k).Arr[0])
		b := statsMap(conn.MustDo("STATS", ck).Arr[0])
		var slack int64
		for _, id := range db.SortedIDs(k) {
			slack += int64(describe(db.Cols[k][id], d.Keys[k][id].Object).slack)
		}
		// the copy holds former BOUNDS objects as 5-point polygons (3 more points, 16 bytes each)
		dp := b["num_points"] - a["num_points"]
		if dp >= 0 && dp <= slack && dp%3 == 0 && b["in_memory_size"]-a["in_memory_size"] == 16*dp {
			b["num_points"], b["in_memory_size"] = a["num_points"], a["in_memory_size"]
		}
		if fmt.Sprint(a) != fmt.Sprint(b) {
			fail("stats-weight", fmt.Sprintf("STATS %q = %v but a fresh collection holding exactly the same objects reports %v", k, a, b))
		}
		conn.MustDo("DROP", ck)
	}
}

func runProgram(t ev.Failer, c *ev.Collector, p program, everyStep bool) map[string]bool {
	labels := map[string]bool{}
	conn.MustDo("FLUSHDB")
	db := model.NewDB()
	failed := false
	fail := func(key, what string) {
		if failed {
			return
		}
		failed = true
		c.Fail(t, key, what, p)
	}
	kindChanges := 0
	for i, cmd := range p.Cmds {
		before := db.Clone()
		exp := model.Exec(db, cmd)
		if exp.Unsupported {
			continue
		}
		name := strings.ToLower(cmd[0])
		v, err := conn.Do(cmd...)
		if err != nil {
			fail("c19-harness", err.Error())
		}
		if dd := exp.CheckRESP(v); dd != "" {
			fail("reply-mismatch:"+name, fmt.Sprintf("step %d %s: %s", i, t38.CmdString(cmd), dd))
		}
		if exp.Mutated {
			if len(cmd) > 2 {
				var old, cur *model.MObj
				if col := before.Cols[cmd[1]]; col != nil {
					old = col[cmd[2]]
				}
				if col := db.Cols[cmd[1]]; col != nil {
					cur = col[cmd[2]]
				}
				if old != nil && cur != nil {
					if old.Spatial != cur.Spatial {
						kindChanges++
						labels["kind-change:string<->geometry"] = true
					} else if old.Spatial && old.Text != cur.Text {
						labels["geometry-replaced"] = true
					}
					if old.HasTTL != cur.HasTTL {
						labels["nt:deadline-change"] = true
					}
				}
			}
			switch name {
			case "rename", "renamenx":
				labels["nt:rename"] = true
			case "drop", "pdel", "flushdb":
				labels["nt:"+name] = true
			}
			if everyStep {
				checkAll(db, func(k, w string) { fail(k, fmt.Sprintf("after step %d %s: %s", i, t38.CmdString(cmd), w)) })
			}
		}
	}
	checkAll(db, func(k, w string) { fail(k, "at the end: "+w) })
	checkWeight(db, fail)
	if kindChanges >= 2 {
		labels["nt2:two-kind-changes"] = true
	}
	if len(db.Cols) > 0 {
		labels["objects-left"] = true
	}
	return labels
}

func TestC19_Counters(t *testing.T) {
	c := ev.New("C19", "counters", "exploration")
	t.Cleanup(c.Flush)
	c.Rule("random programs of keyspace commands over the small alphabet (3 keys x 4 ids, so overwrites change kind string<->geometry<->empty geometry, deadline and size), executed on the server and the reference model; after every mutating step: VERIFAUDIT (hook: R-tree/values/expires indexes, weight and point counters vs the id map; hook trees; group maps), STATS/SERVER counters and BOUNDS recomputed from the retrievable objects, SCAN/SEARCH COUNT, and every access path (SEARCH, INTERSECTS world, NEARBY) compared with the model's ids; at the end in_memory_size is recomputed metamorphically by copying the objects into a fresh collection. Non-trivial: >= 2 kind-changing overwrites and one of {RENAME, DROP, PDEL, deadline change} with objects left at the end; distinct by command/outcome sequence.")
	c.Assume("tidwall/geojson NumPoints/Rect/Empty of an object's text are the reference for points and bounds")
	ev.Rapid("counters", ev.Pick(1500, 8000))
	rapid.Check(t, func(rt *rapid.T) {
		cmdGen := rapid.Custom(func(t *rapid.T) []string { return gen.KeyspaceCmd(t, gen.SmallNames) })
		p := program{Cmds: rapid.SliceOfN(cmdGen, 8, ev.Pick(40, 80)).Draw(rt, "cmds")}
		c.Case()
		labels := runProgram(rt, c, p, true)
		nt := labels["nt2:two-kind-changes"] && labels["objects-left"]
		other := false
		for l := range labels {
			c.Label(l)
			if strings.HasPrefix(l, "nt:") {
				other = true
			}
		}
		if nt && other {
			var b strings.Builder
			for _, cmd := range p.Cmds {
				b.WriteString(strings.ToLower(cmd[0]))
				if len(cmd) > 2 {
					b.WriteString(":" + cmd[1] + ":" + cmd[2])
				}
				b.WriteByte(';')
			}
			c.NonTrivial(b.String())
			if c.WantSample() {
				c.Sample(map[string]any{"cmds": gen.Describe(p.Cmds)})
			}
		}
	})
}

func TestReplay(t *testing.T) {
	doc, ok := ev.ReplayFile()
	if !ok {
		t.Skip("no replay file")
	}
	c := ev.New("C19", "replay", "exploration")
	t.Cleanup(c.Flush)
	if doc.Check == "expiry-path" {
		var ec expiryCase
		if err := json.Unmarshal(doc.Data, &ec); err != nil {
			t.Fatal(err)
		}
		c.Case()
		runExpiryCase(t, c, ec)
		return
	}
	var p program
	if err := json.Unmarshal(doc.Data, &p); err != nil {
		t.Fatal(err)
	}
	c.Case()
	runProgram(t, c, p, true)
}

package c19

import (
	"fmt"
	"sort"
	"strconv"
	"strings"
	"testing"
	"time"

	"github.com/tidwall/tile38/verif/harness/ev"
	"github.com/tidwall/tile38/verif/harness/gen"
	"github.com/tidwall/tile38/verif/harness/model"
	"github.com/tidwall/tile38/verif/harness/t38"
	"pgregory.net/rapid"
)

// expiryCase: several collections whose key order is independent of their
// deadlines; objects without a deadline, with a far one and with a short one.
type expiryCase struct {
	Sets  [][]string  `json:"sets"`   // SET commands in issue order
	Short [][2]string `json:"short"`  // (key,id) holding a short deadline after the last SET touching it
	MaxEX float64     `json:"max_ex"` // largest short EX used
}

const canaryKey = "0canary" // sorts before every generated key

func drawExpiryCase(rt *rapid.T) expiryCase {
	keyPool := []string{"a1", "b2", "c3", "d4", "e5", "f6"}
	nk := rapid.IntRange(2, 5).Draw(rt, "nkeys")
	keys := rapid.Permutation(keyPool).Draw(rt, "keyperm")[:nk]
	var ec expiryCase
	class := map[[2]string]string{}
	shortEX := []string{"0.05", "0.08", "0.12", "0.2", "0.3"}
	for _, k := range keys {
		// what kinds of deadline this collection holds: all far, all short, mixed, none+short
		shape := rapid.SampledFrom([]string{"far-only", "short-only", "mixed", "mixed", "none+short"}).Draw(rt, "shape:"+k)
		n := rapid.IntRange(1, 6).Draw(rt, "n:"+k)
		for i := 0; i < n; i++ {
			id := fmt.Sprintf("o%d", rapid.IntRange(0, 4).Draw(rt, "id"))
			var cls string
			switch shape {
			case "far-only":
				cls = "far"
			case "short-only":
				cls = "short"
			case "mixed":
				cls = rapid.SampledFrom([]string{"far", "short", "none"}).Draw(rt, "cls")
			default:
				cls = rapid.SampledFrom([]string{"none", "short"}).Draw(rt, "cls")
			}
			cmd := []string{"SET", k, id}
			switch cls {
			case "far":
				cmd = append(cmd, "EX", "1000")
			case "short":
				ex := rapid.SampledFrom(shortEX).Draw(rt, "ex")
				f, _ := strconv.ParseFloat(ex, 64)
				if f > ec.MaxEX {
					ec.MaxEX = f
				}
				cmd = append(cmd, "EX", ex)
			}
			switch rapid.IntRange(0, 3).Draw(rt, "kind") {
			case 0:
				cmd = append(cmd, "STRING", "v"+id)
			case 1:
				cmd = append(cmd, "OBJECT", `{"type":"Polygon","coordinates":[[[1,1],[2,1],[2,2],[1,2],[1,1]]]}`)
			default:
				cmd = append(cmd, "POINT", strconv.Itoa(rapid.IntRange(-80, 80).Draw(rt, "lat")), strconv.Itoa(rapid.IntRange(-170, 170).Draw(rt, "lon")))
			}
			ec.Sets = append(ec.Sets, cmd)
			class[[2]string{k, id}] = cls
		}
	}
	for kid, cls := range class {
		if cls == "short" {
			ec.Short = append(ec.Short, kid)
		}
	}
	sort.Slice(ec.Short, func(i, j int) bool {
		return ec.Short[i][0]+"\x00"+ec.Short[i][1] < ec.Short[j][0]+"\x00"+ec.Short[j][1]
	})
	return ec
}

// runExpiryCase returns (nontrivial, abstract key, inconclusive reason).
func runExpiryCase(t ev.Failer, c *ev.Collector, ec expiryCase) (bool, string, string) {
	conn.MustDo("FLUSHDB")
	db := model.NewDB()
	failed := false
	fail := func(key, what string) {
		if failed {
			return
		}
		failed = true
		c.Fail(t, key, what, ec)
	}
	for _, cmd := range ec.Sets {
		exp := model.Exec(db, cmd)
		v := conn.MustDo(cmd...)
		if d := exp.CheckRESP(v); d != "" {
			fail("reply-mismatch:set", t38.CmdString(cmd)+": "+d)
		}
	}
	if len(ec.Short) == 0 {
		return false, "", ""
	}
	// the witness: set after every other object, with a deadline later than every short one, in the key
	// that sorts first. Once a sweep has removed it, the same sweep (one pass under the lock at an instant
	// not before the witness's deadline) has seen every short deadline as due.
	ex := strconv.FormatFloat(ec.MaxEX+0.05, 'f', 3, 64)
	if v := conn.MustDo("SET", canaryKey, "c", "EX", ex, "STRING", "w"); v.IsErr() {
		fail("c19-harness", "canary: "+v.String())
	}
	// prime every read path while the objects are still there and after the last client write (replies
	// are not judged: a short deadline may already have passed): whatever a read path caches must not
	// survive the sweep
	for _, k := range db.SortedKeys() {
		for _, q := range [][]string{{"STATS", k}, {"BOUNDS", k}, {"SCAN", k, "COUNT"}, {"SEARCH", k, "COUNT"},
			{"SCAN", k, "IDS"}, {"INTERSECTS", k, "COUNT", "BOUNDS", "-90", "-180", "90", "180"}, {"NEARBY", k, "IDS", "POINT", "0", "0"}} {
			conn.MustDo(q...)
		}
	}
	conn.MustDo("SERVER")
	conn.MustDo("SERVER", "ext")
	conn.MustDo("KEYS", "*")
	deadline := time.Now().Add(20 * time.Second)
	for {
		if v := conn.MustDo("EXISTS", canaryKey, "c"); v.Int == 0 {
			break
		}
		if time.Now().After(deadline) {
			return false, "", "the witness object was not swept within 20 s"
		}
		time.Sleep(10 * time.Millisecond)
	}
	for _, kid := range ec.Short {
		model.Exec(db, []string{"DEL", kid[0], kid[1]})
	}
	// every access path and counter must now agree with the survivors; a due object that is still
	// retrievable (or still counted) shows up as a state or counter mismatch
	checkAll(db, func(k, w string) {
		if k == "state-mismatch" {
			k = "expiry-path:due-object-not-removed"
		}
		fail(k, "after a sweep that removed the witness: "+w)
	})
	// nontrivial: a collection sorting before a collection with short deadlines keeps a far deadline
	var farBefore bool
	firstFar := ""
	for _, k := range db.SortedKeys() {
		for _, id := range db.SortedIDs(k) {
			if db.Cols[k][id].HasTTL && (firstFar == "" || k < firstFar) {
				firstFar = k
			}
		}
	}
	for _, kid := range ec.Short {
		if firstFar != "" && firstFar < kid[0] {
			farBefore = true
		}
	}
	var abs strings.Builder
	for _, cmd := range ec.Sets {
		hasEX := ""
		if cmd[3] == "EX" {
			hasEX = cmd[4]
		}
		fmt.Fprintf(&abs, "%s/%s/%s;", cmd[1], cmd[2], hasEX)
	}
	return farBefore, abs.String(), ""
}

func TestC19_ExpiryPath(t *testing.T) {
	c := ev.New("C19", "expiry-path", "exploration")
	t.Cleanup(c.Flush)
	c.Rule("2-5 collections (key order drawn independently of the deadlines) holding points, polygons and strings without a deadline, with a far deadline (EX 1000) and with short ones (EX 0.05-0.3 s), including collections that hold only far deadlines; a witness object with a later deadline is set last in a key that sorts first; once a sweep has removed the witness every short-deadline object must be gone from every access path and every counter (dump vs model, STATS/SERVER/BOUNDS/COUNT, SEARCH/INTERSECTS/NEARBY, VERIFAUDIT). No wall-clock threshold: a witness not swept within 20 s makes the case inconclusive. Non-trivial: a collection that sorts before one with short deadlines still holds a far deadline after the sweep; distinct by the sequence of (key, id, EX).")
	ev.Rapid("expiry-path", ev.Pick(40, 250))
	rapid.Check(t, func(rt *rapid.T) {
		ec := drawExpiryCase(rt)
		c.Case()
		nt, abs, inc := runExpiryCase(rt, c, ec)
		if inc != "" {
			c.Inconclusive("%s", inc)
			return
		}
		if nt {
			c.NonTrivial(abs)
			c.Label("far-deadline-in-earlier-key")
			if c.WantSample() {
				var s []string
				for _, cmd := range ec.Sets {
					s = append(s, t38.CmdString(cmd))
				}
				c.Sample(map[string]any{"sets": s, "short": ec.Short})
			}
		}
	})
}

// TestC19_BoundsPrecision: BOUNDS against recomputation when the objects that
// define an edge differ by less than one float32 ulp (the spatial index keys
// are float32) and when circle objects, whose index box is wider than their
// own rectangle, sit next to them.
func TestC19_BoundsPrecision(t *testing.T) {
	c := ev.New("C19", "bounds-precision", "exploration")
	t.Cleanup(c.Flush)
	c.Rule("programs of 4-14 commands on one collection: points whose coordinates are a drawn base plus 0-5 steps of 1e-8 degrees (several points share a float32 index key), rectangles, circle features of 1-500 km near them, overwrites and deletes; after every step the full counter/bounds/access-path comparison of the counters sub-check. Non-trivial: two objects within 1e-7 degrees define an edge, or a circle object is present; distinct by command sequence.")
	ev.Rapid("bounds-precision", ev.Pick(250, 2500))
	rapid.Check(t, func(rt *rapid.T) {
		baseLat := float64(rapid.IntRange(-80, 80).Draw(rt, "blat"))
		baseLon := float64(rapid.IntRange(-170, 170).Draw(rt, "blon"))
		near := func(base float64, label string) string {
			return strconv.FormatFloat(base+float64(rapid.IntRange(0, 5).Draw(rt, label))*1e-8, 'f', 8, 64)
		}
		var p program
		n := rapid.IntRange(4, 14).Draw(rt, "n")
		circle := false
		for i := 0; i < n; i++ {
			id := fmt.Sprintf("o%d", rapid.IntRange(0, 5).Draw(rt, "id"))
			switch rapid.IntRange(0, 9).Draw(rt, "kind") {
			case 0:
				p.Cmds = append(p.Cmds, []string{"DEL", "k1", id})
			case 1:
				circle = true
				r := rapid.SampledFrom([]string{"1000", "50000", "500000"}).Draw(rt, "r")
				p.Cmds = append(p.Cmds, []string{"SET", "k1", id, "OBJECT", fmt.Sprintf(`{"type":"Feature","geometry":{"type":"Point","coordinates":[%s,%s]},"properties":{"type":"Circle","radius":%s,"radius_units":"m"}}`, near(baseLon, "clon"), near(baseLat, "clat"), r)})
			case 2:
				p.Cmds = append(p.Cmds, []string{"SET", "k1", id, "BOUNDS", near(baseLat, "b1"), near(baseLon, "b2"), near(baseLat+1, "b3"), near(baseLon+1, "b4")})
			default:
				p.Cmds = append(p.Cmds, []string{"SET", "k1", id, "POINT", near(baseLat, "lat"), near(baseLon, "lon")})
			}
		}
		c.Case()
		runProgram(rt, c, p, true)
		var b strings.Builder
		for _, cmd := range p.Cmds {
			b.WriteString(strings.Join(cmd[:3], ",") + ";")
			if len(cmd) > 4 {
				b.WriteString(cmd[len(cmd)-1] + ";")
			}
		}
		c.NonTrivial(b.String())
		if circle {
			c.Label("circle-next-to-points")
		}
		if c.WantSample() {
			c.Sample(map[string]any{"cmds": gen.Describe(p.Cmds)})
		}
	})
}

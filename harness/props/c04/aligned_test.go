package c04

// Logs whose command boundaries fall exactly on multiples of the loader's
// 65535-byte read size (and 1-2 bytes beside them), with a straddling command
// in front and several reads behind, cut only sparsely: the whole (healthy,
// uncut) log, every item boundary, and a few bytes around every boundary and
// read edge. Targets the loader's carry-over logic between reads rather than
// the framing of a single torn command.

import (
	"fmt"
	"sort"
	"strconv"
	"testing"

	"github.com/tidwall/tile38/verif/harness/ev"
	"pgregory.net/rapid"
)

// alignedBuilder appends items while tracking the byte position.
type alignedBuilder struct {
	items []Item
	pos   int
	n     int
}

func (ab *alignedBuilder) add(it Item) {
	ab.items = append(ab.items, it)
	ab.pos += it.encLen()
}

func (ab *alignedBuilder) id(prefix string) string {
	ab.n++
	return prefix + strconv.Itoa(ab.n)
}

// small appends 0..max short commands / NUL runs; returns nothing.
func (ab *alignedBuilder) small(rt *rapid.T, label string, max int) {
	k := rapid.IntRange(0, max).Draw(rt, label)
	for i := 0; i < k; i++ {
		switch rapid.IntRange(0, 5).Draw(rt, label+"-kind") {
		case 0, 1:
			ab.add(cmdItem("SET", "al", ab.id("s"), "POINT", strconv.Itoa(rapid.IntRange(-80, 80).Draw(rt, "lat")), strconv.Itoa(rapid.IntRange(-170, 170).Draw(rt, "lon"))))
		case 2:
			ab.add(cmdItem("SET", "al", ab.id("s"), "FIELD", "f", strconv.Itoa(rapid.IntRange(0, 99999).Draw(rt, "fv")), "STRING", binString(rt, "sbin", 4)))
		case 3:
			ab.add(cmdItem("SET", "al\r\n", ab.id("\x00"), "STRING", binString(rt, "sbin", 6)))
		case 4:
			ab.add(Item{Nul: rapid.IntRange(1, 300).Draw(rt, "nul")})
		default:
			ab.add(cmdItem("SET", "al2", ab.id("e"), "EX", "500000", "HASH", "9tbnwg"))
		}
	}
}

func bigArg(rt *rapid.T, n int) Arg {
	p := rapid.SampledFrom(bigPatterns).Draw(rt, "pat")
	return Arg{Q: strconv.Quote(p), Rep: n / len(p), Pad: n % len(p)}
}

// big appends SET al <id> STRING <value of n bytes>.
func (ab *alignedBuilder) big(rt *rapid.T, n int) {
	ab.add(Item{Cmd: []Arg{lit("SET"), lit("al"), lit(ab.id("b")), lit("STRING"), bigArg(rt, n)}})
}

// bigTo appends a SET whose last byte is log offset target-1 (the command
// ends exactly at target). ok=false when the gap is too small or unreachable.
func (ab *alignedBuilder) bigTo(rt *rapid.T, target int) bool {
	want := target - ab.pos
	for _, id := range []string{ab.id("a"), ab.id("a") + "x"} {
		fixed := Item{Cmd: []Arg{lit("SET"), lit("al"), lit(id), lit("STRING")}}.encLen() // header counts 4 args; same digits for 5
		// value part: '$' digits CRLF value CRLF
		for d := 1; d <= 7; d++ {
			l := want - fixed - 1 - d - 2 - 2
			if l >= 1 && len(strconv.Itoa(l)) == d {
				it := Item{Cmd: []Arg{lit("SET"), lit("al"), lit(id), lit("STRING"), bigArg(rt, l)}}
				if it.encLen() != want {
					panic(fmt.Sprintf("aligned command has %d bytes, want %d", it.encLen(), want))
				}
				ab.add(it)
				return true
			}
		}
	}
	return false
}

var alignDeltas = []int{0, 0, 0, 0, 0, 1, -1, 2, -2}

// drawAligned draws a log with 1-3 command ends on (or 1-2 bytes beside)
// multiples k*65535, k in 1..5, each reached by a command padded to the exact
// length; fillers of 20-190 KB make sure earlier read edges fall inside a
// command (carry-over); behind the last aligned end a command straddles the
// next read edge and the log continues for at least one more read.
func drawAligned(rt *rapid.T) (*built, []int) {
	ab := &alignedBuilder{}
	var ks []int
	for k := 1; k <= 5; k++ {
		w := 3
		if k >= 2 {
			w = 5
		}
		if rapid.IntRange(0, 9).Draw(rt, fmt.Sprintf("k%d", k)) < w {
			ks = append(ks, k)
		}
	}
	if len(ks) == 0 {
		ks = []int{rapid.IntRange(2, 4).Draw(rt, "k")}
	}
	if len(ks) > 3 {
		ks = ks[:3]
	}
	var aligned []int
	ab.small(rt, "pre", 3)
	for _, k := range ks {
		target := k*chunkSize + rapid.SampledFrom(alignDeltas).Draw(rt, "delta")
		ab.small(rt, "gap", 2)
		for target-ab.pos > 190000 {
			ab.big(rt, rapid.IntRange(20000, 150000).Draw(rt, "filler"))
		}
		if target-ab.pos < 80 {
			continue
		}
		// sometimes the aligned command itself is short and the carry-over
		// into its read comes from a filler that ends shortly before it
		if gap := target - ab.pos; gap > 70000 && rapid.IntRange(0, 2).Draw(rt, "short?") == 0 {
			short := rapid.IntRange(80, 3000).Draw(rt, "short")
			if !ab.bigTo(rt, target-short) {
				continue
			}
		}
		if ab.bigTo(rt, target) {
			aligned = append(aligned, target)
		}
	}
	// behind the last aligned end: a few small items (the offset of the next
	// partial command inside its read), a command that straddles the next
	// read edge, and a tail
	ab.small(rt, "off", 3)
	ab.big(rt, rapid.IntRange(66000, 150000).Draw(rt, "straddler"))
	ab.small(rt, "mid", 2)
	switch rapid.IntRange(0, 3).Draw(rt, "tail") {
	case 0:
	case 1:
		ab.big(rt, rapid.IntRange(30000, 100000).Draw(rt, "tailbig"))
	default:
		// the log ends a few bytes behind a read edge: the last read is much
		// shorter than the partial command carried into it
		next := (ab.pos/chunkSize + 1) * chunkSize
		if next-ab.pos < 200 {
			next += chunkSize
		}
		d := rapid.SampledFrom([]int{0, 1, 2, 7, 40, 300}).Draw(rt, "enddelta")
		if ab.bigTo(rt, next+d) && d == 0 {
			aligned = append(aligned, next)
		}
	}
	b, err := build(Log{Items: ab.items})
	if err != nil {
		panic("aligned generator produced an inconsistent log: " + err.Error())
	}
	if len(b.bytes) != ab.pos {
		panic("aligned generator lost track of the position")
	}
	return b, aligned
}

// sparseCuts: the whole log, every item boundary and read edge, +-2 bytes
// around each, and a few extra offsets.
func sparseCuts(b *built, extra []int) []int {
	return windowCuts(b, 2, extra)
}

func TestC04_Aligned(t *testing.T) {
	c := ev.New("C04", "aligned", "fault_enumeration")
	t.Cleanup(c.Flush)
	c.Rule("logs of 130 KB..600 KB built so that 1-3 commands END exactly on a multiple k*65535 (k=1..5) of the loader's read size, or 1-2 bytes beside it (the value length is padded to the byte), with filler commands of 20-190 KB so that earlier read edges fall inside a command, short commands / NUL runs right behind the aligned end, then a command that straddles the next read edge and a tail (none, another large command, or a command padded so that the log ends 0/1/2/7/40/300 bytes behind a read edge: last read shorter than the carried partial). Cuts: the UNCUT log (cut == len: healthy log, nothing to repair), every item boundary (healthy prefixes loaded in several reads), +-2 bytes around every boundary and every multiple of 65535, and 12 random offsets." + ruleCommon)
	c.Assume("hooks and channels are modelled by dump (live reference server)")
	var ss subState
	ev.Rapid("aligned", ev.Pick(6, 8))
	rapid.Check(t, func(rt *rapid.T) {
		b, aligned := drawAligned(rt)
		extra := rapid.SliceOfN(rapid.IntRange(0, len(b.bytes)), 12, 12).Draw(rt, "randomcuts")
		if len(aligned) > 0 {
			c.Label(fmt.Sprintf("log-with-%d-aligned-command-ends", len(aligned)))
			sort.Ints(aligned)
			for _, a := range aligned {
				c.Label(fmt.Sprintf("aligned-at-k=%d", (a+2)/chunkSize))
			}
		}
		checkLog(rt, c, &ss, b, sparseCuts(b, extra), nil)
	})
}

package c04

// Execution of one crash point: write log[:cut] as appendonly.aof, start the
// real server on it, compare file/state with the oracle, append one more SET,
// stop cleanly, restart, compare again. The clean stop (~0.8 s of idle
// waiting) runs in the background so that thousands of offsets fit in the
// quick tier; the number of live in-process servers is bounded.

import (
	"bytes"
	"encoding/json"
	"errors"
	"fmt"
	"os"
	"path/filepath"
	"sort"
	"strconv"
	"strings"
	"sync"
	"sync/atomic"
	"syscall"

	"github.com/tidwall/tile38/verif/harness/ev"
	"github.com/tidwall/tile38/verif/harness/t38"
)

var (
	liveTokens = make(chan struct{}, poolSize()) // bound on live in-process servers (running or shutting down)
	bgStops    sync.WaitGroup                    // final shutdowns + directory removal
)

// poolSize: a server holds its slot for ~1.7 s (two shutdowns of ~0.8 s), so the
// slot count bounds the throughput; every slot costs a few MB. Parallel
// shards share the machine and get a smaller pool each.
func poolSize() int {
	if ev.Shards() > 1 {
		return 64
	}
	return 256
}

// configMode is a persisted server configuration the torn log is started
// under: the config file written next to the log, and the command that takes
// the running server back to an ordinary read/write leader. The oracle is the
// same in every mode: the start-up itself must have cut the file back.
type configMode struct {
	config string   // content of <dir>/config before the first start
	exit   []string // sent (and must answer +OK) before reads/writes are possible
	auth   string   // password every connection has to present
}

var configModes = map[string]configMode{
	"":          {},
	"read-only": {config: `{"read_only":true}`, exit: []string{"READONLY", "no"}},
	// a follower whose leader is unreachable (nothing listens on port 1): the
	// start-up loads the local log like any other; reads are refused with
	// "catching up to leader" until FOLLOW no one
	"follower":    {config: `{"follow_host":"127.0.0.1","follow_port":1}`, exit: []string{"FOLLOW", "no", "one"}},
	"requirepass": {config: `{"requirepass":"c04-secret"}`, auth: "c04-secret"},
}

var modeCycle = []string{"", "read-only", "follower", "requirepass"}

func modeText(m string) string {
	if m == "" {
		return ""
	}
	return ", persisted config " + m
}

// authenticate presents the password of the mode, if any. refused != "" is a
// verdict (the server did not accept its own configured password).
func authenticate(conn *t38.Conn, mode string) (refused string, err error) {
	pw := configModes[mode].auth
	if pw == "" {
		return "", nil
	}
	v, err := conn.Do("AUTH", pw)
	if err != nil {
		return "", &hiccup{what: "AUTH: " + err.Error()}
	}
	if v.Kind != '+' || v.Str != "OK" {
		return fmt.Sprintf("AUTH with the configured password answered %s", v), nil
	}
	return "", nil
}

var probeCmd = []string{"SET", "c04:probe", "after-recovery", "POINT", "12.5", "-33.25"}

// failure is a violated oracle clause for one cut.
type failure struct {
	Mode string `json:"mode,omitempty"`
	Cut  int    `json:"cut"`
	Key  string `json:"key"`
	What string `json:"what"`
}

// hiccup is trouble that says nothing (yet) about the property: a foreign
// server on the chosen port, an I/O error of the harness, or a wait that ran
// into a time budget on a busy machine. The cut is retried; a hiccup that
// persists is reported as inconclusive - except when escalate names a
// violation key (a start or reply that hangs on every attempt).
type hiccup struct {
	what     string
	escalate string
}

func (h *hiccup) Error() string { return h.what }

// settle turns a persistent hiccup into its final verdict.
func settle(b *built, ci cutInfo, err error) (*failure, error) {
	if h, ok := err.(*hiccup); ok && h.escalate != "" {
		return &failure{Mode: ci.mode, Cut: ci.cut, Key: h.escalate, What: fmt.Sprintf("log %s cut %d (%s): on every one of the attempts: %s", b.id, ci.cut, ci.class, h.what)}, nil
	}
	return nil, err
}

// soft classifies an error of a client call: a reply that did not arrive
// within the 30 s hang budget is retried before it counts.
func soft(err error, key string) *hiccup {
	if errors.Is(err, t38.ErrHang) {
		return &hiccup{what: err.Error(), escalate: key}
	}
	return nil
}

// server identity: SERVER's id must be the server_id stored in the data
// directory's config file. t38.Start picks a port by bind/close/re-bind; when
// another process (or another in-process server) grabs the port in between,
// the readiness probe can reach a foreign server.
func verifyIdentity(dir string, conn *t38.Conn) (aofSize int, err error) {
	b, err := os.ReadFile(filepath.Join(dir, "config"))
	if err != nil {
		return 0, &hiccup{what: "no config file in data dir: " + err.Error()}
	}
	var cfg map[string]any
	if json.Unmarshal(b, &cfg) != nil {
		return 0, &hiccup{what: "unreadable config file"}
	}
	want, _ := cfg["server_id"].(string)
	id, sz, err := serverStats(conn)
	if err != nil {
		return 0, &hiccup{what: "SERVER: " + err.Error()}
	}
	if want == "" || id != want {
		return 0, &hiccup{what: fmt.Sprintf("connected to a foreign server (id %q, data dir has %q)", id, want)}
	}
	return sz, nil
}

func serverStats(conn *t38.Conn) (id string, aofSize int, err error) {
	v, err := conn.Do("SERVER")
	if err != nil {
		return "", 0, err
	}
	if v.Kind != '*' {
		return "", 0, fmt.Errorf("unexpected SERVER reply %s", v)
	}
	aofSize = -1
	for i := 0; i+1 < len(v.Arr); i += 2 {
		val := v.Arr[i+1]
		text := val.Str
		if val.Kind == ':' {
			text = strconv.FormatInt(val.Int, 10)
		}
		switch v.Arr[i].Str {
		case "id":
			id = text
		case "aof_size":
			n, perr := strconv.Atoi(text)
			if perr != nil {
				return "", 0, fmt.Errorf("aof_size %q", text)
			}
			aofSize = n
		}
	}
	if aofSize < 0 {
		return "", 0, fmt.Errorf("SERVER reply without aof_size: %s", v)
	}
	return id, aofSize, nil
}

var stopErrs atomic.Int64 // clean stops whose Serve returned a non-nil error

// startTrouble separates "the loader refused the file" (a verdict) from
// trouble of the launcher: no free port after five tries, or no readiness
// within t38's 60 s budget (retried; a start that never gets ready counts).
func startTrouble(err error) *hiccup {
	msg := err.Error()
	switch {
	case strings.Contains(msg, "address already in use"), strings.Contains(msg, "bind:"):
		return &hiccup{what: "start: " + msg}
	case strings.Contains(msg, "did not become ready"):
		return &hiccup{what: "start: " + msg, escalate: "start-hang"}
	}
	return nil
}

// Every in-process Serve leaves descriptors behind after it has returned:
// queue.db for good (buntdb is never closed), appendonly.aof until a finalizer
// closes it - measured 3.6 descriptors per cut (two server starts) at the end
// of a run. The budget of cuts per process is derived from RLIMIT_NOFILE
// (raised when the process is allowed to); running into it is reported as
// inconclusive instead of dying of EMFILE.
var (
	startBudget  atomic.Int64 // in slot acquisitions (one per cut attempt)
	budgetNoted  atomic.Bool
	serversStart atomic.Int64
)

func raiseFdLimit() {
	var lim syscall.Rlimit
	if syscall.Getrlimit(syscall.RLIMIT_NOFILE, &lim) != nil {
		startBudget.Store(1000)
		return
	}
	for _, want := range []uint64{1 << 20, 1 << 18, 1 << 16} {
		if lim.Cur >= want {
			break
		}
		nl := syscall.Rlimit{Cur: want, Max: want}
		if lim.Max > want {
			nl.Max = lim.Max
		}
		if syscall.Setrlimit(syscall.RLIMIT_NOFILE, &nl) == nil {
			break
		}
	}
	if syscall.Getrlimit(syscall.RLIMIT_NOFILE, &lim) == nil && lim.Cur < lim.Max {
		lim.Cur = lim.Max
		syscall.Setrlimit(syscall.RLIMIT_NOFILE, &lim)
	}
	syscall.Getrlimit(syscall.RLIMIT_NOFILE, &lim)
	b := (int64(lim.Cur) - int64(cap(liveTokens))*6 - 500) / 4
	if b < 200 {
		b = 200
	}
	startBudget.Store(b)
}

// budgetLeft reports whether another cut still fits.
func budgetLeft() bool { return serversStart.Load() < startBudget.Load() }

func acquire() { serversStart.Add(1); liveTokens <- struct{}{} }
func release() { <-liveTokens }

// retire shuts a server down in the background, then removes its directory
// and gives the token back.
func retire(srv *t38.Srv, conn *t38.Conn, dir string) {
	if conn != nil {
		conn.Close()
	}
	bgStops.Add(1)
	go func() {
		defer bgStops.Done()
		if srv != nil {
			srv.Stop()
		}
		if dir != "" {
			os.RemoveAll(dir)
		}
		release()
	}()
}

func describeSize(b *built, n int) string {
	for _, s := range b.segs {
		if s.start == n {
			return fmt.Sprintf("%d (start of item)", n)
		}
	}
	return strconv.Itoa(n)
}

// phase2 is the continuation of a cut after the acknowledged probe write.
type phase2 struct {
	srv     *t38.Srv
	dir     string
	content []byte // expected file content
	want    *state
	ci      cutInfo
}

// phase1 runs the recovery part of one cut. It returns a failure, or a
// hiccup error, or the continuation for the restart part.
func phase1(b *built, ci cutInfo) (*failure, *phase2, error) {
	c := ci.cut
	fail := func(key, format string, a ...any) (*failure, *phase2, error) {
		return &failure{Mode: ci.mode, Cut: c, Key: key, What: fmt.Sprintf("log %s cut %d (%s, %d complete commands before%s): ", b.id, c, ci.class, ci.k, modeText(ci.mode)) + fmt.Sprintf(format, a...)}, nil, nil
	}
	dir := t38.NewDir("c04")
	aof := filepath.Join(dir, "appendonly.aof")
	if err := os.WriteFile(aof, b.bytes[:c], 0o644); err != nil {
		os.RemoveAll(dir)
		return nil, nil, &hiccup{what: "write: " + err.Error()}
	}
	if cfg := configModes[ci.mode].config; cfg != "" {
		if err := os.WriteFile(filepath.Join(dir, "config"), []byte(cfg), 0o600); err != nil {
			os.RemoveAll(dir)
			return nil, nil, &hiccup{what: "write: " + err.Error()}
		}
	}
	t38.JournalNote(fmt.Sprintf("C04 start on log %s cut %d class %s config %q", b.id, c, ci.class, ci.mode))
	acquire()
	srv, err := t38.Start(t38.Opts{Dir: dir})
	if err != nil {
		retire(nil, nil, dir)
		if h := startTrouble(err); h != nil {
			return nil, nil, h
		}
		return fail("start-failed:"+ci.class, "server did not start on the torn log: %v", err)
	}
	conn, err := srv.Dial()
	if err != nil {
		retire(srv, nil, dir)
		return nil, nil, &hiccup{what: "dial: " + err.Error()}
	}
	done := func() { retire(srv, conn, dir) }
	if f, err := authenticate(conn, ci.mode); f != "" || err != nil {
		done()
		if err != nil {
			return nil, nil, err
		}
		return fail("config-auth-refused", "%s", f)
	}

	// (1) repaired file, as the start-up left it (read before the server is
	// taken out of its persisted read-only / follower mode)
	got, err := os.ReadFile(aof)
	if err != nil {
		done()
		return nil, nil, &hiccup{what: "read: " + err.Error()}
	}
	if exit := configModes[ci.mode].exit; exit != nil {
		v, err := conn.Do(exit...)
		if err != nil {
			done()
			return nil, nil, &hiccup{what: fmt.Sprintf("%v: %v", exit, err)}
		}
		if v.Kind != '+' || v.Str != "OK" {
			done()
			return fail("config-exit-refused", "%v answered %s", exit, v)
		}
	}
	aofsz, err := verifyIdentity(dir, conn)
	if err != nil {
		done()
		return nil, nil, err
	}
	if configModes[ci.mode].exit != nil {
		again, err := os.ReadFile(aof)
		if err != nil {
			done()
			return nil, nil, &hiccup{what: "read: " + err.Error()}
		}
		if !bytes.Equal(again, got) {
			done()
			return fail("file-changed-by-mode-switch", "%v changed the log: %d bytes before, %d after, first difference at %d", configModes[ci.mode].exit, len(got), len(again), firstDiff(again, got))
		}
	}
	switch {
	case len(got) > c:
		done()
		return fail("file-grew-during-recovery", "%d bytes were written as appendonly.aof, the file has %d bytes after start; it ends in %q", c, len(got), tailOf(got, 160))
	case len(got) > ci.hi:
		done()
		return fail("file-not-cut-back", "file is %d bytes after start, want %s (torn bytes left in place)", len(got), describeSize(b, ci.hi))
	case len(got) < ci.lo:
		done()
		return fail("file-cut-too-far", "file is %d bytes after start, want %s: complete commands were cut off", len(got), describeSize(b, ci.lo))
	case !bytes.Equal(got, b.bytes[:len(got)]):
		done()
		return fail("file-content-changed", "the first %d bytes of the file changed during recovery", len(got))
	}
	kept := len(got)
	if aofsz != kept {
		done()
		return fail("aofsz-mismatch:after-start", "server reports aof_size %d, file has %d bytes", aofsz, kept)
	}

	// (2) recovered state
	d, err := t38.TakeDumpOn(conn)
	if err != nil {
		done()
		if h := soft(err, "hang:dump-after-start"); h != nil {
			return nil, nil, h
		}
		return fail("dump-failed:after-start", "cannot read the state after recovery: %v", err)
	}
	if diff := b.states[ci.k].diff(d); diff != "" {
		done()
		return fail("state-after-recovery", "dataset differs from the replay of the %d complete commands (A=model, B=server): %s", ci.k, diff)
	}

	// (3) one more acknowledged write goes right behind the kept bytes
	v, err := conn.Do(probeCmd...)
	if err != nil || v.Kind != '+' || v.Str != "OK" {
		done()
		if h := soft(err, "hang:probe-write"); h != nil {
			return nil, nil, h
		}
		return fail("probe-write-refused", "SET after recovery answered %s %v", v, err)
	}
	enc := t38.EncodeCmd(probeCmd...)
	want := append(append([]byte{}, got...), enc...)
	got2, err := os.ReadFile(aof)
	if err != nil {
		done()
		return nil, nil, &hiccup{what: "read: " + err.Error()}
	}
	if !bytes.Equal(got2, want) {
		done()
		return fail("append-misplaced", "after the acknowledged SET the file has %d bytes, want %d (%d kept + %d); first difference at offset %d", len(got2), len(want), kept, len(enc), firstDiff(got2, want))
	}
	_, aofsz2, err := serverStats(conn)
	if err == nil && aofsz2 != len(want) {
		done()
		return fail("aofsz-mismatch:after-append", "server reports aof_size %d, file has %d bytes", aofsz2, len(want))
	}
	after := b.states[ci.k].clone()
	if !after.apply(probeCmd) {
		panic("probe command not accepted by the model")
	}
	conn.Close()
	return nil, &phase2{srv: srv, dir: dir, content: want, want: after, ci: ci}, nil
}

func firstDiff(a, b []byte) int {
	n := len(a)
	if len(b) < n {
		n = len(b)
	}
	for i := 0; i < n; i++ {
		if a[i] != b[i] {
			return i
		}
	}
	return n
}

// run stops the first server cleanly, restarts on the same directory and
// checks that the acknowledged write survived. It owns the live token.
func (p *phase2) run(b *built) (*failure, error) {
	c := p.ci.cut
	fail := func(key, format string, a ...any) (*failure, error) {
		return &failure{Mode: p.ci.mode, Cut: c, Key: key, What: fmt.Sprintf("log %s cut %d (%s%s), second restart: ", b.id, c, p.ci.class, modeText(p.ci.mode)) + fmt.Sprintf(format, a...)}, nil
	}
	aof := filepath.Join(p.dir, "appendonly.aof")
	if err := p.srv.Stop(); err != nil {
		if strings.Contains(err.Error(), "did not stop within") {
			// still running and holding the directory: abandon this attempt
			release()
			return nil, &hiccup{what: "clean stop: " + err.Error()}
		}
		// Serve's return value on shutdown is not what this property is about;
		// the file and the restart below are.
		stopErrs.Add(1)
	}
	got, err := os.ReadFile(aof)
	if err != nil {
		retire(nil, nil, p.dir)
		return nil, &hiccup{what: "read: " + err.Error()}
	}
	if !bytes.Equal(got, p.content) {
		retire(nil, nil, p.dir)
		return fail("file-changed-by-shutdown", "file has %d bytes after the clean stop, want %d; first difference at %d", len(got), len(p.content), firstDiff(got, p.content))
	}
	t38.JournalNote(fmt.Sprintf("C04 second start on log %s cut %d", b.id, c))
	srv, err := t38.Start(t38.Opts{Dir: p.dir})
	if err != nil {
		retire(nil, nil, p.dir)
		if h := startTrouble(err); h != nil {
			return nil, h
		}
		return fail("restart-failed", "server did not start on the repaired log + 1 command: %v", err)
	}
	conn, err := srv.Dial()
	if err != nil {
		retire(srv, nil, p.dir)
		return nil, &hiccup{what: "dial: " + err.Error()}
	}
	done := func() { retire(srv, conn, p.dir) }
	if f, err := authenticate(conn, p.ci.mode); f != "" || err != nil {
		done()
		if err != nil {
			return nil, err
		}
		return fail("config-auth-refused", "%s", f)
	}
	aofsz, err := verifyIdentity(p.dir, conn)
	if err != nil {
		done()
		return nil, err
	}
	got, err = os.ReadFile(aof)
	if err != nil {
		done()
		return nil, &hiccup{what: "read: " + err.Error()}
	}
	if !bytes.Equal(got, p.content) {
		done()
		return fail("file-changed-by-restart", "file has %d bytes after the second start, want %d; first difference at %d", len(got), len(p.content), firstDiff(got, p.content))
	}
	if aofsz != len(got) {
		done()
		return fail("aofsz-mismatch:after-restart", "server reports aof_size %d, file has %d bytes", aofsz, len(got))
	}
	d, err := t38.TakeDumpOn(conn)
	if err != nil {
		done()
		if h := soft(err, "hang:dump-after-restart"); h != nil {
			return nil, h
		}
		return fail("dump-failed:after-restart", "cannot read the state: %v", err)
	}
	if diff := p.want.diff(d); diff != "" {
		done()
		return fail("state-after-restart", "dataset differs from complete commands + the acknowledged SET (A=model, B=server): %s", diff)
	}
	done()
	return nil, nil
}

// runCutSync runs both parts of one cut (replay, shrinking, probes).
func runCutSync(b *built, c int, mode string) (*failure, error) {
	ci := b.info(c)
	ci.mode = mode
	for attempt := 0; ; attempt++ {
		f, p2, err := phase1(b, ci)
		if err == nil && f == nil {
			f, err = p2.run(b)
		}
		if err != nil && attempt < 3 {
			continue
		}
		if err != nil {
			return settle(b, ci, err)
		}
		return f, nil
	}
}

// runCuts runs every cut of the list with `workers` parallel recovery workers
// and background restarts. It returns the failures found (the run stops early
// after the first one) and the harness hiccups that persisted.
func runCuts(b *built, cuts []int, workers int, modeOf func(c int) string, visit func(ci cutInfo)) (fails []failure, hiccups []string, dispatched int) {
	var mu sync.Mutex
	var wg, wg2 sync.WaitGroup
	stop := false
	next := 0
	record := func(f *failure, err error, ci cutInfo) {
		mu.Lock()
		defer mu.Unlock()
		if f != nil {
			fails = append(fails, *f)
			stop = true
		}
		if err != nil {
			hiccups = append(hiccups, fmt.Sprintf("cut %d: %v", ci.cut, err))
		}
	}
	for w := 0; w < workers; w++ {
		wg.Add(1)
		go func() {
			defer wg.Done()
			for {
				mu.Lock()
				if stop || next >= len(cuts) {
					mu.Unlock()
					return
				}
				if !budgetLeft() {
					if !budgetNoted.Swap(true) {
						hiccups = append(hiccups, fmt.Sprintf("descriptor budget (%d cuts per process) used up: %d cuts of this log and everything after it were not run", startBudget.Load(), len(cuts)-next))
					}
					mu.Unlock()
					return
				}
				c := cuts[next]
				next++
				mu.Unlock()
				ci := b.info(c)
				if modeOf != nil {
					ci.mode = modeOf(c)
				}
				var f *failure
				var p2 *phase2
				var err error
				for attempt := 0; attempt < 4; attempt++ {
					f, p2, err = phase1(b, ci)
					if err == nil {
						break
					}
				}
				if err != nil {
					f, err = settle(b, ci, err)
				}
				if f != nil || err != nil {
					record(f, err, ci)
					continue
				}
				wg2.Add(1)
				go func() {
					defer wg2.Done()
					f, err := p2.run(b)
					if err != nil {
						// one synchronous retry of the whole cut
						f, err = runCutSync(b, ci.cut, ci.mode)
					}
					record(f, err, ci)
					if f == nil && err == nil {
						mu.Lock()
						visit(ci)
						mu.Unlock()
					}
				}()
			}
		}()
	}
	wg.Wait()
	wg2.Wait()
	sort.Slice(fails, func(i, j int) bool { return fails[i].Cut < fails[j].Cut })
	return fails, hiccups, next
}

// C04: a torn or padded log tail is repaired and loses nothing but the torn
// command. Logs are produced by the harness (model -> RESP), cut at byte
// offsets, and handed to the real server as appendonly.aof.
package c04

import (
	"encoding/json"
	"fmt"
	"os"
	"runtime"
	"runtime/debug"
	"sort"
	"strings"
	"testing"

	"github.com/tidwall/tile38/verif/harness/ev"
	"github.com/tidwall/tile38/verif/harness/gen"
	"github.com/tidwall/tile38/verif/harness/t38"
	"pgregory.net/rapid"
)

func TestMain(m *testing.M) {
	// hundreds of live in-process servers and 200 KB values: keep the heap from
	// ballooning between collections (soft limit, correctness does not depend on it)
	if ev.Shards() > 1 {
		debug.SetMemoryLimit(1500 << 20)
	} else {
		debug.SetMemoryLimit(3 << 30)
	}
	raiseFdLimit()
	if ev.Shards() > 1 {
		// parallel shards: do not flood the machine with runnable threads
		p := 4 * runtime.NumCPU() / ev.Shards()
		if p < 2 {
			p = 2
		}
		runtime.GOMAXPROCS(p)
	}
	code := m.Run()
	bgStops.Wait()
	if ents, err := os.ReadDir("/proc/self/fd"); err == nil {
		fmt.Fprintf(os.Stderr, "C04: %d descriptors open after %d cuts (budget %d cuts)\n", len(ents), serversStart.Load(), startBudget.Load())
		if os.Getenv("C04_FD_DEBUG") != "" {
			runtime.GC()
			kinds := map[string]int{}
			for _, e := range ents {
				l, _ := os.Readlink("/proc/self/fd/" + e.Name())
				if i := strings.LastIndex(l, "/"); i >= 0 && strings.HasPrefix(l, "/") {
					l = "FILE " + l[i+1:]
				} else if i := strings.Index(l, ":"); i >= 0 {
					l = l[:i]
				}
				kinds[l]++
			}
			fmt.Fprintln(os.Stderr, kinds)
		}
	}
	refMu.Lock()
	if refSrv != nil {
		refConn.Close()
		refSrv.Stop()
	}
	refMu.Unlock()
	os.Exit(code)
}

const workers = 8

// replayData is what a replay file carries.
type replayData struct {
	Log  Log    `json:"log"`
	Cut  int    `json:"cut"`
	Mode string `json:"mode,omitempty"` // persisted configuration, see configModes
}

// ---- generators --------------------------------------------------------------

var nasty = []string{"\r\n", "\x00", "\xff", "\r", "\n", "*3\r\n$3\r\nSET\r\n", "$5\r\n", "\x00\x00\x00", "+OK\r\n", "\xff\xfe\xfd", "a", "€", "$-1\r\n", "*0\r\n", " ", "\""}

func binString(rt *rapid.T, label string, maxPieces int) string {
	n := rapid.IntRange(1, maxPieces).Draw(rt, label+"-pieces")
	var sb strings.Builder
	for i := 0; i < n; i++ {
		if rapid.IntRange(0, 3).Draw(rt, label+"-raw?") == 0 {
			sb.Write(rapid.SliceOfN(rapid.Byte(), 1, 6).Draw(rt, label+"-raw"))
		} else {
			sb.WriteString(rapid.SampledFrom(nasty).Draw(rt, label))
		}
	}
	return sb.String()
}

var (
	binKeys = []string{"kb", "k\r\nb", "\x00\xff"}
	binIDs  = []string{"i", "\r\n", "\x00", "\xff\xfe", "$3\r\nabc\r\n", "i j"}
)

// binCmd draws a write over keys/ids/values that contain CR, LF, NUL and 0xff.
func binCmd(rt *rapid.T) []string {
	k := rapid.SampledFrom(binKeys).Draw(rt, "bkey")
	id := rapid.SampledFrom(binIDs).Draw(rt, "bid")
	switch rapid.IntRange(0, 11).Draw(rt, "bcmd") {
	case 0, 1, 2, 3, 4:
		args := []string{"SET", k, id}
		if rapid.IntRange(0, 2).Draw(rt, "bfield?") == 0 {
			args = append(args, "FIELD", "f", gen.FieldValue(rt))
		}
		if rapid.IntRange(0, 3).Draw(rt, "bex?") == 0 {
			args = append(args, "EX", gen.EX(rt))
		}
		return append(args, "STRING", binString(rt, "bval", 8))
	case 5:
		return []string{"FSET", k, id, "g", gen.FieldValue(rt)}
	case 6:
		return []string{"DEL", k, id}
	case 7:
		return []string{"EXPIRE", k, id, gen.EX(rt)}
	case 8:
		return []string{"PERSIST", k, id}
	case 9:
		return []string{"RENAME", k, rapid.SampledFrom(binKeys).Draw(rt, "bkey2")}
	case 10:
		return []string{"PDEL", k, "*"}
	default:
		return []string{"DROP", k}
	}
}

var hookDefs = [][]string{
	{"SETHOOK", "h1", "http://127.0.0.1:9/c04", "NEARBY", "k1", "FENCE", "POINT", "33", "-115", "5000"},
	{"SETHOOK", "h1", "http://127.0.0.1:9/other", "WITHIN", "k2", "FENCE", "DETECT", "enter,exit", "BOUNDS", "1", "2", "3", "4"},
	{"SETHOOK", "h2", "http://127.0.0.1:9/a,http://127.0.0.1:9/b", "META", "owner", "c04", "META", "note", "x y", "INTERSECTS", "k1", "FENCE", "OBJECT", `{"type":"Polygon","coordinates":[[[0,0],[4,0],[4,4],[0,4],[0,0]]]}`},
	{"SETHOOK", "h2", "http://127.0.0.1:9/c04", "EX", "500000", "NEARBY", "k3", "FENCE", "POINT", "1", "1", "100"},
	{"SETCHAN", "c1", "NEARBY", "k1", "FENCE", "POINT", "33", "-115", "5000"},
	{"SETCHAN", "c1", "WITHIN", "k2", "MATCH", "a*", "FENCE", "BOUNDS", "1", "2", "3", "4"},
	{"SETCHAN", "c2", "META", "m", "世", "INTERSECTS", "k3", "FENCE", "DETECT", "inside", "BOUNDS", "-10", "-10", "10", "10"},
	{"SETCHAN", "c2", "EX", "400000", "NEARBY", "k1", "FENCE", "POINT", "5", "5", "10"},
	{"DELHOOK", "h1"}, {"DELHOOK", "h2"}, {"DELCHAN", "c1"}, {"DELCHAN", "c2"},
	{"PDELHOOK", "h*"}, {"PDELCHAN", "*"}, {"PDELHOOK", "*2"},
}

type logOpts struct {
	maxBytes   int // stop adding commands beyond this size
	maxCmds    int
	nulMax     int // longest NUL run (0 = none)
	bigValues  int // how many large values to place
	bigMax     int
	binWeight  int // out of 10
	hookWeight int // out of 10
}

var bigPatterns = []string{"x", "ab\r\n", "\x00", "\xff\x00\r\n*1\r\n$1\r\n", "0123456789abcdef", "\r", "$9\r\n"}

// drawBig draws a value whose encoded command is likely to straddle one or
// more 65535-byte read chunks, often ending within a few bytes of a chunk edge.
func drawBig(rt *rapid.T, max int) Arg {
	p := rapid.SampledFrom(bigPatterns).Draw(rt, "bigpat")
	var n int
	switch rapid.IntRange(0, 3).Draw(rt, "bigclass") {
	case 0:
		n = chunkSize*rapid.IntRange(1, max/chunkSize).Draw(rt, "bigchunks") + rapid.IntRange(-120, 40).Draw(rt, "bigdelta")
	case 1:
		n = rapid.IntRange(60000, 70000).Draw(rt, "bignear")
	default:
		n = rapid.IntRange(20000, max).Draw(rt, "bigany")
	}
	if n > max {
		n = max
	}
	r := n / len(p)
	if r < 1 {
		r = 1
	}
	return rep(p, r)
}

// drawLog draws a log: a sequence of commands each of which changes the model
// state (what a server would have logged), with optional NUL runs at item
// boundaries.
func drawLog(rt *rapid.T, o logOpts) *built {
	ns := gen.DrawNames(rt)
	var items []Item
	st := newState()
	size, ncmd := 0, 0
	bigAt := map[int]bool{}
	for i := 0; i < o.bigValues; i++ {
		bigAt[rapid.IntRange(0, o.maxCmds-1).Draw(rt, "bigat")] = true
	}
	nul := func(where string) {
		if o.nulMax == 0 {
			return
		}
		if rapid.IntRange(0, 3).Draw(rt, "nul?"+where) != 0 {
			return
		}
		var n int
		switch rapid.IntRange(0, 2).Draw(rt, "nulclass") {
		case 0:
			n = rapid.IntRange(1, 3).Draw(rt, "nulshort")
		case 1:
			n = rapid.IntRange(1, min(o.nulMax, 64)).Draw(rt, "nulmid")
		default:
			n = rapid.IntRange(1, o.nulMax).Draw(rt, "nullong")
		}
		items = append(items, Item{Nul: n})
		size += n
	}
	nul("start")
	for attempts := 0; ncmd < o.maxCmds && size < o.maxBytes && attempts < o.maxCmds*12; attempts++ {
		var it Item
		w := rapid.IntRange(0, 9).Draw(rt, "class")
		switch {
		case bigAt[ncmd]:
			k := rapid.SampledFrom(ns.Keys).Draw(rt, "bigkey")
			id := rapid.SampledFrom(ns.IDs).Draw(rt, "bigid")
			it = Item{Cmd: []Arg{lit("SET"), lit(k), lit(id), lit("STRING"), drawBig(rt, o.bigMax)}}
		case w < o.hookWeight:
			it = cmdItem(rapid.SampledFrom(hookDefs).Draw(rt, "hook")...)
		case w < o.hookWeight+o.binWeight:
			it = cmdItem(binCmd(rt)...)
		default:
			it = cmdItem(gen.KeyspaceCmd(rt, ns)...)
		}
		args := it.args()
		if strings.EqualFold(args[0], "pdel") && !plainASCII(args[2]) {
			continue
		}
		if !st.apply(args) {
			continue
		}
		delete(bigAt, ncmd)
		items = append(items, it)
		size += len(t38.EncodeCmd(args...))
		ncmd++
		nul("between")
	}
	b, err := build(Log{Items: items})
	if err != nil {
		panic("generator produced an inconsistent log: " + err.Error())
	}
	return b
}

func plainASCII(s string) bool {
	for i := 0; i < len(s); i++ {
		if s[i] < 0x20 || s[i] > 0x7e {
			return false
		}
	}
	return true
}

// kindsLog is a fixed log with every logged command kind at least once.
func kindsLog() Log {
	c := cmdItem
	return Log{Items: []Item{
		c("SET", "k1", "a", "POINT", "33.5", "-115.25"),
		c("SET", "k1", "b", "FIELD", "f", "10", "FIELD", "g", `{"a":1}`, "EX", "300000", "POINT", "1", "2", "3"),
		c("SETHOOK", "h1", "http://127.0.0.1:9/c", "NEARBY", "k1", "FENCE", "POINT", "33", "-115", "5000"),
		c("SET", "k2", "a", "BOUNDS", "1", "2", "3", "4"),
		c("SET", "k2", "b", "HASH", "9tbnwg"),
		c("SETCHAN", "c1", "WITHIN", "k2", "FENCE", "BOUNDS", "1", "2", "3", "4"),
		c("SET", "k2", "c", "OBJECT", `{"type":"Feature","geometry":{"type":"Point","coordinates":[1,2]},"properties":{"n":"x"}}`),
		c("SET", "k3", "s", "STRING", "with\r\nnewline\x00and\xffbytes"),
		{Nul: 3},
		c("FSET", "k1", "a", "f", "1.5", "h", "abc"),
		c("EXPIRE", "k1", "a", "200000"),
		c("PERSIST", "k1", "b"),
		c("JSET", "k2", "c", "properties.tag", "t1"),
		c("JDEL", "k2", "c", "properties.n"),
		c("SETHOOK", "h2", "http://127.0.0.1:9/a,http://127.0.0.1:9/b", "META", "o", "c04", "INTERSECTS", "k1", "FENCE", "BOUNDS", "0", "0", "4", "4"),
		c("SETCHAN", "c2", "EX", "400000", "NEARBY", "k1", "FENCE", "POINT", "5", "5", "10"),
		c("DEL", "k2", "a"),
		c("PDEL", "k2", "b*"),
		c("RENAME", "k3", "k4"),
		c("RENAMENX", "k4", "k5"),
		c("DELHOOK", "h1"),
		c("DELCHAN", "c1"),
		{Nul: 1},
		c("SET", "k6", "x", "STRING", ""),
		c("DROP", "k6"),
		c("PDELHOOK", "h*"),
		c("SET", "k7", "y", "POINT", "0", "0"),
		c("PDELCHAN", "c*"),
		c("FLUSHDB"),
	}}
}

// ---- running one log -----------------------------------------------------------

// failed is set after the first violation of a sub-check: rapid's shrinking
// re-executes the property, which then fails again at once (the minimised
// case has been produced by shrinkFailure already).
type subState struct {
	failed *failure
	replay replayData
}

func checkLog(t ev.Failer, c *ev.Collector, ss *subState, b *built, cuts []int, modeOf func(c int) string) {
	if ss.failed != nil {
		c.Fail(t, ss.failed.Key, ss.failed.What, ss.replay)
	}
	t38.JournalNote("C04 log " + b.id + " " + mustJSON(b.log))
	visit := func(ci cutInfo) {
		c.Case()
		c.Label("class:" + ci.class)
		if ci.mode != "" {
			c.Label("config:" + ci.mode)
			if ci.inside {
				c.Label("config:" + ci.mode + ":torn")
			}
		}
		for _, l := range ci.labels {
			c.Label(l)
		}
		padded := false
		for _, l := range ci.labels {
			padded = padded || l == "padding"
		}
		if ci.inside {
			c.Label("torn:" + ci.cmdName)
			if c.WantSample() {
				c.Sample(map[string]any{"log": b.id, "log_bytes": len(b.bytes), "cut": ci.cut, "class": ci.class, "config": ci.mode, "labels": ci.labels,
					"torn_command": t38.CmdString(b.cmds[ci.k]), "offset_in_command": ci.relStart, "complete_before": ci.k, "file_after_recovery": ci.hi})
			}
		}
		if ci.inside || padded || ci.healthyMulti {
			c.NonTrivial(fmt.Sprintf("%s@%d/%s", b.id, ci.cut, ci.mode))
		}
	}
	var confirmed *failure
	for len(cuts) > 0 && confirmed == nil {
		fails, hiccups, dispatched := runCuts(b, cuts, workers, modeOf, visit)
		cuts = cuts[dispatched:]
		for _, h := range hiccups {
			c.Inconclusive("log %s: %s", b.id, h)
		}
		if n := stopErrs.Swap(0); n > 0 {
			c.Note("%d clean stops made Serve return a non-nil error (file and restart were still checked)", n)
		}
		// Recovery from a given file is deterministic: a verdict from the parallel
		// pipeline counts only if the same cut fails again when run on its own;
		// otherwise the remaining cuts of the log are resumed.
		for _, pf := range fails {
			for try := 0; try < 2 && confirmed == nil; try++ {
				nf, herr := runCutSync(b, pf.Cut, pf.Mode)
				if herr == nil && nf != nil {
					confirmed = nf
				}
			}
			if confirmed != nil {
				break
			}
			c.Inconclusive("not reproducible when re-run alone (twice): %s: %s", pf.Key, pf.What)
		}
		if !budgetLeft() {
			break
		}
	}
	if confirmed == nil {
		return
	}
	f, rd := shrinkFailure(b, *confirmed)
	ss.failed, ss.replay = &f, rd
	c.Fail(t, f.Key, f.What, rd)
}

func mustJSON(v any) string {
	b, _ := json.Marshal(v)
	return string(b)
}

// shrinkFailure minimises a failing (log, cut): everything behind the torn
// command is dropped, then earlier items are removed one at a time while the
// same violation key reproduces and the log stays consistent.
func shrinkFailure(b *built, f failure) (failure, replayData) {
	// index of the item that contains the cut (or the first item at/after it)
	itemIdx := len(b.segs)
	for i, s := range b.segs {
		if s.end > f.Cut || (s.start >= f.Cut) {
			itemIdx = i
			break
		}
	}
	rel := 0
	items := append([]Item{}, b.log.Items...)
	if itemIdx < len(b.segs) {
		rel = f.Cut - b.segs[itemIdx].start
		items = items[:itemIdx+1]
	}
	best, bestCut, bestF := items, f.Cut, f
	budget := 14
	for i := len(best) - 2; i >= 0 && budget > 0; i-- {
		cand := append(append([]Item{}, best[:i]...), best[i+1:]...)
		nb, err := build(Log{Items: cand})
		if err != nil {
			continue
		}
		cut := len(nb.bytes)
		if itemIdx < len(b.segs) {
			cut = nb.segs[len(nb.segs)-1].start + rel
		}
		budget--
		nf, herr := runCutSync(nb, cut, f.Mode)
		if herr == nil && nf != nil && nf.Key == f.Key {
			best, bestCut, bestF = cand, cut, *nf
		}
	}
	return bestF, replayData{Log: Log{Items: best}, Cut: bestCut, Mode: f.Mode}
}

// windowCuts returns every offset within +-radius of each boundary, plus extra.
func windowCuts(b *built, radius int, extra []int) []int {
	set := map[int]bool{}
	for _, x := range b.boundaries() {
		for c := x - radius; c <= x+radius; c++ {
			if c >= 0 && c <= len(b.bytes) {
				set[c] = true
			}
		}
	}
	for _, c := range extra {
		if c >= 0 && c <= len(b.bytes) {
			set[c] = true
		}
	}
	out := make([]int, 0, len(set))
	for c := range set {
		out = append(out, c)
	}
	sort.Ints(out)
	return out
}

func allCuts(b *built) []int {
	out := make([]int, len(b.bytes)+1)
	for i := range out {
		out[i] = i
	}
	return out
}

// rotateModes spreads the persisted configurations over the cuts of a log:
// offset c runs under modeCycle[(c + seed + shard) mod 4], so that four
// consecutive seeds (or shards) put every offset under every configuration.
func rotateModes(c int) string {
	i := (int64(c) + ev.BaseSeed() + int64(ev.Shard())) % int64(len(modeCycle))
	if i < 0 {
		i += int64(len(modeCycle))
	}
	return modeCycle[i]
}

const ruleConfig = " Persisted configuration is a dimension of the cuts in this sub-check: offset c is started with the config file of mode (c+seed+shard) mod 4 of {none, read_only:true, follow_host/follow_port of an unreachable leader, requirepass}; the file/aof_size oracle is evaluated on what the START-UP left behind, then the server is taken back to a read/write leader (READONLY no / FOLLOW no one must answer +OK and must not touch the log; AUTH on every connection) and the rest of the oracle is unchanged."

const ruleCommon = " For each cut c the file log[:c] is written as appendonly.aof into a fresh directory and the real server is started on it: it must start; the file must be cut back to the end of the last complete command (NUL padding in front of the torn command may stay: any length between the last complete command and the start of the torn one is accepted, and for a cut on a boundary / inside a NUL run the file must keep its length or lose only padding) with its kept bytes unchanged; SERVER aof_size must equal the file length; the dump (all keys, objects, fields, TTL flags, hooks, channels) must equal the model replay of the commands wholly before c; one more SET must be acknowledged and sit byte-exactly behind the kept bytes; after a clean stop and a second start the file must be unchanged and the dump must equal previous model + that SET. Non-trivial: the cut is strictly inside a command, or the cut file ends in / right behind NUL padding, or it ends on a command boundary but needs more than one 65535-byte read (healthy multi-read file, must come back unchanged) (classified: in the *n header, in a $n header, inside bulk data, between CR and LF, before the bulk CRLF, at an argument boundary; flags: read-chunk straddle, after a NUL run, binary bytes before the cut); distinct by (log digest, cut offset)."

// ---- sub-checks ----------------------------------------------------------------

// Every byte offset of a fixed log that contains every logged command kind.
func TestC04_Kinds(t *testing.T) {
	if ev.Shard() != 0 {
		t.Skip("fixed log: shard 0 only")
	}
	c := ev.New("C04", "kinds", "fault_enumeration")
	t.Cleanup(c.Flush)
	c.Rule("one fixed log with every logged command kind (SET point/pointz/bounds/hash/object/string with FIELD and EX, FSET, EXPIRE, PERSIST, JSET, JDEL, DEL, PDEL, RENAME, RENAMENX, DROP, FLUSHDB, SETHOOK, SETCHAN, DELHOOK, DELCHAN, PDELHOOK, PDELCHAN) and two short NUL runs; EVERY byte offset 0..len is a cut." + ruleConfig + ruleCommon)
	c.Assume("hooks and channels are modelled by dump: the expected HOOKS/CHANS entry is what a live reference server lists after executing the same SETHOOK/SETCHAN")
	b, err := build(kindsLog())
	if err != nil {
		t.Fatalf("fixed log is inconsistent: %v", err)
	}
	c.Exhaustive(true)
	var ss subState
	checkLog(t, c, &ss, b, allCuts(b), rotateModes)
	c.Note("kinds log: %d bytes, %d commands", len(b.bytes), len(b.cmds))
}

// Every byte offset of random small logs (<= 4 KB).
func TestC04_Exhaustive(t *testing.T) {
	c := ev.New("C04", "exhaustive", "fault_enumeration")
	t.Cleanup(c.Flush)
	c.Rule("random logs of at most 4 KB: model-consistent sequences of keyspace writes (gen.KeyspaceCmd filtered to commands that change the model), writes over keys/ids/values containing CR, LF, NUL, 0xff and RESP look-alikes, hook/channel commands, NUL runs of 1..64 bytes at item boundaries; EVERY byte offset 0..len is a cut." + ruleCommon)
	c.Assume("hooks and channels are modelled by dump (live reference server)")
	c.Exhaustive(true)
	var ss subState
	maxBytes := ev.Pick(500, 900)
	ev.Rapid("exhaustive", 2)
	rapid.Check(t, func(rt *rapid.T) {
		b := drawLog(rt, logOpts{maxBytes: maxBytes, maxCmds: ev.Pick(8, 14), nulMax: 64, binWeight: 3, hookWeight: 1})
		if len(b.bytes) > 4096 {
			rt.Skip("log larger than 4 KB")
		}
		checkLog(rt, c, &ss, b, allCuts(b), nil)
	})
}

// Large logs: values up to 200 KB so that commands straddle the loader's
// 65535-byte read chunks, long NUL runs; cuts around every boundary.
func TestC04_Chunks(t *testing.T) {
	if ev.Shards() > 1 && ev.Shard() == 0 {
		t.Skip("shard 0 spends its per-process descriptor budget on the fixed log; the other shards run this sub-check")
	}
	c := ev.New("C04", "chunks", "fault_enumeration")
	t.Cleanup(c.Flush)
	radius := ev.Pick(16, 24)
	nRandom := ev.Pick(30, 100)
	c.Rule(fmt.Sprintf("random logs with 1-3 STRING values of 20 KB..200 KB (lengths biased to land within +-120 bytes of a multiple of the loader's 65535-byte read size; patterns containing CR LF, NUL, 0xff, RESP look-alikes), ordinary and binary writes around them, NUL runs of 1..4096 bytes at item boundaries; cuts = every offset within +-%d bytes of every item boundary and of every multiple of 65535, plus %d random offsets.", radius, nRandom) + ruleConfig + ruleCommon)
	c.Assume("hooks and channels are modelled by dump (live reference server)")
	var ss subState
	ev.Rapid("chunks", 2)
	rapid.Check(t, func(rt *rapid.T) {
		b := drawLog(rt, logOpts{maxBytes: 600000, maxCmds: ev.Pick(5, 9), nulMax: 4096, bigValues: rapid.IntRange(1, 3).Draw(rt, "nbig"), bigMax: 200000, binWeight: 3, hookWeight: 1})
		extra := rapid.SliceOfN(rapid.IntRange(0, len(b.bytes)), nRandom, nRandom).Draw(rt, "randomcuts")
		checkLog(rt, c, &ss, b, windowCuts(b, radius, extra), rotateModes)
	})
}

// ---- replay ----------------------------------------------------------------------

func TestReplay(t *testing.T) {
	doc, ok := ev.ReplayFile()
	if !ok {
		t.Skip("no replay file")
	}
	c := ev.New("C04", "replay", "fault_enumeration")
	t.Cleanup(c.Flush)
	var rd replayData
	if err := json.Unmarshal(doc.Data, &rd); err != nil {
		t.Fatalf("bad replay data: %v", err)
	}
	b, err := build(rd.Log)
	if err != nil {
		t.Fatalf("replay log is inconsistent: %v", err)
	}
	c.Case()
	f, herr := runCutSync(b, rd.Cut, rd.Mode)
	if herr != nil {
		c.Inconclusive("%v", herr)
		t.Skipf("harness trouble: %v", herr)
	}
	if f != nil {
		c.Fail(t, f.Key, f.What, rd)
	}
}

package c04

// Harness-side description of an append-only log: commands (argument vectors,
// binary-safe, large values stored as pattern x repeat) interleaved with runs
// of NUL bytes at command boundaries; its byte encoding; the model state after
// every command; and the classification of every byte offset.

import (
	"crypto/sha1"
	"encoding/hex"
	"fmt"
	"sort"
	"strconv"
	"strings"
	"sync"

	"github.com/tidwall/tile38/verif/harness/model"
	"github.com/tidwall/tile38/verif/harness/t38"
)

const chunkSize = 0xFFFF // loadAOF reads the file in packets of this size

// Arg is one command argument: the Go-quoted text Q repeated Rep times
// (Rep 0 = once). Quoting keeps replay files ASCII and binary-safe.
type Arg struct {
	Q   string `json:"q"`
	Rep int    `json:"rep,omitempty"`
	Pad int    `json:"pad,omitempty"` // that many 'p' bytes appended (exact-length values)
}

func lit(s string) Arg { return Arg{Q: strconv.Quote(s)} }

func rep(s string, n int) Arg { return Arg{Q: strconv.Quote(s), Rep: n} }

func (a Arg) Val() string {
	s, err := strconv.Unquote(a.Q)
	if err != nil {
		panic("bad quoted argument " + a.Q)
	}
	if a.Rep > 1 {
		s = strings.Repeat(s, a.Rep)
	}
	if a.Pad > 0 {
		s += strings.Repeat("p", a.Pad)
	}
	return s
}

// size is len(a.Val()) without building the value.
func (a Arg) size() int {
	s, err := strconv.Unquote(a.Q)
	if err != nil {
		panic("bad quoted argument " + a.Q)
	}
	n := len(s)
	if a.Rep > 1 {
		n *= a.Rep
	}
	return n + a.Pad
}

// encLen is the length of the item's bytes in the log.
func (it Item) encLen() int {
	if len(it.Cmd) == 0 {
		return it.Nul
	}
	n := 1 + len(strconv.Itoa(len(it.Cmd))) + 2
	for _, a := range it.Cmd {
		l := a.size()
		n += 1 + len(strconv.Itoa(l)) + 2 + l + 2
	}
	return n
}

// Item is either a run of Nul zero bytes or a command.
type Item struct {
	Nul int   `json:"nul,omitempty"`
	Cmd []Arg `json:"cmd,omitempty"`
}

// Log is a generated append-only file.
type Log struct {
	Items []Item `json:"items"`
}

func cmdItem(args ...string) Item {
	it := Item{}
	for _, a := range args {
		it.Cmd = append(it.Cmd, lit(a))
	}
	return it
}

func (it Item) args() []string {
	out := make([]string, len(it.Cmd))
	for i, a := range it.Cmd {
		out[i] = a.Val()
	}
	return out
}

// seg is the byte extent of one item.
type seg struct {
	start, end int
	cmd        int // index into built.cmds, -1 for a NUL run
}

// state is the expected visible dataset.
type state struct {
	db    *model.DB
	hooks map[string]t38.HookInfo
	chans map[string]t38.HookInfo
}

func newState() *state {
	return &state{db: model.NewDB(), hooks: map[string]t38.HookInfo{}, chans: map[string]t38.HookInfo{}}
}

func (s *state) clone() *state {
	n := &state{db: s.db.Clone(), hooks: map[string]t38.HookInfo{}, chans: map[string]t38.HookInfo{}}
	for k, v := range s.hooks {
		n.hooks[k] = v
	}
	for k, v := range s.chans {
		n.chans[k] = v
	}
	return n
}

// apply executes one logged command on the expected state. ok=false means the
// command is not something a server would have logged in this state (outside
// the modelled grammar, an error reply, or no change) and the state is
// unchanged.
func (s *state) apply(args []string) (ok bool) {
	if len(args) == 0 {
		return false
	}
	switch strings.ToLower(args[0]) {
	case "sethook", "setchan":
		ch := strings.ToLower(args[0]) == "setchan"
		if len(args) < 2 {
			return false
		}
		info, err := learnHook(args)
		if err != nil {
			return false
		}
		m, other := s.hooks, s.chans
		if ch {
			m, other = s.chans, s.hooks
		}
		if _, clash := other[args[1]]; clash {
			return false
		}
		if old, has := m[args[1]]; has && hookEq(old, info) {
			return false
		}
		m[args[1]] = info
		return true
	case "delhook", "delchan":
		if len(args) != 2 {
			return false
		}
		m := s.hooks
		if strings.ToLower(args[0]) == "delchan" {
			m = s.chans
		}
		if _, has := m[args[1]]; !has {
			return false
		}
		delete(m, args[1])
		return true
	case "pdelhook", "pdelchan":
		if len(args) != 2 || !model.GlobValid(args[1]) {
			return false
		}
		m := s.hooks
		if strings.ToLower(args[0]) == "pdelchan" {
			m = s.chans
		}
		n := 0
		for name := range m {
			if model.GlobMatch(args[1], name) {
				delete(m, name)
				n++
			}
		}
		return n > 0
	}
	if n := strings.ToLower(args[0]); (n == "rename" || n == "renamenx") && len(args) == 3 {
		// the server refuses to rename from/onto a key that hooks or channels watch
		for _, m := range []map[string]t38.HookInfo{s.hooks, s.chans} {
			for _, h := range m {
				if h.Key == args[1] || h.Key == args[2] {
					return false
				}
			}
		}
	}
	probe := s.db.Clone()
	r := model.Exec(probe, args)
	if r.Unsupported || !r.Mutated || r.RESP.IsErr() {
		return false
	}
	model.Exec(s.db, args)
	if strings.ToLower(args[0]) == "flushdb" {
		// FLUSHDB also removes every hook and channel
		s.hooks = map[string]t38.HookInfo{}
		s.chans = map[string]t38.HookInfo{}
	}
	return true
}

func hookEq(a, b t38.HookInfo) bool {
	return fmt.Sprintf("%+v", a) == fmt.Sprintf("%+v", b)
}

// diff compares the expected state with a server dump ("" = equal). Objects
// that are plain text in the model are additionally compared byte for byte
// (t38.Dump.Diff goes through JSON, which folds invalid UTF-8).
func (s *state) diff(got *t38.Dump) string {
	if d := s.db.DiffDump(got); d != "" {
		return d
	}
	for k, col := range s.db.Cols {
		for id, o := range col {
			if o.Sem != nil {
				continue
			}
			if g := got.Keys[k][id].Object; g != o.Text {
				return fmt.Sprintf("%q/%q object bytes differ: model %s, server %s", k, id, short(o.Text), short(g))
			}
		}
	}
	want := t38.NewDump()
	want.Hooks, want.Chans = s.hooks, s.chans
	g := t38.NewDump()
	g.Hooks, g.Chans = got.Hooks, got.Chans
	return want.Diff(g)
}

func short(s string) string {
	if len(s) > 80 {
		return fmt.Sprintf("%q..(%d bytes, sha1 %s)", s[:80], len(s), digest([]byte(s))[:10])
	}
	return strconv.Quote(s)
}

func digest(b []byte) string {
	h := sha1.Sum(b)
	return hex.EncodeToString(h[:])
}

// ---- hooks are modelled by dump: what HOOKS/CHANS list after executing the
// command on a live reference server --------------------------------------

var (
	refMu    sync.Mutex
	refSrv   *t38.Srv
	refConn  *t38.Conn
	hookMemo = map[string]t38.HookInfo{}
)

func learnHook(args []string) (t38.HookInfo, error) {
	refMu.Lock()
	defer refMu.Unlock()
	memo := strings.Join(args, "\x01")
	if hi, ok := hookMemo[memo]; ok {
		return hi, nil
	}
	if refSrv == nil {
		s, err := t38.Start(t38.Opts{})
		if err != nil {
			return t38.HookInfo{}, err
		}
		refSrv = s
		refConn = s.MustDial()
	}
	for _, c := range [][]string{{"PDELHOOK", "*"}, {"PDELCHAN", "*"}} {
		if v, err := refConn.Do(c...); err != nil || v.IsErr() {
			return t38.HookInfo{}, fmt.Errorf("reference server: %v: %v %v", c, v, err)
		}
	}
	v, err := refConn.Do(args...)
	if err != nil {
		return t38.HookInfo{}, err
	}
	if v.IsErr() {
		return t38.HookInfo{}, fmt.Errorf("reference server refused %q: %s", args, v.Str)
	}
	d, err := t38.TakeDumpOn(refConn)
	if err != nil {
		return t38.HookInfo{}, err
	}
	m := d.Hooks
	if strings.ToLower(args[0]) == "setchan" {
		m = d.Chans
	}
	hi, ok := m[args[1]]
	if !ok {
		return t38.HookInfo{}, fmt.Errorf("reference server does not list %q after %q", args[1], args)
	}
	hookMemo[memo] = hi
	return hi, nil
}

// ---- built log -------------------------------------------------------------

type built struct {
	log    Log
	bytes  []byte
	segs   []seg
	cmds   [][]string
	cmdSeg []int    // cmds index -> segs index
	states []*state // states[k] = expected dataset after the first k commands
	region [][]byte // per command: class code of every byte of its encoding
	id     string   // short digest of the bytes
}

// build encodes the log and replays it on the model. It fails when a command
// is not one a server would have logged at that point.
func build(l Log) (*built, error) {
	b := &built{log: l}
	st := newState()
	b.states = append(b.states, st.clone())
	for i, it := range l.Items {
		if it.Nul > 0 && len(it.Cmd) == 0 {
			s := seg{start: len(b.bytes), cmd: -1}
			b.bytes = append(b.bytes, make([]byte, it.Nul)...)
			s.end = len(b.bytes)
			b.segs = append(b.segs, s)
			continue
		}
		if len(it.Cmd) == 0 || it.Nul != 0 {
			return nil, fmt.Errorf("item %d is neither a NUL run nor a command", i)
		}
		args := it.args()
		if !st.apply(args) {
			return nil, fmt.Errorf("item %d (%s) would not have been logged in this state", i, t38.CmdString(args))
		}
		enc := t38.EncodeCmd(args...)
		s := seg{start: len(b.bytes), cmd: len(b.cmds)}
		b.bytes = append(b.bytes, enc...)
		s.end = len(b.bytes)
		b.cmdSeg = append(b.cmdSeg, len(b.segs))
		b.segs = append(b.segs, s)
		b.cmds = append(b.cmds, args)
		b.region = append(b.region, regions(args, len(enc)))
		b.states = append(b.states, st.clone())
	}
	b.id = digest(b.bytes)[:12]
	return b, nil
}

// byte classes inside one encoded command; the class of a cut is the class of
// the first missing byte
const (
	rStar    = 'S' // "*n" header text or its CR missing
	rLF      = 'L' // the LF of a CRLF pair is missing: cut between CR and LF
	rArg     = 'A' // previous part complete, the '$' of the next argument missing
	rDollar  = 'D' // inside a "$n" header (digits or CR missing)
	rBulk    = 'B' // inside bulk data
	rTrailer = 'T' // bulk data complete, its CRLF missing entirely
)

var className = map[byte]string{
	rStar: "in-star-header", rLF: "between-cr-lf", rArg: "at-argument-boundary",
	rDollar: "in-dollar-header", rBulk: "in-bulk-data", rTrailer: "before-bulk-crlf",
}

func regions(args []string, n int) []byte {
	r := make([]byte, 0, n)
	fill := func(c byte, k int) {
		for i := 0; i < k; i++ {
			r = append(r, c)
		}
	}
	h := "*" + strconv.Itoa(len(args))
	fill(rStar, len(h)+1) // text and CR
	fill(rLF, 1)
	for _, a := range args {
		fill(rArg, 1) // '$'
		fill(rDollar, len(strconv.Itoa(len(a)))+1)
		fill(rLF, 1)
		fill(rBulk, len(a))
		fill(rTrailer, 1)
		fill(rLF, 1)
	}
	if len(r) != n {
		panic("region map does not match the encoding")
	}
	return r
}

// cutInfo is everything the oracle needs to know about a cut offset.
type cutInfo struct {
	cut      int
	k        int  // commands wholly before the cut
	lo, hi   int  // admissible file sizes after recovery (lo == hi unless NUL padding is involved)
	inside   bool // strictly inside a command
	class    string
	cmdName  string
	labels   []string
	relStart int // offset of the cut within the torn command

	healthyMulti bool // ends on a boundary and needs more than one read

	mode string // persisted configuration the server is started with ("" = none), see configModes
}

// info classifies a cut and adds the read geometry of the file log[:c]: how
// many 65535-byte reads the loader needs, whether the file is the whole log,
// whether it ends on a command boundary after a multi-read load (no tear at
// all), whether that boundary is a read boundary, and whether the partial
// command carried into the last read is longer than the last read itself.
func (b *built) info(c int) cutInfo {
	ci := b.info0(c)
	if c == len(b.bytes) {
		ci.labels = append(ci.labels, "uncut")
	}
	reads := (c + chunkSize - 1) / chunkSize
	switch {
	case reads >= 4:
		ci.labels = append(ci.labels, "reads:4+")
	case reads >= 2:
		ci.labels = append(ci.labels, fmt.Sprintf("reads:%d", reads))
	}
	if !ci.inside && reads >= 2 {
		ci.healthyMulti = true
		ci.labels = append(ci.labels, "no-tear-multi-read")
		if c%chunkSize == 0 {
			ci.labels = append(ci.labels, "no-tear-ends-on-read-edge")
		}
	}
	// command boundaries that coincide with a read boundary inside the file
	for _, s := range b.segs {
		if s.end > c {
			break
		}
		if s.cmd >= 0 && s.end%chunkSize == 0 && s.end/chunkSize >= 1 && s.end < c {
			ci.labels = append(ci.labels, "command-ends-on-read-edge-inside")
			break
		}
	}
	if reads >= 2 {
		lastStart := ((c - 1) / chunkSize) * chunkSize
		for _, s := range b.segs {
			if s.cmd >= 0 && s.start < lastStart && s.end > lastStart {
				if lastStart-s.start > c-lastStart {
					ci.labels = append(ci.labels, "last-read-shorter-than-carry")
				}
				break
			}
		}
	}
	return ci
}

func (b *built) info0(c int) cutInfo {
	ci := cutInfo{cut: c}
	lastEnd := 0 // end of the last complete command before the cut
	for i, s := range b.segs {
		if s.end <= c {
			if s.cmd >= 0 {
				ci.k = s.cmd + 1
				lastEnd = s.end
			}
			continue
		}
		if s.start >= c {
			break
		}
		// s.start < c < s.end
		if s.cmd < 0 {
			ci.class = "inside-nul-run"
			ci.lo, ci.hi = lastEnd, c
			ci.labels = append(ci.labels, "padding")
			return ci
		}
		ci.inside = true
		ci.k = s.cmd
		ci.relStart = c - s.start
		ci.cmdName = strings.ToLower(b.cmds[s.cmd][0])
		ci.class = className[b.region[s.cmd][c-s.start]]
		ci.lo, ci.hi = lastEnd, s.start
		if i > 0 && b.segs[i-1].cmd < 0 {
			ci.labels = append(ci.labels, "after-nul-run", "padding")
		}
		if s.start/chunkSize != (c-1)/chunkSize {
			ci.labels = append(ci.labels, "chunk-straddle")
		}
		if c%chunkSize == 0 {
			ci.labels = append(ci.labels, "cut-on-chunk-edge")
		}
		if ci.class == className[rBulk] || ci.class == className[rTrailer] {
			// does the partial bulk contain bytes that a line-based reader would trip over?
			part := b.bytes[s.start:c]
			if strings.ContainsAny(string(tailOf(part, 4096)), "\r\n\x00\xff") {
				ci.labels = append(ci.labels, "binary-bytes-before-cut")
			}
		}
		return ci
	}
	// on a boundary (0, between items, end of log)
	ci.class = "boundary"
	ci.lo, ci.hi = lastEnd, c
	if lastEnd != c {
		ci.class = "boundary-after-nul-run"
		ci.labels = append(ci.labels, "padding")
	}
	return ci
}

func tailOf(b []byte, n int) []byte {
	if len(b) > n {
		return b[len(b)-n:]
	}
	return b
}

// boundaries returns every item boundary and every read-chunk boundary of the log.
func (b *built) boundaries() []int {
	set := map[int]bool{0: true, len(b.bytes): true}
	for _, s := range b.segs {
		set[s.start] = true
		set[s.end] = true
	}
	for m := chunkSize; m <= len(b.bytes); m += chunkSize {
		set[m] = true
	}
	var out []int
	for v := range set {
		out = append(out, v)
	}
	sort.Ints(out)
	return out
}

func (b *built) describe() map[string]any {
	var cmds []string
	for _, it := range b.log.Items {
		if len(it.Cmd) == 0 {
			cmds = append(cmds, fmt.Sprintf("<%d NUL>", it.Nul))
		} else {
			cmds = append(cmds, t38.CmdString(it.args()))
		}
	}
	return map[string]any{"log": b.id, "bytes": len(b.bytes), "items": cmds}
}

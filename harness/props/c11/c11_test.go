// C11: cursor pagination is complete and duplicate-free. On an unchanging
// collection, re-issuing the same SCAN / SEARCH / WITHIN / INTERSECTS / NEARBY
// query with the returned CURSOR until it is 0 must yield exactly the sequence
// one unlimited query returns.
package c11

import (
	"encoding/json"
	"fmt"
	"os"
	"regexp"
	"strconv"
	"strings"
	"testing"

	"github.com/tidwall/tile38/verif/harness/ev"
	"github.com/tidwall/tile38/verif/harness/t38"
	"pgregory.net/rapid"
)

const big = "1000000000"

var (
	srv   *t38.Srv
	cResp *t38.Conn
	cJSON *t38.Conn
)

func TestMain(m *testing.M) {
	var err error
	srv, err = t38.Start(t38.Opts{})
	if err != nil {
		fmt.Fprintln(os.Stderr, "cannot start server:", err)
		os.Exit(2)
	}
	cResp = srv.MustDial()
	cJSON = srv.MustDial()
	if err := cJSON.SetJSON(true); err != nil {
		fmt.Fprintln(os.Stderr, "OUTPUT json:", err)
		os.Exit(2)
	}
	code := m.Run()
	srv.Stop()
	os.Exit(code)
}

type failer interface {
	Fatalf(format string, args ...any)
	Helper()
}

func must(args ...string) t38.Value {
	v, err := cResp.Do(args...)
	if err != nil {
		panic(fmt.Sprintf("transport error on %s: %v", t38.CmdString(args), err))
	}
	if v.IsErr() {
		panic(fmt.Sprintf("set-up command refused: %s -> %s", t38.CmdString(args), v.String()))
	}
	return v
}

// recycle bounds the size of the append-only file: every 5000 cases the
// server is replaced by a fresh one with an empty data directory.
var caseCount int

func recycle() {
	caseCount++
	if caseCount%5000 != 0 {
		return
	}
	cResp.Close()
	cJSON.Close()
	dir := srv.Dir
	srv.Stop()
	os.RemoveAll(dir)
	var err error
	srv, err = t38.Start(t38.Opts{})
	if err != nil {
		panic("cannot restart server: " + err.Error())
	}
	cResp = srv.MustDial()
	cJSON = srv.MustDial()
	if err := cJSON.SetJSON(true); err != nil {
		panic("OUTPUT json: " + err.Error())
	}
}

// dataset ------------------------------------------------------------------------

type objSpec struct {
	ID     string      `json:"id"`
	Kind   int         `json:"kind"` // 0 string, 1 point, 2 bounds, 3 polygon, 4 point with z, 5 long LineString, 6 MultiPoint, 7 big polygon
	Lat    int         `json:"lat"`  // hundredths of a degree
	Lon    int         `json:"lon"`
	Size   int         `json:"size"`
	Pts    [][2]int    `json:"pts,omitempty"` // kinds 5,6: lon,lat in hundredths of a degree
	Fields [][2]string `json:"fields,omitempty"`
}

func ptsText(pts [][2]int) string {
	ps := make([]string, len(pts))
	for i, p := range pts {
		ps[i] = "[" + deg(p[0]) + "," + deg(p[1]) + "]"
	}
	return strings.Join(ps, ",")
}

// ring is a closed axis-aligned rectangle ring (hundredths of a degree).
func ring(x0, y0, x1, y1 int) string {
	return fmt.Sprintf("[[%s,%s],[%s,%s],[%s,%s],[%s,%s],[%s,%s]]",
		deg(x0), deg(y0), deg(x1), deg(y0), deg(x1), deg(y1), deg(x0), deg(y1), deg(x0), deg(y0))
}

func deg(h int) string { return strconv.FormatFloat(float64(h)/100, 'f', -1, 64) }

func (o objSpec) setArgs(key string) []string {
	a := []string{"SET", key, o.ID}
	for _, f := range o.Fields {
		a = append(a, "FIELD", f[0], f[1])
	}
	switch o.Kind {
	case 0:
		a = append(a, "STRING", "v"+strconv.Itoa(o.Size)) // few distinct values: SEARCH order has ties broken by id
	case 1:
		a = append(a, "POINT", deg(o.Lat), deg(o.Lon))
	case 4:
		a = append(a, "POINT", deg(o.Lat), deg(o.Lon), strconv.Itoa(o.Size))
	case 2:
		a = append(a, "BOUNDS", deg(o.Lat), deg(o.Lon), deg(o.Lat+o.Size*50), deg(o.Lon+o.Size*50))
	case 5:
		a = append(a, "OBJECT", `{"type":"LineString","coordinates":[`+ptsText(o.Pts)+`]}`)
	case 6:
		a = append(a, "OBJECT", `{"type":"MultiPoint","coordinates":[`+ptsText(o.Pts)+`]}`)
	case 7:
		a = append(a, "OBJECT", `{"type":"Polygon","coordinates":[`+ring(o.Lon, o.Lat, o.Lon+(o.Size+2)*150, o.Lat+(o.Size+2)*120)+`]}`)
	default:
		x0, y0, x1, y1 := deg(o.Lon), deg(o.Lat), deg(o.Lon+o.Size*50+10), deg(o.Lat+o.Size*50+10)
		a = append(a, "OBJECT", fmt.Sprintf(`{"type":"Polygon","coordinates":[[[%s,%s],[%s,%s],[%s,%s],[%s,%s],[%s,%s]]]}`,
			x0, y0, x1, y0, x1, y1, x0, y1, x0, y0))
	}
	return a
}

var idPrefixes = []string{"a", "b", "c", "ab", "ba", ""}

func drawObjects(t *rapid.T) []objSpec {
	var n int
	switch rapid.IntRange(0, 9).Draw(t, "sizeclass") {
	case 0, 1, 2:
		n = rapid.IntRange(0, 12).Draw(t, "n")
	case 3, 4, 5, 6, 7:
		n = rapid.IntRange(13, 60).Draw(t, "n")
	default:
		// beyond 256 the iterators yield to the scheduler in the middle of a scan
		n = rapid.IntRange(61, ev.Pick(320, 700)).Draw(t, "n")
	}
	dup := rapid.Bool().Draw(t, "duplicate-positions")
	kinds := []int{0, 0, 0, 1, 1, 1, 2, 3, 4}
	if rapid.IntRange(0, 2).Draw(t, "spanning-objects") != 0 {
		// objects whose rectangle reaches over several degrees: candidates of
		// more than one part of a multi-part query area
		kinds = []int{0, 0, 1, 1, 1, 2, 3, 4, 5, 5, 5, 6, 6, 7}
	}
	objs := make([]objSpec, n)
	for i := range objs {
		o := objSpec{ID: rapid.SampledFrom(idPrefixes).Draw(t, "idp") + strconv.Itoa(i)}
		o.Kind = rapid.SampledFrom(kinds).Draw(t, "kind")
		if dup {
			// a handful of positions: many ties in NEARBY distance
			o.Lat = rapid.IntRange(-2, 2).Draw(t, "lat") * 100
			o.Lon = rapid.IntRange(-2, 2).Draw(t, "lon") * 100
		} else {
			o.Lat = rapid.IntRange(-1000, 1000).Draw(t, "lat")
			o.Lon = rapid.IntRange(-1000, 1000).Draw(t, "lon")
		}
		o.Size = rapid.IntRange(0, 6).Draw(t, "size")
		if o.Kind == 5 || o.Kind == 6 {
			np := rapid.IntRange(2, 4).Draw(t, "npts")
			x, y := o.Lon, o.Lat
			for j := 0; j < np; j++ {
				o.Pts = append(o.Pts, [2]int{x, y})
				x += rapid.IntRange(-900, 900).Draw(t, "dx")
				y += rapid.IntRange(-900, 900).Draw(t, "dy")
			}
		}
		if rapid.IntRange(0, 4).Draw(t, "hasf") != 0 {
			o.Fields = append(o.Fields, [2]string{"f", strconv.Itoa(rapid.IntRange(0, 5).Draw(t, "f"))})
		}
		if rapid.IntRange(0, 2).Draw(t, "hasg") != 0 {
			o.Fields = append(o.Fields, [2]string{"g", rapid.SampledFrom([]string{"x", "y", "Z"}).Draw(t, "g")})
		}
		objs[i] = o
	}
	return objs
}

// queries ------------------------------------------------------------------------

type query struct {
	Cmd     string     `json:"cmd"`
	Filters [][]string `json:"filters,omitempty"`
	Opts    []string   `json:"opts,omitempty"` // DESC / ASC / NOFIELDS / DISTANCE
	Output  []string   `json:"output"`         // IDS | OBJECTS | POINTS | BOUNDS | HASHES n
	Area    []string   `json:"area,omitempty"`
}

func (q query) args(cursor uint64, limit string) []string {
	a := []string{q.Cmd, "k"}
	for _, f := range q.Filters {
		a = append(a, f...)
	}
	if cursor > 0 {
		a = append(a, "CURSOR", strconv.FormatUint(cursor, 10))
	}
	a = append(a, "LIMIT", limit)
	a = append(a, q.Opts...)
	a = append(a, q.Output...)
	return append(a, q.Area...)
}

var matchPatterns = []string{"*", "a*", "b*", "ab*", "*1", "*[0-4]", "?[0-9]*", "[ab]*", "a?", "c1*", "[^a]*", "*a*", "\\a*", "ba[1-3]*"}

// SEARCH matches the values (v0..v6), not the ids
var valuePatterns = []string{"*", "v*", "v1*", "v[0-3]", "v?", "*[2-5]", "v[^0]*", "\\v*", "v3", "v[4-6]*"}

func drawFilter(t *rapid.T, cmd string) []string {
	switch rapid.IntRange(0, 10).Draw(t, "filter") {
	case 10:
		return []string{"WHEREEVAL", rapid.SampledFrom([]string{"return (FIELDS.f or 0) > 2", "return (FIELDS.f or 0) % 2 == 0", "return FIELDS.g == ARGV[1]"}).Draw(t, "lua"), "1", "x"}
	case 0, 1, 2, 3:
		if cmd == "SEARCH" {
			return []string{"MATCH", rapid.SampledFrom(valuePatterns).Draw(t, "vpattern")}
		}
		return []string{"MATCH", rapid.SampledFrom(matchPatterns).Draw(t, "pattern")}
	case 4, 5:
		lo := rapid.IntRange(0, 4).Draw(t, "wlo")
		hi := lo + rapid.IntRange(0, 3).Draw(t, "wspan")
		mn, mx := strconv.Itoa(lo), strconv.Itoa(hi)
		if rapid.IntRange(0, 3).Draw(t, "minx") == 0 {
			mn = "(" + mn
		}
		if rapid.IntRange(0, 3).Draw(t, "inf") == 0 {
			mx = "+inf"
		}
		return []string{"WHERE", "f", mn, mx}
	case 6:
		return []string{"WHERE", "f", rapid.SampledFrom([]string{"<", "<=", ">", ">=", "==", "!="}).Draw(t, "op"), strconv.Itoa(rapid.IntRange(0, 5).Draw(t, "opv"))}
	case 7:
		return []string{"WHEREIN", "f", "2", strconv.Itoa(rapid.IntRange(0, 5).Draw(t, "in1")), strconv.Itoa(rapid.IntRange(0, 5).Draw(t, "in2"))}
	case 8:
		return []string{"WHERE", "g", "==", rapid.SampledFrom([]string{"x", "y", "z", "0"}).Draw(t, "gval")}
	default:
		return []string{"WHERE", rapid.SampledFrom([]string{"f > 2", "f <= 1 || f == 4", "f != 0 && f < 4"}).Draw(t, "expr")}
	}
}

func drawArea(t *rapid.T, cmd string) []string {
	h := func(lbl string, lo, hi int) string { return deg(rapid.IntRange(lo, hi).Draw(t, lbl)) }
	if cmd == "NEARBY" {
		a := []string{"POINT", h("lat", -1200, 1200), h("lon", -1200, 1200)}
		if rapid.Bool().Draw(t, "radius?") {
			a = append(a, strconv.Itoa(rapid.IntRange(50, 1500).Draw(t, "km") * 1000))
		}
		return a
	}
	switch rapid.IntRange(0, 7).Draw(t, "areakind") {
	case 4, 5, 6, 7:
		return []string{"OBJECT", drawMultiPartArea(t)}
	case 0:
		return []string{"BOUNDS", "-90", "-180", "90", "180"}
	case 1:
		la, lo := rapid.IntRange(-1200, 800).Draw(t, "minlat"), rapid.IntRange(-1200, 800).Draw(t, "minlon")
		return []string{"BOUNDS", deg(la), deg(lo), deg(la + rapid.IntRange(0, 2000).Draw(t, "dlat")), deg(lo + rapid.IntRange(0, 2000).Draw(t, "dlon"))}
	case 2:
		return []string{"CIRCLE", h("lat", -1000, 1000), h("lon", -1000, 1000), strconv.Itoa(rapid.IntRange(50, 1500).Draw(t, "km") * 1000)}
	default:
		x0, y0 := rapid.IntRange(-1200, 800).Draw(t, "x0"), rapid.IntRange(-1200, 800).Draw(t, "y0")
		x1, y1 := x0+rapid.IntRange(1, 2000).Draw(t, "w"), y0+rapid.IntRange(1, 2000).Draw(t, "h")
		return []string{"OBJECT", fmt.Sprintf(`{"type":"Polygon","coordinates":[[[%s,%s],[%s,%s],[%s,%s],[%s,%s],[%s,%s]]]}`,
			deg(x0), deg(y0), deg(x1), deg(y0), deg(x1), deg(y1), deg(x0), deg(y1), deg(x0), deg(y0))}
	}
}

// drawMultiPartArea draws a query area made of several parts (or a polygon
// with a hole): the kinds for which a search may consult the index once per
// part. Lines in areas have a single segment (a multi-segment LineString area
// can send WITHIN into the listed known hang of the geometry library).
func drawMultiPartArea(t *rapid.T) string {
	c := func(lbl string) int {
		if rapid.IntRange(0, 3).Draw(t, lbl+"grid") == 0 {
			return rapid.IntRange(-3, 3).Draw(t, lbl) * 100 // on the grid the stacked datasets use
		}
		return rapid.IntRange(-1200, 1100).Draw(t, lbl)
	}
	square := func() string {
		x0, y0 := c("sx"), c("sy")
		return "[" + ring(x0, y0, x0+rapid.IntRange(50, 1000).Draw(t, "sw"), y0+rapid.IntRange(50, 1000).Draw(t, "sh")) + "]"
	}
	polygon := func() string { return `{"type":"Polygon","coordinates":` + square() + `}` }
	line := func() string {
		return `{"type":"LineString","coordinates":[[` + deg(c("lx0")) + "," + deg(c("ly0")) + "],[" + deg(c("lx1")) + "," + deg(c("ly1")) + `]]}`
	}
	point := func() string { return `{"type":"Point","coordinates":[` + deg(c("px")) + "," + deg(c("py")) + `]}` }
	list := func(lbl string, min, max int, f func() string) string {
		n := rapid.IntRange(min, max).Draw(t, lbl)
		xs := make([]string, n)
		for i := range xs {
			xs[i] = f()
		}
		return strings.Join(xs, ",")
	}
	anyGeom := func() string {
		switch rapid.IntRange(0, 3).Draw(t, "gkind") {
		case 0:
			return line()
		case 1:
			return point()
		}
		return polygon()
	}
	switch rapid.IntRange(0, 9).Draw(t, "multikind") {
	case 0, 1, 2:
		return `{"type":"MultiPolygon","coordinates":[` + list("nsq", 2, 6, square) + `]}`
	case 3:
		return `{"type":"GeometryCollection","geometries":[` + polygon() + "," + line() + "," + point() + `]}`
	case 4:
		return `{"type":"GeometryCollection","geometries":[` + list("ngeom", 2, 5, anyGeom) + `]}`
	case 5:
		return `{"type":"FeatureCollection","features":[` + list("nfeat", 2, 4, func() string {
			return `{"type":"Feature","geometry":` + anyGeom() + `,"properties":{}}`
		}) + `]}`
	case 6:
		return `{"type":"MultiLineString","coordinates":[` + list("nlines", 2, 4, func() string {
			return "[[" + deg(c("mx0")) + "," + deg(c("my0")) + "],[" + deg(c("mx1")) + "," + deg(c("my1")) + "]]"
		}) + `]}`
	case 7:
		return `{"type":"MultiPoint","coordinates":[` + list("nmp", 2, 6, func() string {
			return "[" + deg(c("qx")) + "," + deg(c("qy")) + "]"
		}) + `]}`
	case 8:
		return `{"type":"Feature","geometry":{"type":"MultiPolygon","coordinates":[` + list("nsq", 2, 6, square) + `]},"properties":{}}`
	default:
		// polygon with a hole
		x0, y0 := c("hx"), c("hy")
		w, h := rapid.IntRange(400, 1600).Draw(t, "hw"), rapid.IntRange(400, 1600).Draw(t, "hh")
		return `{"type":"Polygon","coordinates":[` + ring(x0, y0, x0+w, y0+h) + "," + ring(x0+w/4, y0+h/4, x0+w/2, y0+h/2) + `]}`
	}
}

func drawQuery(t *rapid.T) query {
	q := query{Cmd: rapid.SampledFrom([]string{"SCAN", "SCAN", "SEARCH", "WITHIN", "WITHIN", "INTERSECTS", "INTERSECTS", "NEARBY", "NEARBY"}).Draw(t, "cmd")}
	nf := rapid.SampledFrom([]int{0, 0, 1, 1, 1, 1, 2, 2, 3}).Draw(t, "nfilters")
	for i := 0; i < nf; i++ {
		q.Filters = append(q.Filters, drawFilter(t, q.Cmd))
	}
	ordered := q.Cmd == "SCAN" || q.Cmd == "SEARCH"
	if ordered {
		switch rapid.IntRange(0, 3).Draw(t, "order") {
		case 0, 1:
			q.Opts = append(q.Opts, "DESC")
		case 2:
			q.Opts = append(q.Opts, "ASC")
		}
	} else {
		q.Area = drawArea(t, q.Cmd)
	}
	outs := [][]string{{"IDS"}, {"IDS"}, {"OBJECTS"}, {"POINTS"}, {"BOUNDS"}, {"HASHES", "6"}}
	if q.Cmd == "SEARCH" {
		outs = [][]string{{"IDS"}, {"OBJECTS"}}
	}
	q.Output = rapid.SampledFrom(outs).Draw(t, "output")
	if rapid.IntRange(0, 3).Draw(t, "nofields") == 0 {
		q.Opts = append(q.Opts, "NOFIELDS")
	}
	if q.Cmd == "NEARBY" && rapid.Bool().Draw(t, "distance") {
		q.Opts = append(q.Opts, "DISTANCE")
	}
	return q
}

// one case ----------------------------------------------------------------------

type pageCase struct {
	Objs []objSpec `json:"objs"`
	Q    query     `json:"query"`
	// the LIMIT is chosen relative to the size r of the full result and the
	// collection size n: LimitSel 0..2 -> 1,2,3; 3..5 -> r-1,r,r+1; 6 -> n;
	// 7 -> n+1; otherwise 1 + LimitRand mod (r+1)
	LimitSel  int  `json:"limit_sel"`
	LimitRand int  `json:"limit_rand"`
	JSON      bool `json:"json"` // page through the JSON-mode connection (IDS output or NOFIELDS)
}

func (d pageCase) limit(r int) int {
	l := 1
	switch d.LimitSel {
	case 0, 1, 2:
		l = d.LimitSel + 1
	case 3:
		l = r - 1
	case 4:
		l = r
	case 5:
		l = r + 1
	case 6:
		l = len(d.Objs)
	case 7:
		l = len(d.Objs) + 1
	default:
		l = 1 + d.LimitRand%(r+1)
	}
	if l < 1 {
		l = 1
	}
	return l
}

// page is one reply: the items as comparable strings and the cursor.
type page struct {
	items  []string
	cursor uint64
}

func (d pageCase) jsonMode() bool {
	if !d.JSON {
		return false
	}
	if d.Q.Output[0] == "IDS" {
		return true
	}
	for _, o := range d.Q.Opts {
		if o == "NOFIELDS" {
			return true
		}
	}
	return false
}

func fetch(args []string, jsonMode bool, output string) (page, error) {
	if jsonMode {
		r, err := cJSON.DoJSON(args...)
		if err != nil {
			return page{}, fmt.Errorf("%s: %v", t38.CmdString(args), err)
		}
		if !r.OK {
			return page{}, fmt.Errorf("%s: error reply %s", t38.CmdString(args), r.Err)
		}
		var cur uint64
		if err := json.Unmarshal(r.M["cursor"], &cur); err != nil {
			return page{}, fmt.Errorf("%s: no cursor in %s", t38.CmdString(args), r.Raw)
		}
		var items []json.RawMessage
		if err := json.Unmarshal(r.M[strings.ToLower(output)], &items); err != nil {
			return page{}, fmt.Errorf("%s: no %s array in %s", t38.CmdString(args), strings.ToLower(output), r.Raw)
		}
		p := page{cursor: cur}
		for _, it := range items {
			p.items = append(p.items, string(it))
		}
		return p, nil
	}
	return fetchOn(cResp, args)
}

// fetchOn requests one page on a given RESP-mode connection.
func fetchOn(conn *t38.Conn, args []string) (page, error) {
	v, err := conn.Do(args...)
	if err != nil {
		return page{}, fmt.Errorf("%s: transport: %v", t38.CmdString(args), err)
	}
	if v.Kind != '*' || len(v.Arr) != 2 || v.Arr[0].Kind != ':' || v.Arr[1].Kind != '*' || v.Arr[0].Int < 0 {
		return page{}, fmt.Errorf("%s: not a [cursor, items] reply: %s", t38.CmdString(args), v.String())
	}
	p := page{cursor: uint64(v.Arr[0].Int)}
	for _, e := range v.Arr[1].Arr {
		p.items = append(p.items, e.String())
	}
	return p, nil
}

func runPageCase(t failer, c *ev.Collector, d pageCase) (labels []string, nontrivial bool, abstract string) {
	recycle()
	must("FLUSHDB")
	for _, o := range d.Objs {
		must(o.setArgs("k")...)
	}
	cmd := strings.ToLower(d.Q.Cmd)
	jm := d.jsonMode()
	out := d.Q.Output[0]
	full, err := fetch(d.Q.args(0, big), jm, out)
	if err != nil {
		c.Fail(t, "pagination:"+cmd+":reply", err.Error(), d)
	}
	if full.cursor != 0 {
		c.Fail(t, "pagination:"+cmd+":unlimited-cursor", fmt.Sprintf("%s returned cursor %d although the limit was not reached", t38.CmdString(d.Q.args(0, big)), full.cursor), d)
	}
	r := len(full.items)
	limit := d.limit(r)
	ls := strconv.Itoa(limit)

	var got []string
	var cursor uint64
	trips, pagesWithItems := 0, 0
	cursorAhead := false // some cursor exceeded the number of items returned so far
	emptyLast := false
	var trace []string
	for {
		if trips > r+2 {
			c.Fail(t, "pagination:"+cmd+":livelock", fmt.Sprintf("%s LIMIT %d: still a non-zero cursor after %d round trips for a result of %d items (cursors %s)",
				t38.CmdString(d.Q.args(0, "L")), limit, trips, r, strings.Join(trace, ",")), d)
		}
		p, err := fetch(d.Q.args(cursor, ls), jm, out)
		trips++
		if err != nil {
			c.Fail(t, "pagination:"+cmd+":reply", err.Error(), d)
		}
		if len(p.items) > limit {
			c.Fail(t, "pagination:"+cmd+":page-too-long", fmt.Sprintf("%s returned %d items", t38.CmdString(d.Q.args(cursor, ls)), len(p.items)), d)
		}
		if p.cursor != 0 && p.cursor <= cursor {
			c.Fail(t, "pagination:"+cmd+":cursor-not-advancing", fmt.Sprintf("%s returned cursor %d", t38.CmdString(d.Q.args(cursor, ls)), p.cursor), d)
		}
		got = append(got, p.items...)
		trace = append(trace, strconv.FormatUint(p.cursor, 10))
		if len(p.items) > 0 {
			pagesWithItems++
		} else if p.cursor == 0 && trips > 1 {
			emptyLast = true
		}
		if p.cursor != 0 && p.cursor > uint64(len(got)) {
			cursorAhead = true
		}
		cursor = p.cursor
		if cursor == 0 {
			break
		}
		if len(got) > r+limit {
			break // already longer than the full result: reported below
		}
	}
	if class, what := compare(got, full.items); class != "" {
		c.Fail(t, "pagination:"+cmd+":"+class, fmt.Sprintf("%s paged with LIMIT %d (cursors %s): %s", t38.CmdString(d.Q.args(0, "L")), limit, strings.Join(trace, ","), what), d)
	}

	labels = append(labels, "cmd:"+d.Q.Cmd, "output:"+out)
	if len(d.Q.Area) == 2 && d.Q.Area[0] == "OBJECT" {
		if m := areaTypeRE.FindStringSubmatch(d.Q.Area[1]); m != nil {
			labels = append(labels, "area:"+m[1])
			if m[1] != "Polygon" || strings.Count(d.Q.Area[1], "[[[") == 0 || strings.Contains(d.Q.Area[1], "]],[[") {
				if pagesWithItems >= 2 {
					labels = append(labels, "multi-part-area-paged-over-2+-pages")
				}
			}
		}
	} else if len(d.Q.Area) > 0 {
		labels = append(labels, "area:"+d.Q.Area[0])
	}
	for _, o := range d.Objs {
		if o.Kind >= 5 {
			labels = append(labels, "dataset-has-spanning-objects")
			break
		}
	}
	if jm {
		labels = append(labels, "json-mode")
	}
	for _, f := range d.Q.Filters {
		labels = append(labels, "filter:"+f[0])
	}
	for _, o := range d.Q.Opts {
		labels = append(labels, "opt:"+o)
	}
	if r > 0 && r%limit == 0 {
		labels = append(labels, "limit-hits-end-exactly")
	}
	if emptyLast {
		labels = append(labels, "empty-last-page")
	}
	if limit > r {
		labels = append(labels, "limit-above-result")
	}
	if cursorAhead {
		labels = append(labels, "cursor-ahead-of-returned-items")
	}
	if pagesWithItems >= 2 {
		labels = append(labels, "two-or-more-pages")
	}
	if len(d.Objs) > 256 {
		labels = append(labels, "collection>256")
	}
	if r == 0 {
		labels = append(labels, "empty-result")
	}
	nontrivial = pagesWithItems >= 2 && cursorAhead
	abstract = fmt.Sprintf("%s|L%d|r%d|n%d|%s", t38.CmdString(d.Q.args(0, "L")), limit, r, len(d.Objs), strings.Join(trace, ","))
	return labels, nontrivial, abstract
}

// compare classifies the first difference between the concatenated pages and
// the full result.
func compare(got, full []string) (class, what string) {
	n := len(got)
	if len(full) < n {
		n = len(full)
	}
	for i := 0; i < n; i++ {
		if got[i] == full[i] {
			continue
		}
		for j := 0; j < i; j++ {
			if got[j] == got[i] {
				return "duplicate", fmt.Sprintf("item %d of the pages %s repeats item %d; the full result has %s there (%d paged items, %d in the full result)", i, clip(got[i]), j, clip(full[i]), len(got), len(full))
			}
		}
		for j := i + 1; j < len(full); j++ {
			if full[j] == got[i] {
				return "skip", fmt.Sprintf("the pages skip %d item(s) of the full result starting at position %d (%s)", j-i, i, clip(full[i]))
			}
		}
		return "different-item", fmt.Sprintf("position %d: pages have %s, full result has %s", i, clip(got[i]), clip(full[i]))
	}
	switch {
	case len(got) < len(full):
		return "early-zero-cursor", fmt.Sprintf("cursor 0 after %d of %d items; first missing %s", len(got), len(full), clip(full[len(got)]))
	case len(got) > len(full):
		return "extra-items", fmt.Sprintf("%d paged items but the full result has %d; first extra %s", len(got), len(full), clip(got[len(full)]))
	}
	return "", ""
}

var areaTypeRE = regexp.MustCompile(`^\{"type":"(\w+)"`)

func clip(s string) string {
	if len(s) > 120 {
		return s[:120] + "..."
	}
	return s
}

func TestC11_Pagination(t *testing.T) {
	c := ev.New("C11", "pagination", "exploration")
	t.Cleanup(c.Flush)
	c.Rule("per case a fresh collection of 0-12 (30%), 13-60 (50%) or 61-320 (quick) / 61-700 (thorough) objects (strings with few distinct values, points incl. z, bounds, polygons, and in 2 of 3 cases objects spanning several degrees: 2-4 point LineStrings, MultiPoints, big polygons; scattered over +-10 degrees or stacked on 25 positions; fields f in 0..5 or missing, g in x,y,Z or missing; ids = one of six prefixes + index so that globs select interleaved subsets), then one query SCAN / SEARCH / WITHIN / INTERSECTS (whole world, random BOUNDS, CIRCLE, polygon OBJECT, and in half of the cases a multi-part OBJECT: MultiPolygon of 2-6 disjoint/overlapping squares also wrapped in a Feature, GeometryCollection of polygon+line+point or 2-5 mixed parts, FeatureCollection of 2-4 features, MultiLineString, MultiPoint, polygon with a hole) / NEARBY POINT (with or without radius) x 0-3 filters (MATCH from 14 id globs (10 value globs for SEARCH) with and without a range prefix, WHERE range / operator / expression, WHEREIN, WHEREEVAL) x ASC/DESC x output IDS/OBJECTS/POINTS/BOUNDS/HASHES x NOFIELDS x DISTANCE, in RESP or (for IDS / NOFIELDS) JSON mode. LIMIT is chosen after the full result size r is known from {1,2,3,r-1,r,r+1,n,n+1,random 1..r+1}. Oracle: concatenation of the pages obtained by feeding CURSOR back until it is 0 == the reply of the same query with LIMIT 10^9, item by item; no page longer than LIMIT; cursors strictly increase; at most r+2 round trips. Non-trivial: at least two pages carry items and some returned cursor exceeds the number of items returned so far (the filter/area rejected an iterated object, so the cursor counts iterated, not returned, entries); distinct by (query, limit, result size, cursor trace).")
	ev.Rapid("pagination", ev.Pick(8000, 60000))
	rapid.Check(t, func(rt *rapid.T) {
		d := pageCase{
			Objs:      drawObjects(rt),
			Q:         drawQuery(rt),
			LimitSel:  rapid.IntRange(0, 11).Draw(rt, "limitsel"),
			LimitRand: rapid.IntRange(0, 1<<20).Draw(rt, "limitrand"),
			JSON:      rapid.IntRange(0, 3).Draw(rt, "json") == 0,
		}
		c.Case()
		labels, nt, abs := runPageCase(rt, c, d)
		for _, l := range labels {
			c.Label(l)
		}
		if nt {
			c.NonTrivial(abs)
			if c.WantSample() {
				c.Sample(map[string]any{"case": abs, "labels": labels})
			}
		}
	})
}

func TestReplay(t *testing.T) {
	doc, ok := ev.ReplayFile()
	if !ok {
		t.Skip("no replay file")
	}
	c := ev.New("C11", "replay", "exploration")
	t.Cleanup(c.Flush)
	c.Case()
	if doc.Check == "interleaved" {
		var d interCase
		if err := json.Unmarshal(doc.Data, &d); err != nil {
			t.Fatalf("bad replay data: %v", err)
		}
		runInterCase(t, c, d)
		return
	}
	var d pageCase
	if err := json.Unmarshal(doc.Data, &d); err != nil {
		t.Fatalf("bad replay data: %v", err)
	}
	runPageCase(t, c, d)
}

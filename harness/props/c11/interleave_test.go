package c11

import (
	"fmt"
	"strconv"
	"strings"
	"testing"

	"github.com/tidwall/tile38/verif/harness/ev"
	"github.com/tidwall/tile38/verif/harness/t38"
	"pgregory.net/rapid"
)

// Interleaved paginations: the property speaks about re-issuing one query with
// the cursor it returned; it does not say that nobody else queries the same
// (unchanging) collection in between. 2-3 independent walks over one
// collection are advanced in a drawn order, on one shared or on separate
// connections; pages are re-requested and walks are restarted from an earlier
// cursor. Every walk is checked against its own unlimited query.

// extra connections for walks that do not share cResp
var (
	extraFor *t38.Srv
	extra    [2]*t38.Conn
)

func walkConn(i int) *t38.Conn {
	if i <= 0 {
		return cResp
	}
	if extraFor != srv {
		for _, c := range extra {
			if c != nil {
				c.Close()
			}
		}
		extra[0], extra[1] = srv.MustDial(), srv.MustDial()
		extraFor = srv
	}
	return extra[(i-1)%2]
}

type walkSpec struct {
	Q     query `json:"query"`
	Limit int   `json:"limit"` // >= 1
	Conn  int   `json:"conn"`  // 0 = the shared connection, 1,2 = own connections
}

// step of the schedule: which walk, and what it does.
type stepSpec struct {
	Walk int `json:"walk"`
	Op   int `json:"op"`  // 0-5 next page; 6 request an earlier page again; 7 restart from an earlier cursor
	Arg  int `json:"arg"` // selects the earlier page
}

type interCase struct {
	Objs  []objSpec  `json:"objs"`
	Walks []walkSpec `json:"walks"`
	Steps []stepSpec `json:"steps"`
}

type fetched struct {
	req  uint64 // cursor the page was requested with
	page page
}

type walkState struct {
	spec     walkSpec
	full     []string
	pages    []fetched
	done     bool
	requests int
	restarts int
}

func (w *walkState) nextCursor() uint64 {
	if len(w.pages) == 0 {
		return 0
	}
	return w.pages[len(w.pages)-1].page.cursor
}

func (w *walkState) items() []string {
	var out []string
	for _, p := range w.pages {
		out = append(out, p.page.items...)
	}
	return out
}

func samePage(a, b page) bool {
	if a.cursor != b.cursor || len(a.items) != len(b.items) {
		return false
	}
	for i := range a.items {
		if a.items[i] != b.items[i] {
			return false
		}
	}
	return true
}

func runInterCase(t failer, c *ev.Collector, d interCase) (labels []string, nontrivial bool, abstract string) {
	recycle()
	must("FLUSHDB")
	for _, o := range d.Objs {
		must(o.setArgs("k")...)
	}
	ws := make([]*walkState, len(d.Walks))
	for i, sp := range d.Walks {
		if sp.Limit < 1 {
			sp.Limit = 1
		}
		full, err := fetchOn(walkConn(sp.Conn), sp.Q.args(0, big))
		if err != nil {
			c.Fail(t, "pagination:"+strings.ToLower(sp.Q.Cmd)+":reply", err.Error(), d)
		}
		ws[i] = &walkState{spec: sp, full: full.items}
	}
	describe := func(w *walkState) string {
		var tr []string
		for _, p := range w.pages {
			tr = append(tr, fmt.Sprintf("%d->%d(%d)", p.req, p.page.cursor, len(p.page.items)))
		}
		return fmt.Sprintf("%s LIMIT %d on connection %d, pages %s", t38.CmdString(w.spec.Q.args(0, "L")), w.spec.Limit, w.spec.Conn, strings.Join(tr, " "))
	}
	key := func(w *walkState, class string) string {
		return "pagination:" + strings.ToLower(w.spec.Q.Cmd) + ":" + class
	}
	var order []string
	request := func(w *walkState, cursor uint64) page {
		args := w.spec.Q.args(cursor, strconv.Itoa(w.spec.Limit))
		p, err := fetchOn(walkConn(w.spec.Conn), args)
		w.requests++
		if err != nil {
			c.Fail(t, key(w, "reply"), err.Error(), d)
		}
		if len(p.items) > w.spec.Limit {
			c.Fail(t, key(w, "page-too-long"), fmt.Sprintf("%s returned %d items", t38.CmdString(args), len(p.items)), d)
		}
		return p
	}
	interleavedAfterOther := false
	lastWalk := -1
	next := func(i int) {
		w := ws[i]
		if w.done {
			return
		}
		if w.requests > (len(w.full)+3)*(w.restarts+2)+len(d.Steps) {
			c.Fail(t, key(w, "livelock"), "still a non-zero cursor: "+describe(w), d)
		}
		cur := w.nextCursor()
		p := request(w, cur)
		if p.cursor != 0 && p.cursor <= cur {
			c.Fail(t, key(w, "cursor-not-advancing"), fmt.Sprintf("CURSOR %d returned cursor %d: %s", cur, p.cursor, describe(w)), d)
		}
		w.pages = append(w.pages, fetched{cur, p})
		order = append(order, strconv.Itoa(i))
		if lastWalk >= 0 && lastWalk != i && cur != 0 {
			interleavedAfterOther = true
		}
		lastWalk = i
		// compare what the walk has so far with the corresponding prefix of its full result
		got := w.items()
		if p.cursor == 0 {
			w.done = true
			if class, what := compare(got, w.full); class != "" {
				c.Fail(t, key(w, class), fmt.Sprintf("%s: %s [order of requests %s]", describe(w), what, strings.Join(order, "")), d)
			}
			return
		}
		n := len(got)
		if n > len(w.full) {
			n = len(w.full)
		}
		if class, what := compare(got[:n], w.full[:n]); class != "" || len(got) > len(w.full) {
			if class == "" {
				class, what = "extra-items", fmt.Sprintf("%d paged items, %d in the full result", len(got), len(w.full))
			}
			c.Fail(t, key(w, class), fmt.Sprintf("%s: %s [order of requests %s]", describe(w), what, strings.Join(order, "")), d)
		}
	}
	repeats, restarts := 0, 0
	for _, st := range d.Steps {
		i := st.Walk % len(ws)
		w := ws[i]
		switch {
		case st.Op <= 5 || len(w.pages) == 0:
			next(i)
		case st.Op == 6:
			// the same request again must give the same page
			j := st.Arg % len(w.pages)
			p := request(w, w.pages[j].req)
			order = append(order, strconv.Itoa(i)+"r")
			lastWalk = i
			repeats++
			if !samePage(p, w.pages[j].page) {
				c.Fail(t, key(w, "page-not-repeatable"), fmt.Sprintf("CURSOR %d requested again returned %d items and cursor %d, before %d items and cursor %d: %s [order of requests %s]",
					w.pages[j].req, len(p.items), p.cursor, len(w.pages[j].page.items), w.pages[j].page.cursor, describe(w), strings.Join(order, "")), d)
			}
		default:
			// restart the walk from an earlier cursor
			j := st.Arg % len(w.pages)
			w.pages = w.pages[:j]
			w.done = false
			w.restarts++
			restarts++
			order = append(order, strconv.Itoa(i)+"<")
			next(i)
		}
	}
	// finish all walks, still alternating
	for {
		active := false
		for i, w := range ws {
			if !w.done {
				active = true
				next(i)
			}
		}
		if !active {
			break
		}
	}
	// the unlimited replies are still what they were
	for _, w := range ws {
		full, err := fetchOn(walkConn(w.spec.Conn), w.spec.Q.args(0, big))
		if err != nil {
			c.Fail(t, key(w, "reply"), err.Error(), d)
		}
		if class, what := compare(full.items, w.full); class != "" {
			c.Fail(t, key(w, "unlimited-not-repeatable"), describe(w)+": "+what, d)
		}
	}

	multi, sameConn, sepConn, scanOnly := 0, false, false, true
	conns := map[int]bool{}
	for _, w := range ws {
		if len(w.pages) >= 2 {
			multi++
		}
		if conns[w.spec.Conn] {
			sameConn = true
		}
		conns[w.spec.Conn] = true
		if w.spec.Q.Cmd != "SCAN" {
			scanOnly = false
		}
		labels = append(labels, "walk:"+w.spec.Q.Cmd)
	}
	sepConn = len(conns) > 1
	labels = append(labels, "walks:"+strconv.Itoa(len(ws)))
	if sameConn {
		labels = append(labels, "walks-share-a-connection")
	}
	if sepConn {
		labels = append(labels, "walks-on-separate-connections")
	}
	if scanOnly {
		labels = append(labels, "all-walks-scan")
	}
	if repeats > 0 {
		labels = append(labels, "page-requested-twice")
	}
	if restarts > 0 {
		labels = append(labels, "walk-restarted-from-earlier-cursor")
	}
	if interleavedAfterOther {
		labels = append(labels, "continuation-right-after-another-walk's-page")
	}
	nontrivial = multi >= 2 && interleavedAfterOther
	var b strings.Builder
	for _, w := range ws {
		b.WriteString(describe(w) + ";")
	}
	abstract = b.String() + strings.Join(order, "")
	return labels, nontrivial, abstract
}

func drawInterCase(rt *rapid.T) interCase {
	var d interCase
	d.Objs = drawObjects(rt)
	if len(d.Objs) > 80 {
		d.Objs = d.Objs[:80] // several walks per case: keep the collections moderate
	}
	nw := rapid.SampledFrom([]int{2, 2, 2, 3}).Draw(rt, "nwalks")
	family := rapid.IntRange(0, 3).Draw(rt, "family") // 0,1: SCAN walks of one direction; 2: any ordered; 3: anything
	sharedLimit := rapid.IntRange(1, 4).Draw(rt, "sharedlimit")
	desc := rapid.Bool().Draw(rt, "familydesc")
	connMode := rapid.IntRange(0, 2).Draw(rt, "connmode") // 0 all shared, 1 all separate, 2 drawn
	for i := 0; i < nw; i++ {
		var q query
		switch {
		case family <= 1:
			q = query{Cmd: "SCAN", Output: []string{"IDS"}}
			switch rapid.IntRange(0, 5).Draw(rt, "scanfilter") {
			case 0, 1: // plain
			case 2, 3:
				q.Filters = [][]string{{"MATCH", rapid.SampledFrom([]string{"a*", "b*", "ab*", "c*", "ba*", "c1*"}).Draw(rt, "prefix")}}
			case 4:
				q.Filters = [][]string{{"MATCH", rapid.SampledFrom([]string{"*1", "?[0-9]*", "[ab]*", "*a*"}).Draw(rt, "other")}}
			default:
				q.Filters = [][]string{drawFilter(rt, "SCAN")}
			}
			if desc {
				q.Opts = []string{"DESC"}
			}
			if rapid.IntRange(0, 3).Draw(rt, "out") == 0 {
				q.Output = []string{"OBJECTS"}
			}
		case family == 2:
			q = drawQuery(rt)
			for q.Cmd != "SCAN" && q.Cmd != "SEARCH" {
				q = drawQuery(rt)
			}
		default:
			q = drawQuery(rt)
		}
		w := walkSpec{Q: q}
		if rapid.IntRange(0, 2).Draw(rt, "uselimit") != 0 {
			w.Limit = sharedLimit
		} else {
			w.Limit = rapid.IntRange(1, 8).Draw(rt, "limit")
		}
		switch connMode {
		case 0:
			w.Conn = 0
		case 1:
			w.Conn = i
		default:
			w.Conn = rapid.IntRange(0, 2).Draw(rt, "conn")
		}
		d.Walks = append(d.Walks, w)
	}
	ns := rapid.IntRange(0, 40).Draw(rt, "nsteps")
	for i := 0; i < ns; i++ {
		d.Steps = append(d.Steps, stepSpec{
			Walk: rapid.IntRange(0, nw-1).Draw(rt, "swalk"),
			Op:   rapid.IntRange(0, 7).Draw(rt, "sop"),
			Arg:  rapid.IntRange(0, 50).Draw(rt, "sarg"),
		})
	}
	return d
}

func TestC11_Interleaved(t *testing.T) {
	c := ev.New("C11", "interleaved", "exploration")
	t.Cleanup(c.Flush)
	c.Rule("one unchanging collection (as in the pagination sub-check, at most 80 objects) and 2-3 independent walks over it: half of the cases all SCAN of one direction (plain, MATCH prefix*, MATCH without a range prefix, WHERE/WHEREIN/WHEREEVAL; IDS or OBJECTS), a quarter any SCAN/SEARCH, a quarter any of the five commands with areas and options as in the pagination sub-check; LIMITs 1-8, two thirds of the walks share one LIMIT of 1-4 so that their cursors coincide; all walks on one connection, each on its own, or drawn. A drawn schedule of up to 40 steps picks a walk and lets it fetch its next page (3/4), request an earlier page again (the reply must be identical) or restart from an earlier cursor; afterwards the walks are finished alternately. Oracle per walk: after every page the items so far == the prefix of its own unlimited reply, at cursor 0 == the whole of it; page <= LIMIT, cursors increase, bounded round trips; the unlimited replies are unchanged at the end. Non-trivial: at least two walks have two or more pages and some continuation request directly follows a page of another walk; distinct by (queries, limits, page traces, order of requests).")
	ev.Rapid("interleaved", ev.Pick(3000, 30000))
	rapid.Check(t, func(rt *rapid.T) {
		d := drawInterCase(rt)
		c.Case()
		labels, nt, abs := runInterCase(rt, c, d)
		for _, l := range labels {
			c.Label(l)
		}
		if nt {
			c.NonTrivial(abs)
			if c.WantSample() {
				c.Sample(map[string]any{"case": abs, "labels": labels})
			}
		}
	})
}

package c06

import (
	"bytes"
	"fmt"
	"os"
	"path/filepath"
	"strconv"
	"time"

	"github.com/tidwall/tile38/verif/harness/t38"
)

// logBufferHistory is the fixed history of the probe restart-after-buffered-resync.
//
// The follower's log buffer (replicated commands are buffered and reach the file
// with the next client reply or the 1 s background flush) must not survive a
// truncate-and-reload resynchronisation. To have a non-empty buffer at that
// moment the flusher and every client reply have to be kept away for the
// second the follower waits before it reconnects: one pipelined packet of two
// SLEEPs (dev mode; any read that runs for more than a second does the same)
// holds the shared lock, has a single reply at its very end, and leaves exactly
// the two gaps in which the queued follow goroutine gets the exclusive lock
// (start of followStep, followCheckSome).
//
// Oracle (protocol level): the follower is caught up and equal to the
// quiescent leader; a client command is answered (which writes the buffer to the
// file); the follower is killed and started again with the leader unreachable
// and promoted with FOLLOW no one: its dataset, rebuilt from its own log only,
// must still be the leader's.
func logBufferHistory() (out *outcome) {
	out = &outcome{labels: map[string]bool{}}
	fail := func(format string, a ...any) *outcome {
		out.inconclusive = fmt.Sprintf(format, a...)
		return out
	}
	p, err := startPair()
	if err != nil {
		return fail("start: %v", err)
	}
	defer p.close()
	// k3/a lies in the first 512 KiB, k3/b behind it; the log stays below 1 MiB so
	// that every reconnect verifies one window and truncates to it
	pre := [][]string{{"SET", "k3", "a", "POINT", "1", "1"}}
	pre = append(pre, padsCycling("pad", 18, 30000, 3)...)
	pre = append(pre, []string{"SET", "k3", "b", "POINT", "2", "2"})
	pre = append(pre, padsCycling("pad", 4, 30000, 3)...)
	if _, err := apply(p.lc, pre); err != nil {
		return fail("pre-history: %v", err)
	}
	p.fdir = t38.NewDir("c06f")
	if p.F, err = startFollowerProcDev(p.fdir, true); err != nil {
		return fail("follower: %v", err)
	}
	fc, err := p.F.Dial()
	if err != nil {
		return fail("follower: %v", err)
	}
	if v, err := fc.Do("FOLLOW", "127.0.0.1", strconv.Itoa(p.px.port)); err != nil || v.IsErr() {
		return fail("FOLLOW: %v %s", err, v.String())
	}
	fc.Close()
	p.syncCheck("attach", out, 30*time.Second, nil)
	if out.vioKey != "" || out.inconclusive != "" {
		return out
	}
	// everything flushed; from here on no command goes to the follower
	time.Sleep(1500 * time.Millisecond)
	_, d0, _ := p.px.LastStream()
	if v, err := p.lc.Do("RENAME", "k3", "k4"); err != nil || v.IsErr() {
		return fail("RENAME: %v %s", err, v.String())
	}
	for i := 0; i < 2000; i++ {
		if _, d, _ := p.px.LastStream(); d > d0 {
			break
		}
		time.Sleep(time.Millisecond)
	}
	time.Sleep(20 * time.Millisecond) // applied, sitting in the follower's log buffer
	sc, err := p.F.Dial()
	if err != nil {
		return fail("follower: %v", err)
	}
	sc.SendRaw(append(t38.EncodeCmd("SLEEP", "1.6"), t38.EncodeCmd("SLEEP", "0.8")...))
	time.Sleep(5 * time.Millisecond)
	p.px.Cut()
	time.Sleep(3500 * time.Millisecond)
	sc.Close()
	out.label("fault:cut-with-buffered-log")
	p.syncCheck("after the buffered resync", out, 30*time.Second, nil)
	if out.vioKey != "" || out.inconclusive != "" {
		return out
	}
	if rs := p.px.AllAOFReqs(); len(rs) >= 2 && rs[len(rs)-1] > 0 {
		out.label("resume:truncate-and-reload")
	}
	// the polls above were answered: the buffer is in the file now
	ldump, err := t38.TakeDump(p.L.Addr)
	if err != nil {
		return fail("leader dump: %v", err)
	}
	lb, _ := os.ReadFile(p.L.AOFPath())
	fb, _ := os.ReadFile(filepath.Join(p.fdir, "appendonly.aof"))
	fileNote := "follower log file identical to the leader's"
	if !bytes.Equal(lb, fb) {
		i := 0
		for i < len(lb) && i < len(fb) && lb[i] == fb[i] {
			i++
		}
		end := i + 60
		if end > len(fb) {
			end = len(fb)
		}
		fileNote = fmt.Sprintf("follower log file has %d bytes, leader's %d, first difference at offset %d, follower has %q there", len(fb), len(lb), i, fb[i:end])
		out.label("log-files-differ")
	}
	p.px.Down(10 * time.Minute)
	p.F.Kill()
	if p.F, err = startFollowerProcDev(p.fdir, true); err != nil {
		return fail("follower restart: %v", err)
	}
	c2, err := p.F.Dial()
	if err != nil {
		return fail("follower: %v", err)
	}
	defer c2.Close()
	if v, err := c2.Do("FOLLOW", "no", "one"); err != nil || v.IsErr() {
		return fail("FOLLOW no one: %v %s", err, v.String())
	}
	fd, err := t38.TakeDumpOn(c2)
	if err != nil {
		return fail("follower dump: %v", err)
	}
	out.claimsCheckd++
	out.syncs++
	if diff := ldump.Diff(fd); diff != "" {
		out.vioKey = findingKeepsLogBuffer
		out.vioWhat = fmt.Sprintf("the follower was caught up and equal to the quiescent leader and had answered client commands since (nothing left in its log buffer); killed, started again with the leader unreachable and promoted (FOLLOW no one), its dataset rebuilt from its own log differs (A=leader, B=follower): %s; %s", diff, fileNote)
	}
	return out
}

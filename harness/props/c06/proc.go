package c06

import (
	"bytes"
	"fmt"
	"net"
	"os"
	"os/exec"
	"strconv"
	"strings"
	"sync"
	"syscall"
	"time"

	"github.com/tidwall/tile38/verif/harness/t38"
)

// fproc is a tile38-server child process started by this package (the shared
// launcher has no way to pass --appendonly no or to own the stderr pipe).
type fproc struct {
	Addr   string
	Dir    string
	Stderr *logBuf
	cmd    *exec.Cmd
	exited chan struct{}

	// stderr pipe control (procOpts.OwnPipe): the parent keeps both ends, so it
	// can stop draining and fill the pipe, which blocks the child's next log line
	pr, pw   *os.File
	pauseMu  sync.Mutex
	paused   bool
	pauseCnd *sync.Cond
	fillWG   sync.WaitGroup
}

type logBuf struct {
	mu sync.Mutex
	b  bytes.Buffer
}

func (l *logBuf) Write(p []byte) (int, error) {
	l.mu.Lock()
	defer l.mu.Unlock()
	if l.b.Len() < 1<<20 {
		l.b.Write(p)
	}
	return len(p), nil
}

func (l *logBuf) String() string {
	l.mu.Lock()
	defer l.mu.Unlock()
	return l.b.String()
}

type procOpts struct {
	Dir     string
	Dev     bool // --dev (SLEEP)
	NoAOF   bool // --appendonly no
	OwnPipe bool // stdout/stderr go to a pipe drained (and fillable) by the parent
}

func (p *fproc) Dial() (*t38.Conn, error) { return t38.Dial(p.Addr) }

func (p *fproc) Alive() bool {
	select {
	case <-p.exited:
		return false
	default:
		return true
	}
}

func (p *fproc) Kill() {
	p.cmd.Process.Signal(syscall.SIGKILL)
	<-p.exited
	if p.pw != nil {
		p.ResumeLog()
		p.pw.Close()
		p.pr.Close()
	}
}

// BlockLog stops draining the child's log pipe and fills it: the child's next
// log line blocks until ResumeLog. (The write end was handed to the child, which
// puts it into blocking mode, so the filler simply writes from a goroutine until
// it blocks; ResumeLog lets it finish.)
func (p *fproc) BlockLog() {
	p.pauseMu.Lock()
	p.paused = true
	p.pauseMu.Unlock()
	time.Sleep(30 * time.Millisecond) // a read in flight returns
	p.fillWG.Add(1)
	go func() {
		defer p.fillWG.Done()
		chunk := bytes.Repeat([]byte{'#'}, 4096)
		for i := 0; i < 40; i++ { // 160 KiB, more than the pipe holds
			if _, err := p.pw.Write(chunk); err != nil {
				return
			}
		}
	}()
	time.Sleep(150 * time.Millisecond)
}

func (p *fproc) ResumeLog() {
	p.pauseMu.Lock()
	p.paused = false
	p.pauseCnd.Broadcast()
	p.pauseMu.Unlock()
	p.fillWG.Wait()
}

// startProc launches the server binary on a free port and waits for its own
// "Ready to accept connections" line. Ports come from t38.FreePort (bind :0,
// close, reuse the number); another process can take the port in between, in
// which case the child neither logs the line nor exits, so do not wait long
// and try again.
func startProc(o procOpts) (*fproc, error) {
	bin := t38.ServerBin()
	if bin == "" {
		return nil, fmt.Errorf("VERIF_SERVER_BIN not set")
	}
	var last error
	for try := 0; try < 6; try++ {
		port := t38.FreePort()
		addr := net.JoinHostPort("127.0.0.1", strconv.Itoa(port))
		args := []string{"--protected-mode", "no", "-d", o.Dir, "-p", strconv.Itoa(port), "-h", "127.0.0.1"}
		if o.Dev {
			args = append([]string{"--dev"}, args...)
		}
		if o.NoAOF {
			args = append(args, "--appendonly", "no")
		}
		cmd := exec.Command(bin, args...)
		p := &fproc{Addr: addr, Dir: o.Dir, Stderr: &logBuf{}, cmd: cmd, exited: make(chan struct{})}
		p.pauseCnd = sync.NewCond(&p.pauseMu)
		if o.OwnPipe {
			pr, pw, err := os.Pipe()
			if err != nil {
				return nil, err
			}
			p.pr, p.pw = pr, pw
			cmd.Stdout, cmd.Stderr = pw, pw
			go func() {
				buf := make([]byte, 4096)
				for {
					p.pauseMu.Lock()
					for p.paused {
						p.pauseCnd.Wait()
					}
					p.pauseMu.Unlock()
					pr.SetReadDeadline(time.Now().Add(10 * time.Millisecond))
					n, err := pr.Read(buf)
					if n > 0 {
						p.Stderr.Write(buf[:n])
					}
					if err != nil && !os.IsTimeout(err) {
						return
					}
				}
			}()
		} else {
			cmd.Stdout, cmd.Stderr = p.Stderr, p.Stderr
		}
		cmd.SysProcAttr = &syscall.SysProcAttr{Pdeathsig: syscall.SIGKILL}
		if err := cmd.Start(); err != nil {
			return nil, err
		}
		go func() { cmd.Wait(); close(p.exited) }()
		deadline := time.Now().Add(6 * time.Second)
		ok := false
		for time.Now().Before(deadline) && p.Alive() {
			if strings.Contains(p.Stderr.String(), "Ready to accept connections at "+addr) {
				ok = true
				break
			}
			time.Sleep(2 * time.Millisecond)
		}
		if ok && p.Alive() {
			// the log line comes before the aof is loaded: wait until commands are served
			dl := time.Now().Add(60 * time.Second)
			for time.Now().Before(dl) && p.Alive() {
				if c, err := t38.Dial(addr); err == nil {
					v, err := c.Do("HEALTHZ")
					c.Close()
					if err == nil && !(v.IsErr() && strings.HasPrefix(v.Str, "LOADING")) {
						return p, nil
					}
				}
				time.Sleep(2 * time.Millisecond)
			}
		}
		e := p.Stderr.String()
		if len(e) > 400 {
			e = e[len(e)-400:]
		}
		last = fmt.Errorf("server process did not come up on %s: %s", addr, e)
		p.Kill()
	}
	return nil, last
}

package c06

import (
	"encoding/json"
	"fmt"
	"os"
	"path/filepath"
	"regexp"
	"strconv"
	"strings"
	"sync/atomic"
	"syscall"
	"time"

	"github.com/tidwall/tile38/verif/harness/t38"
)

// pair is one leader, one follower and the proxy between them.
type pair struct {
	L     *t38.Srv // in-process
	F     *fproc   // child process
	fopts procOpts // how the follower process is started (every time)
	LP    *fproc   // the leader as a child process (probes that need its log pipe); L then only carries Addr and Dir
	olds  []func() // resources of leaders this case has moved away from: resynchronisation code paths end in log.Fatalf (process exit)
	px    *proxy
	lc    *t38.Conn // leader command connection
	fdir  string

	markerSeq int
	nonceBase string
	shrinkIno uint64   // inode of the leader's log when the pending AOFSHRINK was issued (0 = none pending)
	shrinkOld *os.File // that file, kept open so that its inode number cannot be reused by the new log
}

var nonceCounter atomic.Int64

// result of one case run.
type outcome struct {
	labels       map[string]bool
	resumes      []int64 // resume positions of all replication requests
	syncs        int     // oracle evaluations that ended with a checked claim
	claimsCheckd int     // number of (claim, dump) comparisons
	inconclusive string  // budget hit (not a violation)
	skipped      string  // finding id whose trigger the case turned out to contain (case not run)
	vioKey       string
	vioWhat      string
}

func (o *outcome) label(s string) { o.labels[s] = true }

type srvStat struct {
	following bool
	caughtUp  bool
	aofSize   int64
	err       string
}

func serverStat(c *t38.Conn) (srvStat, error) {
	v, err := c.Do("SERVER")
	if err != nil {
		return srvStat{}, err
	}
	if v.IsErr() {
		// a follower refuses SERVER (a "read") until it has caught up once
		return srvStat{err: v.Str, following: strings.Contains(v.Str, "catching up to leader")}, nil
	}
	var st srvStat
	for i := 0; i+1 < len(v.Arr); i += 2 {
		switch v.Arr[i].Str {
		case "following":
			st.following = v.Arr[i+1].Str != ""
		case "caught_up":
			st.caughtUp = v.Arr[i+1].Str == "true"
		case "aof_size":
			st.aofSize, _ = strconv.ParseInt(v.Arr[i+1].Str, 10, 64)
		}
	}
	return st, nil
}

// Ports come from t38.FreePort (bind :0, close, reuse the number), so with many
// pairs running concurrently another server can grab the port first and the
// readiness probe then talks to the wrong server. Every start is verified.

// startLeader starts an in-process server and checks that the server answering
// on its address is the one that owns its data directory.
func startLeader() (*t38.Srv, error) {
	var last error
	for try := 0; try < 6; try++ {
		L, err := t38.Start(t38.Opts{})
		if err != nil {
			last = err
			continue
		}
		b, _ := os.ReadFile(filepath.Join(L.Dir, "config"))
		var cfg struct {
			ServerID string `json:"server_id"`
		}
		json.Unmarshal(b, &cfg)
		id := ""
		if c, err := L.Dial(); err == nil {
			if v, err := c.Do("SERVER"); err == nil {
				for i := 0; i+1 < len(v.Arr); i += 2 {
					if v.Arr[i].Str == "id" {
						id = v.Arr[i+1].Str
					}
				}
			}
			c.Close()
		}
		if cfg.ServerID != "" && id == cfg.ServerID {
			return L, nil
		}
		last = fmt.Errorf("server at %s has id %q, data directory says %q (port collision)", L.Addr, id, cfg.ServerID)
		L.StopAsync()
	}
	return nil, last
}

// startFollowerProc starts the follower child process on dir and waits for its
// own "Ready to accept connections" line (or its exit).
func startFollowerProc(dir string) (*fproc, error) { return startProc(procOpts{Dir: dir}) }

// startFollowerProcDev optionally starts the child in dev mode (SLEEP command).
func startFollowerProcDev(dir string, dev bool) (*fproc, error) {
	return startProc(procOpts{Dir: dir, Dev: dev})
}

func (p *pair) launchFollower() (*fproc, error) {
	o := p.fopts
	o.Dir = p.fdir
	return startProc(o)
}

func startPair() (*pair, error) {
	L, err := startLeader()
	if err != nil {
		return nil, err
	}
	px, err := newProxy(L.Addr)
	if err != nil {
		L.Stop()
		return nil, err
	}
	lc, err := L.Dial()
	if err != nil {
		px.Close()
		L.Stop()
		return nil, err
	}
	return &pair{L: L, px: px, lc: lc, nonceBase: fmt.Sprintf("n%d-%d", os.Getpid(), nonceCounter.Add(1))}, nil
}

func (p *pair) close() {
	if p.shrinkOld != nil {
		p.shrinkOld.Close()
	}
	if p.lc != nil {
		p.lc.Close()
	}
	p.px.Close()
	if p.F != nil {
		p.F.Kill()
	}
	if p.LP != nil {
		p.LP.Kill()
	} else {
		p.L.Stop()
	}
	os.RemoveAll(p.L.Dir)
	for _, f := range p.olds {
		f()
	}
	if p.fdir != "" {
		os.RemoveAll(p.fdir)
	}
}

// apply sends the commands pipelined on c and reads every reply: when apply
// returns, each command has been acknowledged (or refused). It returns the
// number of error replies.
func apply(c *t38.Conn, cmds [][]string) (nerr int, err error) {
	const batch = 64
	for i := 0; i < len(cmds); i += batch {
		j := i + batch
		if j > len(cmds) {
			j = len(cmds)
		}
		var buf []byte
		for _, cmd := range cmds[i:j] {
			buf = append(buf, t38.EncodeCmd(expand(cmd)...)...)
		}
		done := make(chan error, 1)
		go func() { done <- c.SendRaw(buf) }()
		for range cmds[i:j] {
			v, rerr := c.Recv()
			if rerr != nil {
				return nerr, rerr
			}
			if v.IsErr() {
				nerr++
			}
		}
		if werr := <-done; werr != nil {
			return nerr, werr
		}
	}
	return nerr, nil
}

// startFollower creates the follower in its initial state and points it at
// the proxy.
func (p *pair) startFollower(cs *caseSpec, out *outcome) error {
	p.fdir = t38.NewDir("c06f")
	p.fopts.NoAOF = cs.NoAOF
	if cs.NoAOF {
		out.label("follower:no-aof")
	}
	switch cs.Init {
	case initPrefix, initLonger:
		cmds, _, err := t38.ParseAOF(p.L.AOFPath())
		if err != nil {
			return err
		}
		b, err := os.ReadFile(p.L.AOFPath())
		if err != nil {
			return err
		}
		cut := int64(len(b))
		if cs.Init == initPrefix && len(cmds) > 0 {
			var k int
			if cs.PrefixCut < 0 {
				// a boundary at or beyond 600 KiB
				var cands []int
				for i, c := range cmds {
					if c.End >= 600*1024 {
						cands = append(cands, i+1)
					}
				}
				if len(cands) == 0 {
					return fmt.Errorf("generator bug: leader log of %d bytes has no boundary beyond 600 KiB", len(b))
				}
				k = cands[(len(cands)-1)*(-1-cs.PrefixCut)/1000]
			} else {
				k = len(cmds) * cs.PrefixCut / 1000
				if k < 1 {
					k = 1
				}
				if k > len(cmds) {
					k = len(cmds)
				}
			}
			cut = cmds[k-1].End
			if k == len(cmds) {
				out.label("init:prefix=whole-log")
			} else {
				out.label("init:prefix=proper")
			}
		}
		if os.Getenv("C06_DEBUG") != "" {
			fmt.Fprintf(os.Stderr, "DEBUG leader log %d bytes %d cmds; follower gets %d bytes\n", len(b), len(cmds), cut)
		}
		if err := os.WriteFile(filepath.Join(p.fdir, "appendonly.aof"), b[:cut], 0o644); err != nil {
			return err
		}
		out.label("init-log:" + sizeClass(cut))
	}
	F, err := p.launchFollower()
	if err != nil {
		return err
	}
	p.F = F
	fc, err := F.Dial()
	if err != nil {
		return err
	}
	defer fc.Close()
	if len(cs.Own) > 0 {
		if _, err := apply(fc, cs.Own); err != nil {
			return err
		}
		st, err := serverStat(fc)
		if err != nil {
			return err
		}
		out.label("init-log:" + sizeClass(st.aofSize))
	}
	if cs.Init == initEmpty {
		out.label("init-log:empty")
	}
	v, err := fc.Do("FOLLOW", "127.0.0.1", strconv.Itoa(p.px.port))
	if err != nil {
		return err
	}
	if v.IsErr() {
		return fmt.Errorf("FOLLOW refused: %s", v.Str)
	}
	if cs.NoAOF {
		// A follower without a log counts no bytes: it reports caught up only if
		// the leader's log is empty when it attaches. Let the handshake finish
		// before the leader gets its first command.
		for dl := time.Now().Add(20 * time.Second); time.Now().Before(dl) && p.F.Alive(); time.Sleep(time.Millisecond) {
			if yes, _ := p.px.Reconnected(0); yes {
				break
			}
		}
		time.Sleep(20 * time.Millisecond)
	}
	return nil
}

func sizeClass(n int64) string {
	switch {
	case n == 0:
		return "0"
	case n < window:
		return "<512K"
	case n < 2*window:
		return "512K-1M"
	default:
		return ">=1M"
	}
}

// restartFollower kills the follower process (SIGKILL: whatever sat in its
// in-memory log buffer is lost, its log stays a prefix of what it applied) and
// starts it again on the same directory.
func (p *pair) restartFollower() error {
	p.F.Kill()
	F, err := p.launchFollower()
	if err != nil {
		return err
	}
	p.F = F
	return nil
}

var fataRe = regexp.MustCompile(`\[FATA\][^\n]*`)

// followerDied turns an unexpected exit of the follower process into a violation.
func (p *pair) followerDied(phase string, out *outcome) bool {
	if p.F.Alive() {
		return false
	}
	msg := fataRe.FindString(p.F.Stderr.String())
	if msg == "" {
		e := p.F.Stderr.String()
		if len(e) > 600 {
			e = e[len(e)-600:]
		}
		msg = "(no fatal log line) " + e
	}
	if strings.Contains(msg, "address already in use") {
		out.inconclusive = phase + ": follower could not bind its port (harness)"
		return true
	}
	key := "follower-exits"
	if strings.Contains(msg, "could not reload aof") && (strings.Contains(msg, "key has hooks set") || strings.Contains(msg, "key has channels set")) {
		// reset() kept the hooks of the full log; re-loading the truncated log then
		// hits a RENAME of a key that got a hook later
		key = findingKeepsHooks
	} else if strings.Contains(msg, "aof size mismatch during reload") {
		// the reloaded log was shorter than the truncation position: that position
		// was not a command boundary
		key = findingCutInsideBulk
	}
	_, lastPos := p.px.Reconnected(0)
	out.vioKey = key
	out.vioWhat = fmt.Sprintf("%s: the follower process exited while (re)synchronising (last resume pos=%d): %s", phase, lastPos, msg)
	return true
}

// shrinkNow runs AOFSHRINK on the leader to completion.
func (p *pair) shrinkNow() error {
	if p.shrinkIno == 0 {
		if f, err := os.Open(p.L.AOFPath()); err == nil {
			p.shrinkOld = f
			p.shrinkIno = aofInode(p.L.AOFPath())
		}
	}
	if v, err := p.lc.Do("AOFSHRINK"); err != nil || v.IsErr() {
		return fmt.Errorf("AOFSHRINK: %v %s", err, v.String())
	}
	return p.waitShrink(30 * time.Second)
}

// switchLeader starts a second leader with its own history behind a paced
// proxy and points the follower at it. While the follower loads the new
// leader's data, reads are sampled: a read that is answered between two
// HEALTHZ replies that both say "not caught up" was served from a half-loaded
// dataset. Returns false when the case is over.
func (p *pair) switchLeader(phase string, out *outcome, st step, budget time.Duration) bool {
	B, err := startLeader()
	if err != nil {
		out.inconclusive = phase + ": " + err.Error()
		return false
	}
	pxB, err := newProxy(B.Addr)
	if err != nil {
		B.Stop()
		out.inconclusive = phase + ": " + err.Error()
		return false
	}
	lcB, err := B.Dial()
	if err != nil {
		pxB.Close()
		B.Stop()
		out.inconclusive = phase + ": " + err.Error()
		return false
	}
	oldL, oldPx, oldLc := p.L, p.px, p.lc
	p.olds = append(p.olds, func() {
		oldLc.Close()
		oldPx.Close()
		oldL.Stop()
		os.RemoveAll(oldL.Dir)
	})
	if p.shrinkOld != nil {
		p.shrinkOld.Close()
		p.shrinkOld, p.shrinkIno = nil, 0
	}
	p.L, p.px, p.lc = B, pxB, lcB
	if _, err := apply(lcB, st.Cmds); err != nil {
		out.inconclusive = phase + ": " + err.Error()
		return false
	}
	pxB.SetLink(linkProfile{Chunk: st.Chunk, Gap: time.Duration(st.GapMs) * time.Millisecond})
	defer pxB.SetLink(linkProfile{})
	fc, err := p.F.Dial()
	if err != nil {
		if !p.followerDied(phase, out) {
			out.inconclusive = phase + ": " + err.Error()
		}
		return false
	}
	defer fc.Close()
	if v, err := fc.Do("FOLLOW", "127.0.0.1", strconv.Itoa(pxB.port)); err != nil || v.IsErr() {
		if !p.followerDied(phase, out) {
			out.inconclusive = fmt.Sprintf("%s: FOLLOW: %v %s", phase, err, v.String())
		}
		return false
	}
	notUp := func(v t38.Value) bool { return v.IsErr() }
	samples, refused := 0, 0
	for dl := time.Now().Add(budget); time.Now().Before(dl); {
		acc := pxB.Accepted()
		h1, err1 := fc.Do("HEALTHZ")
		r, err2 := fc.Do("KEYS", "*")
		h2, err3 := fc.Do("HEALTHZ")
		if err1 != nil || err2 != nil || err3 != nil {
			if !p.followerDied(phase, out) {
				out.inconclusive = phase + ": follower connection lost while sampling reads"
			}
			return false
		}
		if notUp(h1) && notUp(h2) && pxB.Accepted() == acc {
			samples++
			if r.IsErr() {
				refused++
			} else {
				out.claimsCheckd++
				out.vioKey = findingSwitchServes
				out.vioWhat = fmt.Sprintf("%s: pointed at another leader with FOLLOW, the follower answered HEALTHZ %q, then KEYS * with %d keys, then HEALTHZ %q: a read served from the half-loaded dataset of the new leader while it says it has not caught up (%d reads were refused before)", phase, h1.Str, len(r.Arr), h2.Str, refused)
				return false
			}
		}
		if !notUp(h2) {
			break
		}
		time.Sleep(time.Millisecond)
	}
	if samples > 0 {
		out.label("switch:reads-refused-while-loading")
	}
	return true
}

// wipeFollower replaces the follower by one with an empty disk: the process is
// killed, its log and queue are deleted (the config with the leader's address
// stays), and it is started again. It re-attaches from position 0.
func (p *pair) wipeFollower() error {
	p.F.Kill()
	os.Remove(filepath.Join(p.fdir, "appendonly.aof"))
	os.Remove(filepath.Join(p.fdir, "queue.db"))
	F, err := p.launchFollower()
	if err != nil {
		return err
	}
	p.F = F
	return nil
}

func aofInode(path string) uint64 {
	fi, err := os.Stat(path)
	if err != nil {
		return 0
	}
	if st, ok := fi.Sys().(*syscall.Stat_t); ok {
		return st.Ino
	}
	return 0
}

// waitShrink waits until the pending AOFSHRINK (if any) has swapped the log
// file in. The swap happens under the server's exclusive lock together with the
// reopen, so any command answered afterwards is ordered after the whole swap.
func (p *pair) waitShrink(budget time.Duration) error {
	if p.shrinkIno == 0 {
		return nil
	}
	deadline := time.Now().Add(budget)
	for time.Now().Before(deadline) {
		if ino := aofInode(p.L.AOFPath()); ino != 0 && ino != p.shrinkIno {
			if _, err := os.Stat(p.L.AOFPath() + "-shrink"); os.IsNotExist(err) {
				p.shrinkIno = 0
				if p.shrinkOld != nil {
					p.shrinkOld.Close()
					p.shrinkOld = nil
				}
				if _, err := p.lc.Do("PING"); err != nil {
					return err
				}
				return nil
			}
		}
		time.Sleep(5 * time.Millisecond)
	}
	return fmt.Errorf("AOFSHRINK on the leader did not finish within %v", budget)
}

// ---- the oracle ----------------------------------------------------------------

// The marker's collection sorts behind every generated key (U+10FFFF first), so
// that AOFSHRINK, which writes collections in key order, puts it at the end of
// the rewritten log: two rewritten logs then do not differ in their first
// bytes just because the marker changed in between.
const markerKey = "\U0010FFFFc06"

// syncCheck is one evaluation of the oracle. The leader is quiescent: the
// caller issues no leader command until syncCheck returns.
//
// A unique marker object is written on the leader as its last command. Then
// the follower is polled. A poll is *binding* when
//
//	(a) the proxy had already seen a replication request (`AOF pos`) issued
//	    after the marker was acknowledged, before the poll was sent: the
//	    follower's current connection is younger than every leader command,
//	    and followStep has reset caught_up before dialling; or
//	(b) the follower returns the marker: the log is applied in order and the
//	    marker is the newest command.
//
// At every binding poll at which the follower says caught_up=true or answers
// HEALTHZ with OK, dump(follower) must equal dump(leader). The check ends
// after `need` consecutive successful comparisons, or with an inconclusive
// outcome when the budget is used up.
func (p *pair) syncCheck(phase string, out *outcome, budget time.Duration, forceReconnect func() error) {
	if err := p.waitShrink(30 * time.Second); err != nil {
		out.inconclusive = phase + ": " + err.Error()
		return
	}
	p.markerSeq++
	nonce := fmt.Sprintf("%s-%d", p.nonceBase, p.markerSeq)
	if v, err := p.lc.Do("SET", markerKey, "sync", "STRING", nonce); err != nil || v.IsErr() {
		out.inconclusive = fmt.Sprintf("%s: marker write failed: %v %s", phase, err, v.String())
		return
	}
	// quiescent from here on
	acc0 := p.px.Accepted()
	p.px.ResetMaxStreams()
	if forceReconnect != nil {
		if err := forceReconnect(); err != nil {
			out.inconclusive = phase + ": " + err.Error()
			return
		}
	}
	ldump, err := t38.TakeDump(p.L.Addr)
	if err != nil {
		out.inconclusive = phase + ": leader dump: " + err.Error()
		return
	}
	lst, err := serverStat(p.lc)
	if err != nil {
		out.inconclusive = phase + ": leader SERVER: " + err.Error()
		return
	}

	const need = 2
	okCount := 0
	start := time.Now()
	deadline := start.Add(budget)
	var fc *t38.Conn
	var fcAddr string
	defer func() {
		if fc != nil {
			fc.Close()
		}
	}()
	polls := 0
	var tReconn time.Time
	// "caught up, idle and lacking": since when the follower has claimed
	// caught-up/healthy at every poll without holding the marker, with an
	// unchanged log size
	var lackingSince time.Time
	var lackingSize int64 = -1
	quiet := 10 * time.Second
	if budget/2 < quiet {
		quiet = budget / 2
	}
	for {
		if time.Now().After(deadline) {
			out.inconclusive = fmt.Sprintf("%s: follower made no binding caught-up claim within %v (%d polls)", phase, budget, polls)
			return
		}
		if p.followerDied(phase, out) {
			return
		}
		if fc == nil || fcAddr != p.F.Addr {
			if fc != nil {
				fc.Close()
			}
			fc, err = p.F.Dial()
			if err != nil {
				fc = nil
				time.Sleep(20 * time.Millisecond)
				continue
			}
			fcAddr = p.F.Addr
		}
		polls++
		accBefore := p.px.Accepted()
		reconnected, lastPos := p.px.Reconnected(acc0)
		mv, err := fc.Do("GET", markerKey, "sync")
		if err != nil {
			fc.Close()
			fc = nil
			continue
		}
		st, err := serverStat(fc)
		if err != nil {
			fc.Close()
			fc = nil
			continue
		}
		hz, err := fc.Do("HEALTHZ")
		if err != nil {
			fc.Close()
			fc = nil
			continue
		}
		healthy := hz.Kind == '+' && hz.Str == "OK"
		markerSeen := mv.Kind == '$' && !mv.Null && mv.Str == nonce
		// an evaluation with a forced reconnect is about that reconnect: the marker
		// alone (delivered by the old session before it died) does not end it
		binding := reconnected || (markerSeen && forceReconnect == nil)
		claim := st.following && (st.caughtUp || healthy)
		if !st.following {
			out.inconclusive = phase + ": follower is not following (harness error)"
			return
		}
		if claim && !markerSeen && (lackingSince.IsZero() || st.aofSize != lackingSize) {
			lackingSince, lackingSize = time.Now(), st.aofSize
		} else if !claim || markerSeen {
			lackingSince, lackingSize = time.Time{}, -1
		}
		if !lackingSince.IsZero() && !binding && time.Since(lackingSince) >= quiet {
			// The leader acknowledged the marker long ago and is silent. The follower's
			// replication stream is open and nothing has moved on it for the whole
			// window (the proxy holds nothing, no stall, no outage), its log does not
			// grow, and all the while it says caught-up / healthy without having the
			// marker: it reports caught-up on a quiescent leader, the datasets differ
			// and stay different.
			if open, idle, ok := p.px.StreamIdle(); ok && open && idle >= quiet {
				if _, perr := p.lc.Do("PING"); perr == nil {
					diff := "(follower dump failed)"
					if fdump, derr := t38.TakeDumpOn(fc); derr == nil {
						diff = ldump.Diff(fdump)
					}
					if diff != "" {
						out.claimsCheckd++
						out.vioKey = "mismatch:caught-up-but-never-fed"
						out.vioWhat = fmt.Sprintf("%s: for %v the follower has answered caught_up=%v healthz=%v with an unchanged aof_size=%d (leader %d) and without the leader's last acknowledged command, while its replication stream (resume pos=%d) was open and completely idle and the leader quiescent: caught-up, yet the datasets differ and stay different (A=leader, B=follower): %s",
							phase, time.Since(lackingSince).Round(time.Second), st.caughtUp, healthy, st.aofSize, lst.aofSize, lastPos, diff)
						return
					}
				}
			}
		}
		if claim && binding {
			out.claimsCheckd++
			switch {
			case reconnected && !markerSeen:
				out.label("claim:binding-by-reconnect")
			case reconnected:
				out.label("claim:binding-by-reconnect+marker")
			default:
				out.label("claim:binding-by-marker(live)")
			}
			fdump, derr := t38.TakeDumpOn(fc)
			if derr != nil {
				out.inconclusive = phase + ": follower dump failed after a caught-up claim: " + derr.Error()
				return
			}
			if p.px.Accepted() != accBefore {
				// a new connection appeared while we were looking: the follower may
				// have re-synchronised under the dump; the claim no longer covers it
				out.label("claim-discarded:reconnect-during-dump")
				okCount = 0
				continue
			}
			if diff := ldump.Diff(fdump); diff != "" {
				p.classify(phase, out, ldump, lst, st, healthy, markerSeen, lastPos, diff, time.Since(start), p.px.MaxStreams())
				return
			}
			okCount++
			if okCount >= need {
				out.syncs++
				if lastPos == 0 {
					out.label("resume:pos=0")
				} else if lastPos > 0 {
					out.label("resume:pos>0")
				}
				if st.aofSize == lst.aofSize {
					out.label("logs-same-size")
				} else {
					out.label("logs-differ-in-size")
				}
				return
			}
			time.Sleep(30 * time.Millisecond)
			continue
		}
		okCount = 0
		// poll fast right after a reconnect so that an early claim is seen
		if reconnected && tReconn.IsZero() {
			tReconn = time.Now()
		}
		if time.Since(start) < 1500*time.Millisecond || (!tReconn.IsZero() && time.Since(tReconn) < 1500*time.Millisecond) {
			time.Sleep(1 * time.Millisecond)
		} else {
			time.Sleep(10 * time.Millisecond)
		}
	}
}

// classify turns a dump mismatch at a binding claim into a violation key. It
// waits for the follower to settle to tell a premature claim from a permanent
// divergence, and attributes the mismatch to the resume-at-0-without-reset
// root cause when the follower's log counter shows leftovers.
func (p *pair) classify(phase string, out *outcome, ldump *t38.Dump, lst, st srvStat, healthy, markerSeen bool, lastPos int64, diff string, after time.Duration, streams int) {
	// settle: follower's aof_size unchanged for 1.5 s
	var last int64 = -1
	stableSince := time.Now()
	deadline := time.Now().Add(15 * time.Second)
	var fst srvStat
	for time.Now().Before(deadline) {
		fc, err := p.F.Dial()
		if err == nil {
			fst, err = serverStat(fc)
			fc.Close()
		}
		if err == nil {
			if fst.aofSize != last {
				last = fst.aofSize
				stableSince = time.Now()
			} else if time.Since(stableSince) > 1500*time.Millisecond {
				break
			}
		}
		time.Sleep(50 * time.Millisecond)
	}
	_, lastPos2 := p.px.Reconnected(0)
	kind := "diverged"
	diff2 := ""
	var fd *t38.Dump
	if d, err := t38.TakeDump(p.F.Addr); err == nil {
		fd = d
		diff2 = ldump.Diff(fd)
		if diff2 == "" {
			kind = "claimed-too-early"
		}
	}
	key := "mismatch:" + kind
	streamPos, streamDelivered, streamOK := p.px.LastStream()
	switch {
	case streamOK && streamPos == 0 && fst.aofSize > streamDelivered:
		// resumed at 0 although it held data: its log counter exceeds everything the
		// current stream (which started at 0) has delivered, so part of it is older
		key = findingKeepsOldData
	case lastPos2 == window && fst.aofSize > lst.aofSize:
		// Resumed exactly at the end of the first checksum window -- the verified
		// prefix of any follower log between 512 KiB and 1 MiB. The truncating path
		// resumes at the end of the command that straddles that offset; landing on
		// the offset itself means a command ends there and nothing was truncated.
		// The log counter past the leader's confirms that the tail was kept.
		key = findingKeepsTail
	case streams >= 2:
		// a new replication stream was opened while an older one was still open:
		// two follow sessions overlapped, and the flag is shared between them
		key = findingStaleSession
	case kind == "diverged" && fd != nil && onlyExtraHooks(ldump, fd):
		// collections are equal, the follower merely has hooks/channels the leader lacks
		key = findingKeepsHooks
	}
	out.vioKey = key
	out.vioWhat = fmt.Sprintf("%s: follower claimed caught_up=%v healthz=%v (marker seen=%v, last resume pos=%d, overlapping replication streams=%d, %v after the leader went quiet) but its dataset differs from the quiescent leader's (A=leader, B=follower): %s; after settling (follower aof_size=%d, leader aof_size=%d): %s [%s]",
		phase, st.caughtUp, healthy, markerSeen, lastPos, streams, after.Round(time.Millisecond), diff, fst.aofSize, lst.aofSize, orEqual(diff2), kind)
}

// onlyExtraHooks: the two dumps have identical collections, and every hook and
// channel of the leader exists identically on the follower, which has more.
func onlyExtraHooks(l, f *t38.Dump) bool {
	lk := &t38.Dump{Keys: l.Keys}
	fk := &t38.Dump{Keys: f.Keys}
	if lk.Diff(fk) != "" {
		return false
	}
	extra := 0
	for _, pr := range [][2]map[string]t38.HookInfo{{l.Hooks, f.Hooks}, {l.Chans, f.Chans}} {
		for n, h := range pr[0] {
			g, ok := pr[1][n]
			if !ok || fmt.Sprint(h) != fmt.Sprint(g) {
				return false
			}
		}
		extra += len(pr[1]) - len(pr[0])
	}
	return extra > 0
}

func orEqual(s string) string {
	if s == "" {
		return "datasets equal"
	}
	return "still differs: " + s
}

// refollow detaches the follower (FOLLOW no one), lets it (and optionally the
// leader) write, and attaches it again. It returns false when the case is over
// (outcome filled in).
func (p *pair) refollow(phase string, out *outcome, own, leader [][]string, budget time.Duration) bool {
	fc, err := p.F.Dial()
	if err != nil {
		if !p.followerDied(phase, out) {
			out.inconclusive = phase + ": " + err.Error()
		}
		return false
	}
	defer fc.Close()
	v, err := fc.Do("FOLLOW", "no", "one")
	if err == nil && !v.IsErr() && len(own) > 0 {
		_, err = apply(fc, own)
	}
	if err == nil && !v.IsErr() && len(leader) > 0 {
		if _, lerr := apply(p.lc, leader); lerr != nil {
			out.inconclusive = phase + ": " + lerr.Error()
			return false
		}
	}
	if err == nil && !v.IsErr() {
		// the proxy may be refusing connections right now (down): retry until accepted
		dl := time.Now().Add(budget)
		for {
			v, err = fc.Do("FOLLOW", "127.0.0.1", strconv.Itoa(p.px.port))
			if err != nil || !v.IsErr() || !strings.Contains(v.Str, "cannot follow") || time.Now().After(dl) {
				break
			}
			time.Sleep(100 * time.Millisecond)
		}
	}
	if err != nil || v.IsErr() {
		if !p.followerDied(phase, out) {
			out.inconclusive = fmt.Sprintf("%s: %v %s", phase, err, v.String())
		}
		return false
	}
	return true
}

// ---- running a case ------------------------------------------------------------

type runOpts struct {
	budget time.Duration
}

func runCase(cs *caseSpec, ro runOpts) (out *outcome) {
	out = &outcome{labels: map[string]bool{}}
	p, err := startPair()
	if err != nil {
		out.inconclusive = "start: " + err.Error()
		return
	}
	defer func() {
		out.resumes = p.px.AllAOFReqs()
		if os.Getenv("C06_DEBUG") != "" && p.F != nil {
			fmt.Fprintf(os.Stderr, "DEBUG resumes %v\n", out.resumes)
			fmt.Fprintf(os.Stderr, "---- follower stderr ----\n%s\n", p.F.Stderr.String())
		}
		p.close()
	}()
	if _, err := apply(p.lc, cs.Pre); err != nil {
		out.inconclusive = "pre-history: " + err.Error()
		return
	}
	if st, err := serverStat(p.lc); err == nil {
		out.label("leader-log-at-follow:" + sizeClass(st.aofSize))
	}
	out.label("init:" + cs.Init)
	if cs.AvoidBoundary {
		if cmds, _, err := t38.ParseAOF(p.L.AOFPath()); err == nil {
			for _, c := range cmds {
				if c.End == window {
					out.skipped = findingKeepsTail
					return
				}
			}
		}
	}
	if err := p.startFollower(cs, out); err != nil {
		out.inconclusive = "follower set-up: " + err.Error()
		return
	}
	if cs.FirstSync {
		p.syncCheck("first-sync", out, ro.budget, nil)
		if out.vioKey != "" || out.inconclusive != "" {
			return
		}
	}
	faultSeen := false
	steady := cs.FirstSync // the follower is attached and in sync, and no fault has happened since
	reconnAfter := -1      // accept count when the last (re)connect-causing step ran (-1: none pending)
	for i, st := range cs.Steps {
		phase := fmt.Sprintf("step %d (%s)", i, st.Kind)
		if cs.Settle && reconnAfter >= 0 && (st.Kind == stCut || st.Kind == stDown) {
			// do not close connections under a handshake in progress
			dl := time.Now().Add(ro.budget)
			for {
				if yes, _ := p.px.Reconnected(reconnAfter); yes {
					break
				}
				if time.Now().After(dl) || !p.F.Alive() {
					break
				}
				time.Sleep(5 * time.Millisecond)
			}
			if yes, _ := p.px.Reconnected(reconnAfter); !yes {
				out.label("step-skipped:handshake-pending")
				continue
			}
		}
		if cs.SyncBeforeShrink && (st.Kind == stShrink || st.Kind == stRewriteShrink) {
			p.syncCheck(phase+" pre-sync", out, ro.budget, nil)
			if out.vioKey != "" || out.inconclusive != "" {
				return
			}
		}
		if cs.SyncBeforeFollow && (st.Kind == stRefollow || st.Kind == stDetachWr || st.Kind == stSplit) {
			p.syncCheck(phase+" pre-sync", out, ro.budget, nil)
			if out.vioKey != "" || out.inconclusive != "" {
				return
			}
		}
		switch st.Kind {
		case stRestart, stCut, stDown, stRefollow, stDetachWr, stSplit, stCutMD5, stShrinkBacklog, stRewriteShrink:
			reconnAfter = p.px.Accepted()
		}
		reqsBefore := -1
		if steady && (st.Kind == stBurst || st.Kind == stPubStorm) {
			reqsBefore = len(p.px.AllAOFReqs())
		} else if st.Kind != stBurst && st.Kind != stPubStorm && st.Kind != stSlow {
			steady = false
		}
		switch st.Kind {
		case stBurst, stPubStorm:
			var storm chan error
			if st.Kind == stPubStorm {
				storm = make(chan error, 1)
				go func(n int) {
					c2, err := p.L.Dial()
					if err != nil {
						storm <- err
						return
					}
					defer c2.Close()
					var pubs [][]string
					for i := 0; i < n; i++ {
						pubs = append(pubs, []string{"PUBLISH", "news", fmt.Sprintf("storm message %d", i)})
					}
					_, err = apply(c2, pubs)
					storm <- err
				}(st.Ms)
			}
			_, err := apply(p.lc, st.Cmds)
			if storm != nil {
				if serr := <-storm; err == nil {
					err = serr
				}
			}
			if err != nil {
				out.inconclusive = phase + ": " + err.Error()
				return
			}
			if faultSeen {
				out.label("burst-after-fault")
			}
		case stRestart:
			if err := p.restartFollower(); err != nil {
				out.inconclusive = phase + ": " + err.Error()
				return
			}
		case stCut:
			p.px.Cut()
		case stCutMD5:
			p.px.KillNextMD5(1)
			p.px.Cut()
		case stStall:
			p.px.Stall(time.Duration(st.Ms) * time.Millisecond)
		case stDown:
			p.px.Down(time.Duration(st.Ms) * time.Millisecond)
		case stSlow:
			p.px.SetLink(linkProfile{Delay: time.Duration(st.Ms) * time.Millisecond, Chunk: st.Chunk, Gap: time.Duration(st.GapMs) * time.Millisecond})
		case stRewriteShrink:
			if _, err := apply(p.lc, st.Cmds); err != nil {
				out.inconclusive = phase + ": " + err.Error()
				return
			}
			if err := p.shrinkNow(); err != nil {
				out.inconclusive = phase + ": " + err.Error()
				return
			}
			p.syncCheck(phase+" after the first shrink", out, ro.budget, nil)
			if out.vioKey != "" || out.inconclusive != "" {
				return
			}
			if _, err := apply(p.lc, st.LCmds); err != nil {
				out.inconclusive = phase + ": " + err.Error()
				return
			}
			if err := p.shrinkNow(); err != nil {
				out.inconclusive = phase + ": " + err.Error()
				return
			}
		case stSwitch:
			if !p.switchLeader(phase, out, st, ro.budget) {
				return
			}
			reconnAfter = 0
		case stShrinkBacklog:
			if _, err := apply(p.lc, st.Cmds); err != nil {
				out.inconclusive = phase + ": " + err.Error()
				return
			}
			p.px.SetLink(linkProfile{Delay: time.Duration(st.Ms) * time.Millisecond})
			if err := p.wipeFollower(); err != nil {
				out.inconclusive = phase + ": " + err.Error()
				return
			}
			// the swap must fall into the backlog copy: wait for the AOF request first
			for dl := time.Now().Add(ro.budget); time.Now().Before(dl) && p.F.Alive(); time.Sleep(2 * time.Millisecond) {
				if yes, _ := p.px.Reconnected(reconnAfter); yes {
					break
				}
			}
			if cs.SyncBeforeShrink {
				// the leader has the AOF request; give it time to open the log
				time.Sleep(100 * time.Millisecond)
			}
			if err := p.shrinkNow(); err != nil {
				out.inconclusive = phase + ": " + err.Error()
				return
			}
			if open, _, ok := p.px.StreamIdle(); ok && open {
				out.label("shrink-swap-during-held-backlog")
			}
			if _, err := apply(p.lc, st.LCmds); err != nil {
				out.inconclusive = phase + ": " + err.Error()
				return
			}
			p.px.SetLink(linkProfile{})
		case stShrink:
			if p.shrinkIno == 0 {
				if f, err := os.Open(p.L.AOFPath()); err == nil {
					p.shrinkOld = f
					p.shrinkIno = aofInode(p.L.AOFPath())
				}
			}
			if v, err := p.lc.Do("AOFSHRINK"); err != nil || v.IsErr() {
				out.inconclusive = fmt.Sprintf("%s: %v %s", phase, err, v.String())
				return
			}
		case stRefollow, stDetachWr, stSplit:
			if !p.refollow(phase, out, st.Cmds, st.LCmds, ro.budget) {
				return
			}
		case stRefCheck:
			p.syncCheck(phase, out, ro.budget, func() error {
				if !p.refollow(phase, out, nil, nil, ro.budget) {
					return fmt.Errorf("refollow failed: %s%s", out.inconclusive, out.vioWhat)
				}
				return nil
			})
			if out.vioKey != "" || out.inconclusive != "" {
				return
			}
			steady = true
		case stSleep:
			time.Sleep(time.Duration(st.Ms) * time.Millisecond)
		case stAwait:
			if reconnAfter >= 0 {
				dl := time.Now().Add(ro.budget)
				for time.Now().Before(dl) && p.F.Alive() {
					if yes, _ := p.px.Reconnected(reconnAfter); yes {
						break
					}
					time.Sleep(5 * time.Millisecond)
				}
			}
		}
		if st.Kind == stPubStorm {
			out.label("leader:pubstorm")
		}
		if st.Kind != stBurst && st.Kind != stSlow && st.Kind != stPubStorm && st.Kind != stAwait && st.Kind != stSleep {
			faultSeen = true
			out.label("fault:" + st.Kind)
		}
		if st.Sync {
			p.syncCheck(phase+" sync", out, ro.budget, nil)
			if out.vioKey != "" || out.inconclusive != "" {
				return
			}
			steady = true
		}
		if reqsBefore >= 0 && len(p.px.AllAOFReqs()) > reqsBefore {
			// nothing was done to the link or the follower, yet it re-synchronised
			out.label("spontaneous-resync-during:" + st.Kind)
		}
	}
	p.px.Unstall()
	p.syncCheck("final", out, ro.budget, nil)
	if out.vioKey != "" || out.inconclusive != "" {
		return
	}
	gap := time.Duration(cs.TailGapMs) * time.Millisecond
	if gap == 0 {
		gap = time.Millisecond
	}
	p.px.SetLink(linkProfile{Delay: time.Duration(cs.TailDelayMs) * time.Millisecond, Chunk: cs.TailChunk, Gap: gap})
	if cs.TailCut {
		p.syncCheck("final+cut", out, ro.budget, func() error { p.px.Cut(); return nil })
		if out.vioKey != "" || out.inconclusive != "" {
			return
		}
		out.label("tail:cut")
	}
	if cs.TailRefollow {
		p.syncCheck("final+refollow", out, ro.budget, func() error {
			if !p.refollow("final+refollow", out, nil, nil, ro.budget) {
				return fmt.Errorf("refollow failed: %s%s", out.inconclusive, out.vioWhat)
			}
			return nil
		})
		if out.vioKey != "" || out.inconclusive != "" {
			return
		}
		out.label("tail:refollow")
	}
	if cs.TailRest {
		p.syncCheck("final+restart", out, ro.budget, p.restartFollower)
		if out.vioKey != "" || out.inconclusive != "" {
			return
		}
		out.label("tail:restart")
	}
	return
}

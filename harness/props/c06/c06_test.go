// C06: a caught-up follower is an exact copy of its leader.
//
// Leader and follower run in-process with a small TCP proxy between them.
// Generated leader histories (keyspace writes, hooks/channels, writing
// scripts, padding that moves the logs across the 512 KiB checksum window) are
// applied in bursts; between bursts generated faults hit the replication:
// follower restart, connection cut, stall, outage, AOFSHRINK on the leader,
// FOLLOW no one + re-FOLLOW (with or without writes on the detached
// follower). The follower starts empty, with a prefix of the leader's log, with
// unrelated data or with a longer log. Whenever the leader is quiescent and the
// follower makes a binding caught-up / healthy claim, both datasets must be
// identical.
package c06

import (
	"encoding/json"
	"fmt"
	"hash/fnv"
	"os"
	"sort"
	"strings"
	"sync"
	"testing"
	"time"

	"github.com/tidwall/tile38/verif/harness/ev"
	"github.com/tidwall/tile38/verif/harness/t38"
)

// Known-finding ids (root causes) this check can attribute a mismatch to.
const (
	// a follower that holds data and resumes at log position 0 (own log < 512 KiB,
	// or first 512 KiB differ from the leader's) keeps its dataset and log counter
	findingKeepsOldData = "follower-keeps-old-data"
	// the truncate-and-reload resynchronisation clears collections only: hooks and
	// channels of the discarded log suffix survive
	findingKeepsHooks = "follower-reload-keeps-hooks"
	// the backward scan for the last command boundary accepts a "*<n>" inside a
	// bulk string as an array header: the follower cuts its log inside a command
	// and exits with "aof size mismatch during reload"
	findingCutInsideBulk = "follower-truncates-inside-bulk"
	// the leader writes forwarded PUBLISH frames onto the replication connection
	// from another goroutine than the one streaming the log
	findingPublishInStream = "publish-interleaves-replication-stream"
	// setCaughtUp(true) is not guarded by the follow generation: a follow session
	// superseded by a new FOLLOW finishes its handshake and marks the server caught up
	findingStaleSession = "stale-follow-session-sets-caught-up"
	// followCheckSome takes "verified prefix ends on a command boundary" for "log
	// fully intact": the follower keeps the unverified rest of its log and dataset,
	// asks for the stream from the verified position and applies it on top
	findingKeepsTail = "follower-keeps-unverified-tail"
	// the truncate-and-reload resynchronisation leaves the follower's log buffer in
	// place: buffered commands are later written behind the truncated prefix, in
	// the wrong position and uncounted
	findingKeepsLogBuffer = "follower-truncate-keeps-aofbuf"
	// findings of a code reader, repaired; the probes and fault kinds were added afterwards
	findingUnprobedRegions = "follower-resync-trusts-unprobed-regions"
	findingNoAOFKeepsData  = "follower-no-aof-keeps-old-data"
	findingSwitchServes    = "follower-leader-switch-serves-partial"
	// AOF <pos> is checked against one log file and streamed from another when an
	// AOFSHRINK swap falls between cmdAOF and liveAOF
	findingAOFPosSwap = "aof-pos-validated-before-shrink-swap"
)

func caseSeed(sub string, i int) int {
	h := fnv.New64a()
	fmt.Fprintf(h, "%d/%s/%d", ev.Seed(sub), sub, i)
	return int(h.Sum64() >> 2)
}

func sortedLabels(m map[string]bool) []string {
	var out []string
	for k := range m {
		out = append(out, k)
	}
	sort.Strings(out)
	return out
}

// abstractCase is the distinctness key of a case: initial state, size
// classes, the sequence of step kinds and the resume positions' classes.
func abstractCase(cs *caseSpec, out *outcome) string {
	var b strings.Builder
	b.WriteString(cs.Init)
	for _, l := range sortedLabels(out.labels) {
		if strings.HasPrefix(l, "init-log:") || strings.HasPrefix(l, "leader-log-at-follow:") || strings.HasPrefix(l, "init:prefix=") {
			b.WriteString("|" + l)
		}
	}
	for _, st := range cs.Steps {
		b.WriteString(";" + st.Kind)
		if st.Sync {
			b.WriteString("+sync")
		}
	}
	fmt.Fprintf(&b, ";tail=%v,%v;resumes=", cs.TailCut, cs.TailRest)
	for _, r := range out.resumes {
		switch {
		case r == 0:
			b.WriteString("0,")
		case r < window:
			b.WriteString("s,")
		default:
			fmt.Fprintf(&b, "w%d,", r/window)
		}
	}
	return b.String()
}

func nontrivial(cs *caseSpec, out *outcome) bool {
	kinds := map[string]bool{}
	for l := range out.labels {
		if strings.HasPrefix(l, "fault:") {
			kinds[l] = true
		}
	}
	nk := len(kinds)
	if cs.TailCut && !kinds["fault:"+stCut] {
		nk++
	}
	if cs.TailRest && !kinds["fault:"+stRestart] {
		nk++
	}
	return nk >= 2 && out.labels["burst-after-fault"] && out.syncs >= 1
}

func describe(cs *caseSpec) map[string]any {
	var steps []string
	for _, st := range cs.Steps {
		s := st.Kind
		if len(st.LCmds) > 0 {
			s += fmt.Sprintf("[leader %d cmds]", len(st.LCmds))
		}
		if len(st.Cmds) > 0 {
			s += fmt.Sprintf("[%d cmds, %d B]", len(st.Cmds), totalBytes(st.Cmds))
		}
		if st.Ms > 0 {
			s += fmt.Sprintf("[%d ms]", st.Ms)
		}
		if st.Sync {
			s += "+sync"
		}
		steps = append(steps, s)
	}
	return map[string]any{"init": cs.Init, "pre": fmt.Sprintf("%d cmds, %d B", len(cs.Pre), totalBytes(cs.Pre)),
		"own": fmt.Sprintf("%d cmds, %d B", len(cs.Own), totalBytes(cs.Own)), "prefix_cut": cs.PrefixCut,
		"steps": steps, "tail_cut": cs.TailCut, "tail_restart": cs.TailRest, "first_sync": cs.FirstSync}
}

// runCases executes the cases on `workers` concurrent server pairs.
func runCases(t *testing.T, c *ev.Collector, specs []caseSpec, workers int, budget time.Duration) {
	type res struct {
		i   int
		out *outcome
	}
	jobs := make(chan int)
	results := make(chan res)
	var wg sync.WaitGroup
	for w := 0; w < workers; w++ {
		wg.Add(1)
		go func() {
			defer wg.Done()
			for i := range jobs {
				results <- res{i, runCase(&specs[i], runOpts{budget: budget})}
			}
		}()
	}
	go func() {
		for i := range specs {
			jobs <- i
		}
		close(jobs)
		wg.Wait()
		close(results)
	}()
	var failed []res
	for r := range results {
		cs, out := &specs[r.i], r.out
		c.Case()
		for l := range out.labels {
			c.Label(l)
		}
		c.LabelN("binding-claims-compared", out.claimsCheckd)
		c.LabelN("oracle-evaluations", out.syncs)
		if out.skipped != "" {
			c.Excluded(out.skipped)
			continue
		}
		if out.inconclusive != "" {
			c.Label("inconclusive")
			c.Inconclusive("case %d: %s", r.i, out.inconclusive)
		}
		if out.vioKey != "" {
			failed = append(failed, r)
			continue
		}
		if nontrivial(cs, out) {
			c.NonTrivial(abstractCase(cs, out))
			if c.WantSample() {
				d := describe(cs)
				d["labels"] = sortedLabels(out.labels)
				d["resume_positions"] = out.resumes
				c.Sample(d)
			}
		}
	}
	// report the failures: one per key, shrunk
	sort.Slice(failed, func(a, b int) bool { return failed[a].i < failed[b].i })
	seen := map[string]bool{}
	for _, r := range failed {
		if seen[r.out.vioKey] {
			continue
		}
		seen[r.out.vioKey] = true
		small, sout := shrinkCase(specs[r.i], r.out, budget, ev.Pick(45, 120))
		c.Violation(sout.vioKey, sout.vioWhat, small)
		t.Errorf("VIOLATION-CANDIDATE key=%s: case %d: %s", sout.vioKey, r.i, sout.vioWhat)
	}
}

// ---- deterministic probes ---------------------------------------------------------

func pads(key string, n, size int) [][]string {
	var out [][]string
	for i := 0; i < n; i++ {
		out = append(out, []string{"SET", key, fmt.Sprintf("p%d", i), "STRING", fmt.Sprintf("%s%d:%d", padPrefix, size, i+1)})
	}
	return out
}

// padsExactly returns pad commands whose log size is exactly total bytes.
func padsExactly(key string, total int) [][]string {
	var out [][]string
	left := total
	for i := 0; left > 0; i++ {
		size := 30000
		mk := func(n int) []string {
			return []string{"SET", key, fmt.Sprintf("q%d", i), "STRING", fmt.Sprintf("%s%d:%d", padPrefix, n, i+1)}
		}
		if cmdBytes(mk(size))+200 > left {
			// last one: find the payload size that makes the total exact
			for n := 0; n <= left; n++ {
				if cmdBytes(mk(n)) == left {
					size = n
					break
				}
			}
		}
		c := mk(size)
		out = append(out, c)
		left -= cmdBytes(c)
	}
	if left != 0 {
		panic("padsExactly: cannot hit the size")
	}
	return out
}

// padsCycling returns n pad commands that keep overwriting `ids` objects with
// different content, so that a replay of the log is visible in the dataset.
func padsCycling(key string, n, size, ids int) [][]string {
	var out [][]string
	for i := 0; i < n; i++ {
		out = append(out, []string{"SET", key, fmt.Sprintf("p%d", i%ids), "STRING", fmt.Sprintf("%s%d:%d", padPrefix, size, i+1)})
	}
	return out
}

// bigRecords is n x SET big rNNN STRING <size bytes>.
func bigRecords(n, size int) [][]string {
	out := make([][]string, n)
	for i := range out {
		out[i] = []string{"SET", "big", fmt.Sprintf("r%03d", i), "STRING", fmt.Sprintf("%s%d:%d", padPrefix, size, 100+i)}
	}
	return out
}

type probe struct {
	name    string
	finding string // id reported when the probe's case fails
	status  string // "open": a suspected/known defect; "regression": repaired earlier, must stay repaired; "guard": expected to hold
	what    string
	spec    caseSpec
	custom  func() *outcome // a fixed history that the case runner cannot express
}

func probes() []probe {
	var overwrites [][]string
	for i := 1; i <= 40; i++ {
		overwrites = append(overwrites, []string{"SET", "k1", "a", "POINT", fmt.Sprint(i), fmt.Sprint(i)})
	}
	feature := `{"type":"Feature","geometry":{"type":"Point","coordinates":[1,2]},"properties":{"tag":"t","speed":3}}`
	return []probe{
		{
			name: "unrelated-data", finding: findingKeepsOldData, status: "open",
			what: "follower executed SET u1 own POINT 1 2 before FOLLOW; leader holds only k1/a; after FOLLOW the follower reports caught_up and serves both",
			spec: caseSpec{Init: initUnrelated, FirstSync: true,
				Pre: [][]string{{"SET", "k1", "a", "POINT", "3", "4"}},
				Own: [][]string{{"SET", "u1", "own", "POINT", "1", "2"}}},
		},
		{
			name: "prefix-early-claim", finding: findingKeepsOldData, status: "open",
			what: "follower starts on a byte-identical copy of the leader's (small) log; after a reconnect over a slow link it replays the log from 0 on top of its dataset and claims caught_up after the first command",
			spec: caseSpec{Init: initPrefix, PrefixCut: 1000, FirstSync: true, Pre: overwrites,
				TailCut: true, TailDelayMs: 100, TailChunk: 48, TailGapMs: 25},
		},
		{
			name: "shrink-after-missed-delete", finding: findingKeepsOldData, status: "open",
			what: "follower in sync; replication link down; leader DEL k1 a and AOFSHRINK; follower reconnects, replays the shrunk log from 0 on top of its dataset and keeps k1/a for ever",
			spec: caseSpec{Init: initEmpty, FirstSync: true,
				Pre:   [][]string{{"SET", "k1", "a", "POINT", "1", "1"}, {"SET", "k1", "b", "POINT", "2", "2"}},
				Steps: []step{{Kind: stDown, Ms: 1500}, {Kind: stBurst, Cmds: [][]string{{"DEL", "k1", "a"}}}, {Kind: stShrink}}},
		},
		{
			name: "checksum-exchange-dropped", finding: findingKeepsOldData, status: "open",
			what: "follower in sync with a leader log > 512 KiB; the connection drops and, on the reconnect, the connection carrying AOFMD5 is closed in mid-air: the follower reads EOF as 'leader log shorter', empties its log file, keeps dataset and counter, re-applies the whole leader log over a slow link and claims caught_up after the first command",
			spec: caseSpec{Init: initEmpty, FirstSync: true,
				Pre:   padsCycling("pad", 21, 30000, 3),
				Steps: []step{{Kind: stSlow, Ms: 150, Chunk: 16384, GapMs: 10}, {Kind: stCutMD5}}},
		},
		{
			name: "longer-log-own-channel", finding: findingKeepsHooks, status: "open",
			what: "follower holds the leader's whole log (> 512 KiB) plus SET u1 own / SETCHAN uc of its own; after FOLLOW the truncate-and-reload drops u1 but keeps channel uc",
			spec: caseSpec{Init: initLonger, FirstSync: true,
				Pre: append(pads("pad", 21, 30000), []string{"SET", "k1", "a", "POINT", "3", "4"}),
				Own: [][]string{{"SET", "u1", "own", "POINT", "1", "2"}, {"SETCHAN", "uc", "WITHIN", "u1", "FENCE", "BOUNDS", "0", "0", "5", "5"}}},
		},
		{
			name: "reload-rename-before-hook", finding: findingKeepsHooks, status: "open",
			what: "leader log: SET k1 a, RENAME k1 k2, SETCHAN c1 on k2, then > 512 KiB of writes; the follower (an exact copy) reconnects: reset() keeps channel c1, re-loading the truncated log fails at RENAME with 'key has channels set' and the follower process exits",
			spec: caseSpec{Init: initEmpty, FirstSync: true,
				Pre: append([][]string{{"SET", "k1", "a", "POINT", "1", "1"}, {"RENAME", "k1", "k2"},
					{"SETCHAN", "c1", "WITHIN", "k2", "FENCE", "BOUNDS", "0", "0", "5", "5"}}, pads("pad", 21, 30000)...),
				Steps: []step{{Kind: stCut}}},
		},
		{
			name: "boundary-inside-field-name", finding: findingCutInsideBulk, status: "open",
			what: "leader log > 512 KiB in which offset 524288 falls inside SET k1 a FIELD x*1 5 POINT 1 1, after the field name; the follower (an exact copy) reconnects, takes \"*1 $1 5\" for the last complete command, truncates its log inside the SET and exits",
			spec: caseSpec{Init: initEmpty, FirstSync: true,
				Pre:   append(append(padsExactly("pad", window-60), []string{"SET", "k1", "a", "FIELD", "x*1", "5", "POINT", "1", "1"}), pads("pad", 4, 30000)...),
				Steps: []step{{Kind: stCut}}},
		},
		{
			name: "publish-during-stream", finding: findingPublishInStream, status: "open",
			what: "follower attached and in sync; one leader connection writes large objects while another sends PUBLISH: the leader forwards each PUBLISH on the replication connection from a second goroutine, between the 8 KiB chunks of the log stream",
			spec: caseSpec{Init: initEmpty, FirstSync: true,
				Pre:      padsCycling("pad", 22, 30000, 3),
				Steps:    []step{{Kind: stPubStorm, Ms: 600, Cmds: padsCycling("pad", 40, 30000, 5), Sync: true}, {Kind: stPubStorm, Ms: 600, Cmds: padsCycling("pad", 40, 29000, 5)}},
				TailRest: true},
		},
		{
			name: "resume-on-command-boundary", finding: findingKeepsTail, status: "open",
			what: "leader log of ~860 KiB in which a command ends exactly at offset 524288; the follower (an exact copy) reconnects: the verified prefix (one window) ends on a command boundary, which followCheckSome reports as 'aof fully intact'; nothing is truncated, the follower asks AOF 524288, re-applies everything behind it on top of its dataset over a slow link, appends them to its log again and claims caught_up after the first command",
			spec: caseSpec{Init: initEmpty, FirstSync: true, Settle: true,
				Pre:     append(padsExactly("pad", window), padsCycling("pad", 12, 29000, 1)...),
				TailCut: true, TailDelayMs: 100, TailChunk: 4096, TailGapMs: 20},
		},
		{
			name: "superseded-session-claims", finding: findingStaleSession, status: "open",
			what: "follower in sync (log > 512 KiB); link cut; the follower's new session has sent AOF <pos> (pos = its whole log) and waits for +OK (held 2.5 s by the proxy); leader writes; FOLLOW no one + FOLLOW starts a second session (its +OK held 9 s); the first session gets +OK, finds pos >= aof_size of its old SERVER reply and sets caught_up although it was superseded: caught_up=true / HEALTHZ ok while the leader's later writes are missing",
			spec: caseSpec{Init: initEmpty, FirstSync: true, Settle: true,
				// > 1 MiB: the last-window checksum then confirms the whole log and the session resumes at pos == aof_size
				Pre: padsCycling("pad", 40, 30000, 3),
				Steps: []step{{Kind: stSlow, Ms: 2500}, {Kind: stCut}, {Kind: stAwait}, {Kind: stSlow, Ms: 9000},
					{Kind: stBurst, Cmds: [][]string{{"SET", "k1", "late", "POINT", "5", "6"}}}, {Kind: stRefCheck}}},
		},
		{
			name: "shrink-during-backlog-copy", finding: "", status: "guard",
			what: "a follower with an empty disk attaches to a leader with a 7 MB log over a link that delivers nothing for 2 s; while the leader is still copying the backlog, AOFSHRINK swaps the log; then the leader writes k1/late. The follower must be sent to the new log (the leader disconnects it) and end up with k1/late; a leader that does not know this connection yet leaves it on the old, unlinked file for ever",
			spec: caseSpec{Init: initEmpty, FirstSync: true,
				Pre: [][]string{{"SET", "k1", "a", "POINT", "1", "1"}},
				Steps: []step{{Kind: stShrinkBacklog, Ms: 2000, Cmds: padsCycling("pad", 80, 88000, 4),
					LCmds: [][]string{{"SET", "k1", "late", "POINT", "5", "6"}}}}},
		},
		{
			name: "restart-after-buffered-resync", finding: findingKeepsLogBuffer, status: "open",
			what:   "follower (log 660 KB) in sync; leader RENAME k3 k4, which sits in the follower's log buffer; a pipelined SLEEP 1.6 / SLEEP 0.8 on the follower keeps the flusher and any client reply away; link cut; the follower reconnects, verifies one window, truncates its log to 510937 bytes and reloads it without emptying the buffer; the buffered RENAME is then written behind the prefix, before the rest of the log that is streamed again",
			custom: logBufferHistory,
		},
		{
			name: "equal-length-overwrite-between-shrinks", finding: findingUnprobedRegions, status: "regression",
			what: "leader: 60 x SET big rNNN STRING <60000 B>, AOFSHRINK (3.6 MB log in id order); the follower has caught up; SET big r017 STRING <other 60000 B> (same encoded length), AOFSHRINK again: the two logs differ only inside one record at offset ~1.02 MB, which the window bisection (windows at 0, 3.1 MB, 1.57 MB, 2.35 MB) never compares; the follower kept its stale record and said caught up with an equal aof_size",
			spec: caseSpec{Init: initEmpty, FirstSync: true,
				Pre: [][]string{{"SET", "k1", "a", "POINT", "1", "1"}},
				Steps: []step{{Kind: stRewriteShrink, Cmds: bigRecords(60, 60000),
					LCmds: [][]string{{"SET", "big", "r017", "STRING", fmt.Sprintf("%s%d:%d", padPrefix, 60000, 999)}}}}},
		},
		{
			name: "follower-without-aof-keeps-own-data", finding: findingNoAOFKeepsData, status: "regression",
			what: "a follower started with --appendonly no holds old/x, then FOLLOWs an empty leader and is caught up; the leader writes k/a: the follower must hold exactly k/a",
			spec: caseSpec{Init: initUnrelated, NoAOF: true, FirstSync: true,
				Own:   [][]string{{"SET", "old", "x", "POINT", "1", "1"}},
				Steps: []step{{Kind: stBurst, Sync: true, Cmds: [][]string{{"SET", "k", "a", "POINT", "2", "2"}}}}},
		},
		{
			name: "switch-to-another-leader", finding: findingSwitchServes, status: "regression",
			what: "the follower has caught up with leader A; FOLLOW points it at leader B (1.2 MB log, paced link): while HEALTHZ says it has not caught up, every read must be refused with 'catching up to leader'; afterwards it must be a copy of B",
			spec: caseSpec{Init: initEmpty, FirstSync: true,
				Pre: [][]string{{"SET", "k1", "a", "POINT", "1", "1"}, {"SET", "onlyA", "x", "POINT", "3", "3"}},
				Steps: []step{{Kind: stSwitch, Chunk: 8192, GapMs: 3,
					Cmds: append(padsCycling("pad", 40, 30000, 3), []string{"SET", "k1", "b", "POINT", "2", "2"})}}},
		},
		{
			name: "shrink-between-aof-check-and-open", finding: findingAOFPosSwap, status: "open",
			what:   "leader (child process, log pipe kept full by the harness) holds a 2.1 MB log for a tiny dataset; the follower, in sync, reconnects and asks AOF <its size>; the leader validates the position and blocks in its 'live' log line; AOFSHRINK swaps in a log of a few hundred bytes; the pipe is drained; the leader then writes k/new and k/new2",
			custom: aofPosSwapHistory,
		},
		{
			name: "split-same-length", finding: "", status: "guard",
			what: "follower detached, both sides then log the same number of bytes (different commands), follower re-attached: the resume position must be found by checksum, not by size",
			spec: caseSpec{Init: initEmpty, FirstSync: true, Settle: true,
				// > 1 MiB: only then does the search compare the last window, where the two logs differ
				Pre: padsCycling("pad", 40, 30000, 3),
				Steps: []step{{Kind: stSplit,
					Cmds:  [][]string{{"SET", "u1", "s0", "POINT", "11", "12"}, {"SET", "u1", "s1", "POINT", "13", "14"}},
					LCmds: [][]string{{"SET", "k1", "t0", "POINT", "21", "22"}, {"SET", "k1", "t1", "POINT", "23", "24"}}}},
				TailRest: true},
		},
		{
			name: "follower-does-not-expire-on-its-own", finding: "follower-expires-independently", status: "regression",
			what: "follower holds kf/x with a 3 s TTL; the link stalls for 5 s; the leader PERSISTs kf/x at once; the follower must keep the object until the PERSIST arrives (it used to sweep and log its own del, then the PERSIST found nothing: leader keeps x for ever, follower never has it)",
			spec: caseSpec{Init: initEmpty, FirstSync: true, Settle: true,
				Pre: padsCycling("pad", 22, 30000, 3),
				Steps: []step{
					{Kind: stBurst, Sync: true, Cmds: [][]string{{"SET", "kf", "x", "EX", "3", "POINT", "33", "-115"}}},
					{Kind: stStall, Ms: 5000},
					{Kind: stBurst, Cmds: [][]string{{"PERSIST", "kf", "x"}}},
					{Kind: stSleep, Ms: 4500}}},
		},
		{
			name: "jdel-replicated", finding: "jdel-not-a-write", status: "regression",
			what: "JDEL on the leader must reach the follower and its log (it used to be neither logged nor streamed)",
			spec: caseSpec{Init: initEmpty, FirstSync: true, Settle: true,
				Pre: append(padsCycling("pad", 22, 30000, 3), []string{"SET", "k1", "a", "OBJECT", feature}),
				Steps: []step{{Kind: stBurst, Sync: true, Cmds: [][]string{
					{"JSET", "k1", "a", "properties.tag", "x"}, {"JSET", "k1", "a", "properties.extra", "5", "RAW"}, {"JDEL", "k1", "a", "properties.tag"}}}},
				TailRest: true},
		},
	}
}

func TestC06_Probes(t *testing.T) {
	if ev.Shard() != 0 {
		t.Skip("deterministic probes run on shard 0 only")
	}
	c := ev.New("C06", "probes", "exploration")
	t.Cleanup(c.Flush)
	c.Rule("fixed minimal cases, one per suspected/known root cause and one per repaired defect that falls under this property, run through the same runner and oracle as the generated cases; each counts as one evaluation; non-trivial: the probe's case reaches at least one binding caught-up claim")
	ps := probes()
	outs := make([]*outcome, len(ps))
	var wg sync.WaitGroup
	for i := range ps {
		wg.Add(1)
		go func(i int) {
			defer wg.Done()
			if ps[i].custom != nil {
				outs[i] = ps[i].custom()
				return
			}
			outs[i] = runCase(&ps[i].spec, runOpts{budget: 30 * time.Second})
		}(i)
	}
	wg.Wait()
	reported := map[string]bool{}
	for i, p := range ps {
		out := outs[i]
		c.Case()
		c.Label("probe:" + p.name)
		if out.claimsCheckd > 0 {
			c.NonTrivial("probe:" + p.name)
		}
		if out.inconclusive != "" {
			c.Inconclusive("probe %s: %s", p.name, out.inconclusive)
			continue
		}
		if out.vioKey == "" {
			c.Label("probe-holds:" + p.name)
			continue
		}
		c.Label("probe-reproduces:" + p.name)
		what := "probe " + p.name + ": " + p.what + " -- " + out.vioWhat
		key := p.finding
		if out.vioKey != p.finding && (p.status != "regression" || !strings.HasPrefix(out.vioKey, "mismatch:")) {
			// fails, but not the way this probe was written for: report under the observed key
			key = out.vioKey
		}
		if ev.KnownActive(key) {
			c.Known(key, what)
			continue
		}
		c.Note("%s", what)
		if reported[key] {
			continue // one violation (and replay file) per root cause; the others are in the notes
		}
		reported[key] = true
		var replay any = p.spec
		if p.custom != nil {
			replay = map[string]string{"custom": p.name}
		}
		c.Violation(key, what, replay)
		t.Errorf("VIOLATION-CANDIDATE key=%s: %s", key, what)
	}
}

// ---- generated cases -----------------------------------------------------------------

func TestC06_Faults(t *testing.T) {
	c := ev.New("C06", "faults", "exploration")
	t.Cleanup(c.Flush)
	c.Rule("a case = leader pre-history (keyspace writes from gen.KeyspaceCmd, SETHOOK/SETCHAN/DELHOOK/DELCHAN/PDELHOOK/PDELCHAN, writing EVAL scripts, padding that puts the log below / just below / just above / far above the 512 KiB checksum window) x initial follower state {empty, prefix of the leader's log cut at a command boundary (incl. the whole log), unrelated own history, leader's whole log + own commands} x 1..N steps drawn from {burst of leader writes, follower restart, proxy cut, proxy stall 1-2 s, proxy outage, AOFSHRINK on the leader, FOLLOW no one + FOLLOW, FOLLOW no one + own writes + FOLLOW, slow link} with optional oracle evaluations after any step, then a final evaluation, optionally again after a forced cut and after a follower restart (over a delayed, paced link). Oracle evaluation: unique marker written last on the quiescent leader; every poll at which the follower says caught_up/HEALTHZ ok AND the claim is binding (replication request seen on a connection accepted after the marker, or the marker is visible on the follower) compares full dumps (objects, fields, TTL flags, hooks, channels). Non-trivial: >= 2 different fault kinds (tail cut/restart included), >= 1 burst after a fault and >= 1 completed oracle evaluation; distinct by initial state, log size classes, step-kind sequence and the classes of the observed resume positions.")
	c.Assume("TTLs are >= 1e5 s so nothing expires during a case; the follower applies the log in order (marker visibility => everything before it applied) -- this is the replication design itself")
	o := genOpts{maxSteps: ev.Pick(5, 7)}
	o.noResyncFromZero = ev.KnownActive(findingKeepsOldData)
	o.noOwnHooks = ev.KnownActive(findingKeepsHooks)
	o.noRenameWithHooks = o.noOwnHooks
	o.noStarDigit = ev.KnownActive(findingCutInsideBulk)
	o.noStaleSession = ev.KnownActive(findingStaleSession)
	o.noShrinkInHandshake = ev.KnownActive(findingAOFPosSwap)
	o.noBoundaryAt512K = ev.KnownActive(findingKeepsTail)
	n := ev.Pick(128, 150)
	full := caseGen(genOpts{maxSteps: o.maxSteps})
	g := caseGen(o)
	var specs []caseSpec
	for i := 0; i < n; i++ {
		seed := caseSeed("faults", i)
		if o.noResyncFromZero || o.noOwnHooks || o.noStarDigit || o.noStaleSession || o.noShrinkInHandshake {
			// what the unrestricted generator would have produced for this seed
			u := full.Example(seed)
			if o.noResyncFromZero && shapeResyncFromZero(&u) {
				c.Excluded(findingKeepsOldData)
			}
			if o.noOwnHooks && shapeOwnHooks(&u) {
				c.Excluded(findingKeepsHooks)
			}
			if o.noStarDigit && shapeStarDigit(&u) {
				c.Excluded(findingCutInsideBulk)
			}
			if o.noStaleSession && shapeStaleSession(&u) {
				c.Excluded(findingStaleSession)
			}
			if o.noShrinkInHandshake && shapeShrinkInHandshake(&u) {
				c.Excluded(findingAOFPosSwap)
			}
		}
		specs = append(specs, g.Example(seed))
	}
	if only := os.Getenv("C06_ONLY"); only != "" {
		// debugging aid: run a single generated case
		var i int
		fmt.Sscan(only, &i)
		specs = specs[i : i+1]
	}
	if o.noResyncFromZero {
		c.Note("known finding %s active: generator restricted to cases in which a follower holding data never resumes at position 0 (logs >= 600 KiB before the first fault, first catch-up awaited, no unrelated initial state, no AOFSHRINK)", findingKeepsOldData)
	}
	if o.noShrinkInHandshake {
		c.Note("known finding %s active: every AOFSHRINK is preceded by an oracle evaluation (no follower handshake in flight); the remaining chance hit (a spontaneous reconnect inside the microsecond window) would show as mismatch:caught-up-but-never-fed", findingAOFPosSwap)
	}
	if o.noStaleSession {
		c.Note("known finding %s active: every step that re-issues FOLLOW is preceded by an oracle evaluation (steady follower), no tail refollow", findingStaleSession)
	}
	if o.noBoundaryAt512K {
		c.Note("known finding %s active: a case whose leader log has a command boundary exactly at offset 524288 when the follower is created is skipped (counted as excluded); for followers with a diverged log the verified prefix can end anywhere, a hit there (about 1e-4 per reconnect) cannot be attributed and would show as mismatch:*", findingKeepsTail)
	}
	if o.noStarDigit {
		c.Note("known finding %s active: no key/id/field name ends in *<digits>", findingCutInsideBulk)
	}
	if o.noOwnHooks {
		c.Note("known finding %s active: the follower never creates hooks/channels of its own, and no case mixes hook/channel commands with RENAME/RENAMENX", findingKeepsHooks)
	}
	runCases(t, c, specs, ev.Pick(24, 5), 25*time.Second)
}

func TestReplay(t *testing.T) {
	doc, ok := ev.ReplayFile()
	if !ok {
		t.Skip("no replay file")
	}
	c := ev.New("C06", "replay", "exploration")
	t.Cleanup(c.Flush)
	var cu struct {
		Custom string `json:"custom"`
	}
	if json.Unmarshal(doc.Data, &cu) == nil && cu.Custom != "" {
		// a probe with a fixed history of its own
		for _, p := range probes() {
			if p.name == cu.Custom && p.custom != nil {
				c.Case()
				out := p.custom()
				if out.inconclusive != "" {
					c.Inconclusive("replay: %s", out.inconclusive)
				}
				if out.vioKey != "" {
					c.Violation(out.vioKey, out.vioWhat, cu)
					t.Errorf("VIOLATION-CANDIDATE key=%s: %s", out.vioKey, out.vioWhat)
				}
				return
			}
		}
		t.Fatalf("unknown custom probe %q", cu.Custom)
	}
	var cs caseSpec
	if err := json.Unmarshal(doc.Data, &cs); err != nil {
		t.Fatalf("bad replay data: %v", err)
	}
	c.Case()
	// timing plays a role (retry sleeps, polling): give a failing case three chances to show
	for try := 0; try < 3; try++ {
		out := runCase(&cs, runOpts{budget: 30 * time.Second})
		if out.inconclusive != "" {
			c.Inconclusive("replay: %s", out.inconclusive)
		}
		if out.vioKey != "" {
			c.Violation(out.vioKey, out.vioWhat, cs)
			t.Errorf("VIOLATION-CANDIDATE key=%s: %s", out.vioKey, out.vioWhat)
			return
		}
	}
}

var _ = t38.CmdString

package c06

import (
	"fmt"
	"os"
	"strconv"
	"strings"
	"time"

	"github.com/tidwall/tile38/verif/harness/t38"
)

// aofPosSwapHistory is the fixed history of the probe shrink-between-aof-check-and-open.
//
// The leader answers `AOF <pos>` in two parts: cmdAOF checks pos against the
// size of the current log file and returns; the connection then "goes live"
// and liveAOF opens the log file by name, seeks to pos and registers the
// connection for the AOFSHRINK kill. Between the two, goLive writes the log line
// "live <addr>". When the AOFSHRINK swap falls into that gap, pos was checked
// against the old file and is applied to the new one, and the connection is
// not disconnected. The gap is microseconds wide unless the leader's log
// output blocks: here the leader is a child process whose stderr pipe is kept
// full by the harness for the duration of the shrink.
func aofPosSwapHistory() (out *outcome) {
	out = &outcome{labels: map[string]bool{}}
	fail := func(format string, a ...any) *outcome {
		out.inconclusive = fmt.Sprintf(format, a...)
		return out
	}
	ldir := t38.NewDir("c06l")
	LP, err := startProc(procOpts{Dir: ldir, OwnPipe: true})
	if err != nil {
		return fail("leader: %v", err)
	}
	p := &pair{L: &t38.Srv{Addr: LP.Addr, Dir: ldir}, LP: LP, nonceBase: fmt.Sprintf("n%d-%d", os.Getpid(), nonceCounter.Add(1))}
	if p.px, err = newProxy(LP.Addr); err != nil {
		LP.Kill()
		return fail("proxy: %v", err)
	}
	defer p.close()
	if p.lc, err = t38.Dial(LP.Addr); err != nil {
		return fail("leader: %v", err)
	}
	// 2.1 MB of log for a dataset of a few hundred bytes
	pre := padsCycling("pad", 70, 30000, 1)
	pre = append(pre, []string{"SET", "pad", "p0", "STRING", "x"}, []string{"SET", "k", "a", "POINT", "1", "1"})
	if _, err := apply(p.lc, pre); err != nil {
		return fail("pre-history: %v", err)
	}
	p.fdir = t38.NewDir("c06f")
	if p.F, err = p.launchFollower(); err != nil {
		return fail("follower: %v", err)
	}
	fc, err := p.F.Dial()
	if err != nil {
		return fail("follower: %v", err)
	}
	v, err := fc.Do("FOLLOW", "127.0.0.1", strconv.Itoa(p.px.port))
	fc.Close()
	if err != nil || v.IsErr() {
		return fail("FOLLOW: %v %s", err, v.String())
	}
	p.syncCheck("attach", out, 30*time.Second, nil)
	if out.vioKey != "" || out.inconclusive != "" {
		return out
	}
	// the leader's next log line will block
	LP.BlockLog()
	acc := p.px.Accepted()
	p.px.Cut()
	seen := false
	for dl := time.Now().Add(20 * time.Second); time.Now().Before(dl); time.Sleep(2 * time.Millisecond) {
		if yes, _ := p.px.Reconnected(acc); yes {
			seen = true
			break
		}
	}
	if !seen {
		LP.ResumeLog()
		return fail("the follower did not reconnect")
	}
	_, resumePos := p.px.Reconnected(acc)
	time.Sleep(50 * time.Millisecond) // the leader has checked the position and sits in the "live" log line
	err = p.shrinkNow()
	LP.ResumeLog()
	if err != nil {
		return fail("%v", err)
	}
	lst, _ := serverStat(p.lc)
	out.label("fault:shrink-between-aof-check-and-open")
	if _, err := apply(p.lc, [][]string{{"SET", "k", "new", "POINT", "2", "2"}, {"SET", "k", "new2", "POINT", "3", "3"}}); err != nil {
		return fail("leader writes: %v", err)
	}
	p.syncCheck("after the swap", out, 30*time.Second, nil)
	if strings.HasPrefix(out.vioKey, "mismatch:") && int64(lst.aofSize) < resumePos {
		// the follower's position lies beyond the end of the leader's new log
		out.vioKey = findingAOFPosSwap
		out.vioWhat = fmt.Sprintf("the follower asked AOF %d, the leader checked that against its 2.1 MB log, AOFSHRINK then swapped in a log of %d bytes before the leader opened the log for streaming (its 'live' log line was blocked meanwhile); the connection was not disconnected and streams from beyond the end of the new log -- %s", resumePos, lst.aofSize, out.vioWhat)
	}
	return out
}

package c06

import (
	"encoding/json"
	"time"
)

func cloneCase(cs caseSpec) caseSpec {
	b, _ := json.Marshal(cs)
	var out caseSpec
	json.Unmarshal(b, &out)
	return out
}

// shrinkCase greedily reduces a failing case (drop the tail phases, steps,
// sync points, halves of command lists, single commands) while it keeps
// failing with the same key, within a wall-clock budget. Cases take seconds, so
// this is a bounded delta-debugging pass rather than rapid's shrinker.
func shrinkCase(cs caseSpec, out *outcome, budget time.Duration, maxSeconds int) (caseSpec, *outcome) {
	deadline := time.Now().Add(time.Duration(maxSeconds) * time.Second)
	key := out.vioKey
	best, bestOut := cloneCase(cs), out
	try := func(cand caseSpec) bool {
		if time.Now().After(deadline) {
			return false
		}
		o := runCase(&cand, runOpts{budget: budget})
		if o.vioKey == key {
			best, bestOut = cand, o
			return true
		}
		return false
	}
	for pass := 0; pass < 3 && time.Now().Before(deadline); pass++ {
		changed := false
		if best.TailRest {
			c := cloneCase(best)
			c.TailRest = false
			changed = try(c) || changed
		}
		if best.TailCut {
			c := cloneCase(best)
			c.TailCut = false
			changed = try(c) || changed
		}
		// drop whole steps, last first
		for i := len(best.Steps) - 1; i >= 0 && time.Now().Before(deadline); i-- {
			if i >= len(best.Steps) {
				continue
			}
			c := cloneCase(best)
			c.Steps = append(c.Steps[:i], c.Steps[i+1:]...)
			changed = try(c) || changed
		}
		if best.FirstSync {
			c := cloneCase(best)
			c.FirstSync = false
			changed = try(c) || changed
		}
		for i := range best.Steps {
			if best.Steps[i].Sync {
				c := cloneCase(best)
				c.Steps[i].Sync = false
				changed = try(c) || changed
			}
		}
		// command lists: remove chunks of decreasing size
		lists := func(c *caseSpec) []*[][]string {
			ls := []*[][]string{&c.Pre, &c.Own}
			for i := range c.Steps {
				if c.Steps[i].Kind == stSplit || c.Steps[i].Kind == stShrinkBacklog || c.Steps[i].Kind == stRewriteShrink {
					continue // the two lists of a split must keep equal sizes
				}
				ls = append(ls, &c.Steps[i].Cmds)
			}
			return ls
		}
		for li := range lists(&best) {
			for chunk := (len(*lists(&best)[li]) + 1) / 2; chunk >= 1 && time.Now().Before(deadline); chunk /= 2 {
				for at := 0; at < len(*lists(&best)[li]) && time.Now().Before(deadline); {
					c := cloneCase(best)
					l := lists(&c)[li]
					end := at + chunk
					if end > len(*l) {
						end = len(*l)
					}
					*l = append((*l)[:at:at], (*l)[end:]...)
					if try(c) {
						changed = true
					} else {
						at += chunk
					}
				}
			}
		}
		if !changed {
			break
		}
	}
	return best, bestOut
}

package c06

import (
	"bytes"
	"net"
	"strconv"
	"sync"
	"sync/atomic"
	"time"
)

// proxy is a small TCP forwarder that sits between a follower and its
// leader. The replication connection can be cut, stalled for a while, or
// refused for a while. It also watches the follower->leader direction for the
// `AOF <pos>` request that opens a replication stream, so that the check knows
// when (and from which log position) the follower last (re)connected.
type proxy struct {
	ln     net.Listener
	target string
	port   int

	mu         sync.Mutex
	conns      map[*pconn]struct{}
	accepted   int
	aofReqs    []aofReq // every `AOF pos` request seen, in order
	stallUntil time.Time
	downUntil  time.Time
	stallEnded time.Time // latest moment at which a stall / outage ended or will end
	link       linkProfile
	maxStreams int // largest number of simultaneously open replication streams seen since ResetMaxStreams
	killMD5    int // close the next n connections on which an AOFMD5 request arrives (before forwarding it)
	md5Killed  int
	closed     bool
	wg         sync.WaitGroup
}

type pconn struct {
	a, b net.Conn // a = follower side, b = leader side
	seq  int      // 1-based index in accept order
	once sync.Once

	aofAt     atomic.Int64 // unix nanos at which the AOF request went through (0 = not a replication stream)
	delivered atomic.Int64 // bytes handed to the follower on this stream since the AOF request (includes the 5 bytes of +OK and forwarded PUBLISH frames)
	lastMove  atomic.Int64 // unix nanos of the last moment a byte of this stream arrived from the leader or was handed to the follower
	closedAt  atomic.Int64 // unix nanos at which the connection was closed (0 = open)
	holdUntil atomic.Int64 // unix nanos until which nothing is delivered to the follower on this stream (delay in force when the request went through)
}

// linkProfile slows the leader->follower direction of replication streams
// (connections on which an AOF request was seen): nothing is delivered for
// Delay after the request (the Delay in force when the request went through),
// then at most Chunk bytes every Gap.
type linkProfile struct {
	Delay time.Duration
	Chunk int
	Gap   time.Duration
}

// aofReq is one replication-stream request: the resume position asked for and
// the accept index of the connection it travelled on.
type aofReq struct {
	pos int64
	seq int
	pc  *pconn
}

func (c *pconn) close() {
	c.once.Do(func() {
		c.a.Close()
		c.b.Close()
	})
}

func newProxy(target string) (*proxy, error) {
	ln, err := net.Listen("tcp", "127.0.0.1:0")
	if err != nil {
		return nil, err
	}
	p := &proxy{ln: ln, target: target, port: ln.Addr().(*net.TCPAddr).Port, conns: map[*pconn]struct{}{}}
	p.wg.Add(1)
	go p.acceptLoop()
	return p, nil
}

func (p *proxy) acceptLoop() {
	defer p.wg.Done()
	for {
		a, err := p.ln.Accept()
		if err != nil {
			return
		}
		p.mu.Lock()
		down := time.Now().Before(p.downUntil)
		closed := p.closed
		p.mu.Unlock()
		if down || closed {
			a.Close()
			continue
		}
		b, err := net.DialTimeout("tcp", p.target, 5*time.Second)
		if err != nil {
			a.Close()
			continue
		}
		if tc, ok := a.(*net.TCPConn); ok {
			tc.SetNoDelay(true)
		}
		if tc, ok := b.(*net.TCPConn); ok {
			tc.SetNoDelay(true)
			// a fixed, moderate receive buffer (no auto-tuning up to several MB):
			// when the proxy holds or paces a stream the leader must feel it (its
			// backlog copy blocks) instead of parking the whole log in socket
			// buffers. It has to stay well above the loopback MSS (64 KiB), a
			// smaller window makes the transfer crawl.
			tc.SetReadBuffer(256 * 1024)
		}
		pc := &pconn{a: a, b: b}
		p.mu.Lock()
		p.conns[pc] = struct{}{}
		p.accepted++
		pc.seq = p.accepted
		p.mu.Unlock()
		p.wg.Add(2)
		go p.pipe(pc, a, b, true)
		go p.pipe(pc, b, a, false)
	}
}

var aofReqPrefix = []byte("*2\r\n$3\r\naof\r\n$")

// pipe copies src to dst. In the follower->leader direction the first bytes are
// scanned for the AOF request.
func (p *proxy) pipe(pc *pconn, src, dst net.Conn, fromFollower bool) {
	defer p.wg.Done()
	defer func() {
		pc.close()
		pc.closedAt.CompareAndSwap(0, time.Now().UnixNano())
		p.mu.Lock()
		delete(p.conns, pc)
		p.mu.Unlock()
	}()
	buf := make([]byte, 32*1024)
	var sniff []byte
	sniffing := fromFollower
	for {
		n, err := src.Read(buf)
		if n > 0 {
			// honour a stall: hold the bytes until the stall is over
			for {
				p.mu.Lock()
				d := time.Until(p.stallUntil)
				closed := p.closed
				p.mu.Unlock()
				if d <= 0 || closed {
					break
				}
				if d > 50*time.Millisecond {
					d = 50 * time.Millisecond
				}
				time.Sleep(d)
			}
			if sniffing {
				sniff = append(sniff, buf[:n]...)
				if bytes.Contains(bytes.ToLower(sniff), []byte("$6\r\naofmd5\r\n")) {
					p.mu.Lock()
					kill := p.killMD5 > 0
					if kill {
						p.killMD5--
						p.md5Killed++
					}
					p.mu.Unlock()
					if kill {
						return // closes both sides: the follower reads EOF instead of a checksum
					}
					sniffing = false
					sniff = nil
				}
				if i := bytes.Index(bytes.ToLower(sniff), aofReqPrefix); i >= 0 {
					rest := sniff[i+len(aofReqPrefix):]
					// $<len>\r\n<digits>\r\n
					if j := bytes.Index(rest, []byte("\r\n")); j >= 0 {
						rest2 := rest[j+2:]
						if k := bytes.Index(rest2, []byte("\r\n")); k >= 0 {
							pos, perr := strconv.ParseInt(string(rest2[:k]), 10, 64)
							if perr == nil {
								// record BEFORE forwarding: anything the leader streams
								// back happens after the request is on record
								p.mu.Lock()
								p.aofReqs = append(p.aofReqs, aofReq{pos: pos, seq: pc.seq, pc: pc})
								p.mu.Unlock()
								now := time.Now()
								p.mu.Lock()
								delay := p.link.Delay
								live := 1
								for c := range p.conns {
									if c != pc && c.aofAt.Load() != 0 {
										live++
									}
								}
								if live > p.maxStreams {
									p.maxStreams = live
								}
								p.mu.Unlock()
								pc.holdUntil.Store(now.Add(delay).UnixNano())
								pc.aofAt.Store(now.UnixNano())
							}
							sniffing = false
							sniff = nil
						}
					}
				}
				if len(sniff) > 4096 {
					sniffing = false
					sniff = nil
				}
			}
			if at := pc.aofAt.Load(); !fromFollower && at != 0 {
				pc.lastMove.Store(time.Now().UnixNano())
				if werr := p.pacedWrite(dst, buf[:n], time.Unix(0, pc.holdUntil.Load())); werr != nil {
					return
				}
				pc.delivered.Add(int64(n))
				pc.lastMove.Store(time.Now().UnixNano())
			} else if _, werr := dst.Write(buf[:n]); werr != nil {
				return
			}
		}
		if err != nil {
			return
		}
	}
}

func (p *proxy) pacedWrite(dst net.Conn, b []byte, holdUntil time.Time) error {
	for len(b) > 0 {
		p.mu.Lock()
		lp := p.link
		closed := p.closed
		p.mu.Unlock()
		if closed {
			return net.ErrClosed
		}
		if d := time.Until(holdUntil); d > 0 {
			if d > 20*time.Millisecond {
				d = 20 * time.Millisecond
			}
			time.Sleep(d)
			continue
		}
		if lp.Chunk <= 0 {
			_, err := dst.Write(b)
			return err
		}
		n := len(b)
		if lp.Chunk > 0 && n > lp.Chunk {
			n = lp.Chunk
		}
		if _, err := dst.Write(b[:n]); err != nil {
			return err
		}
		b = b[n:]
		if lp.Chunk > 0 && lp.Gap > 0 {
			time.Sleep(lp.Gap)
		}
	}
	return nil
}

// KillNextMD5 arms the proxy: the next n checksum exchanges (connections that
// send AOFMD5) are closed instead of being answered.
func (p *proxy) KillNextMD5(n int) {
	p.mu.Lock()
	p.killMD5 = n
	p.mu.Unlock()
}

// MD5Killed is the number of checksum exchanges closed so far.
func (p *proxy) MD5Killed() int {
	p.mu.Lock()
	defer p.mu.Unlock()
	return p.md5Killed
}

// SetLink installs the pacing profile for replication streams (zero = none).
func (p *proxy) SetLink(lp linkProfile) {
	p.mu.Lock()
	p.link = lp
	p.mu.Unlock()
}

// Cut closes every connection currently going through the proxy.
func (p *proxy) Cut() {
	p.mu.Lock()
	var cs []*pconn
	for c := range p.conns {
		cs = append(cs, c)
	}
	p.mu.Unlock()
	for _, c := range cs {
		c.close()
	}
}

// Stall holds all forwarding (both directions) for d from now; connections
// stay open.
func (p *proxy) Stall(d time.Duration) {
	p.mu.Lock()
	if t := time.Now().Add(d); t.After(p.stallUntil) {
		p.stallUntil = t
	}
	if p.stallUntil.After(p.stallEnded) {
		p.stallEnded = p.stallUntil
	}
	p.mu.Unlock()
}

// Down cuts everything and refuses new connections for d.
func (p *proxy) Down(d time.Duration) {
	p.mu.Lock()
	if t := time.Now().Add(d); t.After(p.downUntil) {
		p.downUntil = t
	}
	if p.downUntil.After(p.stallEnded) {
		p.stallEnded = p.downUntil
	}
	p.mu.Unlock()
	p.Cut()
}

// Unstall ends any stall / outage immediately.
func (p *proxy) Unstall() {
	p.mu.Lock()
	p.stallUntil = time.Time{}
	p.downUntil = time.Time{}
	p.stallEnded = time.Now()
	p.mu.Unlock()
}

// Reconnected reports whether a replication-stream request has been seen on a
// connection accepted after the first `accepted0` ones, and the resume position
// of the latest request overall (-1 if there was none at all).
func (p *proxy) Reconnected(accepted0 int) (yes bool, lastPos int64) {
	p.mu.Lock()
	defer p.mu.Unlock()
	lastPos = -1
	for _, r := range p.aofReqs {
		if r.seq > accepted0 {
			yes = true
		}
		lastPos = r.pos
	}
	return
}

// ResetMaxStreams / MaxStreams: the largest number of replication streams that
// were open at the same time (sampled whenever a new one starts).
func (p *proxy) ResetMaxStreams() {
	p.mu.Lock()
	p.maxStreams = 0
	p.mu.Unlock()
}

func (p *proxy) MaxStreams() int {
	p.mu.Lock()
	defer p.mu.Unlock()
	return p.maxStreams
}

// LiveStreams is the number of open connections that carry a replication stream.
func (p *proxy) LiveStreams() int {
	p.mu.Lock()
	defer p.mu.Unlock()
	n := 0
	for c := range p.conns {
		if c.aofAt.Load() != 0 {
			n++
		}
	}
	return n
}

// LastStream returns the resume position of the latest replication request and
// the number of bytes delivered to the follower on that stream so far.
func (p *proxy) LastStream() (pos, delivered int64, ok bool) {
	p.mu.Lock()
	defer p.mu.Unlock()
	if len(p.aofReqs) == 0 {
		return 0, 0, false
	}
	r := p.aofReqs[len(p.aofReqs)-1]
	return r.pos, r.pc.delivered.Load(), true
}

// StreamIdle describes the latest replication stream: whether it is still
// open, and for how long nothing has moved on it (no byte arrived from the
// leader, none is held back by the proxy, no stall or outage is in force).
// While the proxy holds bytes of the stream the idle time is zero.
func (p *proxy) StreamIdle() (open bool, idle time.Duration, ok bool) {
	p.mu.Lock()
	defer p.mu.Unlock()
	if len(p.aofReqs) == 0 {
		return false, 0, false
	}
	pc := p.aofReqs[len(p.aofReqs)-1].pc
	now := time.Now()
	if now.Before(p.stallUntil) || now.Before(p.downUntil) {
		return pc.closedAt.Load() == 0, 0, true
	}
	last := pc.lastMove.Load()
	if at := pc.aofAt.Load(); at > last {
		last = at
	}
	if h := pc.holdUntil.Load(); h > last {
		last = h
	}
	if su := p.stallEnded.UnixNano(); su > last {
		last = su
	}
	idle = now.Sub(time.Unix(0, last))
	if idle < 0 {
		idle = 0
	}
	return pc.closedAt.Load() == 0, idle, true
}

// AllAOFReqs returns the resume positions of all requests.
func (p *proxy) AllAOFReqs() []int64 {
	p.mu.Lock()
	defer p.mu.Unlock()
	out := make([]int64, len(p.aofReqs))
	for i, r := range p.aofReqs {
		out[i] = r.pos
	}
	return out
}

// Accepted is the number of connections accepted (and forwarded) so far.
func (p *proxy) Accepted() int {
	p.mu.Lock()
	defer p.mu.Unlock()
	return p.accepted
}

func (p *proxy) Close() {
	p.mu.Lock()
	p.closed = true
	p.mu.Unlock()
	p.ln.Close()
	p.Cut()
	p.wg.Wait()
}

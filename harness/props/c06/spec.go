package c06

import (
	"fmt"
	"regexp"
	"strconv"
	"strings"

	"github.com/tidwall/tile38/verif/harness/gen"
	"pgregory.net/rapid"
)

// Initial follower states (what the follower holds before FOLLOW).
const (
	initEmpty     = "empty"     // fresh data directory
	initPrefix    = "prefix"    // copy of the leader's log cut at a command boundary (possibly the whole log)
	initUnrelated = "unrelated" // its own, independent history
	initLonger    = "longer"    // the leader's whole log plus commands of its own (a longer / diverged log)
)

// Step kinds.
const (
	stBurst         = "burst"             // leader writes
	stRestart       = "restart"           // follower process restart (clean stop, start on the same directory)
	stCut           = "cut"               // proxy closes the replication connection(s)
	stStall         = "stall"             // proxy holds all bytes for Ms milliseconds (asynchronously; later steps run meanwhile)
	stDown          = "down"              // proxy cuts and refuses connections for Ms milliseconds
	stShrink        = "shrink"            // AOFSHRINK on the leader
	stRefollow      = "refollow"          // follower: FOLLOW no one, then FOLLOW again
	stDetachWr      = "detachwr"          // follower: FOLLOW no one, writes of its own (Cmds), FOLLOW again
	stSplit         = "split"             // follower: FOLLOW no one + own writes (Cmds); leader meanwhile writes LCmds of exactly the same encoded sizes; FOLLOW again
	stRewriteShrink = "rewrite-shrink"    // leader writes Cmds (large records of one fixed length), AOFSHRINK, the follower catches up (oracle); leader overwrites some of them with LCmds (records of exactly the same encoded length), AOFSHRINK again: the two logs then differ only inside regions of equal length
	stSwitch        = "switch-leader"     // a second leader with its own history (Cmds) is started behind a paced proxy and the follower is pointed at it with FOLLOW; while it loads, reads are sampled: whenever HEALTHZ says "not caught up" before and after a read, the read must have been refused; afterwards the new leader is the leader of the case
	stShrinkBacklog = "shrink-in-backlog" // leader writes Cmds (a large backlog); the follower loses its disk and re-attaches from position 0 over a link that delivers nothing for Ms; once its AOF request is through, AOFSHRINK runs to completion on the leader; then the leader writes LCmds
	stCutMD5        = "cutmd5"            // cut now, and close the follower's next checksum exchange (AOFMD5) in mid-air
	stPubStorm      = "pubstorm"          // burst of leader writes (Cmds) while a second leader connection sends Ms PUBLISH commands concurrently
	stRefCheck      = "refollow+check"    // oracle evaluation whose forced reconnect is FOLLOW no one + FOLLOW (marker first, then the re-FOLLOW)
	stSleep         = "sleep"             // do nothing for Ms milliseconds (probes only)
	stAwait         = "await"             // wait until the follower's pending (re)connect has sent its AOF request
	stSlow          = "slow"              // from now on replication streams are delayed by Ms and paced (Chunk bytes per GapMs); Ms=0 lifts it
)

type step struct {
	Kind  string     `json:"kind"`
	Cmds  [][]string `json:"cmds,omitempty"`
	LCmds [][]string `json:"lcmds,omitempty"` // leader-side commands of a split step
	Ms    int        `json:"ms,omitempty"`
	// pacing of a "slow" step
	Chunk int `json:"chunk,omitempty"`
	GapMs int `json:"gap_ms,omitempty"`
	// Sync: after this step, write a marker on the leader and run the oracle
	// (wait until the follower claims caught-up, compare dumps).
	Sync bool `json:"sync,omitempty"`
}

type caseSpec struct {
	Init      string     `json:"init"`
	Pre       [][]string `json:"pre"`                  // leader history before the follower exists
	PrefixCut int        `json:"prefix_cut,omitempty"` // permille of the leader's commands kept (initPrefix)
	Own       [][]string `json:"own,omitempty"`        // follower's own commands (initUnrelated, initLonger)
	Steps     []step     `json:"steps"`
	TailCut   bool       `json:"tail_cut"`     // after the final live check: cut the connection and check again
	TailRest  bool       `json:"tail_restart"` // ... then restart the follower and check again
	// FirstSync: wait for the follower's first catch-up before any step runs
	FirstSync bool `json:"first_sync,omitempty"`
	// Settle: a cut / outage is only executed once the follower has finished the
	// handshake of any pending (re)connect (its AOF request went through)
	Settle bool `json:"settle,omitempty"`
	// SyncBeforeFollow: an oracle evaluation (hence a follower in steady state,
	// its follow session past the handshake) precedes every step that re-issues FOLLOW
	SyncBeforeFollow bool `json:"sync_before_follow,omitempty"`
	// SyncBeforeShrink: an oracle evaluation (a steady follower, no handshake in
	// flight) precedes every AOFSHRINK on the leader
	SyncBeforeShrink bool `json:"sync_before_shrink,omitempty"`
	// AvoidBoundary: skip the case if the leader's log has a command boundary at offset 524288 when the follower is created
	AvoidBoundary bool `json:"avoid_boundary,omitempty"`
	// NoAOF: the follower runs with --appendonly no (it has no log of its own)
	NoAOF bool `json:"no_aof,omitempty"`
	// TailRefollow: after the final check, FOLLOW no one + FOLLOW as the forced reconnect of one more evaluation
	TailRefollow bool `json:"tail_refollow,omitempty"`
	// pacing of the replication stream during the tail phases
	TailDelayMs int `json:"tail_delay_ms,omitempty"`
	TailChunk   int `json:"tail_chunk,omitempty"`
	TailGapMs   int `json:"tail_gap_ms,omitempty"` // 0 = 1 ms
}

// ---- padding ---------------------------------------------------------------

const padPrefix = "@pad:"

// expand replaces "@pad:<n>:<seed>" arguments by n bytes of deterministic text
// (no '*', CR or LF so that it never looks like a RESP header).
func expand(cmd []string) []string {
	out := cmd
	for i, a := range cmd {
		if strings.HasPrefix(a, padPrefix) {
			if &out[0] == &cmd[0] {
				out = append([]string(nil), cmd...)
			}
			parts := strings.Split(a[len(padPrefix):], ":")
			n, _ := strconv.Atoi(parts[0])
			seed := 1
			if len(parts) > 1 {
				seed, _ = strconv.Atoi(parts[1])
			}
			out[i] = padText(n, seed)
		}
	}
	return out
}

func padText(n, seed int) string {
	const al = "abcdefghijklmnopqrstuvwxyz0123456789 "
	b := make([]byte, n)
	x := uint32(seed)*2654435761 + 12345
	for i := range b {
		x = x*1664525 + 1013904223
		b[i] = al[(x>>16)%uint32(len(al))]
	}
	return string(b)
}

func padCmd(t *rapid.T, key string) []string {
	id := "p" + strconv.Itoa(rapid.IntRange(0, 11).Draw(t, "padid"))
	n := rapid.SampledFrom([]int{700, 3000, 9000, 17000, 30000}).Draw(t, "padsz") + rapid.IntRange(0, 999).Draw(t, "padjit")
	return []string{"SET", key, id, "STRING", fmt.Sprintf("%s%d:%d", padPrefix, n, rapid.IntRange(1, 999).Draw(t, "padseed"))}
}

// cmdBytes is the size of a command in the log (RESP array of bulk strings),
// with pads counted at their expanded size.
func cmdBytes(cmd []string) int {
	n := 1 + len(strconv.Itoa(len(cmd))) + 2
	for _, a := range cmd {
		l := len(a)
		if strings.HasPrefix(a, padPrefix) {
			parts := strings.Split(a[len(padPrefix):], ":")
			l, _ = strconv.Atoi(parts[0])
		}
		n += 1 + len(strconv.Itoa(l)) + 2 + l + 2
	}
	return n
}

// ---- command generators ------------------------------------------------------

var hookNames = []string{"h1", "h2", "h3"}
var chanNames = []string{"c1", "c2"}

func fenceTail(t *rapid.T, key string) []string {
	var args []string
	switch rapid.IntRange(0, 2).Draw(t, "fencekind") {
	case 0:
		args = []string{"NEARBY", key, "FENCE"}
		if rapid.Bool().Draw(t, "detect?") {
			args = append(args, "DETECT", rapid.SampledFrom([]string{"enter,exit", "inside", "cross", "enter,exit,cross,inside,outside"}).Draw(t, "detect"))
		}
		args = append(args, "POINT", strconv.Itoa(rapid.IntRange(-80, 80).Draw(t, "flat")), strconv.Itoa(rapid.IntRange(-170, 170).Draw(t, "flon")), strconv.Itoa(rapid.IntRange(1, 900000).Draw(t, "fm")))
	case 1:
		la, lo := rapid.IntRange(-80, 70).Draw(t, "fla"), rapid.IntRange(-170, 160).Draw(t, "flo")
		args = []string{"WITHIN", key, "FENCE"}
		if rapid.Bool().Draw(t, "cmds?") {
			args = append(args, "COMMANDS", rapid.SampledFrom([]string{"set", "del", "set,del,drop"}).Draw(t, "fcmds"))
		}
		args = append(args, "BOUNDS", strconv.Itoa(la), strconv.Itoa(lo), strconv.Itoa(la+rapid.IntRange(1, 9).Draw(t, "fdla")), strconv.Itoa(lo+rapid.IntRange(1, 9).Draw(t, "fdlo")))
	default:
		args = []string{"INTERSECTS", key, "FENCE", "OBJECT", `{"type":"Polygon","coordinates":[[[0,0],[10,0],[10,10],[0,10],[0,0]]]}`}
	}
	return args
}

// hookCmd draws SETHOOK / SETCHAN / DELHOOK / DELCHAN / PDELHOOK / PDELCHAN.
func hookCmd(t *rapid.T, ns gen.Names) []string {
	key := rapid.SampledFrom(ns.Keys).Draw(t, "hkey")
	meta := func(args []string) []string {
		for i, n := 0, rapid.IntRange(0, 2).Draw(t, "nmeta"); i < n; i++ {
			args = append(args, "META", rapid.SampledFrom([]string{"m1", "m2"}).Draw(t, "mk"), rapid.SampledFrom([]string{"v", "w x", "7"}).Draw(t, "mv"))
		}
		if rapid.IntRange(0, 3).Draw(t, "hex?") == 0 {
			args = append(args, "EX", gen.EX(t))
		}
		return args
	}
	switch rapid.IntRange(0, 9).Draw(t, "hookcmd") {
	case 0, 1, 2:
		args := []string{"SETHOOK", rapid.SampledFrom(hookNames).Draw(t, "hname"),
			rapid.SampledFrom([]string{"http://127.0.0.1:1/a", "http://127.0.0.1:1/b,http://127.0.0.1:1/c"}).Draw(t, "endpoint")}
		return append(meta(args), fenceTail(t, key)...)
	case 3, 4, 5:
		args := []string{"SETCHAN", rapid.SampledFrom(chanNames).Draw(t, "cname")}
		return append(meta(args), fenceTail(t, key)...)
	case 6:
		return []string{"DELHOOK", rapid.SampledFrom(hookNames).Draw(t, "hname")}
	case 7:
		return []string{"DELCHAN", rapid.SampledFrom(chanNames).Draw(t, "cname")}
	case 8:
		return []string{"PDELHOOK", rapid.SampledFrom([]string{"*", "h1*", "h[2-3]"}).Draw(t, "hpat")}
	default:
		return []string{"PDELCHAN", rapid.SampledFrom([]string{"*", "c1"}).Draw(t, "cpat")}
	}
}

var scriptable = map[string]bool{"SET": true, "DEL": true, "DROP": true, "FSET": true, "FLUSHDB": true, "EXPIRE": true,
	"PERSIST": true, "JSET": true, "PDEL": true, "RENAME": true, "RENAMENX": true}

func isWrite(cmd []string) bool {
	switch strings.ToUpper(cmd[0]) {
	case "SET", "DEL", "DROP", "FSET", "FLUSHDB", "EXPIRE", "PERSIST", "JSET", "JDEL", "PDEL", "RENAME", "RENAMENX",
		"SETHOOK", "SETCHAN", "DELHOOK", "DELCHAN", "PDELHOOK", "PDELCHAN", "EVAL", "PUBLISH":
		return true
	}
	return false
}

// writeCmd draws a keyspace command that is a write (reads add nothing here).
func writeCmd(t *rapid.T, ns gen.Names, f cmdFilter) []string {
	for {
		c := gen.KeyspaceCmd(t, ns)
		if f.noRename && (c[0] == "RENAME" || c[0] == "RENAMENX") {
			continue
		}
		if isWrite(c) {
			// FLUSHDB wipes everything (hooks too); keep it rare so that state accumulates
			if c[0] == "FLUSHDB" && rapid.IntRange(0, 2).Draw(t, "keepflush") != 0 {
				continue
			}
			return c
		}
	}
}

// scriptCmd wraps 1-3 write commands into one EVAL: every inner command is
// passed through ARGV and executed with tile38.pcall, so a refused inner
// command does not abort the script.
func scriptCmd(t *rapid.T, ns gen.Names, f cmdFilter) []string {
	n := rapid.IntRange(1, 3).Draw(t, "nscript")
	var body strings.Builder
	var argv []string
	for i := 0; i < n; i++ {
		var c []string
		for {
			c = writeCmd(t, ns, f)
			if scriptable[strings.ToUpper(c[0])] {
				break
			}
		}
		// the sandbox has no unpack(): name every argument
		body.WriteString("tile38.pcall(")
		for j := range c {
			if j > 0 {
				body.WriteByte(',')
			}
			fmt.Fprintf(&body, "ARGV[%d]", len(argv)+j+1)
		}
		body.WriteString(") ")
		argv = append(argv, c...)
	}
	body.WriteString("return 1")
	return append([]string{"EVAL", body.String(), "0"}, argv...)
}

// leaderCmd draws one leader write: keyspace write, hook/channel command or a
// writing script.
func publishCmd(t *rapid.T) []string {
	msg := rapid.SampledFrom([]string{"hello", "x", "a somewhat longer message with spaces", `{"k":"v"}`}).Draw(t, "pubmsg")
	return []string{"PUBLISH", rapid.SampledFrom([]string{"c1", "c2", "news"}).Draw(t, "pubch"), msg}
}

func leaderCmd(t *rapid.T, ns gen.Names, f cmdFilter) []string {
	switch rapid.IntRange(0, 10).Draw(t, "lkind") {
	case 10:
		if f.noPublish {
			return writeCmd(t, ns, f)
		}
		return publishCmd(t)
	case 0, 1:
		if f.noHooks {
			return writeCmd(t, ns, f)
		}
		return hookCmd(t, ns)
	case 2:
		return scriptCmd(t, ns, f)
	default:
		return writeCmd(t, ns, f)
	}
}

// cmdFilter removes command families from a case's histories.
type cmdFilter struct {
	noHooks  bool // no SETHOOK/SETCHAN/DELHOOK/...
	noRename bool // no RENAME/RENAMENX (also inside scripts)
	// noPublish: no PUBLISH commands (the leader forwards them to followers on the replication connection)
	noPublish bool
}

// burst draws nCmds leader writes followed/interleaved with pads so that
// about padBytes of padding are added.
func burst(t *rapid.T, ns gen.Names, f cmdFilter, minCmds, maxCmds, padBytes int) [][]string {
	n := rapid.IntRange(minCmds, maxCmds).Draw(t, "ncmds")
	var out [][]string
	for i := 0; i < n; i++ {
		out = append(out, leaderCmd(t, ns, f))
	}
	got := 0
	for got < padBytes {
		p := padCmd(t, "pad")
		got += cmdBytes(p)
		// interleave: insert at a drawn position
		at := rapid.IntRange(0, len(out)).Draw(t, "padat")
		ins := [][]string{p}
		if !f.noPublish && rapid.Bool().Draw(t, "pub-after-pad") {
			// a forwarded PUBLISH right behind a large logged command
			ins = append(ins, publishCmd(t))
		}
		out = append(out[:at:at], append(ins, out[at:]...)...)
	}
	return out
}

func totalBytes(cmds [][]string) int {
	n := 0
	for _, c := range cmds {
		n += cmdBytes(c)
	}
	return n
}

const window = 512 * 1024

// sizeTarget draws a padding amount that puts a log on a chosen side of the
// 512 KiB checksum window (or well beyond it).
func sizeTarget(t *rapid.T, label string) int {
	switch rapid.IntRange(0, 5).Draw(t, label) {
	case 0, 1:
		return 0 // small: a few KiB
	case 2:
		return rapid.IntRange(window-60000, window-3000).Draw(t, label+"-just-below")
	case 3:
		return rapid.IntRange(window+2000, window+90000).Draw(t, label+"-just-above")
	case 4:
		return rapid.IntRange(window+100000, 2*window+100000).Draw(t, label+"-big")
	default:
		return rapid.IntRange(100000, window-70000).Draw(t, label+"-mid")
	}
}

// genOpts restricts the generator (used to exclude the shape of a known finding).
type genOpts struct {
	// noResyncFromZero: a follower that holds anything never (re)connects in a
	// way that makes it resume at log position 0. That needs, at every
	// (re)connect, a follower log >= 512 KiB whose first 512 KiB are
	// byte-identical to the leader's. By construction: the initial state is
	// empty, a prefix >= 600 KiB or the whole leader log (>= 600 KiB) plus own
	// commands; the leader history before the follower exists is >= 600 KiB; the
	// follower has caught up once (FirstSync) before the first step; the leader
	// never runs AOFSHRINK (it rewrites the first window); no unrelated initial
	// state; no connection is closed while the follower is exchanging checksums
	// (a dropped AOFMD5 exchange reads as EOF = "leader log too short" and sends
	// the follower to position 0): cuts/outages wait for the pending handshake
	// (Settle), no cutmd5 step.
	noResyncFromZero bool
	// noOwnHooks: the follower never creates hooks or channels of its own (in its
	// own initial commands or while detached).
	noOwnHooks bool
	// noRenameWithHooks: no history contains both hook/channel commands and
	// RENAME/RENAMENX (a reload after the hook-preserving reset() then fails on
	// "key has hooks set" and the follower process exits).
	noRenameWithHooks bool
	// noStarDigit: no argument of any command ends in "*<digits>" (the backward
	// scan for a command boundary takes that for an array header).
	noStarDigit bool
	// noPublish: the leader never publishes (no PUBLISH command, no pubstorm step)
	noPublish bool
	// noBoundaryAt512K: skip a case at run time when the leader's log has a command
	// boundary exactly at offset 524288 at the moment the follower is created
	noBoundaryAt512K bool
	// noShrinkInHandshake: AOFSHRINK never runs while a follower handshake can be
	// in flight (between the leader's check of AOF <pos> and its opening of the log)
	noShrinkInHandshake bool
	// noStaleSession: FOLLOW is never re-issued while an older follow session can
	// still be inside its handshake (SyncBeforeFollow, no tail refollow)
	noStaleSession bool
	maxSteps       int
}

var starDigit = regexp.MustCompile(`\*[0-9]+(\r\n|$)`)

// shapeStarDigit: some logged argument contains "*<digits>" at its end or
// before a CRLF (the trigger of follower-truncates-inside-bulk).
func shapeStarDigit(cs *caseSpec) bool {
	scan := func(cmds [][]string) bool {
		for _, c := range cmds {
			for _, a := range c {
				if starDigit.MatchString(a) {
					return true
				}
			}
		}
		return false
	}
	if scan(cs.Pre) || scan(cs.Own) {
		return true
	}
	for _, st := range cs.Steps {
		if scan(st.Cmds) {
			return true
		}
	}
	return false
}

// drawNames is gen.DrawNames, optionally without names that end in "*<digits>".
func drawNames(t *rapid.T, o genOpts) gen.Names {
	ns := gen.DrawNames(t)
	if !o.noStarDigit {
		return ns
	}
	fix := func(xs []string) []string {
		out := make([]string, len(xs))
		for i, x := range xs {
			for starDigit.MatchString(x) {
				x = x + "_"
			}
			out[i] = x
		}
		return out
	}
	return gen.Names{Keys: fix(ns.Keys), IDs: fix(ns.IDs), Fields: fix(ns.Fields)}
}

// ownCmd draws a command the follower executes for itself.
func ownCmd(t *rapid.T, ns gen.Names, o genOpts, f cmdFilter) []string {
	for {
		c := leaderCmd(t, ns, f)
		if o.noOwnHooks && isHookCmd(c) {
			continue
		}
		return c
	}
}

func isHookCmd(c []string) bool {
	switch strings.ToUpper(c[0]) {
	case "SETHOOK", "SETCHAN", "DELHOOK", "DELCHAN", "PDELHOOK", "PDELCHAN":
		return true
	}
	return false
}

// shapeResyncFromZero: the case certainly (by its sizes and steps) makes a
// follower that holds data resume at position 0 -- the trigger of
// follower-keeps-old-data. Static estimate over the spec; cases that could only
// get there by a race (a cut during the checksum exchange) are not counted.
func shapeResyncFromZero(cs *caseSpec) bool {
	if cs.Init == initUnrelated {
		return true
	}
	reconnects := cs.TailCut || cs.TailRest || cs.TailRefollow
	for _, st := range cs.Steps {
		switch st.Kind {
		case stShrink, stCutMD5:
			return true
		case stRestart, stCut, stDown, stRefollow, stDetachWr, stSplit, stRefCheck:
			reconnects = true
		}
	}
	small := totalBytes(cs.Pre) < window
	return small && (cs.Init == initPrefix || cs.Init == initLonger || reconnects)
}

// shapeShrinkInHandshake: an AOFSHRINK may coincide with a follower handshake
// (any AOFSHRINK that is not preceded by an oracle evaluation).
func shapeShrinkInHandshake(cs *caseSpec) bool {
	if cs.SyncBeforeShrink {
		return false
	}
	for _, st := range cs.Steps {
		switch st.Kind {
		case stShrink, stRewriteShrink, stShrinkBacklog:
			return true
		}
	}
	return false
}

// shapeStaleSession: FOLLOW is re-issued without a preceding steady state.
func shapeStaleSession(cs *caseSpec) bool {
	if cs.TailRefollow {
		return true
	}
	for _, st := range cs.Steps {
		if (st.Kind == stRefollow || st.Kind == stDetachWr || st.Kind == stSplit) && !cs.SyncBeforeFollow {
			return true
		}
		if st.Kind == stRefCheck {
			return true
		}
	}
	return false
}

// shapeOwnHooks: the follower creates hooks/channels of its own (the trigger of
// follower-reload-keeps-hooks).
func shapeOwnHooks(cs *caseSpec) bool {
	var hooks, renames bool
	scan := func(cmds [][]string) {
		for _, c := range cmds {
			if isHookCmd(c) && (c[0] == "SETHOOK" || c[0] == "SETCHAN") {
				hooks = true
			}
			for _, a := range c {
				if a == "RENAME" || a == "RENAMENX" {
					renames = true
				}
			}
		}
	}
	scan(cs.Pre)
	for _, st := range cs.Steps {
		scan(st.Cmds)
	}
	if hooks && renames {
		return true
	}
	for _, c := range cs.Own {
		if isHookCmd(c) {
			return true
		}
	}
	for _, st := range cs.Steps {
		if st.Kind == stDetachWr {
			for _, c := range st.Cmds {
				if isHookCmd(c) {
					return true
				}
			}
		}
	}
	return false
}

func drawCase(t *rapid.T, o genOpts) caseSpec {
	ns := drawNames(t, o)
	var cs caseSpec
	var f cmdFilter
	f.noPublish = o.noPublish
	if o.noRenameWithHooks {
		// a case has hooks/channels or renames, never both
		if rapid.Bool().Draw(t, "hooks-not-renames") {
			f.noRename = true
		} else {
			f.noHooks = true
		}
	}
	inits := []string{initEmpty, initEmpty, initPrefix, initPrefix, initUnrelated, initUnrelated, initLonger}
	if o.noResyncFromZero {
		inits = []string{initEmpty, initPrefix, initPrefix, initLonger}
	}
	cs.Init = rapid.SampledFrom(inits).Draw(t, "init")

	prePad := sizeTarget(t, "presize")
	if o.noResyncFromZero {
		prePad = rapid.IntRange(window+100000, 2*window+150000).Draw(t, "presize-big")
	}
	cs.Pre = burst(t, ns, f, 3, 40, prePad)

	switch cs.Init {
	case initPrefix:
		cs.PrefixCut = rapid.SampledFrom([]int{1000, 1000, 999, 900, 750, 500, 250, 100, 1}).Draw(t, "cut")
		if cs.PrefixCut < 999 && cs.PrefixCut > 1 {
			cs.PrefixCut += rapid.IntRange(-90, 90).Draw(t, "cutjit")
		}
		if o.noResyncFromZero {
			// resolved at run time: a command boundary at or beyond 600 KiB,
			// chosen by this permille among the candidates (negative = gated)
			cs.PrefixCut = -1 - rapid.IntRange(0, 1000).Draw(t, "cutbig")
		}
	case initUnrelated, initLonger:
		uns := ns
		uns.Keys = append(append([]string(nil), ns.Keys...), "u1", "u2")
		ownPad := sizeTarget(t, "ownsize")
		if o.noResyncFromZero && ownPad > 100000 {
			ownPad = 0
		}
		n := rapid.IntRange(1, 25).Draw(t, "nown")
		for i := 0; i < n; i++ {
			cs.Own = append(cs.Own, ownCmd(t, uns, o, f))
		}
		// make sure something of its own certainly exists
		cs.Own = append(cs.Own, []string{"SET", "u1", "own", "POINT", "1", "2"})
		if !o.noOwnHooks {
			cs.Own = append(cs.Own, []string{"SETCHAN", "uc", "WITHIN", "u1", "FENCE", "BOUNDS", "0", "0", "5", "5"})
		}
		for got := 0; got < ownPad; {
			p := padCmd(t, "upad")
			got += cmdBytes(p)
			cs.Own = append(cs.Own, p)
		}
	}

	cs.FirstSync = o.noResyncFromZero || rapid.IntRange(0, 2).Draw(t, "firstsync") == 0
	cs.Settle = o.noResyncFromZero
	cs.SyncBeforeFollow = o.noStaleSession
	cs.SyncBeforeShrink = o.noShrinkInHandshake
	cs.AvoidBoundary = o.noBoundaryAt512K

	kinds := []string{stBurst, stBurst, stBurst, stBurst, stRestart, stCut, stStall, stDown, stShrink, stRefollow, stDetachWr, stSplit, stSlow, stCutMD5, stShrinkBacklog, stRewriteShrink, stSwitch}
	if o.noResyncFromZero {
		kinds = []string{stBurst, stBurst, stBurst, stBurst, stRestart, stCut, stStall, stDown, stRefollow, stDetachWr, stSplit, stSlow}
	}
	if !o.noPublish {
		kinds = append(kinds, stPubStorm)
	}
	if !o.noStaleSession {
		kinds = append(kinds, stRefCheck)
	}
	nsteps := rapid.IntRange(1, o.maxSteps).Draw(t, "nsteps")
	for i := 0; i < nsteps; i++ {
		st := step{Kind: rapid.SampledFrom(kinds).Draw(t, "step")}
		switch st.Kind {
		case stBurst:
			pad := 0
			switch rapid.IntRange(0, 5).Draw(t, "burstpad") {
			case 0:
				pad = rapid.IntRange(1000, 120000).Draw(t, "burstpadsz")
			case 1:
				pad = rapid.IntRange(window-20000, window+120000).Draw(t, "burstpadbig")
			}
			st.Cmds = burst(t, ns, f, 1, 30, pad)
		case stSplit:
			// a split brain in which both sides log the same number of bytes: only
			// the checksums can tell the two logs apart
			for j, n := 0, rapid.IntRange(1, 5).Draw(t, "nsplit"); j < n; j++ {
				c2 := func(l string) string { return strconv.Itoa(rapid.IntRange(10, 89).Draw(t, l)) }
				st.Cmds = append(st.Cmds, []string{"SET", "u1", "s" + strconv.Itoa(j), "POINT", c2("slat"), c2("slon")})
				st.LCmds = append(st.LCmds, []string{"SET", "k1", "t" + strconv.Itoa(j), "POINT", c2("tlat"), c2("tlon")})
			}
		case stRewriteShrink:
			// a dataset of several MB made of equally long records, so that the
			// rewritten logs line up byte for byte except inside the overwritten ones
			n := rapid.IntRange(30, 70).Draw(t, "nrecords")
			size := rapid.SampledFrom([]int{60000, 88000}).Draw(t, "recsize")
			rec := func(j, seed int) []string {
				return []string{"SET", "big", fmt.Sprintf("r%03d", j), "STRING", fmt.Sprintf("%s%d:%d", padPrefix, size, seed)}
			}
			for j := 0; j < n; j++ {
				st.Cmds = append(st.Cmds, rec(j, 100+j))
			}
			for j, k := 0, rapid.IntRange(1, 3).Draw(t, "noverwrite"); j < k; j++ {
				st.LCmds = append(st.LCmds, rec(rapid.IntRange(0, n-1).Draw(t, "victim"), 500+j))
			}
		case stSwitch:
			st.Cmds = burst(t, ns, f, 3, 30, rapid.IntRange(300000, 1500000).Draw(t, "newleaderpad"))
			st.Chunk = rapid.SampledFrom([]int{8192, 32768}).Draw(t, "switchchunk")
			st.GapMs = rapid.IntRange(1, 3).Draw(t, "switchgap")
		case stShrinkBacklog:
			// the backlog must exceed what the sockets between leader and proxy can
			// park (a few MB), otherwise the leader's copy is over before the swap
			st.Ms = rapid.IntRange(800, 2000).Draw(t, "holdms")
			for j, n := 0, rapid.IntRange(75, 110).Draw(t, "nbacklog"); j < n; j++ {
				st.Cmds = append(st.Cmds, []string{"SET", "pad", "b" + strconv.Itoa(j%4), "STRING",
					fmt.Sprintf("%s%d:%d", padPrefix, 88000+rapid.IntRange(0, 999).Draw(t, "bjit"), j+1)})
			}
			st.LCmds = burst(t, ns, f, 1, 4, 0)
		case stPubStorm:
			st.Cmds = burst(t, ns, f, 1, 10, rapid.IntRange(60000, 400000).Draw(t, "stormpad"))
			st.Ms = rapid.IntRange(50, 400).Draw(t, "npublish")
		case stStall:
			st.Ms = rapid.IntRange(1000, 2000).Draw(t, "stallms")
		case stDown:
			st.Ms = rapid.IntRange(300, 1600).Draw(t, "downms")
		case stSlow:
			if rapid.IntRange(0, 3).Draw(t, "lift") != 0 {
				st.Ms = rapid.IntRange(50, 400).Draw(t, "delayms")
				st.Chunk = rapid.SampledFrom([]int{2048, 16384, 65536}).Draw(t, "chunk")
				st.GapMs = rapid.IntRange(1, 3).Draw(t, "gapms")
			}
		case stDetachWr:
			n := rapid.IntRange(1, 6).Draw(t, "ndetach")
			uns := ns
			uns.Keys = append(append([]string(nil), ns.Keys...), "u1")
			for j := 0; j < n; j++ {
				st.Cmds = append(st.Cmds, ownCmd(t, uns, o, f))
			}
			st.Cmds = append(st.Cmds, []string{"SET", "u1", "detached", "POINT", "3", "4"})
			if !o.noOwnHooks {
				st.Cmds = append(st.Cmds, []string{"SETCHAN", "dc", "WITHIN", "u1", "FENCE", "BOUNDS", "0", "0", "5", "5"})
			}
		}
		st.Sync = rapid.IntRange(0, 3).Draw(t, "sync") == 0
		cs.Steps = append(cs.Steps, st)
	}
	cs.TailCut = rapid.Bool().Draw(t, "tailcut")
	cs.TailRest = rapid.Bool().Draw(t, "tailrestart")
	gated := o.noResyncFromZero || o.noOwnHooks || o.noStaleSession
	if !gated && rapid.IntRange(0, 15).Draw(t, "noaof") == 7 {
		// A follower without a log of its own. It counts no bytes, so it only
		// ever reports caught up against a leader that is empty when it attaches
		// and stays attached: empty leader, no fault that makes it reconnect.
		cs.NoAOF = true
		cs.Pre = nil
		cs.FirstSync = true
		switch cs.Init {
		case initPrefix:
			cs.Init = initEmpty
		case initLonger:
			cs.Init = initUnrelated
		}
		var keep []step
		for _, st := range cs.Steps {
			switch st.Kind {
			case stBurst, stPubStorm, stStall, stSlow:
				keep = append(keep, st)
			}
		}
		if len(keep) == 0 {
			keep = []step{{Kind: stBurst, Cmds: burst(t, ns, f, 1, 20, 0), Sync: true}}
		}
		cs.Steps = keep
		cs.TailCut, cs.TailRest = false, false
	}
	if !o.noStaleSession {
		cs.TailRefollow = rapid.IntRange(0, 3).Draw(t, "tailrefollow") == 0
	}
	if cs.NoAOF {
		cs.TailRefollow = false
	}
	if cs.TailCut || cs.TailRest || cs.TailRefollow {
		// the tail reconnects run over a slow link so that a premature claim is observable
		cs.TailDelayMs = rapid.IntRange(30, 250).Draw(t, "taildelay")
		cs.TailChunk = rapid.SampledFrom([]int{1024, 8192, 65536}).Draw(t, "tailchunk")
	}
	return cs
}

func caseGen(o genOpts) *rapid.Generator[caseSpec] {
	return rapid.Custom(func(t *rapid.T) caseSpec { return drawCase(t, o) })
}

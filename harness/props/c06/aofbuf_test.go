package c06

import (
	"bytes"
	"fmt"
	"os"
	"path/filepath"
	"strconv"
	"testing"
	"time"

	"github.com/tidwall/tile38/verif/harness/t38"
)

// experiment: stale aofbuf across the truncate-and-reload resync
func TestC06_AofbufExperiment(t *testing.T) {
	if os.Getenv("C06_AOFBUF") == "" {
		t.Skip()
	}
	p, err := startPair()
	if err != nil {
		t.Fatal(err)
	}
	defer p.close()
	pre := [][]string{{"SET", "k3", "a", "POINT", "1", "1"}}
	pre = append(pre, padsCycling("pad", 18, 30000, 3)...)
	pre = append(pre, []string{"SET", "k3", "b", "POINT", "2", "2"})
	pre = append(pre, padsCycling("pad", 4, 30000, 3)...)
	if _, err := apply(p.lc, pre); err != nil {
		t.Fatal(err)
	}
	p.fdir = t38.NewDir("c06f")
	F, err := startFollowerProcDev(p.fdir, true)
	if err != nil {
		t.Fatal(err)
	}
	p.F = F
	fc, _ := F.Dial()
	if v, err := fc.Do("FOLLOW", "127.0.0.1", strconv.Itoa(p.px.port)); err != nil || v.IsErr() {
		t.Fatal(err, v)
	}
	waitCaught := func() srvStat {
		for i := 0; i < 3000; i++ {
			c, err := p.F.Dial()
			if err == nil {
				st, err := serverStat(c)
				c.Close()
				if err == nil && st.caughtUp {
					return st
				}
			}
			time.Sleep(10 * time.Millisecond)
		}
		t.Fatal("not caught up")
		return srvStat{}
	}
	st := waitCaught()
	lst, _ := serverStat(p.lc)
	fmt.Printf("initial: follower aof_size=%d leader=%d\n", st.aofSize, lst.aofSize)
	fc.Close()
	time.Sleep(1500 * time.Millisecond) // let everything be flushed, no follower command from here on
	_, d0, _ := p.px.LastStream()
	if v, err := p.lc.Do("RENAME", "k3", "k4"); err != nil || v.IsErr() {
		t.Fatal(err, v)
	}
	for i := 0; i < 1000; i++ {
		if _, d, _ := p.px.LastStream(); d > d0 {
			break
		}
		time.Sleep(time.Millisecond)
	}
	time.Sleep(20 * time.Millisecond)
	sc, _ := p.F.Dial()
	sc.SendRaw(append(t38.EncodeCmd("SLEEP", "1.6"), t38.EncodeCmd("SLEEP", "0.8")...))
	time.Sleep(5 * time.Millisecond)
	p.px.Cut()
	time.Sleep(4 * time.Second)
	sc.Close()
	st = waitCaught()
	lst, _ = serverStat(p.lc)
	fi, _ := os.Stat(filepath.Join(p.fdir, "appendonly.aof"))
	lb, _ := os.ReadFile(p.L.AOFPath())
	fb, _ := os.ReadFile(filepath.Join(p.fdir, "appendonly.aof"))
	fmt.Printf("after resync: follower aof_size=%d file=%d leader aof_size=%d file=%d identical=%v resumes=%v\n", st.aofSize, fi.Size(), lst.aofSize, len(lb), bytes.Equal(lb, fb), p.px.AllAOFReqs())
	if !bytes.Equal(lb, fb) {
		i := 0
		for i < len(lb) && i < len(fb) && lb[i] == fb[i] {
			i++
		}
		end := i + 120
		if end > len(fb) {
			end = len(fb)
		}
		fmt.Printf("first difference at %d; follower file there: %q\n", i, fb[i:end])
	}
	ld, _ := t38.TakeDump(p.L.Addr)
	fd, _ := t38.TakeDump(p.F.Addr)
	fmt.Printf("live datasets diff: %q\n", ld.Diff(fd))
	// restart with the leader unreachable, promote
	p.px.Down(60 * time.Second)
	p.F.Kill()
	F2, err := startFollowerProcDev(p.fdir, true)
	if err != nil {
		t.Fatal(err)
	}
	p.F = F2
	c2, _ := F2.Dial()
	v, _ := c2.Do("KEYS", "*")
	fmt.Printf("restarted, leader unreachable: KEYS -> %s\n", v.String())
	c2.Do("FOLLOW", "no", "one")
	fd2, _ := t38.TakeDump(F2.Addr)
	fmt.Printf("restarted+promoted datasets diff: %q\n", ld.Diff(fd2))
	// leader reachable again: re-follow, heals?
	p.px.Unstall()
	c2.Do("FOLLOW", "127.0.0.1", strconv.Itoa(p.px.port))
	c2.Close()
	st = waitCaught()
	fd3, _ := t38.TakeDump(p.F.Addr)
	fb3, _ := os.ReadFile(filepath.Join(p.fdir, "appendonly.aof"))
	fmt.Printf("re-followed: diff=%q file identical=%v resumes=%v\n", ld.Diff(fd3), bytes.Equal(lb, fb3), p.px.AllAOFReqs())
}

package c01

import (
	"fmt"
	"strings"
	"testing"
	"time"

	"github.com/tidwall/tile38/verif/harness/ev"
	"github.com/tidwall/tile38/verif/harness/model"
	"github.com/tidwall/tile38/verif/harness/t38"
	"pgregory.net/rapid"
)

// rescueCase: objects get a short deadline which is then replaced or lifted
// through every command that can do so; a plain map with a has-deadline flag
// keeps them, so must the server once the short deadline has passed.
type rescueCase struct {
	Objs []rescueObj `json:"objs"`
}

type rescueObj struct {
	Key    string `json:"key"`
	ID     string `json:"id"`
	Kind   int    `json:"kind"`   // 0 point, 1 string, 2 polygon
	Rescue string `json:"rescue"` // how the short deadline is replaced ("" = not at all: the object must go)
	Then   string `json:"then"`   // a further command that keeps the (new) deadline: "", fset, rename-there-and-back
}

var rescues = []string{"", "set-ex-long", "set-no-ex", "expire-long", "persist", "set-ex-long", "expire-long"}

func (o rescueObj) geom() []string {
	switch o.Kind {
	case 1:
		return []string{"STRING", "v"}
	case 2:
		return []string{"OBJECT", `{"type":"Polygon","coordinates":[[[1,1],[2,1],[2,2],[1,2],[1,1]]]}`}
	}
	return []string{"POINT", "1", "2"}
}

func runRescue(t failer, c *ev.Collector, rc rescueCase) (nontrivial bool, inconclusive string) {
	cResp.MustDo("FLUSHDB")
	db := model.NewDB()
	// reply mismatches are judged after the timing of the set-up is known: a rescue that was issued
	// after its object's short deadline had passed legitimately finds nothing
	type mismatch struct{ key, what string }
	var mismatches []mismatch
	t0 := time.Now()
	do := func(cmd ...string) {
		exp := model.Exec(db, cmd)
		v := cResp.MustDo(cmd...)
		if !exp.Unsupported {
			if d := exp.CheckRESP(v); d != "" {
				mismatches = append(mismatches, mismatch{"model-mismatch:" + strings.ToLower(cmd[0]) + ":reply", t38.CmdString(cmd) + ": " + d})
			}
		}
	}
	for _, o := range rc.Objs {
		do(append([]string{"SET", o.Key, o.ID, "EX", "0.25"}, o.geom()...)...)
	}
	rescued := 0
	for _, o := range rc.Objs {
		switch o.Rescue {
		case "set-ex-long":
			do(append([]string{"SET", o.Key, o.ID, "EX", "100000"}, o.geom()...)...)
		case "set-no-ex":
			do(append([]string{"SET", o.Key, o.ID}, o.geom()...)...)
		case "expire-long":
			do("EXPIRE", o.Key, o.ID, "100000")
		case "persist":
			do("PERSIST", o.Key, o.ID)
		default:
			continue
		}
		rescued++
		switch o.Then {
		case "fset":
			do("FSET", o.Key, o.ID, "f", "7")
		}
	}
	if time.Since(t0) > 150*time.Millisecond {
		return false, "set-up took longer than 150 ms: the short deadlines may have passed before they were replaced"
	}
	for _, m := range mismatches {
		c.Fail(t, m.key, m.what, rc)
	}
	// witness: set last, with a deadline later than every short one; once a sweep has removed it,
	// that sweep has seen every short deadline as due
	cResp.MustDo("SET", "0witness", "w", "EX", "0.3", "STRING", "w")
	deadline := time.Now().Add(20 * time.Second)
	for {
		if v := cResp.MustDo("EXISTS", "0witness", "w"); v.Int == 0 {
			break
		}
		if time.Now().After(deadline) {
			return false, "the witness object was not swept within 20 s"
		}
		time.Sleep(10 * time.Millisecond)
	}
	for _, o := range rc.Objs {
		if o.Rescue == "" {
			model.Exec(db, []string{"DEL", o.Key, o.ID})
		}
	}
	d, err := t38.TakeDumpOn(cDump)
	if err != nil {
		c.Fail(t, "model-mismatch:dump", err.Error(), rc)
	}
	if diff := db.DiffDump(d); diff != "" {
		c.Fail(t, "model-mismatch:deadline-replaced:state", "after the replaced short deadlines have passed the visible dataset differs from the model (A=model, B=server): "+diff, rc)
	}
	return rescued > 0 && rescued < len(rc.Objs), ""
}

func TestC01_DeadlineReplaced(t *testing.T) {
	c := ev.New("C01", "deadline-replaced", "exploration")
	t.Cleanup(c.Flush)
	c.Rule("2-6 objects (points, strings, polygons; 1-2 collections) are SET with EX 0.25; each short deadline is then replaced by a long one (SET EX, EXPIRE), lifted (PERSIST, SET without EX) or left alone, optionally followed by FSET; a witness with a later deadline is set last, and once it has been swept the dump must equal the map model: rescued objects still there with the right has-deadline flag, the others gone. A witness not swept within 20 s makes the case inconclusive. Non-trivial: at least one object rescued and one left to go; distinct by (kind, rescue, then) per object.")
	ev.Rapid("deadline-replaced", ev.Pick(25, 150))
	rapid.Check(t, func(rt *rapid.T) {
		var rc rescueCase
		n := rapid.IntRange(2, 6).Draw(rt, "n")
		for i := 0; i < n; i++ {
			rc.Objs = append(rc.Objs, rescueObj{
				Key:    rapid.SampledFrom([]string{"k1", "k2"}).Draw(rt, "key"),
				ID:     fmt.Sprintf("o%d", i),
				Kind:   rapid.IntRange(0, 2).Draw(rt, "kind"),
				Rescue: rapid.SampledFrom(rescues).Draw(rt, "rescue"),
				Then:   rapid.SampledFrom([]string{"", "", "fset"}).Draw(rt, "then"),
			})
		}
		c.Case()
		nt, inc := runRescue(rt, c, rc)
		if inc != "" {
			c.Inconclusive("%s", inc)
			return
		}
		if nt {
			var b strings.Builder
			for _, o := range rc.Objs {
				fmt.Fprintf(&b, "%d/%s/%s;", o.Kind, o.Rescue, o.Then)
			}
			c.NonTrivial(b.String())
			if c.WantSample() {
				c.Sample(rc)
			}
		}
	})
}

package c01

import (
	"encoding/json"
	"fmt"
	"strconv"
	"strings"
	"testing"

	"github.com/tidwall/tile38/verif/harness/ev"
	"github.com/tidwall/tile38/verif/harness/gen"
	"github.com/tidwall/tile38/verif/harness/model"
	"github.com/tidwall/tile38/verif/harness/t38"
	"pgregory.net/rapid"
)

// errProgram is one case of the errors sub-check: valid keyspace commands
// build a state, malformed variants of keyspace commands are interleaved.
type errProgram struct {
	Cmds [][]string `json:"cmds"`
	Bad  []bool     `json:"bad"` // Cmds[i] was produced by a mutation operator
	Ops  []string   `json:"ops"` // mutation operator per command ("" for valid ones)
}

var badJSON = []string{
	"{", "", "null", `{"type":"Point"}`, `{"type":"Bogus","coordinates":[1,2]}`,
	`{"type":"Point","coordinates":[1]}`, `{"type":"Point","coordinates":"x"}`,
	`{"type":"Polygon","coordinates":[[[0,0],[1,1]]]}`, `{"type":"Feature"}`, `[1,2]`,
}

var oddPaths = []string{"a*", "#", "x.#(a=1).b", "@this", "a|b", "a?", "arr.#", "*", "a.*", "properties.*", "@reverse", "a.#(b>1)#"}

var badNumbers = []string{"abc", "", "1e", "--1", "0x10", "1,5", " 1", "one"}

func isNumeric(s string) bool {
	_, err := strconv.ParseFloat(s, 64)
	return err == nil
}

// mutate turns a valid keyspace command into a (probably) invalid one. The
// oracle does not rely on the result being invalid: it is conditional on the
// server's reply.
func mutate(t *rapid.T, cmd []string, freshKeys []string) ([]string, string) {
	out := append([]string(nil), cmd...)
	op := rapid.SampledFrom([]string{
		"drop-last", "drop-any", "append-junk", "dup-arg", "bad-number", "empty-path",
		"bad-object", "bad-hash", "bad-option", "only-name", "empty-arg", "odd-path",
	}).Draw(t, "mutop")
	switch op {
	case "drop-last":
		if len(out) > 1 {
			out = out[:len(out)-1]
		}
	case "drop-any":
		if len(out) > 2 {
			i := rapid.IntRange(1, len(out)-1).Draw(t, "dropidx")
			out = append(out[:i], out[i+1:]...)
		}
	case "append-junk":
		out = append(out, rapid.SampledFrom([]string{"zzz", "1", "", "FIELD", "EX", "NX", "LIMIT", "RAW"}).Draw(t, "junk"))
	case "dup-arg":
		if len(out) > 1 {
			i := rapid.IntRange(1, len(out)-1).Draw(t, "dupidx")
			out = append(out[:i+1], out[i:]...)
		}
	case "bad-number":
		var idx []int
		for i := 3; i < len(out); i++ {
			if isNumeric(out[i]) {
				idx = append(idx, i)
			}
		}
		if len(idx) > 0 {
			out[rapid.SampledFrom(idx).Draw(t, "numidx")] = rapid.SampledFrom(badNumbers).Draw(t, "badnum")
		} else {
			out = append(out, "EX", "abc")
		}
	case "empty-path":
		switch strings.ToLower(out[0]) {
		case "jset", "jdel", "jget":
			if len(out) > 3 {
				out[3] = ""
			}
		default:
			out = []string{"JSET", pickKey(t, cmd), "id1", "", rapid.SampledFrom([]string{"v", "1", `{"a":1}`}).Draw(t, "jv")}
		}
	case "odd-path":
		// paths with wildcards, queries and modifiers: sjson sets them only when they
		// select something, otherwise nothing may be written and the reply must say so
		out = []string{"JSET", pickKey(t, cmd), rapid.SampledFrom([]string{"id1", "id2", "newid"}).Draw(t, "oddid"),
			rapid.SampledFrom(oddPaths).Draw(t, "oddpath"), rapid.SampledFrom([]string{"v", "1", `{"a":1}`}).Draw(t, "jv")}
	case "bad-object":
		out = []string{"SET", pickKey(t, cmd), "id1", "OBJECT", rapid.SampledFrom(badJSON).Draw(t, "badjson")}
		if rapid.Bool().Draw(t, "withfield") {
			out = []string{"SET", out[1], "id1", "FIELD", "f", "1", "OBJECT", out[4]}
		}
	case "bad-hash":
		out = []string{"SET", pickKey(t, cmd), "id1", "HASH", rapid.SampledFrom([]string{"!!!", "", "aio", "9q9-"}).Draw(t, "badhash")}
	case "bad-option":
		for i := 3; i < len(out); i++ {
			switch strings.ToUpper(out[i]) {
			case "POINT", "BOUNDS", "HASH", "OBJECT", "STRING", "RAW", "STR", "WITHFIELDS", "IDS", "COUNT", "ERRON404":
				out[i] = "BOGUS"
			}
		}
		if strings.Join(out, " ") == strings.Join(cmd, " ") {
			out = append(out, "BOGUS")
		}
	case "only-name":
		out = out[:1]
	case "empty-arg":
		if len(out) > 3 {
			out[rapid.IntRange(3, len(out)-1).Draw(t, "emptyidx")] = ""
		}
	}
	// half of the malformed commands address a collection that does not exist
	if len(out) > 1 && rapid.Bool().Draw(t, "fresh") {
		switch strings.ToLower(out[0]) {
		case "flushdb", "keys":
		default:
			out[1] = rapid.SampledFrom(freshKeys).Draw(t, "freshkey")
		}
	}
	return out, op
}

func pickKey(t *rapid.T, cmd []string) string {
	if len(cmd) > 1 {
		return cmd[1]
	}
	return "k1"
}

func drawErrProgram(rt *rapid.T) errProgram {
	ns := gen.DrawNames(rt)
	fresh := []string{"nokey", "missing:1", "ghost"}
	var p errProgram
	n := rapid.IntRange(6, 40).Draw(rt, "steps")
	for i := 0; i < n; i++ {
		cmd := gen.KeyspaceCmd(rt, ns)
		if rapid.IntRange(0, 2).Draw(rt, "bad?") == 0 {
			m, op := mutate(rt, cmd, fresh)
			p.Cmds, p.Bad, p.Ops = append(p.Cmds, m), append(p.Bad, true), append(p.Ops, op)
		} else {
			p.Cmds, p.Bad, p.Ops = append(p.Cmds, cmd), append(p.Bad, false), append(p.Ops, "")
		}
	}
	return p
}

func keysOf(c *t38.Conn) []string {
	v := c.MustDo("KEYS", "*")
	var got []string
	for _, e := range v.Arr {
		got = append(got, e.Str)
	}
	return got
}

// runErrProgram: after every command whose reply is an error or a negative
// answer the visible dataset (KEYS, every object, fields, has-deadline flags)
// must be what it was before the command. No model is involved: the baseline
// is the server's own previous dump.
func runErrProgram(t failer, c *ev.Collector, p errProgram) (errs int, freshErrs int, ops map[string]bool) {
	t.Helper()
	ops = map[string]bool{}
	if v := cResp.MustDo("FLUSHDB"); v.IsErr() {
		panic("FLUSHDB: " + v.String())
	}
	base, err := t38.TakeDumpOn(cDump)
	if err != nil {
		panic(err)
	}
	baseKeys := keysOf(cDump)
	for i, cmd := range p.Cmds {
		if glob0xffKnown && len(cmd) > 1 {
			switch strings.ToLower(cmd[0]) {
			case "keys", "pdel":
				if model.GlobPrefixEndsFF(cmd[len(cmd)-1]) {
					c.Excluded("glob-limits-0xff")
					continue
				}
			}
		}
		v, err := cResp.Do(cmd...)
		if err != nil {
			c.Fail(t, "errors:transport", fmt.Sprintf("step %d %s: %v", i, t38.CmdString(cmd), err), p)
		}
		d, derr := t38.TakeDumpOn(cDump)
		if derr != nil {
			c.Fail(t, "errors:dump", fmt.Sprintf("step %d %s: %v", i, t38.CmdString(cmd), derr), p)
		}
		ks := keysOf(cDump)
		if negative(v) {
			name := strings.ToLower(cmd[0])
			kind := "negative"
			if v.IsErr() {
				kind = "error"
			}
			if diff := base.Diff(d); diff != "" {
				c.Fail(t, "errors:"+name+":"+kind+"-changed-state",
					fmt.Sprintf("step %d %s replied %s but the visible dataset changed (A=before, B=after): %s", i, t38.CmdString(cmd), v, diff), p)
			}
			if strings.Join(ks, "\x00") != strings.Join(baseKeys, "\x00") {
				c.Fail(t, "errors:"+name+":"+kind+"-changed-keys",
					fmt.Sprintf("step %d %s replied %s but KEYS * went from %q to %q", i, t38.CmdString(cmd), v, baseKeys, ks), p)
			}
			if v.IsErr() && p.Bad[i] {
				errs++
				ops[p.Ops[i]] = true
				if len(cmd) > 1 && !contains(baseKeys, cmd[1]) {
					freshErrs++
				}
			}
		}
		// an acknowledged JSET reads back: JGET of the same path is not nil
		// (appending and forced-key paths, -1 and :n, do not name what they wrote)
		// (RAW values are taken as they come and need not be JSON)
		if strings.ToLower(cmd[0]) == "jset" && len(cmd) == 5 && !negative(v) &&
			!strings.Contains(cmd[3], "-1") && !strings.Contains(cmd[3], ":") {
			// (a string object that was not JSON before is not JSON afterwards either:
			// garbage in, garbage out, and no path names anything in it)
			doc, derr := cResp.Do("JGET", cmd[1], cmd[2])
			if g, err := cResp.Do("JGET", cmd[1], cmd[2], cmd[3]); err == nil && g.Null &&
				derr == nil && !doc.Null && (doc.Str == "" || json.Valid([]byte(doc.Str))) {
				c.Fail(t, "errors:jset:ok-but-nothing-written",
					fmt.Sprintf("step %d %s replied %s but JGET of that path is nil", i, t38.CmdString(cmd), v), p)
			}
		}
		// a collection exists iff it holds at least one object
		for _, k := range ks {
			if len(d.Keys[k]) == 0 {
				c.Fail(t, "errors:empty-collection-listed",
					fmt.Sprintf("step %d %s: KEYS * lists %q which holds no object", i, t38.CmdString(cmd), k), p)
			}
		}
		base, baseKeys = d, ks
	}
	return
}

func contains(xs []string, s string) bool {
	for _, x := range xs {
		if x == s {
			return true
		}
	}
	return false
}

func TestC01_ErrorsChangeNothing(t *testing.T) {
	c := ev.New("C01", "errors", "exploration")
	t.Cleanup(c.Flush)
	c.Rule("programs of 6-40 keyspace commands in which a third are malformed variants of valid commands (argument dropped/duplicated/appended, number replaced by junk, empty JSET/JDEL/JGET path, invalid GeoJSON or geohash, unknown option, empty argument), half of those retargeted at a collection that does not exist; after every command whose reply is an error or a negative answer the full visible dataset and KEYS * must equal the server's own state before the command, and after every command no listed collection may be empty. The oracle is conditional on the reply, so mutations that happen to stay valid are harmless. Non-trivial: at least two malformed commands were refused with an error, at least one of them addressed to a missing collection; distinct by the sequence of (command name, mutation operator).")
	ev.Rapid("errors", ev.Pick(1200, 12000))
	rapid.Check(t, func(rt *rapid.T) {
		p := drawErrProgram(rt)
		c.Case()
		errs, freshErrs, ops := runErrProgram(rt, c, p)
		for op := range ops {
			c.Label("refused:" + op)
		}
		if errs >= 2 && freshErrs >= 1 {
			var abs strings.Builder
			for i, cmd := range p.Cmds {
				fmt.Fprintf(&abs, "%s/%s;", strings.ToLower(cmd[0]), p.Ops[i])
			}
			c.NonTrivial(abs.String())
			if c.WantSample() {
				c.Sample(map[string]any{"cmds": gen.Describe(p.Cmds), "ops": p.Ops})
			}
		}
	})
}

package c01

import (
	"encoding/json"
	"fmt"
	"hash/fnv"
	"sort"
	"strings"
	"testing"

	"github.com/tidwall/tile38/verif/harness/ev"
	"github.com/tidwall/tile38/verif/harness/model"
	"github.com/tidwall/tile38/verif/harness/t38"
)

// bfsAlphabet is the complete command set of the bounded-exhaustive walk:
// 2 keys x 2 ids x 1 field x values {0,1,a} x kinds {point, string}.
func bfsAlphabet() [][]string {
	keys := []string{"k1", "k2"}
	ids := []string{"a", "b"}
	var cmds [][]string
	for _, k := range keys {
		for _, id := range ids {
			cmds = append(cmds,
				[]string{"SET", k, id, "POINT", "1", "2"},
				[]string{"SET", k, id, "STRING", "s"},
				[]string{"SET", k, id, "FIELD", "f", "1", "POINT", "3", "4"},
				[]string{"SET", k, id, "EX", "100000", "POINT", "1", "2"},
				[]string{"SET", k, id, "NX", "STRING", "n"},
				[]string{"SET", k, id, "XX", "FIELD", "f", "a", "POINT", "5", "6"},
				[]string{"FSET", k, id, "f", "0"},
				[]string{"FSET", k, id, "f", "1"},
				[]string{"FSET", k, id, "XX", "f", "a"},
				[]string{"DEL", k, id},
				[]string{"DEL", k, id, "ERRON404"},
				[]string{"EXPIRE", k, id, "100000"},
				[]string{"PERSIST", k, id},
				[]string{"JSET", k, id, "a", "1"},
				[]string{"JDEL", k, id, "a"},
				[]string{"GET", k, id, "WITHFIELDS"},
				[]string{"FGET", k, id, "f"},
				[]string{"EXISTS", k, id},
				[]string{"FEXISTS", k, id, "f"},
				[]string{"TTL", k, id},
				[]string{"JGET", k, id, "a"},
			)
		}
		cmds = append(cmds,
			[]string{"PDEL", k, "*"},
			[]string{"PDEL", k, "a*"},
			[]string{"DROP", k},
			[]string{"TYPE", k},
			[]string{"SCAN", k},
			[]string{"SCAN", k, "COUNT"},
		)
	}
	cmds = append(cmds,
		[]string{"RENAME", "k1", "k2"},
		[]string{"RENAME", "k2", "k1"},
		[]string{"RENAME", "k1", "k1"},
		[]string{"RENAMENX", "k1", "k2"},
		[]string{"RENAMENX", "k2", "k1"},
		[]string{"FLUSHDB"},
		[]string{"KEYS", "*"},
	)
	return cmds
}

func canonModel(db *model.DB) string {
	var b strings.Builder
	for _, k := range db.SortedKeys() {
		for _, id := range db.SortedIDs(k) {
			o := db.Cols[k][id]
			sem, _ := json.Marshal(o.Sem)
			fmt.Fprintf(&b, "%q/%q=%v|%q|%s|", k, id, o.Spatial, o.Text, sem)
			for _, n := range model.SortedFieldNames(o.Fields) {
				fmt.Fprintf(&b, "%q:%q,", n, o.Fields[n].Data)
			}
			fmt.Fprintf(&b, "|%v;", o.HasTTL)
		}
	}
	return b.String()
}

type bfsNode struct {
	path [][]string
	db   *model.DB
}

// TestC01_BFS covers the model's reachable state graph for the small alphabet
// exhaustively to a depth bound: from every model state reachable with at
// most D mutating commands, every command of the alphabet is executed on the
// real server (state re-established by FLUSHDB + replay of the BFS path) and
// reply and full visible dataset are compared with the model.
func TestC01_BFS(t *testing.T) {
	c := ev.New("C01", "bfs", "exploration")
	t.Cleanup(c.Flush)
	depth := ev.Pick(2, 3)
	maxStates := ev.Pick(4000, 60000)
	alphabet := bfsAlphabet()
	c.Rule(fmt.Sprintf("bounded-exhaustive walk: alphabet of %d concrete commands (2 keys x 2 ids, field f with values 0/1/a, objects point/string, every option of SET/FSET/DEL, PDEL, DROP, RENAME(NX), FLUSHDB, EXPIRE, PERSIST, JSET, JDEL and all reads); breadth-first search over MODEL states; from every state reachable with <= %d mutating commands every command is executed on the real server after re-establishing the state by FLUSHDB + path replay; reply and full dump compared. Non-trivial: every executed transition from a non-empty state; distinct by (state, command). In the thorough tier states are divided among the shards.", len(alphabet), depth))
	seen := map[string]bool{}
	root := &bfsNode{db: model.NewDB()}
	seen[canonModel(root.db)] = true
	frontier := []*bfsNode{root}
	states, transitions := 0, 0
	capped := false
	shard, shards := ev.Shard(), ev.Shards()
	for d := 0; d <= depth && len(frontier) > 0; d++ {
		var next []*bfsNode
		sort.Slice(frontier, func(i, j int) bool { return canonModel(frontier[i].db) < canonModel(frontier[j].db) })
		for _, n := range frontier {
			states++
			h := fnv.New32a()
			h.Write([]byte(canonModel(n.db)))
			mine := int(h.Sum32())%shards == shard
			for _, cmd := range alphabet {
				db2 := n.db.Clone()
				exp := model.Exec(db2, cmd)
				if exp.Unsupported {
					continue
				}
				if mine {
					transitions++
					c.Case()
					p := program{Cmds: append(append([][]string{}, n.path...), cmd)}
					execTransition(t, c, p, n.db, db2, exp)
					if len(n.db.Cols) > 0 {
						c.NonTrivial(canonModel(n.db) + "##" + strings.Join(cmd, " "))
					}
					if c.WantSample() {
						c.Sample(map[string]any{"state_path": n.path, "cmd": cmd, "model_reply": exp.RESP.String()})
					}
				}
				if exp.Mutated && d < depth {
					key := canonModel(db2)
					if !seen[key] {
						if len(seen) >= maxStates {
							capped = true
							continue
						}
						seen[key] = true
						next = append(next, &bfsNode{path: append(append([][]string{}, n.path...), cmd), db: db2})
					}
				}
			}
		}
		c.Note("depth %d: %d states in frontier", d, len(frontier))
		frontier = next
	}
	c.States(states, transitions)
	c.Exhaustive(!capped)
	if capped {
		c.Note("state cap of %d reached: the walk is not exhaustive at the last depth", maxStates)
	}
}

// execTransition re-establishes the state and executes the last command of p.
func execTransition(t ev.Failer, c *ev.Collector, p program, before, after *model.DB, exp model.Reply) {
	var buf []byte
	buf = append(buf, t38.EncodeCmd("FLUSHDB")...)
	for _, cmd := range p.Cmds[:len(p.Cmds)-1] {
		buf = append(buf, t38.EncodeCmd(cmd...)...)
	}
	if err := cResp.SendRaw(buf); err != nil {
		t.Fatalf("transport: %v", err)
	}
	for i := 0; i < len(p.Cmds); i++ {
		if _, err := cResp.Recv(); err != nil {
			t.Fatalf("transport: %v", err)
		}
	}
	cmd := p.Cmds[len(p.Cmds)-1]
	name := strings.ToLower(cmd[0])
	v, err := cResp.Do(cmd...)
	if err != nil {
		t.Fatalf("transport: %v", err)
	}
	if d := exp.CheckRESP(v); d != "" {
		c.Fail(t, "model-mismatch:"+name+":reply", fmt.Sprintf("after %v, %s: %s", p.Cmds[:len(p.Cmds)-1], t38.CmdString(cmd), d), p)
	}
	dump, err := t38.TakeDumpOn(cDump)
	if err != nil {
		c.Fail(t, "model-mismatch:"+name+":dump", err.Error(), p)
	}
	if diff := after.DiffDump(dump); diff != "" {
		c.Fail(t, "model-mismatch:"+name+":state", fmt.Sprintf("after %v, %s: visible dataset differs from the model (A=model, B=server): %s", p.Cmds[:len(p.Cmds)-1], t38.CmdString(cmd), diff), p)
	}
}

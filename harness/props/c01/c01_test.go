// C01: command replies and visible state conform to a sequential keyspace
// model. Model-based random programs plus a bounded-exhaustive walk of the
// model's state graph over a small alphabet.
package c01

import (
	"encoding/json"
	"fmt"
	"os"
	"strings"
	"testing"

	"github.com/tidwall/tile38/verif/harness/ev"
	"github.com/tidwall/tile38/verif/harness/gen"
	"github.com/tidwall/tile38/verif/harness/model"
	"github.com/tidwall/tile38/verif/harness/t38"
	"pgregory.net/rapid"
)

var (
	srv   *t38.Srv
	cResp *t38.Conn
	cJSON *t38.Conn
	cDump *t38.Conn
)

func TestMain(m *testing.M) {
	var err error
	srv, err = t38.Start(t38.Opts{})
	if err != nil {
		fmt.Fprintln(os.Stderr, "cannot start server:", err)
		os.Exit(2)
	}
	cResp = srv.MustDial()
	cJSON = srv.MustDial()
	cDump = srv.MustDial()
	if err := cJSON.SetJSON(true); err != nil {
		fmt.Fprintln(os.Stderr, "OUTPUT json:", err)
		os.Exit(2)
	}
	code := m.Run()
	srv.Stop()
	os.Exit(code)
}

var glob0xffKnown = ev.KnownActive("glob-limits-0xff")

type failer interface {
	Fatalf(format string, args ...any)
	Helper()
}

// program is one generated case.
type program struct {
	Cmds      [][]string `json:"cmds"`
	JSONPhase int        `json:"json_phase"`
	NoJSON    bool       `json:"no_json,omitempty"` // names are not valid UTF-8: JSON replies substitute U+FFFD
}

func negative(v t38.Value) bool {
	return v.IsErr() || (v.Kind == '$' && v.Null) || (v.Kind == ':' && v.Int <= 0)
}

// runProgram executes a program against the server and the model in lock
// step. It returns labels describing what the program exercised.
func runProgram(t failer, c *ev.Collector, p program, dumpAlways bool) (labels map[string]bool, abstract string) {
	t.Helper()
	labels = map[string]bool{}
	if v := cResp.MustDo("FLUSHDB"); v.IsErr() {
		panic("FLUSHDB: " + v.String())
	}
	db := model.NewDB()
	var abs strings.Builder
	var expired = map[string]bool{} // key/id that got a deadline change or whose key was renamed
	for i, cmd := range p.Cmds {
		if glob0xffKnown && len(cmd) > 1 {
			switch strings.ToLower(cmd[0]) {
			case "keys", "pdel":
				if model.GlobPrefixEndsFF(cmd[len(cmd)-1]) {
					c.Excluded("glob-limits-0xff")
					continue
				}
			}
		}
		before := db.Clone()
		exp := model.Exec(db, cmd)
		if exp.Unsupported {
			labels["unsupported-shape-skipped"] = true
			continue
		}
		name := strings.ToLower(cmd[0])
		classify(labels, expired, before, cmd, exp)
		fmt.Fprintf(&abs, "%s(%s);", name, abstractArgs(cmd, exp))
		useJSON := (i+p.JSONPhase)%2 == 1 && !p.NoJSON
		fail := func(kind, what string) {
			c.Fail(t, "model-mismatch:"+name+":"+kind,
				fmt.Sprintf("step %d %s: %s", i, t38.CmdString(cmd), what), p)
		}
		var neg bool
		if useJSON {
			r, err := cJSON.DoJSON(cmd...)
			if err != nil {
				fail("malformed-json", err.Error())
			}
			if d := exp.CheckJSON(r); d != "" {
				fail("json-reply", d)
			}
			neg = !r.OK
		} else {
			v, err := cResp.Do(cmd...)
			if err != nil {
				fail("transport", err.Error())
			}
			if d := exp.CheckRESP(v); d != "" {
				fail("reply", d)
			}
			neg = negative(v)
		}
		if exp.Mutated || neg || dumpAlways {
			d, err := t38.TakeDumpOn(cDump)
			if err != nil {
				fail("dump", err.Error())
			}
			if diff := db.DiffDump(d); diff != "" {
				kind := "state"
				if !exp.Mutated {
					kind = "state-after-noop"
				}
				fail(kind, "visible dataset differs from the model (A=model, B=server): "+diff)
			}
		}
	}
	// a collection exists iff it holds at least one object
	v := cResp.MustDo("KEYS", "*")
	var got []string
	for _, e := range v.Arr {
		got = append(got, e.Str)
	}
	want := db.SortedKeys()
	if strings.Join(got, "\x00") != strings.Join(want, "\x00") {
		c.Fail(t, "model-mismatch:keys:final", fmt.Sprintf("KEYS * = %q, model %q", got, want), p)
	}
	return labels, abs.String()
}

func abstractArgs(cmd []string, exp model.Reply) string {
	var opts []string
	for _, a := range cmd[1:] {
		switch strings.ToUpper(a) {
		case "NX", "XX", "EX", "FIELD", "POINT", "BOUNDS", "HASH", "OBJECT", "STRING", "WITHFIELDS", "ERRON404", "RAW", "STR", "IDS", "COUNT", "DESC", "LIMIT":
			opts = append(opts, strings.ToUpper(a))
		}
	}
	k, id := "", ""
	if len(cmd) > 1 {
		k = cmd[1]
	}
	if len(cmd) > 2 {
		id = cmd[2]
	}
	return fmt.Sprintf("%s,%s,%s,ok=%v,mut=%v", k, id, strings.Join(opts, "+"), exp.JOK, exp.Mutated)
}

func classify(labels map[string]bool, touched map[string]bool, before *model.DB, cmd []string, exp model.Reply) {
	name := strings.ToLower(cmd[0])
	labels["cmd:"+name] = true
	var key, id string
	if len(cmd) > 1 {
		key = cmd[1]
	}
	if len(cmd) > 2 {
		id = cmd[2]
	}
	var old *model.MObj
	if col := before.Cols[key]; col != nil {
		old = col[id]
	}
	switch name {
	case "set":
		if old != nil && exp.Mutated {
			labels["write-hit-existing"] = true
			if !old.Spatial {
				labels["nt:set-over-string"] = true
			}
			if len(old.Fields) > 0 {
				labels["set-keeps-fields"] = true
			}
		}
		if !exp.JOK && !exp.RESP.IsErr() {
			labels["nt:nxxx-refusal"] = true
		}
	case "fset":
		if old != nil && exp.Mutated {
			labels["write-hit-existing"] = true
		}
		if old != nil && touched[key+"\x00"+id] {
			labels["nt:fset-after-expire-or-rename"] = true
		}
	case "expire", "persist":
		if exp.Mutated {
			touched[key+"\x00"+id] = true
			labels["write-hit-existing"] = true
		}
	case "rename", "renamenx":
		if len(cmd) > 2 {
			if _, ok := before.Cols[cmd[2]]; ok && exp.Mutated && cmd[1] != cmd[2] {
				labels["nt:rename-onto-existing"] = true
			}
			if exp.Mutated {
				for oid := range before.Cols[key] {
					touched[cmd[2]+"\x00"+oid] = true
				}
			}
		}
	case "del":
		if exp.Mutated && len(before.Cols[key]) == 1 {
			labels["nt:del-last-id"] = true
		}
	case "jset":
		if old != nil && old.Spatial && exp.Mutated {
			labels["nt:jset-on-geometry"] = true
		}
		if old != nil && exp.Mutated {
			labels["write-hit-existing"] = true
		}
	}
	if !exp.JOK {
		labels["negative-answer"] = true
		if (name == "rename" || name == "renamenx") && strings.Contains(exp.JErr, "key has") {
			labels["nt:rename-refused-by-hook"] = true
		}
	}
}

func nontrivial(labels map[string]bool) bool {
	if !labels["write-hit-existing"] {
		return false
	}
	for l := range labels {
		if strings.HasPrefix(l, "nt:") {
			return true
		}
	}
	return false
}

// hookCmd draws a hook/channel command on one of the case's keys: RENAME and
// RENAMENX must be refused (and change nothing) while a hook or channel
// watches either key.
func hookCmd(t *rapid.T, ns gen.Names) []string {
	name := rapid.SampledFrom([]string{"h1", "h2", "c1", "c2"}).Draw(t, "hookname")
	isChan := name[0] == 'c'
	if rapid.IntRange(0, 2).Draw(t, "hookdel") == 0 {
		if isChan {
			return []string{"DELCHAN", name}
		}
		return []string{"DELHOOK", name}
	}
	key := rapid.SampledFrom(ns.Keys).Draw(t, "hookkey")
	fence := [][]string{
		{"NEARBY", key, "FENCE", "DETECT", "enter", "POINT", "80", "170", "10"},
		{"WITHIN", key, "FENCE", "DETECT", "enter", "BOUNDS", "80", "170", "81", "171"},
	}[rapid.IntRange(0, 1).Draw(t, "hookfence")]
	if isChan {
		return append([]string{"SETCHAN", name}, fence...)
	}
	return append([]string{"SETHOOK", name, "http://127.0.0.1:9/" + name}, fence...)
}

func drawProgram(rt *rapid.T, maxSteps int) program {
	ns := gen.DrawNames(rt)
	cmdGen := rapid.Custom(func(t *rapid.T) []string {
		if rapid.IntRange(0, 24).Draw(t, "hook?") == 0 {
			return hookCmd(t, ns)
		}
		return gen.KeyspaceCmd(t, ns)
	})
	return program{
		Cmds:      rapid.SliceOfN(cmdGen, 6, maxSteps).Draw(rt, "cmds"),
		JSONPhase: rapid.IntRange(0, 1).Draw(rt, "jsonphase"),
	}
}

func TestC01_Model(t *testing.T) {
	c := ev.New("C01", "model", "exploration")
	t.Cleanup(c.Flush)
	c.Rule("random programs of keyspace commands (SET with FIELD/EX/NX/XX and every object kind, FSET, DEL, PDEL, DROP, RENAME(NX), FLUSHDB, EXPIRE, PERSIST, JSET, JDEL, GET, FGET, EXISTS, FEXISTS, TTL, TYPE, KEYS, SCAN, JGET) over a small or a text-class alphabet, executed in lock step on the server (alternating RESP and JSON output) and the reference map model; reply compared after every step, full visible dataset after every mutating or negative step. Non-trivial: the program overwrites an existing id AND contains one of {RENAME onto an existing key, FSET after EXPIRE/PERSIST/RENAME, SET over a string, NX/XX refusal, DEL of the last id, JSET on a geometry}; distinct by the sequence of (command, key, id, options, outcome).")
	c.Assume("tidwall/geojson's parse/serialise gives the canonical object text; field values, replies, and the collection/id map are modelled independently")
	maxSteps := ev.Pick(40, 80)
	ev.Rapid("model", ev.Pick(3000, 20000))
	rapid.Check(t, func(rt *rapid.T) {
		p := drawProgram(rt, maxSteps)
		c.Case()
		labels, abs := runProgram(rt, c, p, false)
		for l := range labels {
			c.Label(l)
		}
		if nontrivial(labels) {
			c.NonTrivial(abs)
			if c.WantSample() {
				c.Sample(map[string]any{"cmds": gen.Describe(p.Cmds), "labels": keys(labels)})
			}
		}
	})
}

// TestC01_HostileNames runs the same model comparison with names that contain
// NUL, 0xff, CR/LF, invalid UTF-8 and a 70-200 KB id (RESP mode only).
func TestC01_HostileNames(t *testing.T) {
	c := ev.New("C01", "hostile-names", "exploration")
	t.Cleanup(c.Flush)
	c.Rule("as the model sub-check, but keys/ids/field names are drawn from a hostile alphabet (NUL, 0xff, CR/LF, invalid UTF-8, spaces, '*', a 70-200 KB id); RESP mode only. Non-trivial and distinct as in the model sub-check.")
	ev.Rapid("hostile", ev.Pick(150, 1500))
	rapid.Check(t, func(rt *rapid.T) {
		ns := gen.HostileNames(rt)
		cmdGen := rapid.Custom(func(t *rapid.T) []string { return gen.KeyspaceCmd(t, ns) })
		p := program{Cmds: rapid.SliceOfN(cmdGen, 6, 30).Draw(rt, "cmds"), NoJSON: true}
		c.Case()
		labels, abs := runProgram(rt, c, p, false)
		for l := range labels {
			c.Label(l)
		}
		if nontrivial(labels) {
			c.NonTrivial(abs)
			if c.WantSample() {
				var short []string
				for _, cmd := range p.Cmds {
					short = append(short, t38.CmdString(cmd))
				}
				c.Sample(map[string]any{"cmds": short})
			}
		}
	})
}

func keys(m map[string]bool) []string {
	var out []string
	for k := range m {
		out = append(out, k)
	}
	return out
}

func TestReplay(t *testing.T) {
	doc, ok := ev.ReplayFile()
	if !ok {
		t.Skip("no replay file")
	}
	c := ev.New("C01", "replay", "exploration")
	t.Cleanup(c.Flush)
	switch doc.Check {
	case "model", "bfs", "replay":
		var p program
		if err := json.Unmarshal(doc.Data, &p); err != nil {
			t.Fatalf("bad replay data: %v", err)
		}
		c.Case()
		runProgram(t, c, p, true)
	case "deadline-replaced":
		var rc rescueCase
		if err := json.Unmarshal(doc.Data, &rc); err != nil {
			t.Fatalf("bad replay data: %v", err)
		}
		c.Case()
		runRescue(t, c, rc)
	case "probes":
		var p probe
		if err := json.Unmarshal(doc.Data, &p); err != nil {
			t.Fatalf("bad replay data: %v", err)
		}
		c.Case()
		runProbe(t, c, p)
	case "errors":
		var p errProgram
		if err := json.Unmarshal(doc.Data, &p); err != nil {
			t.Fatalf("bad replay data: %v", err)
		}
		c.Case()
		runErrProgram(t, c, p)
	default:
		t.Fatalf("unknown check %q", doc.Check)
	}
}

package c01

import (
	"encoding/json"
	"fmt"
	"testing"

	"github.com/tidwall/tile38/verif/harness/ev"
	"github.com/tidwall/tile38/verif/harness/t38"
)

// probeStep is one command of a deterministic probe with the reply the plain
// map model gives ("" = any non-error reply).
type probeStep struct {
	Cmd  []string `json:"cmd"`
	Want string   `json:"want"`
}

type probe struct {
	ID    string      `json:"id"`
	Steps []probeStep `json:"steps"`
}

func ps(want string, cmd ...string) probeStep { return probeStep{Cmd: cmd, Want: want} }

// readerProbes pins the findings of the second reading round that belong to
// this property (all repaired; ids as in KNOWN_FINDINGS.jsonl).
var readerProbes = []probe{
	{"jset-unmatched-path-creates-empty", []probeStep{
		ps("-ERR path not found", "JSET", "newkey", "newid", "a*", "VAL"),
		ps("[]", "KEYS", "*"),
		ps("+OK", "JSET", "k", "d", "a.b", "1"),
		ps("-ERR path not found", "JSET", "k", "d", "x.#(a=1).b", "2"),
		ps(`"{\"a\":{\"b\":1}}"`, "JGET", "k", "d"),
		ps("+OK", "JSET", "k", "d", "a*", "5"),
		ps(`"{\"a\":5}"`, "JGET", "k", "d"),
	}},
	{"jdel-geometry-reply-ok", []probeStep{
		ps("+OK", "SET", "k", "geo", "OBJECT", `{"type":"Feature","geometry":{"type":"Point","coordinates":[1,2]},"properties":{"a":1,"b":2}}`),
		ps(":1", "JDEL", "k", "geo", "properties.a"),
		ps(":0", "JDEL", "k", "geo", "properties.zz"),
		ps("+OK", "JSET", "k", "s", "a", "1"),
		ps(":1", "JDEL", "k", "s", "a"),
	}},
	{"field-name-padded-unreadable", []probeStep{
		ps("+OK", "SET", "k", "a", "FIELD", " h ", "5", "POINT", "1", "2"),
		ps(`"5"`, "FGET", "k", "a", " h "),
		ps(`"5"`, "FGET", "k", "a", "h"),
		ps(":1", "FEXISTS", "k", "a", "\th "),
		ps(`[:0 ["a"]]`, "SCAN", "k", "WHERE", " h ", "==", "5", "IDS"),
		ps(`[:0 ["a"]]`, "SCAN", "k", "WHERE", " h ", "4", "6", "IDS"),
		ps(`[:0 ["a"]]`, "SCAN", "k", "WHEREIN", " h ", "1", "5", "IDS"),
	}},
	{"field-dotted-name-shadowed", []probeStep{
		ps("+OK", "SET", "k", "a", "POINT", "1", "2"),
		ps(":1", "FSET", "k", "a", "j", `{"b":1}`),
		ps(`"1"`, "FGET", "k", "a", "j.b"),
		ps(":1", "FSET", "k", "a", "j.b", "1"),
		ps(":1", "FSET", "k", "a", "j.b", "7"),
		ps(`"7"`, "FGET", "k", "a", "j.b"),
		ps(`[:0 ["a"]]`, "SCAN", "k", "WHERE", "j.b", "==", "7", "IDS"),
		ps(":1", "FSET", "k", "a", "j", `{"b":2}`),
		ps(`"7"`, "FGET", "k", "a", "j.b"),
		ps(":1", "FSET", "k", "a", "j.b", "0"),
		ps(":0", "FSET", "k", "a", "j.b", "0"),
		ps(`"2"`, "FGET", "k", "a", "j.b"),
	}},
	{"geohash-upper-edge-wraps", []probeStep{
		ps("+OK", "SET", "k", "np", "POINT", "90", "10"),
		ps(`"upzpgx"`, "GET", "k", "np", "HASH", "6"),
		ps(`[:0 ["np"]]`, "INTERSECTS", "k", "IDS", "HASH", "upzpgx"),
		ps("+OK", "SET", "k2", "e", "POINT", "10", "180"),
		ps(`"xczbzu"`, "GET", "k2", "e", "HASH", "6"),
		ps(`[:0 ["e"]]`, "INTERSECTS", "k2", "IDS", "HASH", "xczbzu"),
		ps(`[:0 [["e" "xczbz"]]]`, "SCAN", "k2", "HASHES", "5"),
	}},
}

func runProbe(t failer, c *ev.Collector, p probe) {
	t.Helper()
	if v := cResp.MustDo("FLUSHDB"); v.IsErr() {
		panic("FLUSHDB: " + v.String())
	}
	for i, st := range p.Steps {
		v, err := cResp.Do(st.Cmd...)
		if err != nil {
			c.Fail(t, p.ID, fmt.Sprintf("step %d %s: %v", i, t38.CmdString(st.Cmd), err), p)
		}
		if got := v.String(); got != st.Want {
			c.Fail(t, p.ID, fmt.Sprintf("step %d %s answered %s, the map model answers %s", i, t38.CmdString(st.Cmd), got, st.Want), p)
		}
	}
}

func TestC01_ReaderProbes(t *testing.T) {
	c := ev.New("C01", "probes", "regression")
	t.Cleanup(c.Flush)
	c.Rule("deterministic command sequences, one per finding of the code readers that belongs to this property (JSET with a path that selects nothing, the reply of JDEL on a geometry, padded field names on the read side, a field named like a path into a JSON field, the geohash of positions on the upper edge of the ranges), each reply compared with what the plain map model answers. Non-trivial: every probe.")
	for _, p := range readerProbes {
		c.Case()
		c.NonTrivial(p.ID)
		c.Label(p.ID)
		runProbe(t, c, p)
		if c.WantSample() {
			b, _ := json.Marshal(p.Steps[:2])
			c.Sample(map[string]any{"id": p.ID, "first": string(b)})
		}
	}
}

package c13

import (
	"fmt"
	"math"
	"sort"
	"strings"
	"testing"

	"github.com/mmcloughlin/geohash"
	"github.com/tidwall/tile38/verif/harness/ev"
	"github.com/tidwall/tile38/verif/harness/t38"
)

// poleProbe is the deterministic reproduction of findingPole: 70 points up the
// meridian lon=1 starting 0.45 m from the south pole, 70 points 5-11 km away,
// and a 5-nearest query 110 m from one of the meridian points.
func poleProbe(withHash bool) history {
	h := history{Level: "server", Pool: "probe"}
	south, nm, step := -89.999996, 70, 0.003 // 0.45 m from the pole, not float32-representable
	if withHash {
		// the trigger is a decoded geohash instead: geohash.Decode returns
		// latitude -90.000000000000014 for this cell on the meridian lon=1
		// (40 meridian points, so that they share one leaf with the hash object)
		south, nm, step = -89.9999, 40, 0.005
		hash := geohash.EncodeWithPrecision(-90, 1, 9)
		if lat, _ := geohash.Decode(hash); lat >= -90 {
			hash = "h00000000"
		}
		h.Steps = append(h.Steps, stepT{Op: "set", ID: "h", Obj: &objSpec{[]string{"HASH", hash}}})
	}
	for i := 0; i < nm; i++ {
		h.Steps = append(h.Steps, stepT{Op: "set", ID: fmt.Sprintf("m%02d", i), Obj: &objSpec{[]string{"POINT", fs(south + float64(i)*step), "1"}}})
	}
	for i := 0; i < 70; i++ {
		h.Steps = append(h.Steps, stepT{Op: "set", ID: fmt.Sprintf("f%02d", i), Obj: &objSpec{[]string{"POINT", "-89.85", fs(2 + float64(i)*0.01)}}})
	}
	h.Steps = append(h.Steps, stepT{Op: "query", Q: &query{Lat: "-89.9", Lon: "1.001", K: 5}})
	return h
}

// antimeridianProbe: a decoded geohash one ulp west of -180 (8000000000 ->
// lon -180.00000000000003) makes the float32 box of its leaf start at
// -180.00002; for a query on +180 the geodesic bound then takes the "corner"
// branch with a negative longitude difference and returns 1.7 m for a leaf
// that holds an object at distance 0.
func antimeridianProbe() history {
	h := history{Level: "server", Pool: "probe"}
	h.Steps = append(h.Steps, stepT{Op: "set", ID: "h", Obj: &objSpec{[]string{"HASH", "8000000000"}}})
	for i := 0; i < 40; i++ {
		h.Steps = append(h.Steps, stepT{Op: "set", ID: fmt.Sprintf("w%02d", i), Obj: &objSpec{[]string{"POINT", fs(float64(i) * 0.01), "-180"}}})
	}
	for i := 0; i < 70; i++ {
		h.Steps = append(h.Steps, stepT{Op: "set", ID: fmt.Sprintf("e%02d", i), Obj: &objSpec{[]string{"POINT", fs(float64(i) * 0.01), "179.9999991"}}})
	}
	h.Steps = append(h.Steps, stepT{Op: "query", Q: &query{Lat: "0", Lon: "180", K: 1}})
	return h
}

// TestC13_KnownProbes runs first: deterministic reproductions of the findings
// of this property; KNOWN-FINDING when listed as known, VIOLATION otherwise.
func TestC13_KnownProbes(t *testing.T) {
	c := ev.New("C13", "probes", "exploration")
	t.Cleanup(c.Flush)
	c.Rule("deterministic probes of the findings of this property at both levels; one evaluation each, never non-trivial")
	conn := srv.MustDial()
	defer conn.Close()
	var reproduced []string
	var replay *history
	for _, variant := range []string{"collection", "server", "collection+hash", "server+hash", "collection+antimeridian", "server+antimeridian"} {
		level := variant
		if i := strings.Index(variant, "+"); i >= 0 {
			level = variant[:i]
		}
		c.Case()
		var be backend
		if level == "collection" {
			be = &colBackend{}
		} else {
			be = &srvBackend{c: conn}
		}
		be.reset()
		h := poleProbe(strings.HasSuffix(variant, "+hash"))
		if strings.HasSuffix(variant, "+antimeridian") {
			h = antimeridianProbe()
		}
		h.Level = level
		var q query
		for _, st := range h.Steps {
			switch st.Op {
			case "set":
				o, err := buildObject(*st.Obj)
				if err != nil {
					t.Fatal(err)
				}
				if err := be.set(st.ID, *st.Obj, o); err != nil {
					t.Fatal(err)
				}
			case "query":
				q = *st.Q
			}
		}
		hits, err := be.nearby(q)
		if err != nil {
			t.Fatalf("probe: %v", err)
		}
		refs := references(be.dataset(), pf(q.Lat), pf(q.Lon))
		byID := map[string]float64{}
		for _, r := range refs {
			byID[r.id] = r.d
		}
		var got []float64
		for _, hh := range hits {
			got = append(got, byID[hh.ID])
		}
		sort.Float64s(got)
		bad := len(got) != q.K
		for i := 0; i < len(got) && i < len(refs); i++ {
			if math.Abs(got[i]-refs[i].d) > tolPoint(refs[i].d) {
				bad = true
			}
		}
		if bad {
			reproduced = append(reproduced, fmt.Sprintf("%s: results at %.2f m, the nearest are at %.2f %.2f %.2f m", variant, got, refs[0].d, refs[1].d, refs[2].d))
			_ = refs[2]
			c.Label("reproduced:" + variant)
			if replay == nil {
				replay = &h
			}
		}
	}
	// nearby-antipodal-nan and polar-circle-nan-rect: small histories through the ordinary oracle
	others := []string{"m 10 10", "n -10 -10", "o 0 100", "p -41 -15", "q 41.2 164.7"}
	mk := func(first step, qs ...query) history {
		h := history{Pool: "probe"}
		h.Steps = append(h.Steps, first)
		for _, o := range others {
			f := strings.Fields(o)
			h.Steps = append(h.Steps, stepT{Op: "set", ID: f[0], Obj: &objSpec{[]string{"POINT", f[1], f[2]}}})
		}
		for i := range qs {
			h.Steps = append(h.Steps, stepT{Op: "query", Q: &qs[i]})
		}
		return h
	}
	small := []struct {
		finding string
		what    string
		h       history
	}{
		{findingAntipodalNaN, "an object at the exact antipode of the query point (41.214,164.753 vs -41.214,-15.247: the haversine sum rounds above 1) gets DISTANCE NaN and is ranked / kept inside a radius as if it were near: ",
			mk(stepT{Op: "set", ID: "anti", Obj: &objSpec{[]string{"POINT", "41.214", "164.753"}}},
				query{Lat: "-41.214", Lon: "-15.247", K: 100}, query{Lat: "-41.214", Lon: "-15.247", K: 2}, query{Lat: "-41.214", Lon: "-15.247", K: 100, Radius: "4900000"})},
		{findingPolarNaN, "a stored circle whose disc touches a pole (centre [10,1.5], r 9840751 m: NaN vertices) gets DISTANCE NaN instead of 0 from a point inside its box: ",
			mk(stepT{Op: "set", ID: "circ", Obj: &objSpec{[]string{"OBJECT", `{"type":"Feature","geometry":{"type":"Point","coordinates":[10,1.5]},"properties":{"type":"Circle","radius":9840751,"radius_units":"m"}}`}}},
				query{Lat: "0", Lon: "0", K: 100}, query{Lat: "0", Lon: "0", K: 100, Radius: "1000"})},
	}
	for _, sp := range small {
		var rep []string
		var first *history
		for _, level := range []string{"collection", "server"} {
			c.Case()
			h := sp.h
			h.Level = level
			if level == "collection" {
				// no radius in-package
				var st []stepT
				for _, x := range h.Steps {
					if x.Op != "query" || x.Q.Radius == "" {
						st = append(st, x)
					}
				}
				h.Steps = st
			}
			if msg := historyFails(h, conn); msg != "" {
				rep = append(rep, level+": "+msg)
				c.Label("reproduced:" + sp.finding)
				if first == nil {
					hh := h
					first = &hh
				}
			}
		}
		if len(rep) == 0 {
			continue
		}
		what := sp.what + strings.Join(rep, " | ")
		if ev.KnownActive(sp.finding) {
			c.Known(sp.finding, what)
		} else {
			c.Violation(sp.finding, what, first)
			t.Errorf("VIOLATION-CANDIDATE key=%s: %s", sp.finding, what)
		}
	}
	if len(reproduced) == 0 {
		return
	}
	what := fmt.Sprintf("NEARBY LIMIT k does not return the k nearest: a node box reaching beyond -90 (or -180) gets a lower bound larger than the distance of its members: %v", reproduced)
	if ev.KnownActive(findingPole) {
		c.Known(findingPole, what)
	} else {
		c.Violation(findingPole, what, replay)
		t.Errorf("VIOLATION-CANDIDATE key=%s: %s", findingPole, what)
	}
}

type stopFailer struct{ msg string }

func (f *stopFailer) Fatalf(format string, args ...any) {
	f.msg = fmt.Sprintf(format, args...)
	panic(f)
}
func (f *stopFailer) Helper() {}

// historyFails replays h on a scratch collector and returns the violation message, if any.
func historyFails(h history, conn *t38.Conn) (msg string) {
	f := &stopFailer{}
	defer func() {
		if r := recover(); r != nil {
			if r != any(f) {
				panic(r)
			}
			msg = f.msg
		}
	}()
	var be backend = &colBackend{}
	if h.Level == "server" {
		be = &srvBackend{c: conn}
	}
	m := newMachine(f, ev.New("C13", "probe-scratch", "exploration"), be, h.Level)
	m.hist.Pool = h.Pool
	for _, st := range h.Steps {
		m.apply(st)
	}
	return ""
}

package c13

// Reference distances, written independently of internal/collection/geodesic.go:
// great-circle distance in the atan2 form of the haversine formula, and a
// brute-force point-to-lat/lon-rectangle distance (inside test, then the
// minimum over the four edges by sampling + golden-section refinement).

import (
	"math"

	"github.com/tidwall/geojson/geometry"
)

const earthR = 6371000.0

func rad(d float64) float64 { return d * math.Pi / 180 }

// refHav is the great-circle distance in metres.
func refHav(lat1, lon1, lat2, lon2 float64) float64 {
	p1, p2 := rad(lat1), rad(lat2)
	sp := math.Sin(rad(lat2-lat1) / 2)
	sl := math.Sin(rad(lon2-lon1) / 2)
	a := sp*sp + math.Cos(p1)*math.Cos(p2)*sl*sl
	// rounding, and latitudes one ulp beyond a pole (a decoded geohash), can
	// push a out of [0,1]
	if a > 1 {
		a = 1
	}
	if !(a > 0) {
		a = 0
	}
	return 2 * earthR * math.Atan2(math.Sqrt(a), math.Sqrt(1-a))
}

const invPhi = 0.6180339887498949

// edgeMin minimises f over [a,b]: equidistant samples locate every local
// minimum of the sampled curve (f has at most one interior local minimum on
// the edges used here, but an end point can be a second one, e.g. on a
// parallel that runs all the way round), golden-section search refines each.
func edgeMin(f func(float64) float64, a, b float64) float64 {
	if a == b {
		return f(a)
	}
	const n = 16
	var ts, vs [n + 1]float64
	best := math.Inf(1)
	for i := 0; i <= n; i++ {
		ts[i] = a + (b-a)*float64(i)/n
		if i == n {
			ts[i] = b
		}
		vs[i] = f(ts[i])
		best = math.Min(best, vs[i])
	}
	for i := 0; i <= n; i++ {
		if (i > 0 && vs[i] > vs[i-1]) || (i < n && vs[i] > vs[i+1]) {
			continue
		}
		best = math.Min(best, golden(f, ts[imax(i-1, 0)], ts[imin(i+1, n)]))
	}
	return best
}

func golden(f func(float64) float64, lo, hi float64) float64 {
	c := hi - invPhi*(hi-lo)
	d := lo + invPhi*(hi-lo)
	fc, fd := f(c), f(d)
	for i := 0; i < 48; i++ {
		if fc < fd {
			hi, d, fd = d, c, fc
			c = hi - invPhi*(hi-lo)
			fc = f(c)
		} else {
			lo, c, fc = c, d, fd
			d = lo + invPhi*(hi-lo)
			fd = f(d)
		}
	}
	return math.Min(fc, fd)
}

// refRectDist is the distance in metres from (lat,lon) to the region
// {(φ,λ): minY<=φ<=maxY, minX<=λ<=maxX}; 0 inside.
func refRectDist(lat, lon float64, r geometry.Rect) float64 {
	if r.Min == r.Max {
		return refHav(lat, lon, r.Min.Y, r.Min.X)
	}
	if lat >= r.Min.Y && lat <= r.Max.Y {
		for _, l := range []float64{lon, lon + 360, lon - 360} {
			if l >= r.Min.X && l <= r.Max.X {
				return 0
			}
		}
	}
	best := math.Inf(1)
	for _, x := range []float64{r.Min.X, r.Max.X} {
		x := x
		best = math.Min(best, edgeMin(func(y float64) float64 { return refHav(lat, lon, y, x) }, r.Min.Y, r.Max.Y))
	}
	for _, y := range []float64{r.Min.Y, r.Max.Y} {
		y := y
		best = math.Min(best, edgeMin(func(x float64) float64 { return refHav(lat, lon, y, x) }, r.Min.X, r.Max.X))
	}
	return best
}

// condTol bounds the effect of rounding in asin(sqrt(h)) style formulas: the
// distance is ill-conditioned towards the antipode (d -> pi*R), where an
// error of a few ulps in h moves d by up to 2R*sqrt(8u) ~ 0.4 m.
func condTol(d float64) float64 {
	const u = 1.2e-16
	x := d / (2 * earthR)
	if x >= math.Pi/2 {
		return 0.4
	}
	return math.Min(2*earthR*8*u*math.Tan(x), 0.4)
}

// crossTol bounds the rounding error of the cross-track branch of
// pointRectDistGeodeticRad, d = R*asin(cos(lat_q)*sin(dlon)), which is used
// for the lower bound of every R-tree node and for the reported distance of an
// extended object whenever the query point lies east or west of the box. Its
// derivative with respect to the asin argument x is R/sqrt(1-x^2) = R/cos(d/R):
// an argument off by c*u moves d by R*c*u*tan(d/R), unbounded towards a quarter
// of the circumference (d -> pi/2*R = 10 007 543 m), where x rounds to exactly
// 1 and the error saturates at R*(asin(1)-asin(1-c*u)) = R*sqrt(2*c*u). With
// c = 8 ulps (deg->rad conversions, cos, sin, product) the cap is 0.27 m.
// Seen: q = (-2e-7, 24.9999998), meridian -65: asin form 10007543.398010 m,
// well-conditioned atan2 form 10007543.366560 m (3.1 cm too large), so a node
// was popped 1.56 cm after a member of another node. The haversine used for
// point items (2*asin(sqrt(h)), h = 0.5 here) is well conditioned at that
// distance, which is why only order and extended-object checks need this term.
func crossTol(d float64) float64 {
	const u = 1.11e-16
	const c = 8
	limit := earthR * math.Sqrt(2*c*u)
	return math.Min(earthR*c*u*math.Abs(math.Tan(d/earthR)), limit)
}

// tolPoint: reported vs reference distance of a point object.
func tolPoint(d float64) float64 { return 1e-6 + 1e-9*d + condTol(d) }

// tolExt: reported vs brute-force distance to the box of an extended object.
func tolExt(d float64) float64 { return 1e-4 + 1e-8*d + condTol(d) + crossTol(d) }

// tolOrd: allowed inversion between consecutive reported distances.
// A node is expanded when its lower bound is the smallest key in the queue; a
// bound that is too large by crossTol lets members of other nodes overtake
// its members by that much.
func tolOrd(d float64) float64 { return 1e-6 + 1e-12*d + condTol(d) + crossTol(d) }

// tolRank: comparison of the k smallest reference distances with those of the
// results; an overtaken object (see tolOrd) can also drop out of the first k.
func tolRank(d float64, ext bool) float64 {
	if ext {
		return tolExt(d)
	}
	return tolPoint(d) + crossTol(d)
}

func imin(a, b int) int {
	if a < b {
		return a
	}
	return b
}

func imax(a, b int) int {
	if a > b {
		return a
	}
	return b
}

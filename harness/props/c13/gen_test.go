package c13

// Generators for C13: coordinate pools with duplicates, rings of equidistant
// points (ties), pole and antimeridian neighbourhoods; point and extended
// objects; NEARBY queries (k, radius relative to the true distances).

import (
	"math"
	"sort"
	"strconv"
	"strings"

	"github.com/mmcloughlin/geohash"
	"github.com/tidwall/geojson"
	"github.com/tidwall/geojson/geometry"
	"github.com/tidwall/tile38/internal/collection"
	"pgregory.net/rapid"
)

func fs(v float64) string { return strconv.FormatFloat(v, 'f', -1, 64) }

func pf(s string) float64 {
	v, err := strconv.ParseFloat(s, 64)
	if err != nil {
		panic("generator produced a bad number: " + s)
	}
	return v
}

type objSpec struct {
	Args []string `json:"args"`
}

type pool struct {
	X, Y []float64 // sorted, distinct
	Mode string
}

func clamp(v, lim float64) float64 {
	if v > lim {
		return lim
	}
	if v < -lim {
		return -lim
	}
	if math.Abs(v) < 1e-30 {
		return 0
	}
	return v
}

func finish(vs []float64, lim float64) []float64 {
	out := make([]float64, 0, len(vs))
	for _, v := range vs {
		out = append(out, clamp(v, lim))
	}
	sort.Float64s(out)
	d := out[:0]
	for i, v := range out {
		if i == 0 || v != out[i-1] {
			d = append(d, v)
		}
	}
	return d
}

var poolModes = []string{"world", "cluster", "pole", "antimeridian", "oneside", "world", "grid", "cluster", "polecap", "onecap"}

func drawPool(rt *rapid.T) pool {
	mode := rapid.SampledFrom(poolModes).Draw(rt, "poolmode")
	nb := rapid.IntRange(3, 40).Draw(rt, "nbase")
	uni := func(label string, lo, hi float64, n int) []float64 {
		out := make([]float64, n)
		for i := range out {
			out[i] = rapid.Float64Range(lo, hi).Draw(rt, label)
		}
		return out
	}
	cluster := func(label string, c float64, n int, maxExp int) []float64 {
		out := []float64{c}
		for i := 0; i < n; i++ {
			e := rapid.IntRange(0, maxExp).Draw(rt, label+"exp")
			m := rapid.IntRange(-9, 9).Draw(rt, label+"mant")
			out = append(out, c+float64(m)*math.Pow(10, -float64(e)))
		}
		return out
	}
	var xs, ys []float64
	switch mode {
	case "world":
		xs, ys = uni("x", -180, 180, nb), uni("y", -90, 90, nb)
	case "cluster":
		cx := rapid.Float64Range(-179, 179).Draw(rt, "cx")
		cy := rapid.Float64Range(-89, 89).Draw(rt, "cy")
		xs, ys = cluster("x", cx, nb, 9), cluster("y", cy, nb, 9)
	case "pole":
		// |lat| > 85 on one side, any longitude
		s := float64(rapid.SampledFrom([]int{1, -1}).Draw(rt, "polesign"))
		xs = append(uni("x", -180, 180, nb), -180, 180, 0, 90, -90)
		ys = []float64{s * 90}
		for _, v := range uni("y", 85, 90, nb) {
			ys = append(ys, s*v)
		}
		ys = append(ys, cluster("yc", s*90, nb/2, 9)...)
	case "polecap":
		// both caps plus a few mid-latitude values: neighbours across the pole
		xs = append(uni("x", -180, 180, nb), -180, 180)
		ys = append(uni("yn", 85, 90, nb/2+1), 90, -90)
		ys = append(ys, uni("ys", -90, -85, nb/2+1)...)
		ys = append(ys, uni("ym", -60, 60, 2)...)
	case "antimeridian":
		xs = []float64{180, -180}
		xs = append(xs, uni("xe", 175, 180, nb/2+1)...)
		xs = append(xs, uni("xw", -180, -175, nb/2+1)...)
		xs = append(xs, cluster("xc", 180, nb/4, 9)...)
		xs = append(xs, cluster("xd", -180, nb/4, 9)...)
		ys = uni("y", -90, 90, nb)
	case "oneside":
		// the whole dataset on ONE side of the antimeridian, within 5 degrees of
		// it: queries come from the other side with radii that reach across
		sgn := float64(rapid.SampledFrom([]int{1, -1}).Draw(rt, "side"))
		for _, v := range uni("xs", 175, 180, nb) {
			xs = append(xs, sgn*v)
		}
		if rapid.Bool().Draw(rt, "touch180") {
			xs = append(xs, sgn*180)
		}
		ys = uni("y", -60, 60, nb)
	case "onecap":
		// the whole dataset in one sector next to a pole: queries come from the
		// opposite meridian, over the pole
		sgn := float64(rapid.SampledFrom([]int{1, -1}).Draw(rt, "cap"))
		c := rapid.Float64Range(-170, 170).Draw(rt, "capmeridian")
		xs = uni("xc", c-10, c+10, nb)
		for _, v := range uni("yc", 84, 90, nb) {
			ys = append(ys, sgn*v)
		}
	case "grid":
		for i := 0; i < nb; i++ {
			xs = append(xs, float64(rapid.IntRange(-36, 36).Draw(rt, "gx"))*5)
			ys = append(ys, float64(rapid.IntRange(-18, 18).Draw(rt, "gy"))*5)
		}
	}
	return pool{X: finish(xs, 180), Y: finish(ys, 90), Mode: mode}
}

func (p pool) xy(rt *rapid.T) (x, y float64) {
	return p.X[rapid.IntRange(0, len(p.X)-1).Draw(rt, "xi")], p.Y[rapid.IntRange(0, len(p.Y)-1).Draw(rt, "yi")]
}

func span(rt *rapid.T, label string, n int) (int, int) {
	i := rapid.IntRange(0, n-1).Draw(rt, label)
	maxd := 3
	if rapid.IntRange(0, 5).Draw(rt, label+"wide") == 0 {
		maxd = n
	}
	j := i + rapid.IntRange(0, maxd).Draw(rt, label+"d")
	if j > n-1 {
		j = n - 1
	}
	return i, j
}

func (p pool) box(rt *rapid.T) (x0, y0, x1, y1 float64) {
	i0, i1 := span(rt, "bx", len(p.X))
	j0, j1 := span(rt, "by", len(p.Y))
	return p.X[i0], p.Y[j0], p.X[i1], p.Y[j1]
}

func jpos(x, y float64) string { return "[" + fs(x) + "," + fs(y) + "]" }

func jring(x0, y0, x1, y1 float64) string {
	return "[" + strings.Join([]string{jpos(x0, y0), jpos(x1, y0), jpos(x1, y1), jpos(x0, y1), jpos(x0, y0)}, ",") + "]"
}

func (p pool) positions(rt *rapid.T, min, max int) string {
	n := rapid.IntRange(min, max).Draw(rt, "npos")
	ps := make([]string, n)
	for i := range ps {
		x, y := p.xy(rt)
		ps[i] = jpos(x, y)
	}
	return "[" + strings.Join(ps, ",") + "]"
}

// object draws the object part of a SET. (rapid favours small numbers, so the
// frequent kinds come first.)
func (p pool) object(rt *rapid.T) objSpec {
	switch k := rapid.IntRange(0, 99).Draw(rt, "objkind"); {
	case k < 55:
		x, y := p.xy(rt)
		return objSpec{[]string{"POINT", fs(y), fs(x)}}
	case k < 70:
		x0, y0, x1, y1 := p.box(rt)
		return objSpec{[]string{"BOUNDS", fs(y0), fs(x0), fs(y1), fs(x1)}}
	case k < 75:
		x0, y0, x1, y1 := p.box(rt)
		return objSpec{[]string{"OBJECT", `{"type":"Polygon","coordinates":[` + jring(x0, y0, x1, y1) + `]}`}}
	case k < 80:
		return objSpec{[]string{"OBJECT", `{"type":"LineString","coordinates":` + p.positions(rt, 2, 4) + `}`}}
	case k < 83:
		return objSpec{[]string{"OBJECT", `{"type":"MultiPoint","coordinates":` + p.positions(rt, 1, 3) + `}`}}
	case k < 86:
		x0, y0, x1, y1 := p.box(rt)
		xm, _ := p.xy(rt)
		tri := "[[" + strings.Join([]string{jpos(x0, y0), jpos(x1, y0), jpos(xm, y1), jpos(x0, y0)}, ",") + "]]"
		return objSpec{[]string{"OBJECT", `{"type":"Feature","geometry":{"type":"Polygon","coordinates":` + tri + `},"properties":{"n":1}}`}}
	case k < 89:
		x, y := p.xy(rt)
		return objSpec{[]string{"POINT", fs(y), fs(x), strconv.Itoa(rapid.IntRange(1, 9000).Draw(rt, "z"))}}
	case k < 91:
		x, y := p.xy(rt)
		return objSpec{[]string{"HASH", geohash.EncodeWithPrecision(y, x, uint(rapid.IntRange(1, 12).Draw(rt, "hprec")))}}
	case k < 93:
		x, y := p.xy(rt)
		return objSpec{[]string{"OBJECT", `{"type":"Feature","geometry":{"type":"Point","coordinates":` + jpos(x, y) + `},"properties":{"speed":3}}`}}
	case k < 95:
		// a stored circle; kept away from poles/antimeridian where the box of
		// its polygon approximation leaves the valid coordinate range
		x, y := p.xy(rt)
		if math.Abs(x) <= 170 && math.Abs(y) <= 80 {
			r := rapid.Float64Range(1, 100000).Draw(rt, "crad")
			return objSpec{[]string{"OBJECT", `{"type":"Feature","geometry":{"type":"Point","coordinates":` + jpos(x, y) + `},"properties":{"type":"Circle","radius":` + fs(r) + `,"radius_units":"m"}}`}}
		}
		return objSpec{[]string{"POINT", fs(y), fs(x)}}
	case k < 97:
		return objSpec{[]string{"OBJECT", rapid.SampledFrom([]string{`{"type":"GeometryCollection","geometries":[]}`, `{"type":"FeatureCollection","features":[]}`, `{"type":"MultiPoint","coordinates":[]}`}).Draw(rt, "empty")}}
	default:
		return objSpec{[]string{"STRING", rapid.SampledFrom([]string{"hello", "", "12.5"}).Draw(rt, "str")}}
	}
}

var parseOpts = *geojson.DefaultParseOptions

// buildObject mirrors cmdSET's construction of the stored geometry.
func buildObject(spec objSpec) (geojson.Object, error) {
	a := spec.Args
	switch strings.ToUpper(a[0]) {
	case "POINT":
		if len(a) == 4 {
			return geojson.NewPointZ(geometry.Point{X: pf(a[2]), Y: pf(a[1])}, pf(a[3])), nil
		}
		return geojson.NewPoint(geometry.Point{X: pf(a[2]), Y: pf(a[1])}), nil
	case "BOUNDS":
		return geojson.NewRect(geometry.Rect{
			Min: geometry.Point{X: pf(a[2]), Y: pf(a[1])},
			Max: geometry.Point{X: pf(a[4]), Y: pf(a[3])},
		}), nil
	case "HASH":
		lat, lon := geohash.Decode(a[1])
		return geojson.NewPoint(geometry.Point{X: lon, Y: lat}), nil
	case "OBJECT":
		return geojson.Parse(a[1], &parseOpts)
	default:
		return collection.String(a[1]), nil
	}
}

// eligible says whether NEARBY can return the object at all: geometries that
// are not empty (strings and empty collections have no position).
func eligible(o geojson.Object) bool {
	if o == nil {
		return false
	}
	if _, isStr := o.(collection.String); isStr {
		return false
	}
	return !o.Empty()
}

// queryPoint draws where to search from: an object position, a pool position,
// a pole, the antimeridian, or anywhere.
func (p pool) queryPoint(rt *rapid.T) (lat, lon float64) {
	if p.Mode == "oneside" && rapid.Bool().Draw(rt, "across") {
		// from the other side of the antimeridian
		x, y := p.xy(rt)
		return y, clamp(-x+float64(rapid.IntRange(-9, 9).Draw(rt, "adx"))*0.1, 180)
	}
	if p.Mode == "onecap" && rapid.Bool().Draw(rt, "overpole") {
		// from the opposite meridian, same cap
		x, y := p.xy(rt)
		ox := x + 180
		if ox > 180 {
			ox -= 360
		}
		return clamp(y-float64(rapid.IntRange(0, 40).Draw(rt, "ody"))*0.1*math.Copysign(1, y), 90), ox
	}
	switch rapid.IntRange(0, 7).Draw(rt, "qkind") {
	case 0, 1, 2:
		x, y := p.xy(rt)
		return y, x
	case 3:
		x, y := p.xy(rt)
		// next to a pool position
		e := rapid.IntRange(1, 9).Draw(rt, "qexp")
		return clamp(y+float64(rapid.IntRange(-9, 9).Draw(rt, "qdy"))*math.Pow(10, -float64(e)), 90),
			clamp(x+float64(rapid.IntRange(-9, 9).Draw(rt, "qdx"))*math.Pow(10, -float64(e)), 180)
	case 4:
		return float64(rapid.SampledFrom([]int{90, -90}).Draw(rt, "qpole")), rapid.Float64Range(-180, 180).Draw(rt, "qlon")
	case 5:
		return rapid.Float64Range(-90, 90).Draw(rt, "qlat"), float64(rapid.SampledFrom([]int{180, -180}).Draw(rt, "qam"))
	default:
		return rapid.Float64Range(-90, 90).Draw(rt, "qlat"), rapid.Float64Range(-180, 180).Draw(rt, "qlon")
	}
}

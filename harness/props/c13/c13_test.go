// C13: NEARBY returns nearest neighbours in distance order.
//
//	TestC13_Collection  in-package: Collection.Nearby after insert/move/delete
//	                    histories vs. independently computed distances
//	TestC13_Server      protocol level: NEARBY key LIMIT k DISTANCE IDS POINT
//	                    lat lon [r] vs. reference distances of a full SCAN
//	TestReplay          re-executes a replay file of either level
package c13

import (
	"encoding/json"
	"flag"
	"fmt"
	"hash/fnv"
	"math"
	"os"
	"sort"
	"strconv"
	"strings"
	"sync"
	"testing"

	"github.com/tidwall/geojson"
	"github.com/tidwall/geojson/geometry"
	"github.com/tidwall/tile38/internal/collection"
	"github.com/tidwall/tile38/internal/field"
	"github.com/tidwall/tile38/internal/object"
	"github.com/tidwall/tile38/verif/harness/ev"
	"github.com/tidwall/tile38/verif/harness/t38"
	"pgregory.net/rapid"
)

// findingPole: rtreeValueDown/Up push a latitude that is within ~1e-5 degrees
// of a pole and not float32-representable beyond +-90 (e.g. -89.999996 ->
// -90.00000763). Node boxes of the R-tree are these float32 boxes, and the
// geodesic lower bound evaluates tan() beyond the pole, where it flips sign:
// the bound of such a node becomes the distance to the pole, larger than the
// distance of its members, and the best-first order breaks.
const findingPole = "nearby-pole-box-beyond-90"

// poleLat reports whether a latitude can trigger findingPole (over-approximated):
// within the last 1e-5 degrees before a pole, or beyond it (geohash.Decode
// returns -90.000000000000014 for cells at the south pole), but not the pole
// itself, which is float32-representable.
func poleLat(v float64) bool {
	a := math.Abs(v)
	return a != 90 && a > 90-1e-5
}

func poleShape(o geojson.Object) bool {
	if !eligible(o) {
		return false
	}
	r := o.Rect()
	// follow-up of the same cause: a longitude beyond +-180 (decoded geohash)
	return poleLat(r.Min.Y) || poleLat(r.Max.Y) || r.Min.X < -180 || r.Max.X > 180
}

// findingAntipodalNaN (fixed 55f8b14): distRad's haversine sum can round above 1
// for an exactly antipodal pair (about one pair in a million), asin gives NaN,
// and the NaN key disorders the queue: NaN DISTANCE, the farthest object ranked
// second, returned inside any radius.
const findingAntipodalNaN = "nearby-antipodal-nan"

// findingPolarNaN (fixed d8fcded): a stored circle whose disc touches a pole has
// a 64-gon with NaN vertices, Rect() is NaN, and the item distance computed from
// it was NaN.
const findingPolarNaN = "polar-circle-nan-rect"

// nanCircle: a stored circle object whose polygon box has a NaN component.
func nanCircle(o geojson.Object) (*geojson.Circle, bool) {
	ci, ok := o.(*geojson.Circle)
	if !ok {
		return nil, false
	}
	r := ci.Rect()
	if math.IsNaN(r.Min.X) || math.IsNaN(r.Min.Y) || math.IsNaN(r.Max.X) || math.IsNaN(r.Max.Y) {
		return ci, true
	}
	return nil, false
}

// insideDiscBox: the query point lies well inside the bounding rectangle of the
// circle's disc (which reaches from the far rim to the pole it touches and
// +-90 degrees of longitude round the centre): the distance must be 0 then.
func insideDiscBox(ci *geojson.Circle, lat, lon float64) bool {
	ctr := ci.Center()
	rdeg := ci.Meters() / earthR * 180 / math.Pi
	dl := math.Abs(lon - ctr.X)
	if dl > 180 {
		dl = 360 - dl
	}
	if dl > 85 {
		return false
	}
	if ctr.Y >= 0 {
		return lat >= ctr.Y-rdeg+0.01
	}
	return lat <= ctr.Y+rdeg-0.01
}

var srv *t38.Srv

func TestMain(m *testing.M) {
	var err error
	srv, err = t38.Start(t38.Opts{})
	if err != nil {
		fmt.Fprintln(os.Stderr, "cannot start server:", err)
		os.Exit(2)
	}
	code := m.Run()
	srv.Stop()
	os.Exit(code)
}

const theKey = "fleet"

// ---- steps ----------------------------------------------------------------------

type query struct {
	Lat    string `json:"lat"`
	Lon    string `json:"lon"`
	K      int    `json:"k"`
	Radius string `json:"radius,omitempty"` // "" = none
}

type step = stepT

type stepT struct {
	Op   string   `json:"op"` // set | del | touch | query
	ID   string   `json:"id,omitempty"`
	Kind string   `json:"kind,omitempty"` // touch: fset | expire | persist (same geometry, new object)
	Val  string   `json:"val,omitempty"`  // touch fset: value of field f
	Obj  *objSpec `json:"obj,omitempty"`
	Q    *query   `json:"q,omitempty"`
}

type history struct {
	Level string `json:"level"`
	Pool  string `json:"pool,omitempty"`
	Steps []step `json:"steps"`
}

type hit struct {
	ID   string
	Dist float64
}

// ---- backends ---------------------------------------------------------------------

type backend interface {
	reset()
	set(id string, spec objSpec, obj geojson.Object) error
	del(id string) error
	// touch replaces the object by a new one with the very same geometry value
	// and other fields / expiry, as FSET, EXPIRE and PERSIST do.
	touch(id, kind, val string) error
	// dataset is the full scan: every id with its geometry (nil = not a geometry).
	dataset() map[string]geojson.Object
	nearby(q query) ([]hit, error)
}

type colBackend struct{ col *collection.Collection }

func (b *colBackend) reset() { b.col = collection.New() }
func (b *colBackend) set(id string, spec objSpec, obj geojson.Object) error {
	b.col.Set(object.New(id, obj, 0, field.List{}))
	return nil
}
func (b *colBackend) del(id string) error { b.col.Delete(id); return nil }
func (b *colBackend) dataset() map[string]geojson.Object {
	out := map[string]geojson.Object{}
	b.col.Scan(false, nil, nil, func(o *object.Object) bool {
		out[o.ID()] = o.Geo()
		return true
	})
	return out
}
func (b *colBackend) touch(id, kind, val string) error {
	old := b.col.Get(id)
	if old == nil {
		return nil
	}
	fields, expires := old.Fields(), old.Expires()
	switch kind {
	case "fset":
		fields = fields.Set(field.Make("f", val))
	case "expire":
		expires = 1 << 62
	case "persist":
		if expires == 0 {
			return nil // cmdPERSIST leaves such an object alone
		}
		expires = 0
	}
	// exactly what cmdFSET/cmdEXPIRE/cmdPERSIST do: same geometry value, new object
	b.col.Set(object.New(id, old.Geo(), expires, fields))
	return nil
}

// staleErr: a search delivered an object (or fields) that is not the current
// one of that id.
type staleErr struct{ msg string }

func (e staleErr) Error() string { return e.msg }

func (b *colBackend) nearby(q query) ([]hit, error) {
	var hits []hit
	var stale error
	target := geojson.NewPoint(geometry.Point{X: pf(q.Lon), Y: pf(q.Lat)})
	b.col.Nearby(target, nil, nil, func(o *object.Object, dist float64) bool {
		hits = append(hits, hit{o.ID(), dist})
		if cur := b.col.Get(o.ID()); cur != o && stale == nil {
			what := "an id that Get does not know"
			if cur != nil {
				what = fmt.Sprintf("a superseded object (fields %v, current %v)", o.Fields(), cur.Fields())
			}
			stale = staleErr{fmt.Sprintf("result %d: Nearby delivered for %q %s", len(hits)-1, o.ID(), what)}
		}
		return len(hits) < q.K
	})
	return hits, stale
}

type srvBackend struct {
	c    *t38.Conn
	fld  map[string]string // model: current value of field f per id (SET keeps fields)
	live map[string]bool
	nTch int
}

func (b *srvBackend) reset() {
	if v := b.c.MustDo("FLUSHDB"); v.IsErr() {
		panic("FLUSHDB: " + v.String())
	}
	b.fld, b.live, b.nTch = map[string]string{}, map[string]bool{}, 0
}
func (b *srvBackend) set(id string, spec objSpec, obj geojson.Object) error {
	v, err := b.c.Do(append([]string{"SET", theKey, id}, spec.Args...)...)
	if err != nil {
		return err
	}
	if v.Kind != '+' {
		return fmt.Errorf("SET %s %v answered %s", id, spec.Args, v)
	}
	b.live[id] = true
	return nil
}

func (b *srvBackend) touch(id, kind, val string) error {
	var args []string
	switch kind {
	case "fset":
		args = []string{"FSET", theKey, id, "f", val}
	case "expire":
		args = []string{"EXPIRE", theKey, id, "100000"}
	default:
		args = []string{"PERSIST", theKey, id}
	}
	v, err := b.c.Do(args...)
	if err != nil {
		return err
	}
	if v.Kind != ':' {
		return fmt.Errorf("%v answered %s", args, v)
	}
	if kind == "fset" && b.live[id] {
		b.fld[id] = val
	}
	b.nTch++
	return nil
}
func (b *srvBackend) del(id string) error {
	v, err := b.c.Do("DEL", theKey, id)
	if err != nil {
		return err
	}
	if v.IsErr() {
		return fmt.Errorf("DEL %s answered %s", id, v)
	}
	delete(b.live, id)
	delete(b.fld, id)
	return nil
}
func (b *srvBackend) dataset() map[string]geojson.Object {
	v := b.c.MustDo("SCAN", theKey, "LIMIT", "1000000000", "OBJECTS")
	if v.Kind != '*' || len(v.Arr) != 2 || v.Arr[1].Kind != '*' {
		panic("SCAN reply shape: " + v.String())
	}
	out := map[string]geojson.Object{}
	for _, e := range v.Arr[1].Arr {
		if e.Kind != '*' || len(e.Arr) < 2 {
			panic("SCAN element shape: " + e.String())
		}
		id, text := e.Arr[0].Str, e.Arr[1].Str
		o, err := geojson.Parse(text, &parseOpts)
		if err != nil {
			o = nil // a string value
		}
		out[id] = o
	}
	return out
}

type replyErr struct{ msg string }

func (e replyErr) Error() string { return e.msg }

func (b *srvBackend) nearby(q query) ([]hit, error) {
	args := []string{"NEARBY", theKey, "LIMIT", strconv.Itoa(q.K), "DISTANCE", "IDS", "POINT", q.Lat, q.Lon}
	if q.Radius != "" {
		args = append(args, q.Radius)
	}
	v, err := b.c.Do(args...)
	if err != nil {
		return nil, err
	}
	if v.IsErr() {
		return nil, replyErr{v.Str}
	}
	if v.Kind != '*' || len(v.Arr) != 2 || v.Arr[1].Kind != '*' {
		return nil, replyErr{"unexpected reply shape " + v.String()}
	}
	var hits []hit
	for _, e := range v.Arr[1].Arr {
		if e.Kind != '*' || len(e.Arr) != 2 || e.Arr[0].Kind != '$' || e.Arr[1].Kind != '$' {
			return nil, replyErr{"unexpected element " + e.String() + " (want [id, distance])"}
		}
		d, err := strconv.ParseFloat(e.Arr[1].Str, 64)
		if err != nil {
			return nil, replyErr{"distance is not a number: " + e.Arr[1].Str}
		}
		hits = append(hits, hit{e.Arr[0].Str, d})
	}
	if b.nTch > 0 {
		// the same query with an output that carries the fields: every returned
		// object must show the current value of field f
		fargs := []string{"NEARBY", theKey, "LIMIT", strconv.Itoa(q.K), "POINTS", "POINT", q.Lat, q.Lon}
		if q.Radius != "" {
			fargs = append(fargs, q.Radius)
		}
		fv, err := b.c.Do(fargs...)
		if err != nil {
			return nil, err
		}
		if fv.Kind != '*' || len(fv.Arr) != 2 || fv.Arr[1].Kind != '*' || len(fv.Arr[1].Arr) != len(hits) {
			return hits, staleErr{fmt.Sprintf("the POINTS form of the query returned %s for %d results", fv, len(hits))}
		}
		for i, e := range fv.Arr[1].Arr {
			if e.Kind != '*' || len(e.Arr) < 2 || e.Arr[0].Str != hits[i].ID {
				return hits, staleErr{fmt.Sprintf("the POINTS form of the query returned element %s where IDS returned %q", e, hits[i].ID)}
			}
			got := ""
			if len(e.Arr) == 3 && e.Arr[2].Kind == '*' {
				for j := 0; j+1 < len(e.Arr[2].Arr); j += 2 {
					if e.Arr[2].Arr[j].Str == "f" {
						got = e.Arr[2].Arr[j+1].Str
					}
				}
			}
			if got != b.fld[hits[i].ID] {
				return hits, staleErr{fmt.Sprintf("result %d: NEARBY shows field f=%q for %q, its current value is %q", i, got, hits[i].ID, b.fld[hits[i].ID])}
			}
		}
	}
	return hits, nil
}

// ---- machine ------------------------------------------------------------------------

type machine struct {
	t     ev.Failer
	c     *ev.Collector
	be    backend
	hist  *history
	live  map[string]geojson.Object // harness mirror: what was SET
	ids   []string
	pos   map[string]int
	h     uint64
	nDel  int
	nMove int
	nextN int
	// geometry-preserving updates (FSET/EXPIRE/PERSIST)
	nTouch, touchSeq int
}

func newMachine(t ev.Failer, c *ev.Collector, be backend, level string) *machine {
	be.reset()
	return &machine{t: t, c: c, be: be, hist: &history{Level: level},
		live: map[string]geojson.Object{}, pos: map[string]int{}, h: 14695981039346656037}
}

func (m *machine) mix(parts ...string) {
	h := fnv.New64a()
	var b [8]byte
	for i := range b {
		b[i] = byte(m.h >> (8 * i))
	}
	h.Write(b[:])
	for _, p := range parts {
		h.Write([]byte(p))
		h.Write([]byte{0})
	}
	m.h = h.Sum64()
}

func (m *machine) newID() string {
	m.nextN++
	return fmt.Sprintf("o%05d", m.nextN)
}

func harnessErr(format string, a ...any) { panic("harness: " + fmt.Sprintf(format, a...)) }

func (m *machine) apply(st step) {
	m.hist.Steps = append(m.hist.Steps, st)
	switch st.Op {
	case "set":
		obj, err := buildObject(*st.Obj)
		if err != nil {
			harnessErr("generated object does not parse: %v %v", st.Obj.Args, err)
		}
		if err := m.be.set(st.ID, *st.Obj, obj); err != nil {
			harnessErr("%v", err)
		}
		if _, ok := m.live[st.ID]; ok {
			m.nMove++
		} else {
			m.pos[st.ID] = len(m.ids)
			m.ids = append(m.ids, st.ID)
		}
		m.live[st.ID] = obj
		m.mix("set", st.ID, strings.Join(st.Obj.Args, " "))
	case "del":
		if err := m.be.del(st.ID); err != nil {
			harnessErr("%v", err)
		}
		if _, ok := m.live[st.ID]; ok {
			m.nDel++
			i := m.pos[st.ID]
			last := m.ids[len(m.ids)-1]
			m.ids[i] = last
			m.pos[last] = i
			m.ids = m.ids[:len(m.ids)-1]
			delete(m.pos, st.ID)
			delete(m.live, st.ID)
		}
		m.mix("del", st.ID)
	case "touch":
		if err := m.be.touch(st.ID, st.Kind, st.Val); err != nil {
			harnessErr("%v", err)
		}
		m.nTouch++
		m.mix("touch", st.ID, st.Kind, st.Val)
	case "query":
		m.mix("query", st.Q.Lat, st.Q.Lon, strconv.Itoa(st.Q.K), st.Q.Radius)
		m.query(*st.Q)
	default:
		harnessErr("unknown op %q", st.Op)
	}
}

type refDist struct {
	id  string
	d   float64
	ext bool // extended object: brute-force distance to its box
}

// references computes the reference distance of every eligible object of the
// full scan, sorted ascending.
func references(ds map[string]geojson.Object, lat, lon float64) []refDist {
	out := make([]refDist, 0, len(ds))
	for id, o := range ds {
		if !eligible(o) {
			continue
		}
		if _, wild := nanCircle(o); wild {
			continue // no reference distance: see wildcards in machine.query
		}
		r := o.Rect()
		// a box can reach a hair beyond the valid range (the 64-gon of a circle
		// that touches a pole, a decoded geohash): the distance is defined for the
		// part inside [-90,90] x [-180,180], as the implementation clamps it too
		r.Min.Y, r.Max.Y = math.Max(r.Min.Y, -90), math.Min(r.Max.Y, 90)
		r.Min.X, r.Max.X = math.Max(r.Min.X, -180), math.Min(r.Max.X, 180)
		out = append(out, refDist{id, refRectDist(lat, lon, r), r.Min != r.Max})
	}
	sort.Slice(out, func(i, j int) bool {
		if out[i].d != out[j].d {
			return out[i].d < out[j].d
		}
		return out[i].id < out[j].id
	})
	return out
}

func (m *machine) query(q query) {
	c := m.c
	c.Case()
	lat, lon := pf(q.Lat), pf(q.Lon)
	ds := m.be.dataset()
	// the full scan must be the history's dataset (cheap sanity; C01/C19 own this)
	if len(ds) != len(m.live) {
		c.Fail(m.t, "scan-differs-from-history", fmt.Sprintf("full scan has %d ids, the history left %d", len(ds), len(m.live)), m.hist)
	}
	nanSeen := ""
	nearPole := false
	for _, o := range ds {
		if poleShape(o) {
			nearPole = true
			break
		}
	}
	if nearPole {
		c.Label("shape:" + findingPole)
	}
	fail := func(key, what string) {
		switch key {
		case "order-inverted", "not-the-nearest", "wrong-count:radius", "wrong-count:knn", "radius-misses-object":
			// a NaN key in the priority queue disorders everything
			if nanSeen == findingAntipodalNaN || nanSeen == findingPolarNaN {
				key = nanSeen
			} else if nearPole {
				key = findingPole
			}
		}
		c.Fail(m.t, key, what, m.hist)
	}
	refs := references(ds, lat, lon)
	byID := make(map[string]refDist, len(refs))
	for _, r := range refs {
		byID[r.id] = r
	}
	// stored circles with NaN vertices are wildcards: their "bounding rectangle"
	// is not defined by the geometry, so only finiteness, order and - inside the
	// disc's box - distance 0 are demanded of them
	wild := map[string]*geojson.Circle{}
	for id, o := range ds {
		if ci, ok := nanCircle(o); ok {
			wild[id] = ci
		}
	}
	if len(wild) > 0 {
		c.Label("shape:" + findingPolarNaN)
	}
	nearAntipode := len(refs) > 0 && refs[len(refs)-1].d > math.Pi*earthR-1000
	if nearAntipode {
		c.Label("object-within-1km-of-antipode")
	}
	hits, err := m.be.nearby(q)
	qs := fmt.Sprintf("NEARBY LIMIT %d POINT %s %s %s over %d objects (%d eligible; after %d deletes, %d overwrites)", q.K, q.Lat, q.Lon, q.Radius, len(ds), len(refs), m.nDel, m.nMove)
	if se, ok := err.(staleErr); ok {
		// checked after the other rules below would also fire; this one names the cause
		c.Fail(m.t, "stale-object-returned", fmt.Sprintf("%s, %d FSET/EXPIRE/PERSIST updates: %s", qs, m.nTouch, se.msg), m.hist)
	}
	if err != nil {
		if re, ok := err.(replyErr); ok {
			fail("nearby-bad-reply", qs+": "+re.msg)
		}
		harnessErr("%v", err)
	}
	if m.nTouch > 0 {
		c.Label("after-fset/expire/persist")
	}
	radius := -1.0
	if q.Radius != "" {
		radius = pf(q.Radius)
		c.Label("radius")
	} else {
		c.Label("knn")
	}

	// 0. every reported distance is a finite number
	for i, h := range hits {
		if math.IsNaN(h.Dist) || math.IsInf(h.Dist, 0) {
			key := "distance-not-finite"
			if _, ok := wild[h.ID]; ok {
				key = findingPolarNaN
			} else if r, ok := byID[h.ID]; ok && r.d > math.Pi*earthR-1000 {
				key = findingAntipodalNaN
			}
			nanSeen = key
			fail(key, fmt.Sprintf("%s: DISTANCE of result %d (%q) is %v (reference %v m)", qs, i, h.ID, h.Dist, byID[h.ID].d))
		}
	}
	if nearAntipode {
		nanSeen = findingAntipodalNaN // for failures of order/rank without a NaN among the results
	} else if len(wild) > 0 {
		nanSeen = findingPolarNaN
	}
	// 1. every hit is an eligible object, reported once, with its true distance
	seen := map[string]bool{}
	nWildHits := 0
	for i, h := range hits {
		if ci, isWild := wild[h.ID]; isWild {
			if seen[h.ID] {
				fail("duplicate-result", fmt.Sprintf("%s: %q returned twice", qs, h.ID))
			}
			seen[h.ID] = true
			nWildHits++
			if h.Dist < 0 || (insideDiscBox(ci, lat, lon) && h.Dist > 1e-4) {
				fail(findingPolarNaN, fmt.Sprintf("%s: DISTANCE of the pole-touching circle %q is %v m although the query point lies inside its box", qs, h.ID, h.Dist))
			}
			if i > 0 && h.Dist < hits[i-1].Dist-tolOrd(hits[i-1].Dist) {
				fail("order-inverted", fmt.Sprintf("%s: result %d (%q, %v m) comes after result %d (%q, %v m)", qs, i, h.ID, h.Dist, i-1, hits[i-1].ID, hits[i-1].Dist))
			}
			continue
		}
		r, ok := byID[h.ID]
		if !ok {
			fail("returns-ineligible-object", fmt.Sprintf("%s: result %d is %q, which is not a non-empty geometry of the collection", qs, i, h.ID))
		}
		if seen[h.ID] {
			fail("duplicate-result", fmt.Sprintf("%s: %q returned twice", qs, h.ID))
		}
		seen[h.ID] = true
		tol := tolPoint(r.d)
		key := "distance-wrong:point"
		if r.ext {
			tol = tolExt(r.d)
			key = "distance-wrong:extended"
		}
		if math.IsNaN(h.Dist) || math.Abs(h.Dist-r.d) > tol {
			fail(key, fmt.Sprintf("%s: DISTANCE of %q is %v, reference %v (|diff| %.3g > tolerance %.3g)", qs, h.ID, h.Dist, r.d, math.Abs(h.Dist-r.d), tol))
		}
		// 2. non-decreasing
		if i > 0 && h.Dist < hits[i-1].Dist-tolOrd(hits[i-1].Dist) {
			fail("order-inverted", fmt.Sprintf("%s: result %d (%q, %v m) comes after result %d (%q, %v m)", qs, i, h.ID, h.Dist, i-1, hits[i-1].ID, hits[i-1].Dist))
		}
		if i > 0 && h.Dist < hits[i-1].Dist {
			c.Label("tolerated-inversion")
		}
	}

	// 3. which objects
	var inRadius []refDist
	if radius > 0 {
		for _, r := range refs {
			if r.d <= radius {
				inRadius = append(inRadius, r)
			}
		}
	} else {
		inRadius = refs
	}
	wantN := imin(q.K, len(inRadius))
	if radius <= 0 {
		wantN = imin(q.K, len(inRadius)+len(wild))
	}
	if len(wild) > 0 && radius > 0 {
		// a wildcard may or may not be within the radius
		if len(hits) >= wantN && len(hits) <= imin(q.K, len(inRadius)+len(wild)) {
			wantN = len(hits)
		}
	}
	if len(hits) != wantN {
		key := "wrong-count:knn"
		if radius > 0 {
			key = "wrong-count:radius"
		}
		fail(key, fmt.Sprintf("%s: %d results, expected %d (objects within the radius: %d)", qs, len(hits), wantN, len(inRadius)))
	}
	if radius > 0 && q.K >= len(inRadius)+len(wild) {
		// exactly the objects whose distance does not exceed the radius
		for _, r := range inRadius {
			if !seen[r.id] {
				fail("radius-misses-object", fmt.Sprintf("%s: %q at %v m is inside the radius and not returned", qs, r.id, r.d))
			}
		}
	}
	// the reference distances of the returned ids are the wantN smallest
	got := make([]float64, 0, len(hits))
	ext := false
	for _, h := range hits {
		if _, isWild := wild[h.ID]; isWild {
			continue // the others must still be the nearest among the others
		}
		got = append(got, byID[h.ID].d)
		ext = ext || byID[h.ID].ext
	}
	_ = nWildHits
	sort.Float64s(got)
	for i := range got {
		w := inRadius[i].d
		tol := tolRank(w, ext || inRadius[i].ext)
		if math.Abs(got[i]-w) > tol {
			fail("not-the-nearest", fmt.Sprintf("%s: the %d-th smallest distance among the results is %v m, among all objects it is %v m (%q)", qs, i+1, got[i], w, inRadius[i].id))
		}
	}

	// evidence
	n := len(refs)
	switch {
	case n < 100:
		c.Label("objects<100")
	case n < 1000:
		c.Label("objects<1000")
	default:
		c.Label("objects>=1000")
	}
	if math.Abs(lat) > 85 {
		c.Label("query-near-pole")
	}
	if math.Abs(lon) > 175 {
		c.Label("query-near-antimeridian")
	}
	anyExt, ties := false, false
	for i, h := range hits {
		anyExt = anyExt || byID[h.ID].ext
		if i > 0 && h.Dist == hits[i-1].Dist {
			ties = true
		}
	}
	if anyExt {
		c.Label("extended-objects-in-result")
	}
	if ties {
		c.Label("ties-in-result")
	}
	closeRank := false
	if k := len(hits); k >= 1 && k < len(refs) {
		// the last object returned vs the first one not returned
		a, b := refs[k-1].d, refs[k].d
		if b > 0 && (b-a)/b < 0.01 {
			closeRank = true
			c.Label("next-object-within-1%")
		}
	}
	if n >= 2*len(hits) && len(hits) > 0 && m.nDel > 0 && m.nMove > 0 && closeRank {
		c.NonTrivial(strconv.FormatUint(m.h, 16))
		if c.WantSample() {
			c.Sample(map[string]any{"level": m.hist.Level, "pool": m.hist.Pool, "query": qs, "results": len(hits),
				"last_returned_m": hits[len(hits)-1].Dist})
		} else {
			c.Sample(nil)
		}
	}
}

// ---- generation -----------------------------------------------------------------------

type sizes struct {
	small, mid, large [2]int
	steps             int
}

func drawN(rt *rapid.T, s sizes) int {
	switch k := rapid.IntRange(0, 9).Draw(rt, "sizeclass"); {
	case k < 6:
		return rapid.IntRange(s.small[0], s.small[1]).Draw(rt, "n")
	case k < 9:
		return rapid.IntRange(s.mid[0], s.mid[1]).Draw(rt, "n")
	default:
		return rapid.IntRange(s.large[0], s.large[1]).Draw(rt, "n")
	}
}

// drawQuery picks the query point, k and - at the server level - a radius that
// lies in a gap of the true distances (so that no object is within tolerance
// of the rim).
func (m *machine) drawQuery(t *rapid.T, p pool, withRadius bool) query {
	lat, lon := p.queryPoint(t)
	q := query{Lat: fs(lat), Lon: fs(lon)}
	n := 0
	for _, o := range m.live {
		if eligible(o) {
			n++
		}
	}
	switch rapid.IntRange(0, 6).Draw(t, "kkind") {
	case 0:
		q.K = 1
	case 1:
		q.K = rapid.IntRange(1, 10).Draw(t, "k")
	case 2:
		q.K = imax(1, n/2)
	case 3:
		q.K = imax(1, n)
	case 4:
		q.K = n + 1
	default:
		q.K = rapid.IntRange(1, imax(1, n+1)).Draw(t, "k")
	}
	if !withRadius {
		return q
	}
	refs := references(m.live, lat, lon)
	if len(refs) == 0 {
		q.Radius = "1000"
		return q
	}
	// candidate radii: below the nearest, between neighbours, beyond the farthest
	i := rapid.IntRange(-1, len(refs)-1).Draw(t, "ri")
	for tries := 0; tries < len(refs)+1; tries++ {
		var lo, hi float64
		switch {
		case i < 0:
			lo, hi = 0, refs[0].d
		case i == len(refs)-1:
			lo, hi = refs[i].d, refs[i].d+1000+refs[i].d*0.1
		default:
			lo, hi = refs[i].d, refs[i+1].d
		}
		mid := lo + (hi-lo)/2
		if mid > 0 && hi-mid > 4*tolExt(hi) && mid-lo > 4*tolExt(hi) {
			q.Radius = fs(mid)
			if rapid.Bool().Draw(t, "allk") {
				q.K = 1000000000
			}
			return q
		}
		i++
		if i > len(refs)-1 {
			i = -1
		}
	}
	return q // no usable gap: plain k-nearest query
}

// drawObject draws an object; while findingPole is listed as known, objects
// with a latitude in its trigger range are replaced by a point on the pole.
func (m *machine) drawObject(t *rapid.T, p pool) objSpec {
	o := p.object(t)
	if ev.KnownActive(findingPole) {
		if g, err := buildObject(o); err == nil && poleShape(g) {
			m.c.Excluded(findingPole)
			r := g.Rect()
			lat := 90.0
			if r.Min.Y < 0 {
				lat = -90
			}
			return objSpec{[]string{"POINT", fs(lat), fs(r.Min.X)}}
		}
	}
	return o
}

func (m *machine) drawTouch(t *rapid.T, id string) step {
	kind := rapid.SampledFrom([]string{"fset", "expire", "persist", "fset"}).Draw(t, "touchkind")
	m.touchSeq++
	return step{Op: "touch", ID: id, Kind: kind, Val: strconv.Itoa(m.touchSeq)}
}

func antipode(lat, lon float64) (float64, float64) {
	alon := lon + 180
	if alon > 180 {
		alon = lon - 180
	}
	return -lat, alon
}

// oldHaversineSum is the sum under the square root of geodesic.go's distRad,
// with the same arithmetic (degrees -> radians as x*pi/180, item first).
func oldHaversineSum(itemLat, itemLon, qLat, qLon float64) float64 {
	fa, la := itemLat*math.Pi/180, itemLon*math.Pi/180
	fb, lb := qLat*math.Pi/180, qLon*math.Pi/180
	sf := math.Sin((fa - fb) / 2)
	sl := math.Sin((la - lb) / 2)
	return sf*sf + sl*sl*math.Cos(fa)*math.Cos(fb)
}

var (
	nanPairsOnce sync.Once
	nanPairs     [][2]float64
)

// antipodalNaNPairs returns query points (lat, lon) whose exact antipode makes
// that sum round above 1 (asin -> NaN before 55f8b14): a fixed list verified
// with the pure check, extended by a deterministic search over 3-decimal
// coordinates (about one pair in a million qualifies).
func antipodalNaNPairs() [][2]float64 {
	nanPairsOnce.Do(func() {
		try := func(lat, lon float64) {
			alat, alon := antipode(lat, lon)
			if oldHaversineSum(alat, alon, lat, lon) > 1 {
				nanPairs = append(nanPairs, [2]float64{lat, lon})
			}
		}
		try(-41.214, -15.247)
		x := uint64(20260926)
		for i := 0; i < 3000000 && len(nanPairs) < 12; i++ {
			x = x*6364136223846793005 + 1442695040888963407
			lat := float64(int64((x>>20)%179999)-89999) / 1000
			lon := float64(int64((x>>40)%359999)-179999) / 1000
			try(lat, lon)
		}
	})
	return nanPairs
}

// radiusInGap says whether no reference distance is within 8 tolerances of r.
func radiusInGap(refs []refDist, r float64) bool {
	for _, x := range refs {
		if math.Abs(x.d-r) < 8*tolExt(r) {
			return false
		}
	}
	return true
}

func generate(rt *rapid.T, m *machine, server bool, s sizes) {
	p := drawPool(rt)
	m.hist.Pool = p.Mode
	m.c.Label("pool:" + p.Mode)
	n := drawN(rt, s)
	for i := 0; i < n; i++ {
		o := m.drawObject(rt, p)
		m.apply(step{Op: "set", ID: m.newID(), Obj: &o})
	}
	pickLive := func(t *rapid.T) string {
		if len(m.ids) == 0 {
			t.Skip()
		}
		return m.ids[rapid.IntRange(0, len(m.ids)-1).Draw(t, "live")]
	}
	knn := func(t *rapid.T) {
		q := m.drawQuery(t, p, false)
		m.apply(step{Op: "query", Q: &q})
	}
	rad := func(t *rapid.T) {
		q := m.drawQuery(t, p, server)
		m.apply(step{Op: "query", Q: &q})
	}
	actions := map[string]func(*rapid.T){
		"set-new": func(t *rapid.T) {
			o := m.drawObject(t, p)
			m.apply(step{Op: "set", ID: m.newID(), Obj: &o})
		},
		"move": func(t *rapid.T) {
			id := pickLive(t)
			o := m.drawObject(t, p)
			m.apply(step{Op: "set", ID: id, Obj: &o})
		},
		"delete": func(t *rapid.T) { m.apply(step{Op: "del", ID: pickLive(t)}) },
		"bulk-delete": func(t *rapid.T) {
			if len(m.ids) < 4 {
				t.Skip()
			}
			var victims []string
			if rapid.Bool().Draw(t, "run") {
				lo := rapid.IntRange(0, len(m.ids)-1).Draw(t, "lo")
				cnt := rapid.IntRange(1, len(m.ids)-lo).Draw(t, "cnt")
				victims = append(victims, m.ids[lo:lo+cnt]...)
			} else {
				for i, id := range m.ids {
					if i%2 == 0 {
						victims = append(victims, id)
					}
				}
			}
			for _, id := range victims {
				m.apply(step{Op: "del", ID: id})
			}
		},
		"touch": func(t *rapid.T) {
			// FSET/EXPIRE/PERSIST only keep the geometry value for objects that
			// are not plain 2D points: prefer those
			id := pickLive(t)
			for try := 0; try < 3; try++ {
				if pt, ok := m.live[id].(*geojson.Point); !ok || !pt.IsSimple() {
					break
				}
				id = pickLive(t)
			}
			m.apply(m.drawTouch(t, id))
		},
		"bulk-touch": func(t *rapid.T) {
			if len(m.ids) < 2 {
				t.Skip()
			}
			cnt := rapid.IntRange(1, imin(len(m.ids), 100)).Draw(t, "cnt")
			lo := rapid.IntRange(0, len(m.ids)-cnt).Draw(t, "lo")
			victims := append([]string{}, m.ids[lo:lo+cnt]...)
			for _, id := range victims {
				m.apply(m.drawTouch(t, id))
			}
		},
		// an object at the exact antipode of the query point (and a few next to
		// it), preferably for a pair whose haversine sum rounds above 1
		"antipode": func(t *rapid.T) {
			var lat, lon float64
			pairs := antipodalNaNPairs()
			if len(pairs) > 0 && rapid.IntRange(0, 3).Draw(t, "nanpair?") > 0 {
				pr := pairs[rapid.IntRange(0, len(pairs)-1).Draw(t, "pair")]
				lat, lon = pr[0], pr[1]
			} else {
				lon, lat = p.xy(t)
			}
			alat, alon := antipode(lat, lon)
			m.apply(step{Op: "set", ID: m.newID(), Obj: &objSpec{[]string{"POINT", fs(alat), fs(alon)}}})
			for i, n := 0, rapid.IntRange(0, 3).Draw(t, "nearanti"); i < n; i++ {
				e := math.Pow(10, -float64(rapid.IntRange(3, 12).Draw(t, "aexp")))
				m.apply(step{Op: "set", ID: m.newID(), Obj: &objSpec{[]string{"POINT", fs(clamp(alat+e*float64(rapid.IntRange(-9, 9).Draw(t, "ady")), 90)), fs(clamp(alon+e*float64(rapid.IntRange(-9, 9).Draw(t, "adx")), 180))}}})
			}
			n := 0
			for _, o := range m.live {
				if eligible(o) {
					n++
				}
			}
			for _, q := range []query{
				{Lat: fs(lat), Lon: fs(lon), K: n + 1},
				{Lat: fs(lat), Lon: fs(lon), K: 2},
				{Lat: fs(lat), Lon: fs(lon), K: 1000000000, Radius: "4900000"},
			} {
				q := q
				if q.Radius != "" && !server {
					continue
				}
				if q.Radius != "" && !radiusInGap(references(m.live, lat, lon), pf(q.Radius)) {
					continue
				}
				m.apply(step{Op: "query", Q: &q})
			}
		},
		// a stored circle whose disc touches the nearer pole within a metre: its
		// 64-gon has NaN vertices for some of these radii
		"polar-circle": func(t *rapid.T) {
			x, y := p.xy(t)
			if math.Abs(x) > 80 || math.Abs(y) > 89 {
				// (further east/west the external module wraps the box of such a circle
				// round the globe - reported, not flagged, see notes)
				x, y = float64(rapid.IntRange(-80, 80).Draw(t, "pcx")), float64(rapid.IntRange(-890, 890).Draw(t, "pcy"))/10
			}
			pole := 90.0
			if y < 0 {
				pole = -90
			}
			r := refHav(y, x, pole, x) + rapid.SampledFrom([]float64{0, 0.01, -0.01, 0.05, -0.05, 1, -1}).Draw(t, "pcd")
			m.apply(step{Op: "set", ID: m.newID(), Obj: &objSpec{[]string{"OBJECT", `{"type":"Feature","geometry":{"type":"Point","coordinates":` + jpos(x, y) + `},"properties":{"type":"Circle","radius":` + fs(r) + `,"radius_units":"m"}}`}}})
			n := 0
			for _, o := range m.live {
				if eligible(o) {
					n++
				}
			}
			qlat, qlon := p.queryPoint(t)
			for _, q := range []query{
				{Lat: fs(y), Lon: fs(x), K: n + 1},
				{Lat: "0", Lon: "0", K: 3},
				{Lat: fs(qlat), Lon: fs(qlon), K: n + 1},
				{Lat: fs(-pole), Lon: fs(x), K: 2},
			} {
				q := q
				m.apply(step{Op: "query", Q: &q})
			}
		},
		"bulk-move": func(t *rapid.T) {
			if len(m.ids) < 2 {
				t.Skip()
			}
			cnt := rapid.IntRange(1, imin(len(m.ids), 200)).Draw(t, "cnt")
			lo := rapid.IntRange(0, len(m.ids)-cnt).Draw(t, "lo")
			victims := append([]string{}, m.ids[lo:lo+cnt]...)
			for _, id := range victims {
				o := m.drawObject(t, p)
				m.apply(step{Op: "set", ID: id, Obj: &o})
			}
		},
		"bulk-insert": func(t *rapid.T) {
			cnt := rapid.IntRange(1, imax(4, s.small[1]/2)).Draw(t, "cnt")
			for i := 0; i < cnt; i++ {
				o := m.drawObject(t, p)
				m.apply(step{Op: "set", ID: m.newID(), Obj: &o})
			}
		},
		"query-knn-a":  knn,
		"query-knn-b":  knn,
		"query-knn-c":  knn,
		"query-rad-a":  rad,
		"query-rad-b":  rad,
		"query-rad-c":  rad,
		"query-knn-d":  knn,
		"query-rad-dd": rad,
	}
	rt.Repeat(actions)
	knn(rt)
	rad(rt)
}

const ruleText = "history = bulk load of n objects (POINT, POINT z, HASH, BOUNDS, Polygon, LineString, MultiPoint, Feature, small circle objects, empty collections, STRING) over a coordinate pool (uniform world, 1e0..1e-9 clusters with duplicates, |lat|>85 caps incl. both poles, |lon|>175 incl. +-180, 5-degree grid), then a rapid state machine of set-new / move / touch and bulk-touch (FSET, EXPIRE, PERSIST: same geometry value in a new object) / delete / bulk-delete / bulk-move / bulk-insert / query actions; query point = an object position, next to one, a pole, the antimeridian or anywhere; k in {1, small, n/2, n, n+1, random}; radius absent or midway inside a gap of the sorted true distances (gap > 8x tolerance). One evaluation = one NEARBY compared with the reference distances (own haversine; brute-force distance to the bounding rectangle for extended objects) of the full scan: every result an eligible object once and the current object of its id (in-package: pointer identity with Get; server: field f in the POINTS form of the query equals the last FSET), |reported - reference| <= 1e-6 m + 1e-9 d (points) / 1e-4 m + 1e-8 d (extended) + conditioning term towards the antipode, reported distances non-decreasing up to 1e-6 m + 1e-12 d (+ conditioning; + the cross-track term R*8u*tan(d/R) <= 0.27 m, which only matters within metres of a quarter of the circumference), result count = min(k, objects within radius), radius queries return exactly the objects within r, and the sorted reference distances of the results equal the smallest ones of the collection. Non-trivial: objects >= 2 x results, >= 1 delete and >= 1 overwrite before the query, and the first object not returned is < 1 % farther than the last returned; distinct by hash of (history, query)."

func TestC13_Collection(t *testing.T) {
	c := ev.New("C13", "collection", "exploration")
	t.Cleanup(c.Flush)
	c.Rule("in-package, Collection.Nearby driven directly (no radius: the cut-off lives in cmdNearby): " + ruleText)
	c.Assume("NEARBY can only return non-empty geometries (strings and empty collections have no position): impl-mirrored")
	s := sizes{small: [2]int{1, 200}, mid: [2]int{200, 800}, large: [2]int{800, 1500}, steps: 30}
	if ev.Thorough() {
		s = sizes{small: [2]int{1, 300}, mid: [2]int{300, 1500}, large: [2]int{1500, 5000}, steps: 40}
	}
	flag.Set("rapid.steps", strconv.Itoa(s.steps))
	ev.Rapid("collection", ev.Pick(600, 2000))
	rapid.Check(t, func(rt *rapid.T) {
		m := newMachine(rt, c, &colBackend{}, "collection")
		c.Label("histories")
		generate(rt, m, false, s)
	})
}

func TestC13_Server(t *testing.T) {
	c := ev.New("C13", "server", "exploration")
	t.Cleanup(c.Flush)
	c.Rule("protocol level, SET/DEL then NEARBY key LIMIT k DISTANCE IDS POINT lat lon [r]; the reference dataset is SCAN key OBJECTS parsed in the harness: " + ruleText)
	c.Assume("NEARBY can only return non-empty geometries (strings and empty collections have no position): impl-mirrored")
	conn := srv.MustDial()
	defer conn.Close()
	s := sizes{small: [2]int{1, 100}, mid: [2]int{100, 500}, large: [2]int{500, 1500}, steps: 30}
	flag.Set("rapid.steps", strconv.Itoa(s.steps))
	ev.Rapid("server", ev.Pick(450, 2000))
	rapid.Check(t, func(rt *rapid.T) {
		m := newMachine(rt, c, &srvBackend{c: conn}, "server")
		c.Label("histories")
		generate(rt, m, true, s)
	})
}

func TestReplay(t *testing.T) {
	doc, ok := ev.ReplayFile()
	if !ok {
		t.Skip("no replay file")
	}
	c := ev.New("C13", "replay", "exploration")
	t.Cleanup(c.Flush)
	if doc.Check == "concurrent" {
		var cc concCase
		if err := json.Unmarshal(doc.Data, &cc); err != nil {
			t.Fatalf("bad replay data: %v", err)
		}
		runConcurrent(t, c, cc)
		return
	}
	var h history
	if err := json.Unmarshal(doc.Data, &h); err != nil {
		t.Fatalf("bad replay data: %v", err)
	}
	var be backend
	switch h.Level {
	case "collection":
		be = &colBackend{}
	case "server":
		conn := srv.MustDial()
		defer conn.Close()
		be = &srvBackend{c: conn}
	default:
		t.Fatalf("unknown level %q", h.Level)
	}
	m := newMachine(t, c, be, h.Level)
	m.hist.Pool = h.Pool
	for _, st := range h.Steps {
		m.apply(st)
	}
}

package c13

import (
	_ "embed"
	"encoding/json"
	"math"
	"testing"

	"github.com/tidwall/tile38/verif/harness/ev"
)

// A history found by `VERIF_SEED=5 bin/check C13 thorough` (shard 15) that the
// oracle wrongly reported as order-inverted: query (-2e-7, 24.9999998), points
// (15,-65) and (-50,-65) at 90 degrees of arc, delivered 1.56 cm out of order
// because the cross-track lower bound asin(cos*sin) of a node rounds to pi/2.
//
//go:embed testdata/oracle_quarter_arc.json
var quarterArcJSON []byte

// TestC13_OracleRegression pins the tolerance model: the numbers behind
// crossTol, and the history above must pass.
func TestC13_OracleRegression(t *testing.T) {
	c := ev.New("C13", "oracle-regression", "exploration")
	t.Cleanup(c.Flush)
	c.Rule("regression of the oracle's tolerance model: (1) the cross-track formula R*asin(cos(lat_q)*sin(dlon)) and its well-conditioned atan2 form differ by 3.1 cm at 90 degrees of arc, inside crossTol and far outside the plain ordering tolerance; (2) the thorough-tier history that showed a 1.56 cm inversion there passes at both levels. Never non-trivial.")
	// (1) independent of the code under test
	c.Case()
	rd := math.Pi / 180
	latq, dlon := -0.0000002*rd, (24.9999998+65)*rd
	x := math.Cos(latq) * math.Sin(dlon)
	asinForm := earthR * math.Asin(x)
	atanForm := earthR * math.Atan2(x, math.Hypot(math.Sin(latq), math.Cos(latq)*math.Cos(dlon)))
	diff := math.Abs(asinForm - atanForm)
	if !(diff > 0.02 && diff < 0.05) {
		t.Fatalf("harness: expected the asin form to be ~3.1 cm off at a quarter arc, got %v m", diff)
	}
	if diff > crossTol(atanForm) {
		t.Fatalf("harness: crossTol(%v) = %v does not cover the observed rounding %v", atanForm, crossTol(atanForm), diff)
	}
	if crossTol(1e6) > 1e-8 || crossTol(5e6) > 1e-8 {
		t.Fatalf("harness: crossTol must be negligible away from a quarter arc: %v %v", crossTol(1e6), crossTol(5e6))
	}
	// (2) the history must pass at both levels
	var h history
	if err := json.Unmarshal(quarterArcJSON, &h); err != nil {
		t.Fatal(err)
	}
	conn := srv.MustDial()
	defer conn.Close()
	for _, level := range []string{"collection", "server"} {
		var be backend = &colBackend{}
		if level == "server" {
			be = &srvBackend{c: conn}
		}
		m := newMachine(t, c, be, level)
		m.hist.Pool = h.Pool
		for _, st := range h.Steps {
			m.apply(st)
		}
	}
}

package c13

import (
	"fmt"
	"math"
	"sort"
	"strconv"
	"sync"
	"testing"

	"github.com/tidwall/geojson"
	"github.com/tidwall/tile38/verif/harness/ev"
	"github.com/tidwall/tile38/verif/harness/t38"
	"pgregory.net/rapid"
)

// concCase is one generated case of the concurrent sub-check (also its replay).
type concCase struct {
	Objects []objSpec `json:"objects"` // id = c%05d
	Clients [][]query `json:"clients"` // queries of every client, issued back to back
}

// checkHits applies the C13 rules to one reply for its own query point.
func checkHits(q query, hits []hit, refs []refDist) (key, what string) {
	byID := make(map[string]refDist, len(refs))
	for _, r := range refs {
		byID[r.id] = r
	}
	if want := imin(q.K, len(refs)); len(hits) != want {
		return "wrong-count:knn", fmt.Sprintf("%d results, expected %d", len(hits), want)
	}
	seen := map[string]bool{}
	got := make([]float64, 0, len(hits))
	ext := false
	for i, h := range hits {
		r, ok := byID[h.ID]
		if !ok {
			return "returns-ineligible-object", fmt.Sprintf("result %d is %q", i, h.ID)
		}
		if seen[h.ID] {
			return "duplicate-result", fmt.Sprintf("%q returned twice", h.ID)
		}
		seen[h.ID] = true
		tol, key := tolPoint(r.d), "distance-wrong:point"
		if r.ext {
			tol, key = tolExt(r.d), "distance-wrong:extended"
		}
		if math.IsNaN(h.Dist) || math.Abs(h.Dist-r.d) > tol {
			return key, fmt.Sprintf("DISTANCE of %q is %v, reference for this query point %v", h.ID, h.Dist, r.d)
		}
		if i > 0 && h.Dist < hits[i-1].Dist-tolOrd(hits[i-1].Dist) {
			return "order-inverted", fmt.Sprintf("result %d (%q, %v m) comes after result %d (%q, %v m)", i, h.ID, h.Dist, i-1, hits[i-1].ID, hits[i-1].Dist)
		}
		got = append(got, r.d)
		ext = ext || r.ext
	}
	sort.Float64s(got)
	for i := range got {
		if math.Abs(got[i]-refs[i].d) > tolRank(refs[i].d, ext || refs[i].ext) {
			return "not-the-nearest", fmt.Sprintf("the %d-th smallest distance among the results is %v m, among all objects %v m", i+1, got[i], refs[i].d)
		}
	}
	return "", ""
}

// runConcurrent loads the dataset, lets every client issue its queries on its
// own connection at the same time, and checks every reply against the
// reference distances for ITS OWN query point. Nothing depends on timing: the
// replies must be right under every interleaving.
func runConcurrent(t ev.Failer, c *ev.Collector, cc concCase) {
	load := srv.MustDial()
	defer load.Close()
	if v := load.MustDo("FLUSHDB"); v.IsErr() {
		panic("FLUSHDB: " + v.String())
	}
	ds := map[string]geojson.Object{}
	for i, o := range cc.Objects {
		id := fmt.Sprintf("c%05d", i)
		if err := load.Send(append([]string{"SET", theKey, id}, o.Args...)...); err != nil {
			panic(err)
		}
		g, err := buildObject(o)
		if err != nil {
			panic(err)
		}
		ds[id] = g
	}
	for range cc.Objects {
		if v, err := load.Recv(); err != nil || v.Kind != '+' {
			panic(fmt.Sprintf("SET answered %v %v", v, err))
		}
	}
	type result struct {
		hits []hit
		err  error
	}
	results := make([][]result, len(cc.Clients))
	conns := make([]*t38.Conn, len(cc.Clients))
	for i := range conns {
		conns[i] = srv.MustDial()
		defer conns[i].Close()
	}
	var wg sync.WaitGroup
	start := make(chan struct{})
	for ci, qs := range cc.Clients {
		results[ci] = make([]result, len(qs))
		wg.Add(1)
		go func(ci int, qs []query) {
			defer wg.Done()
			be := &srvBackend{c: conns[ci]}
			<-start
			for qi, q := range qs {
				h, err := be.nearby(q)
				results[ci][qi] = result{h, err}
			}
		}(ci, qs)
	}
	close(start)
	wg.Wait()
	for ci, qs := range cc.Clients {
		for qi, q := range qs {
			c.Case()
			r := results[ci][qi]
			if r.err != nil {
				if re, ok := r.err.(replyErr); ok {
					c.Fail(t, "nearby-bad-reply", fmt.Sprintf("client %d query %d: %s", ci, qi, re.msg), cc)
				}
				panic(r.err)
			}
			refs := references(ds, pf(q.Lat), pf(q.Lon))
			if key, what := checkHits(q, r.hits, refs); key != "" {
				c.Fail(t, "concurrent:"+key, fmt.Sprintf("%d clients querying one collection of %d objects around different points at the same time; client %d, NEARBY LIMIT %d POINT %s %s: %s", len(cc.Clients), len(cc.Objects), ci, q.K, q.Lat, q.Lon, what), cc)
			}
			if len(r.hits) >= 2 {
				c.NonTrivial(fmt.Sprintf("%d/%d/%s/%s/%d/%d", len(cc.Objects), len(cc.Clients), q.Lat, q.Lon, q.K, ci))
			}
		}
	}
}

// TestC13_ServerConcurrent: several clients run long NEARBY queries around
// different centres on the same collection at the same time.
func TestC13_ServerConcurrent(t *testing.T) {
	c := ev.New("C13", "concurrent", "exploration")
	t.Cleanup(c.Flush)
	c.Rule("one collection of 2 000-6 000 objects (points, a few boxes), 4-8 clients on their own connections, each issuing 8-16 NEARBY fleet LIMIT k DISTANCE IDS POINT lat lon (k 200-3000, no radius) back to back around its own, different query points, all clients at the same time; every reply is checked with the unchanged C13 rules against the reference distances for its own query point (nothing depends on timing). One evaluation = one reply; non-trivial = at least 2 results, distinct by (dataset size, clients, query point, k, client).")
	ev.Rapid("concurrent", ev.Pick(6, 30))
	rapid.Check(t, func(rt *rapid.T) {
		p := drawPool(rt)
		c.Label("pool:" + p.Mode)
		n := rapid.IntRange(2000, 6000).Draw(rt, "n")
		var cc concCase
		for i := 0; i < n; i++ {
			x, y := p.xy(rt)
			if rapid.IntRange(0, 19).Draw(rt, "box?") == 0 {
				x0, y0, x1, y1 := p.box(rt)
				cc.Objects = append(cc.Objects, objSpec{[]string{"BOUNDS", fs(y0), fs(x0), fs(y1), fs(x1)}})
				continue
			}
			// spread the pool positions so that there are thousands of distinct places
			x = clamp(x+float64(rapid.IntRange(-1000, 1000).Draw(rt, "jx"))*1e-3, 180)
			y = clamp(y+float64(rapid.IntRange(-1000, 1000).Draw(rt, "jy"))*1e-3, 90)
			cc.Objects = append(cc.Objects, objSpec{[]string{"POINT", fs(y), fs(x)}})
		}
		nc := rapid.IntRange(4, 8).Draw(rt, "clients")
		for ci := 0; ci < nc; ci++ {
			var qs []query
			nq := rapid.IntRange(8, 16).Draw(rt, "queries")
			for qi := 0; qi < nq; qi++ {
				lat, lon := p.queryPoint(rt)
				qs = append(qs, query{Lat: fs(lat), Lon: fs(lon), K: rapid.IntRange(200, 3000).Draw(rt, "k")})
			}
			cc.Clients = append(cc.Clients, qs)
		}
		c.Label("cases")
		runConcurrent(rt, c, cc)
	})
}

var _ = strconv.Itoa

package c18

import (
	"encoding/json"
	"os"
	"testing"

	"github.com/tidwall/tile38/verif/harness/ev"
	"github.com/tidwall/tile38/verif/harness/t38"
)

// TestReplay re-executes a replay file. Schedules are not recorded (they are
// not reproducible); a concurrent case is re-run many times under the same
// pressure instead.
func TestReplay(t *testing.T) {
	doc, ok := ev.ReplayFile()
	if !ok {
		t.Skip("no replay file")
	}
	c := ev.New(prop, "replay", "exploration")
	t.Cleanup(c.Flush)
	switch doc.Check {
	case "atomic":
		var d struct {
			Plan atomPlan `json:"plan"`
		}
		if err := json.Unmarshal(doc.Data, &d); err != nil || len(d.Plan.Ops) == 0 {
			t.Fatalf("bad replay data: %v", err)
		}
		d.Plan.normalize()
		e := newAtomEnv(t)
		defer e.close()
		for i := 0; i < 400; i++ {
			c.Case()
			e.runCase(t, c, d.Plan)
		}
	case "logging":
		var lc logCase
		if err := json.Unmarshal(doc.Data, &lc); err != nil {
			t.Fatalf("bad replay data: %v", err)
		}
		e := newLogEnv(t)
		defer e.close()
		c.Case()
		e.runCase(t, c, lc, true)
	case "readonly":
		var rc roCase
		if err := json.Unmarshal(doc.Data, &rc); err != nil {
			t.Fatalf("bad replay data: %v", err)
		}
		e := newROEnv(t)
		defer e.close()
		c.Case()
		e.runCase(t, c, rc)
	case "escapes":
		var d struct {
			Case escCase `json:"case"`
		}
		if err := json.Unmarshal(doc.Data, &d); err != nil {
			t.Fatalf("bad replay data: %v", err)
		}
		srv := mustStart(t, t38.Opts{})
		defer srv.StopAsync()
		conn := srv.MustDial()
		defer conn.Close()
		dir := t38.NewDir("c18-sbx")
		defer os.RemoveAll(dir)
		c.Case()
		runEscape(t, c, conn, dir, d.Case)
	case "hygiene":
		var d struct {
			Case hygCase `json:"case"`
			Sub  string  `json:"sub"`
		}
		json.Unmarshal(doc.Data, &d)
		srv := mustStart(t, t38.Opts{})
		defer srv.StopAsync()
		if d.Sub == "hygiene-pool" || len(d.Case.Keys) == 0 {
			for round := 0; round < 5; round++ {
				runPoolCycle(t, c, srv, round)
			}
			return
		}
		conn := srv.MustDial()
		defer conn.Close()
		conn.MustDo("SET", "hyg", "o", "POINT", "1", "2")
		c.Case()
		runHygiene(t, c, conn, d.Case)
	case "lockprobe":
		runLockProbe(t, c, 10)
	case "sandbox":
		runSandbox(t, c)
	case "poison":
		probePoison(t, c)
		probeLeftover(t, c)
	case "evalcmd":
		probeEvalCmd(t, c)
	case "hookfilter":
		probeHookFilter(t, c)
	case "argtables":
		var d struct {
			Case polCase `json:"case"`
		}
		if err := json.Unmarshal(doc.Data, &d); err != nil || len(d.Case.Ops) == 0 {
			t.Fatalf("bad replay data: %v", err)
		}
		srv := mustStart(t, t38.Opts{})
		defer srv.StopAsync()
		same, other := srv.MustDial(), srv.MustDial()
		defer same.Close()
		defer other.Close()
		same.MustDo("SET", "hyg", "o", "POINT", "1", "2")
		c.Case()
		runPolluter(t, c, same, other, d.Case)
	case "roleflip":
		var d struct {
			Case flipCase `json:"case"`
		}
		if err := json.Unmarshal(doc.Data, &d); err != nil || d.Case.Clients == 0 {
			t.Fatalf("bad replay data: %v", err)
		}
		srv := mustStart(t, t38.Opts{})
		defer srv.StopAsync()
		for i := 0; i < 5; i++ {
			c.Case()
			runFlipCase(t, c, srv, d.Case)
		}
	case "poolacct":
		runPoolAccounting(t, c, 210)
	case "mutated":
		var d struct {
			Case mutCase `json:"case"`
		}
		if err := json.Unmarshal(doc.Data, &d); err != nil || d.Case.Variant == "" {
			t.Fatalf("bad replay data: %v", err)
		}
		c.Case()
		runMutCase(t, c, d.Case)
	case "poolgrowth":
		var d struct {
			Case growCase `json:"case"`
		}
		if err := json.Unmarshal(doc.Data, &d); err != nil || d.Case.N == 0 {
			t.Fatalf("bad replay data: %v", err)
		}
		srv := mustStart(t, t38.Opts{})
		defer srv.StopAsync()
		for i := 0; i < 3; i++ {
			c.Case()
			runGrow(t, c, srv, d.Case)
		}
	default:
		t.Fatalf("unknown check %q", doc.Check)
	}
}

package c18

import (
	"fmt"
	"strings"
	"testing"
	"time"

	"github.com/tidwall/tile38/verif/harness/ev"
	"github.com/tidwall/tile38/verif/harness/t38"
)

// Interpreters taken for the WHEREEVAL filters of hooks, channels and live
// fences belong to the fence until it goes away. Nothing may leak (the pool
// refuses to grow beyond 1000 states: "no interpreters available") and
// nothing may be handed out twice.

const acctClauses = 5

// findingTimeoutFence (repaired in 913c225): TIMEOUT t NEARBY|WITHIN|INTERSECTS ...
// FENCE WHEREEVAL ... whose deadline fires answered -ERR timeout and kept the
// filter interpreters for ever.
const findingTimeoutFence = "timeout-fence-whereeval-leaks-interpreters"

func acctFilter(tag string) []string {
	var out []string
	for i := 0; i < acctClauses; i++ {
		out = append(out, "WHEREEVAL", "return ARGV[1] ~= nil and FIELDS ~= nil", "1", fmt.Sprintf("%s-%d", tag, i))
	}
	return out
}

// poolHealthy: a search holding 12 interpreters at once, each clause checking
// that it still has its own ARGV (two clauses on one interpreter would see
// the later one's), and scripts in every variant. "" when healthy.
func poolHealthy(c *t38.Conn) string {
	cmd := []string{"SCAN", "fleet"}
	for i := 0; i < 12; i++ {
		cmd = append(cmd, "WHEREEVAL", fmt.Sprintf("return ARGV[1] == 'own-%d' and #ARGV == 1", i), "1", fmt.Sprintf("own-%d", i))
	}
	v, err := c.Do(append(cmd, "COUNT")...)
	if err != nil {
		return err.Error()
	}
	if v.IsErr() {
		return v.Str
	}
	if !v.Equal(t38.Int(1)) {
		return fmt.Sprintf("a search with 12 WHEREEVAL clauses, each comparing ARGV[1] with its own argument, counts %s instead of 1: two clauses were given the same interpreter", v)
	}
	for _, mode := range []string{"eval", "evalro", "evalna"} {
		v, err := runScript(c, mode, "return tile38.call('get','fleet','o')", nil, nil)
		if err != nil {
			return err.Error()
		}
		if v.IsErr() {
			return strings.ToUpper(mode) + ": " + v.Str
		}
	}
	return ""
}

func runPoolAccounting(t testing.TB, c *ev.Collector, n int) {
	srv := mustStart(t, t38.Opts{})
	defer srv.StopAsync()
	ctl := srv.MustDial()
	defer ctl.Close()
	seed := func() { ctl.MustDo("SET", "fleet", "o", "FIELD", "speed", "80", "POINT", "5", "5") }
	seed()
	fence := []string{"FENCE", "BOUNDS", "0", "0", "10", "10"}
	fence2 := []string{"FENCE", "BOUNDS", "0", "0", "11", "11"}
	def := func(cmd, name string, endpoint []string, tag string, f []string) []string {
		out := append([]string{cmd, name}, endpoint...)
		out = append(out, "WITHIN", "fleet")
		out = append(out, acctFilter(tag)...)
		return append(out, f...)
	}
	mustOK := func(path string, v t38.Value, err error, cmd []string) bool {
		if err != nil || v.IsErr() {
			if v.IsErr() && strings.Contains(v.Str, "no interpreters available") {
				return false
			}
			c.Violation("poolacct:command-failed", fmt.Sprintf("%s: %s answered %v (err %v)", path, t38.CmdString(cmd), v, err), map[string]any{"sub": "poolacct", "path": path})
		}
		return true
	}
	hookEP := []string{"http://127.0.0.1:1/c18acct"}
	filterSha := ctl.MustDo("SCRIPT", "LOAD", "return ARGV[1] ~= nil and FIELDS ~= nil").Str
	scriptSha := ctl.MustDo("SCRIPT", "LOAD", "local x = 0 for i = 1, 20000 do x = x + 1 end return tile38.call('scan','fleet','whereeval','return true',0,'count')").Str
	type pathT struct {
		name string
		n    int
		step func(i int) bool // false: the pool is exhausted
	}
	do := func(path string, cmd ...string) bool {
		v, err := ctl.Do(cmd...)
		return mustOK(path, v, err, cmd)
	}
	paths := []pathT{
		{"setchan+delchan", n, func(i int) bool {
			return do("setchan+delchan", def("SETCHAN", "c", nil, "a", fence)...) && do("setchan+delchan", "DELCHAN", "c")
		}},
		{"sethook+delhook", n / 4, func(i int) bool {
			return do("sethook+delhook", def("SETHOOK", "h", hookEP, "a", fence)...) && do("sethook+delhook", "DELHOOK", "h")
		}},
		{"setchan-replaced", n, func(i int) bool {
			f := fence
			if i%2 == 1 {
				f = fence2
			}
			return do("setchan-replaced", def("SETCHAN", "rep", nil, "a", f)...)
		}},
		{"setchan-unchanged", n, func(i int) bool { return do("setchan-unchanged", def("SETCHAN", "same", nil, "a", fence)...) }},
		{"setchan+pdelchan", n, func(i int) bool {
			return do("setchan+pdelchan", def("SETCHAN", fmt.Sprintf("p%d", i%3), nil, "a", fence)...) && do("setchan+pdelchan", "PDELCHAN", "p*")
		}},
		{"setchan+flushdb", n / 2, func(i int) bool {
			ok := do("setchan+flushdb", def("SETCHAN", "fl", nil, "a", fence)...) && do("setchan+flushdb", "FLUSHDB")
			seed()
			return ok
		}},
		{"setchan-bad-fence", n, func(i int) bool {
			cmd := def("SETCHAN", "bad", nil, "a", []string{"FENCE", "BOUNDS", "0", "0", "x"})
			if i%2 == 1 {
				cmd = def("SETCHAN", "bad", nil, "a", nil) // no FENCE at all
			}
			v, err := ctl.Do(cmd...)
			if err != nil || !v.IsErr() {
				c.Violation("poolacct:command-failed", fmt.Sprintf("setchan-bad-fence: %s answered %v (err %v), expected an error", t38.CmdString(cmd), v, err), map[string]any{"sub": "poolacct"})
			}
			return !strings.Contains(v.Str, "no interpreters available")
		}},
		{"live-fence-open-close", n + 10, func(i int) bool {
			lc, err := srv.Dial()
			if err != nil {
				return true
			}
			cmd := append(append([]string{"WITHIN", "fleet"}, acctFilter("l")...), fence...)
			v, err := lc.Do(cmd...)
			lc.Close()
			return mustOK("live-fence-open-close", v, err, cmd)
		}},
		{"script-inner-fence", n, func(i int) bool {
			lua := "return tile38.pcall('within','fleet'"
			for j := 0; j < acctClauses; j++ {
				lua += ",'whereeval','return true',0"
			}
			lua += ",'fence','bounds',0,0,10,10)"
			v, err := ctl.Do("EVAL", lua, "0")
			if err != nil {
				return true
			}
			return !strings.Contains(v.String(), "no interpreters available")
		}},
		// TIMEOUT around everything that takes interpreters. A FENCE search hands its
		// filters (and their interpreters) back as the going-live value: when the
		// deadline fires, they must be closed (finding timeout-fence-whereeval-leaks-interpreters)
		{"timeout-fence-search", n + n/2, func(i int) bool {
			kinds := [][]string{
				{"NEARBY", "POINT", "5", "5", "100000"},
				{"WITHIN", "BOUNDS", "0", "0", "10", "10"},
				{"INTERSECTS", "BOUNDS", "0", "0", "10", "10"},
			}
			k := kinds[i%3]
			tmo := []string{"0", "0.000001", "0.0001", "10"}[(i/3)%4]
			var filt []string
			if (i/12)%2 == 0 {
				filt = acctFilter("t")
			} else {
				for j := 0; j < acctClauses; j++ {
					filt = append(filt, "WHEREEVALSHA", filterSha, "1", fmt.Sprintf("t-%d", j))
				}
			}
			cmd := []string{"TIMEOUT", tmo, k[0], "fleet"}
			if (i/24)%2 == 0 { // FENCE before or after the filters
				cmd = append(append(append(cmd, "FENCE"), filt...), k[1:]...)
			} else {
				cmd = append(append(append(cmd, filt...), "FENCE"), k[1:]...)
			}
			// own connection: with the generous timeout the fence goes live
			lc, err := srv.Dial()
			if err != nil {
				return true
			}
			v, err := lc.Do(cmd...)
			lc.Close()
			if err != nil {
				return true
			}
			if !(v.Equal(t38.Simple("OK")) || (v.IsErr() && strings.Contains(v.Str, "timeout"))) {
				if strings.Contains(v.Str, "no interpreters available") {
					return false
				}
				c.Violation("poolacct:command-failed", fmt.Sprintf("timeout-fence-search: %s answered %v", t38.CmdString(cmd), v), map[string]any{"sub": "poolacct"})
			}
			return true
		}},
		{"timeout-plain-search", n, func(i int) bool {
			kinds := [][]string{
				{"SCAN"}, {"NEARBY", "POINT", "5", "5", "100000"}, {"WITHIN", "BOUNDS", "0", "0", "10", "10"},
				{"INTERSECTS", "BOUNDS", "0", "0", "10", "10"}, {"SEARCH"},
			}
			k := kinds[i%5]
			tmo := []string{"0", "0.000001", "10"}[(i/5)%3]
			cmd := append([]string{"TIMEOUT", tmo, k[0], "fleet"}, acctFilter("s")...)
			cmd = append(append(cmd, "COUNT"), k[1:]...)
			v, err := ctl.Do(cmd...)
			return err != nil || !strings.Contains(v.String(), "no interpreters available")
		}},
		{"timeout-scripts", n, func(i int) bool {
			modes := []string{"EVAL", "EVALRO", "EVALNA", "EVALSHA", "EVALROSHA", "EVALNASHA"}
			tmo := []string{"0", "0.000001", "0.002", "10"}[(i/6)%4]
			first := "local x = 0 for i = 1, 20000 do x = x + 1 end return tile38.call('scan','fleet','whereeval','return true',0,'count')"
			if i%6 >= 3 {
				first = scriptSha
			}
			var v t38.Value
			var err error
			if i%7 == 6 {
				v, err = ctl.Do("TIMEOUT", tmo, "SCRIPT", "LOAD", fmt.Sprintf("return %d", i))
			} else {
				v, err = ctl.Do("TIMEOUT", tmo, modes[i%6], first, "0")
			}
			return err != nil || !strings.Contains(v.String(), "no interpreters available")
		}},
		{"setchan-expires", n / 8, func(i int) bool {
			cmd := append([]string{"SETCHAN", fmt.Sprintf("ex%d", i), "EX", "0.05", "WITHIN", "fleet"}, acctFilter("e")...)
			for j := 0; j < 7; j++ { // 40 filters per channel: fewer channels have to expire
				cmd = append(cmd, acctFilter("e")...)
			}
			return do("setchan-expires", append(cmd, fence...)...)
		}},
	}
	for _, p := range paths {
		exhausted := false
		for i := 0; i < p.n && !exhausted; i++ {
			c.Case()
			exhausted = !p.step(i)
		}
		if p.name == "setchan-expires" {
			deadline := time.Now().Add(15 * time.Second)
			for time.Now().Before(deadline) {
				if v, _ := ctl.Do("CHANS", "ex*"); v.Kind == '*' && len(v.Arr) == 0 {
					break
				}
				time.Sleep(50 * time.Millisecond)
			}
		}
		// live connections are noticed as closed asynchronously: be patient before judging
		var bad string
		for try := 0; try < 20; try++ {
			if bad = poolHealthy(ctl); bad == "" {
				break
			}
			if !strings.Contains(bad, "no interpreters available") {
				break
			}
			time.Sleep(250 * time.Millisecond)
		}
		c.Label("path:" + p.name)
		if bad != "" {
			key := "lua-pool-interpreter-shared:" + p.name
			if strings.Contains(bad, "no interpreters available") || exhausted {
				key = "lua-pool-leak:" + p.name
				if p.name == "timeout-fence-search" {
					key = findingTimeoutFence
				}
			}
			c.Violation(key, fmt.Sprintf("after %d x %s (each definition takes %d WHEREEVAL interpreters; the pool holds at most 1000): %s", p.n, p.name, acctClauses, bad), map[string]any{"sub": "poolacct", "path": p.name})
			return // the pool is unusable from here on
		}
		c.NonTrivial("poolacct:" + p.name)
	}
}

func TestC18_PoolAccounting(t *testing.T) {
	c := ev.New(prop, "poolacct", "exploration")
	t.Cleanup(c.Flush)
	c.Rule("pool accounting for fences with WHEREEVAL filters (5 clauses = 5 interpreters per definition, the pool refuses to exceed 1000): 210 (thorough 420) cycles each of SETCHAN+DELCHAN, SETCHAN replaced by a different definition, SETCHAN re-defined unchanged, SETCHAN+PDELCHAN, SETCHAN with a bad/missing FENCE after the valid filters, EVAL calling tile38.pcall('within',...,'whereeval',...,'fence',...); as many live WITHIN ... FENCE connections opened and closed; half as many SETCHAN+FLUSHDB; a quarter SETHOOK+DELHOOK; 26 channels with 40 filters each that expire after 50 ms; TIMEOUT (0, 1 us, 100 us, 10 s) around NEARBY/WITHIN/INTERSECTS ... FENCE with 5 WHEREEVAL or WHEREEVALSHA filters, FENCE before or after them, each on its own connection (315 calls; regression probe of timeout-fence-whereeval-leaks-interpreters); TIMEOUT around SCAN/NEARBY/WITHIN/INTERSECTS/SEARCH with 5 filters and COUNT; TIMEOUT (0..10 s) around all six EVAL variants of a script that itself searches with WHEREEVAL, and around SCRIPT LOAD. After every path: a search with 12 WHEREEVAL clauses that each compare ARGV[1] with their own argument must count 1 (an interpreter handed out twice would show the later clause's ARGV), and EVAL/EVALRO/EVALNA must work; 'no interpreters available' that persists for 5 s is a leak. Each path is a non-trivial case.")
	runPoolAccounting(t, c, ev.Pick(210, 420))
}

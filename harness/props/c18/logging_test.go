package c18

import (
	"fmt"
	"os"
	"strings"
	"testing"
	"time"

	"github.com/tidwall/tile38/verif/harness/ev"
	"github.com/tidwall/tile38/verif/harness/gen"
	"github.com/tidwall/tile38/verif/harness/model"
	"github.com/tidwall/tile38/verif/harness/t38"
	"pgregory.net/rapid"
)

type logScript struct {
	Mode     string     `json:"mode"`      // eval evalsha evalna evalnasha
	Style    string     `json:"style"`     // call (abort on first error) | pcall
	ArgStyle string     `json:"arg_style"` // argv | literal
	Cmds     [][]string `json:"cmds"`
}

type logCase struct {
	Scripts []logScript `json:"scripts"`
}

// usableInScript: the command can be issued through tile38.call with exactly
// these arguments (no empty argument: tile38.call stops at the first empty
// string and EVAL refuses empty ARGV; FLUSHDB/JDEL are not available inside
// scripts).
func usableInScript(cmd []string) bool {
	switch strings.ToLower(cmd[0]) {
	case "flushdb", "jdel":
		return false
	}
	for _, a := range cmd {
		if a == "" {
			return false
		}
	}
	return true
}

func drawLogCase(rt *rapid.T) logCase {
	ns := gen.DrawNames(rt)
	var lc logCase
	n := rapid.IntRange(1, 4).Draw(rt, "nscripts")
	for i := 0; i < n; i++ {
		s := logScript{
			Mode:     rapid.SampledFrom([]string{"eval", "eval", "evalsha", "evalna", "evalnasha"}).Draw(rt, "mode"),
			Style:    rapid.SampledFrom([]string{"pcall", "pcall", "call"}).Draw(rt, "style"),
			ArgStyle: rapid.SampledFrom([]string{"argv", "literal"}).Draw(rt, "argstyle"),
		}
		m := rapid.IntRange(1, 6).Draw(rt, "ncmds")
		for tries := 0; len(s.Cmds) < m && tries < 40; tries++ {
			cmd := gen.KeyspaceCmd(rt, ns)
			if usableInScript(cmd) {
				s.Cmds = append(s.Cmds, cmd)
			}
		}
		lc.Scripts = append(lc.Scripts, s)
	}
	return lc
}

// render builds the Lua text and the ARGV list for the given commands.
func (s logScript) render(cmds [][]string) (src string, argv []string) {
	var b strings.Builder
	b.WriteString("local r = {}\n")
	for _, cmd := range cmds {
		var parts []string
		for _, a := range cmd {
			if s.ArgStyle == "argv" {
				argv = append(argv, a)
				parts = append(parts, fmt.Sprintf("ARGV[%d]", len(argv)))
			} else {
				parts = append(parts, luaQuote(a))
			}
		}
		fmt.Fprintf(&b, "r[#r+1] = tile38.%s(%s)\n", s.Style, strings.Join(parts, ","))
	}
	b.WriteString("r[#r+1] = 'end'\nreturn r")
	return b.String(), argv
}

type logEnv struct {
	leader, follower *t38.Srv
	cL, cLD, cF, cFD *t38.Conn
}

func serverField(c *t38.Conn, name string) (string, error) {
	v, err := c.Do("SERVER")
	if err != nil {
		return "", err
	}
	for i := 0; i+1 < len(v.Arr); i += 2 {
		if v.Arr[i].Str == name {
			return v.Arr[i+1].Str, nil
		}
	}
	return "", fmt.Errorf("SERVER has no %s: %s", name, v)
}

func newLogEnv(t testing.TB) *logEnv {
	e := &logEnv{leader: mustStart(t, t38.Opts{}), follower: mustStart(t, t38.Opts{})}
	e.cL, e.cLD = e.leader.MustDial(), e.leader.MustDial()
	e.cF, e.cFD = e.follower.MustDial(), e.follower.MustDial()
	if v := e.cF.MustDo("FOLLOW", "127.0.0.1", fmt.Sprint(e.leader.Port)); v.IsErr() {
		t.Fatalf("FOLLOW: %s", v)
	}
	return e
}

func (e *logEnv) close() {
	e.cL.Close()
	e.cLD.Close()
	e.cF.Close()
	e.cFD.Close()
	e.follower.StopAsync()
	e.leader.StopAsync()
}

// subseq reports whether every element of small occurs in big, in order.
func subseq(small, big []string) (bool, string) {
	j := 0
	for _, s := range small {
		for j < len(big) && big[j] != s {
			j++
		}
		if j == len(big) {
			return false, s
		}
		j++
	}
	return true, ""
}

func (e *logEnv) runCase(t ev.Failer, c *ev.Collector, lc logCase, follower bool) (labels []string, ntKey string) {
	t.Helper()
	fail := func(key, what string) { c.Fail(t, key, what, lc) }
	if v, err := e.cL.Do("FLUSHDB"); err != nil || v.IsErr() {
		fail("harness:setup", fmt.Sprintf("FLUSHDB: %v %v", v, err))
	}
	db := model.NewDB()
	aofStart := fileSize(e.leader.AOFPath())
	var mutated, issuedWrites []string
	var abs strings.Builder
	nMut := 0
	for si, s := range lc.Scripts {
		// decide with the model which commands run (call style stops at the first error)
		var run [][]string
		var exps []model.Reply
		aborted := false
		for _, cmd := range s.Cmds {
			exp := model.Exec(db, cmd)
			if exp.Unsupported {
				continue
			}
			run = append(run, cmd)
			exps = append(exps, exp)
			key := strings.Join(cmd, "\x00")
			if model.IsWrite(cmd[0]) && !exp.RESP.IsErr() {
				issuedWrites = append(issuedWrites, key)
			}
			if exp.Mutated {
				mutated = append(mutated, key)
				nMut++
			}
			fmt.Fprintf(&abs, "%s/%s:%s:%v;", s.Mode, s.Style, strings.ToLower(cmd[0]), exp.Mutated)
			if exp.RESP.IsErr() && s.Style == "call" {
				aborted = true
				break
			}
		}
		if len(run) == 0 {
			continue
		}
		src, argv := s.render(run)
		v, err := runScript(e.cL, s.Mode, src, nil, argv)
		if err != nil {
			fail("script-transport", err.Error())
		}
		if aborted {
			if !v.IsErr() {
				fail("script-call-diverges-from-direct-command", fmt.Sprintf("script %d: %s is refused when sent directly (%s) but tile38.call did not raise: %s", si, t38.CmdString(run[len(run)-1]), exps[len(exps)-1].RESP, v))
			}
			labels = append(labels, "call-style-aborted-midway")
			continue
		}
		if v.Kind != '*' || len(v.Arr) != len(run)+1 {
			fail("script-call-diverges-from-direct-command", fmt.Sprintf("script %d (%s): expected %d results, got %s", si, s.Style, len(run)+1, v))
		}
		for i, exp := range exps {
			if exp.RESP.IsErr() != v.Arr[i].IsErr() {
				fail("script-call-diverges-from-direct-command", fmt.Sprintf("script %d: %s answers %s inside the script, the sequential model expects %s", si, t38.CmdString(run[i]), v.Arr[i], exp.RESP))
			}
		}
		labels = append(labels, "mode:"+s.Mode, "style:"+s.Style+"/"+s.ArgStyle)
	}
	// state = the sequential model with each script as one step
	d1, err := t38.TakeDumpOn(e.cLD)
	if err != nil {
		fail("harness:dump", err.Error())
	}
	if diff := db.DiffDump(d1); diff != "" {
		fail("script-state-differs-from-sequential-model", "after the scripts (A=model, B=server): "+diff)
	}
	// the log
	cmds, aerr := aofFrom(e.leader.AOFPath(), aofStart)
	if aerr != nil {
		fail("aof-unparsable", aerr.Error())
	}
	var logged []string
	for _, cm := range cmds {
		logged = append(logged, strings.Join(cm.Args, "\x00"))
	}
	if ok, miss := subseq(mutated, logged); !ok {
		fail("script-write-not-logged", fmt.Sprintf("a state-changing write made by a script is missing from the log (or out of order): %q; log segment: %q", strings.Split(miss, "\x00"), gen.Describe(aofArgs(cmds))))
	}
	if ok, extra := subseq(logged, issuedWrites); !ok {
		fail("aof-foreign-command", fmt.Sprintf("log entry %q does not correspond to a write issued by the scripts (in order)", strings.Split(extra, "\x00")))
	}
	// restart from the on-disk state
	dir := t38.NewDir("c18-restart")
	if err := t38.CopyDir(e.leader.Dir, dir); err != nil {
		fail("harness:copy", err.Error())
	}
	rs, err := t38.Start(t38.Opts{Dir: dir})
	if err != nil {
		fail("restart-failed", "a server started on a copy of the data directory does not come up: "+err.Error())
	}
	d2, derr := t38.TakeDump(rs.Addr)
	go func() { rs.Stop(); os.RemoveAll(dir) }()
	if derr != nil {
		fail("harness:dump", derr.Error())
	}
	if diff := d1.Diff(d2); diff != "" {
		fail("script-write-lost-on-restart", "A=before, B=after restart from the data directory: "+diff)
	}
	// follower
	if follower {
		want, _ := serverField(e.cL, "aof_size")
		deadline := time.Now().Add(15 * time.Second)
		caught := false
		for time.Now().Before(deadline) {
			got, _ := serverField(e.cF, "aof_size")
			if got == want {
				caught = true
				break
			}
			time.Sleep(500 * time.Microsecond)
		}
		if !caught {
			c.Inconclusive("logging: follower did not reach the leader's aof_size within 15s")
		} else {
			d3, err := t38.TakeDumpOn(e.cFD)
			if err != nil {
				fail("harness:dump", err.Error())
			}
			if diff := d1.Diff(d3); diff != "" {
				fail("script-write-not-replicated", "A=leader, B=follower with equal aof_size: "+diff)
			}
			labels = append(labels, "follower-compared")
		}
	}
	if nMut >= 2 {
		ntKey = abs.String()
	}
	return labels, ntKey
}

func aofArgs(cmds []t38.AOFCmd) [][]string {
	out := make([][]string, len(cmds))
	for i, c := range cmds {
		out[i] = c.Args
	}
	return out
}

func TestC18_Logging(t *testing.T) {
	c := ev.New(prop, "logging", "exploration")
	t.Cleanup(c.Flush)
	c.Rule("1-4 scripts (EVAL/EVALSHA/EVALNA/EVALNASHA; tile38.call aborting on the first error or tile38.pcall; arguments through ARGV or as Lua literals) of 1-6 generated keyspace commands each (gen.KeyspaceCmd without FLUSHDB/JDEL and without empty arguments) on an emptied leader. Oracles: error/non-error class of every inner reply and the final dataset equal the sequential reference model with the commands in script order; every state-changing command is in the log segment, in order, with exactly the arguments given, and nothing else is; a server started on a copy of the data directory and a follower with equal aof_size show the same dataset. Non-trivial: >= 2 state-changing writes made through scripts; distinct by the sequence of (mode, style, command, mutated).")
	c.Assume("the reference model of C01 predicts which commands change state and which are refused")
	e := newLogEnv(t)
	defer func() { e.close() }()
	n := 0
	ev.Rapid("logging", ev.Pick(400, 1500))
	rapid.Check(t, func(rt *rapid.T) {
		lc := drawLogCase(rt)
		if n++; n%400 == 0 {
			// keep the log (which every restart replays) short
			e.close()
			e = newLogEnv(t)
		}
		c.Case()
		labels, nt := e.runCase(rt, c, lc, true)
		for _, l := range labels {
			c.Label(l)
		}
		if nt != "" {
			c.NonTrivial(nt)
			if c.WantSample() {
				c.Sample(lc)
			}
		}
	})
}

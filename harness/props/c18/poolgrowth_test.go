package c18

import (
	"fmt"
	"strings"
	"sync"
	"testing"
	"time"

	"github.com/tidwall/tile38/verif/harness/ev"
	"github.com/tidwall/tile38/verif/harness/t38"
	"pgregory.net/rapid"
)

// The interpreter pool pre-builds five states and creates more on demand
// (lStatePool.Get) when more than five are in use at once; the pool is LIFO,
// so a single connection only ever meets the state on top. This sub-check
// forces the pool to grow and then makes the escape / hygiene probes land on
// EVERY state: (a) deterministically by depth - a search with k WHEREEVAL
// clauses takes the k topmost states, the probe is the k-th clause; (b) by
// width - n connections run the probe at the same time behind a busy loop,
// so they hold n different states.

type growCase struct {
	Name  string `json:"name"`  // generated global name
	Tmpl  string `json:"tmpl"`  // way of creating the global
	Mode  string `json:"mode"`  // variant of the concurrent probers: evalna evalnasha evalro evalrosha
	N     int    `json:"n"`     // concurrent connections / maximum WHEREEVAL depth
	Token string `json:"token"` // value the script tries to park
}

var growTemplates = []string{
	"$N = ARGV[1]", "_G.$N = ARGV[1]", "_G['$N'] = ARGV[1]", "_G._G.$N = ARGV[1]", "local g = _G g.$N = ARGV[1]", "function $N() return ARGV[1] end",
}

const growBusy = "local x = 0 for i = 1, 1200000 do x = x + 1 end "

// growChecker returns the interpreter's identity, what the name holds there,
// and the call's own view of KEYS/ARGV.
const growChecker = growBusy + "return {tostring(_G), tostring(_G[ARGV[1]]), #KEYS, #ARGV, tostring(KEYS[1]), ARGV[2] or false}"

func runGrow(t ev.Failer, c *ev.Collector, srv *t38.Srv, g growCase) (labels []string, distinct int) {
	t.Helper()
	rep := map[string]any{"case": g}
	ctl, err := srv.Dial()
	if err != nil {
		t.Fatalf("dial: %v", err)
	}
	defer ctl.Close()
	assign := strings.ReplaceAll(g.Tmpl, "$N", g.Name)
	denied := func(v t38.Value) bool {
		return v.IsErr() && strings.Contains(v.Str, "attempt to create global variable")
	}

	// growth by depth: one search holding g.N interpreters at once
	if v, err := ctl.Do("SET", "grow", "o", "POINT", "1", "2"); err != nil || v.IsErr() {
		c.Fail(t, "harness:setup", fmt.Sprintf("SET: %v %v", v, err), rep)
	}
	scan := func(k int, last string, args ...string) (t38.Value, error) {
		cmd := []string{"SCAN", "grow"}
		for i := 0; i < k-1; i++ {
			cmd = append(cmd, "WHEREEVAL", "return true", "0")
		}
		cmd = append(cmd, "WHEREEVAL", last, fmt.Sprint(len(args)))
		cmd = append(cmd, args...)
		return ctl.Do(append(cmd, "COUNT")...)
	}
	if v, err := scan(g.N, "return true"); err != nil || !v.Equal(t38.Int(1)) {
		c.Fail(t, "poolgrowth:whereeval-scan-failed", fmt.Sprintf("SCAN with %d WHEREEVAL clauses answered %v (err %v)", g.N, v, err), rep)
	}
	// (a) every depth: the k-th clause tries to create the global, then the k-th clause looks for it
	for k := 1; k <= g.N; k++ {
		v, err := scan(k, assign+" return true", g.Token)
		if err != nil {
			c.Fail(t, "script-transport", err.Error(), rep)
		}
		if !denied(v) {
			c.Fail(t, "sandbox:escape-attempt-succeeded", fmt.Sprintf("the interpreter at depth %d of the pool (5 are pre-built, the rest made on demand) let WHEREEVAL %q create a global: reply %s", k, assign, v), rep)
		}
	}
	for k := 1; k <= g.N; k++ {
		v, err := scan(k, "return _G[ARGV[1]] == nil", g.Name)
		if err != nil || !v.Equal(t38.Int(1)) {
			c.Fail(t, "sandbox:new-global-created", fmt.Sprintf("the interpreter at depth %d of the pool shows global %q to a later WHEREEVAL: COUNT = %v (err %v)", k, g.Name, v, err), rep)
		}
		v, err = scan(k, "return KEYS == nil and EVAL_CMD == nil and DEADLINE == nil and #ARGV == 1", "w")
		if err != nil || !v.Equal(t38.Int(1)) {
			c.Fail(t, "hygiene:keys-argv-leaked", fmt.Sprintf("the interpreter at depth %d of the pool still holds an earlier call's KEYS/EVAL_CMD/DEADLINE (seen by a WHEREEVAL clause): COUNT = %v (err %v)", k, v, err), rep)
		}
	}
	labels = append(labels, "depth-probed")

	// (b) width: g.N connections inside the probe at the same time
	conns := make([]*t38.Conn, g.N)
	for i := range conns {
		if conns[i], err = srv.Dial(); err != nil {
			t.Fatalf("dial: %v", err)
		}
		defer conns[i].Close()
	}
	parallel := func(mode, script string, keysOf func(i int) []string, argsOf func(i int) []string) []t38.Value {
		firsts := make([]string, g.N)
		for i := range conns {
			f, err := prepScript(conns[i], mode, script)
			if err != nil {
				t.Fatalf("SCRIPT LOAD: %v", err)
			}
			firsts[i] = f
		}
		out := make([]t38.Value, g.N)
		var wg sync.WaitGroup
		for i := range conns {
			wg.Add(1)
			go func(i int) {
				defer wg.Done()
				v, err := conns[i].Do(scriptCmd(mode, firsts[i], keysOf(i), argsOf(i))...)
				if err != nil {
					v = t38.Err("transport: " + err.Error())
				}
				out[i] = v
			}(i)
		}
		wg.Wait()
		return out
	}
	for i, v := range parallel(g.Mode, growBusy+assign+" return 1", func(i int) []string { return []string{fmt.Sprintf("plant-key-%d", i)} }, func(int) []string { return []string{g.Token} }) {
		if !denied(v) {
			c.Fail(t, "sandbox:escape-attempt-succeeded", fmt.Sprintf("%d concurrent %s scripts: number %d was allowed %q: reply %s", g.N, strings.ToUpper(g.Mode), i, assign, v), rep)
		}
	}
	// an EVAL (which serialises with everything) while g.N-1 non-atomic scripts hold interpreters
	var wg sync.WaitGroup
	for i := 1; i < g.N; i++ {
		wg.Add(1)
		go func(i int) {
			defer wg.Done()
			conns[i].Do("EVALNA", growBusy+growBusy+"return 1", "0")
		}(i)
	}
	time.Sleep(2 * time.Millisecond)
	ve, eerr := conns[0].Do("EVAL", assign+" return 1", "0", g.Token)
	wg.Wait()
	if eerr != nil || !denied(ve) {
		c.Fail(t, "sandbox:escape-attempt-succeeded", fmt.Sprintf("EVAL %q while %d EVALNA scripts were holding interpreters: reply %v (err %v)", assign, g.N-1, ve, eerr), rep)
	}
	// concurrent checkers: every interpreter they land on must be clean
	interp := map[string]bool{}
	for round := 0; round < 2; round++ {
		mode := []string{"evalna", "evalro"}[round]
		res := parallel(mode, growChecker, func(i int) []string { return []string{fmt.Sprintf("chk-key-%d", i)} }, func(i int) []string { return []string{g.Name, fmt.Sprintf("chk-arg-%d", i)} })
		for i, v := range res {
			if v.Kind != '*' || len(v.Arr) != 6 {
				c.Fail(t, "poolgrowth:checker-failed", fmt.Sprintf("checker %d answered %s", i, v), rep)
			}
			if v.Arr[1].Str != "nil" {
				c.Fail(t, "sandbox:new-global-created", fmt.Sprintf("interpreter %s shows global %s = %q to a later %s script (the value is an earlier call's ARGV[1])", v.Arr[0].Str, g.Name, v.Arr[1].Str, strings.ToUpper(mode)), rep)
			}
			if v.Arr[2].Int != 1 || v.Arr[3].Int != 2 || v.Arr[4].Str != fmt.Sprintf("chk-key-%d", i) || v.Arr[5].Str != fmt.Sprintf("chk-arg-%d", i) {
				c.Fail(t, "hygiene:keys-argv-wrong", fmt.Sprintf("concurrent checker %d on %s sees KEYS/ARGV %v", i, v.Arr[0].Str, v), rep)
			}
			interp[v.Arr[0].Str] = true
		}
	}
	// g.N scripts at once that are really cut short by TIMEOUT (each carries keys), i.e. g.N
	// interpreters go back to the pool through the abort path; then every depth is probed
	// through WHEREEVAL, which is given only ARGV
	{
		firsts := make([]string, g.N)
		for i := range conns {
			f, err := prepScript(conns[i], g.Mode, spinScript)
			if err != nil {
				t.Fatalf("SCRIPT LOAD: %v", err)
			}
			firsts[i] = f
		}
		out := make([]t38.Value, g.N)
		var wg sync.WaitGroup
		for i := range conns {
			wg.Add(1)
			go func(i int) {
				defer wg.Done()
				cmd := append([]string{"TIMEOUT", "0.05"}, scriptCmd(g.Mode, firsts[i], []string{fmt.Sprintf("to-key-%d", i)}, []string{g.Token})...)
				v, err := conns[i].Do(cmd...)
				if err != nil {
					v = t38.Simple("transport: " + err.Error())
				}
				out[i] = v
			}(i)
		}
		wg.Wait()
		for i, v := range out {
			if !v.IsErr() || !strings.Contains(v.Str, "timeout") {
				c.Fail(t, "hygiene:timeout-not-enforced", fmt.Sprintf("TIMEOUT 0.05 %s of a never-ending script (number %d of %d at once) answered %s", strings.ToUpper(g.Mode), i, g.N, v), rep)
			}
		}
		for k := 1; k <= g.N; k++ {
			if d := filterWriteProbe(ctl, "grow", k, g.Token); d != "" {
				c.Fail(t, "sandbox:whereeval-filter-can-write", fmt.Sprintf("after %d timed-out %s scripts: %s", g.N, strings.ToUpper(g.Mode), d), rep)
			}
			v, err := scan(k, "return KEYS == nil and EVAL_CMD == nil and DEADLINE == nil and #ARGV == 1", "w")
			if err != nil || !v.Equal(t38.Int(1)) {
				c.Fail(t, "hygiene:keys-argv-leaked", fmt.Sprintf("after %d %s scripts were cut short by TIMEOUT at the same time, the interpreter at depth %d of the pool still holds KEYS/EVAL_CMD/DEADLINE (seen by a WHEREEVAL clause): COUNT = %v (err %v)", g.N, strings.ToUpper(g.Mode), k, v, err), rep)
			}
		}
		labels = append(labels, "timed-out-depth-probed")
	}
	// and the state on top, sequentially, in every variant
	for _, mode := range []string{"eval", "evalsha", "evalro", "evalrosha", "evalna", "evalnasha"} {
		v, err := runScript(ctl, mode, "return tostring(_G[ARGV[1]])", nil, []string{g.Name})
		if err != nil || v.Str != "nil" {
			c.Fail(t, "sandbox:new-global-created", fmt.Sprintf("%s sees global %s = %v (err %v)", strings.ToUpper(mode), g.Name, v, err), rep)
		}
	}
	return labels, len(interp)
}

func TestC18_PoolGrowth(t *testing.T) {
	c := ev.New(prop, "poolgrowth", "exploration")
	t.Cleanup(c.Flush)
	c.Rule("the pool pre-builds 5 interpreters and creates more on demand; it is LIFO. Per case (generated global name, 6 ways of assigning it, token, N in 6..10, concurrent variant EVALNA/EVALNASHA/EVALRO/EVALROSHA): a SCAN with N WHEREEVAL clauses grows the pool to N states; then for every depth k = 1..N a SCAN whose k-th WHEREEVAL clause tries to create the global must be refused, and a SCAN whose k-th clause looks for the name must not find it (nor a stale KEYS/ARGV); then N connections run busy-loop + assignment at the same time (N different states in use): all refused; an EVAL while N-1 EVALNA scripts hold interpreters: refused; N never-ending scripts with keys cut short by TIMEOUT 0.05 at the same time (all must answer the timeout error), then for every depth k a WHEREEVAL filter must be unable to write through tile38.pcall and must find KEYS/EVAL_CMD/DEADLINE nil; 2 x N concurrent checkers (EVALNA, EVALRO) must see the name nil and exactly their own KEYS/ARGV on every interpreter they land on (identities by tostring(_G), counted); finally the top state in all six variants. Non-trivial: every case (the depth probes reach N > 5 states by construction); distinct by template, mode, N.")
	if ev.KnownActive(findingPoison) {
		c.Excluded(findingPoison)
	}
	srv := mustStart(t, t38.Opts{})
	defer srv.StopAsync()
	ident := rapid.StringMatching(`[a-zA-Z_][a-zA-Z0-9_]{0,9}`)
	best, seq := 0, 0
	ev.Rapid("poolgrowth", ev.Pick(5, 40))
	rapid.Check(t, func(rt *rapid.T) {
		seq++
		g := growCase{
			Name: ident.Draw(rt, "name"),
			Tmpl: rapid.SampledFrom(growTemplates).Draw(rt, "tmpl"),
			Mode: rapid.SampledFrom([]string{"evalna", "evalnasha", "evalro", "evalrosha"}).Draw(rt, "mode"),
			N:    rapid.IntRange(6, 10).Draw(rt, "n"),
		}
		g.Token = fmt.Sprintf("parked-%d", seq)
		if isAllowedGlobal(g.Name) || luaKeywords[g.Name] || allowFuncs[g.Name] != nil || g.Name == "g" || g.Name == "x" || g.Name == "i" ||
			g.Name == "ID" || g.Name == "FIELDS" || g.Name == "PROPERTIES" {
			rt.Skip("name is allow-listed, a keyword or a local of the probe")
		}
		c.Case()
		labels, d := runGrow(rt, c, srv, g)
		if d > best {
			best = d
		}
		for _, l := range labels {
			c.Label(l)
		}
		c.Label(fmt.Sprintf("depth=%d", g.N))
		c.NonTrivial(fmt.Sprintf("%s|%s|%d", g.Tmpl, g.Mode, g.N))
		if c.WantSample() {
			c.Sample(g)
		}
	})
	c.Note("concurrent checkers ran on up to %d distinct interpreters in one case", best)
	c.Label(fmt.Sprintf("distinct-interpreters-by-width=%d", best))
	if best < 6 {
		c.Inconclusive("poolgrowth: concurrent checkers reached only %d distinct interpreters at once (the depth probes cover all of them regardless)", best)
	}
}

package c18

import (
	"fmt"
	"strconv"
	"strings"
	"sync"
	"sync/atomic"
	"testing"
	"time"

	"github.com/tidwall/tile38/verif/harness/ev"
	"github.com/tidwall/tile38/verif/harness/t38"
	"pgregory.net/rapid"
)

// Role flips while scripts are in flight. An admin connection toggles
// READONLY yes/no while several clients loop an increment-style EVAL/EVALSHA
// (read the counter, short busy wait, write counter+1 to two ids); now and
// then a long EVALRO holds the shared lock so that the flip and the scripts
// pile up behind it. Every EVAL must either be refused as a whole (read only,
// nothing written) or be atomic.

type flipCase struct {
	Clients  int   `json:"clients"`
	Rounds   int   `json:"rounds"`
	Busy     int   `json:"busy"`      // iterations between read and write
	LongRead int   `json:"long_read"` // iterations of the lock-holding EVALRO
	GapsUS   []int `json:"gaps_us"`   // pauses of the admin connection, cycled
	Sha      bool  `json:"sha"`
}

func incrScript(busy int) string {
	return fmt.Sprintf(`local v = tonumber(tile38.call('get','cnt','c'))
local x = 0 for i = 1, %d do x = x + 1 end
tile38.call('set','cnt','c','string',v + 1)
for i = 1, 300 do x = x + 1 end
tile38.call('set','cnt','d','string',v + 1)
return v + 1`, busy)
}

type flipReply struct {
	val        int64 // > 0: success
	err        string
	send, recv time.Duration
}

func runFlipCase(t ev.Failer, c *ev.Collector, srv *t38.Srv, f flipCase) (labels []string, ntKey string) {
	t.Helper()
	rep := map[string]any{"case": f}
	fail := func(key, what string) { c.Fail(t, key, what, rep) }
	admin, long, reader := srv.MustDial(), srv.MustDial(), srv.MustDial()
	defer admin.Close()
	defer long.Close()
	defer reader.Close()
	must := func(cmd ...string) {
		if v, err := admin.Do(cmd...); err != nil || v.IsErr() {
			fail("harness:setup", fmt.Sprintf("%v: %v %v", cmd, v, err))
		}
	}
	must("READONLY", "no")
	must("SET", "cnt", "c", "STRING", "0")
	must("SET", "cnt", "d", "STRING", "0")
	aofStart := fileSize(srv.AOFPath())
	src := incrScript(f.Busy)
	mode := "eval"
	if f.Sha {
		mode = "evalsha"
	}
	base := time.Now()
	var stop atomic.Bool
	var wg sync.WaitGroup
	replies := make([][]flipReply, f.Clients)
	cerr := make([]string, f.Clients+1)
	for i := 0; i < f.Clients; i++ {
		wg.Add(1)
		go func(i int) {
			defer wg.Done()
			cn, err := srv.Dial()
			if err != nil {
				cerr[i] = err.Error()
				return
			}
			defer cn.Close()
			first, err := prepScript(cn, mode, src)
			if err != nil {
				cerr[i] = err.Error()
				return
			}
			cmd := scriptCmd(mode, first, nil, nil)
			for !stop.Load() {
				s := since(base)
				v, err := cn.Do(cmd...)
				r := since(base)
				if err != nil {
					cerr[i] = "transport: " + err.Error()
					return
				}
				fr := flipReply{send: s, recv: r}
				switch {
				case v.Kind == ':':
					fr.val = v.Int
				case v.IsErr():
					fr.err = v.Str
				default:
					fr.err = "unexpected reply " + v.String()
				}
				replies[i] = append(replies[i], fr)
			}
		}(i)
	}
	// outside reader: the two ids always agree
	torn := ""
	wg.Add(1)
	go func() {
		defer wg.Done()
		for !stop.Load() {
			v, err := reader.Do("SCAN", "cnt")
			if err != nil || v.Kind != '*' || len(v.Arr) != 2 {
				cerr[f.Clients] = fmt.Sprintf("reader: %v %v", v, err)
				return
			}
			got := map[string]string{}
			for _, it := range v.Arr[1].Arr {
				if len(it.Arr) >= 2 {
					got[it.Arr[0].Str] = it.Arr[1].Str
				}
			}
			if got["c"] != got["d"] && torn == "" {
				torn = fmt.Sprintf("c=%s d=%s", got["c"], got["d"])
			}
		}
	}()
	// the flips
	longScript := fmt.Sprintf("local x = 0 for i = 1, %d do x = x + 1 end return tile38.call('get','cnt','c')", f.LongRead)
	gap := func(i int) {
		time.Sleep(time.Duration(f.GapsUS[i%len(f.GapsUS)]) * time.Microsecond)
	}
	flips := 0
	for r := 0; r < f.Rounds; r++ {
		must("READONLY", "yes")
		gap(3 * r)
		var lw sync.WaitGroup
		lw.Add(1)
		go func() {
			defer lw.Done()
			long.Do("EVALRO", longScript, "0")
		}()
		gap(3*r + 1)
		must("READONLY", "no") // waits for the long reader; scripts pile up behind it
		flips++
		lw.Wait()
		gap(3*r + 2)
	}
	stop.Store(true)
	wg.Wait()
	for _, e := range cerr {
		if e != "" {
			fail("concurrent-client-error", e)
		}
	}
	must("READONLY", "no")

	// oracle
	var ok, refused int
	seen := map[int64]int{}
	for i, rs := range replies {
		last := int64(0)
		for _, r := range rs {
			if r.val > 0 {
				ok++
				seen[r.val]++
				if r.val <= last {
					fail("script-not-atomic:lost-update", fmt.Sprintf("client %d received increments out of order: %d after %d", i, r.val, last))
				}
				last = r.val
				continue
			}
			refused++
			if !strings.Contains(r.err, "read only") {
				fail("script-refusal-unexpected", fmt.Sprintf("client %d: an increment EVAL was answered %q (expected the new counter or a read-only refusal)", i, r.err))
			}
		}
	}
	fc, _ := admin.Do("GET", "cnt", "c")
	fd, _ := admin.Do("GET", "cnt", "d")
	final, _ := strconv.ParseInt(fc.Str, 10, 64)
	rep["successes"], rep["refused"], rep["final"] = ok, refused, fc.Str
	for v, n := range seen {
		if n > 1 {
			fail("script-not-atomic:lost-update", fmt.Sprintf("%d increment scripts (read, pause, write read+1) all returned %d: they ran at the same time. %d successful scripts, final counter %s, %d READONLY flips while they were in flight", n, v, ok, fc.Str, flips))
		}
	}
	if fc.Str != fd.Str || final != int64(ok) {
		fail("script-not-atomic:lost-update", fmt.Sprintf("%d increment scripts succeeded but the counter ids read c=%s d=%s", ok, fc.Str, fd.Str))
	}
	if torn != "" {
		fail("script-not-atomic:marker-pair-torn", "an outside SCAN saw the two ids of one EVAL disagree: "+torn)
	}
	// the log: pairs (c n)(d n), adjacent, n = 1..ok
	cmds, err := aofFrom(srv.AOFPath(), aofStart)
	if err != nil {
		fail("aof-unparsable", err.Error())
	}
	var sets [][]string
	for _, cm := range cmds {
		if len(cm.Args) == 5 && strings.EqualFold(cm.Args[0], "set") && cm.Args[1] == "cnt" {
			sets = append(sets, cm.Args)
		}
	}
	if len(sets) != 2*ok {
		fail("script-write-not-logged", fmt.Sprintf("%d successful increments, %d counter writes in the log (expected %d)", ok, len(sets), 2*ok))
	}
	for i := 0; i+1 < len(sets); i += 2 {
		want := strconv.Itoa(i/2 + 1)
		if sets[i][2] != "c" || sets[i+1][2] != "d" || sets[i][4] != want || sets[i+1][4] != want {
			fail("script-not-atomic:aof-interleaved", fmt.Sprintf("log entries %d,%d are %q %q, expected SET cnt c %s / SET cnt d %s", i, i+1, sets[i], sets[i+1], want, want))
		}
	}
	labels = append(labels, fmt.Sprintf("clients=%d", f.Clients))
	if ok > 0 && refused > 0 {
		ntKey = fmt.Sprintf("%d|%d|%d|%v|%d", f.Clients, f.Busy, f.LongRead, f.Sha, f.Rounds)
	}
	c.LabelN("increments-succeeded", ok)
	c.LabelN("increments-refused-read-only", refused)
	c.LabelN("readonly-flips", flips)
	return labels, ntKey
}

func TestC18_RoleFlip(t *testing.T) {
	c := ev.New(prop, "roleflip", "exploration")
	t.Cleanup(c.Flush)
	c.Rule("2-6 clients loop an increment EVAL/EVALSHA (GET cnt/c, busy wait of 2000-60000 iterations, SET cnt/c and cnt/d to read+1, return it) while an admin connection runs 6-14 rounds of: READONLY yes; pause; start a long EVALRO (0.3-3M iterations) that holds the shared lock; pause; READONLY no (queues behind the long read, so the scripts pile up behind the flip); pause - pauses drawn from 0-3000 us; an outside reader loops SCAN cnt. Oracle: every EVAL is answered the new counter or a read-only refusal; successful replies are distinct and increasing per client; final cnt/c = cnt/d = number of successes; the reader never sees c != d; the log holds exactly the pairs SET cnt c n, SET cnt d n adjacent for n = 1..successes. Non-trivial: a case with both successful and refused increments (flips really met scripts in flight); distinct by parameters. FOLLOW flips are not generated: FOLLOW resets the dataset.")
	srv := mustStart(t, t38.Opts{})
	defer srv.StopAsync()
	ev.Rapid("roleflip", ev.Pick(4, 20))
	rapid.Check(t, func(rt *rapid.T) {
		f := flipCase{
			Clients:  rapid.IntRange(2, 6).Draw(rt, "clients"),
			Rounds:   rapid.IntRange(6, 14).Draw(rt, "rounds"),
			Busy:     rapid.SampledFrom([]int{2000, 10000, 30000, 60000}).Draw(rt, "busy"),
			LongRead: rapid.SampledFrom([]int{300000, 1000000, 3000000}).Draw(rt, "longread"),
			GapsUS:   rapid.SliceOfN(rapid.SampledFrom([]int{0, 100, 500, 1000, 3000}), 3, 9).Draw(rt, "gaps"),
			Sha:      rapid.Bool().Draw(rt, "sha"),
		}
		c.Case()
		labels, nt := runFlipCase(rt, c, srv, f)
		for _, l := range labels {
			c.Label(l)
		}
		if nt != "" {
			c.NonTrivial(nt)
			if c.WantSample() {
				c.Sample(f)
			}
		}
	})
}

package c18

import (
	"encoding/json"
	"fmt"
	"os"
	"strings"
	"sync"
	"testing"
	"time"

	"github.com/tidwall/tile38/verif/harness/ev"
	"github.com/tidwall/tile38/verif/harness/t38"
)

// A hook/channel may carry WHEREEVAL filters. cmdSetHook (hooks.go) closes its
// search arguments when it returns - which puts the filter's interpreter back
// into the script pool and clears its ARGV - while the hook's scan writer
// keeps using that interpreter for every later fence test.
const findingHookLua = "hook-whereeval-interpreter-returned-to-pool"

type hookNote struct {
	Hook   string `json:"hook"`
	ID     string `json:"id"`
	Detect string `json:"detect"`
}

// collectNotes reads channel messages until every wanted (hook,id) has been
// seen with detect=enter or the time is up, then keeps reading for grace to
// catch unwanted ones.
func collectNotes(sub *t38.Conn, want map[string]bool, wait, grace time.Duration) map[string]bool {
	return collectNotesLive(sub, nil, want, wait, grace)
}

// collectNotesLive additionally drains a live-fence connection in the
// background (its notifications are recorded as "live/<id>") until the
// channel collection is finished.
func collectNotesLive(sub, live *t38.Conn, want map[string]bool, wait, grace time.Duration) map[string]bool {
	var mu sync.Mutex
	liveGot := map[string]bool{}
	done := make(chan struct{})
	var wg sync.WaitGroup
	if live != nil {
		wg.Add(1)
		go func() {
			defer wg.Done()
			for {
				select {
				case <-done:
					return
				default:
				}
				v, err := live.RecvTimeout(200 * time.Millisecond)
				if err != nil {
					if err == t38.ErrHang {
						continue
					}
					return
				}
				var n hookNote
				if v.Kind == '$' && json.Unmarshal([]byte(v.Str), &n) == nil && n.Detect == "enter" {
					mu.Lock()
					liveGot["live/"+n.ID] = true
					mu.Unlock()
				}
			}
		}()
	}
	chanWant := map[string]bool{}
	for k := range want {
		if !strings.HasPrefix(k, "live/") {
			chanWant[k] = true
		}
	}
	got := collectChan(sub, chanWant, wait, grace)
	// give the live connection the same patience
	deadline := time.Now().Add(grace + 2*time.Second)
	for live != nil && time.Now().Before(deadline) {
		mu.Lock()
		miss := false
		for k := range want {
			if strings.HasPrefix(k, "live/") && !liveGot[k] {
				miss = true
			}
		}
		mu.Unlock()
		if !miss {
			time.Sleep(300 * time.Millisecond) // unwanted ones
			break
		}
		time.Sleep(20 * time.Millisecond)
	}
	close(done)
	wg.Wait()
	for k := range liveGot {
		got[k] = true
	}
	return got
}

func collectChan(sub *t38.Conn, want map[string]bool, wait, grace time.Duration) map[string]bool {
	got := map[string]bool{}
	deadline := time.Now().Add(wait)
	controlsSeen := false
	missing := func() bool {
		for k := range want {
			if !got[k] {
				return true
			}
		}
		return false
	}
	for {
		d := time.Until(deadline)
		if !missing() {
			d = grace
			grace = 0
		}
		if d <= 0 {
			return got
		}
		v, err := sub.RecvTimeout(d)
		if err != nil {
			return got
		}
		if v.Kind == '*' && len(v.Arr) == 3 && v.Arr[0].Str == "message" {
			var n hookNote
			if json.Unmarshal([]byte(v.Arr[2].Str), &n) == nil && n.Detect == "enter" {
				got[n.Hook+"/"+n.ID] = true
			}
		}
		// once every unfiltered (control) notification is in, the filtered ones get only 2s more
		if !controlsSeen {
			all := true
			for k := range want {
				if strings.HasPrefix(k, "plain/") && !got[k] {
					all = false
				}
			}
			if all {
				controlsSeen = true
				if nd := time.Now().Add(2 * time.Second); nd.Before(deadline) {
					deadline = nd
				}
			}
		}
	}
}

func probeHookFilter(t testing.TB, c *ev.Collector) {
	srv := mustStart(t, t38.Opts{})
	defer srv.StopAsync()
	ctl, sub := srv.MustDial(), srv.MustDial()
	defer ctl.Close()
	defer sub.Close()
	fence := []string{"FENCE", "DETECT", "enter", "BOUNDS", "0", "0", "10", "10"}
	mk := func(name string, filter ...string) {
		cmd := append([]string{"SETCHAN", name, "WITHIN", "fleet"}, filter...)
		if v := ctl.MustDo(append(cmd, fence...)...); v.IsErr() {
			t.Fatalf("SETCHAN %s: %s", name, v)
		}
	}
	mk("plain")
	mk("noargs", "WHEREEVAL", "return FIELDS.speed > 50", "0")
	mk("withargs", "WHEREEVAL", "return FIELDS.speed > tonumber(ARGV[1])", "1", "50")
	mk("clean", "WHEREEVAL", "return KEYS == nil and EVAL_CMD == nil", "0")
	if v := sub.MustDo("SUBSCRIBE", "plain", "noargs", "withargs", "clean"); v.IsErr() {
		t.Fatalf("SUBSCRIBE: %s", v)
	}
	for i := 0; i < 3; i++ {
		sub.RecvTimeout(5 * time.Second)
	}
	var seen []string
	// (1) a filter that uses its ARGV
	c.Case()
	ctl.MustDo("SET", "fleet", "fast", "FIELD", "speed", "80", "POINT", "5", "5")
	want := map[string]bool{"plain/fast": true, "noargs/fast": true, "withargs/fast": true, "clean/fast": true}
	got := collectNotes(sub, want, 8*time.Second, 300*time.Millisecond)
	if !got["plain/fast"] || !got["noargs/fast"] {
		c.Inconclusive("hookfilter: the control channels did not deliver within 8s (%v)", got)
		return
	}
	argvLost := !got["withargs/fast"]
	if argvLost {
		seen = append(seen, `SETCHAN withargs WITHIN fleet WHEREEVAL "return FIELDS.speed > tonumber(ARGV[1])" 1 50 FENCE DETECT enter BOUNDS 0 0 10 10; SUBSCRIBE withargs; SET fleet fast FIELD speed 80 POINT 5 5 -> no message on withargs (the same filter without ARGV, "return FIELDS.speed > 50", and an unfiltered channel both deliver; SCAN fleet WHEREEVAL <same> 1 50 COUNT = 1): the hook's ARGV was cleared when SETCHAN returned`)
	}
	// (2) a write made from inside a script that was given KEYS: the fence filter must not see the script's KEYS
	c.Case()
	ctl.MustDo("EVAL", "return tile38.call('set','fleet','inner','field','speed',80,'point',5,5)", "1", "script-key")
	got = collectNotes(sub, map[string]bool{"plain/inner": true, "noargs/inner": true, "clean/inner": true}, 8*time.Second, 300*time.Millisecond)
	if got["plain/inner"] && got["noargs/inner"] && !got["clean/inner"] {
		seen = append(seen, `SETCHAN clean WITHIN fleet WHEREEVAL "return KEYS == nil and EVAL_CMD == nil" 0 FENCE ...; EVAL "return tile38.call('set','fleet','inner','field','speed',80,'point',5,5)" 1 script-key -> no message on clean: the fence filter ran on the interpreter the EVAL was running on and saw its KEYS/EVAL_CMD`)
	}
	if len(seen) > 0 {
		c.NonTrivial("hookfilter-probe")
		what := "a hook's WHEREEVAL interpreter is handed back to the script pool while the hook keeps using it: " + strings.Join(seen, " | ") + " | (not run here because it kills the process: with such a channel defined, EVALNA \"local x=0 for i=1,30000000 do x=x+1 end return 1\" 0 on one connection and SET fleet t2 POINT 6 6 on another -> panic: index out of range [-1] in gopher-lua (*LState).Pop called from whereevalT.match / fenceMatch / queueHooks: two goroutines on one LState)"
		knownOrViolation(c, findingHookLua, what, map[string]any{"sub": "hookfilter", "observations": seen})
		if os.Getenv("VERIF_C18_FORCE_CONCURRENT") == "1" {
			// verification aid: show that the concurrent part kills the process (server-panic)
			c.Flush()
			runHookConcurrency(t, c, srv, ctl, sub)
		}
		return
	}
	// (3) only when the interpreter is evidently the hook's own: fence filters
	// must follow the field value while non-atomic scripts and WHEREEVAL
	// searches keep the pool busy (with the defect present this crashes the process)
	c.Label("hookfilter:own-interpreter")
	runHookConcurrency(t, c, srv, ctl, sub)
}

// runHookConcurrency: fence filters (channels and a live fence) must follow
// the field value while scripts and WHEREEVAL searches keep the pool busy.
// With a fence interpreter shared with the pool this kills the process
// (two goroutines on one LState) - the driver reports that as server-panic.
func runHookConcurrency(t testing.TB, c *ev.Collector, srv *t38.Srv, ctl, sub *t38.Conn) {
	// first without a live fence (which would take the interpreter on top of
	// the pool out of circulation), then with one
	runHookRound(t, c, srv, ctl, sub, "a", false)
	runHookRound(t, c, srv, ctl, sub, "b", true)
}

func runHookRound(t testing.TB, c *ev.Collector, srv *t38.Srv, ctl, sub *t38.Conn, round string, withLive bool) {
	var live *t38.Conn
	if withLive {
		live = srv.MustDial()
		defer live.Close()
	}
	if !withLive {
	} else if v, err := live.Do("WITHIN", "fleet", "WHEREEVAL", "return FIELDS.speed > tonumber(ARGV[1])", "1", "50", "WHEREEVAL", "return KEYS == nil", "0", "FENCE", "DETECT", "enter", "BOUNDS", "0", "0", "10", "10"); err != nil || !v.Equal(t38.Simple("OK")) {
		c.Violation("hook-filter-not-followed", fmt.Sprintf("live WITHIN ... WHEREEVAL ... FENCE answered %v (err %v)", v, err), map[string]any{"sub": "hookfilter"})
		return
	}
	var wg sync.WaitGroup
	stop := make(chan struct{})
	for i := 0; i < 6; i++ {
		wg.Add(1)
		go func(i int) {
			defer wg.Done()
			cn := srv.MustDial()
			defer cn.Close()
			for {
				select {
				case <-stop:
					return
				default:
				}
				if i%3 == 0 {
					cn.Do("EVALNA", "local x = 0 for i = 1, 3000000 do x = x + 1 end return KEYS[1]", "1", fmt.Sprintf("busy-%d", i), "50")
				} else if i%3 == 1 {
					cn.Do("EVAL", "local x = 0 for i = 1, 20000 do x = x + 1 end tile38.call('set','other','o','field','speed',99,'point',5,5) return KEYS[1]", "1", fmt.Sprintf("atomic-%d", i), "10")
				} else {
					cn.Do("SCAN", "fleet", "WHEREEVAL", "return FIELDS.speed > tonumber(ARGV[1])", "1", "70", "COUNT")
				}
			}
		}(i)
	}
	wantAll := map[string]bool{}
	var slow []string
	for i := 0; i < ev.Pick(40, 200); i++ {
		id := fmt.Sprintf("%s%d", round, i)
		speed := "20"
		if i%2 == 0 {
			speed = "90"
			wantAll["noargs/"+id], wantAll["withargs/"+id], wantAll["clean/"+id] = true, true, true
			if withLive {
				wantAll["live/"+id] = true
			}
		} else {
			slow = append(slow, id)
			wantAll["clean/"+id] = true
		}
		wantAll["plain/"+id] = true
		ctl.MustDo("SET", "fleet", id, "FIELD", "speed", speed, "POINT", "4", "4")
		c.Case()
		time.Sleep(4 * time.Millisecond) // spread the writes over many script runs
	}
	got := collectNotesLive(sub, live, wantAll, 20*time.Second, 500*time.Millisecond)
	close(stop)
	wg.Wait()
	var missing, extra []string
	for k := range wantAll {
		if !got[k] {
			missing = append(missing, k)
		}
	}
	for _, id := range slow {
		for _, h := range []string{"noargs", "withargs", "live"} {
			if got[h+"/"+id] {
				extra = append(extra, h+"/"+id)
			}
		}
	}
	if len(extra) > 0 {
		c.Violation("hook-filter-not-followed", fmt.Sprintf("fence notifications for objects the WHEREEVAL filter rejects (speed 20, filter speed > 50) while scripts were running: %v", extra), map[string]any{"sub": "hookfilter"})
	}
	if len(missing) > 0 {
		plainMissing := false
		for _, m := range missing {
			if strings.HasPrefix(m, "plain/") {
				plainMissing = true
			}
		}
		if plainMissing {
			c.Inconclusive("hookfilter: %d notifications (including unfiltered ones) not delivered within 20s", len(missing))
		} else {
			c.Violation("hook-filter-not-followed", fmt.Sprintf("fence notifications missing for objects the WHEREEVAL filter accepts while scripts were running (the unfiltered channel delivered all): %v", missing), map[string]any{"sub": "hookfilter"})
		}
	}
	c.NonTrivial("hookfilter-concurrent-" + round)
}

func TestC18_HookFilter(t *testing.T) {
	c := ev.New(prop, "hookfilter", "exploration")
	t.Cleanup(c.Flush)
	c.Rule("channels with WHEREEVAL filters (one using ARGV, one not, one that returns KEYS == nil and EVAL_CMD == nil) and an unfiltered control channel on one fence; (1) SET of a matching object must be announced on all; (2) the same SET made from inside an EVAL that was given a key must be announced on the KEYS == nil channel too; both are the deterministic probe of finding " + findingHookLua + ". (3) only if (1) and (2) hold (otherwise it would kill the process, which is how a regression of the concurrent part alone shows up: server-panic): a LIVE WITHIN ... WHEREEVAL (ARGV) WHEREEVAL (KEYS == nil) FENCE on its own connection in addition, then 40/200 SETs alternating speed 90 / 20 while 6 connections loop busy EVALNA scripts, EVAL scripts that write, and SCAN ... WHEREEVAL: exactly the objects the filter accepts are announced on the filtered channels and on the live connection (the unfiltered channel is the delivery control).")
	probeHookFilter(t, c)
}

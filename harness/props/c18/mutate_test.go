package c18

import (
	"fmt"
	"os"
	"path/filepath"
	"strings"
	"testing"
	"time"

	"github.com/tidwall/tile38/verif/harness/ev"
	"github.com/tidwall/tile38/verif/harness/t38"
	"pgregory.net/rapid"
)

// What can a script DO after it has modified its environment? Assigning an
// existing global or a library member is possible (known finding
// script-mutates-shared-lua-environment, which covers "a script can leave
// data or replaced functions behind"). Everything beyond that - picking
// another variant's permissions, making the server hang or crash, changing
// how tile38.call treats LATER scripts - is checked here with the same
// oracles as the unmutated sub-checks. Every case gets its own throw-away
// server because the mutations survive in the pooled interpreter.

const (
	findingEvalCmd = "evalro-escapes-via-eval-cmd"
	hangWait       = 10 * time.Second
)

// doBounded sends a command and waits at most d for the reply.
func doBounded(c *t38.Conn, d time.Duration, args ...string) (v t38.Value, hung bool, err error) {
	if err = c.Send(args...); err != nil {
		return
	}
	v, err = c.RecvTimeout(d)
	if err == t38.ErrHang {
		return v, true, nil
	}
	return
}

// alive: a write on a fresh connection is answered within the bound (a write
// needs the exclusive lock, so it also shows that no lock is stuck).
func alive(srv *t38.Srv) bool {
	c, err := srv.Dial()
	if err != nil {
		return false
	}
	defer c.Close()
	v, hung, err := doBounded(c, hangWait, "SET", "c18alive", "x", "STRING", "1")
	if hung || err != nil || v.IsErr() {
		return false
	}
	v, hung, err = doBounded(c, hangWait, "DEL", "c18alive", "x")
	return !hung && err == nil && !v.IsErr()
}

// ---- deterministic regression probe of evalro-escapes-via-eval-cmd ------------

var evalVariantNames = []string{"eval", "evalsha", "evalro", "evalrosha", "evalna", "evalnasha"}

type escState struct {
	srv *t38.Srv
	c   *t38.Conn
}

func newEscState(t testing.TB) *escState {
	s := &escState{srv: mustStart(t, t38.Opts{})}
	s.c = s.srv.MustDial()
	s.c.MustDo("SET", "k", "o", "POINT", "3", "4")
	return s
}

func (s *escState) close() { s.c.Close(); s.srv.StopAsync() }

func probeEvalCmd(t testing.TB, c *ev.Collector) {
	st := newEscState(t)
	defer func() { st.close() }()
	nReported := 0
	report := func(what string, cmd []string) {
		nReported++
		c.Violation(findingEvalCmd, what, map[string]any{"sub": "evalcmd", "cmd": cmd})
	}
	// run cmd; the object esc/<id> must (not) exist afterwards, aof_size must (not) move
	run := func(cmd []string, id string, wantWrite bool, what string) {
		if nReported >= 4 {
			return // the defect is back; every further probe costs a hang wait
		}
		c.Case()
		c.NonTrivial(what)
		before, _ := serverField(st.c, "aof_size")
		v, hung, err := doBounded(st.c, hangWait, cmd...)
		var ex t38.Value
		if !hung && err == nil {
			// on another connection, bounded: a leaked lock must not stall the harness
			oc := st.srv.MustDial()
			ex, hung, err = doBounded(oc, hangWait, "EXISTS", "esc", id)
			oc.Close()
		}
		if hung || err != nil {
			report(fmt.Sprintf("%s: %s made the server hang (no reply within %v, err %v)", what, t38.CmdString(cmd), hangWait, err), cmd)
			st.srv.StopAsync()
			st = newEscState(t)
			return
		}
		after, _ := serverField(st.c, "aof_size")
		wrote := ex.Int == 1
		if wrote != wantWrite || (before != after) != wantWrite {
			report(fmt.Sprintf("%s: %s answered %s; object written: %v, aof_size %s -> %s (expected written/logged: %v)", what, t38.CmdString(cmd), v, wrote, before, after, wantWrite), cmd)
		} else if wantWrite != !v.IsErr() && !(len(v.Arr) > 0) {
			report(fmt.Sprintf("%s: %s answered %s", what, t38.CmdString(cmd), v), cmd)
		}
		st.c.Do("DROP", "esc")
		if !alive(st.srv) {
			report(fmt.Sprintf("%s: after %s the server no longer answers a write within %v", what, t38.CmdString(cmd), hangWait), cmd)
			st.srv.StopAsync()
			st = newEscState(t)
		}
	}
	set := func(id, style string) string {
		return fmt.Sprintf("tile38.%s('set','esc','%s','point',1,2)", style, id)
	}
	for _, ro := range []string{"evalro", "evalrosha"} {
		for _, name := range evalVariantNames {
			for _, style := range []string{"call", "pcall"} {
				for _, nm := range []string{name, strings.ToUpper(name)} {
					script := fmt.Sprintf("EVAL_CMD = '%s' return %s", nm, set("r", style))
					first, err := prepScript(st.c, ro, script)
					if err != nil {
						t.Fatalf("SCRIPT LOAD: %v", err)
					}
					run(scriptCmd(ro, first, nil, nil), "r", false, fmt.Sprintf("%s with EVAL_CMD reassigned to %q, then tile38.%s('set')", ro, nm, style))
				}
			}
		}
		// through a captured reference and through _G
		script := "local c = tile38.pcall _G.EVAL_CMD = 'eval' _G['EVAL_CMD'] = 'eval' return c('set','esc','r','point',1,2)"
		first, _ := prepScript(st.c, ro, script)
		run(scriptCmd(ro, first, nil, nil), "r", false, ro+" with _G.EVAL_CMD reassigned, captured pcall")
	}
	// a WHEREEVAL filter runs under the shared lock and must never write
	for _, name := range evalVariantNames {
		script := fmt.Sprintf("EVAL_CMD = '%s' local r = %s return true", name, set("w", "pcall"))
		run([]string{"SCAN", "k", "WHEREEVAL", script, "0", "COUNT"}, "w", false, fmt.Sprintf("WHEREEVAL filter with EVAL_CMD assigned %q, then tile38.pcall('set')", name))
	}
	// EVAL / EVALNA stay what they are
	for _, rw := range []string{"eval", "evalsha", "evalna", "evalnasha"} {
		for _, name := range evalVariantNames {
			if name == rw {
				continue
			}
			script := fmt.Sprintf("EVAL_CMD = '%s' local w = %s local g = tile38.pcall('get','esc','e') return {w, g}", name, set("e", "pcall"))
			first, err := prepScript(st.c, rw, script)
			if err != nil {
				t.Fatalf("SCRIPT LOAD: %v", err)
			}
			run(scriptCmd(rw, first, nil, nil), "e", true, fmt.Sprintf("%s with EVAL_CMD reassigned to %q must still behave as %s", rw, name, rw))
		}
	}
	// the global is still there for reading
	if v, _ := st.c.Do("EVALRO", "return EVAL_CMD", "0"); v.Str != "evalro" {
		report("EVAL_CMD is no longer readable: "+v.String(), nil)
	}
}

func TestC18_EvalCmd(t *testing.T) {
	c := ev.New(prop, "evalcmd", "exploration")
	t.Cleanup(c.Flush)
	c.Rule("deterministic regression probe of the repaired finding " + findingEvalCmd + ": EVALRO/EVALROSHA scripts that assign EVAL_CMD (plain, upper case, through _G, with a captured pcall) to every variant name and then call/pcall SET: refused, nothing written, aof_size unchanged, server still answers a write within 10 s on a fresh connection; the same from a WHEREEVAL filter of a plain SCAN; EVAL/EVALSHA/EVALNA/EVALNASHA that assign EVAL_CMD to every other variant name then SET and GET: written and logged, no hang. Every probe is non-trivial.")
	probeEvalCmd(t, c)
}

// ---- generated environment mutations -------------------------------------------

var mutTargets = []string{
	"EVAL_CMD", "EVAL_CMD", "EVAL_CMD", "KEYS", "ARGV", "DEADLINE", "_G.EVAL_CMD", "_G['EVAL_CMD']",
	"tile38", "tile38.call", "tile38.pcall", "tile38.sha1hex", "tile38.error_reply", "tile38.status_reply", "tile38.distance_to",
	"tostring", "tonumber", "_VERSION", "_GOPHER_LUA_VERSION", "string", "table", "math", "os", "json",
	"string.rep", "string.format", "string.sub", "string.__index", "string.gsub", "string.len",
	"table.insert", "table.concat", "table.sort", "table.remove", "math.floor", "math.huge", "math.random",
	"json.encode", "json.decode", "os.clock", "os.difftime", "_G._G",
}

var mutValues = []string{
	"'eval'", "'evalsha'", "'evalro'", "'evalrosha'", "'evalna'", "'evalnasha'", "'EVAL'", "'EVALNA'", "'set'", "''",
	"nil", "false", "true", "0", "{}", "{'eval'}", "function(...) return ... end", "function() return 'eval' end",
	"c", "p", "tile38.call", "tile38.pcall", "tile38.sha1hex", "tostring", "tonumber", "KEYS", "ARGV", "_G", "tile38", "string", "string.rep",
	"table.insert", "json.decode", "math.huge", "EVAL_CMD", "ARGV[1]", "KEYS[1]",
}

// attempts through references captured BEFORE the mutation: they never raise
var capturedAttempts = []string{
	"p('set','mk','a','string','x')", "p('set','k1','a','point',9,9)", "p('fset','k1','a','f',77)", "p('del','k1','b')", "p('pdel','k1','*')",
	"p('drop','k2')", "p('expire','k1','a',100000)", "p('persist','k1','c')", "p('jset','k2','j','z',5)", "p('rename','k2','k9')",
	"p('renamenx','k2','k8')", "p('get','k1','a')", "p('scan','k1')", "p('jdel','k2','j','n')", "p('flushdb')", "p('sethook','h','http://127.0.0.1:1/x','nearby','k1','fence','point',1,2,3)",
	"p('follow','127.0.0.1',1)", "p('config','set','maxmemory',1)", "p('readonly','yes')", "p('eval','return 1',0)", "p('shutdown')",
}

// attempts through the (possibly replaced) names: may raise and end the script
var tableAttempts = []string{
	"tile38.pcall('set','mk','b','string','y')", "tile38.call('set','mk','c','string','z')", "tile38.call('del','k1','a')",
	"tile38.pcall('drop','k1')", "tile38.call('fset','k1','a','f',78)", "tile38.pcall('get','k1','a')",
}

var mutEscapes = []string{
	"io.open('$P','w')", "os.execute('touch $P')", "os.remove('$K')", "require('os')", "loadstring('return 1')()", "dofile('$K')", "debug.getregistry()", "getfenv(0)", "setmetatable(_G, nil)",
}

type mutCase struct {
	Variant  string   `json:"variant"`
	Muts     []string `json:"muts"`     // Lua statements
	Captured []string `json:"captured"` // attempts whose results are returned
	Table    []string `json:"table"`    // attempts that may raise
	Escape   string   `json:"escape,omitempty"`
	Timeout  bool     `json:"timeout,omitempty"`
}

func drawMutCase(rt *rapid.T) mutCase {
	m := mutCase{Variant: rapid.SampledFrom([]string{"evalro", "evalro", "evalrosha", "eval", "evalsha", "evalna", "evalnasha"}).Draw(rt, "variant")}
	for i, n := 0, rapid.IntRange(1, 3).Draw(rt, "nmut"); i < n; i++ {
		m.Muts = append(m.Muts, rapid.SampledFrom(mutTargets).Draw(rt, "target")+" = "+rapid.SampledFrom(mutValues).Draw(rt, "value"))
	}
	m.Captured = rapid.SliceOfN(rapid.SampledFrom(capturedAttempts), 1, 4).Draw(rt, "captured")
	if rapid.Bool().Draw(rt, "table?") {
		m.Table = rapid.SliceOfN(rapid.SampledFrom(tableAttempts), 1, 2).Draw(rt, "table")
	}
	if rapid.IntRange(0, 4).Draw(rt, "escape?") == 0 {
		m.Escape = rapid.SampledFrom(mutEscapes).Draw(rt, "escape")
	}
	m.Timeout = rapid.IntRange(0, 7).Draw(rt, "timeout?") == 0
	return m
}

func (m mutCase) script(keep, made string) string {
	var b strings.Builder
	b.WriteString("local c, p = tile38.call, tile38.pcall\nlocal r = {}\n")
	for _, mu := range m.Muts {
		b.WriteString(mu + "\n")
	}
	for _, a := range m.Captured {
		b.WriteString("r[#r+1] = " + a + "\n")
	}
	for _, a := range m.Table {
		b.WriteString("r[#r+1] = " + a + "\n")
	}
	if m.Escape != "" {
		e := strings.ReplaceAll(strings.ReplaceAll(m.Escape, "$K", keep), "$P", made)
		b.WriteString("r[#r+1] = " + e + "\n")
	}
	b.WriteString("r[#r+1] = 'end'\nreturn r")
	return b.String()
}

var mutSeed = [][]string{
	{"SET", "k1", "a", "FIELD", "f", "1", "POINT", "10", "20"},
	{"SET", "k1", "b", "STRING", "hello"},
	{"SET", "k1", "c", "EX", "500000", "POINT", "11", "21"},
	{"SET", "k2", "j", "STRING", `{"a":{"b":1},"n":2}`},
}

type snap struct {
	dump *t38.Dump
	aof  string
	ro   string
}

func takeSnap(c *t38.Conn) (snap, error) {
	d, err := t38.TakeDumpOn(c)
	if err != nil {
		return snap{}, err
	}
	a, err := serverField(c, "aof_size")
	ro, _ := serverField(c, "read_only")
	return snap{d, a, ro}, err
}

func (a snap) diff(b snap) string {
	var out []string
	if d := a.dump.Diff(b.dump); d != "" {
		out = append(out, "dataset: "+d)
	}
	if a.aof != b.aof {
		out = append(out, "aof_size "+a.aof+" -> "+b.aof)
	}
	if a.ro != b.ro {
		out = append(out, "read_only "+a.ro+" -> "+b.ro)
	}
	return strings.Join(out, "; ")
}

func runMutCase(t ev.Failer, c *ev.Collector, m mutCase) (labels []string) {
	t.Helper()
	srv, err := t38.Start(t38.Opts{})
	if err != nil {
		t.Fatalf("start: %v", err)
	}
	defer srv.StopAsync()
	a, b, cd := srv.MustDial(), srv.MustDial(), srv.MustDial()
	defer a.Close()
	defer b.Close()
	defer cd.Close()
	dir := t38.NewDir("c18-mut")
	defer os.RemoveAll(dir)
	keep, made := filepath.Join(dir, "keep"), filepath.Join(dir, "made")
	os.WriteFile(keep, []byte("sentinel"), 0o644)
	src := m.script(keep, made)
	rep := map[string]any{"case": m, "script": src}
	fail := func(key, what string) {
		c.Fail(t, key, fmt.Sprintf("%s %q: %s", strings.ToUpper(m.Variant), src, what), rep)
	}
	for _, cmd := range mutSeed {
		if v, err := a.Do(cmd...); err != nil || v.IsErr() {
			t.Fatalf("seed %v: %v %v", cmd, v, err)
		}
	}
	before, err := takeSnap(cd)
	if err != nil {
		t.Fatalf("dump: %v", err)
	}
	first, err := prepScript(a, m.Variant, src)
	if err != nil {
		t.Fatalf("SCRIPT LOAD: %v", err)
	}
	cmd := scriptCmd(m.Variant, first, []string{"key1"}, []string{"arg1"})
	if m.Timeout {
		cmd = append([]string{"TIMEOUT", "5"}, cmd...)
	}
	v, hung, err := doBounded(a, hangWait, cmd...)
	if hung || err != nil {
		fail("server-hang", fmt.Sprintf("no reply within %v (err %v)", hangWait, err))
	}
	if _, hung, err := doBounded(cd, hangWait, "EXISTS", "k1", "a"); hung || err != nil {
		fail("server-hang", fmt.Sprintf("after the script a read on another connection got no reply within %v", hangWait))
	}
	after, err := takeSnap(cd)
	if err != nil {
		fail("server-hang", "dump after the script: "+err.Error())
	}
	ro := baseMode(m.Variant) == "evalro"
	if d := before.diff(after); d != "" {
		labels = append(labels, "script-wrote")
		if ro {
			fail("evalro-modified-state:after-environment-mutation", fmt.Sprintf("answered %s and changed: %s", v, d))
		}
	}
	// the variant keeps its own permissions: through the captured references
	// every result is what the unmutated variant gives
	if v.Kind == '*' {
		for i, att := range m.Captured {
			if i >= len(v.Arr) {
				break
			}
			name := strings.Split(strings.TrimPrefix(att, "p('"), "'")[0]
			isWrite := map[string]bool{"set": true, "fset": true, "del": true, "pdel": true, "drop": true, "expire": true, "persist": true, "jset": true, "rename": true, "renamenx": true}[name]
			isRead := name == "get" || name == "scan"
			el := v.Arr[i]
			switch {
			case ro && isWrite && !(el.IsErr() && strings.Contains(el.Str, "read only")):
				fail("evalro-accepted-write:after-environment-mutation", fmt.Sprintf("result %d of %s is %s", i, att, el))
			case !ro && !m.Timeout && isWrite && el.IsErr() && (strings.Contains(el.Str, "read only") || strings.Contains(el.Str, "not supported")):
				fail("script-dispatch-changed-by-environment-mutation", fmt.Sprintf("%s no longer behaves as %s: result %d of %s is %s", m.Variant, m.Variant, i, att, el))
			case isRead && el.IsErr():
				fail("script-dispatch-changed-by-environment-mutation", fmt.Sprintf("result %d of %s is %s", i, att, el))
			case !isWrite && !isRead && !el.IsErr():
				fail("sandbox:system-command-reachable:after-environment-mutation", fmt.Sprintf("result %d of %s is %s", i, att, el))
			}
		}
	}
	if m.Escape != "" {
		if _, err := os.Stat(made); err == nil {
			fail("sandbox:file-system-reached", "created "+made)
		}
		if bts, err := os.ReadFile(keep); err != nil || string(bts) != "sentinel" {
			fail("sandbox:file-system-reached", "removed or changed "+keep)
		}
		if !v.IsErr() {
			fail("sandbox:escape-attempt-succeeded", fmt.Sprintf("%s did not raise: %s", m.Escape, v))
		}
	}
	// every write the script made is in the log: a server started on a copy shows the same dataset
	if !ro && before.diff(after) != "" {
		cp := t38.NewDir("c18-mutcp")
		if err := t38.CopyDir(srv.Dir, cp); err == nil {
			if rs, err := t38.Start(t38.Opts{Dir: cp}); err == nil {
				d2, derr := t38.TakeDump(rs.Addr)
				go func() { rs.Stop(); os.RemoveAll(cp) }()
				if derr == nil {
					if d := after.dump.Diff(d2); d != "" {
						fail("script-write-lost-on-restart", "A=after the script, B=restarted copy: "+d)
					}
				}
			}
		}
	}
	if !alive(srv) {
		fail("server-hang", "after the script the server no longer answers a write on a fresh connection")
	}
	if after, err = takeSnap(cd); err != nil {
		fail("server-hang", "dump: "+err.Error())
	}
	// a LATER script of another client: same permissions as ever, whatever the first one left behind
	later := [][]string{
		{"EVALRO", "return tile38.pcall('set','mk','late','string','l')", "0"},
		{"EVALRO", "return tile38.call('del','k1','a')", "0"},
		{"SCAN", "k1", "WHEREEVAL", "local r = tile38.pcall('set','mk','filt','string','f') return true", "0", "COUNT"},
		{"SCAN", "k1", "WHEREEVAL", "tile38.call('drop','k1') return true", "0", "COUNT"},
	}
	for _, lc := range later {
		lv, hung, err := doBounded(b, hangWait, lc...)
		if hung || err != nil {
			fail("server-hang", fmt.Sprintf("a later %s of another client got no reply within %v", t38.CmdString(lc), hangWait))
		}
		s2, err := takeSnap(cd)
		if err != nil {
			fail("server-hang", "dump: "+err.Error())
		}
		if d := after.diff(s2); d != "" {
			fail("later-script-permission-changed", fmt.Sprintf("after the mutating script, another client's %s answered %s and changed: %s", t38.CmdString(lc), lv, d))
		}
	}
	// a later EVAL still writes and logs (unless the first script broke the functions it needs: known finding)
	lv, hung, err := doBounded(b, hangWait, "EVAL", "return tile38.call('set','mk','rw','string','w')", "0")
	if hung || err != nil {
		fail("server-hang", "a later EVAL of another client got no reply")
	}
	if lv.Equal(t38.Simple("OK")) {
		if ex, _ := b.Do("EXISTS", "mk", "rw"); ex.Int != 1 {
			fail("later-script-permission-changed", "a later EVAL answered OK to SET but nothing was written")
		}
		labels = append(labels, "later-eval-works")
	} else {
		labels = append(labels, "later-eval-broken-by-known-finding")
	}
	if !alive(srv) {
		fail("server-hang", "the server no longer answers a write on a fresh connection")
	}
	return labels
}

func TestC18_Mutated(t *testing.T) {
	c := ev.New(prop, "mutated", "exploration")
	t.Cleanup(c.Flush)
	c.Rule("scripts that first MODIFY their environment: 1-3 assignments of an existing global or library member (EVAL_CMD - also through _G -, KEYS, ARGV, DEADLINE, tile38 and its six functions, tostring, tonumber, the library tables and members of string/table/math/json/os, _G._G) to a value drawn from the variant names in several spellings, nil/false/numbers/tables/closures, and other globals/functions (tile38.call, a captured call/pcall, KEYS, _G, ...); then 1-4 commands through call/pcall references captured BEFORE the mutation (all write commands, reads, JDEL, FLUSHDB, SETHOOK, FOLLOW, CONFIG SET, READONLY, EVAL, SHUTDOWN), optionally 1-2 through the possibly replaced names and an io/os/require/loadstring/debug escape attempt; run as EVALRO/EVALROSHA/EVAL/EVALSHA/EVALNA/EVALNASHA (1 in 8 under TIMEOUT) on a fresh seeded server. Oracles, the same as without mutation: reply within 10 s and the server answers a write on a fresh connection afterwards (else server-hang); EVALRO changes nothing (dataset, aof_size, read_only) and answers 'read only' to every write; the other variants keep their own permissions (writes not refused as read only / not supported, reads work); system commands stay refused; no file is created or touched; what the script wrote is reproduced by a server started on a copy of the data directory; afterwards ANOTHER client's EVALRO writes and WHEREEVAL-filter writes are refused and change nothing, and its EVAL either works and writes or fails only because the first script broke a function it needs (the known finding). Non-trivial: every case; distinct by variant, mutation targets and attempted commands.")
	if ev.KnownActive(findingPoison) {
		c.Note("the known finding %s covers only 'a script can leave data or replaced functions behind'; its consequences are checked here, nothing is excluded", findingPoison)
	}
	ev.Rapid("mutated", ev.Pick(250, 1200))
	rapid.Check(t, func(rt *rapid.T) {
		m := drawMutCase(rt)
		c.Case()
		labels := runMutCase(rt, c, m)
		for _, l := range labels {
			c.Label(l)
		}
		var tg []string
		for _, mu := range m.Muts {
			tg = append(tg, strings.SplitN(mu, " = ", 2)[0])
		}
		c.NonTrivial(m.Variant + "|" + strings.Join(tg, ",") + "|" + strings.Join(m.Captured, ","))
		c.Label("variant:" + m.Variant)
		if c.WantSample() {
			c.Sample(m)
		}
	})
}

// Go-side enumeration of a script interpreter built by the server's own pool
// constructor.
//
// The sandbox opens only tonumber/tostring of the base library, so a script
// has neither pairs nor next: a Lua walker cannot iterate a table, it can
// only probe names. To still decide "the global environment is EXACTLY the
// allow-list" this file reaches the unexported constructor
// (*Server).newPool / (*lStatePool).Get with go:linkname, obtains a
// *lua.LState exactly as cmdEvalUnified would, and walks it with the
// gopher-lua API (tables recursively, every metatable and its __index, the
// per-type metatables). The over-the-wire prober in sandbox_test.go then
// confirms the same set through EVAL.
package c18

import (
	"fmt"
	"sort"
	"unsafe"

	"github.com/tidwall/tile38/internal/server"
	lua "github.com/yuin/gopher-lua"
)

//go:linkname serverNewPool github.com/tidwall/tile38/internal/server.(*Server).newPool
func serverNewPool(s *server.Server) unsafe.Pointer

//go:linkname poolGet github.com/tidwall/tile38/internal/server.(*lStatePool).Get
func poolGet(pl unsafe.Pointer) (*lua.LState, error)

//go:linkname poolPut github.com/tidwall/tile38/internal/server.(*lStatePool).Put
func poolPut(pl unsafe.Pointer, L *lua.LState)

// reach is one reachable name: a dotted path and the kind of its value.
type reach struct {
	Path string `json:"path"`
	Kind string `json:"kind"`
}

func lkind(v lua.LValue) string {
	switch v.Type() {
	case lua.LTNil:
		return "nil"
	case lua.LTBool:
		return "boolean"
	case lua.LTNumber:
		return "number"
	case lua.LTString:
		return "string"
	case lua.LTFunction:
		return "function"
	case lua.LTTable:
		return "table"
	case lua.LTUserData:
		return "userdata"
	case lua.LTThread:
		return "thread"
	case lua.LTChannel:
		return "channel"
	}
	return "?"
}

// goWalk enumerates everything reachable from the globals of a fresh pooled
// interpreter. Paths: "a.b" for table members, "a<mt>" for a metatable,
// "<string-mt>" etc. for per-type metatables. A table reached a second time
// is reported as "=<first path>" and not descended into again.
func goWalk() ([]reach, error) {
	all, err := goWalkPool(1)
	if err != nil {
		return nil, err
	}
	return all[0], nil
}

// goWalkPool takes n interpreters out of one pool AT THE SAME TIME (the pool
// pre-builds five; the rest are created on demand by Get) and walks each.
func goWalkPool(n int) (all [][]reach, err error) {
	defer func() {
		if r := recover(); r != nil {
			err = fmt.Errorf("walker panicked: %v", r)
		}
	}()
	pl := serverNewPool(&server.Server{})
	var held []*lua.LState
	defer func() {
		for _, L := range held {
			poolPut(pl, L)
		}
	}()
	for i := 0; i < n; i++ {
		L, e := poolGet(pl)
		if e != nil {
			return nil, e
		}
		held = append(held, L)
	}
	for _, L := range held {
		all = append(all, walkState(L))
	}
	return all, nil
}

func walkState(L *lua.LState) (out []reach) {
	seen := map[*lua.LTable]string{}
	var walk func(path string, v lua.LValue)
	keyStr := func(k lua.LValue) string {
		if k.Type() == lua.LTString {
			return k.String()
		}
		return "[" + lkind(k) + ":" + k.String() + "]"
	}
	walk = func(path string, v lua.LValue) {
		switch x := v.(type) {
		case *lua.LTable:
			if first, ok := seen[x]; ok {
				out = append(out, reach{path, "=" + first})
				return
			}
			seen[x] = path
			out = append(out, reach{path, "table"})
			type kv struct {
				k string
				v lua.LValue
			}
			var kvs []kv
			x.ForEach(func(k, v lua.LValue) { kvs = append(kvs, kv{keyStr(k), v}) })
			sort.Slice(kvs, func(i, j int) bool { return kvs[i].k < kvs[j].k })
			for _, e := range kvs {
				walk(path+"."+e.k, e.v)
			}
			if x.Metatable != nil && x.Metatable != lua.LNil {
				walk(path+"<mt>", x.Metatable)
			}
		case *lua.LUserData:
			out = append(out, reach{path, "userdata"})
			if x.Metatable != nil && x.Metatable != lua.LNil {
				walk(path+"<mt>", x.Metatable)
			}
		default:
			out = append(out, reach{path, lkind(v)})
		}
	}
	g := L.Get(lua.GlobalsIndex)
	walk("_G", g)
	// per-type metatables (only strings have one in a stock interpreter)
	for _, tv := range []struct {
		name string
		v    lua.LValue
	}{
		{"<string-mt>", lua.LString("")},
		{"<number-mt>", lua.LNumber(0)},
		{"<boolean-mt>", lua.LTrue},
		{"<nil-mt>", lua.LNil},
		{"<function-mt>", L.NewFunction(func(*lua.LState) int { return 0 })},
	} {
		mt := L.GetMetatable(tv.v)
		if mt != nil && mt != lua.LNil {
			walk(tv.name, mt)
		}
	}
	sort.Slice(out, func(i, j int) bool { return out[i].Path < out[j].Path })
	return out
}

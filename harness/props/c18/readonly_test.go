package c18

import (
	"fmt"
	"go/ast"
	"go/parser"
	"go/token"
	"os"
	"sort"
	"strconv"
	"strings"
	"testing"

	"github.com/tidwall/tile38/verif/harness/ev"
	"github.com/tidwall/tile38/verif/harness/gen"
	"github.com/tidwall/tile38/verif/harness/t38"
	"pgregory.net/rapid"
)

const serverGo = "/repo/internal/server/server.go"

// commandTable returns the case labels of `func (s *Server) command`, read
// from the source at run time.
func commandTable() ([]string, error) {
	fset := token.NewFileSet()
	f, err := parser.ParseFile(fset, serverGo, nil, 0)
	if err != nil {
		return nil, err
	}
	var labels []string
	for _, d := range f.Decls {
		fd, ok := d.(*ast.FuncDecl)
		if !ok || fd.Name.Name != "command" || fd.Recv == nil || len(fd.Recv.List) != 1 {
			continue
		}
		if st, ok := fd.Recv.List[0].Type.(*ast.StarExpr); !ok || fmt.Sprint(st.X) != "Server" {
			continue
		}
		for _, stmt := range fd.Body.List {
			sw, ok := stmt.(*ast.SwitchStmt)
			if !ok {
				continue
			}
			for _, cc := range sw.Body.List {
				for _, e := range cc.(*ast.CaseClause).List {
					if bl, ok := e.(*ast.BasicLit); ok && bl.Kind == token.STRING {
						s, _ := strconv.Unquote(bl.Value)
						labels = append(labels, s)
					}
				}
			}
		}
	}
	sort.Strings(labels)
	return labels, nil
}

// ---- seeded state ------------------------------------------------------------

var roSeed = [][]string{
	{"SET", "k1", "a", "FIELD", "f", "1", "POINT", "10", "20"},
	{"SET", "k1", "b", "STRING", "hello"},
	{"SET", "k1", "c", "EX", "500000", "POINT", "11", "21"},
	{"SET", "k1", "d", "OBJECT", `{"type":"Feature","geometry":{"type":"Point","coordinates":[1,2]},"properties":{"tag":"x"}}`},
	{"SET", "k2", "a", "FIELD", "g", "2.5", "BOUNDS", "0", "0", "5", "5"},
	{"SET", "k2", "j", "STRING", `{"a":{"b":1},"n":2}`},
	{"SETCHAN", "ch1", "NEARBY", "k1", "FENCE", "POINT", "10", "20", "1000"},
}

// what the seed holds: the targets an effective write is aimed at
var (
	roPairs    = [][2]string{{"k1", "a"}, {"k1", "b"}, {"k1", "c"}, {"k1", "d"}, {"k2", "a"}, {"k2", "j"}}
	roLiveKeys = []string{"k1", "k2"}
	roFreeKeys = []string{"k3", "nokey", "fresh"}
	// objects holding a JSON document, with paths that exist in it
	roDocs = [][3]string{{"k2", "j", "a.b"}, {"k2", "j", "n"}, {"k2", "j", "a"}, {"k1", "d", "properties.tag"}}
)

// dataWrites are the labels that change the dataset when sent directly; for
// them the case carries an enabling prelude / targeted arguments, and the
// direct twin measures whether the drawn command really was effective.
var dataWrites = map[string]bool{"set": true, "fset": true, "del": true, "pdel": true, "drop": true, "flushdb": true, "rename": true, "renamenx": true,
	"expire": true, "persist": true, "jset": true, "jdel": true, "setchan": true, "delchan": true, "pdelchan": true, "sethook": true, "delhook": true, "pdelhook": true}

var (
	roKeys   = []string{"k1", "k2", "k3", "nokey"}
	roIDs    = []string{"a", "b", "c", "d", "j", "zz"}
	roFields = []string{"f", "g", "h"}
)

func sf(rt *rapid.T, label string, xs ...string) string {
	return rapid.SampledFrom(xs).Draw(rt, label)
}

// roArgs draws arguments for one command label. Writes get arguments in the
// documented grammar aimed at the seeded objects so that they really change
// something when allowed to run; everything else gets a mix of plausible and
// arbitrary tokens.
func roArgs(rt *rapid.T, label string) (call []string, prelude [][]string) {
	words := strings.Fields(label)
	// targeted: aim at something the seed (or the prelude) makes exist, so
	// that the command is effective when it is allowed to run
	targeted := dataWrites[label] && rapid.IntRange(0, 4).Draw(rt, "targeted") > 0
	pair := func() (string, string) {
		p := rapid.SampledFrom(roPairs).Draw(rt, "pair")
		return p[0], p[1]
	}
	k := func() string { return sf(rt, "key", roKeys...) }
	id := func() string { return sf(rt, "id", roIDs...) }
	fn := func() string { return sf(rt, "field", roFields...) }
	obj := func() []string {
		for {
			o := gen.ObjectSpec(rt)
			if o[len(o)-1] != "" {
				return o
			}
		}
	}
	area := func() []string {
		switch rapid.IntRange(0, 2).Draw(rt, "area") {
		case 0:
			return []string{"BOUNDS", "-90", "-180", "90", "180"}
		case 1:
			return []string{"CIRCLE", "10", "20", "100000"}
		}
		return []string{"GET", "k2", "a"}
	}
	var a []string
	switch label {
	case "set":
		a = []string{k(), id()}
		if rapid.Bool().Draw(rt, "withfield") {
			a = append(a, "FIELD", fn(), gen.FieldValue(rt))
		}
		if rapid.IntRange(0, 3).Draw(rt, "ex") == 0 {
			a = append(a, "EX", gen.EX(rt))
		}
		a = append(a, obj()...)
	case "fset":
		a = []string{k(), id(), fn(), strconv.Itoa(rapid.IntRange(3, 99).Draw(rt, "fv"))}
		if targeted {
			a[0], a[1] = pair()
		}
	case "del":
		a = []string{k(), id()}
		if targeted {
			a[0], a[1] = pair()
		}
	case "pdel":
		a = []string{k(), sf(rt, "pat", "*", "a*", "?", "zz*")}
		if targeted {
			a = []string{sf(rt, "livekey", roLiveKeys...), sf(rt, "pat", "*", "a*", "?")}
		}
	case "drop", "type", "bounds":
		a = []string{k()}
		if targeted {
			a[0] = sf(rt, "livekey", roLiveKeys...)
		}
	case "flushdb", "hooks", "chans":
		if label != "flushdb" {
			a = []string{"*"}
		}
	case "rename", "renamenx":
		a = []string{k(), k()}
		if targeted {
			a[0] = sf(rt, "livekey", roLiveKeys...)
			if label == "renamenx" || rapid.Bool().Draw(rt, "tofree") {
				a[1] = sf(rt, "freekey", roFreeKeys...)
			}
		}
	case "expire":
		a = []string{k(), id(), gen.EX(rt)}
		if targeted {
			a[0], a[1] = pair()
		}
	case "persist", "ttl", "exists":
		a = []string{k(), id()}
		if targeted {
			// PERSIST needs a deadline: k1/c has one, any other object gets one from the prelude
			a[0], a[1] = pair()
			if !(a[0] == "k1" && a[1] == "c") {
				prelude = append(prelude, []string{"EXPIRE", a[0], a[1], gen.EX(rt)})
			}
		}
	case "jset":
		a = []string{k(), id(), sf(rt, "path", "a.b", "n", "properties.tag", "x"), sf(rt, "jval", "7", "hello", "true")}
		if targeted {
			d := rapid.SampledFrom(roDocs).Draw(rt, "doc")
			a[0], a[1] = d[0], d[1]
			if rapid.Bool().Draw(rt, "docpath") {
				a[2] = d[2]
			}
			if d[1] == "d" && !strings.HasPrefix(a[2], "properties.") {
				a[2] = "properties." + a[2]
			}
		}
	case "jdel", "jget":
		a = []string{k(), id(), sf(rt, "path", "a.b", "n", "properties.tag", "x")}
		if targeted {
			// JDEL needs a document that contains the path: either one of the
			// seeded paths, or a path the prelude puts there first
			d := rapid.SampledFrom(roDocs).Draw(rt, "doc")
			a = []string{d[0], d[1], d[2]}
			if rapid.Bool().Draw(rt, "freshpath") {
				np := sf(rt, "newpath", "extra", "deep.er", "zz9")
				if d[1] == "d" {
					np = "properties." + np
				}
				prelude = append(prelude, []string{"JSET", d[0], d[1], np, sf(rt, "jval", "7", "hello", "true")})
				a[2] = np
			}
		}
	case "get":
		a = []string{k(), id()}
		if rapid.Bool().Draw(rt, "wf") {
			a = append(a, "WITHFIELDS")
		}
	case "fget", "fexists":
		a = []string{k(), id(), fn()}
	case "setchan", "sethook":
		a = []string{sf(rt, "hook", "ch1", "ch2")}
		if label == "sethook" {
			a = append(a, "http://127.0.0.1:1/x")
		}
		a = append(a, "NEARBY", k(), "FENCE", "POINT", "1", "2", "500")
	case "delchan", "delhook":
		a = []string{sf(rt, "hook", "ch1", "ch2", "hk1")}
		if targeted {
			a[0] = map[string]string{"delchan": "ch1", "delhook": "hk9"}[label]
			// the seed holds channel ch1 but no hook (hooks make every reseed slow): hooks always come from the prelude
			if label == "delhook" || rapid.Bool().Draw(rt, "freshhook") {
				// a second one made by the prelude
				a[0] = map[string]string{"delchan": "ch9", "delhook": "hk9"}[label]
				if label == "delchan" {
					prelude = append(prelude, []string{"SETCHAN", "ch9", "WITHIN", "k2", "FENCE", "BOUNDS", "0", "0", "1", "1"})
				} else {
					prelude = append(prelude, []string{"SETHOOK", "hk9", "http://127.0.0.1:1/c18b", "WITHIN", "k3", "FENCE", "BOUNDS", "80", "170", "81", "171"})
				}
			}
		}
	case "pdelchan", "pdelhook":
		a = []string{sf(rt, "hookpat", "*", "ch*", "hk*")}
		if targeted {
			a[0] = sf(rt, "hookpat", "*", map[string]string{"pdelchan": "ch*", "pdelhook": "hk*"}[label])
			if label == "pdelhook" {
				prelude = append(prelude, []string{"SETHOOK", "hk9", "http://127.0.0.1:1/c18b", "WITHIN", "k3", "FENCE", "BOUNDS", "80", "170", "81", "171"})
			}
		}
	case "scan", "search":
		a = []string{k()}
		if rapid.Bool().Draw(rt, "lim") {
			a = append(a, "LIMIT", "2")
		}
	case "nearby":
		a = []string{k(), "POINT", "10", "20", "100000"}
	case "within", "intersects":
		a = append([]string{k()}, area()...)
	case "keys":
		a = []string{sf(rt, "pat", "*", "k*")}
	case "test":
		a = []string{"POINT", "1", "2", "INTERSECTS", "BOUNDS", "0", "0", "5", "5"}
	case "config get":
		a = []string{sf(rt, "cfg", "requirepass", "maxmemory", "*")}
	case "config set":
		a = []string{sf(rt, "cfg", "maxmemory", "keepalive"), sf(rt, "cfgv", "0", "300")}
	case "script load":
		a = []string{"return 1"}
	case "script exists":
		a = []string{"0000000000000000000000000000000000000000"}
	case "eval", "evalro", "evalna":
		a = []string{sf(rt, "inner", "return 1", "return tile38.call('SET','k1','a','STRING','nested')"), "0"}
	case "evalsha", "evalrosha", "evalnasha":
		a = []string{"0000000000000000000000000000000000000000", "0"}
	case "follow", "slaveof":
		a = []string{sf(rt, "fh", "no", "127.0.0.1"), sf(rt, "fp", "one", "1")}
	case "readonly":
		a = []string{sf(rt, "ro", "yes", "no")}
	case "output":
		a = []string{sf(rt, "out", "json", "resp")}
	case "sleep":
		a = []string{"0.001"}
	case "publish":
		a = []string{"ch1", "msg"}
	case "subscribe", "psubscribe":
		a = []string{"ch*"}
	case "client":
		a = []string{sf(rt, "cl", "list", "getname")}
	case "aof":
		a = []string{"0"}
	case "replconf":
		a = []string{"listening-port", "1"}
	case "massinsert":
		a = []string{"1", "1"}
	default:
		// server, info, stats, healthz, role, gc, aofshrink, aofmd5, monitor, shutdown, config, script, config rewrite, script flush ...
		if label == "stats" {
			a = []string{k()}
		} else if label == "aofmd5" {
			a = []string{"0", "0"}
		}
	}
	// sometimes replace the grammar-directed arguments by arbitrary tokens
	if !targeted && rapid.IntRange(0, 5).Draw(rt, "arbitrary") == 0 {
		pool := append(append(append([]string{"*", "0", "1", "-1", "POINT", "OBJECT", "STRING", "x", "LIMIT", "{}"}, roKeys...), roIDs...), roFields...)
		a = rapid.SliceOfN(rapid.SampledFrom(pool), 0, 6).Draw(rt, "tokens")
	}
	// command name in a drawn letter case
	name := make([]string, len(words))
	for i, w := range words {
		switch rapid.IntRange(0, 2).Draw(rt, "case") {
		case 0:
			name[i] = strings.ToUpper(w)
		case 1:
			name[i] = w
		default:
			name[i] = strings.ToUpper(w[:1]) + w[1:]
		}
	}
	full := append(name, a...)
	if !targeted && rapid.IntRange(0, 9).Draw(rt, "timeout") == 0 {
		full = append([]string{"TIMEOUT", sf(rt, "tmo", "5", "0.5")}, full...)
	}
	return full, prelude
}

type roCase struct {
	Label   string     `json:"label"`
	Prelude [][]string `json:"prelude,omitempty"` // sent directly before the snapshot: makes the call effective
	Call    []string   `json:"call"`
	Variant string     `json:"variant"` // evalro | evalrosha
	Style   string     `json:"style"`   // call | pcall
	Args    string     `json:"args"`    // argv | literal
}

func (rc roCase) render() (src string, argv []string) {
	var parts []string
	for _, a := range rc.Call {
		if rc.Args == "argv" {
			argv = append(argv, a)
			parts = append(parts, fmt.Sprintf("ARGV[%d]", len(argv)))
		} else {
			parts = append(parts, luaQuote(a))
		}
	}
	return fmt.Sprintf("return tile38.%s(%s)", rc.Style, strings.Join(parts, ",")), argv
}

type roEnv struct {
	srv      *t38.Srv
	c, cDump *t38.Conn
	clean    bool
	seedDump *t38.Dump
}

func newROEnv(t testing.TB) *roEnv {
	e := &roEnv{srv: mustStart(t, t38.Opts{})}
	e.c, e.cDump = e.srv.MustDial(), e.srv.MustDial()
	return e
}

func (e *roEnv) close() { e.c.Close(); e.cDump.Close(); e.srv.StopAsync() }

func (e *roEnv) reseed() error {
	for _, cmd := range [][]string{{"FLUSHDB"}, {"PDELCHAN", "*"}, {"PDELHOOK", "*"}} {
		if v, err := e.c.Do(cmd...); err != nil || v.IsErr() {
			return fmt.Errorf("%v: %v %v", cmd, v, err)
		}
	}
	for _, cmd := range roSeed {
		if v, err := e.c.Do(cmd...); err != nil || v.IsErr() {
			return fmt.Errorf("%v: %v %v", cmd, v, err)
		}
	}
	d, err := t38.TakeDumpOn(e.cDump)
	if err != nil {
		return err
	}
	e.seedDump = d
	e.clean = true
	return nil
}

type roState struct {
	dump    *t38.Dump
	aofSize string
	aofFile int64
	ro      string
	files   string // names in the data directory
}

// systemCommands reach the process, the file system or the network when sent
// directly; tile38.call must refuse them in every variant (scripts.go
// luaTile38Call deny list + the default branches of the per-variant tables).
var systemCommands = map[string]bool{"follow": true, "slaveof": true, "replconf": true, "readonly": true, "config": true, "config get": true, "config set": true,
	"config rewrite": true, "output": true, "client": true, "shutdown": true, "massinsert": true, "sleep": true, "aofshrink": true, "aof": true, "aofmd5": true, "gc": true,
	"sethook": true, "setchan": true, "delhook": true, "delchan": true, "pdelhook": true, "pdelchan": true, "subscribe": true, "psubscribe": true, "publish": true,
	"monitor": true, "script": true, "script load": true, "script exists": true, "script flush": true, "eval": true, "evalsha": true, "evalro": true, "evalrosha": true,
	"evalna": true, "evalnasha": true}

func (e *roEnv) state() (roState, error) {
	d, err := t38.TakeDumpOn(e.cDump)
	if err != nil {
		return roState{}, err
	}
	sz, err := serverField(e.cDump, "aof_size")
	if err != nil {
		return roState{}, err
	}
	ro, _ := serverField(e.cDump, "read_only")
	var names []string
	if ents, err := os.ReadDir(e.srv.Dir); err == nil {
		for _, en := range ents {
			names = append(names, en.Name())
		}
	}
	return roState{d, sz, fileSize(e.srv.AOFPath()), ro, strings.Join(names, " ")}, nil
}

func (a roState) diff(b roState) string {
	var out []string
	if d := a.dump.Diff(b.dump); d != "" {
		out = append(out, "dataset: "+d)
	}
	if a.aofSize != b.aofSize {
		out = append(out, fmt.Sprintf("aof_size %s -> %s", a.aofSize, b.aofSize))
	}
	if a.aofFile != b.aofFile {
		out = append(out, fmt.Sprintf("log file size %d -> %d", a.aofFile, b.aofFile))
	}
	if a.ro != b.ro {
		out = append(out, fmt.Sprintf("read_only %s -> %s", a.ro, b.ro))
	}
	if a.files != b.files {
		out = append(out, fmt.Sprintf("data directory [%s] -> [%s]", a.files, b.files))
	}
	return strings.Join(out, "; ")
}

func (e *roEnv) runCase(t ev.Failer, c *ev.Collector, rc roCase) (labels []string, ntKey string, effective bool) {
	t.Helper()
	fail := func(key, what string) { c.Fail(t, key, what, rc) }
	if !e.clean {
		if err := e.reseed(); err != nil {
			fail("harness:setup", err.Error())
		}
	}
	// enabling prelude: make what the drawn command addresses exist
	for _, pc := range rc.Prelude {
		e.clean = false
		if v, err := e.c.Do(pc...); err != nil || v.IsErr() {
			fail("harness:setup", fmt.Sprintf("prelude %q: %v %v", pc, v, err))
		}
	}
	before, err := e.state()
	if err != nil {
		fail("harness:dump", err.Error())
	}
	src, argv := rc.render()
	v1, err := runScript(e.c, rc.Variant, src, nil, argv)
	if err != nil {
		fail("script-transport", err.Error())
	}
	after1, err := e.state()
	if err != nil {
		fail("harness:dump", err.Error())
	}
	cmdName := strings.ReplaceAll(rc.Label, " ", "-")
	if d := before.diff(after1); d != "" {
		e.clean = false
		fail("evalro-modified-state:"+cmdName, fmt.Sprintf("%s %q with %q answered %s and changed: %s", strings.ToUpper(rc.Variant), src, argv, v1, d))
	}
	// the same call with write permission
	rw := "eval"
	if isSha(rc.Variant) {
		rw = "evalsha"
	}
	v2, err := runScript(e.c, rw, src, nil, argv)
	if err != nil {
		fail("script-transport", err.Error())
	}
	after2, err := e.state()
	if err != nil {
		fail("harness:dump", err.Error())
	}
	changed := after1.diff(after2)
	if systemCommands[rc.Label] && (!v2.IsErr() || changed != "") {
		e.clean = false
		fail("sandbox:system-command-reachable:"+cmdName, fmt.Sprintf("%s %q with %q answered %s (state change: %q): a command that reaches the process, the file system or the network is available to scripts", strings.ToUpper(rw), src, argv, v2, changed))
	}
	if changed != "" {
		e.clean = false
		effective = true
		labels = append(labels, "eval-changes-state:"+cmdName)
		if !v1.IsErr() {
			fail("evalro-accepted-write:"+cmdName, fmt.Sprintf("%s %q with %q answered %s although the same call under %s changes state (%s)", strings.ToUpper(rc.Variant), src, argv, v1, strings.ToUpper(rw), changed))
		}
		opt := ""
		for _, a := range rc.Call {
			switch strings.ToUpper(a) {
			case "FIELD", "EX", "NX", "XX", "POINT", "BOUNDS", "HASH", "OBJECT", "STRING", "TIMEOUT":
				opt += strings.ToUpper(a) + "+"
			}
		}
		ntKey = fmt.Sprintf("%s|%s|%s|%s|%s", rc.Label, opt, rc.Variant, rc.Style, rc.Args)
	} else {
		labels = append(labels, "eval-leaves-state")
	}
	if v1.IsErr() {
		labels = append(labels, "evalro-refused")
	} else {
		labels = append(labels, "evalro-answered")
	}
	// direct twin: some writes (JDEL, the hook/channel family, FLUSHDB) are
	// not available to EVAL at all, so the EVAL twin cannot tell whether the
	// drawn arguments were effective; sending the command itself can
	if changed == "" && dataWrites[rc.Label] {
		v3, err := e.c.Do(rc.Call...)
		if err != nil {
			fail("script-transport", err.Error())
		}
		after3, err := e.state()
		if err != nil {
			fail("harness:dump", err.Error())
		}
		if d := after2.diff(after3); d != "" {
			e.clean = false
			effective = true
			labels = append(labels, "direct-changes-state:"+cmdName)
			if !v1.IsErr() {
				fail("evalro-accepted-write:"+cmdName, fmt.Sprintf("%s %q with %q answered %s although the command changes state when sent directly (%s, reply %s)", strings.ToUpper(rc.Variant), src, argv, v1, d, v3))
			}
			if ntKey == "" {
				ntKey = fmt.Sprintf("%s|direct|%s|%s|%s", rc.Label, rc.Variant, rc.Style, rc.Args)
			}
		}
	}
	if effective {
		labels = append(labels, "effective:"+cmdName)
	}
	return labels, ntKey, effective
}

func TestC18_ReadOnly(t *testing.T) {
	c := ev.New(prop, "readonly", "exploration")
	t.Cleanup(c.Flush)
	c.Rule("for EVERY case label of func (s *Server) command (parsed from internal/server/server.go at run time; two-word labels are sent as two arguments) and generated arguments (for the 18 data-writing labels 4 in 5 cases are targeted: aimed at an object/key/document path/hook/channel the seed holds, or that an ENABLING PRELUDE drawn with the case creates first - EXPIRE before PERSIST, JSET of the path before JDEL, SETCHAN/SETHOOK before DELCHAN/DELHOOK, a free target for RENAMENX; otherwise documented grammar over a small alphabet, plausible arguments for reads, 1 in 6 arbitrary token lists, 1 in 10 wrapped in TIMEOUT; drawn letter case): `return tile38.call|pcall(...)` under EVALRO/EVALROSHA must leave dataset (objects, fields, TTL flags, hooks, channels), aof_size, log file size and read_only unchanged; then the same script under EVAL/EVALSHA: whenever that changes any of them, the EVALRO run must have answered an error; for the system commands (FOLLOW, CONFIG *, SHUTDOWN, SETHOOK/SETCHAN family, AOF*, OUTPUT, CLIENT, SCRIPT *, EVAL*, pub/sub, ...) the EVAL run itself must be refused and change nothing, including the list of files in the data directory. For the data-writing labels whose EVAL twin left the state alone the command is finally sent directly (JDEL, FLUSHDB and the hook/channel family are not available to EVAL, so only the direct twin can show that the drawn arguments were effective); EVALRO must have refused whatever is effective there too. Per label the number of effective cases is reported (labels effective:<cmd>, notes); a data-writing label that is never effective in a run is flagged as a generator defect. Non-trivial: the EVAL or direct twin changed state (so the read-only refusal was load-bearing); distinct by command, option set, variant, call style.")
	table, err := commandTable()
	if err != nil || len(table) < 60 {
		t.Fatalf("command table: %d labels, err %v", len(table), err)
	}
	have := map[string]bool{}
	for _, l := range table {
		have[l] = true
	}
	for _, must := range []string{"set", "fset", "del", "pdel", "drop", "flushdb", "rename", "renamenx", "expire", "persist", "jset", "jdel", "eval", "evalro", "get", "scan"} {
		if !have[must] {
			t.Fatalf("command table misses %q: %v", must, table)
		}
	}
	c.Note("command table: %d labels: %s", len(table), strings.Join(table, " "))
	c.Exhaustive(true)
	c.States(len(table), 0)
	e := newROEnv(t)
	defer e.close()
	var neverEffective []string
	for _, label := range table {
		label := label
		per := ev.Pick(25, 40)
		if dataWrites[label] {
			per = ev.Pick(100, 300)
		}
		nCases, nEffective := 0, 0
		ev.Rapid("readonly/"+label, per)
		rapid.Check(t, func(rt *rapid.T) {
			call, prelude := roArgs(rt, label)
			rc := roCase{
				Label:   label,
				Prelude: prelude,
				Call:    call,
				Variant: sf(rt, "variant", "evalro", "evalro", "evalrosha"),
				Style:   sf(rt, "style", "call", "pcall"),
				Args:    sf(rt, "args", "argv", "literal"),
			}
			for _, a := range rc.Call {
				if a == "" {
					rt.Skip("empty argument cannot be passed to tile38.call")
				}
			}
			c.Case()
			c.Label("cmd:" + label)
			labels, nt, eff := e.runCase(rt, c, rc)
			nCases++
			if eff {
				nEffective++
			}
			for _, l := range labels {
				c.Label(l)
			}
			if nt != "" {
				c.NonTrivial(nt)
				if c.WantSample() {
					c.Sample(rc)
				}
			}
		})
		if dataWrites[label] {
			c.Note("effective %s: %d of %d cases changed the dataset under EVAL or when sent directly", label, nEffective, nCases)
			if nEffective == 0 {
				neverEffective = append(neverEffective, label)
			}
		}
	}
	if len(neverEffective) > 0 {
		// a generator defect, not a property violation: the implication
		// "effective write => EVALRO refuses it" was never exercised
		c.Inconclusive("readonly: GENERATOR DEFECT - the write commands %v were never effective in this run, the read-only oracle was vacuous for them", neverEffective)
		t.Errorf("generator defect: %v never effective", neverEffective)
	}
}

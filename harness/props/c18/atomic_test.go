package c18

import (
	"fmt"
	"strconv"
	"strings"
	"sync"
	"sync/atomic"
	"testing"
	"time"

	"github.com/tidwall/tile38/verif/harness/ev"
	"github.com/tidwall/tile38/verif/harness/t38"
	"pgregory.net/rapid"
)

// ---- plan ------------------------------------------------------------------

type atomOp struct {
	Kind string `json:"kind"`        // r1, r2 (GET k id1 / id2), w (SET m a|b <token>), busy
	N    int    `json:"n,omitempty"` // busy-loop iterations
}

type atomPlan struct {
	Mode string   `json:"mode"` // eval evalsha evalro evalrosha evalna evalnasha
	Ops  []atomOp `json:"ops"`
	// Mut: a statement that reassigns one of the per-call globals, executed
	// before op number MutAt. The script must stay what it is: same
	// permissions, same locking, no hang.
	Mut   string `json:"mut,omitempty"`
	MutAt int    `json:"mut_at,omitempty"`
}

var atomMuts = []string{
	"EVAL_CMD = 'eval'", "EVAL_CMD = 'evalsha'", "EVAL_CMD = 'evalro'", "EVAL_CMD = 'evalrosha'", "EVAL_CMD = 'evalna'", "EVAL_CMD = 'evalnasha'",
	"EVAL_CMD = nil", "_G.EVAL_CMD = 'evalna'", "_G['EVAL_CMD'] = 'eval'", "KEYS = nil", "ARGV = nil", "KEYS, ARGV = ARGV, KEYS",
}

// normalize makes the number of marker writes even, so that a script that
// writes at all leaves m/a == m/b.
func (p *atomPlan) normalize() {
	n := 0
	for _, o := range p.Ops {
		if o.Kind == "w" {
			n++
		}
	}
	if n%2 == 1 {
		p.Ops = append(p.Ops, atomOp{Kind: "w"})
	}
}

// script renders the plan; ws is the sequence of marker ids it writes.
func (p atomPlan) script() (src string, ws []string) {
	var b strings.Builder
	b.WriteString("local r = {}\nlocal tok = ARGV[1]\n")
	for i, op := range p.Ops {
		if p.Mut != "" && i == p.MutAt {
			b.WriteString(p.Mut + "\n")
		}
		switch op.Kind {
		case "r1":
			b.WriteString("r[#r+1] = tile38.call('GET','k','id1')\n")
		case "r2":
			b.WriteString("r[#r+1] = tile38.call('GET','k','id2')\n")
		case "w":
			id := "a"
			if len(ws)%2 == 1 {
				id = "b"
			}
			ws = append(ws, id)
			fmt.Fprintf(&b, "r[#r+1] = tile38.pcall('SET','m','%s','STRING',tok)\n", id)
		case "busy":
			fmt.Fprintf(&b, "do local x = 0 for i = 1, %d do x = x + 1 end r[#r+1] = x end\n", op.N)
		}
	}
	b.WriteString("return r")
	return b.String(), ws
}

func (p atomPlan) shape() string {
	var b strings.Builder
	b.WriteString(p.Mode + ":")
	if p.Mut != "" {
		b.WriteString("{" + p.Mut + "}")
	}
	for _, op := range p.Ops {
		switch op.Kind {
		case "busy":
			switch {
			case op.N < 5000:
				b.WriteString("b")
			case op.N < 100000:
				b.WriteString("B")
			default:
				b.WriteString("L")
			}
		case "w":
			b.WriteString("w")
		default:
			b.WriteString(op.Kind)
		}
		b.WriteByte(',')
	}
	return b.String()
}

var atomModes = []string{"eval", "eval", "evalsha", "evalro", "evalrosha", "evalna", "evalna", "evalnasha"}

func drawAtomPlan(rt *rapid.T) atomPlan {
	p := atomPlan{Mode: rapid.SampledFrom(atomModes).Draw(rt, "mode")}
	n := rapid.IntRange(2, 6).Draw(rt, "ncalls")
	calls := 0
	for calls < n {
		k := rapid.SampledFrom([]string{"r1", "r1", "r2", "w", "w", "busy", "busy"}).Draw(rt, "op")
		if k == "busy" {
			if len(p.Ops) == 0 || p.Ops[len(p.Ops)-1].Kind == "busy" {
				continue
			}
			p.Ops = append(p.Ops, atomOp{Kind: "busy", N: rapid.SampledFrom([]int{200, 3000, 30000, 30000, 150000, 400000}).Draw(rt, "busy")})
			continue
		}
		p.Ops = append(p.Ops, atomOp{Kind: k})
		calls++
	}
	p.normalize()
	if rapid.IntRange(0, 2).Draw(rt, "mut?") == 0 {
		p.Mut = rapid.SampledFrom(atomMuts).Draw(rt, "mut")
		p.MutAt = rapid.IntRange(0, len(p.Ops)-1).Draw(rt, "mutat")
	}
	return p
}

// ---- environment -----------------------------------------------------------

type wrec struct {
	n          int64
	send, recv time.Duration
}

type robs struct {
	a, b       string
	send, recv time.Duration
}

type atomEnv struct {
	srv                        *t38.Srv
	cS, cW1, cW2, cR, cS2, cCt *t38.Conn
	ctr                        [2]int64
	caseNo                     int
	base                       time.Time
	hung                       bool
}

const pairScript = "tile38.call('SET','m','a','STRING',ARGV[1]) local x = 0 for i = 1, 2000 do x = x + 1 end tile38.call('SET','m','b','STRING',ARGV[1]) return 1"

func newAtomEnv(t testing.TB) *atomEnv {
	e := &atomEnv{srv: mustStart(t, t38.Opts{}), base: time.Now()}
	e.cS, e.cW1, e.cW2, e.cR, e.cS2, e.cCt = e.srv.MustDial(), e.srv.MustDial(), e.srv.MustDial(), e.srv.MustDial(), e.srv.MustDial(), e.srv.MustDial()
	for _, id := range []string{"id1", "id2"} {
		if v := e.cCt.MustDo("SET", "k", id, "STRING", "0"); v.IsErr() {
			t.Fatalf("setup: %s", v)
		}
	}
	return e
}

func (e *atomEnv) close() {
	for _, c := range []*t38.Conn{e.cS, e.cW1, e.cW2, e.cR, e.cS2, e.cCt} {
		c.Close()
	}
	e.srv.StopAsync()
}

// atomResult is what a case reports back.
type atomResult struct {
	labels []string
	ntKey  string // non-empty: non-trivial case
	sample map[string]any
}

func parseScanPair(v t38.Value) (a, b string, err error) {
	if v.Kind != '*' || len(v.Arr) != 2 || v.Arr[1].Kind != '*' {
		return "", "", fmt.Errorf("SCAN m: unexpected reply %s", v)
	}
	got := map[string]string{}
	for _, it := range v.Arr[1].Arr {
		if it.Kind != '*' || len(it.Arr) < 2 {
			return "", "", fmt.Errorf("SCAN m: unexpected item %s", it)
		}
		got[it.Arr[0].Str] = it.Arr[1].Str
	}
	a, okA := got["a"]
	b, okB := got["b"]
	if !okA || !okB || len(got) != 2 {
		return "", "", fmt.Errorf("SCAN m: expected ids a and b, got %s", v)
	}
	return a, b, nil
}

// runCase runs one plan under pressure and checks every oracle. It calls
// c.Fail (which does not return) on a violation.
func (e *atomEnv) runCase(t ev.Failer, c *ev.Collector, p atomPlan) atomResult {
	t.Helper()
	var res atomResult
	label := func(s string) { res.labels = append(res.labels, s) }
	if e.hung {
		c.Fail(t, "server-hang", "the server of this sub-check stopped answering in an earlier case", map[string]any{"plan": p})
	}
	e.caseNo++
	tok := fmt.Sprintf("t%d", e.caseNo)
	itok := fmt.Sprintf("i%d", e.caseNo)
	src, ws := p.script()
	evidence := map[string]any{"plan": p, "script": src}
	fail := func(key, what string) {
		evidence["what"] = what
		c.Fail(t, key, fmt.Sprintf("%s [%s]: %s", p.Mode, p.shape(), what), evidence)
	}
	atomicMode := baseMode(p.Mode) != "evalna"
	roMode := baseMode(p.Mode) == "evalro"

	// quiescent set-up: markers equal, counters known
	if v, err := e.cCt.Do("EVAL", pairScript, "0", itok); err != nil || !v.Equal(t38.Int(1)) {
		fail("harness:setup", fmt.Sprintf("marker reset failed: %v %v", v, err))
	}
	startN := e.ctr
	for i, id := range []string{"id1", "id2"} {
		v, err := e.cCt.Do("GET", "k", id)
		if err != nil || v.Str != strconv.FormatInt(startN[i], 10) {
			fail("acked-write-lost", fmt.Sprintf("before the case k/%s = %v (err %v), last acknowledged value %d", id, v, err, startN[i]))
		}
	}
	first, err := prepScript(e.cS, p.Mode, src)
	if err != nil {
		fail("harness:setup", "SCRIPT LOAD: "+err.Error())
	}
	aofStart := fileSize(e.srv.AOFPath())

	// pressure
	var stop atomic.Bool
	var wg sync.WaitGroup
	var wrecs [2][]wrec
	var wacks [2]atomic.Int64
	var gerrs [4]string
	var robsv []robs
	var rcount, s2count atomic.Int64
	var s2toks []string
	for i := 0; i < 2; i++ {
		wg.Add(1)
		go func(i int) {
			defer wg.Done()
			conn, id := e.cW1, "id1"
			if i == 1 {
				conn, id = e.cW2, "id2"
			}
			n := startN[i]
			for !stop.Load() {
				n++
				s := since(e.base)
				v, err := conn.Do("SET", "k", id, "STRING", strconv.FormatInt(n, 10))
				r := since(e.base)
				if err != nil || !v.Equal(t38.Simple("OK")) {
					gerrs[i] = fmt.Sprintf("writer %d: SET %d answered %v (err %v)", i+1, n, v, err)
					return
				}
				wrecs[i] = append(wrecs[i], wrec{n, s, r})
				wacks[i].Add(1)
			}
		}(i)
	}
	wg.Add(1)
	go func() {
		defer wg.Done()
		for !stop.Load() {
			s := since(e.base)
			v, err := e.cR.Do("SCAN", "m")
			r := since(e.base)
			if err != nil {
				gerrs[2] = "reader: " + err.Error()
				return
			}
			a, b, perr := parseScanPair(v)
			if perr != nil {
				gerrs[2] = "reader: " + perr.Error()
				return
			}
			robsv = append(robsv, robs{a, b, s, r})
			rcount.Add(1)
		}
	}()
	wg.Add(1)
	go func() {
		defer wg.Done()
		for i := 0; !stop.Load(); i++ {
			t2 := fmt.Sprintf("x%d-%d", e.caseNo, i)
			v, err := e.cS2.Do("EVAL", pairScript, "0", t2)
			if err != nil || !v.Equal(t38.Int(1)) {
				gerrs[3] = fmt.Sprintf("pair script: answered %v (err %v)", v, err)
				return
			}
			s2toks = append(s2toks, t2)
			s2count.Add(1)
		}
	}()
	warm := time.Now()
	for wacks[0].Load() < 2 || wacks[1].Load() < 2 || rcount.Load() < 1 || s2count.Load() < 1 {
		if time.Since(warm) > 20*time.Second {
			c.Inconclusive("atomic: pressure goroutines did not warm up within 20s")
			break
		}
		time.Sleep(20 * time.Microsecond)
	}
	tSend := since(e.base)
	v, serr := e.cS.Do(scriptCmd(p.Mode, first, nil, []string{tok})...)
	tRecv := since(e.base)
	// let every writer complete one more write so that the log shows what followed the script
	a0, a1 := wacks[0].Load(), wacks[1].Load()
	cool := time.Now()
	for (wacks[0].Load() <= a0 || wacks[1].Load() <= a1) && time.Since(cool) < 2*time.Second {
		time.Sleep(20 * time.Microsecond)
	}
	stop.Store(true)
	if serr == t38.ErrHang {
		// do not wait for the other clients: they are stuck behind the same lock
		e.hung = true
		fail("server-hang", fmt.Sprintf("the script got no reply within %v (the other clients are stuck too)", t38.ReplyTimeout))
	}
	wg.Wait()
	for i := 0; i < 2; i++ {
		if n := len(wrecs[i]); n > 0 {
			e.ctr[i] = wrecs[i][n-1].n
		}
	}
	for _, ge := range gerrs {
		if ge != "" {
			fail("concurrent-client-error", ge)
		}
	}
	if serr != nil {
		fail("script-transport", serr.Error())
	}
	evidence["reply"] = v.String()
	evidence["interval_us"] = []int64{tSend.Microseconds(), tRecv.Microseconds()}

	// (a) reply shape
	if v.Kind != '*' || len(v.Arr) != len(p.Ops) {
		fail("script-reply-shape", fmt.Sprintf("expected an array of %d results, got %s", len(p.Ops), v))
	}
	var reads [2][]int64
	for i, op := range p.Ops {
		el := v.Arr[i]
		switch op.Kind {
		case "r1", "r2":
			n, err := strconv.ParseInt(el.Str, 10, 64)
			if el.Kind != '$' || el.Null || err != nil {
				fail("script-reply-shape", fmt.Sprintf("result %d (%s) is %s, expected the counter", i, op.Kind, el))
			}
			w := 0
			if op.Kind == "r2" {
				w = 1
			}
			reads[w] = append(reads[w], n)
		case "w":
			if roMode {
				if !el.IsErr() || !strings.Contains(el.Str, "read only") {
					fail("evalro-accepted-write:set", fmt.Sprintf("result %d: SET inside %s answered %s", i, p.Mode, el))
				}
			} else if !el.Equal(t38.Simple("OK")) {
				fail("script-write-refused", fmt.Sprintf("result %d: SET inside %s answered %s", i, p.Mode, el))
			}
		case "busy":
			if el.Kind != ':' || el.Int != int64(op.N) {
				fail("script-reply-shape", fmt.Sprintf("result %d (busy %d) is %s", i, op.N, el))
			}
		}
	}

	// (b) reads: equal inside an atomic script, monotone and within the
	// acknowledged/sent bounds always
	interleavedReads := false
	for w := 0; w < 2; w++ {
		lo, hi := startN[w], startN[w]
		for _, r := range wrecs[w] {
			if r.recv < tSend && r.n > lo {
				lo = r.n
			}
			if r.send < tRecv && r.n > hi {
				hi = r.n
			}
		}
		for i, n := range reads[w] {
			if n < lo || n > hi {
				fail("script-read-outside-real-time-bounds", fmt.Sprintf("read %d of k/id%d returned %d; last value acknowledged before the script was sent: %d, last value sent before its reply: %d", i, w+1, n, lo, hi))
			}
			if i > 0 && n < reads[w][i-1] {
				fail("script-read-went-backwards", fmt.Sprintf("reads of k/id%d: %v", w+1, reads[w]))
			}
			if i > 0 && n != reads[w][0] {
				if atomicMode {
					fail("script-not-atomic:reads-differ", fmt.Sprintf("reads of k/id%d inside one %s: %v", w+1, p.Mode, reads[w]))
				}
				interleavedReads = true
			}
		}
	}

	// (c) the log
	cmds, aerr := aofFrom(e.srv.AOFPath(), aofStart)
	if aerr != nil {
		fail("aof-unparsable", aerr.Error())
	}
	var mine []int // indexes of this script's writes
	s2pos := map[string][]int{}
	var wpos [2][]int
	var wns [2][]int64
	for i, cm := range cmds {
		a := cm.Args
		if len(a) != 5 || strings.ToUpper(a[0]) != "SET" || strings.ToUpper(a[3]) != "STRING" {
			fail("aof-foreign-command", fmt.Sprintf("unexpected log entry %q", a))
		}
		switch {
		case a[1] == "k":
			w := 0
			if a[2] == "id2" {
				w = 1
			}
			n, _ := strconv.ParseInt(a[4], 10, 64)
			wpos[w] = append(wpos[w], i)
			wns[w] = append(wns[w], n)
		case a[1] == "m" && a[4] == tok:
			mine = append(mine, i)
		case a[1] == "m" && strings.HasPrefix(a[4], "x"):
			s2pos[a[4]] = append(s2pos[a[4]], i)
		default:
			fail("aof-foreign-command", fmt.Sprintf("unexpected log entry %q", a))
		}
	}
	for w := 0; w < 2; w++ {
		for i, n := range wns[w] {
			if n != startN[w]+int64(i)+1 {
				fail("acked-write-not-in-aof", fmt.Sprintf("writer %d: log holds values %v after %d", w+1, wns[w], startN[w]))
			}
		}
		if len(wns[w]) < len(wrecs[w]) {
			fail("acked-write-not-in-aof", fmt.Sprintf("writer %d: %d acknowledged writes, %d in the log", w+1, len(wrecs[w]), len(wns[w])))
		}
	}
	for _, t2 := range s2toks {
		ps := s2pos[t2]
		if len(ps) != 2 || ps[1] != ps[0]+1 || cmds[ps[0]].Args[2] != "a" || cmds[ps[1]].Args[2] != "b" {
			fail("script-not-atomic:aof-interleaved", fmt.Sprintf("the concurrent EVAL pair script %s is logged at entries %v of the case's log segment (expected two adjacent entries a,b)", t2, ps))
		}
	}
	wantW := ws
	if roMode {
		wantW = nil
	}
	var gotW []string
	for _, i := range mine {
		gotW = append(gotW, cmds[i].Args[2])
	}
	if strings.Join(gotW, ",") != strings.Join(wantW, ",") {
		key := "script-write-not-logged"
		if roMode {
			key = "evalro-modified-state:set"
		}
		fail(key, fmt.Sprintf("script wrote markers %v, log holds %v for its token", wantW, gotW))
	}
	interleavedAOF := false
	if len(mine) > 0 {
		contiguous := mine[len(mine)-1]-mine[0] == len(mine)-1
		if !contiguous {
			if atomicMode {
				var between []string
				for i := mine[0]; i <= mine[len(mine)-1]; i++ {
					between = append(between, strings.Join(cmds[i].Args, " "))
				}
				fail("script-not-atomic:aof-interleaved", fmt.Sprintf("the writes of one %s are not contiguous in the log: %q", p.Mode, between))
			}
			interleavedAOF = true
		}
		if atomicMode {
			// the counter value the script read is the one in force where its writes sit in the log
			for w := 0; w < 2; w++ {
				if len(reads[w]) == 0 {
					continue
				}
				inForce := startN[w]
				for j, pos := range wpos[w] {
					if pos < mine[0] {
						inForce = wns[w][j]
					}
				}
				if reads[w][0] != inForce {
					fail("script-not-atomic:read-vs-log-order", fmt.Sprintf("%s read k/id%d = %d but its writes sit in the log where the value in force is %d", p.Mode, w+1, reads[w][0], inForce))
				}
			}
		}
	}

	// (d) outside reader
	tornAllowed := !atomicMode && len(ws) >= 2
	torn := 0
	for _, o := range robsv {
		if o.a != o.b {
			torn++
			if !tornAllowed {
				fail("script-not-atomic:marker-pair-torn", fmt.Sprintf("an outside SCAN m saw a=%q b=%q while only EVAL scripts (and %s) were writing the pair", o.a, o.b, p.Mode))
			}
		}
	}
	fa, _ := e.cCt.Do("GET", "m", "a")
	fb, _ := e.cCt.Do("GET", "m", "b")
	if fa.Str != fb.Str && !tornAllowed {
		fail("script-not-atomic:marker-pair-torn", fmt.Sprintf("after the case m/a=%q m/b=%q", fa.Str, fb.Str))
	}
	if roMode && (fa.Str == tok || fb.Str == tok) {
		fail("evalro-modified-state:set", "marker carries the EVALRO script's token")
	}

	// (e) how real was the pressure
	issuedDuring := 0
	for w := 0; w < 2; w++ {
		for _, r := range wrecs[w] {
			if r.send > tSend && r.send < tRecv {
				issuedDuring++
			}
		}
	}
	completedDuring := 0
	for w := 0; w < 2; w++ {
		for _, r := range wrecs[w] {
			if r.send > tSend && r.recv < tRecv {
				completedDuring++
			}
		}
	}
	readerDuring := 0
	for _, o := range robsv {
		if o.send > tSend && o.send < tRecv {
			readerDuring++
		}
	}
	label("mode:" + p.Mode)
	if issuedDuring > 0 {
		label("pressure:writer-command-issued-during-script")
	}
	if readerDuring > 0 {
		label("pressure:reader-command-issued-during-script")
	}
	if baseMode(p.Mode) == "evalna" {
		label("evalna:cases")
		if completedDuring > 0 {
			label("evalna:writer-completed-a-write-during-script")
		}
		if interleavedReads {
			label("evalna:reads-differ")
		}
		if interleavedAOF {
			label("evalna:aof-interleaved")
		}
		if torn > 0 {
			label("evalna:torn-pair-seen")
		}
	} else if completedDuring > 0 {
		// not a violation by itself: the write may have completed before the
		// script took the lock; counted to show the window is contended
		label("atomic:writer-completed-inside-send-recv-window")
	}
	multi := len(reads[0]) >= 2 || len(reads[1]) >= 2 || len(ws) >= 2 || (len(ws) > 0 && len(reads[0])+len(reads[1]) > 0)
	if multi && issuedDuring+readerDuring > 0 {
		kind := "blocked"
		if baseMode(p.Mode) == "evalna" {
			kind = "na"
			if interleavedReads || interleavedAOF || torn > 0 {
				kind = "na-interleaved"
			}
		}
		res.ntKey = p.shape() + "|" + kind
	}
	res.sample = map[string]any{"plan": p, "reads_id1": reads[0], "reads_id2": reads[1], "writer_cmds_issued_during_script": issuedDuring,
		"writer_cmds_completed_during_script": completedDuring, "log_entries": len(cmds), "script_log_positions": mine, "torn_seen": torn}
	return res
}

func TestC18_Atomic(t *testing.T) {
	c := ev.New(prop, "atomic", "exploration")
	t.Cleanup(c.Flush)
	c.Rule("generated scripts of 2-6 tile38.call()s (GET of two counters k/id1, k/id2; SET of the marker pair m/a, m/b to the script's token; busy loops of 200..400000 iterations between calls) run as EVAL/EVALSHA/EVALRO/EVALROSHA/EVALNA/EVALNASHA while two writer connections stream SET k idN STRING <n++>, a third connection loops an EVAL that writes the pair, and a reader loops SCAN m. Oracles: atomic modes read one value per counter, it lies within [last acked before send, last sent before reply] and equals the value in force at the script's position in the log; the script's writes are all logged, in order, contiguous for atomic modes; every concurrent EVAL pair is adjacent in the log; the reader never sees a != b unless an EVALNA script writes the pair; EVALRO writes are refused and leave no trace. Non-trivial: script with >= 2 related inner calls during whose [send,reply] interval another client issued a command; distinct by mode, op shape (busy bucketed) and whether interleaving was observed.")
	c.Assume("the log file is complete once every client has its reply (C08); SCAN m reads both markers under one lock acquisition")
	e := newAtomEnv(t)
	defer e.close()
	naCases, naInterleaved := 0, 0
	ev.Rapid("atomic", ev.Pick(800, 3000))
	rapid.Check(t, func(rt *rapid.T) {
		p := drawAtomPlan(rt)
		c.Case()
		r := e.runCase(rt, c, p)
		for _, l := range r.labels {
			c.Label(l)
			switch l {
			case "evalna:cases":
				naCases++
			case "evalna:reads-differ", "evalna:aof-interleaved", "evalna:torn-pair-seen":
				naInterleaved++
			}
		}
		if r.ntKey != "" {
			c.NonTrivial(r.ntKey)
			if c.WantSample() {
				c.Sample(r.sample)
			}
		}
	})
	c.Note("EVALNA cases: %d, observations of interleaving inside them: %d", naCases, naInterleaved)
	if naCases >= 20 && naInterleaved == 0 {
		c.Inconclusive("atomic: no EVALNA case showed any interleaving - the concurrent pressure may not be real on this machine")
	}
}

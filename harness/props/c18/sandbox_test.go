package c18

import (
	"fmt"
	"os"
	"path/filepath"
	"sort"
	"strconv"
	"strings"
	"sync"
	"testing"

	"github.com/tidwall/tile38/verif/harness/ev"
	"github.com/tidwall/tile38/verif/harness/t38"
	"pgregory.net/rapid"
)

// ---- the allow-list ----------------------------------------------------------
//
// Written from scripts.go's deliberate set-up (lStatePool.New): the base
// subset (openBaseSubset: _G, _VERSION, _GOPHER_LUA_VERSION, tonumber,
// tostring), the whole table, math and string libraries of Lua 5.1 as
// gopher-lua ships them (including its 5.0 compatibility names getn, mod,
// gfind and the string metatable's __index self-reference), the os subset
// (openOsSubset: clock, difftime), json.{encode,decode}, tile38.{call, pcall,
// error_reply, status_reply, sha1hex, distance_to}; plus, during a call only,
// KEYS, ARGV, EVAL_CMD and (under TIMEOUT) DEADLINE. core/commands.json and
// README.md describe only the EVAL* / SCRIPT * commands and their arguments.

var allowFuncs = map[string][]string{
	"":      {"tonumber", "tostring"},
	"table": {"getn", "concat", "insert", "maxn", "remove", "sort"},
	"math": {"abs", "acos", "asin", "atan", "atan2", "ceil", "cos", "cosh", "deg", "exp", "floor", "fmod", "frexp", "ldexp",
		"log", "log10", "max", "min", "mod", "modf", "pow", "rad", "random", "randomseed", "sin", "sinh", "sqrt", "tan", "tanh"},
	"string": {"byte", "char", "dump", "find", "format", "gsub", "len", "lower", "match", "rep", "reverse", "sub", "upper", "gmatch", "gfind"},
	"os":     {"clock", "difftime"},
	"json":   {"encode", "decode"},
	"tile38": {"call", "pcall", "error_reply", "status_reply", "sha1hex", "distance_to"},
}

// allowList returns path -> kind for an idle interpreter ("_G.math.abs" ->
// "function"; aliases as "=<path>").
func allowList() map[string]string {
	m := map[string]string{
		"_G":                     "table",
		"_G._G":                  "=_G",
		"_G._VERSION":            "string",
		"_G._GOPHER_LUA_VERSION": "string",
		"_G.math.pi":             "number",
		"_G.math.huge":           "number",
		"_G.string.__index":      "=_G.string",
	}
	for lib, fns := range allowFuncs {
		p := "_G"
		if lib != "" {
			p = "_G." + lib
			m[p] = "table"
		}
		for _, f := range fns {
			m[p+"."+f] = "function"
		}
	}
	return m
}

// universe of names the over-the-wire prober asks for at every table.
var universeWords = strings.Fields(`
assert collectgarbage dofile error getfenv getmetatable load loadfile loadstring next pcall print rawequal rawget rawset rawlen select
_printregs setfenv setmetatable tonumber tostring type unpack xpcall module require newproxy ipairs pairs _G _VERSION _GOPHER_LUA_VERSION _ENV _LOADED _PRELOAD
package io os debug coroutine channel table string math json tile38 bit bit32 utf8 jit ffi redis server cjson cmsgpack struct
clock difftime execute exit date getenv remove rename setenv setlocale time tmpname
close flush input lines open output popen read stdin stdout stderr tmpfile write
getinfo getlocal getupvalue setlocal setupvalue traceback gethook sethook getregistry upvalueid upvaluejoin
loaded path cpath preload loaders loadlib seeall config searchers searchpath
create resume running status wrap yield isyieldable make
getn concat insert maxn sort foreach foreachi setn pack move
byte char dump find format gsub len lower match rep reverse sub upper gmatch gfind packsize
abs acos asin atan atan2 ceil cos cosh deg exp floor fmod frexp ldexp log log10 max min mod modf pow rad random randomseed sin sinh sqrt tan tanh pi huge
maxinteger mininteger tointeger ult
encode decode null
call pcall error_reply status_reply sha1hex distance_to setresp breakpoint replicate_commands set_repl
__index __newindex __metatable __gc __mode __call __tostring __len __eq __lt __le __concat __unm __add __sub __mul __div __mod __pow __name __pairs
KEYS ARGV DEADLINE EVAL_CMD
1 2 3 0 -1
`)

func universe(extra ...string) []string {
	seen := map[string]bool{}
	var out []string
	for _, w := range append(append([]string{}, universeWords...), extra...) {
		if w != "" && !seen[w] {
			seen[w] = true
			out = append(out, w)
		}
	}
	sort.Strings(out)
	return out
}

// proberScript: ARGV[1] = root ("G" = the globals, "S" = a string value, whose
// indexing goes through the string metatable), ARGV[2] = path length d,
// ARGV[3..2+d] = path, remaining ARGV = names. For every name two results:
// kind(t[name]) and, when the name is numeric, kind(t[tonumber(name)]).
// There is no type(): strings are recognised by tostring(v) == v, numbers by
// tonumber(v) == v, the rest by the prefix of tostring(v).
const proberScript = `
local function kind(v)
  if v == nil then return 'nil' end
  if v == true or v == false then return 'boolean' end
  if tostring(v) == v then return 'string' end
  if tonumber(v) == v then return 'number' end
  return tostring(v)
end
local t = _G
if ARGV[1] == 'S' then t = '' end
local d = tonumber(ARGV[2])
for i = 1, d do t = t[ARGV[2 + i]] end
local r = {}
for i = 3 + d, #ARGV do
  r[#r+1] = kind(t[ARGV[i]])
  local n = tonumber(ARGV[i])
  if n ~= nil then r[#r+1] = kind(t[n]) else r[#r+1] = '-' end
end
r[#r+1] = kind(t)
return r`

// wireWalk enumerates, through a real script call, which names of the
// universe are reachable. Result: path -> kind, in the format of allowList
// (plus "S" rooted entries for the string-value root).
func wireWalk(c *t38.Conn, prefix []string, mode string, names []string, keys []string) (map[string]string, error) {
	out := map[string]string{}
	seen := map[string]string{} // table identity -> first path
	type node struct {
		root string
		path []string
	}
	queue := []node{{"G", nil}, {"S", nil}}
	first, err := prepScript(c, mode, proberScript)
	if err != nil {
		return nil, err
	}
	for len(queue) > 0 {
		n := queue[0]
		queue = queue[1:]
		argv := append([]string{n.root, strconv.Itoa(len(n.path))}, n.path...)
		argv = append(argv, names...)
		cmd := append(append([]string{}, prefix...), scriptCmd(mode, first, keys, argv)...)
		v, err := c.Do(cmd...)
		if err != nil {
			return nil, err
		}
		if v.Kind != '*' || len(v.Arr) != 2*len(names)+1 {
			return nil, fmt.Errorf("prober at %s%v answered %s", n.root, n.path, v)
		}
		base := "_G"
		if n.root == "S" {
			base = "S"
		}
		if len(n.path) > 0 {
			base += "." + strings.Join(n.path, ".")
		}
		self := v.Arr[len(v.Arr)-1].Str
		if strings.HasPrefix(self, "table: ") {
			if _, ok := seen[self]; !ok {
				seen[self] = base
				out[base] = "table"
			}
		}
		record := func(p, k string, name string, numeric bool) {
			switch {
			case k == "nil" || k == "-":
				return
			case strings.HasPrefix(k, "table: "):
				if f, ok := seen[k]; ok {
					out[p] = "=" + f
					return
				}
				seen[k] = p
				out[p] = "table"
				if len(n.path) < 5 && !numeric {
					queue = append(queue, node{n.root, append(append([]string{}, n.path...), name)})
				}
			case strings.HasPrefix(k, "function: "):
				out[p] = "function"
			case k == "string" || k == "number" || k == "boolean":
				out[p] = k
			default:
				out[p] = strings.SplitN(k, ":", 2)[0]
			}
		}
		for i, name := range names {
			record(base+"."+name, v.Arr[2*i].Str, name, false)
			record(base+".["+name+"]", v.Arr[2*i+1].Str, name, true)
		}
	}
	return out, nil
}

func diffSets(want, got map[string]string) (missing, extra, changed []string) {
	for p, k := range want {
		g, ok := got[p]
		if !ok {
			missing = append(missing, p)
		} else if g != k {
			changed = append(changed, fmt.Sprintf("%s: %s, expected %s", p, g, k))
		}
	}
	for p, k := range got {
		if _, ok := want[p]; !ok {
			extra = append(extra, p+" ("+k+")")
		}
	}
	sort.Strings(missing)
	sort.Strings(extra)
	sort.Strings(changed)
	return
}

func runSandbox(t testing.TB, c *ev.Collector) {
	allow := allowList()
	// (1) exact enumeration of interpreters built by the server's constructor:
	// nine taken from one pool at the same time, i.e. the five pre-built ones
	// and four created on demand
	pool, err := goWalkPool(9)
	if err != nil {
		t.Fatalf("go walker: %v", err)
	}
	walked := pool[0]
	for i, w := range pool {
		if fmt.Sprint(w) != fmt.Sprint(walked) {
			g := map[string]string{}
			for _, r := range w {
				g[r.Path] = r.Kind
			}
			f := map[string]string{}
			for _, r := range walked {
				f[r.Path] = r.Kind
			}
			missing, extra, changed := diffSets(f, g)
			c.Violation("sandbox:pooled-interpreters-differ", fmt.Sprintf("interpreter #%d taken from the pool (the pool pre-builds 5, the rest are made on demand) differs from the first: missing %v, extra %v, changed %v", i+1, missing, extra, changed), map[string]any{"sub": "sandbox"})
		}
	}
	c.Note("go walk: 9 simultaneously held interpreters of one pool compared")
	got := map[string]string{}
	var walkedNames []string
	for _, r := range walked {
		got[r.Path] = r.Kind
		parts := strings.Split(r.Path, ".")
		walkedNames = append(walkedNames, parts[len(parts)-1])
	}
	want := map[string]string{}
	for p, k := range allow {
		want[p] = k
	}
	want["_G<mt>"] = "table"
	want["_G<mt>.__newindex"] = "function"
	want["<string-mt>"] = "=_G.string"
	c.Case()
	c.NonTrivial("go-walk")
	c.Note("go walk of a pooled interpreter: %d reachable paths", len(walked))
	missing, extra, changed := diffSets(want, got)
	rep := map[string]any{"sub": "sandbox", "walked": walked}
	if len(extra) > 0 {
		c.Violation("sandbox:extra-reachable-name", fmt.Sprintf("reachable from the globals of a pooled interpreter but not on the allow-list: %v", extra), rep)
	}
	if len(missing) > 0 {
		c.Violation("sandbox:allow-listed-name-missing", fmt.Sprintf("on the allow-list but not reachable: %v", missing), rep)
	}
	if len(changed) > 0 {
		c.Violation("sandbox:name-has-other-kind", fmt.Sprintf("%v", changed), rep)
	}

	// (2) the same through real calls, for every command variant
	srv := mustStart(t, t38.Opts{})
	defer srv.StopAsync()
	conn := srv.MustDial()
	defer conn.Close()
	names := universe(walkedNames...)
	c.Note("prober universe: %d names", len(names))
	type variant struct {
		name   string
		prefix []string
		mode   string
		keys   []string
	}
	variants := []variant{
		{"eval", nil, "eval", nil},
		{"evalsha+key", nil, "evalsha", []string{"kk"}},
		{"evalro", nil, "evalro", nil},
		{"evalrosha", nil, "evalrosha", nil},
		{"evalna", nil, "evalna", []string{"k1", "k2"}},
		{"evalnasha", nil, "evalnasha", nil},
		{"timeout-evalro", []string{"TIMEOUT", "10"}, "evalro", nil},
		{"timeout-eval", []string{"TIMEOUT", "10"}, "eval", nil},
	}
	for _, vr := range variants {
		c.Case()
		seen, err := wireWalk(conn, vr.prefix, vr.mode, names, vr.keys)
		if err != nil {
			c.Violation("sandbox:prober-failed", fmt.Sprintf("%s: %v", vr.name, err), map[string]any{"sub": "sandbox"})
			continue
		}
		w := map[string]string{}
		for p, k := range allow {
			w[p] = k
		}
		// the string-value root sees the string library through the string metatable
		for _, f := range allowFuncs["string"] {
			w["S."+f] = "function"
		}
		w["S.__index"] = "=_G.string"
		// call-time globals
		w["_G.KEYS"], w["_G.ARGV"], w["_G.EVAL_CMD"] = "table", "table", "string"
		for i := range vr.keys {
			w[fmt.Sprintf("_G.KEYS.[%d]", i+1)] = "string"
		}
		for i := 1; i <= 3; i++ {
			w[fmt.Sprintf("_G.ARGV.[%d]", i)] = "string"
		}
		if vr.prefix != nil {
			w["_G.DEADLINE"] = "number"
		}
		missing, extra, changed := diffSets(w, seen)
		rep := map[string]any{"sub": "sandbox", "variant": vr.name}
		if len(extra) > 0 {
			c.Violation("sandbox:extra-reachable-name", fmt.Sprintf("%s: a script reaches names that are not on the allow-list: %v", vr.name, extra), rep)
		}
		if len(missing) > 0 {
			c.Violation("sandbox:allow-listed-name-missing", fmt.Sprintf("%s: allow-listed names a script cannot reach: %v", vr.name, missing), rep)
		}
		if len(changed) > 0 {
			c.Violation("sandbox:name-has-other-kind", fmt.Sprintf("%s: %v", vr.name, changed), rep)
		}
		c.NonTrivial("wire-walk:" + vr.name)
		c.Label(fmt.Sprintf("reachable-names:%s=%d", vr.name, len(seen)))
		// EVAL_CMD names the running command
		v, err := conn.Do(append(append([]string{}, vr.prefix...), scriptCmd(baseMode(vr.mode), "return EVAL_CMD", nil, nil)...)...)
		if err != nil || v.Str != baseMode(vr.mode) {
			c.Violation("sandbox:eval-cmd-wrong", fmt.Sprintf("%s: EVAL_CMD = %v (err %v)", vr.name, v, err), rep)
		}
	}
}

func TestC18_Sandbox(t *testing.T) {
	c := ev.New(prop, "sandbox", "exploration")
	t.Cleanup(c.Flush)
	c.Rule("(1) an interpreter obtained from the server's own pool constructor (go:linkname to (*Server).newPool / (*lStatePool).Get) is walked completely with the gopher-lua API: tables recursively, every metatable, the per-type metatables; the set of (path, kind) must EQUAL the allow-list + {_G metatable with __newindex, string metatable = string}. (2) because scripts have neither pairs nor next, a prober script asks, at every table it can reach (recursively, identities by tostring address) from _G and from a string value, for every name of a universe (allow-list, names found by (1), all Lua 5.1-5.4 / gopher-lua / Redis scripting global and library names, metamethod names, numeric keys); per EVAL/EVALSHA/EVALRO/EVALROSHA/EVALNA/EVALNASHA and under TIMEOUT the reachable set must EQUAL allow-list + KEYS/ARGV/EVAL_CMD (+ DEADLINE under TIMEOUT). Every walk is non-trivial.")
	c.Exhaustive(true)
	runSandbox(t, c)
}

// ---- escape attempts ---------------------------------------------------------

type escCase struct {
	Mode  string `json:"mode"`
	Tmpl  string `json:"tmpl"`
	Style string `json:"style"`
	Name  string `json:"name"` // generated global name
}

// templates: $X marks where the access style is applied to the first
// identifier, $N the generated name, $K an existing sentinel file, $P a path
// that must never come into existence.
var escTemplates = []string{
	"return $X{io}.open('$P','w')", "return $X{io}.popen('touch $P')", "return $X{io}.lines('$K')", "$X{io}.write('x')",
	"return $X{os}.execute('touch $P')", "return $X{os}.remove('$K')", "return $X{os}.rename('$K','$P')", "return $X{os}.getenv('HOME')",
	"return $X{os}.tmpname()", "return $X{os}.setenv('C18','1')", "return $X{os}.date()", "return $X{os}.time()",
	"return $X{require}('os')", "return $X{require}('io')", "return $X{dofile}('$K')", "return $X{loadfile}('$K')",
	"return $X{loadstring}('return 1')()", "return $X{load}(function() return nil end)", "return $X{package}.loaded.os", "return $X{package}.loadlib('x','y')",
	"return $X{debug}.getregistry()", "return $X{debug}.getinfo(1)", "return $X{debug}.getmetatable(_G)", "return $X{debug}.setmetatable(_G, nil)",
	"return $X{getfenv}(0)", "return $X{setfenv}(1, {})", "return $X{rawset}(_G,'$N',1)", "return $X{rawget}(_G,'os')",
	"return $X{getmetatable}(_G)", "return $X{setmetatable}(_G, nil)", "return $X{getmetatable}('').__index", "return $X{newproxy}(true)",
	"return $X{module}('$N')", "return $X{collectgarbage}('count')", "return $X{coroutine}.create(function() end)", "return $X{channel}.make()",
	"return $X{print}('x')", "return $X{string}.dump(tostring)", "return $X{pcall}(tostring)", "return $X{xpcall}(tostring, tostring)",
	"return $X{next}(_G)", "return $X{pairs}(_G)", "return $X{ipairs}(_G)", "return $X{type}(_G)", "return $X{select}('#')", "return $X{unpack}({1})",
	"return $X{assert}(true)", "return $X{error}('x')", "return $X{rawequal}(1,1)", "return $X{_printregs}()",
	"$N = 1", "_G.$N = 1", "_G['$N'] = 1", "_G._G.$N = 1", "local g = _G g.$N = 1", "function $N() end", "$N = nil", "_G.$N = false",
	"local $N = 1 _G[tostring($N) .. '$N'] = 1", "KEYS.$N = 1 ARGV.$N = 1 $N = KEYS",
}

var escStyles = []string{"plain", "_G.", "_G[]", "_G._G.", "local"}

func (e escCase) render(keep, made string) string {
	s := e.Tmpl
	if i := strings.Index(s, "$X{"); i >= 0 {
		j := strings.Index(s[i:], "}") + i
		id := s[i+3 : j]
		var acc, pre string
		switch e.Style {
		case "_G.":
			acc = "_G." + id
		case "_G[]":
			acc = "_G['" + id + "']"
		case "_G._G.":
			acc = "_G._G." + id
		case "local":
			pre = "local c18v = _G['" + id + "'] "
			acc = "c18v"
		default:
			acc = id
		}
		s = pre + s[:i] + acc + s[j+1:]
	}
	s = strings.ReplaceAll(s, "$N", e.Name)
	s = strings.ReplaceAll(s, "$K", keep)
	s = strings.ReplaceAll(s, "$P", made)
	return s
}

func isAllowedGlobal(name string) bool {
	switch name {
	case "_G", "_VERSION", "_GOPHER_LUA_VERSION", "tonumber", "tostring", "table", "math", "string", "os", "json", "tile38", "KEYS", "ARGV", "DEADLINE", "EVAL_CMD":
		return true
	}
	return false
}

var luaKeywords = map[string]bool{"and": true, "break": true, "do": true, "else": true, "elseif": true, "end": true, "false": true, "for": true, "function": true, "goto": true,
	"if": true, "in": true, "local": true, "nil": true, "not": true, "or": true, "repeat": true, "return": true, "then": true, "true": true, "until": true, "while": true, "c18v": true}

func runEscape(t ev.Failer, c *ev.Collector, conn *t38.Conn, dir string, e escCase) {
	t.Helper()
	keep := filepath.Join(dir, "keep")
	made := filepath.Join(dir, "made")
	os.Remove(made)
	if err := os.WriteFile(keep, []byte("sentinel"), 0o644); err != nil {
		t.Fatalf("sentinel: %v", err)
	}
	src := e.render(keep, made)
	rep := map[string]any{"case": e, "script": src}
	v, err := runScript(conn, e.Mode, src, []string{"kk"}, []string{"aa"})
	if err != nil {
		c.Fail(t, "script-transport", err.Error(), rep)
	}
	if !v.IsErr() {
		c.Fail(t, "sandbox:escape-attempt-succeeded", fmt.Sprintf("%s %q answered %s instead of an error", strings.ToUpper(e.Mode), src, v), rep)
	}
	if _, err := os.Stat(made); err == nil {
		os.Remove(made)
		c.Fail(t, "sandbox:file-system-reached", fmt.Sprintf("%s %q created %s", strings.ToUpper(e.Mode), src, made), rep)
	}
	if b, err := os.ReadFile(keep); err != nil || string(b) != "sentinel" {
		c.Fail(t, "sandbox:file-system-reached", fmt.Sprintf("%s %q removed or changed %s", strings.ToUpper(e.Mode), src, keep), rep)
	}
	// the name did not become a global
	chk, err := conn.Do("EVAL", "return {tostring(_G[ARGV[1]]), tostring(_G['1' .. ARGV[1]]), tostring(KEYS[ARGV[1]])}", "0", e.Name)
	if err != nil || len(chk.Arr) != 3 || chk.Arr[0].Str != "nil" || chk.Arr[1].Str != "nil" || chk.Arr[2].Str != "nil" {
		c.Fail(t, "sandbox:new-global-created", fmt.Sprintf("after %s %q the name %q is visible to the next script: %v (err %v)", strings.ToUpper(e.Mode), src, e.Name, chk, err), rep)
	}
}

func TestC18_Escapes(t *testing.T) {
	c := ev.New(prop, "escapes", "exploration")
	t.Cleanup(c.Flush)
	c.Rule("generated escape attempts: one of 60 templates (io.*, os.execute/remove/rename/getenv/tmpname/setenv/date/time, require, dofile, loadfile, loadstring, load, package, debug.*, getfenv/setfenv, rawset/rawget, get/setmetatable, newproxy, module, collectgarbage, coroutine, channel, print, string.dump, pcall/xpcall, next/pairs/ipairs/type/select/unpack/assert/error, and 10 ways of assigning a generated new global name) x access style (plain, _G.x, _G['x'], _G._G.x, through a local) x the six EVAL variants. Each must answer an error, must not create the file it tries to create nor touch the sentinel file it tries to remove/rename, and the generated name must be invisible to the next script. Every case is non-trivial; distinct by template, style, mode.")
	if ev.KnownActive(findingPoison) {
		c.Excluded(findingPoison)
	}
	srv := mustStart(t, t38.Opts{})
	defer srv.StopAsync()
	conn := srv.MustDial()
	defer conn.Close()
	dir := t38.NewDir("c18-sbx")
	defer os.RemoveAll(dir)
	ident := rapid.StringMatching(`[a-zA-Z_][a-zA-Z0-9_]{0,9}`)
	ev.Rapid("escapes", ev.Pick(3000, 8000))
	rapid.Check(t, func(rt *rapid.T) {
		e := escCase{
			Mode:  rapid.SampledFrom([]string{"eval", "evalsha", "evalro", "evalrosha", "evalna", "evalnasha"}).Draw(rt, "mode"),
			Tmpl:  rapid.SampledFrom(escTemplates).Draw(rt, "tmpl"),
			Style: rapid.SampledFrom(escStyles).Draw(rt, "style"),
			Name:  ident.Draw(rt, "name"),
		}
		if isAllowedGlobal(e.Name) || luaKeywords[e.Name] {
			rt.Skip("name is allow-listed or a keyword")
		}
		if allowFuncs[e.Name] != nil {
			rt.Skip("library name")
		}
		c.Case()
		runEscape(rt, c, conn, dir, e)
		c.NonTrivial(e.Tmpl + "|" + e.Style + "|" + e.Mode)
		c.Label("mode:" + e.Mode)
		if c.WantSample() {
			c.Sample(map[string]any{"mode": e.Mode, "script": e.render("<keep>", "<made>")})
		}
	})
}

// ---- KEYS / ARGV hygiene -------------------------------------------------------

// spinScript never ends by itself.
const spinScript = "local x = #KEYS + #ARGV while true do x = x + 1 end"

// filterWriteProbe runs SCAN <key> with depth WHEREEVAL clauses, the last of
// which tries tile38.pcall('set', ...) and tile38.pcall('get', ...): inside a
// filter EVAL_CMD is nil, so both must be refused; nothing may be written (the
// search runs under the shared lock). Returns "" when all is well.
func filterWriteProbe(conn *t38.Conn, key string, depth int, tok string) string {
	before, _ := serverField(conn, "aof_size")
	cmd := []string{"SCAN", key}
	for i := 0; i < depth-1; i++ {
		cmd = append(cmd, "WHEREEVAL", "return true", "0")
	}
	cmd = append(cmd, "WHEREEVAL", "local w = tile38.pcall('set','c18fw','x','string',ARGV[1]) local r = tile38.pcall('get','"+key+"','o') return w.err ~= nil and r.err ~= nil", "1", tok, "COUNT")
	v, err := conn.Do(cmd...)
	ex, _ := conn.Do("EXISTS", "c18fw", "x")
	after, _ := serverField(conn, "aof_size")
	if ex.Int != 0 || before != after {
		conn.Do("DROP", "c18fw")
		return fmt.Sprintf("a WHEREEVAL filter (clause %d of a plain SCAN, read lock) wrote through tile38.pcall('set',...): EXISTS c18fw x = %v, aof_size %s -> %s, scan reply %v", depth, ex, before, after, v)
	}
	if err != nil || !v.Equal(t38.Int(1)) {
		return fmt.Sprintf("tile38.pcall inside WHEREEVAL clause %d was not refused: scan reply %v (err %v)", depth, v, err)
	}
	return ""
}

type hygCase struct {
	Mode    string   `json:"mode"`
	Kind    string   `json:"kind"` // ok | runtime-error | compile-error | unknown-sha | short-keys | huge-numkeys | timeout | timed-out
	Keys    []string `json:"keys"`
	Args    []string `json:"args"`
	Checker string   `json:"checker"`
}

const hygChecker = `local r = {tostring(_G), #KEYS, #ARGV, tostring(KEYS[1]), tostring(ARGV[1]), tostring(DEADLINE), EVAL_CMD}
for i = 1, #KEYS do r[#r+1] = KEYS[i] end
for i = 1, #ARGV do r[#r+1] = ARGV[i] end
return r`

func runHygiene(t ev.Failer, c *ev.Collector, conn *t38.Conn, h hygCase) {
	t.Helper()
	rep := map[string]any{"case": h}
	var cmd []string
	switch h.Kind {
	case "ok":
		first, err := prepScript(conn, h.Mode, "return {KEYS[1], ARGV[1]}")
		if err != nil {
			c.Fail(t, "script-transport", err.Error(), rep)
		}
		cmd = scriptCmd(h.Mode, first, h.Keys, h.Args)
	case "runtime-error":
		first, err := prepScript(conn, h.Mode, "local x = KEYS[1] .. ARGV[1] return x.y.z")
		if err != nil {
			c.Fail(t, "script-transport", err.Error(), rep)
		}
		cmd = scriptCmd(h.Mode, first, h.Keys, h.Args)
	case "compile-error":
		cmd = scriptCmd(baseMode(h.Mode), "return }{ "+h.Keys[0], h.Keys, h.Args)
	case "unknown-sha":
		cmd = scriptCmd(baseMode(h.Mode)+"sha", "00000000000000000000000000000000000000ff", h.Keys, h.Args)
	case "short-keys":
		cmd = scriptCmd(baseMode(h.Mode), "return 1", h.Keys, nil)
		cmd[2] = strconv.Itoa(len(h.Keys) + 1)
	case "huge-numkeys":
		// regression probe of the repaired finding crash-eval-huge-numkeys (C16): must be refused, not crash
		cmd = scriptCmd(baseMode(h.Mode), "return 1", h.Keys, h.Args)
		cmd[2] = "100000000000000"
	case "timeout":
		cmd = append([]string{"TIMEOUT", "10"}, scriptCmd("evalro", "return {KEYS[1], ARGV[1], DEADLINE}", h.Keys, h.Args)...)
	case "timed-out":
		// a script that never ends by itself: only the TIMEOUT can stop it
		first, err := prepScript(conn, h.Mode, spinScript)
		if err != nil {
			c.Fail(t, "script-transport", err.Error(), rep)
		}
		cmd = append([]string{"TIMEOUT", "0.02"}, scriptCmd(h.Mode, first, h.Keys, h.Args)...)
	}
	fv, err := conn.Do(cmd...)
	if err != nil {
		c.Fail(t, "script-transport", err.Error(), rep)
	}
	if h.Kind == "timed-out" && !(fv.IsErr() && strings.Contains(fv.Str, "timeout")) {
		c.Fail(t, "hygiene:timeout-not-enforced", fmt.Sprintf("%q answered %s, expected the timeout error", cmd, fv), rep)
	}
	if h.Kind != "ok" && h.Kind != "timeout" && !fv.IsErr() {
		key := "hygiene:invalid-call-not-refused"
		if h.Kind == "huge-numkeys" {
			key = "crash-eval-huge-numkeys"
		}
		c.Fail(t, key, fmt.Sprintf("%q (%s) answered %s instead of an error", cmd, h.Kind, fv), rep)
	}
	tokens := map[string]bool{}
	for _, s := range append(append([]string{}, h.Keys...), h.Args...) {
		tokens[s] = true
	}
	// a WHEREEVAL clause runs on the same pooled interpreters and is given only
	// ARGV: whatever an EVAL left behind is visible to it
	errPath := h.Kind == "compile-error" || h.Kind == "unknown-sha"
	// a WHEREEVAL filter can never write: tile38.call/pcall inside the filter
	// of a plain SCAN must be refused and leave no trace
	if d := filterWriteProbe(conn, "hyg", 1, h.Keys[0]); d != "" {
		c.Fail(t, "sandbox:whereeval-filter-can-write", fmt.Sprintf("after %q (%s): %s", cmd, h.Kind, d), rep)
	}
	if errPath && ev.KnownActive(findingLeftover) {
		c.Excluded(findingLeftover)
	} else {
		wv, err := conn.Do("SCAN", "hyg", "WHEREEVAL", "return KEYS == nil and EVAL_CMD == nil and DEADLINE == nil and #ARGV == 1 and ARGV[1] == 'w'", "1", "w", "COUNT")
		if err != nil || !wv.Equal(t38.Int(1)) {
			lv, _ := conn.Do("SCAN", "hyg", "WHEREEVAL", "return KEYS ~= nil and KEYS[1] == ARGV[1]", "1", h.Keys[0], "COUNT")
			key := "hygiene:keys-argv-leaked"
			if errPath {
				key = findingLeftover
			}
			c.Fail(t, key, fmt.Sprintf("after %q (%s) a WHEREEVAL clause on the same interpreter does not find KEYS/EVAL_CMD/DEADLINE nil: COUNT %v (err %v); KEYS[1] == %q there: COUNT %v", cmd, h.Kind, wv, err, h.Keys[0], lv), rep)
		}
	}
	// >= 6 consecutive calls without keys/args, then one with its own
	for i := 0; i < 7; i++ {
		var keys, args []string
		if i == 6 {
			keys, args = []string{"own-key"}, []string{"own-arg-1", "own-arg-2"}
		}
		v, err := runScript(conn, h.Checker, hygChecker, keys, args)
		if err != nil || v.Kind != '*' || len(v.Arr) != 7+len(keys)+len(args) {
			c.Fail(t, "hygiene:keys-argv-wrong", fmt.Sprintf("call %d after %q: checker answered %v (err %v), expected %d KEYS and %d ARGV", i, cmd, v, err, len(keys), len(args)), rep)
		}
		wantK1, wantA1 := "nil", "nil"
		if i == 6 {
			wantK1, wantA1 = "own-key", "own-arg-1"
		}
		if v.Arr[1].Int != int64(len(keys)) || v.Arr[2].Int != int64(len(args)) || v.Arr[3].Str != wantK1 || v.Arr[4].Str != wantA1 || v.Arr[5].Str != "nil" || v.Arr[6].Str != h.Checker {
			c.Fail(t, "hygiene:keys-argv-wrong", fmt.Sprintf("call %d after %q: checker (%s, %d keys, %d args) sees %v", i, cmd, h.Checker, len(keys), len(args), v), rep)
		}
		for _, el := range v.Arr[3:] {
			if tokens[el.Str] {
				c.Fail(t, "hygiene:keys-argv-leaked", fmt.Sprintf("call %d after %q: the checker sees the earlier call's token %q: %v", i, cmd, el.Str, v), rep)
			}
		}
	}
}

const hygBusy = `local x = 0 for i = 1, 1500000 do x = x + 1 end
local r = {tostring(_G), #KEYS, #ARGV, tostring(KEYS[1]), tostring(ARGV[1]), tostring(DEADLINE), EVAL_CMD}
for i = 1, #KEYS do r[#r+1] = KEYS[i] end
for i = 1, #ARGV do r[#r+1] = ARGV[i] end
return r`

// runPoolCycle makes n concurrent non-atomic scripts hold n interpreters at
// once (each with its own tokens), then n concurrent checkers; every
// interpreter a checker lands on must show only the checker's own KEYS/ARGV.
func runPoolCycle(t testing.TB, c *ev.Collector, srv *t38.Srv, round int) (distinct int) {
	const n = 9
	conns := make([]*t38.Conn, n)
	for i := range conns {
		conns[i] = srv.MustDial()
		defer conns[i].Close()
	}
	run := func(phase string) []t38.Value {
		out := make([]t38.Value, n)
		var wg sync.WaitGroup
		for i := 0; i < n; i++ {
			wg.Add(1)
			go func(i int) {
				defer wg.Done()
				v, err := conns[i].Do("EVALNA", hygBusy, "1", fmt.Sprintf("%s-key-%d-%d", phase, round, i), fmt.Sprintf("%s-arg-%d-%d", phase, round, i))
				if err == nil {
					out[i] = v
				}
			}(i)
		}
		wg.Wait()
		return out
	}
	run("plant")
	interp := map[string]bool{}
	for i, v := range run("check") {
		c.Case()
		wk, wa := fmt.Sprintf("check-key-%d-%d", round, i), fmt.Sprintf("check-arg-%d-%d", round, i)
		if v.Kind != '*' || len(v.Arr) != 9 || v.Arr[1].Int != 1 || v.Arr[2].Int != 1 || v.Arr[3].Str != wk || v.Arr[4].Str != wa || v.Arr[7].Str != wk || v.Arr[8].Str != wa || v.Arr[5].Str != "nil" || v.Arr[6].Str != "evalna" {
			c.Violation("hygiene:keys-argv-wrong", fmt.Sprintf("concurrent checker %d (KEYS %q ARGV %q) sees %v", i, wk, wa, v), map[string]any{"sub": "hygiene-pool", "round": round})
			continue
		}
		interp[v.Arr[0].Str] = true
	}
	return len(interp)
}

func TestC18_Hygiene(t *testing.T) {
	c := ev.New(prop, "hygiene", "exploration")
	t.Cleanup(c.Flush)
	c.Rule("a first call (EVAL variants; ending normally, in a runtime error, a compile error, an unknown digest, too few keys, numkeys = 10^14 (regression probe crash-eval-huge-numkeys), under a TIMEOUT it meets, or as a never-ending script really cut short by TIMEOUT 0.02 (reply must be the timeout error)) carries 1-4 generated unique tokens as KEYS and ARGV; then a SCAN ... WHEREEVAL clause (which runs on the same pooled interpreter and is given only ARGV) must find KEYS, EVAL_CMD and DEADLINE nil, a WHEREEVAL filter that tries tile38.pcall('set',...) must be refused and write nothing, and 7 consecutive checker calls (drawn variant) without keys/args, the last one with its own: each must see exactly its own KEYS/ARGV, DEADLINE nil, EVAL_CMD = its own command and none of the tokens. Pool cycling: 9 concurrent busy EVALNA scripts with tokens hold 9 interpreters at once, then 9 concurrent checkers: each sees only its own arguments; the number of distinct interpreters (tostring(_G)) the checkers ran on is counted (>= 6 wanted). Non-trivial: every case; distinct by kind, modes, key/arg counts.")
	if ev.KnownActive(findingPoison) {
		c.Excluded(findingPoison)
	}
	srv := mustStart(t, t38.Opts{})
	defer srv.StopAsync()
	conn := srv.MustDial()
	defer conn.Close()
	conn.MustDo("SET", "hyg", "o", "POINT", "1", "2")
	seq := 0
	ev.Rapid("hygiene", ev.Pick(400, 1000))
	rapid.Check(t, func(rt *rapid.T) {
		seq++
		h := hygCase{
			Mode:    rapid.SampledFrom([]string{"eval", "evalsha", "evalro", "evalrosha", "evalna", "evalnasha"}).Draw(rt, "mode"),
			Kind:    rapid.SampledFrom([]string{"ok", "runtime-error", "compile-error", "unknown-sha", "short-keys", "huge-numkeys", "timeout", "timed-out", "timed-out"}).Draw(rt, "kind"),
			Checker: rapid.SampledFrom([]string{"eval", "evalsha", "evalro", "evalrosha", "evalna", "evalnasha"}).Draw(rt, "checker"),
		}
		nk := rapid.IntRange(1, 4).Draw(rt, "nkeys")
		na := rapid.IntRange(1, 4).Draw(rt, "nargs")
		for i := 0; i < nk; i++ {
			h.Keys = append(h.Keys, fmt.Sprintf("tok-k-%d-%d-%s", seq, i, rapid.StringMatching(`[a-z]{1,6}`).Draw(rt, "ktok")))
		}
		for i := 0; i < na; i++ {
			h.Args = append(h.Args, fmt.Sprintf("tok-a-%d-%d-%s", seq, i, rapid.StringMatching(`[a-z]{1,6}`).Draw(rt, "atok")))
		}
		c.Case()
		runHygiene(rt, c, conn, h)
		c.NonTrivial(fmt.Sprintf("%s|%s|%s|%d|%d", h.Kind, h.Mode, h.Checker, nk, na))
		c.Label("first-call:" + h.Kind)
	})
	best := 0
	for round := 0; round < ev.Pick(3, 8); round++ {
		if d := runPoolCycle(t, c, srv, round); d > best {
			best = d
		}
	}
	c.Note("pool cycling: checkers ran on up to %d distinct interpreters in one round", best)
	c.Label(fmt.Sprintf("distinct-interpreters-checked=%d", best))
	if best < 6 {
		c.Inconclusive("hygiene: concurrent checkers reached only %d distinct pooled interpreters (wanted >= 6)", best)
	} else {
		c.NonTrivial("pool-cycle>=6")
	}
}

// ---- finding probe -------------------------------------------------------------

const findingPoison = "script-mutates-shared-lua-environment"

// findingLeftover: cmdEvalUnified installs KEYS/ARGV/DEADLINE/EVAL_CMD before
// it compiles the script / looks the digest up, but registers the deferred
// reset only afterwards; on a compile error or an unknown digest they stay in
// the pooled interpreter. A later EVAL overwrites all four, but a WHEREEVAL
// clause sets only ARGV and so reads the earlier call's KEYS.
const findingLeftover = "script-error-path-leaves-keys"

func probeLeftover(t testing.TB, c *ev.Collector) {
	srv := mustStart(t, t38.Opts{})
	defer srv.StopAsync()
	a, b := srv.MustDial(), srv.MustDial()
	defer a.Close()
	defer b.Close()
	a.MustDo("SET", "k", "o", "POINT", "1", "2")
	var seen []string
	for _, first := range [][]string{
		{"EVAL", "return }", "1", "secret-key", "secret-arg"},
		{"EVALROSHA", "00000000000000000000000000000000000000aa", "1", "secret-key", "secret-arg"},
	} {
		c.Case()
		fv, _ := a.Do(first...)
		v, _ := b.Do("SCAN", "k", "WHEREEVAL", "return KEYS ~= nil and KEYS[1] == 'secret-key' and EVAL_CMD ~= nil", "0", "COUNT")
		if fv.IsErr() && v.Equal(t38.Int(1)) {
			seen = append(seen, fmt.Sprintf("client A: %s -> %s; client B: SCAN k WHEREEVAL \"return KEYS ~= nil and KEYS[1] == 'secret-key' and EVAL_CMD ~= nil\" 0 COUNT -> 1", t38.CmdString(first), fv))
		}
		a.Do("EVAL", "return 1", "0") // a successful call cleans the interpreter again
	}
	if len(seen) == 0 {
		c.Label("leftover:not-reproduced")
		return
	}
	c.NonTrivial("leftover-probe")
	knownOrViolation(c, findingLeftover, "KEYS/EVAL_CMD of a call that failed to compile (or named an unknown digest) stay in the pooled interpreter and are read by a later WHEREEVAL clause of another client: "+strings.Join(seen, " | "), map[string]any{"sub": "poison", "observations": seen})
}

// probePoison: the globals table refuses NEW string keys, but the library
// tables (and existing globals, and the array part of _G via table.insert)
// are writable, and the interpreters are pooled: what one script stores or
// replaces there is seen by every later script of any client. Runs on its own
// throw-away server because it damages the interpreters.
func probePoison(t testing.TB, c *ev.Collector) {
	srv := mustStart(t, t38.Opts{})
	defer srv.StopAsync()
	a, b := srv.MustDial(), srv.MustDial()
	defer a.Close()
	defer b.Close()
	var seen []string
	c.Case()
	a.Do("EVAL", "math.c18_stash = {KEYS[1], ARGV[1]} return 1", "1", "secret-key", "secret-arg")
	if v, _ := b.Do("EVALRO", "return math.c18_stash", "0"); v.Kind == '*' && len(v.Arr) == 2 && v.Arr[0].Str == "secret-key" && v.Arr[1].Str == "secret-arg" {
		seen = append(seen, "client A: EVAL \"math.c18_stash = {KEYS[1], ARGV[1]} return 1\" 1 secret-key secret-arg; client B: EVALRO \"return math.c18_stash\" 0 -> [secret-key secret-arg] (a call's KEYS/ARGV survive the call)")
	}
	c.Case()
	a.Do("EVAL", "table.insert(_G, ARGV[1]) return 1", "0", "new-global")
	if v, _ := b.Do("EVALRO", "return _G[1]", "0"); v.Str == "new-global" {
		seen = append(seen, "client A: EVAL \"table.insert(_G, ARGV[1]) return 1\" 0 new-global; client B: EVALRO \"return _G[1]\" 0 -> new-global (a new global was created)")
	}
	c.Case()
	a.Do("EVALRO", "tile38.sha1hex = function(s) return 'forged' end return 1", "0")
	if v, _ := b.Do("EVAL", "return tile38.sha1hex('x')", "0"); v.Str == "forged" {
		seen = append(seen, "client A: EVALRO \"tile38.sha1hex = function(s) return 'forged' end return 1\" 0; client B: EVAL \"return tile38.sha1hex('x')\" 0 -> forged (an allow-listed function was replaced for other clients, through the read-only variant)")
	}
	c.Case()
	a.Do("EVALRO", "tostring = nil return 1", "0")
	if v, _ := b.Do("EVAL", "return tostring(1)", "0"); v.IsErr() {
		seen = append(seen, "client A: EVALRO \"tostring = nil return 1\" 0; client B: EVAL \"return tostring(1)\" 0 -> "+v.String()+" (the environment of later scripts is no longer the allow-list)")
	}
	if len(seen) == 0 {
		c.Label("poison:not-reproduced")
		return
	}
	c.NonTrivial("poison-probe")
	knownOrViolation(c, findingPoison, "scripts can modify the pooled interpreter for every later script: "+strings.Join(seen, " | "), map[string]any{"sub": "poison", "observations": seen})
}

func TestC18_Poison(t *testing.T) {
	c := ev.New(prop, "poison", "exploration")
	t.Cleanup(c.Flush)
	c.Rule("deterministic probe of finding " + findingPoison + " on a throw-away server: one client stores its KEYS/ARGV in math, appends to _G with table.insert, replaces tile38.sha1hex, and sets tostring = nil (the last two through EVALRO); a second client then looks. Non-trivial when at least one of the four reproduces. Second probe, finding " + findingLeftover + ": EVAL with a syntax error / EVALROSHA with an unknown digest carrying a key, then another client's WHEREEVAL clause reads KEYS[1].")
	probePoison(t, c)
	probeLeftover(t, c)
}

// C18: scripts are atomic, honour their read-only variants, and are sandboxed.
//
// Sub-checks (one file each):
//
//	atomic    generated scripts against concurrent writers / a concurrent pair-writing script / an outside reader
//	lockprobe deterministic half: DevMode SLEEP parks a reader on the shared lock
//	logging   every write a script makes is in the AOF, survives a restart and reaches a follower
//	readonly  every command of the command table under EVALRO vs EVAL
//	sandbox   exact set of names reachable from a script's globals (Go walk + over-the-wire prober)
//	escapes   generated escape attempts, all must fail and leave no side effect
//	hygiene   KEYS/ARGV never leak between calls on pooled interpreters
//	poison    probe for the finding script-mutates-shared-lua-environment
package c18

import (
	"fmt"
	"os"
	"strings"
	"testing"
	"time"

	"github.com/tidwall/tile38/verif/harness/ev"
	"github.com/tidwall/tile38/verif/harness/t38"
)

const prop = "C18"

func TestMain(m *testing.M) {
	os.Exit(m.Run())
}

// luaQuote renders s as a Lua string literal (decimal escapes for anything
// that is not plainly printable).
func luaQuote(s string) string {
	var b strings.Builder
	b.WriteByte('"')
	for i := 0; i < len(s); i++ {
		c := s[i]
		switch {
		case c >= 'a' && c <= 'z', c >= 'A' && c <= 'Z', c >= '0' && c <= '9',
			strings.IndexByte(" _-.:,/*?[]{}()=+<>!@#$%^&;|~", c) >= 0:
			b.WriteByte(c)
		default:
			fmt.Fprintf(&b, "\\%03d", c)
		}
	}
	b.WriteByte('"')
	return b.String()
}

// isSha reports whether mode is one of the -SHA variants.
func isSha(mode string) bool { return strings.HasSuffix(mode, "sha") }

// baseMode strips the sha suffix: eval, evalro, evalna.
func baseMode(mode string) string { return strings.TrimSuffix(mode, "sha") }

// prepScript returns the first argument for the given mode (the script text,
// or its digest after SCRIPT LOAD).
func prepScript(c *t38.Conn, mode, script string) (string, error) {
	if !isSha(mode) {
		return script, nil
	}
	v, err := c.Do("SCRIPT", "LOAD", script)
	if err != nil {
		return "", err
	}
	if v.Kind != '$' || len(v.Str) != 40 {
		return "", fmt.Errorf("SCRIPT LOAD: unexpected reply %s", v)
	}
	return v.Str, nil
}

// scriptCmd builds the full command.
func scriptCmd(mode, first string, keys, args []string) []string {
	cmd := []string{strings.ToUpper(mode), first, fmt.Sprint(len(keys))}
	cmd = append(cmd, keys...)
	return append(cmd, args...)
}

// runScript loads (for sha modes) and runs a script.
func runScript(c *t38.Conn, mode, script string, keys, args []string) (t38.Value, error) {
	first, err := prepScript(c, mode, script)
	if err != nil {
		return t38.Value{}, err
	}
	return c.Do(scriptCmd(mode, first, keys, args)...)
}

func fileSize(path string) int64 {
	st, err := os.Stat(path)
	if err != nil {
		return 0
	}
	return st.Size()
}

// aofFrom parses the commands appended to the log after offset off.
func aofFrom(path string, off int64) ([]t38.AOFCmd, error) {
	b, err := os.ReadFile(path)
	if err != nil {
		return nil, err
	}
	if off > int64(len(b)) {
		return nil, fmt.Errorf("aof shrank: offset %d > size %d", off, len(b))
	}
	cmds, consumed, err := t38.ParseAOFBytes(b[off:])
	if err != nil {
		return nil, err
	}
	if consumed != int64(len(b))-off {
		return cmds, fmt.Errorf("aof has an unparsable tail at %d of %d", off+consumed, len(b))
	}
	return cmds, nil
}

func mustStart(t testing.TB, o t38.Opts) *t38.Srv {
	t.Helper()
	s, err := t38.Start(o)
	if err != nil {
		t.Fatalf("cannot start server: %v", err)
	}
	return s
}

func lower(ss []string) []string {
	out := make([]string, len(ss))
	for i, s := range ss {
		out[i] = strings.ToLower(s)
	}
	return out
}

func since(base time.Time) time.Duration { return time.Since(base) }

// knownOrViolation routes a reproduced finding: listed as known -> KNOWN-FINDING,
// otherwise a violation keyed with the finding id.
func knownOrViolation(c *ev.Collector, id, what string, replay any) {
	if ev.KnownActive(id) {
		c.Known(id, what)
		return
	}
	c.Violation(id, what, replay)
}

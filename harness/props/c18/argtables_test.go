package c18

import (
	"fmt"
	"strings"
	"testing"

	"github.com/tidwall/tile38/verif/harness/ev"
	"github.com/tidwall/tile38/verif/harness/t38"
	"pgregory.net/rapid"
)

// Scripts may WRITE into their KEYS and ARGV tables. Those tables belong to
// one call: whatever a script appends, overwrites or names in them must be
// gone for the next call, and a call without keys / arguments must get
// tables of its own (not one shared by calls, nor one shared by KEYS and
// ARGV). There is no setmetatable/rawequal in the sandbox; identity is
// compared with ==.

type polCase struct {
	Polluter  bool     `json:"polluter"` // marks the replay shape
	Mode      string   `json:"mode"`
	ViaFilter bool     `json:"via_filter"` // the polluter is a WHEREEVAL filter
	NK        int      `json:"nk"`
	NA        int      `json:"na"`
	Ops       []string `json:"ops"`
	Name      string   `json:"name"`
	Token     string   `json:"token"`
}

var polOps = []string{
	"KEYS[#KEYS+1] = '$T'", "ARGV[#ARGV+1] = '$T'", "table.insert(KEYS, '$T')", "table.insert(ARGV, '$T')", "table.insert(ARGV, 1, '$T')",
	"KEYS[1] = '$T'", "ARGV[1] = '$T'", "KEYS[3] = '$T'", "ARGV[2] = '$T'", "KEYS.$N = '$T'", "ARGV.$N = '$T'", "KEYS['$N'] = ARGV", "ARGV['$N'] = KEYS",
	"if #ARGV == 0 then ARGV[1] = '$T' end", "if #KEYS == 0 then KEYS[1] = '$T' end", "ARGV[#ARGV+1] = EVAL_CMD", "table.sort(ARGV)", "table.remove(KEYS)",
}

var polFilterOps = []string{
	"ARGV[#ARGV+1] = '$T'", "table.insert(ARGV, '$T')", "ARGV[1] = '$T'", "ARGV[2] = '$T'", "ARGV.$N = '$T'", "if #ARGV == 0 then ARGV[1] = '$T' end", "ARGV['$N'] = ARGV",
}

func (p polCase) body() string {
	s := strings.Join(p.Ops, " ")
	s = strings.ReplaceAll(s, "$T", p.Token)
	return strings.ReplaceAll(s, "$N", p.Name)
}

func nTokens(prefix string, n int) []string {
	var out []string
	for i := 0; i < n; i++ {
		out = append(out, fmt.Sprintf("%s-%d", prefix, i))
	}
	return out
}

func runPolluter(t ev.Failer, c *ev.Collector, same, other *t38.Conn, p polCase) {
	t.Helper()
	rep := map[string]any{"polluter": true, "case": p}
	keys, args := nTokens("pk-"+p.Token, p.NK), nTokens("pa-"+p.Token, p.NA)
	var polCmd []string
	if p.ViaFilter {
		polCmd = append([]string{"SCAN", "hyg", "WHEREEVAL", p.body() + " return true", fmt.Sprint(p.NA)}, args...)
		polCmd = append(polCmd, "COUNT")
	} else {
		first, err := prepScript(same, p.Mode, p.body()+" return 1")
		if err != nil {
			c.Fail(t, "script-transport", err.Error(), rep)
		}
		polCmd = scriptCmd(p.Mode, first, keys, args)
	}
	pv, err := same.Do(polCmd...)
	if err != nil {
		c.Fail(t, "script-transport", err.Error(), rep)
	}
	fail := func(who string, cmd []string, v t38.Value) {
		c.Fail(t, "hygiene:keys-argv-table-shared", fmt.Sprintf("after %s (answered %s), %s %s sees %s - a call must see exactly the keys/arguments it was given, in tables of its own", t38.CmdString(polCmd), pv, who, t38.CmdString(cmd), v), rep)
	}
	obs := fmt.Sprintf("return {#KEYS, #ARGV, tostring(KEYS[1]), tostring(ARGV[1]), tostring(KEYS == ARGV), tostring(KEYS.%s), tostring(ARGV.%s), tostring(KEYS[3]), tostring(ARGV[2])}", p.Name, p.Name)
	for ci, conn := range []*t38.Conn{same, other} {
		who := []string{"the same client's", "another client's"}[ci]
		for _, mode := range []string{"eval", "evalsha", "evalro", "evalrosha", "evalna", "evalnasha"} {
			first, err := prepScript(conn, mode, obs)
			if err != nil {
				c.Fail(t, "script-transport", err.Error(), rep)
			}
			// without keys and arguments
			cmd := scriptCmd(mode, first, nil, nil)
			v, err := conn.Do(cmd...)
			want := t38.Array(t38.Int(0), t38.Int(0), t38.Bulk("nil"), t38.Bulk("nil"), t38.Bulk("false"), t38.Bulk("nil"), t38.Bulk("nil"), t38.Bulk("nil"), t38.Bulk("nil"))
			if err != nil || !v.Equal(want) {
				fail(who, cmd, v)
			}
			// with its own
			cmd = scriptCmd(mode, first, []string{"own-key"}, []string{"own-a1", "own-a2"})
			v, err = conn.Do(cmd...)
			want = t38.Array(t38.Int(1), t38.Int(2), t38.Bulk("own-key"), t38.Bulk("own-a1"), t38.Bulk("false"), t38.Bulk("nil"), t38.Bulk("nil"), t38.Bulk("nil"), t38.Bulk("own-a2"))
			if err != nil || !v.Equal(want) {
				fail(who, cmd, v)
			}
		}
		// a filter without arguments, and one with its own
		cmd := []string{"SCAN", "hyg", "WHEREEVAL", fmt.Sprintf("return #ARGV == 0 and ARGV[1] == nil and ARGV[2] == nil and ARGV.%s == nil and KEYS == nil", p.Name), "0", "COUNT"}
		if v, err := conn.Do(cmd...); err != nil || !v.Equal(t38.Int(1)) {
			fail(who+" WHEREEVAL filter (COUNT must be 1)", cmd, v)
		}
		cmd = []string{"SCAN", "hyg", "WHEREEVAL", fmt.Sprintf("return #ARGV == 1 and ARGV[1] == 'own' and ARGV[2] == nil and ARGV.%s == nil", p.Name), "1", "own", "COUNT"}
		if v, err := conn.Do(cmd...); err != nil || !v.Equal(t38.Int(1)) {
			fail(who+" WHEREEVAL filter (COUNT must be 1)", cmd, v)
		}
	}
}

func TestC18_ArgTables(t *testing.T) {
	c := ev.New(prop, "argtables", "exploration")
	t.Cleanup(c.Flush)
	c.Rule("polluter: a script (six EVAL variants) or a WHEREEVAL filter called with 0, 1 or 3 keys and 0, 1 or 3 arguments performs 1-4 drawn writes into its KEYS/ARGV tables (append with #+1 and table.insert, overwrite [1], sparse [3]/[2], named member with a generated name, cross-reference KEYS<->ARGV, the default-argument idiom `if #ARGV == 0 then ARGV[1] = ... end`, table.sort/remove). Then observers on the same and on another connection, all six variants, called without keys/arguments and with their own (1 key, 2 args), report #KEYS, #ARGV, KEYS[1], ARGV[1], KEYS == ARGV, the named members, KEYS[3], ARGV[2]; WHEREEVAL filters without and with one argument check the same for ARGV. Oracle: an observer sees exactly what it was called with, KEYS and ARGV are distinct tables. Non-trivial: every case; distinct by mode, counts, operations. (setmetatable/rawequal do not exist in the sandbox.)")
	srv := mustStart(t, t38.Opts{})
	defer srv.StopAsync()
	same, other := srv.MustDial(), srv.MustDial()
	defer same.Close()
	defer other.Close()
	same.MustDo("SET", "hyg", "o", "POINT", "1", "2")
	ident := rapid.StringMatching(`[a-z][a-z0-9_]{0,7}`)
	seq := 0
	ev.Rapid("argtables", ev.Pick(150, 1500))
	rapid.Check(t, func(rt *rapid.T) {
		seq++
		p := polCase{
			Polluter:  true,
			Mode:      rapid.SampledFrom([]string{"eval", "evalsha", "evalro", "evalrosha", "evalna", "evalnasha"}).Draw(rt, "mode"),
			ViaFilter: rapid.IntRange(0, 4).Draw(rt, "filter?") == 0,
			NK:        rapid.SampledFrom([]int{0, 0, 0, 1, 3}).Draw(rt, "nk"),
			NA:        rapid.SampledFrom([]int{0, 0, 0, 1, 3}).Draw(rt, "na"),
			Name:      ident.Draw(rt, "name"),
			Token:     fmt.Sprintf("pol%d", seq),
		}
		if luaKeywords[p.Name] {
			rt.Skip("keyword")
		}
		src := polOps
		if p.ViaFilter {
			src = polFilterOps
		}
		p.Ops = rapid.SliceOfN(rapid.SampledFrom(src), 1, 4).Draw(rt, "ops")
		c.Case()
		runPolluter(rt, c, same, other, p)
		c.NonTrivial(fmt.Sprintf("%s|%v|%d|%d|%s", p.Mode, p.ViaFilter, p.NK, p.NA, strings.Join(p.Ops, ";")))
		c.Label(fmt.Sprintf("keys=%d/args=%d", p.NK, p.NA))
		if c.WantSample() {
			c.Sample(p)
		}
	})
}

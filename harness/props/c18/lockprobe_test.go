package c18

import (
	"fmt"
	"strconv"
	"sync"
	"testing"
	"time"

	"github.com/tidwall/tile38/verif/harness/ev"
	"github.com/tidwall/tile38/verif/harness/t38"
)

// The deterministic half of the atomicity check. DevMode SLEEP <d> holds the
// shared lock for d. Let the sleeper be sent at a0 and answered at a1: the
// lock is held over some [x, x+d] with a0 <= x <= a1-d. A command sent at
// b0 > a1-d therefore finds the lock held, and anything that needs the
// exclusive lock cannot execute before x+d >= a0+d. So
//     b0 > a1-d  and  execution time e < a0+d   ==> it ran while the reader was parked.
// For EVAL/EVALSHA with a write (and for a write inside EVALNA) that is a
// violation; for EVALRO it is the positive evidence that it shares the lock.
// The execution time is NOT the reply time: the reply of anything that wrote
// is held back until the log is flushed, and the flush takes the exclusive
// lock itself (prewriteAOF), so a script that wrongly ran beside the reader
// would still be answered late. Every probe script therefore ends with
// `return tostring(os.clock())`, taken after its last tile38.call; os.clock
// is the server's monotonic time since start and is calibrated against the
// harness clock before every round (offset bracketed by [send, reply] of
// EVALRO "return tostring(os.clock())"; the upper bound is used).
// Only orderings of monotonic timestamps are used, no thresholds: a slow
// machine makes rounds inconclusive (b0 <= a1-d), never wrong.

type lockVariant struct {
	Name      string
	Exclusive bool // must wait behind the parked reader
	Control   bool
	Cmd       func(tok string) (mode, script string, plain []string)
}

var lockVariants = []lockVariant{
	{"evalro", false, false, func(string) (string, string, []string) {
		return "evalro", "local v = {tile38.call('GET','k','id1'), tile38.call('GET','k','id1')} return tostring(os.clock())", nil
	}},
	{"evalrosha", false, false, func(string) (string, string, []string) {
		return "evalrosha", "local v = {tile38.call('GET','k','id1'), tile38.call('EXISTS','k','id1')} return tostring(os.clock())", nil
	}},
	{"evalna-reads-only", false, false, func(string) (string, string, []string) {
		return "evalna", "local v = tile38.call('GET','k','id1') return tostring(os.clock())", nil
	}},
	{"get", false, true, func(string) (string, string, []string) { return "", "", []string{"GET", "k", "id1"} }},
	{"eval-write", true, false, func(string) (string, string, []string) {
		return "eval", "tile38.call('SET','p','e','STRING',ARGV[1]) return tostring(os.clock())", nil
	}},
	{"evalsha-write", true, false, func(string) (string, string, []string) {
		return "evalsha", "tile38.call('SET','p','s','STRING',ARGV[1]) return tostring(os.clock())", nil
	}},
	{"eval-read-then-write", true, false, func(string) (string, string, []string) {
		return "eval", "local v = tile38.call('GET','k','id1') tile38.call('SET','p','rw','STRING',ARGV[1]) return tostring(os.clock())", nil
	}},
	{"evalna-write", true, false, func(string) (string, string, []string) {
		return "evalna", "local v = tile38.call('GET','k','id1') tile38.call('SET','p','na','STRING',ARGV[1]) return tostring(os.clock())", nil
	}},
	{"set", true, true, func(tok string) (string, string, []string) {
		return "", "", []string{"SET", "p", "plain", "STRING", tok}
	}},
}

type lockObs struct {
	b0, b1 time.Duration
	v      t38.Value
	err    error
}

func runLockProbe(t testing.TB, c *ev.Collector, rounds int) {
	srv := mustStart(t, t38.Opts{DevMode: true})
	defer srv.StopAsync()
	ctl := srv.MustDial()
	defer ctl.Close()
	ctl.MustDo("SET", "k", "id1", "STRING", "7")
	sleeper := srv.MustDial()
	defer sleeper.Close()
	conns := make([]*t38.Conn, len(lockVariants))
	for i := range conns {
		conns[i] = srv.MustDial()
		defer conns[i].Close()
	}
	const d = 400 * time.Millisecond
	base := time.Now()
	overlapped := map[string]int{}
	waited := map[string]int{}
	conclusive := map[string]int{}
	for round := 0; round < rounds; round++ {
		tok := fmt.Sprintf("r%d", round)
		// prepare commands outside the timed window
		cmds := make([][]string, len(lockVariants))
		for i, lv := range lockVariants {
			mode, script, plain := lv.Cmd(tok)
			if plain != nil {
				cmds[i] = plain
				continue
			}
			first, err := prepScript(conns[i], mode, script)
			if err != nil {
				t.Fatalf("SCRIPT LOAD: %v", err)
			}
			cmds[i] = scriptCmd(mode, first, nil, []string{tok})
		}
		// calibrate os.clock against the harness clock: clock c was read between s and r, so offset = t - c lies in [s-c, r-c]
		offHi := time.Duration(1<<62 - 1)
		for i := 0; i < 5; i++ {
			s0 := since(base)
			v, err := ctl.Do("EVALRO", "return tostring(os.clock())", "0")
			r0 := since(base)
			clk, perr := strconv.ParseFloat(v.Str, 64)
			if err != nil || perr != nil {
				t.Fatalf("os.clock calibration: %v %v %v", v, err, perr)
			}
			_ = s0
			if off := r0 - time.Duration(clk*float64(time.Second)); off < offHi {
				offHi = off
			}
		}
		obs := make([]lockObs, len(lockVariants))
		var wg sync.WaitGroup
		// one writing variant per round: a pending exclusive request makes
		// every later lock request queue behind it, which would hide a
		// variant that wrongly takes the shared lock
		var exclIdx []int
		for i, lv := range lockVariants {
			if lv.Exclusive {
				exclIdx = append(exclIdx, i)
			}
		}
		chosen := exclIdx[round%len(exclIdx)]
		fire := func(excl bool) {
			for i, lv := range lockVariants {
				if lv.Exclusive != excl || (excl && i != chosen) {
					continue
				}
				wg.Add(1)
				go func(i int) {
					defer wg.Done()
					obs[i].b0 = since(base)
					obs[i].v, obs[i].err = conns[i].Do(cmds[i]...)
					obs[i].b1 = since(base)
				}(i)
			}
		}
		a0 := since(base)
		if err := sleeper.Send("SLEEP", "0.4"); err != nil {
			t.Fatalf("SLEEP: %v", err)
		}
		time.Sleep(80 * time.Millisecond)
		fire(false)
		time.Sleep(80 * time.Millisecond)
		fire(true)
		sv, err := sleeper.Recv()
		a1 := since(base)
		wg.Wait()
		if err != nil || sv.IsErr() {
			t.Fatalf("SLEEP answered %v %v", sv, err)
		}
		for i, lv := range lockVariants {
			if lv.Exclusive && i != chosen {
				continue
			}
			o := obs[i]
			c.Case()
			if o.err != nil || o.v.IsErr() {
				c.Violation("lockprobe:command-failed", fmt.Sprintf("%s answered %v (err %v)", lv.Name, o.v, o.err), map[string]any{"variant": lv.Name})
				continue
			}
			parked := o.b0 > a1-d
			// latest possible execution time on the harness clock
			ran := o.b1
			if !lv.Control {
				clk, perr := strconv.ParseFloat(o.v.Str, 64)
				if perr != nil {
					c.Violation("lockprobe:command-failed", fmt.Sprintf("%s answered %v, expected os.clock()", lv.Name, o.v), map[string]any{"variant": lv.Name})
					continue
				}
				if e := time.Duration(clk*float64(time.Second)) + offHi; e < ran {
					ran = e
				}
			}
			early := ran < a0+d
			if !parked {
				c.Label("inconclusive-round:" + lv.Name)
				continue
			}
			conclusive[lv.Name]++
			c.NonTrivial(fmt.Sprintf("%s/round%d", lv.Name, round))
			switch {
			case lv.Exclusive && early:
				evd := map[string]any{"variant": lv.Name, "cmd": cmds[i], "sleep_sent_us": a0.Microseconds(), "sleep_answered_us": a1.Microseconds(),
					"cmd_sent_us": o.b0.Microseconds(), "cmd_answered_us": o.b1.Microseconds(), "script_finished_no_later_than_us": ran.Microseconds(), "sleep_us": d.Microseconds()}
				what := fmt.Sprintf("%s was sent %v after a reader parked on the shared lock for %v and had finished its last call at least %v before the reader could have released the lock", lv.Name, o.b0-a0, d, a0+d-ran)
				if lv.Control {
					c.Inconclusive("lockprobe: control %s overtook the parked reader (%s) - the lock table itself is broken (C07)", lv.Name, what)
				} else {
					c.Violation("script-not-atomic:write-overtook-parked-reader:"+baseMode(lower(cmds[i][:1])[0]), what, evd)
				}
			case lv.Exclusive:
				c.Label("waited-behind-reader:" + lv.Name)
			case early:
				overlapped[lv.Name]++
				c.Label("ran-beside-reader:" + lv.Name)
			default:
				waited[lv.Name]++
				c.Label("waited-behind-reader:" + lv.Name)
			}
		}
		// the writes took effect after the reader left
		for _, id := range []string{"e", "s", "rw", "na", "plain"} {
			if id != map[string]string{"eval-write": "e", "evalsha-write": "s", "eval-read-then-write": "rw", "evalna-write": "na", "set": "plain"}[lockVariants[chosen].Name] {
				continue
			}
			if v := ctl.MustDo("GET", "p", id); v.Str != tok {
				c.Violation("script-write-lost", fmt.Sprintf("after round %d p/%s = %s, expected %q", round, id, v, tok), map[string]any{"id": id})
			}
		}
	}
	for _, lv := range lockVariants {
		if conclusive[lv.Name] == 0 {
			c.Inconclusive("lockprobe: no conclusive round for %s (machine too slow: the command was not provably sent while the reader was parked)", lv.Name)
		} else if !lv.Exclusive && overlapped[lv.Name] == 0 {
			c.Inconclusive("lockprobe: %s never ran beside the parked reader in %d conclusive rounds (it waited %d times)", lv.Name, conclusive[lv.Name], waited[lv.Name])
		}
	}
}

func TestC18_LockProbe(t *testing.T) {
	c := ev.New(prop, "lockprobe", "exploration")
	t.Cleanup(c.Flush)
	c.Rule("DevMode SLEEP 0.4 parks a reader on the shared lock; 80 ms later EVALRO/EVALROSHA/read-only EVALNA/GET are sent, another 80 ms later ONE of {EVAL with a write, EVALSHA with a write, EVAL read-then-write, EVALNA with a write, plain SET (control)} (rotating per round; one per round because a queued exclusive request would make every later request wait). With sleeper interval [a0,a1], command interval [b0,b1]: a round is conclusive (non-trivial) for a command iff b0 > a1-0.4s (the lock was provably held when it was sent); then e < a0+0.4s, with e the script's own os.clock() reading after its last call (calibrated per round; reply time for the plain controls), proves it ran beside the reader - a violation for the writing variants, the expected evidence for the read-only ones. Distinct by variant and round.")
	runLockProbe(t, c, ev.Pick(10, 25))
}

package c16

import (
	"encoding/hex"
	"encoding/json"
	"fmt"
	"testing"

	"github.com/tidwall/tile38/verif/harness/ev"
)

// TestReplay re-executes a replay file written by one of the sub-checks.
func TestReplay(t *testing.T) {
	doc, ok := ev.ReplayFile()
	if !ok {
		t.Skip("no replay file")
	}
	c := ev.New("C16", "replay", "exploration")
	t.Cleanup(c.Flush)
	t.Cleanup(func() { drainExcluded(c) })
	c.Case()
	switch doc.Check {
	case "seg-2way", "seg-random", "seg-errtail":
		var r segReplay
		if err := json.Unmarshal(doc.Data, &r); err != nil || r.Stream == nil {
			t.Fatalf("bad replay data: %v", err)
		}
		b, _ := r.Stream.Encode()
		ref := readAll([][]byte{b})
		if ref.Panic != "" {
			c.Fail(t, crashID(ref.Frame), "PipelineReader panicked: "+ref.Panic, r)
		}
		if d := checkGroundTruth(*r.Stream, ref); d != "" {
			c.Fail(t, "uncut-parse-differs-from-encoded", d, r)
		}
		if d := diffResults(ref, readAll(cutBytes(b, r.Cuts))); d != "" {
			c.Fail(t, doc.Key, fmt.Sprintf("cuts %v: uncut vs cut: %s", clipInts(r.Cuts), d), r)
		}
	case "seg-arbitrary":
		var in fuzzInput
		if err := json.Unmarshal(doc.Data, &in); err != nil {
			t.Fatalf("bad replay data: %v", err)
		}
		b, _ := hex.DecodeString(in.Hex)
		sets := [][]int{in.Cuts}
		all := []int{}
		for p := 1; p < len(b) && len(b) <= 4096; p++ {
			all = append(all, p)
		}
		sets = append(sets, all)
		pres, diff, cuts := checkArbitrary(b, sets)
		if pres != nil {
			c.Fail(t, crashID(pres.Frame), "PipelineReader panicked: "+pres.Panic+" at "+pres.Frame, in)
		}
		if diff != "" {
			c.Fail(t, "cut-changes-parse:arbitrary", fmt.Sprintf("cuts %v: %s", clipInts(cuts), diff), in)
		}
	case "live", "live-pipeline", "live-errtail":
		var lc liveCase
		if err := json.Unmarshal(doc.Data, &lc); err != nil {
			t.Fatalf("bad replay data: %v", err)
		}
		twins(t)
		runLive(t, c, lc)
	case "live-burst":
		var bc burstCase
		if err := json.Unmarshal(doc.Data, &bc); err != nil {
			t.Fatalf("bad replay data: %v", err)
		}
		twins(t)
		runBurst(t, c, bc)
	case "seg-inputstream":
		var r segReplay
		if err := json.Unmarshal(doc.Data, &r); err != nil || r.Stream == nil {
			t.Fatalf("bad replay data: %v", err)
		}
		b, _ := r.Stream.Encode()
		var reads [][]byte
		pos := 0
		for _, sz := range r.Cuts { // the large socket reads
			if pos+sz < len(b) {
				reads = append(reads, b[pos:pos+sz])
				pos += sz
			}
		}
		for pos < len(b)-48 {
			sz := 1024
			if pos+sz > len(b)-48 {
				sz = len(b) - 48 - pos
			}
			reads = append(reads, b[pos:pos+sz])
			pos += sz
		}
		for ; pos < len(b); pos++ {
			reads = append(reads, b[pos:pos+1])
		}
		got, parked := serveLoop(reads)
		want, _ := r.Stream.Expect()
		if d := diffResults(parseResult{Msgs: want}, got); d != "" {
			c.Fail(t, "inputstream-loses-or-reorders", fmt.Sprintf("reads %v (parked up to %d): %s", r.Cuts, parked, d), r)
		}
	case "live-switch":
		var sc switchCase
		if err := json.Unmarshal(doc.Data, &sc); err != nil {
			t.Fatalf("bad replay data: %v", err)
		}
		twins(t)
		runSwitch(t, c, sc)
	case "contain-bytes", "contain-args", "probes":
		var in fuzzInput
		if err := json.Unmarshal(doc.Data, &in); err != nil {
			t.Fatalf("bad replay data: %v", err)
		}
		g := newGuard(t, c)
		defer g.stop()
		g.play(in)
		vd := g.check()
		switch {
		case vd.crashID != "":
			c.Fail(t, vd.crashID, fmt.Sprintf("%s -> %s at %s", describeInput(in), vd.panicLine, vd.frame), in)
		case vd.bystander != "":
			c.Fail(t, "bystander-affected", vd.bystander, in)
		}
	default:
		t.Fatalf("unknown check %q", doc.Check)
	}
}

// Part (a): segmentation of server.PipelineReader.ReadMessages, driven through
// a fake io.ReadWriter that hands out exactly the chosen chunks.
package c16

import (
	"bytes"
	"fmt"
	"io"
	"runtime/debug"
	"strings"
	"testing"

	"github.com/tidwall/tile38/internal/server"
	"github.com/tidwall/tile38/verif/harness/ev"
	"pgregory.net/rapid"
)

// chunkRW hands out the chunks one Read at a time (never across a chunk
// boundary; a chunk larger than the caller's buffer is continued on the next
// Read, like a socket) and records everything written.
type chunkRW struct {
	chunks [][]byte
	i, off int
	w      bytes.Buffer
	reads  int
}

func (c *chunkRW) Read(p []byte) (int, error) {
	for c.i < len(c.chunks) && c.off >= len(c.chunks[c.i]) {
		c.i++
		c.off = 0
	}
	if c.i >= len(c.chunks) {
		return 0, io.EOF
	}
	n := copy(p, c.chunks[c.i][c.off:])
	c.off += n
	c.reads++
	return n, nil
}

func (c *chunkRW) Write(p []byte) (int, error) { return c.w.Write(p) }

// parseResult is everything observable from reading a chunk sequence to its end.
type parseResult struct {
	Msgs    []Msg
	Err     string // first non-EOF error ("" = clean end of input)
	Written string
	Panic   string // top frames when the reader panicked
	Frame   string // top tile38/redcon frame of the panic
	Reads   int
}

func toMsg(m *server.Message) Msg {
	return Msg{Args: m.Args, ConnType: int(m.ConnType), OutputType: int(m.OutputType), Auth: m.Auth, AccEnc: m.AcceptEncoding, Strict: m.StrictRESP}
}

// readAll runs a fresh PipelineReader over the chunks the way netServe does:
// ReadMessages until an error; messages returned together with a protocol
// error are still delivered; the connection ends at the first error.
func readAll(chunks [][]byte) (res parseResult) {
	rw := &chunkRW{chunks: chunks}
	defer func() {
		if v := recover(); v != nil {
			st := string(debug.Stack())
			res.Panic = fmt.Sprint(v)
			res.Frame = topFrame(st)
			res.Written = rw.w.String()
			res.Reads = rw.reads
		}
	}()
	pr := server.NewPipelineReader(rw)
	for {
		msgs, err := pr.ReadMessages()
		for _, m := range msgs {
			if m != nil {
				res.Msgs = append(res.Msgs, toMsg(m))
			}
		}
		if err != nil {
			if err != io.EOF {
				res.Err = err.Error()
			}
			break
		}
	}
	res.Written = rw.w.String()
	res.Reads = rw.reads
	return res
}

func diffResults(a, b parseResult) string {
	if a.Panic != b.Panic {
		return fmt.Sprintf("panic %q vs %q", a.Panic, b.Panic)
	}
	n := len(a.Msgs)
	if len(b.Msgs) < n {
		n = len(b.Msgs)
	}
	for i := 0; i < n; i++ {
		if !a.Msgs[i].same(b.Msgs[i]) {
			return fmt.Sprintf("message %d: %s vs %s", i, a.Msgs[i].short(), b.Msgs[i].short())
		}
	}
	if len(a.Msgs) != len(b.Msgs) {
		return fmt.Sprintf("%d messages vs %d messages", len(a.Msgs), len(b.Msgs))
	}
	if a.Err != b.Err {
		return fmt.Sprintf("error %q vs %q", a.Err, b.Err)
	}
	if a.Written != b.Written {
		return fmt.Sprintf("written bytes %q vs %q", clip(a.Written, 300), clip(b.Written, 300))
	}
	return ""
}

func clip(s string, n int) string {
	if len(s) > n {
		return s[:n] + fmt.Sprintf("...(%d bytes)", len(s))
	}
	return s
}

// checkGroundTruth compares the uncut parse with what the generator encoded.
func checkGroundTruth(s Stream, got parseResult) string {
	wantMsgs, wantW := s.Expect()
	return diffResults(parseResult{Msgs: wantMsgs, Written: wantW, Err: s.ExpectErr()}, got)
}

// segReplay is the replay payload of the segmentation checks.
type segReplay struct {
	Stream *Stream `json:"stream,omitempty"`
	Hex    string  `json:"bytes_hex,omitempty"` // for arbitrary byte streams
	Cuts   []int   `json:"cuts"`
}

var allProtos = []string{"resp", "telnet", "native", "http"}

// TestC16_Seg2Way cuts every stream at every byte position.
func TestC16_Seg2Way(t *testing.T) {
	c := ev.New("C16", "seg-2way", "exploration")
	t.Cleanup(c.Flush)
	t.Cleanup(func() { drainExcluded(c) })
	c.Rule("streams of 1-40 commands (keyspace grammar, PING/ECHO, binary args) encoded as RESP, telnet lines (quoted where needed, some bare-LF), native $n lines, HTTP GET/POST and WebSocket upgrades, optional trailing OPTIONS, at most 8 KB; the uncut parse by PipelineReader.ReadMessages must equal the generator's ground truth and EVERY 2-way cut of the stream must give identical messages (args, conn/output type, auth, accept-encoding), error and written bytes. Non-trivial: the cut falls strictly inside a command; distinct by (protocol, region of the command, protocol of the next element, offset from the command start capped at 48, command name).")
	c.Exhaustive(true)
	o := streamOpts{maxCmds: 40, http: true, options: true, binary: true, protos: allProtos, maxBytes: 8192}
	ev.Rapid("seg-2way", ev.Pick(160, 1000))
	rapid.Check(t, func(rt *rapid.T) {
		s := drawStream(rt, o)
		b, offs := s.Encode()
		ref := readAll([][]byte{b})
		if ref.Panic != "" {
			c.Fail(rt, crashID(ref.Frame), "PipelineReader panicked on a valid stream: "+ref.Panic, segReplay{Stream: &s})
		}
		if d := checkGroundTruth(s, ref); d != "" {
			c.Fail(rt, "uncut-parse-differs-from-encoded", "expected vs parsed: "+d, segReplay{Stream: &s})
		}
		c.Label("streams")
		for _, pn := range strings.Split(s.protos(), ",") {
			c.Label("stream-has:" + pn)
		}
		for p := 1; p < len(b); p++ {
			c.Case()
			got := readAll([][]byte{b[:p], b[p:]})
			idx, proto, reg, inside := region(b, offs, s.Elems, p)
			if d := diffResults(ref, got); d != "" {
				c.Fail(rt, "cut-changes-parse:"+proto, fmt.Sprintf("2-way cut at %d of %d (%s %s): uncut vs cut: %s", p, len(b), proto, reg, d), segReplay{Stream: &s, Cuts: []int{p}})
			}
			c.Label("cut:" + proto + "/" + reg)
			if inside {
				next := "end"
				if idx+1 < len(s.Elems) {
					next = s.Elems[idx+1].Proto
				}
				rel := p - offs[idx]
				if rel > 48 {
					rel = 48
				}
				name := ""
				if len(s.Elems[idx].Args) > 0 {
					name = strings.ToLower(s.Elems[idx].Args[0])
				}
				c.NonTrivial(fmt.Sprintf("%s|%s|%s|%d|%s", proto, reg, next, rel, name))
			}
		}
		if c.WantSample() {
			c.Sample(map[string]any{"bytes": clip(string(b), 400), "len": len(b), "cuts": len(b) - 1})
		}
	})
}

// TestC16_SegRandom: longer streams with values beyond the 64 KiB read buffer,
// random k-way cuts, byte-at-a-time for the small ones.
func TestC16_SegRandom(t *testing.T) {
	c := ev.New("C16", "seg-random", "exploration")
	t.Cleanup(c.Flush)
	t.Cleanup(func() { drainExcluded(c) })
	c.Rule("streams of 1-200 commands in all five encodings with STRING values of 60-200 KB (also exactly around 65535 and 2*65535 bytes); ground truth for the uncut parse, then random k-way cuts (k<=50, a third of the cut points within 3 bytes of a command boundary or of a multiple of 65535), chunk sizes straddling 65535, and byte-at-a-time for streams up to 6 KB. Non-trivial: at least one cut strictly inside a command; distinct by (protocols, number of cuts, regions hit, has-big-value, byte-at-a-time).")
	bigKB := ev.Pick(200, 200)
	ev.Rapid("seg-random", ev.Pick(400, 4000))
	rapid.Check(t, func(rt *rapid.T) {
		o := streamOpts{maxCmds: 200, http: true, options: true, binary: true, protos: allProtos}
		big := rapid.IntRange(0, 3).Draw(rt, "bigstream") == 0
		if big {
			o.bigKB = bigKB
			o.maxCmds = 12
		}
		s := drawStream(rt, o)
		b, offs := s.Encode()
		ref := readAll([][]byte{b})
		if ref.Panic != "" {
			c.Fail(rt, crashID(ref.Frame), "PipelineReader panicked on a valid stream: "+ref.Panic, segReplay{Stream: &s})
		}
		if d := checkGroundTruth(s, ref); d != "" {
			c.Fail(rt, "uncut-parse-differs-from-encoded", "expected vs parsed: "+d, segReplay{Stream: &s})
		}
		for _, pn := range strings.Split(s.protos(), ",") {
			c.Label("stream-has:" + pn)
		}
		if len(b) > 65535 {
			c.Label("stream>64KiB")
		}
		prefer := append([]int(nil), offs...)
		for m := 65535; m < len(b); m += 65535 {
			prefer = append(prefer, m)
		}
		nVariants := 6
		for v := 0; v < nVariants; v++ {
			var cuts []int
			kind := "k-way"
			switch {
			case v == 0 && len(b) <= 6144:
				kind = "byte-at-a-time"
				for p := 1; p < len(b); p++ {
					cuts = append(cuts, p)
				}
			case v == 1 && len(b) > 65535:
				kind = "fixed-chunks"
				sz := rapid.SampledFrom([]int{65534, 65535, 65536, 32768, 4096, 70000, 1460}).Draw(rt, "chunksz")
				for p := sz; p < len(b); p += sz {
					cuts = append(cuts, p)
				}
			default:
				cuts = drawCuts(rt, len(b), 50, prefer)
			}
			c.Case()
			got := readAll(cutBytes(b, cuts))
			if d := diffResults(ref, got); d != "" {
				rc := cuts
				if len(rc) > 200 {
					rc = rc[:200]
				}
				c.Fail(rt, "cut-changes-parse:"+kind, fmt.Sprintf("%s cut (%d cuts) of %d bytes: uncut vs cut: %s", kind, len(cuts), len(b), d), segReplay{Stream: &s, Cuts: cuts})
			}
			c.Label("variant:" + kind)
			regs := map[string]bool{}
			inside := false
			for i, p := range cuts {
				if i > 400 {
					break
				}
				_, proto, reg, in := region(b, offs, s.Elems, p)
				if in {
					inside = true
					regs[proto+"/"+reg] = true
				}
			}
			if inside {
				var rs []string
				for r := range regs {
					rs = append(rs, r)
				}
				sortStrings(rs)
				for _, r := range rs {
					c.Label("cut:" + r)
				}
				c.NonTrivial(fmt.Sprintf("%s|%s|%d|%v|%v", s.protos(), kind, len(cuts), rs, len(b) > 65535))
			}
		}
		if c.WantSample() {
			c.Sample(map[string]any{"elems": len(s.Elems), "bytes": len(b), "protos": s.protos(), "head": clip(string(b), 200)})
		}
	})
}

func sortStrings(a []string) {
	for i := 1; i < len(a); i++ {
		for j := i; j > 0 && a[j-1] > a[j]; j-- {
			a[j-1], a[j] = a[j], a[j-1]
		}
	}
}

// Part (b): the same streams against a live in-process server over TCP with
// TCP_NODELAY, cut into segments; the concatenated replies (elapsed removed)
// must equal those of an uncut run on an identically prepared twin server, with
// exactly one reply per command, in order.
package c16

import (
	"bytes"
	"fmt"
	"net"
	"regexp"
	"strconv"
	"strings"
	"sync"
	"testing"
	"time"

	"github.com/tidwall/tile38/verif/harness/ev"
	"github.com/tidwall/tile38/verif/harness/gen"
	"github.com/tidwall/tile38/verif/harness/t38"
	"pgregory.net/rapid"
)

var (
	twinOnce   sync.Once
	twinA      *t38.Srv // reference: uncut
	twinB      *t38.Srv // subject: cut
	ctlA, ctlB *t38.Conn
	twinErr    error
)

func twins(t *testing.T) {
	twinOnce.Do(func() {
		twinA, twinErr = t38.Start(t38.Opts{HTTP: true, DevMode: true})
		if twinErr != nil {
			return
		}
		twinB, twinErr = t38.Start(t38.Opts{HTTP: true, DevMode: true})
		if twinErr != nil {
			return
		}
		ctlA, ctlB = twinA.MustDial(), twinB.MustDial()
	})
	if twinErr != nil {
		t.Fatalf("cannot start twin servers: %v", twinErr)
	}
}

func stopTwins() {
	if twinA != nil {
		twinA.StopAsync()
	}
	if twinB != nil {
		twinB.Stop()
	}
}

var elapsedRE = regexp.MustCompile(`,?"elapsed":"[^"]*"`)

func stripElapsed(s string) string { return elapsedRE.ReplaceAllString(s, "") }

// canonValue removes the elapsed member from every bulk string of a reply.
func canonValue(v t38.Value) t38.Value {
	if v.Kind == '$' && !v.Null {
		v.Str = stripElapsed(v.Str)
	}
	if len(v.Arr) > 0 {
		arr := make([]t38.Value, len(v.Arr))
		for i, e := range v.Arr {
			arr[i] = canonValue(e)
		}
		v.Arr = arr
	}
	return v
}

// ---- incremental reply tokenizer ---------------------------------------------

// respLen returns the length of the RESP value at the start of b, or 0 when it
// is not complete yet.
func respLen(b []byte) (int, error) {
	if len(b) == 0 {
		return 0, nil
	}
	eol := bytes.Index(b, []byte("\r\n"))
	if eol < 0 {
		if len(b) > 1<<20 {
			return 0, fmt.Errorf("no CRLF in the first MiB of a reply starting %q", clip(string(b), 40))
		}
		return 0, nil
	}
	switch b[0] {
	case '+', '-', ':':
		return eol + 2, nil
	case '$':
		n, err := strconv.Atoi(string(b[1:eol]))
		if err != nil || n < -1 {
			return 0, fmt.Errorf("bad bulk header %q", clip(string(b[:eol]), 40))
		}
		if n == -1 {
			return eol + 2, nil
		}
		if len(b) < eol+2+n+2 {
			return 0, nil
		}
		if b[eol+2+n] != '\r' || b[eol+2+n+1] != '\n' {
			return 0, fmt.Errorf("bulk of %d bytes not terminated by CRLF", n)
		}
		return eol + 2 + n + 2, nil
	case '*':
		n, err := strconv.Atoi(string(b[1:eol]))
		if err != nil || n < -1 {
			return 0, fmt.Errorf("bad array header %q", clip(string(b[:eol]), 40))
		}
		pos := eol + 2
		for i := 0; i < n; i++ {
			l, err := respLen(b[pos:])
			if err != nil || l == 0 {
				return 0, err
			}
			pos += l
		}
		return pos, nil
	}
	return 0, fmt.Errorf("reply starts with %q, not a RESP type byte", clip(string(b), 40))
}

// nativeLen: "$<n> <n bytes>\r\n".
func nativeLen(b []byte) (int, error) {
	if len(b) == 0 {
		return 0, nil
	}
	if b[0] != '$' {
		return 0, fmt.Errorf("native reply starts with %q", clip(string(b), 40))
	}
	sp := bytes.IndexByte(b, ' ')
	if sp < 0 {
		if len(b) > 24 {
			return 0, fmt.Errorf("native reply without length: %q", clip(string(b), 40))
		}
		return 0, nil
	}
	n, err := strconv.Atoi(string(b[1:sp]))
	if err != nil || n < 0 {
		return 0, fmt.Errorf("bad native length %q", clip(string(b[:sp]), 40))
	}
	if len(b) < sp+1+n+2 {
		return 0, nil
	}
	if b[sp+1+n] != '\r' || b[sp+1+n+1] != '\n' {
		return 0, fmt.Errorf("native reply of %d bytes not terminated by CRLF", n)
	}
	return sp + 1 + n + 2, nil
}

// httpLen: header block + Content-Length body.
func httpLen(b []byte) (int, error) {
	he := bytes.Index(b, []byte("\r\n\r\n"))
	if he < 0 {
		return 0, nil
	}
	if !bytes.HasPrefix(b, []byte("HTTP/1.1 ")) {
		return 0, fmt.Errorf("HTTP reply starts with %q", clip(string(b), 40))
	}
	cl := 0
	for _, h := range strings.Split(string(b[:he]), "\r\n")[1:] {
		if strings.HasPrefix(strings.ToLower(h), "content-length:") {
			n, err := strconv.Atoi(strings.TrimSpace(h[len("content-length:"):]))
			if err != nil {
				return 0, fmt.Errorf("bad Content-Length %q", h)
			}
			cl = n
		}
	}
	if len(b) < he+4+cl {
		return 0, nil
	}
	return he + 4 + cl, nil
}

// wsFrameLen: one unmasked server-to-client frame.
func wsFrameLen(b []byte) (hdr, total int, err error) {
	if len(b) < 2 {
		return 0, 0, nil
	}
	if b[0] != 0x81 {
		return 0, 0, fmt.Errorf("websocket frame starts with byte %#x", b[0])
	}
	switch l := int(b[1]); {
	case l <= 125:
		hdr, total = 2, 2+l
	case l == 126:
		if len(b) < 4 {
			return 0, 0, nil
		}
		hdr, total = 4, 4+int(b[2])<<8+int(b[3])
	case l == 127:
		if len(b) < 10 {
			return 0, 0, nil
		}
		n := 0
		for _, x := range b[2:10] {
			n = n<<8 | int(x)
		}
		hdr, total = 10, 10+n
	default:
		return 0, 0, fmt.Errorf("masked websocket frame from server")
	}
	if len(b) < total {
		return 0, 0, nil
	}
	return hdr, total, nil
}

// replyKind says how the reply of an element is framed on the wire.
type replyKind int

const (
	rkRESP replyKind = iota
	rkNative
	rkHTTP
	rkWS // 101 head followed by one frame
)

// nextReply cuts one reply of the given framing from the start of b and
// returns its canonical text (length prefixes and elapsed removed); n==0 means
// incomplete.
func nextReply(b []byte, k replyKind) (n int, canon string, err error) {
	switch k {
	case rkRESP:
		n, err = respLen(b)
		if n == 0 || err != nil {
			return 0, "", err
		}
		vs, perr := t38.ParseAll(b[:n])
		if perr != nil || len(vs) != 1 {
			return 0, "", fmt.Errorf("malformed RESP reply %q: %v", clip(string(b[:n]), 80), perr)
		}
		return n, canonValue(vs[0]).String(), nil
	case rkNative:
		n, err = nativeLen(b)
		if n == 0 || err != nil {
			return 0, "", err
		}
		sp := bytes.IndexByte(b, ' ')
		return n, "native:" + stripElapsed(string(b[sp+1:n-2])), nil
	case rkHTTP:
		n, err = httpLen(b)
		if n == 0 || err != nil {
			return 0, "", err
		}
		he := bytes.Index(b, []byte("\r\n\r\n"))
		var hs []string
		for _, h := range strings.Split(string(b[:he]), "\r\n") {
			if !strings.HasPrefix(strings.ToLower(h), "content-length:") {
				hs = append(hs, h)
			}
		}
		return n, "http:" + strings.Join(hs, "|") + "||" + stripElapsed(string(b[he+4:n])), nil
	case rkWS:
		he := bytes.Index(b, []byte("\r\n\r\n"))
		if he < 0 {
			return 0, "", nil
		}
		hdr, total, err := wsFrameLen(b[he+4:])
		if total == 0 || err != nil {
			return 0, "", err
		}
		return he + 4 + total, "ws:" + string(b[:he]) + "||" + stripElapsed(string(b[he+4+hdr:he+4+total])), nil
	}
	return 0, "", fmt.Errorf("unknown reply kind")
}

// ---- a raw connection with a background reader ------------------------------

type rawConn struct {
	c    net.Conn
	mu   sync.Mutex
	buf  []byte
	eof  bool
	rerr error
	sig  chan struct{}
	pos  int      // tokenizer position
	got  []string // canonical replies so far
}

func dialRaw(addr string) (*rawConn, error) {
	c, err := net.DialTimeout("tcp", addr, 5*time.Second)
	if err != nil {
		return nil, err
	}
	if tc, ok := c.(*net.TCPConn); ok {
		tc.SetNoDelay(true)
	}
	r := &rawConn{c: c, sig: make(chan struct{}, 1)}
	go func() {
		p := make([]byte, 1<<16)
		for {
			n, err := c.Read(p)
			r.mu.Lock()
			r.buf = append(r.buf, p[:n]...)
			if err != nil {
				r.eof = true
				r.rerr = err
			}
			r.mu.Unlock()
			select {
			case r.sig <- struct{}{}:
			default:
			}
			if err != nil {
				return
			}
		}
	}()
	return r, nil
}

var hangBudget = 30 * time.Second

// await tokenizes replies of the given kinds until `want` replies are there in
// total. It returns "" or a description of what went wrong.
func (r *rawConn) await(kinds []replyKind, want int) string {
	deadline := time.Now().Add(hangBudget)
	for {
		r.mu.Lock()
		for len(r.got) < want {
			n, canon, err := nextReply(r.buf[r.pos:], kinds[len(r.got)])
			if err != nil {
				r.mu.Unlock()
				return "malformed:" + err.Error()
			}
			if n == 0 {
				break
			}
			r.pos += n
			r.got = append(r.got, canon)
		}
		done := len(r.got) >= want
		eof := r.eof
		r.mu.Unlock()
		if done {
			return ""
		}
		if eof {
			return fmt.Sprintf("closed:connection ended after %d of %d replies", len(r.got), want)
		}
		left := time.Until(deadline)
		if left <= 0 {
			return fmt.Sprintf("hang:%d of %d replies within %v", len(r.got), want, hangBudget)
		}
		select {
		case <-r.sig:
		case <-time.After(left):
		}
	}
}

// awaitEOF waits for the server to close; returns the unparsed tail.
func (r *rawConn) awaitEOF() (tail string, problem string) {
	deadline := time.Now().Add(hangBudget)
	for {
		r.mu.Lock()
		eof := r.eof
		tail = string(r.buf[r.pos:])
		r.mu.Unlock()
		if eof {
			return tail, ""
		}
		left := time.Until(deadline)
		if left <= 0 {
			return tail, fmt.Sprintf("hang:connection not closed within %v of QUIT/request end", hangBudget)
		}
		select {
		case <-r.sig:
		case <-time.After(left):
		}
	}
}

// ---- live cases -----------------------------------------------------------------

// liveCase is one generated case (also the replay payload).
type liveCase struct {
	Kind   string     `json:"kind"` // resp, resp-json, native, mixed, http
	Prep   [][]string `json:"prep,omitempty"`
	Stream Stream     `json:"stream"`
	Cuts   []int      `json:"cuts"`
	Pause  int        `json:"pause_us"` // pause after a segment that ends inside a command
}

// plan derives the reply framing of every element and which element replies.
func (lc liveCase) plan() (kinds []replyKind, names []string, quitReplies bool) {
	out := tNull
	lastConn := tNull
	for _, e := range lc.Stream.Elems {
		if e.Proto == "bad" {
			// netServe answers a framing error with one error line iff the last
			// executed command came over RESP/telnet, then closes
			if lastConn == tRESP {
				kinds = append(kinds, rkRESP)
				names = append(names, "protocol-error")
			}
			break
		}
		m, _ := e.Expect()
		if m == nil {
			continue
		}
		lastConn = m.ConnType
		if out == tNull {
			out = m.OutputType
		}
		name := strings.ToLower(m.Args[0])
		if name == "quit" {
			if out == tRESP {
				kinds = append(kinds, rkRESP) // "+OK" is written raw for every conn type
				names = append(names, name)
				quitReplies = true
			}
			break
		}
		switch m.ConnType {
		case tRESP:
			kinds = append(kinds, rkRESP)
		case tNative:
			kinds = append(kinds, rkNative)
		case tHTTP:
			kinds = append(kinds, rkHTTP)
		case tWebSocket:
			kinds = append(kinds, rkWS)
		}
		names = append(names, name)
		if name == "output" && len(m.Args) == 2 {
			switch strings.ToLower(m.Args[1]) {
			case "json":
				out = tJSON
			case "resp":
				out = tRESP
			}
		}
	}
	return
}

func drawLiveCase(rt *rapid.T, maxCmds int, bigKB int) liveCase {
	var lc liveCase
	lc.Kind = rapid.SampledFrom([]string{"resp", "resp", "resp-json", "native", "mixed", "mixed", "http"}).Draw(rt, "kind")
	o := streamOpts{maxCmds: maxCmds, noTTL: true, noEmpties: false, bigKB: bigKB}
	switch lc.Kind {
	case "resp", "resp-json":
		o.protos = []string{"resp", "telnet"}
		o.binary = true
	case "native":
		o.protos = []string{"native"}
	case "mixed":
		o.protos = []string{"resp", "telnet", "native"}
	case "http":
		o.protos = []string{"http"}
		o.maxCmds = 1
		o.noEmpties = true
		ns := gen.SmallNames
		n := rapid.IntRange(0, 6).Draw(rt, "nprep")
		for i := 0; i < n; i++ {
			a := gen.KeyspaceCmd(rt, ns)
			if strings.EqualFold(a[0], "TTL") {
				continue
			}
			lc.Prep = append(lc.Prep, a)
		}
	}
	if lc.Kind == "http" {
		o.bigKB = 0
	}
	s := drawStream(rt, o)
	if lc.Kind == "http" && bigKB > 0 {
		// one POST whose body crosses the server's read buffer
		args := []string{"SET", "k1", "a", "STRING", bigValue(rt, bigKB)}
		s.Elems = []Elem{{Proto: "http-post", Args: args, BodyFrom: rapid.IntRange(0, 4).Draw(rt, "bigbodyfrom")}}
	}
	if lc.Kind == "http" {
		// small names so that the request finds what the preparation stored
		for i := range s.Elems {
			if len(s.Elems[i].Args) > 0 && strings.EqualFold(s.Elems[i].Args[0], "TTL") {
				s.Elems[i].Args = []string{"PING"}
			}
		}
	} else {
		// order markers: every reply to "PING m<i>" names its position
		var out []Elem
		if lc.Kind == "resp-json" {
			out = append(out, Elem{Proto: "resp", Args: []string{"OUTPUT", "json"}})
		}
		for i, e := range s.Elems {
			out = append(out, e)
			if i%7 == 3 {
				p := "resp"
				if lc.Kind == "native" {
					p = "native"
				}
				out = append(out, Elem{Proto: p, Args: []string{"PING", "m" + strconv.Itoa(i)}})
			}
		}
		q := "resp"
		if lc.Kind == "native" || (lc.Kind == "mixed" && rapid.Bool().Draw(rt, "nativequit")) {
			q = "native"
		}
		out = append(out, Elem{Proto: q, Args: []string{"QUIT"}})
		s.Elems = out
	}
	lc.Stream = s
	b, offs := s.Encode()
	switch rapid.IntRange(0, 9).Draw(rt, "cutkind") {
	case 0:
		if len(b) <= 400 {
			for p := 1; p < len(b); p++ {
				lc.Cuts = append(lc.Cuts, p)
			}
			break
		}
		fallthrough
	case 1, 2:
		// one cut (the 2-way case), anywhere
		lc.Cuts = []int{rapid.IntRange(1, len(b)-1).Draw(rt, "cut1")}
	default:
		lc.Cuts = drawCuts(rt, len(b), 24, offs)
	}
	lc.Pause = rapid.SampledFrom([]int{0, 200, 2000}).Draw(rt, "pause")
	return lc
}

func prepTwin(ctl *t38.Conn, prep [][]string) error {
	if v, err := ctl.Do("FLUSHDB"); err != nil || v.IsErr() {
		return fmt.Errorf("FLUSHDB: %v %v", v, err)
	}
	for _, a := range prep {
		if _, err := ctl.Do(a...); err != nil {
			return err
		}
	}
	return nil
}

// sendCase plays the stream in the given segments and collects the canonical
// replies. completedBefore[i] = number of replies owed once segment i is in.
func sendCase(addr string, lc liveCase, cuts []int) (got []string, tail string, problem string, segsInside int) {
	b, offs := lc.Stream.Encode()
	kinds, _, _ := lc.plan()
	// replies owed after the first j elements
	owedAt := make([]int, len(lc.Stream.Elems)+1)
	{
		n := 0
		quit := false
		for i, e := range lc.Stream.Elems {
			m, _ := e.Expect()
			if m != nil && !quit && n < len(kinds) {
				n++
			}
			if m != nil && strings.EqualFold(m.Args[0], "quit") {
				quit = true
			}
			owedAt[i+1] = n
		}
	}
	rc, err := dialRaw(addr)
	if err != nil {
		return nil, "", "harness:dial: " + err.Error(), 0
	}
	defer rc.c.Close()
	segs := cutBytes(b, cuts)
	sent := 0
	for si, seg := range segs {
		if _, err := rc.c.Write(seg); err != nil {
			// the server may legitimately have closed after QUIT / the HTTP reply
			break
		}
		sent += len(seg)
		if si == len(segs)-1 {
			break
		}
		// how many elements are complete now?
		j := 0
		for j+1 < len(offs) && offs[j+1] <= sent {
			j++
		}
		atBoundary := offs[j] == sent
		if !atBoundary {
			segsInside++
		}
		if atBoundary {
			if p := rc.await(kinds, owedAt[j]); p != "" {
				return rc.got, "", p, segsInside
			}
		} else {
			// cannot synchronise inside a command: first drain what is owed, then give
			// the server time to take the partial segment in a read of its own
			if p := rc.await(kinds, owedAt[j]); p != "" {
				return rc.got, "", p, segsInside
			}
			if lc.Pause > 0 {
				time.Sleep(time.Duration(lc.Pause) * time.Microsecond)
			}
		}
	}
	if p := rc.await(kinds, len(kinds)); p != "" {
		return rc.got, "", p, segsInside
	}
	tail, p := rc.awaitEOF()
	return rc.got, tail, p, segsInside
}

func runLive(t failer, c *ev.Collector, lc liveCase) (inside int) {
	if err := prepTwin(ctlA, lc.Prep); err != nil {
		t.Fatalf("harness: prepare twin A: %v", err)
	}
	if err := prepTwin(ctlB, lc.Prep); err != nil {
		t.Fatalf("harness: prepare twin B: %v", err)
	}
	kinds, names, _ := lc.plan()
	ref, rtail, rprob, _ := sendCase(twinA.Addr, lc, nil)
	fail := func(key, what string) {
		if strings.Contains(key, "hang") {
			hangSeen = true
		}
		c.Fail(t, key, what, lc)
	}
	probKey := func(p string) string { return p[:strings.IndexByte(p, ':')] }
	if rprob != "" {
		if strings.HasPrefix(rprob, "harness:") {
			t.Fatalf("%s", rprob)
		}
		fail("uncut-run-"+probKey(rprob), "uncut run: "+rprob)
	}
	if rtail != "" {
		fail("extra-reply-bytes", fmt.Sprintf("uncut run: %d replies expected, then %d more bytes: %q", len(kinds), len(rtail), clip(rtail, 200)))
	}
	got, tail, prob, inside := sendCase(twinB.Addr, lc, lc.Cuts)
	if prob != "" {
		if strings.HasPrefix(prob, "harness:") {
			t.Fatalf("%s", prob)
		}
		fail("cut-run-"+probKey(prob), fmt.Sprintf("cut run (%d cuts): %s", len(lc.Cuts), prob))
	}
	if tail != "" {
		fail("extra-reply-bytes", fmt.Sprintf("cut run: %d replies expected, then %d more bytes: %q", len(kinds), len(tail), clip(tail, 200)))
	}
	for i := range ref {
		if i < len(got) && ref[i] != got[i] {
			fail("cut-changes-reply:"+names[i], fmt.Sprintf("reply %d (%s): uncut %q, cut %q", i, names[i], clip(ref[i], 300), clip(got[i], 300)))
		}
	}
	if len(ref) != len(got) {
		fail("reply-count", fmt.Sprintf("uncut run gave %d replies, cut run %d", len(ref), len(got)))
	}
	// the visible dataset must not depend on the segmentation either
	dA, errA := t38.TakeDumpOn(ctlA)
	dB, errB := t38.TakeDumpOn(ctlB)
	if errA != nil || errB != nil {
		t.Fatalf("harness: dump after the case: %v %v", errA, errB)
	}
	if dA.Canon() != dB.Canon() {
		fail("cut-changes-dataset", fmt.Sprintf("after the uncut run (A) and the run with %d cuts (B) the datasets differ: %s", len(lc.Cuts), clip(dA.Diff(dB), 400)))
	}
	// order markers (independent of the twin)
	ri := 0
	out := tNull
	for _, e := range lc.Stream.Elems {
		m, _ := e.Expect()
		if m == nil || ri >= len(got) {
			continue
		}
		if out == tNull {
			out = m.OutputType
		}
		if len(m.Args) == 2 && m.Args[0] == "PING" && strings.HasPrefix(m.Args[1], "m") && lc.Kind != "http" {
			if !strings.Contains(got[ri], m.Args[1]) || !strings.Contains(ref[ri], m.Args[1]) {
				fail("reply-out-of-order", fmt.Sprintf("reply %d should answer PING %s, got cut=%q uncut=%q", ri, m.Args[1], clip(got[ri], 100), clip(ref[ri], 100)))
			}
		}
		ri++
	}
	return inside
}

// hangSeen: a hang costs the whole hang budget per execution, so once one is
// recorded the shrinker's re-executions fail immediately (the recorded replay
// stays the first, real, failing case).
var hangSeen bool

func skipIfHangSeen(rt *rapid.T) {
	if hangSeen {
		rt.Fatalf("a hang was already recorded for this sub-check; not re-executing while shrinking")
	}
}

type failer interface {
	Fatalf(format string, args ...any)
	Helper()
}

func TestC16_Live(t *testing.T) {
	twins(t)
	c := ev.New("C16", "live", "exploration")
	t.Cleanup(c.Flush)
	t.Cleanup(func() { drainExcluded(c) })
	c.Rule("streams of 1-60 keyspace commands (TTL excluded: time dependent) with PING m<i> order markers and a final QUIT, as RESP+telnet, RESP after OUTPUT json, native, mixed RESP/telnet/native, or one HTTP GET/POST/WebSocket request after 0-6 preparation commands; sent over TCP_NODELAY to in-process server B cut at 1 point, at up to 24 points (a third next to command boundaries) or byte-at-a-time (<=400 bytes); after a segment ending on a command boundary the client waits for exactly the replies owed, after one ending inside a command it pauses 0/0.2/2 ms. The canonical replies (length prefixes and elapsed removed) must equal those of one uncut write to twin A prepared identically (FLUSHDB + same preparation), their number must equal the number of commands, nothing may follow, every PING marker must be answered at its position, and the server must close after QUIT / the HTTP reply. Non-trivial: at least one segment ends strictly inside a command; distinct by (kind, number of cuts, pause, command names hit by cuts).")
	maxCmds := ev.Pick(60, 120)
	ev.Rapid("live", ev.Pick(260, 2500))
	hangSeen = false
	rapid.Check(t, func(rt *rapid.T) {
		skipIfHangSeen(rt)
		big := 0
		if rapid.IntRange(0, 14).Draw(rt, "bigcase") == 0 {
			big = 150
		}
		lc := drawLiveCase(rt, maxCmds, big)
		c.Case()
		inside := runLive(rt, c, lc)
		c.Label("kind:" + lc.Kind)
		b, offs := lc.Stream.Encode()
		if len(b) > 65535 {
			c.Label("stream>64KiB")
		}
		c.LabelN("segments-ending-inside-a-command", inside)
		if inside > 0 {
			var hit []string
			seen := map[string]bool{}
			for i, p := range lc.Cuts {
				if i > 64 {
					break
				}
				idx, proto, reg, in := region(b, offs, lc.Stream.Elems, p)
				if !in {
					continue
				}
				n := proto + "/" + reg
				if len(lc.Stream.Elems[idx].Args) > 0 {
					n += "/" + strings.ToLower(lc.Stream.Elems[idx].Args[0])
				}
				if !seen[n] {
					seen[n] = true
					hit = append(hit, n)
					c.Label("cut:" + proto + "/" + reg)
				}
			}
			c.NonTrivial(fmt.Sprintf("%s|%d|%d|%v", lc.Kind, len(lc.Cuts), lc.Pause, hit))
			if c.WantSample() {
				c.Sample(map[string]any{"kind": lc.Kind, "bytes": len(b), "cuts": len(lc.Cuts), "head": clip(string(b), 160)})
			}
		}
	})
}

// TestC16_LivePipeline: pipelines of thousands of commands in one connection.
func TestC16_LivePipeline(t *testing.T) {
	twins(t)
	c := ev.New("C16", "live-pipeline", "exploration")
	t.Cleanup(c.Flush)
	t.Cleanup(func() { drainExcluded(c) })
	nCmds := ev.Pick(2000, 5000)
	c.Rule(fmt.Sprintf("one connection carrying a pipeline of %d keyspace commands (RESP, or mixed with telnet and native) plus order markers and QUIT, written uncut to twin A and in 2-40 random segments (or fixed 1460/4096/65535/65536-byte segments) to server B without waiting for replies in between except at command boundaries; same oracle as live. Non-trivial: a segment ends inside a command; distinct by (kind, segmentation, size).", nCmds))
	ev.Rapid("live-pipeline", ev.Pick(6, 40))
	hangSeen = false
	rapid.Check(t, func(rt *rapid.T) {
		skipIfHangSeen(rt)
		var lc liveCase
		lc.Kind = rapid.SampledFrom([]string{"resp", "mixed", "native"}).Draw(rt, "kind")
		o := streamOpts{noTTL: true}
		switch lc.Kind {
		case "resp":
			o.protos = []string{"resp"}
		case "mixed":
			o.protos = []string{"resp", "telnet", "native"}
		case "native":
			o.protos = []string{"native"}
		}
		ns := gen.SmallNames
		var elems []Elem
		for i := 0; i < nCmds; i++ {
			elems = append(elems, drawElem(rt, ns, o))
			if i%50 == 7 {
				p := "resp"
				if lc.Kind == "native" {
					p = "native"
				}
				elems = append(elems, Elem{Proto: p, Args: []string{"PING", "m" + strconv.Itoa(i)}})
			}
		}
		q := "resp"
		if lc.Kind == "native" {
			q = "native"
		}
		elems = append(elems, Elem{Proto: q, Args: []string{"QUIT"}})
		lc.Stream = Stream{Elems: elems}
		b, offs := lc.Stream.Encode()
		segm := "random"
		if rapid.Bool().Draw(rt, "fixed") {
			sz := rapid.SampledFrom([]int{1460, 4096, 65535, 65536, 70000}).Draw(rt, "segsz")
			segm = "fixed-" + strconv.Itoa(sz)
			for p := sz; p < len(b); p += sz {
				lc.Cuts = append(lc.Cuts, p)
			}
		} else {
			lc.Cuts = drawCuts(rt, len(b), 40, offs)
		}
		c.Case()
		inside := runLive(rt, c, lc)
		c.Label("kind:" + lc.Kind)
		c.Label("segmentation:" + segm)
		c.LabelN("commands", nCmds)
		if inside > 0 {
			c.NonTrivial(fmt.Sprintf("%s|%s|%d|%d", lc.Kind, segm, len(lc.Cuts), len(b)))
			if c.WantSample() {
				c.Sample(map[string]any{"kind": lc.Kind, "bytes": len(b), "segments": len(lc.Cuts) + 1, "segmentation": segm})
			}
		}
	})
}

// Part (b”), bursts behind a busy connection: the connection goroutine is
// kept busy with the dev-mode SLEEP command while the client writes a whole
// pipeline of 64 KiB - 200 KB in ONE write, so that the server's next socket
// read finds its buffer full (reads of exactly the buffer size are what the
// ordinary live checks, which are read as fast as they are written, never
// produce). Then the client half-closes (nothing may be dropped at EOF) or
// waits for every reply owed (nothing may be withheld) and QUITs.
//
// The in-package counterpart drives server.InputStream + PipelineReader the
// way netServe does (Begin / ReadMessages over a bytes.Buffer / End) with
// socket reads larger than the reader's 0xFFFF-byte packet.
package c16

import (
	"bytes"
	"fmt"
	"io"
	"net"
	"strconv"
	"strings"
	"testing"
	"time"

	"github.com/tidwall/tile38/internal/server"
	"github.com/tidwall/tile38/verif/harness/ev"
	"github.com/tidwall/tile38/verif/harness/t38"
	"pgregory.net/rapid"
)

type burstCase struct {
	Warm      int    `json:"warm"`
	SleepMs   int    `json:"sleep_ms"`
	Size      int    `json:"size"`
	HalfClose bool   `json:"half_close"`
	Shape     string `json:"shape"` // small-commands | one-huge-value | mixed-encodings
	Stream    Stream `json:"stream"`
}

// padECHO returns a RESP ECHO command of exactly n bytes (n >= 40).
func padECHO(n int, fill byte) Elem {
	for l := n - 40; l <= n; l++ {
		if l < 0 {
			continue
		}
		if 14+1+len(strconv.Itoa(l))+2+l+2 == n {
			return Elem{Proto: "resp", Args: []string{"ECHO", strings.Repeat(string(fill), l)}}
		}
	}
	panic(fmt.Sprintf("cannot pad to %d", n))
}

func expectedReply(e Elem) (replyKind, string) {
	var v t38.Value
	switch {
	case len(e.Args) == 1 && strings.EqualFold(e.Args[0], "PING"):
		v = t38.Simple("PONG")
	case strings.EqualFold(e.Args[0], "SLEEP"), strings.EqualFold(e.Args[0], "QUIT"):
		v = t38.Simple("OK")
	default:
		v = t38.Bulk(e.Args[1])
	}
	if e.Proto == "native" {
		raw := "+" + v.Str + "\r\n"
		if v.Kind == '$' {
			raw = "$" + strconv.Itoa(len(v.Str)) + "\r\n" + v.Str + "\r\n"
		}
		return rkNative, "native:" + raw
	}
	return rkRESP, v.String()
}

// burstSizes: with a read buffer of B bytes and a reader that takes at most P
// per round, j full reads leave j*(B-P) bytes parked; the interesting totals
// sit around multiples of 65535 / 65536.
func drawBurstSize(rt *rapid.T) int {
	switch rapid.IntRange(0, 9).Draw(rt, "sizeclass") {
	case 0, 1, 2:
		return 65536
	case 3:
		return 131072
	case 4:
		return rapid.SampledFrom([]int{131071, 196606, 196607, 196608, 262144}).Draw(rt, "sizej")
	case 5:
		return rapid.SampledFrom([]int{65535, 65537, 131070, 131073, 200000, 204800}).Draw(rt, "sizenear")
	case 6, 7:
		k := rapid.IntRange(1, 3).Draw(rt, "k")
		base := rapid.SampledFrom([]int{65535, 65536}).Draw(rt, "base")
		return k*base + rapid.IntRange(-3, 3).Draw(rt, "delta")
	default:
		return rapid.IntRange(60000, 210000).Draw(rt, "sizernd")
	}
}

func drawBurstCase(rt *rapid.T) burstCase {
	bc := burstCase{
		Warm:      rapid.IntRange(6, 12).Draw(rt, "warm"),
		SleepMs:   rapid.IntRange(40, 90).Draw(rt, "sleepms"),
		Size:      drawBurstSize(rt),
		HalfClose: rapid.IntRange(0, 3).Draw(rt, "halfclose") != 0,
		Shape:     rapid.SampledFrom([]string{"small-commands", "small-commands", "one-huge-value", "mixed-encodings"}).Draw(rt, "shape"),
	}
	var elems []Elem
	size := 0
	add := func(e Elem) {
		elems = append(elems, e)
		size += len(e.Bytes())
	}
	switch bc.Shape {
	case "one-huge-value":
		n := rapid.IntRange(0, 5).Draw(rt, "nbefore")
		for i := 0; i < n; i++ {
			add(Elem{Proto: "resp", Args: []string{"PING", "m" + strconv.Itoa(i)}})
		}
		tail := rapid.IntRange(0, 3).Draw(rt, "nafter")
		tailSize := 0
		var tails []Elem
		for i := 0; i < tail; i++ {
			e := Elem{Proto: "resp", Args: []string{"PING", "t" + strconv.Itoa(i)}}
			tails = append(tails, e)
			tailSize += len(e.Bytes())
		}
		add(padECHO(bc.Size-size-tailSize, 'v'))
		for _, e := range tails {
			add(e)
		}
	default:
		for i := 0; bc.Size-size > 400; i++ {
			proto := "resp"
			if bc.Shape == "mixed-encodings" {
				proto = rapid.SampledFrom([]string{"resp", "telnet", "native"}).Draw(rt, "proto")
			}
			switch rapid.IntRange(0, 5).Draw(rt, "cmdkind") {
			case 0:
				add(Elem{Proto: proto, Args: []string{"PING", "m" + strconv.Itoa(i)}})
			case 1:
				add(Elem{Proto: proto, Args: []string{"PING"}})
			default:
				l := rapid.IntRange(1, 120).Draw(rt, "plen")
				add(Elem{Proto: proto, Args: []string{"ECHO", fmt.Sprintf("p%07d", i) + strings.Repeat("x", l)}})
			}
		}
		add(padECHO(bc.Size-size, 'z'))
	}
	bc.Stream = Stream{Elems: elems}
	return bc
}

// playBurst returns the canonical replies received until EOF.
func playBurst(addr string, bc burstCase) (got []string, want []string, problem string) {
	burst, _ := bc.Stream.Encode()
	if len(burst) != bc.Size {
		return nil, nil, fmt.Sprintf("harness:burst is %d bytes, wanted %d", len(burst), bc.Size)
	}
	warmCmd := Elem{Proto: "resp", Args: []string{"ECHO", strings.Repeat("w", 20000)}}
	sleepCmd := Elem{Proto: "resp", Args: []string{"SLEEP", strconv.FormatFloat(float64(bc.SleepMs)/1000, 'f', 3, 64)}}
	var kinds []replyKind
	addWant := func(e Elem) {
		k, w := expectedReply(e)
		kinds = append(kinds, k)
		want = append(want, w)
	}
	for i := 0; i < bc.Warm; i++ {
		addWant(warmCmd)
	}
	addWant(sleepCmd)
	for _, e := range bc.Stream.Elems {
		addWant(e)
	}
	quit := Elem{Proto: "resp", Args: []string{"QUIT"}}
	if !bc.HalfClose {
		addWant(quit)
	}
	rc, err := dialRaw(addr)
	if err != nil {
		return nil, want, "harness:dial: " + err.Error()
	}
	defer rc.c.Close()
	tc := rc.c.(*net.TCPConn)
	tc.SetWriteBuffer(1 << 20)
	// ordinary traffic first: lets the kernel grow the socket windows
	for i := 0; i < bc.Warm; i++ {
		if _, err := rc.c.Write(warmCmd.Bytes()); err != nil {
			return rc.got, want, "closed:write: " + err.Error()
		}
		if p := rc.await(kinds, i+1); p != "" {
			return rc.got, want, p
		}
	}
	// keep the connection goroutine busy, then queue the whole burst behind it
	if _, err := rc.c.Write(sleepCmd.Bytes()); err != nil {
		return rc.got, want, "closed:write: " + err.Error()
	}
	time.Sleep(8 * time.Millisecond)
	if _, err := rc.c.Write(burst); err != nil {
		return rc.got, want, "closed:write of the burst: " + err.Error()
	}
	if bc.HalfClose {
		tc.CloseWrite()
	} else {
		if p := rc.await(kinds, len(kinds)-1); p != "" {
			return rc.got, want, p
		}
		if _, err := rc.c.Write(quit.Bytes()); err != nil {
			return rc.got, want, "closed:write of QUIT: " + err.Error()
		}
	}
	if p := rc.await(kinds, len(kinds)); p != "" {
		return rc.got, want, p
	}
	tail, p := rc.awaitEOF()
	if p != "" {
		return rc.got, want, p
	}
	if tail != "" {
		return rc.got, want, fmt.Sprintf("extra:%d bytes after the last reply: %q", len(tail), clip(tail, 120))
	}
	return rc.got, want, ""
}

func runBurst(t failer, c *ev.Collector, bc burstCase) {
	got, want, p := playBurst(twinB.Addr, bc)
	mode := "then QUIT"
	if bc.HalfClose {
		mode = "then half-close"
	}
	desc := fmt.Sprintf("%d warm-up ECHOs, SLEEP %dms, then ONE write of %d bytes (%d commands, %s), %s", bc.Warm, bc.SleepMs, bc.Size, len(bc.Stream.Elems), bc.Shape, mode)
	switch {
	case strings.HasPrefix(p, "harness:"):
		t.Fatalf("%s", p)
	case strings.HasPrefix(p, "closed:"):
		c.Fail(t, "burst-reply-missing", desc+": "+p[len("closed:"):]+" (a command queued behind the busy connection was never executed/answered before the server closed)", bc)
	case strings.HasPrefix(p, "hang:"):
		hangSeen = true
		c.Fail(t, "burst-reply-withheld", desc+": "+p[len("hang:"):]+" (the server holds back replies until the client sends more)", bc)
	case strings.HasPrefix(p, "extra:"):
		c.Fail(t, "extra-reply-bytes", desc+": "+p[len("extra:"):], bc)
	case p != "":
		c.Fail(t, "burst-malformed-reply", desc+": "+p, bc)
	}
	for i := range want {
		if i < len(got) && got[i] != want[i] {
			c.Fail(t, "burst-changes-reply", fmt.Sprintf("%s: reply %d is %q, expected %q", desc, i, clip(got[i], 120), clip(want[i], 120)), bc)
		}
	}
	if len(got) != len(want) {
		c.Fail(t, "burst-reply-count", fmt.Sprintf("%s: %d replies for %d commands", desc, len(got), len(want)), bc)
	}
}

func TestC16_LiveBurst(t *testing.T) {
	twins(t)
	c := ev.New("C16", "live-burst", "exploration")
	t.Cleanup(c.Flush)
	t.Cleanup(func() { drainExcluded(c) })
	c.Rule("one connection to an in-process dev-mode server: 6-12 awaited 20 KB ECHO round trips (grow the socket windows), SLEEP 40-90 ms written alone, 8 ms later ONE write of an exactly sized pipeline (65536 in 30%, 131072, j*65536+r around the points where full reads could strand bytes, 65535/65537/200000, k*65535|65536 +-3, random 60-210 KB) of ECHO/PING commands in RESP (or RESP/telnet/native mixed, or a few commands around one huge value), padded by a final ECHO to the exact size; then half-close (3/4) or wait for every reply and QUIT. Oracle: ground truth — every command answered exactly once, in order, with its own payload (independent of any twin), nothing after the last reply, server closes. Non-trivial: every case (the burst is at least 60 KB and waits behind a busy connection); distinct by (size, shape, half-close, number of commands).")
	hangSeen = false
	ev.Rapid("live-burst", ev.Pick(36, 400))
	rapid.Check(t, func(rt *rapid.T) {
		skipIfHangSeen(rt)
		bc := drawBurstCase(rt)
		c.Case()
		runBurst(rt, c, bc)
		c.Label("shape:" + bc.Shape)
		if bc.HalfClose {
			c.Label("end:half-close")
		} else {
			c.Label("end:await-all-then-quit")
		}
		switch {
		case bc.Size%65536 == 0:
			c.Label("size:multiple-of-65536")
		case bc.Size%65535 == 0:
			c.Label("size:multiple-of-65535")
		case bc.Size > 131072:
			c.Label("size:>128KiB")
		case bc.Size > 65536:
			c.Label("size:64-128KiB")
		default:
			c.Label("size:<64KiB")
		}
		c.NonTrivial(fmt.Sprintf("%d|%s|%v|%d", bc.Size, bc.Shape, bc.HalfClose, len(bc.Stream.Elems)))
		if c.WantSample() {
			c.Sample(map[string]any{"size": bc.Size, "shape": bc.Shape, "half_close": bc.HalfClose, "commands": len(bc.Stream.Elems), "sleep_ms": bc.SleepMs})
		}
	})
}

// ---- in-package: InputStream + PipelineReader as netServe drives them ---------

// switchRW lets one PipelineReader read from a new bytes.Buffer per socket
// read, as netServe does with pr.rd = bytes.NewBuffer(packet).
type switchRW struct {
	buf *bytes.Buffer
	w   bytes.Buffer
}

func (s *switchRW) Read(p []byte) (int, error) {
	if s.buf == nil {
		return 0, io.EOF
	}
	return s.buf.Read(p)
}
func (s *switchRW) Write(p []byte) (int, error) { return s.w.Write(p) }

// serveLoop mirrors the read loop of netServe for the given socket reads.
func serveLoop(reads [][]byte) (res parseResult, parkedMax int) {
	sw := &switchRW{}
	pr := server.NewPipelineReader(sw)
	var in server.InputStream
	for _, rd := range reads {
		packet := in.Begin(rd)
		sw.buf = bytes.NewBuffer(packet)
		msgs, err := pr.ReadMessages()
		for _, m := range msgs {
			if m != nil {
				res.Msgs = append(res.Msgs, toMsg(m))
			}
		}
		packet = packet[len(packet)-sw.buf.Len():]
		if len(packet) > parkedMax {
			parkedMax = len(packet)
		}
		in.End(packet)
		if err != nil && err != io.EOF {
			res.Err = err.Error()
			break
		}
	}
	res.Written = sw.w.String()
	return res, parkedMax
}

func TestC16_SegInputStream(t *testing.T) {
	c := ev.New("C16", "seg-inputstream", "exploration")
	t.Cleanup(c.Flush)
	t.Cleanup(func() { drainExcluded(c) })
	c.Rule("server.InputStream and PipelineReader driven in-package exactly as netServe's read loop does (Begin, ReadMessages over a bytes.Buffer of the joined bytes, End with the unread rest) for streams of 70-400 KB: 1-4 socket reads LARGER than the reader's 0xFFFF-byte packet (65536, 65537, 70000, 100000, 131072: bytes get parked in InputStream) followed by the rest in reads of at most 4 KB; oracle: the messages delivered equal the generator's ground truth (nothing lost, duplicated or reordered while bytes are parked). Non-trivial: bytes were parked at least once; distinct by (big read sizes, parked maximum bucket, protocols). Note: production netServe reads at most 0xFFFF bytes, so InputStream never parks there; that coupling is what live-burst guards.")
	ev.Rapid("seg-inputstream", ev.Pick(60, 800))
	rapid.Check(t, func(rt *rapid.T) {
		o := streamOpts{maxCmds: 60, binary: true, protos: []string{"resp", "telnet", "native"}, bigKB: 120}
		s := drawStream(rt, o)
		// make sure there is enough to fill several large reads
		for i := 0; ; i++ {
			b, _ := s.Encode()
			if len(b) > 280000 || i > 3 {
				break
			}
			s.Elems = append(s.Elems, Elem{Proto: "resp", Args: []string{"ECHO", bigValue(rt, 120)}})
		}
		b, _ := s.Encode()
		var reads [][]byte
		var bigs []int
		pos := 0
		nbig := rapid.IntRange(1, 4).Draw(rt, "nbig")
		for i := 0; i < nbig; i++ {
			sz := rapid.SampledFrom([]int{65536, 65537, 70000, 100000, 131072}).Draw(rt, "bigread")
			if pos+sz >= len(b)-400 {
				break
			}
			reads = append(reads, b[pos:pos+sz])
			bigs = append(bigs, sz)
			pos += sz
		}
		// parked bytes are only looked at when a further socket read arrives, each
		// draining one packet's worth: the last 48 bytes come one per read so that
		// everything parked (at most the sum of the large reads) is drained before
		// the input ends — bytes still parked at EOF are the live-burst's subject
		for pos < len(b)-48 {
			sz := rapid.IntRange(1, 4096).Draw(rt, "smallread")
			if pos+sz > len(b)-48 {
				sz = len(b) - 48 - pos
			}
			reads = append(reads, b[pos:pos+sz])
			pos += sz
		}
		for ; pos < len(b); pos++ {
			reads = append(reads, b[pos:pos+1])
		}
		c.Case()
		got, parked := serveLoop(reads)
		want, _ := s.Expect()
		if d := diffResults(parseResult{Msgs: want}, got); d != "" {
			c.Fail(rt, "inputstream-loses-or-reorders", fmt.Sprintf("socket reads %v then small ones over %d bytes (parked up to %d): expected vs delivered: %s", bigs, len(b), parked, d), segReplay{Stream: &s, Cuts: bigs})
		}
		if parked > 0 {
			c.Label("bytes-parked-in-inputstream")
			c.NonTrivial(fmt.Sprintf("%v|%d|%s", bigs, parked/1000, s.protos()))
			if c.WantSample() {
				c.Sample(map[string]any{"bytes": len(b), "big_reads": bigs, "parked_max": parked, "protos": s.protos()})
			}
		}
	})
}

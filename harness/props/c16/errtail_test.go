// Streams that END in a protocol error: 1-8 valid commands (writes included)
// followed by one malformed frame. Everything before the malformed frame must
// be delivered / executed / answered exactly once under every segmentation,
// then the error (reply line or just close).
package c16

import (
	"fmt"
	"strings"
	"testing"

	"github.com/tidwall/tile38/verif/harness/ev"
	"pgregory.net/rapid"
)

func drawLiveErrCase(rt *rapid.T) liveCase {
	var lc liveCase
	lc.Kind = rapid.SampledFrom([]string{"resp", "resp", "resp-json", "native", "mixed", "mixed"}).Draw(rt, "kind")
	o := streamOpts{noTTL: true}
	switch lc.Kind {
	case "resp", "resp-json":
		o.protos = []string{"resp", "telnet"}
		o.binary = true
	case "native":
		o.protos = []string{"native"}
	case "mixed":
		o.protos = []string{"resp", "telnet", "native"}
	}
	s := drawErrStream(rt, o, 8, rapid.IntRange(0, 3).Draw(rt, "trail?") == 0)
	if lc.Kind == "resp-json" {
		s.Elems = append([]Elem{{Proto: "resp", Args: []string{"OUTPUT", "json"}}}, s.Elems...)
	}
	lc.Stream = s
	b, offs := s.Encode()
	badAt := 0
	for i, e := range s.Elems {
		if e.Proto == "bad" {
			badAt = offs[i]
		}
	}
	switch rapid.IntRange(0, 9).Draw(rt, "cutkind") {
	case 0, 1, 2:
		lc.Cuts = []int{badAt} // exactly in front of the malformed frame
	case 3:
		if len(b) <= 400 {
			for p := 1; p < len(b); p++ {
				lc.Cuts = append(lc.Cuts, p)
			}
			break
		}
		fallthrough
	case 4, 5:
		lc.Cuts = []int{rapid.IntRange(1, len(b)-1).Draw(rt, "cut1")}
	default:
		lc.Cuts = drawCuts(rt, len(b), 12, append(offs, badAt))
	}
	lc.Pause = rapid.SampledFrom([]int{0, 200, 2000}).Draw(rt, "pause")
	return lc
}

func TestC16_LiveErrTail(t *testing.T) {
	twins(t)
	c := ev.New("C16", "live-errtail", "exploration")
	t.Cleanup(c.Flush)
	t.Cleanup(func() { drainExcluded(c) })
	c.Rule("[OUTPUT json,] 1-8 valid keyspace/PING/ECHO commands (RESP+telnet, native, or mixed; a SET is forced into half of the cases) followed by one malformed frame of the catalogue (RESP/telnet/native/HTTP framing errors) and, in a quarter of the cases, trailing bytes; written uncut to twin A and to server B cut exactly in front of the malformed frame (30%), at one random point, at up to 12 points, or byte-at-a-time. Oracle: every valid command answered exactly once and in order (count from the stream model), then exactly one error line iff the last executed command came over RESP/telnet, nothing else, connection closed; canonical replies identical to the uncut run; the datasets of A and B identical afterwards (writes in front of the malformed frame are applied under every segmentation). Non-trivial: at least one cut at or before the malformed frame; distinct by (kind, malformed frame, cuts, prefix length, has write).")
	// regression probe (live): SET + empty HTTP request in one segment vs cut in front of the request
	for _, frame := range []string{"GET / HTTP/1.1\r\n\r\n", "POST / HTTP/1.1\r\nContent-Length: 0\r\n\r\n"} {
		c.Case()
		lc := liveCase{Kind: "resp", Stream: Stream{Elems: []Elem{
			{Proto: "resp", Args: []string{"SET", "probe", "p", "POINT", "1", "2"}},
			{Proto: "bad", Raw: frame, Err: "invalid HTTP request"},
		}}}
		cut := len(lc.Stream.Elems[0].Bytes())
		if err := prepTwin(ctlA, nil); err != nil {
			t.Fatalf("harness: %v", err)
		}
		if err := prepTwin(ctlB, nil); err != nil {
			t.Fatalf("harness: %v", err)
		}
		one, _, p1, _ := sendCase(twinA.Addr, lc, nil)
		two, _, p2, _ := sendCase(twinB.Addr, lc, []int{cut})
		vA, _ := ctlA.Do("GET", "probe", "p", "POINT")
		vB, _ := ctlB.Do("GET", "probe", "p", "POINT")
		problem := ""
		switch {
		case strings.HasPrefix(p1, "harness:") || strings.HasPrefix(p2, "harness:"):
			t.Fatalf("harness: %s %s", p1, p2)
		case fmt.Sprint(one) != fmt.Sprint(two) || p1 != p2:
			problem = fmt.Sprintf("one segment: replies %q (%s); cut in front of the request: replies %q (%s)", one, p1, two, p2)
		case len(two) < 1 || two[0] != "+OK":
			problem = fmt.Sprintf("the SET in front of the request was not answered with +OK: %q", two)
		case vA.Kind != '*' || !vA.Equal(vB):
			problem = fmt.Sprintf("the SET in front of the request was not applied identically: GET after one segment %s, after two %s", vA, vB)
		}
		if problem != "" {
			what := fmt.Sprintf("`SET probe p POINT 1 2` + %q: %s", frame, problem)
			if ev.KnownActive(emptyHTTPID) {
				c.Known(emptyHTTPID, what)
			} else {
				c.Violation(emptyHTTPID, what, lc)
				t.Errorf("VIOLATION-CANDIDATE key=%s: %s", emptyHTTPID, what)
			}
			c.Label("probe-reproduces:" + emptyHTTPID)
			break
		}
		c.Label("probe-ok:" + emptyHTTPID)
	}
	if _, n := usableBadFrames(); n > 0 {
		c.Excluded(emptyHTTPID)
	}
	if t.Failed() {
		c.Note("random live-errtail cases skipped: the deterministic probe already fails")
		return
	}
	hangSeen = false
	ev.Rapid("live-errtail", ev.Pick(120, 1500))
	rapid.Check(t, func(rt *rapid.T) {
		skipIfHangSeen(rt)
		lc := drawLiveErrCase(rt)
		c.Case()
		runLive(rt, c, lc)
		b, offs := lc.Stream.Encode()
		_ = b
		bad, badAt, writes := "", 0, false
		n := 0
		for i, e := range lc.Stream.Elems {
			if e.Proto == "bad" {
				bad, badAt = e.Raw, offs[i]
				break
			}
			n++
			if len(e.Args) > 0 {
				switch strings.ToUpper(e.Args[0]) {
				case "SET", "FSET", "DEL", "PDEL", "DROP", "RENAME", "RENAMENX", "FLUSHDB", "EXPIRE", "PERSIST", "JSET", "JDEL":
					writes = true
				}
			}
		}
		c.Label("kind:" + lc.Kind)
		c.Label("bad:" + clip(bad, 14))
		if writes {
			c.Label("write-before-malformed-frame")
		}
		before := false
		for _, p := range lc.Cuts {
			if p <= badAt {
				before = true
			}
			if p == badAt {
				c.Label("cut-exactly-before-malformed-frame")
			}
		}
		if before {
			c.NonTrivial(fmt.Sprintf("%s|%s|%d|%d|%v", lc.Kind, bad, len(lc.Cuts), n, writes))
			if c.WantSample() {
				c.Sample(map[string]any{"kind": lc.Kind, "bytes": clip(string(b), 240), "cuts": clipInts(lc.Cuts)})
			}
		}
	})
}

func TestC16_SegErrTail(t *testing.T) {
	c := ev.New("C16", "seg-errtail", "exploration")
	t.Cleanup(c.Flush)
	t.Cleanup(func() { drainExcluded(c) })
	c.Rule("1-8 valid commands in RESP/telnet/native/HTTP/WebSocket encodings followed by ONE malformed frame from a catalogue of 26 (empty HTTP requests `GET /`, `POST /` with Content-Length 0, blank-only paths, non-numeric, negative, overflowing or unterminated RESP bulk/multibulk headers, wrong type byte, unbalanced telnet quotes, bad native lengths, malformed HTTP request lines) and optional trailing bytes; ground truth: PipelineReader.ReadMessages delivers exactly the messages of the valid commands and then the catalogue's error text — uncut, under EVERY 2-way cut, byte-at-a-time and 3 random k-way cuts. First every catalogue entry is checked alone. Non-trivial: a cut at or before the start of the malformed frame with at least one valid command in front of it in the same read of the uncut run; distinct by (malformed frame, protocol of the command in front, cut region, prefix length).")
	// the catalogue itself
	for _, bf := range badFrames {
		c.Case()
		got := readAll([][]byte{[]byte(bf.raw)})
		if got.Panic != "" || got.Err != bf.err || len(got.Msgs) != 0 {
			c.Violation("malformed-frame-not-rejected", fmt.Sprintf("%q alone: messages %d, error %q, panic %q; expected the error %q", bf.raw, len(got.Msgs), got.Err, got.Panic, bf.err), bytesInput([]byte(bf.raw), nil, nil))
			t.Errorf("VIOLATION-CANDIDATE key=malformed-frame-not-rejected: %q -> %q", bf.raw, got.Err)
		}
	}
	if t.Failed() {
		return
	}
	// regression probe (in-package): SET + empty HTTP request in one read vs cut in front of the request
	{
		c.Case()
		set := encRESP([]string{"SET", "k1", "a", "POINT", "1", "2"})
		b := append(append([]byte(nil), set...), "GET / HTTP/1.1\r\n\r\n"...)
		one := readAll([][]byte{b})
		two := readAll([][]byte{b[:len(set)], b[len(set):]})
		d := diffResults(two, one)
		if d == "" && (len(one.Msgs) != 1 || one.Err != "invalid HTTP request") {
			d = fmt.Sprintf("%d messages, error %q; expected the SET and then \"invalid HTTP request\"", len(one.Msgs), one.Err)
		}
		if d != "" {
			what := "ReadMessages over `SET k1 a POINT 1 2` + `GET / HTTP/1.1\\r\\n\\r\\n`: cut in front of the request vs one read: " + d + " (the SET parsed from the same read is dropped)"
			if ev.KnownActive(emptyHTTPID) {
				c.Known(emptyHTTPID, what)
			} else {
				c.Violation(emptyHTTPID, what, bytesInput(b, []int{len(set)}, []string{"probe"}))
				t.Errorf("VIOLATION-CANDIDATE key=%s: %s", emptyHTTPID, what)
			}
			c.Label("probe-reproduces:" + emptyHTTPID)
		} else {
			c.Label("probe-ok:" + emptyHTTPID)
		}
	}
	if _, n := usableBadFrames(); n > 0 {
		for i := 0; i < n; i++ {
			c.Excluded(emptyHTTPID)
		}
	}
	if t.Failed() {
		// rapid refuses a *testing.T that has already failed; the random search would
		// only rediscover the probe's defect
		c.Note("random seg-errtail cases skipped: the deterministic probe already fails")
		return
	}
	o := streamOpts{http: true, binary: true, protos: allProtos, noFlush: false}
	ev.Rapid("seg-errtail", ev.Pick(250, 4000))
	rapid.Check(t, func(rt *rapid.T) {
		s := drawErrStream(rt, o, 8, true)
		b, offs := s.Encode()
		ref := readAll([][]byte{b})
		if ref.Panic != "" {
			c.Fail(rt, crashID(ref.Frame), "PipelineReader panicked: "+ref.Panic, segReplay{Stream: &s})
		}
		if d := checkGroundTruth(s, ref); d != "" {
			c.Fail(rt, "error-tail-drops-or-changes-messages", "uncut stream ending in a malformed frame: expected vs parsed: "+d, segReplay{Stream: &s})
		}
		badIdx := 0
		for i, e := range s.Elems {
			if e.Proto == "bad" {
				badIdx = i
			}
		}
		badAt := offs[badIdx]
		var cutSets [][]int
		if len(b) <= 8192 {
			for p := 1; p < len(b); p++ {
				cutSets = append(cutSets, []int{p})
			}
			all := make([]int, 0, len(b))
			for p := 1; p < len(b); p++ {
				all = append(all, p)
			}
			cutSets = append(cutSets, all)
		}
		for i := 0; i < 3; i++ {
			cutSets = append(cutSets, drawCuts(rt, len(b), 8, offs))
		}
		for _, cuts := range cutSets {
			c.Case()
			got := readAll(cutBytes(b, cuts))
			if d := checkGroundTruth(s, got); d != "" {
				c.Fail(rt, "error-tail-drops-or-changes-messages", fmt.Sprintf("cuts %v of %d bytes (malformed frame %q at %d): expected vs parsed: %s", clipInts(cuts), len(b), s.Elems[badIdx].Raw, badAt, d), segReplay{Stream: &s, Cuts: cuts})
			}
			if len(cuts) == 1 && cuts[0] <= badAt+len(s.Elems[badIdx].Raw) {
				_, proto, reg, _ := region(b, offs, s.Elems, cuts[0])
				front := s.Elems[badIdx-1].Proto
				c.Label("cut:" + proto + "/" + reg)
				c.NonTrivial(fmt.Sprintf("%s|%s|%s|%s|%d", s.Elems[badIdx].Raw, front, proto, reg, badIdx))
			}
		}
		c.Label("bad:" + strings.SplitN(s.Elems[badIdx].Err, ":", 2)[0] + ":" + clip(s.Elems[badIdx].Raw, 12))
		if c.WantSample() {
			c.Sample(map[string]any{"bytes": clip(string(b), 300), "error": s.ExpectErr(), "valid_commands": badIdx})
		}
	})
}

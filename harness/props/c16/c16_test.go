// C16: replies depend on the bytes sent, not on packetisation; bad input is
// contained.
//
//	(a) seg_test.go     PipelineReader.ReadMessages under every 2-way / random
//	                    k-way / byte-at-a-time segmentation (ground truth + uncut run)
//	(b) live_test.go    the same streams against an in-process server over TCP,
//	                    compared with an uncut run on an identically prepared twin
//	(c) contain_test.go malformed streams and hostile arguments against a
//	                    subprocess server with a bystander connection and a canary
package c16

import (
	"os"
	"regexp"
	"runtime/debug"
	"strings"
	"testing"
)

func TestMain(m *testing.M) {
	// the segmentation checks allocate a 64 KiB reader per run
	debug.SetGCPercent(400)
	code := m.Run()
	stopTwins()
	stopProc()
	os.Exit(code)
}

var frameRE = regexp.MustCompile(`(?m)^(github\.com/tidwall/[^\s(]+(?:\(\*?[\w.\[\]]+\))?[\w.\-\[\]·]*)\(`)

// topFrame returns the first stack frame that belongs to tile38 or one of the
// tidwall libraries it is built on (the harness' own frames are skipped).
func topFrame(stack string) string {
	for _, m := range frameRE.FindAllStringSubmatch(stack, -1) {
		f := m[1]
		if strings.Contains(f, "verif/harness") {
			continue
		}
		return f
	}
	return ""
}

// frameIDs maps the top frame of a crash to the stable id of its root cause.
var frameIDs = []struct{ frag, id string }{
	{"redcon.ReadNextCommand", "crash-negative-bulk-len"},
	{"redcon.readTile38Command", "crash-native-huge-len"},
	{"detectExprToken", "crash-where-empty-token"},
	{"buildObjectResponse", "crash-fset-xx-return-missing"},
	{"parseSearchScanBaseTokens", "crash-wherein-huge-count"},
	{"cmdNearby", "crash-nearby-buffer"},
	{"cmdEvalUnified", "crash-eval-huge-numkeys"},
	{"tidwall/sjson.", "crash-jset-huge-index"},
	{"collection.(*Collection).searchRect", "crash-area-type-geo"},
	{"searchRect", "crash-area-type-geo"},
	{"cmdAOFMD5", "crash-aofmd5-no-aof"},
	{"(*Server).Collect", "crash-metrics-non-utf8-key"},
	{"(*Server).checksum", "crash-aofmd5-no-aof"},
	{"ConvertToRESP", "crash-script-cyclic-table"},
	{"ConvertToJSON", "crash-script-cyclic-table"},
}

var nonAlnum = regexp.MustCompile(`[^a-zA-Z0-9]+`)

// crashID names the root cause of a crash by its top tile38/redcon frame.
func crashID(frame string) string {
	if frame == "" {
		return "crash-no-stack"
	}
	for _, f := range frameIDs {
		if strings.Contains(frame, f.frag) {
			return f.id
		}
	}
	short := frame
	if i := strings.LastIndex(short, "/"); i >= 0 {
		short = short[i+1:]
	}
	return "crash-at-" + strings.Trim(nonAlnum.ReplaceAllString(short, "-"), "-")
}

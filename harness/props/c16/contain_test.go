// Part (c): containment. Malformed byte streams and well-framed commands with
// hostile arguments are sent to a SUBPROCESS server; a bystander connection
// opened before the input must still answer PING and read its canary object
// unchanged, and the process must stay alive. When the process dies it is
// restarted and the search goes on; crashes are de-duplicated by their top
// tile38/redcon stack frame, so that each root cause is one finding id.
package c16

import (
	"encoding/hex"
	"fmt"
	"net"
	"os"
	"path/filepath"
	"regexp"
	"sort"
	"strconv"
	"strings"
	"syscall"
	"testing"
	"time"
	"unicode/utf8"

	"github.com/tidwall/tile38/verif/harness/ev"
	"github.com/tidwall/tile38/verif/harness/gen"
	"github.com/tidwall/tile38/verif/harness/t38"
	"pgregory.net/rapid"
)

// ---- known crashers ---------------------------------------------------------------

// knownCrash describes one confirmed (or repaired) process-killing input
// class: a deterministic probe, and the predicate that keeps generated inputs
// away from it while the finding is listed as "known".
type knownCrash struct {
	id     string
	what   string
	raw    string     // probe as raw bytes, or
	cmds   [][]string // probe as commands (the last one is the trigger)
	cmds2  [][]string // a second command probe of the same root cause
	noAOF  bool       // probe needs a server started with --appendonly no
	ro     bool       // probe also runs on a read-only server
	match  func(args []string) bool
	parser bool          // crash is in the protocol parser: excluded through the in-package pre-screen
	wait   time.Duration // probe: how long the bystander waits (0 = default)
}

func lowerHas(args []string, tok string) bool {
	for _, a := range args {
		if strings.EqualFold(a, tok) {
			return true
		}
	}
	return false
}

var knownCrashes = []knownCrash{
	{
		id: "crash-negative-bulk-len", parser: true,
		what: "`*1\\r\\n$-2\\r\\n`: a negative (or overflowing) RESP bulk length is not rejected by redcon.ReadNextCommand (resp.go:264 tests count<=0 instead of n<0) and indexes the packet out of range; netServe has no recover, the process exits",
		raw:  "*1\r\n$-2\r\n",
	},
	{
		id: "crash-native-huge-len", parser: true,
		what: "`$9223372036854775807 x\\r\\n`: the native-protocol length is added to the offset without an overflow/upper-bound check in redcon.readTile38Command (resp.go:302) and indexes the packet out of range; the process exits",
		raw:  "$9223372036854775807 x\r\n",
	},
	{
		id:   "crash-fset-xx-return-missing",
		what: "FSET k missing XX RETURN f 1 dereferenced a nil object in buildObjectResponse",
		cmds: [][]string{{"SET", "k1", "a", "POINT", "1", "2"}, {"FSET", "k1", "missing", "XX", "RETURN", "f", "1"}},
		match: func(a []string) bool {
			return strings.EqualFold(a[0], "fset") && lowerHas(a, "xx") && lowerHas(a, "return")
		},
	},
	{
		id:   "crash-where-empty-token",
		what: "SCAN k WHERE f \"\" 5 indexed an empty string in detectExprToken",
		cmds: [][]string{{"SET", "k1", "a", "FIELD", "f", "3", "POINT", "1", "2"}, {"SCAN", "k1", "WHERE", "f", "", "5"}},
		match: func(a []string) bool {
			return lowerHas(a, "where") && lowerHas(a, "")
		},
	},
	{
		id:   "crash-wherein-huge-count",
		what: "SCAN k WHEREIN f 18446744073709551615 1: the value count of WHEREIN is passed to make() unchecked (token.go parseSearchScanBaseTokens) -> makeslice: len out of range / out of memory; the process exits",
		cmds: [][]string{{"SET", "k1", "a", "FIELD", "f", "3", "POINT", "1", "2"}, {"SCAN", "k1", "WHEREIN", "f", "18446744073709551615", "1"}},
		match: func(a []string) bool {
			for i, x := range a {
				if strings.EqualFold(x, "wherein") && i+2 < len(a) {
					n, err := strconv.ParseUint(a[i+2], 10, 64)
					if err == nil && n > uint64(len(a)) {
						return true
					}
				}
			}
			return false
		},
	},
}

// effective strips TIMEOUT prefixes.
func effective(a []string) []string {
	for len(a) > 2 && strings.EqualFold(a[0], "timeout") {
		a = a[2:]
	}
	return a
}

func init() {
	knownCrashes = append(knownCrashes,
		knownCrash{
			id:   "crash-nearby-buffer",
			what: "NEARBY key BUFFER m POINT lat lon on an existing collection: the BUFFER option replaces the search circle by a buffered geometry and cmdNearby asserts sargs.obj.(*geojson.Circle) (search.go:550) -> interface conversion panic; the process exits",
			cmds: [][]string{{"SET", "k1", "a", "POINT", "33", "-115"}, {"NEARBY", "k1", "BUFFER", "100", "POINT", "33", "-115"}},
			match: func(a []string) bool {
				a = effective(a)
				return strings.EqualFold(a[0], "nearby") && lowerHas(a, "buffer")
			},
		},
		knownCrash{
			id:   "hang-sector-nan-bearing",
			what: "TEST POINT 33 -115 WITHIN SECTOR 33 -115 1000 NaN 0 (also WITHIN/INTERSECTS key SECTOR ... with a NaN or Inf bearing): sectr.NewSector loops forever (neither a<end nor a>=end holds for NaN, sectr.go:127-135) while the connection holds the shared server lock; the next writer blocks and with it every other connection",
			cmds: [][]string{{"TEST", "POINT", "33", "-115", "WITHIN", "SECTOR", "33", "-115", "1000", "NaN", "0"}},
			match: func(a []string) bool {
				for i, x := range a {
					if !strings.EqualFold(x, "sector") {
						continue
					}
					for j := i + 4; j <= i+5 && j < len(a); j++ {
						f, err := strconv.ParseFloat(a[j], 64)
						if err == nil && (f != f || f > 1e300 || f < -1e300) {
							return true
						}
					}
				}
				return false
			},
		},
		knownCrash{
			id:   "crash-jset-huge-index",
			wait: 3 * time.Second,
			what: "JSET key id 9223372036854775807 5 (any large numeric path component on a document that has no such array): sjson.appendRawPaths/appendRepeat writes one \"null,\" per missing index, under the exclusive server lock, until memory is exhausted -> fatal error: out of memory (or the kernel OOM killer); 4e9 as index already needs 20 GB",
			cmds: [][]string{{"JSET", "k3", "j", "9223372036854775807", "5"}},
			match: func(a []string) bool {
				a = effective(a)
				if !strings.EqualFold(a[0], "jset") || len(a) < 4 {
					return false
				}
				// sjson reads a component made of digits as an array index with its own
				// wrapping atoi, so components beyond uint64 count as well
				for _, part := range strings.Split(a[3], ".") {
					part = strings.TrimPrefix(part, ":")
					digits := part != ""
					for i := 0; i < len(part); i++ {
						if part[i] < '0' || part[i] > '9' {
							digits = false
							break
						}
					}
					if !digits {
						continue
					}
					if n, err := strconv.ParseUint(part, 10, 64); err != nil || n > 100000 {
						return true
					}
				}
				return false
			},
		},
		knownCrash{
			id:   "hang-linestring-within-linestring",
			wait: 3 * time.Second,
			what: "WITHIN key OBJECT <LineString of two collinear segments> with a stored LineString never answers: infinite loop in tidwall/geojson Line.ContainsLine while the shared lock is held; writers and then every connection block",
			cmds: [][]string{{"SET", "k1", "ls", "OBJECT", `{"type":"LineString","coordinates":[[0,0],[1,0],[1,1]]}`}, {"WITHIN", "k1", "IDS", "OBJECT", `{"type":"LineString","coordinates":[[0,0],[1,0],[2,0]]}`}},
			match: func(a []string) bool {
				if !lowerHas(a, "within") {
					return false
				}
				for _, x := range a {
					if strings.Contains(x, "LineString") {
						return true
					}
				}
				// an area taken from a stored object may be a LineString
				return lowerHas(a, "get")
			},
		},
		knownCrash{
			id: "crash-aofmd5-no-aof", noAOF: true,
			what: "AOFMD5 0 0 on a server started with --appendonly no dereferenced the nil aof in checksum() and killed the process",
			cmds: [][]string{{"AOFMD5", "0", "0"}},
			match: func(a []string) bool {
				return strings.EqualFold(effective(a)[0], "aofmd5")
			},
		},
		knownCrash{
			id:    "crash-area-type-geo",
			what:  "WITHIN|INTERSECTS key GEO: \"geo\" is in withinOrIntersectsTypes but has no parser, the area stays nil and the search dereferences it; SETCHAN c WITHIN key FENCE GEO is accepted and the next SET on the key kills the process",
			cmds:  [][]string{{"SET", "k1", "a", "POINT", "33", "-115"}, {"WITHIN", "k1", "GEO"}},
			cmds2: [][]string{{"SETCHAN", "cgeo", "WITHIN", "k1", "FENCE", "GEO"}, {"SET", "k1", "b", "POINT", "33", "-115"}},
			match: func(a []string) bool {
				return lowerHas(a, "geo")
			},
		},
		knownCrash{
			id: "crash-script-cyclic-table", ro: true,
			what:  "EVALRO \"local t={} t[1]=t return t\" 0: a returned table that contains itself overflowed the Go stack in ConvertToRESP/ConvertToJSON (fatal error: stack overflow, process exit)",
			cmds:  [][]string{{"EVALRO", "local t={} t[1]=t return t", "0"}},
			cmds2: [][]string{{"EVAL", "local a={} local b={x=a} a.y=b return {a,b}", "0"}},
			match: func(a []string) bool {
				a = effective(a)
				return strings.HasPrefix(strings.ToLower(a[0]), "eval") && len(a) > 1 && cyclicScripts[a[1]]
			},
		},
		knownCrash{
			id:   "crash-metrics-non-utf8-key",
			what: "server started with --metrics-addr; SET \"fleet\\xff\" a POINT 1 1, then GET /metrics: Collect passes the key as a label value to prometheus.MustNewConstMetric, which panics on invalid UTF-8 on a goroutine of the registry; the process exits (and again at the first scrape after every restart)",
			cmds: [][]string{{"SET", "fleet\xff", "a", "POINT", "1", "1"}},
			match: func(a []string) bool {
				return len(a) > 1 && !utf8.ValidString(a[1])
			},
		},
		knownCrash{
			id:   "crash-eval-huge-numkeys",
			what: "EVAL script 100000000000000: numkeys is passed unchecked to luaState.CreateTable (scripts.go:446) -> makeslice: len out of range (or out of memory for merely large values); the process exits",
			cmds: [][]string{{"EVAL", "return 1", "100000000000000"}},
			match: func(a []string) bool {
				a = effective(a)
				if !strings.HasPrefix(strings.ToLower(a[0]), "eval") || len(a) < 3 {
					return false
				}
				n, err := strconv.ParseUint(a[2], 10, 64)
				return err == nil && n > uint64(len(a))
			},
		})
}

func knownByID(id string) *knownCrash {
	for i := range knownCrashes {
		if knownCrashes[i].id == id {
			return &knownCrashes[i]
		}
	}
	return nil
}

// ---- subprocess guard ----------------------------------------------------------------

const canaryKey = "canary:7f3a9c51"

type crashRec struct {
	id, frame, panicLine string
	input                fuzzInput
	size                 int
	count                int
	unexcluded           bool
}

type guard struct {
	c            *ev.Collector
	p            *t38.Proc
	by           *t38.Conn
	ctl          *t38.Conn
	want         t38.Value
	crashes      map[string]*crashRec
	restarts     int
	inputs       int // since last start
	restartTime  time.Duration
	last         fuzzInput
	noAOF        bool // child runs with --appendonly no
	metricsAddr  string
	scrapes      int
	alwaysScrape bool
	readonly     bool // the server was switched to read-only: the bystander does not write
}

var (
	realServerBin string
	liveGuards    []*guard
)

// wrapServerBin puts an address-space limit on the child so that a hostile
// input that makes the server allocate without bound ends in a Go
// out-of-memory crash (with a stack) instead of starving the machine.
func wrapServerBin() {
	bin := os.Getenv("VERIF_SERVER_BIN")
	if bin == "" || realServerBin != "" {
		return
	}
	realServerBin = bin
	dir := t38.WorkDir()
	for name, extra := range map[string]string{"c16-server.sh": "", "c16-server-noaof.sh": " --appendonly no"} {
		sh := filepath.Join(dir, name)
		script := "#!/bin/sh\nulimit -v 4000000\nulimit -c 0\nexec \"" + bin + "\"" + extra + " \"$@\"\n"
		if err := os.WriteFile(sh, []byte(script), 0o755); err == nil {
			if extra == "" {
				wrappedBin = sh
			} else {
				wrappedNoAOFBin = sh
			}
		}
	}
	if wrappedBin != "" {
		os.Setenv("VERIF_SERVER_BIN", wrappedBin)
	}
}

var wrappedBin, wrappedNoAOFBin string
var guardSeq int

func stopProc() {
	for _, g := range liveGuards {
		if g.p != nil && g.p.Alive() {
			g.p.Kill()
		}
	}
}

func newGuard(t *testing.T, c *ev.Collector) *guard {
	if os.Getenv("VERIF_SERVER_BIN") == "" {
		c.Inconclusive("VERIF_SERVER_BIN not set: the subprocess containment check did not run")
		t.Skip("no server binary (run through bin/check)")
	}
	return newGuardOpt(t, c, false)
}

// newGuardOpt: noAOF starts the child with --appendonly no.
func newGuardOpt(t *testing.T, c *ev.Collector, noAOF bool) *guard {
	wrapServerBin()
	g := &guard{c: c, crashes: map[string]*crashRec{}, noAOF: noAOF}
	if err := g.start(); err != nil {
		t.Fatalf("harness: cannot start the subprocess server: %v", err)
	}
	liveGuards = append(liveGuards, g)
	return g
}

func (g *guard) start() error {
	var err error
	for attempt := 0; attempt < 3; attempt++ {
		// t38.Opts has no switch for the aof; the wrapper script adds the flag
		// and a Prometheus listener, scraped by the bystander
		extra := ""
		if g.noAOF {
			extra += " --appendonly no"
		}
		g.metricsAddr = "127.0.0.1:" + strconv.Itoa(t38.FreePort())
		extra += " --metrics-addr " + g.metricsAddr
		if realServerBin != "" {
			guardSeq++
			sh := filepath.Join(t38.WorkDir(), fmt.Sprintf("c16-server-%d-%d.sh", os.Getpid(), guardSeq))
			script := "#!/bin/sh\nulimit -v 4000000\nulimit -c 0\nexec \"" + realServerBin + "\"" + extra + " \"$@\"\n"
			if err := os.WriteFile(sh, []byte(script), 0o755); err == nil {
				os.Setenv("VERIF_SERVER_BIN", sh)
			}
		}
		g.p, err = t38.StartProc(t38.Opts{HTTP: true})
		if wrappedBin != "" {
			os.Setenv("VERIF_SERVER_BIN", wrappedBin)
		}
		if err == nil {
			break
		}
	}
	if err != nil {
		return err
	}
	g.inputs = 0
	g.readonly = false
	if g.ctl, err = g.p.Dial(); err != nil {
		return err
	}
	if v, err := g.ctl.Do("SET", canaryKey, "c", "FIELD", "speed", "7", "FIELD", "name", "x y", "POINT", "33.5", "-115.5"); err != nil || v.IsErr() {
		return fmt.Errorf("set canary: %v %v", v, err)
	}
	// the bystander is opened BEFORE any input is sent
	if g.by, err = g.p.Dial(); err != nil {
		return err
	}
	g.want, err = g.by.Do("GET", canaryKey, "c", "WITHFIELDS")
	if err != nil || g.want.IsErr() || g.want.Kind != '*' {
		return fmt.Errorf("read canary: %v %v", g.want, err)
	}
	return nil
}

func (g *guard) stop() {
	if g.by != nil {
		g.by.Close()
	}
	if g.ctl != nil {
		g.ctl.Close()
	}
	if g.p != nil && g.p.Alive() {
		g.p.Kill()
	}
}

func (g *guard) restart() error {
	t0 := time.Now()
	g.stop()
	g.restarts++
	err := g.start()
	if d := time.Since(t0); d > 2*time.Second {
		g.c.Note("slow restart: %v", d.Round(time.Millisecond))
	}
	g.restartTime += time.Since(t0)
	return err
}

var panicLineRE = regexp.MustCompile(`(?m)^(panic: |fatal error: ).*$`)

// verdict of one input.
type verdict struct {
	restart   bool // the process was killed by the diagnosis; start a new one
	stack     string
	crashID   string // "" = alive
	frame     string
	panicLine string
	bystander string // "" = fine, otherwise what went wrong with the bystander while the process lived
}

// metricsDupID: two collection keys that differ only in bytes that are not valid
// UTF-8 get the same replacement label; the registry then refuses every scrape.
const metricsDupID = "metrics-scrape-500-colliding-keys"

// scrapeMetrics does GET /metrics; "" when answered 200 with a body.
func scrapeMetrics(addr string) string {
	c, err := net.DialTimeout("tcp", addr, 5*time.Second)
	if err != nil {
		return "dial: " + err.Error()
	}
	defer c.Close()
	c.SetDeadline(time.Now().Add(bystanderBudget))
	if _, err := c.Write([]byte("GET /metrics HTTP/1.1\r\nHost: x\r\nConnection: close\r\n\r\n")); err != nil {
		return "write: " + err.Error()
	}
	var resp []byte
	buf := make([]byte, 1<<16)
	for len(resp) < 8<<20 {
		n, err := c.Read(buf)
		resp = append(resp, buf[:n]...)
		if err != nil {
			break
		}
	}
	if !strings.HasPrefix(string(resp), "HTTP/1.1 200") {
		if i := strings.Index(string(resp), "\r\n\r\n"); i > 0 && strings.HasPrefix(string(resp), "HTTP/1.1 500") {
			return "answered 500: " + clip(strconv.QuoteToASCII(string(resp[i+4:])), 600)
		}
		return "answered " + clip(strconv.QuoteToASCII(string(resp)), 80)
	}
	if !strings.Contains(string(resp), "tile38_") {
		return "200 without tile38 metrics"
	}
	return ""
}

// bystanderBudget is how long the bystander waits for one reply before the
// server is examined for a stuck command (a goroutine dump decides, not the
// clock alone).
var bystanderBudget = 30 * time.Second

func (g *guard) byDo(args ...string) (t38.Value, error) {
	if err := g.by.Send(args...); err != nil {
		return t38.Value{}, err
	}
	return g.by.RecvTimeout(bystanderBudget)
}

// check is called after every input: the bystander (opened before the input)
// pings, performs a write on its own object (this needs the exclusive lock, so
// a command that never returns is noticed) and reads the canary back.
func (g *guard) check() verdict {
	g.inputs++
	problem := ""
	step := func(what string, want func(v t38.Value) bool, args ...string) {
		if problem != "" {
			return
		}
		v, err := g.byDo(args...)
		switch {
		case err == t38.ErrHang:
			problem = "bystander-hang: " + what + " not answered within " + bystanderBudget.String()
		case err != nil:
			problem = "bystander-disconnected: " + what + ": " + err.Error()
		case !want(v):
			problem = "bystander-wrong-reply: " + what + " answered " + clip(v.String(), 300)
		}
	}
	step("PING", func(v t38.Value) bool { return v.Equal(t38.Simple("PONG")) }, "PING")
	if !g.readonly {
		step("FSET canary", func(v t38.Value) bool { return v.Kind == ':' }, "FSET", canaryKey, "c", "speed", "7")
	}
	step("GET canary", func(v t38.Value) bool { return v.Equal(g.want) }, "GET", canaryKey, "c", "WITHFIELDS")
	// every 8th input (and the first ones after a start) the bystander also scrapes /metrics
	if problem == "" && g.metricsAddr != "" && (g.inputs <= 2 || g.inputs%8 == 0 || g.alwaysScrape) {
		g.scrapes++
		if p := scrapeMetrics(g.metricsAddr); strings.Contains(p, "was collected before with the same name and label values") {
			// the process is fine but monitoring is not: a finding of its own
			if ev.KnownActive(metricsDupID) {
				g.c.Excluded(metricsDupID)
				return verdict{restart: true} // a fresh process forgets the colliding keys
			}
			problem = metricsDupID + ": GET /metrics " + clip(p, 400)
		} else if p != "" {
			problem = "bystander-disconnected: metrics scrape: " + p
			// the registry panics on its own goroutine: give the process a moment to die
			time.Sleep(100 * time.Millisecond)
		}
	}
	if problem == "" && g.p.Alive() {
		// a panicking process keeps serving other goroutines while it prints its
		// traceback: look at its stderr before calling the input harmless
		if !panicLineRE.MatchString(g.p.Stderr.String()) {
			return verdict{}
		}
		problem = "bystander-disconnected: the process is printing a panic"
	}
	return g.diagnose(problem)
}

var pidRE = regexp.MustCompile(`PID: (\d+)`)

// diagnose decides between a dead process, a stuck command and a bystander
// that was affected although the process is fine.
func (g *guard) diagnose(problem string) verdict {
	for i := 0; i < 400 && g.p.Alive() && strings.HasPrefix(problem, "bystander-disconnected"); i++ {
		time.Sleep(25 * time.Millisecond)
	}
	if !g.p.Alive() {
		se := g.p.Stderr.String()
		vd := verdict{}
		if loc := panicLineRE.FindStringIndex(se); loc != nil {
			vd.panicLine = se[loc[0]:loc[1]]
			vd.frame = topFrame(se[loc[0]:])
			vd.stack = clip(se[loc[0]:], 2500)
			vd.crashID = crashID(vd.frame)
		} else {
			lines := strings.Split(strings.TrimSpace(se), "\n")
			vd.panicLine = "process exited without a Go panic; last output: " + clip(lines[len(lines)-1], 200)
			vd.crashID = "crash-no-stack"
		}
		return vd
	}
	if strings.HasPrefix(problem, "bystander-hang") {
		// ask the runtime for all goroutine stacks (SIGQUIT is taken by the server's
		// own handler, SIGABRT is not) and look for a command that is still executing
		before := len(g.p.Stderr.String())
		if m := pidRE.FindStringSubmatch(g.p.Stderr.String()); m != nil {
			pid, _ := strconv.Atoi(m[1])
			syscall.Kill(pid, syscall.SIGABRT)
		}
		var dump string
		for i := 0; i < 60; i++ {
			time.Sleep(100 * time.Millisecond)
			dump = g.p.Stderr.String()
			if before < len(dump) {
				dump = dump[before:]
			}
			if f, _, _ := stuckCommand(dump); f != "" || !g.p.Alive() {
				break
			}
		}
		if g.p.Alive() {
			time.Sleep(200 * time.Millisecond)
			g.p.Kill()
		}
		dump = g.p.Stderr.String()
		if before < len(dump) {
			dump = dump[before:]
		}
		frame, state, stack := stuckCommand(dump)
		if frame == "" {
			rd := os.Getenv("VERIF_REPLAYS")
			if rd == "" {
				rd = "/verif/replays"
			}
			dp := filepath.Join(rd, fmt.Sprintf("C16-unclassified-hang-s%d-%d.txt", ev.BaseSeed(), ev.Shard()))
			os.WriteFile(dp, []byte("last input: "+describeInput(g.last)+"\n\n"+dump), 0o644)
			g.c.Note("goroutine dump of an unclassified bystander timeout: %s", dp)
			g.c.Inconclusive("bystander got no reply within %v but the goroutine dump shows no command still executing (machine too busy?): %s", bystanderBudget, problem)
			return verdict{crashID: "", bystander: "", restart: true}
		}
		return verdict{crashID: hangID(frame), frame: frame, stack: clip(stack, 2500),
			panicLine: "a command never returned (goroutine " + state + " at " + frame + ") and keeps the server lock: other connections hang"}
	}
	return verdict{bystander: problem}
}

var goroutineHdrRE = regexp.MustCompile(`^goroutine \d+[^\[]*\[([^\]]*)\]`)
var anyFrameRE = regexp.MustCompile(`(?m)^([\w./\-]+(?:\(\*?[\w.\[\]]+\))?[\w.\-\[\]·]*)\(`)

// stuckCommand finds, in a dump of all goroutines, a connection goroutine that
// is inside handleInputCommand (or a live-connection loop) and not merely
// waiting for the server lock or for network input.
func stuckCommand(dump string) (frame, state, stack string) {
	var waiting string
	for _, blk := range strings.Split(dump, "\n\n") {
		blk = strings.TrimPrefix(blk, "-----\n")
		m := goroutineHdrRE.FindStringSubmatch(blk)
		if m == nil {
			continue
		}
		busyConn := strings.Contains(blk, "stack unavailable") && strings.Contains(blk, "created by github.com/tidwall/tile38/internal/server.(*Server).netServe")
		if !strings.Contains(blk, "handleInputCommand") && !busyConn {
			continue
		}
		st := m[1]
		top := ""
		if strings.Contains(blk, "stack unavailable") {
			top = "(command goroutine running, stack unavailable)"
		}
		for _, f := range anyFrameRE.FindAllStringSubmatch(blk, -1) {
			fn := f[1]
			if strings.HasPrefix(fn, "runtime.") || strings.HasPrefix(fn, "runtime/") || strings.HasPrefix(fn, "sync.") || strings.HasPrefix(fn, "sync/") || strings.HasPrefix(fn, "internal/") || strings.HasPrefix(fn, "goroutine") {
				continue
			}
			top = fn
			break
		}
		if top == "" {
			continue
		}
		// waiting for the server lock = the first frame outside the runtime and
		// sync packages is tile38's lock wrapper (the goroutine state alone does not
		// tell: a busy goroutine can sit in "semacquire" inside a GC assist)
		lockWait := strings.Contains(top, "server.(*rwmutex).") || strings.Contains(top, "server.(*rwspinlock).")
		if lockWait {
			if waiting == "" {
				waiting = top
			}
			continue
		}
		return top, st, blk
	}
	_ = waiting
	return "", "", ""
}

var hangIDs = []struct{ frag, id string }{
	{"sectr.NewSector", "hang-sector-nan-bearing"},
	{"ContainsLine", "hang-linestring-within-linestring"},
	{"ContainsSegment", "hang-linestring-within-linestring"},
	{"geometry.(*Line)", "hang-linestring-within-linestring"},
	{"sjson.", "crash-jset-huge-index"},
}

func hangID(frame string) string {
	for _, h := range hangIDs {
		if strings.Contains(frame, h.frag) {
			return h.id
		}
	}
	short := frame
	if i := strings.LastIndex(short, "/"); i >= 0 {
		short = short[i+1:]
	}
	return "hang-at-" + strings.Trim(nonAlnum.ReplaceAllString(short, "-"), "-")
}

// fuzzInput is one input (also the replay payload).
type fuzzInput struct {
	Kind  string     `json:"kind"` // bytes | cmds
	Hex   string     `json:"bytes_hex,omitempty"`
	Text  string     `json:"bytes_text,omitempty"` // readable rendering of Hex (informational)
	Cuts  []int      `json:"cuts,omitempty"`
	JSON  bool       `json:"json_output,omitempty"`
	Cmds  [][]string `json:"cmds,omitempty"`
	Muts  []string   `json:"mutations,omitempty"`
	Frame string     `json:"frame,omitempty"`
	Panic string     `json:"panic,omitempty"`
	Stack string     `json:"stack,omitempty"`
}

func bytesInput(b []byte, cuts []int, muts []string) fuzzInput {
	return fuzzInput{Kind: "bytes", Hex: hex.EncodeToString(b), Text: clip(strconv.QuoteToASCII(string(b)), 600), Cuts: cuts, Muts: muts}
}

func (in fuzzInput) size() int {
	if in.Kind == "bytes" {
		return len(in.Hex) / 2
	}
	n := 0
	for _, c := range in.Cmds {
		for _, a := range c {
			n += len(a) + 1
		}
	}
	return n
}

// sendBytes plays raw bytes on a fresh connection, half-closes and reads what
// the server answers until it closes (bounded).
func (g *guard) sendBytes(b []byte, cuts []int) (recv []byte, closed bool) {
	c, err := net.DialTimeout("tcp", g.p.Addr, 5*time.Second)
	if err != nil {
		return nil, true
	}
	defer c.Close()
	tc := c.(*net.TCPConn)
	tc.SetNoDelay(true)
	for i, seg := range cutBytes(b, cuts) {
		if i > 0 {
			time.Sleep(100 * time.Microsecond)
		}
		c.SetWriteDeadline(time.Now().Add(5 * time.Second))
		if _, err := c.Write(seg); err != nil {
			break
		}
	}
	tc.CloseWrite()
	c.SetReadDeadline(time.Now().Add(1500 * time.Millisecond))
	buf := make([]byte, 1<<16)
	for len(recv) < 4<<20 {
		n, err := c.Read(buf)
		recv = append(recv, buf[:n]...)
		if err != nil {
			if ne, ok := err.(net.Error); ok && ne.Timeout() {
				return recv, false
			}
			return recv, true
		}
	}
	return recv, false
}

// sendCmds plays well-framed commands; returns a class per command.
func (g *guard) sendCmds(in fuzzInput) (classes []string) {
	c, err := t38.Dial(g.p.Addr)
	if err != nil {
		return nil
	}
	defer c.Close()
	if in.JSON {
		if err := c.SetJSON(true); err != nil {
			return nil
		}
	}
	for _, cmd := range in.Cmds {
		if err := c.Send(cmd...); err != nil {
			classes = append(classes, "send-failed")
			return
		}
		v, err := c.RecvTimeout(500 * time.Millisecond)
		switch {
		case err == t38.ErrHang:
			classes = append(classes, "no-reply")
			return
		case err != nil && strings.Contains(err.Error(), "protocol"):
			classes = append(classes, "non-resp-reply")
			return
		case err != nil:
			classes = append(classes, "closed")
			return
		case v.IsErr():
			w := strings.Fields(v.Str)
			if len(w) > 3 {
				w = w[:3]
			}
			classes = append(classes, "err:"+strings.Join(w, " "))
		case in.JSON && strings.HasPrefix(v.Str, `{"ok":false`):
			e := v.Str
			if i := strings.Index(e, `"err":"`); i >= 0 {
				e = e[i+7:]
			}
			w := strings.Fields(e)
			if len(w) > 3 {
				w = w[:3]
			}
			classes = append(classes, "err:"+strings.Trim(strings.Join(w, " "), `"}`))
		default:
			classes = append(classes, "ok")
		}
	}
	return
}

// reseed puts a small dataset under the pool keys.
func (g *guard) reseed() error {
	cmds := [][]string{
		{"PDELHOOK", "*"}, {"PDELCHAN", "*"},
		{"DROP", "k1"}, {"DROP", "k2"}, {"DROP", "k3"},
		{"SET", "k1", "a", "FIELD", "f", "3", "FIELD", "g", "1.5", "POINT", "33", "-115"},
		{"SET", "k1", "b", "FIELD", "f", "7", "FIELD", "h", `{"a":1}`, "POINT", "33.01", "-115.01", "50"},
		{"SET", "k1", "c", "FIELD", "g", "abc", "STRING", "hello world"},
		{"SET", "k1", "d", "BOUNDS", "32", "-116", "34", "-114"},
		{"SET", "k2", "a", "OBJECT", `{"type":"Polygon","coordinates":[[[-116,32],[-114,32],[-114,34],[-116,34],[-116,32]]]}`},
		{"SET", "k2", "b", "OBJECT", `{"type":"Feature","geometry":{"type":"LineString","coordinates":[[-115,33],[-115.1,33.1]]},"properties":{"name":"x","n":{"m":[1,2,3]}}}`},
		{"SET", "k2", "c", "EX", "100000", "HASH", "9my5xp7"},
	}
	// one command per round trip: the containment oracle must not depend on
	// pipelining working (that is what the live checks decide)
	for _, c := range cmds {
		if err := g.ctl.SendRaw(t38.EncodeCmd(c...)); err != nil {
			return err
		}
		if _, err := g.ctl.RecvTimeout(bystanderBudget); err != nil {
			return err
		}
	}
	return nil
}

// record notes a crash and restarts the server. minimize may shorten the input
// (it gets a predicate that says whether a candidate still crashes in the same
// frame; every positive answer costs a restart).
func (g *guard) record(t *testing.T, vd verdict, in fuzzInput, excludedShape bool, minimize func(still func(fuzzInput) bool) fuzzInput) {
	in.Frame, in.Panic, in.Stack = vd.frame, vd.panicLine, vd.stack
	rec := g.crashes[vd.crashID]
	first := rec == nil
	if first {
		rec = &crashRec{id: vd.crashID, frame: vd.frame, panicLine: vd.panicLine, input: in, size: in.size()}
		g.crashes[vd.crashID] = rec
	}
	rec.count++
	if in.size() < rec.size {
		rec.input, rec.size = in, in.size()
	}
	if ev.KnownActive(vd.crashID) && !excludedShape {
		// an input that the exclusion predicate of a listed finding let through
		rec.unexcluded = true
	}
	g.c.Label("process-died:" + vd.crashID)
	if err := g.restart(); err != nil {
		t.Fatalf("harness: cannot restart the subprocess server: %v", err)
	}
	if first && minimize != nil {
		budget := 24
		if strings.HasPrefix(vd.crashID, "hang-") {
			// every confirmation of a hang costs the bystander budget
			budget = 5
			old := bystanderBudget
			bystanderBudget = 4 * time.Second
			defer func() { bystanderBudget = old }()
		}
		small := minimize(func(cand fuzzInput) bool {
			if budget <= 0 {
				return false
			}
			budget--
			g.play(cand)
			v2 := g.check()
			if v2.crashID == "" {
				if v2.bystander != "" || v2.restart {
					g.restart()
				}
				return false
			}
			if err := g.restart(); err != nil {
				t.Fatalf("harness: cannot restart the subprocess server: %v", err)
			}
			return v2.crashID == vd.crashID
		})
		small.Frame, small.Panic, small.Stack = vd.frame, vd.panicLine, vd.stack
		if small.size() < rec.size {
			rec.input, rec.size = small, small.size()
		}
	}
}

func (g *guard) play(in fuzzInput) {
	g.last = in
	switch in.Kind {
	case "bytes":
		b, _ := hex.DecodeString(in.Hex)
		g.sendBytes(b, in.Cuts)
	case "cmds":
		g.reseed()
		g.sendCmds(in)
	}
}

// report turns the recorded crashes into violations / known-finding sightings.
func (g *guard) report(t *testing.T) {
	ids := make([]string, 0, len(g.crashes))
	for id := range g.crashes {
		ids = append(ids, id)
	}
	sort.Strings(ids)
	for _, id := range ids {
		rec := g.crashes[id]
		what := fmt.Sprintf("the server process died (%s) at %s; %d input(s) of this run ended there; smallest: %s", rec.panicLine, rec.frame, rec.count, describeInput(rec.input))
		switch {
		case ev.KnownActive(id) && !rec.unexcluded:
			g.c.Known(id, what)
		case ev.KnownActive(id):
			g.c.Violation(id+"-unexcluded", "an input outside the exclusion predicate of the listed finding crashed in the same frame (second root cause, or the predicate is too narrow): "+what, rec.input)
			t.Errorf("VIOLATION-CANDIDATE key=%s-unexcluded: %s", id, what)
		default:
			g.c.Violation(id, what, rec.input)
			t.Errorf("VIOLATION-CANDIDATE key=%s: %s", id, what)
		}
	}
	g.c.LabelN("server-restarts", g.restarts)
	g.c.Note("%d restarts took %v in total", g.restarts, g.restartTime.Round(time.Millisecond))
}

func describeInput(in fuzzInput) string {
	if in.Kind == "bytes" {
		return in.Text
	}
	var parts []string
	for _, c := range in.Cmds {
		parts = append(parts, clip(t38.CmdString(c), 300))
	}
	s := strings.Join(parts, " ; ")
	if in.JSON {
		s = "(OUTPUT json) " + s
	}
	return s
}

// ---- deterministic probes -----------------------------------------------------------

func probeInput(k knownCrash) fuzzInput {
	if k.raw != "" {
		return bytesInput([]byte(k.raw), nil, []string{"probe"})
	}
	return fuzzInput{Kind: "cmds", Cmds: k.cmds}
}

// TestC16_Probes runs the probe of every listed or repaired crasher first.
func TestC16_Probes(t *testing.T) {
	c := ev.New("C16", "probes", "exploration")
	t.Cleanup(c.Flush)
	t.Cleanup(func() { drainExcluded(c) })
	c.Rule("one deterministic input per confirmed or repaired process-killing class (negative RESP bulk length, overflowing native length, FSET XX RETURN on a missing id, WHERE with an empty token, WHEREIN with a huge count), each in RESP and JSON output mode where it is a command; oracle as in containment: process alive, bystander PING and canary unchanged. A probe that still kills the process is a KNOWN-FINDING when listed as known, a violation otherwise.")
	g := newGuard(t, c)
	defer g.stop()
	// a deterministic probe on a fresh idle server: a short wait is enough,
	// the goroutine dump confirms that the command is really stuck
	oldBudget := bystanderBudget
	bystanderBudget = 3 * time.Second
	defer func() { bystanderBudget = oldBudget }()
	g.alwaysScrape = true // every probe is followed by a /metrics scrape
	// two keys whose invalid bytes collapse to the same metrics label
	{
		c.Case()
		// pairs that a lossy or an escaping label function could map to one label
		collide := []string{"\xfe\xfe", "\xff\xfe", "a\xff", "a\xfe", "\xfe", `"\xfe"`, `\xfe`, "\"q", `"\"q"`, "\ufffd", "\xff"}
		for _, k := range collide {
			g.ctl.Do("SET", k, "a", "POINT", "1", "1")
		}
		p := scrapeMetrics(g.metricsAddr)
		for _, k := range collide {
			g.ctl.Do("DROP", k)
		}
		switch {
		case strings.Contains(p, "was collected before with the same name and label values"):
			what := "SET \"\\xfe\\xfe\" a POINT 1 1 and SET \"\\xff\\xfe\" a POINT 1 1 (and nine more keys that differ only in invalid UTF-8 bytes, quoting or escaping) must keep distinct metrics labels; two of them got the same label in Collect (metrics.go) and the registry answers EVERY GET /metrics with 500 until one of the collections is dropped, also after a restart: " + clip(p, 300)
			if ev.KnownActive(metricsDupID) {
				c.Known(metricsDupID, what)
			} else {
				c.Violation(metricsDupID, what, map[string]any{"cmds": []string{`SET "\xfe\xfe" a POINT 1 1`, `SET "\xff\xfe" a POINT 1 1`, "GET /metrics"}})
				t.Errorf("VIOLATION-CANDIDATE key=%s: %s", metricsDupID, what)
			}
			c.Label("probe-reproduces:" + metricsDupID)
		case p != "":
			c.Violation("bystander-affected", "metrics scrape after two keys with invalid UTF-8: "+p, nil)
			t.Errorf("VIOLATION-CANDIDATE key=bystander-affected: metrics scrape: %s", p)
		default:
			c.Label("probe-ok:" + metricsDupID)
		}
	}
	var gNoAOF *guard
	defer func() {
		if gNoAOF != nil {
			gNoAOF.stop()
		}
	}()
	std := g
	for _, k := range knownCrashes {
		if std.readonly && std.p.Alive() {
			std.ctl.Do("READONLY", "no")
			std.readonly = false
		}
		g = std
		if k.noAOF {
			if gNoAOF == nil {
				gNoAOF = newGuardOpt(t, c, true)
				gNoAOF.alwaysScrape = true
			}
			g = gNoAOF
		}
		variants := []fuzzInput{probeInput(k)}
		if k.raw == "" {
			j := probeInput(k)
			j.JSON = true
			variants = append(variants, j)
		}
		if k.cmds2 != nil {
			variants = append(variants, fuzzInput{Kind: "cmds", Cmds: k.cmds2}, fuzzInput{Kind: "cmds", Cmds: k.cmds2, JSON: true})
		}
		if k.ro {
			variants = append(variants, fuzzInput{Kind: "cmds", Cmds: k.cmds, Muts: []string{"read-only server"}})
		}
		died := false
		for _, in := range variants {
			if died {
				break // one sighting per id
			}
			if g.readonly && g.p.Alive() {
				g.ctl.Do("READONLY", "no")
				g.readonly = false
			}
			if len(in.Muts) == 1 && in.Muts[0] == "read-only server" {
				if v, err := g.ctl.Do("READONLY", "yes"); err != nil || v.IsErr() {
					t.Fatalf("harness: READONLY yes: %v %v", v, err)
				}
				g.readonly = true
			}
			bystanderBudget = 3 * time.Second
			if k.wait > 0 {
				bystanderBudget = k.wait
			}
			c.Case()
			t0 := time.Now()
			g.play(in)
			t1 := time.Now()
			vd := g.check()
			t.Logf("probe %s json=%v: play %v check %v -> crash=%q bystander=%q", k.id, in.JSON, t1.Sub(t0).Round(time.Millisecond), time.Since(t1).Round(time.Millisecond), vd.crashID, vd.bystander)
			switch {
			case vd.crashID != "":
				what := fmt.Sprintf("%s -> %s at %s. %s", describeInput(in), vd.panicLine, vd.frame, k.what)
				in.Frame, in.Panic, in.Stack = vd.frame, vd.panicLine, vd.stack
				if ev.KnownActive(k.id) {
					c.Known(k.id, what)
				} else {
					c.Violation(k.id, what, in)
					t.Errorf("VIOLATION-CANDIDATE key=%s: %s", k.id, what)
				}
				died = true
				c.Label("probe-kills-process:" + k.id)
				c.NonTrivial("probe:" + k.id)
				t2 := time.Now()
				if err := g.restart(); err != nil {
					t.Fatalf("harness: restart: %v", err)
				}
				t.Logf("restart took %v", time.Since(t2).Round(time.Millisecond))
			case vd.bystander != "":
				c.Violation("bystander-affected", describeInput(in)+": "+vd.bystander, in)
				t.Errorf("VIOLATION-CANDIDATE key=bystander-affected: %s", vd.bystander)
				g.restart()
			case vd.restart:
				g.restart()
			default:
				c.Label("probe-contained:" + k.id)
				c.NonTrivial("probe:" + k.id)
			}
		}
	}
}

// ---- byte-level fuzzing ---------------------------------------------------------------

var hostileNums = []string{"-1", "-2", "-3", "-7", "-100", "0", "1", "00", "+5", " 5", "5 ", "abc", "", "1e3", "0x10", "65535", "65536", "2147483647", "2147483648", "4294967296", "9223372036854775807", "9223372036854775806", "9223372036854775808", "18446744073709551615", "18446744073709551616", "99999999999999999999999", "-9223372036854775808"}

var interesting = []byte{'\r', '\n', '$', '*', '-', '+', ':', '0', '9', ' ', '"', '\'', '\\', 0, 0xff, '{', '}', '/', '%', 'G', 'P', 'O'}

var lenHeaderRE = regexp.MustCompile(`(?m)(^[*$]|Content-Length: |Sec-WebSocket-Version: )(-?\d+)`)

var protoSnippets = []string{
	"GET /ping HTTP/1.1\r\n\r\n", "POST / HTTP/1.1\r\nContent-Length: 4\r\n\r\nPING", "OPTIONS / HTTP/1.1\r\n\r\n",
	"GET /server HTTP/1.1\r\nUpgrade: websocket\r\nSec-WebSocket-Version: 13\r\nSec-WebSocket-Key: abc\r\n\r\n",
	"$4 PING\r\n", "*1\r\n$4\r\nPING\r\n", "PING\r\n", "PING\n", "\r\n", "*0\r\n", "*-1\r\n", "$-1\r\n", "$0 \r\n", "*1\r\n$0\r\n\r\n",
	"GET / HTTP/1.1\r\nContent-Length: -1\r\n\r\n", "GET /%zz HTTP/1.1\r\n\r\n", "GET nopath HTTP/1.1\r\n\r\n", "GET / a HTTP/1.1\r\n\r\n",
	"POST /set+k1+a+string+ HTTP/1.1\r\nContent-Length: 3\r\n\r\n\"a\"", "GET /%20 HTTP/1.1\r\n\r\n", "GET /+ HTTP/1.1\r\nAuthorization\r\n\r\n",
	"\"unbalanced\r\n", "SET k1 a 'x\r\n", "GET k1 \"a\"b\r\n", "QUIT\r\n", "OUTPUT json\r\n", "$1 {\r\n", "$3 \"a\"\r\n", "$14 set k string \"\"\r\n",
	"\x81\x85\x00\x00\x00\x00PING\n",
}

// mutate applies 1-4 mutations to the bytes of a valid stream.
func mutate(rt *rapid.T, b []byte) ([]byte, []string) {
	var muts []string
	n := rapid.IntRange(1, 4).Draw(rt, "nmut")
	for i := 0; i < n; i++ {
		if len(b) == 0 {
			b = []byte("*")
		}
		pos := rapid.IntRange(0, len(b)-1).Draw(rt, "mpos")
		switch op := rapid.IntRange(0, 11).Draw(rt, "mop"); op {
		case 0:
			b = append([]byte(nil), b...)
			b[pos] ^= 1 << rapid.IntRange(0, 7).Draw(rt, "bit")
			muts = append(muts, "bitflip")
		case 1:
			b = append([]byte(nil), b...)
			b[pos] = rapid.SampledFrom(interesting).Draw(rt, "ibyte")
			muts = append(muts, "set-interesting-byte")
		case 2:
			b = b[:pos]
			muts = append(muts, "truncate")
		case 3:
			end := pos + rapid.IntRange(1, 12).Draw(rt, "dlen")
			if end > len(b) {
				end = len(b)
			}
			b = append(append([]byte(nil), b[:pos]...), b[end:]...)
			muts = append(muts, "delete-range")
		case 4:
			end := pos + rapid.IntRange(1, 40).Draw(rt, "duplen")
			if end > len(b) {
				end = len(b)
			}
			b = append(append(append([]byte(nil), b[:end]...), b[pos:end]...), b[end:]...)
			muts = append(muts, "duplicate-range")
		case 5:
			ins := rapid.SliceOfN(rapid.Byte(), 1, 8).Draw(rt, "ins")
			b = append(append(append([]byte(nil), b[:pos]...), ins...), b[pos:]...)
			muts = append(muts, "insert-random")
		case 6, 7, 8:
			locs := lenHeaderRE.FindAllSubmatchIndex(b, -1)
			if len(locs) == 0 {
				continue
			}
			l := locs[rapid.IntRange(0, len(locs)-1).Draw(rt, "hdr")]
			old, _ := strconv.Atoi(string(b[l[4]:l[5]]))
			repl := rapid.SampledFrom(hostileNums).Draw(rt, "hnum")
			switch rapid.IntRange(0, 5).Draw(rt, "hrel") {
			case 0:
				repl = strconv.Itoa(old + 1)
			case 1:
				repl = strconv.Itoa(old - 1)
			case 2:
				repl = strconv.Itoa(-old)
			}
			b = append(append(append([]byte(nil), b[:l[4]]...), repl...), b[l[5]:]...)
			muts = append(muts, "corrupt-length:"+string(b[l[2]:l[3]]))
		case 9, 10:
			sn := rapid.SampledFrom(protoSnippets).Draw(rt, "snippet")
			b = append(append(append([]byte(nil), b[:pos]...), sn...), b[pos:]...)
			muts = append(muts, "insert-protocol-switch")
		case 11:
			// CRLF -> LF or CR
			i := strings.Index(string(b[pos:]), "\r\n")
			if i < 0 {
				continue
			}
			keep := rapid.SampledFrom([]string{"\n", "\r", "\n\r", ""}).Draw(rt, "eol")
			b = append(append(append([]byte(nil), b[:pos+i]...), keep...), b[pos+i+2:]...)
			muts = append(muts, "break-crlf")
		}
	}
	return b, muts
}

var soupTokens = []string{"*", "$", "+", "-", ":", "0", "1", "2", "3", "9", "-1", "-2", "10", "65535", "9223372036854775807", "\r\n", "\r\n", "\r", "\n", " ", "\"", "'", "\\", "PING", "SET", "GET", "k1", "a", "POINT", "{", "}",
	"GET / HTTP/1.1\r\n", "POST /", " HTTP/1.1", "\r\n\r\n", "Content-Length: ", "Upgrade: websocket\r\n", "Sec-WebSocket-Version: 13\r\n", "Sec-WebSocket-Key: abc\r\n", "OPTIONS / HTTP/1.1\r\n", "\x00", "\xff", "%", "%2", "+", "/"}

func drawFuzzBytes(rt *rapid.T) ([]byte, []string) {
	switch rapid.IntRange(0, 9).Draw(rt, "fuzzkind") {
	case 0:
		n := rapid.IntRange(1, 40).Draw(rt, "ntok")
		var b []byte
		for i := 0; i < n; i++ {
			b = append(b, rapid.SampledFrom(soupTokens).Draw(rt, "tok")...)
		}
		return b, []string{"token-soup"}
	case 1:
		return rapid.SliceOfN(rapid.Byte(), 1, 64).Draw(rt, "rawbytes"), []string{"random-bytes"}
	default:
		o := streamOpts{maxCmds: 8, binary: true, noFlush: true, options: true, protos: []string{"resp", "telnet", "native"}}
		if rapid.IntRange(0, 3).Draw(rt, "withhttp") == 0 {
			o.protos = allProtos
		}
		s := drawStream(rt, o)
		b, _ := s.Encode()
		return mutate(rt, b)
	}
}

// prescreen parses the bytes in-package (uncut and byte-at-a-time are the two
// extremes of what the server can see) and reports a parser panic.
func prescreen(b []byte, cuts []int) (res parseResult, panicked bool) {
	res = readAll([][]byte{b})
	if res.Panic != "" {
		return res, true
	}
	if len(cuts) > 0 {
		r2 := readAll(cutBytes(b, cuts))
		if r2.Panic != "" {
			return r2, true
		}
	}
	return res, false
}

func TestC16_ContainBytes(t *testing.T) {
	c := ev.New("C16", "contain-bytes", "exploration")
	t.Cleanup(c.Flush)
	t.Cleanup(func() { drainExcluded(c) })
	c.Rule("valid RESP/telnet/native/HTTP streams of 1-8 commands with 1-4 byte-level mutations (bit flip, interesting byte, truncation, range deletion/duplication, random insertion, corrupted *n/$n/Content-Length headers incl. negative, off-by-one, huge, overflowing and non-numeric values, protocol switches and malformed HTTP snippets inserted mid-stream, broken CRLF), token soup and random bytes, sent in 1-3 segments to a subprocess server, then half-closed; oracle: process alive, the bystander connection opened before the input answers PING and reads its canary object unchanged. Inputs are first parsed in-package; those that panic in a frame of a listed known finding are counted as excluded and not sent. Non-trivial: the input reached the dispatcher (at least one message parsed and one reply received) and is malformed (parse error or different messages than the unmutated stream); distinct by (mutations, error text, messages before the error, first command).")
	g := newGuard(t, c)
	t.Cleanup(func() { g.report(t); g.stop() })
	ev.Rapid("contain-bytes", ev.Pick(2000, 25000))
	rapid.Check(t, func(rt *rapid.T) {
		b, muts := drawFuzzBytes(rt)
		var cuts []int
		if len(b) > 2 && rapid.IntRange(0, 2).Draw(rt, "cutit") == 0 {
			cuts = drawCuts(rt, len(b), 3, nil)
		}
		c.Case()
		in := bytesInput(b, cuts, muts)
		pre, panicked := prescreen(b, cuts)
		if panicked {
			id := crashID(pre.Frame)
			if ev.KnownActive(id) {
				c.Excluded(id)
				return
			}
			c.Label("parser-panic-in-package:" + id)
		}
		if g.inputs > 1500 {
			g.restart() // keeps the captured stderr small
		}
		g.last = in
		recv, closed := g.sendBytes(b, cuts)
		vd := g.check()
		for _, m := range muts {
			c.Label("mut:" + strings.SplitN(m, ":", 2)[0])
		}
		switch {
		case vd.crashID != "":
			g.record(t, vd, in, false, func(still func(fuzzInput) bool) fuzzInput {
				return minimizeBytes(b, still)
			})
			return
		case vd.restart:
			g.restart()
			return
		case vd.bystander != "":
			key := strings.SplitN(vd.bystander, ":", 2)[0]
			g.restart()
			c.Fail(rt, key, fmt.Sprintf("after %s the process lives but %s", in.Text, vd.bystander), in)
		}
		if !closed {
			c.Label("fuzz-conn-still-open-after-half-close")
		}
		if pre.Err != "" {
			c.Label("parse-error")
		}
		if len(pre.Msgs) > 0 && len(recv) > 0 {
			first := strings.ToLower(pre.Msgs[0].Args[0])
			if len(first) > 12 {
				first = first[:12]
			}
			nm := len(pre.Msgs)
			if nm > 8 {
				nm = 8
			}
			if pre.Err != "" || len(muts) > 0 {
				c.NonTrivial(fmt.Sprintf("%v|%s|%d|%s", muts, pre.Err, nm, first))
				c.Label("reached-dispatcher-and-malformed")
				if c.WantSample() {
					c.Sample(map[string]any{"input": in.Text, "mutations": muts, "parse_error": pre.Err, "messages": len(pre.Msgs), "reply_head": clip(strconv.QuoteToASCII(string(recv)), 160)})
				}
			}
		}
	})
}

// minimizeBytes: a few rounds of chunk removal.
func minimizeBytes(b []byte, still func(fuzzInput) bool) fuzzInput {
	cur := append([]byte(nil), b...)
	for chunk := len(cur) / 2; chunk >= 1; chunk /= 2 {
		for i := 0; i+chunk <= len(cur); {
			cand := append(append([]byte(nil), cur[:i]...), cur[i+chunk:]...)
			// cheap pre-filter: parser crashes reproduce in-package
			if r := readAll([][]byte{cand}); r.Panic == "" && readAll([][]byte{cur}).Panic != "" {
				i += chunk
				continue
			}
			if len(cand) > 0 && still(bytesInput(cand, nil, []string{"minimized"})) {
				cur = cand
			} else {
				i += chunk
			}
		}
	}
	return bytesInput(cur, nil, []string{"minimized"})
}

// ---- hostile arguments ---------------------------------------------------------------

var poolKeys = []string{"k1", "k2", "k3"}

// hostileKeys: legal collection names that are awkward for whoever renders them
// (metrics labels, JSON, logs): invalid UTF-8, NUL, glob and quote characters.
var hostileKeys = []string{"fleet\xff", "\xfe\xfe", "k\x00z", "\xe9t\xe9", "k*[", "k\"q", "k\nl", strings.Repeat("K", 300)}
var poolIDs = []string{"a", "b", "c", "d", "missing"}
var poolFields = []string{"f", "g", "h", "z"}

// tableScripts: scripts whose return value is a table that is cyclic, shared,
// deeply nested, or holds values without a RESP/JSON form.
var tableScripts = []string{
	"local t={} t[1]=t return t",
	"local t={} t.a=t return t",
	"local a={} local b={x=a} a.y=b return {a,b}",
	"local a={} local b={a} a[1]=b return a",
	"local t={} local c=t for i=1,200 do c[1]={} c=c[1] end return t",
	"local t={} local c=t for i=1,2000 do c.n={} c=c.n end return t",
	"local s={1} return {s,s,s,{s,s}}",
	"local t={} for i=1,100000 do t[i]=i end return t",
	"return {1,{2,{3,{4,{5}}}}}",
	"return {print, tile38.call, function() end}",
	"local t=setmetatable({}, {__index=function(t,k) return t end}) return t",
	"local t={} t[t]=1 return t",
	"return {[1]=1,[3]=3,x=1}",
	"return _G",
	"return ARGV",
	"return {KEYS, ARGV, KEYS}",
}

var cyclicScripts = map[string]bool{
	"local t={} t[1]=t return t":                  true,
	"local t={} t.a=t return t":                   true,
	"local a={} local b={x=a} a.y=b return {a,b}": true,
	"local a={} local b={a} a[1]=b return a":      true,
	"return _G":                                   true,
}

var optTokens = []string{"NX", "XX", "EX", "FIELD", "POINT", "BOUNDS", "HASH", "OBJECT", "STRING", "WITHFIELDS", "RETURN", "ERRON404",
	"CURSOR", "LIMIT", "MATCH", "WHERE", "WHEREIN", "WHEREEVAL", "WHEREEVALSHA", "NOFIELDS", "SPARSE", "FENCE", "DETECT", "COMMANDS",
	"DISTANCE", "NODWELL", "ASC", "DESC", "CLIP", "BUFFER", "COUNT", "IDS", "OBJECTS", "POINTS", "HASHES", "CIRCLE", "SECTOR", "TILE",
	"QUADKEY", "GET", "ROAM", "INTERSECTS", "WITHIN", "NEARBY", "META", "RAW", "STR", "AND", "OR", "NOT", "(", ")", "inside,outside",
	"enter,exit,cross", "set,del,drop", "CLIPBY", "MVT", "SCAN", "SEARCH", "GEO", "ROAM", "GET"}

func nest(open, close string, n int) string {
	return strings.Repeat(open, n) + strings.Repeat(close, n)
}

var hostileArgs = func() []string {
	a := []string{"", " ", "0", "-0", "-1", "1", "2", "5", "12", "13", "33", "-115", "9223372036854775807", "9223372036854775808", "18446744073709551615",
		"18446744073709551616", "-9223372036854775808", "4294967296", "2147483648", "1000000000000", "1e308", "1e309", "-1e309", "1e-320", "nan", "NaN", "inf", "-inf", "+Inf",
		"0x10", "1.5", ".", "-", "+", "1e", "91", "-91", "181", "-181", "90", "-90", "180", "-180", "360", "1e18", "*", "?", "[", "[a-", "[]", "[^", "\\", "a\\", "**", "*a*b*c*", "(", ")", "((", "))",
		"{", "}", "{}", "[]", "null", "true", "false", `"`, `'`, `"a`, `{"a":`, `{"type":"Point"}`, `{"type":"Point","coordinates":[]}`, `{"type":"Point","coordinates":[1]}`,
		`{"type":"Point","coordinates":[1,2,3,4,5]}`, `{"type":"Point","coordinates":["a","b"]}`, `{"type":"Point","coordinates":[1e999,2]}`, `{"type":"Polygon","coordinates":[]}`,
		`{"type":"Polygon","coordinates":[[]]}`, `{"type":"Polygon","coordinates":[[[0,0]]]}`, `{"type":"Polygon","coordinates":[[[0,0],[1,1],[0,0]]]}`, `{"type":"LineString","coordinates":[]}`,
		`{"type":"LineString","coordinates":[[0,0]]}`, `{"type":"MultiPolygon","coordinates":[[]]}`, `{"type":"GeometryCollection","geometries":[]}`, `{"type":"GeometryCollection"}`,
		`{"type":"FeatureCollection","features":[]}`, `{"type":"FeatureCollection","features":[null]}`, `{"type":"Feature","geometry":null}`, `{"type":"Feature"}`, `{"type":"Nope"}`, `{"type":1}`,
		`{"type":"Point","coordinates":[1,2],"bbox":[]}`, `{"type":"Point","coordinates":[1,2],"bbox":[1]}`, `{"type":"Polygon","coordinates":[[[0,0],[0,1],[1,1],[0,0]]],"bbox":"x"}`,
		"\x00", "\xff\xfe", "a\r\nb", "a b", "é世", "z", "lat", "lon", "id", "a.b", "a.-1", "a.#", "a.1000000", "#", "a..b", "a.*", "a|b", "@reverse", "..", `a.#(x=1)#`, "a.0", "n.m.9", "properties.n.m.-1", ":1", "a.:1",
		"9q", "zzzzzzzzzzzzzzzzzzzzzzzzzzzz", "a!", "9my5xp7", "0123", "4", "01230123012301230123012301230123", "f == 1", "f >", "f == (", "1 +", "f == 'a", "a && ", "!!", "- - - 1", "f ? g : ", "1 / 0", "f % 0", "f == g == h",
		"return 1", "return", "end", "return ARGV[1]", "return tile38.call('get','k1','a')", "return {1,{2,{3}}}", "error('x')", "return nil", "return 1e999", "return ARGV[1e9]", "return string.rep('x', 100000)",
		"http://127.0.0.1:9/x", "grpc://127.0.0.1:9", "redis://127.0.0.1:9/ch", "kafka://127.0.0.1:9/t", "mqtt://127.0.0.1:9/t", "local://x", "://", "http://", "nats://127.0.0.1:9/s", "amqp://127.0.0.1:9/q/?route=x", "disque://127.0.0.1:9/q",
		nest("(", ")", 2000), nest("[", "]", 5000), nest(`{"a":`, `}`, 3000), strings.Repeat("(", 3000), strings.Repeat("1+", 3000) + "1", strings.Repeat("!", 3000) + "1",
		strings.Repeat(`{"type":"GeometryCollection","geometries":[`, 300) + strings.Repeat("]}", 300),
		strings.Repeat(`{"type":"Feature","geometry":`, 300) + `{"type":"Point","coordinates":[1,2]}` + strings.Repeat("}", 300),
		strings.Repeat("x", 70000), strings.Repeat("a.", 4000) + "a", strings.Repeat("*", 200) + "b", strings.Repeat("[a-z]", 300),
	}
	return a
}()

// areaTypes: the area-type tokens of the server's own tables (search.go
// withinOrIntersectsTypes / nearbyTypes, plus roam).
var areaTypes = []string{"GEO", "BOUNDS", "HASH", "TILE", "QUADKEY", "GET", "OBJECT", "CIRCLE", "POINT", "SECTOR", "MVT", "ROAM"}

// areaRoulette: an area type followed by 0-6 operands that are missing, short or odd.
func areaRoulette(rt *rapid.T) []string {
	out := []string{rapid.SampledFrom(areaTypes).Draw(rt, "areatype")}
	n := rapid.IntRange(0, 6).Draw(rt, "nopnd")
	for i := 0; i < n; i++ {
		switch rapid.IntRange(0, 5).Draw(rt, "opndclass") {
		case 0, 1:
			out = append(out, rapid.SampledFrom([]string{"33", "-115", "1000", "0", "5", "12", "90", "-90", "180.5", "1e3"}).Draw(rt, "opndnum"))
		case 2:
			out = append(out, rapid.SampledFrom(append(append([]string{}, poolKeys...), poolIDs...)).Draw(rt, "opndname"))
		case 3:
			out = append(out, rapid.SampledFrom(hostileNums).Draw(rt, "opndhnum"))
		case 4:
			out = append(out, rapid.SampledFrom([]string{"9my5", "0231", `{"type":"Point","coordinates":[-115,33]}`, `{"type":"Polygon","coordinates":[[[-116,32],[-114,32],[-114,34],[-116,32]]]}`, "*", ""}).Draw(rt, "opndobj"))
		default:
			out = append(out, rapid.SampledFrom(areaTypes).Draw(rt, "opndtype"))
		}
	}
	return out
}

func area(rt *rapid.T) []string {
	switch rapid.IntRange(0, 9).Draw(rt, "area") {
	case 0:
		return []string{"POINT", "33", "-115"}
	case 1:
		return []string{"BOUNDS", "32", "-116", "34", "-114"}
	case 2:
		return []string{"CIRCLE", "33", "-115", "1000"}
	case 3:
		return []string{"OBJECT", `{"type":"Polygon","coordinates":[[[-116,32],[-114,32],[-114,34],[-116,34],[-116,32]]]}`}
	case 4:
		return []string{"GET", "k2", "a"}
	case 5:
		return []string{"TILE", "5", "12", "5"}
	case 6:
		return []string{"QUADKEY", "0231"}
	case 7:
		return []string{"HASH", "9my5"}
	case 8:
		return []string{"SECTOR", "33", "-115", "1000", "0", "90"}
	default:
		return []string{"OBJECT", `{"type":"Point","coordinates":[-115,33]}`}
	}
}

func searchOpts(rt *rapid.T) []string {
	var o []string
	n := rapid.IntRange(0, 3).Draw(rt, "nopts")
	for i := 0; i < n; i++ {
		switch rapid.IntRange(0, 16).Draw(rt, "sopt") {
		case 0:
			o = append(o, "CURSOR", "1")
		case 1:
			o = append(o, "LIMIT", "2")
		case 2:
			o = append(o, "MATCH", "*")
		case 3:
			o = append(o, "WHERE", "f", "1", "5")
		case 4:
			o = append(o, "WHERE", "f > 1 && g < 9")
		case 5:
			o = append(o, "WHEREIN", "f", "2", "3", "7")
		case 6:
			o = append(o, "WHEREEVAL", "return FIELDS.f > 1", "0")
		case 7:
			o = append(o, "NOFIELDS")
		case 8:
			o = append(o, "SPARSE", "2")
		case 9:
			o = append(o, "DESC")
		case 10:
			o = append(o, "CLIP")
		case 11:
			o = append(o, "DISTANCE")
		case 12:
			o = append(o, "BUFFER", "100")
		case 13:
			o = append(o, "WHEREEVAL", "return ARGV[1] == '1'", "1", "1")
		case 14:
			o = append(o, "DETECT", "inside,enter")
		case 15:
			o = append(o, "COMMANDS", "set,del")
		case 16:
			o = append(o, "ASC")
		}
	}
	switch rapid.IntRange(0, 7).Draw(rt, "sout") {
	case 0:
		o = append(o, "COUNT")
	case 1:
		o = append(o, "IDS")
	case 2:
		o = append(o, "OBJECTS")
	case 3:
		o = append(o, "POINTS")
	case 4:
		o = append(o, "BOUNDS")
	case 5:
		o = append(o, "HASHES", "5")
	}
	return o
}

// template draws a well-formed command of the table.
func template(rt *rapid.T, depth int) []string {
	k := func() string {
		if rapid.IntRange(0, 9).Draw(rt, "hostilekey") == 0 {
			return rapid.SampledFrom(hostileKeys).Draw(rt, "hk")
		}
		return rapid.SampledFrom(poolKeys).Draw(rt, "k")
	}
	id := func() string { return rapid.SampledFrom(poolIDs).Draw(rt, "id") }
	f := func() string { return rapid.SampledFrom(poolFields).Draw(rt, "f") }
	cat := func(xs ...[]string) []string {
		var o []string
		for _, x := range xs {
			o = append(o, x...)
		}
		return o
	}
	switch rapid.IntRange(0, 51).Draw(rt, "tmpl") {
	case 45, 46:
		return cat([]string{rapid.SampledFrom([]string{"WITHIN", "INTERSECTS", "NEARBY"}).Draw(rt, "rcmd"), k()}, searchOpts(rt), areaRoulette(rt))
	case 47:
		return cat([]string{"TEST"}, areaRoulette(rt), []string{rapid.SampledFrom([]string{"INTERSECTS", "WITHIN"}).Draw(rt, "rtwi")}, areaRoulette(rt))
	case 48:
		return cat([]string{rapid.SampledFrom([]string{"SETHOOK", "SETCHAN"}).Draw(rt, "rhk"), "hr"}, map[bool][]string{true: {"http://127.0.0.1:9/x"}, false: nil}[rapid.Bool().Draw(rt, "rep")],
			[]string{rapid.SampledFrom([]string{"WITHIN", "INTERSECTS", "NEARBY"}).Draw(rt, "rhcmd"), k(), "FENCE"}, areaRoulette(rt))
	case 44:
		// a command name nobody has sent before (state kept per name must not pile up)
		return []string{fmt.Sprintf("nm%d", rapid.IntRange(0, 1<<30).Draw(rt, "newname")), "x"}
	case 49, 50:
		return []string{rapid.SampledFrom([]string{"EVAL", "EVALRO", "EVALNA"}).Draw(rt, "cev"), rapid.SampledFrom(tableScripts).Draw(rt, "tscript"), "0"}
	case 0, 1:
		return cat([]string{"SET", k(), id(), "FIELD", f(), "1", "EX", "1000"}, gen.ObjectSpec(rt))
	case 2:
		return []string{"FSET", k(), id(), "XX", f(), "2", "g", "3"}
	case 3:
		return []string{"FSET", k(), id(), f(), "2", "RETURN", "WITHFIELDS"}
	case 4:
		return cat([]string{"SET", k(), id(), "RETURN", "HASH", "5"}, gen.ObjectSpec(rt))
	case 5:
		return []string{"GET", k(), id(), "WITHFIELDS", rapid.SampledFrom([]string{"OBJECT", "POINT", "BOUNDS", "HASH"}).Draw(rt, "getfmt"), "5"}
	case 6:
		return []string{"DEL", k(), id(), "ERRON404"}
	case 7:
		return []string{"PDEL", k(), "a*"}
	case 8:
		return []string{"RENAME", k(), k()}
	case 9:
		return []string{"EXPIRE", k(), id(), "1000"}
	case 10:
		return []string{rapid.SampledFrom([]string{"TTL", "PERSIST", "EXISTS", "TYPE", "BOUNDS", "DROP", "STATS"}).Draw(rt, "simple"), k(), id()}
	case 11:
		return []string{"FGET", k(), id(), f()}
	case 12:
		return []string{"JSET", k(), id(), "properties.n.m.1", "5", rapid.SampledFrom([]string{"RAW", "STR", ""}).Draw(rt, "jmode")}
	case 13:
		return []string{"JGET", k(), id(), "properties.n", "RAW"}
	case 14:
		return []string{"JDEL", k(), id(), "properties.n.m.0"}
	case 15:
		return []string{"KEYS", "k*"}
	case 16, 17:
		return cat([]string{"SCAN", k()}, searchOpts(rt))
	case 18:
		return cat([]string{"SEARCH", k()}, searchOpts(rt))
	case 19, 20, 21:
		return cat([]string{"NEARBY", k()}, searchOpts(rt), []string{"POINT", "33", "-115", "100000"})
	case 22:
		return cat([]string{"NEARBY", k()}, searchOpts(rt), []string{"ROAM", k(), "*", "1000"})
	case 23, 24, 25:
		return cat([]string{rapid.SampledFrom([]string{"WITHIN", "INTERSECTS"}).Draw(rt, "wi"), k()}, searchOpts(rt), area(rt))
	case 26, 27:
		return cat([]string{"TEST"}, area(rt), []string{rapid.SampledFrom([]string{"INTERSECTS", "WITHIN"}).Draw(rt, "twi")}, area(rt))
	case 28:
		return cat([]string{"TEST"}, area(rt), []string{"INTERSECTS", "CLIP"}, []string{"BOUNDS", "32", "-116", "34", "-114"})
	case 29:
		return cat([]string{"WITHIN", k(), "("}, area(rt), []string{"OR"}, area(rt), []string{")", "AND", "NOT"}, area(rt))
	case 30:
		return cat([]string{rapid.SampledFrom([]string{"SETHOOK", "SETCHAN"}).Draw(rt, "hk"), "h1", "http://127.0.0.1:9/x", "META", "m", "v", "EX", "1000", "NEARBY", k(), "FENCE", "DETECT", "inside", "POINT", "33", "-115", "1000"})
	case 31:
		return []string{rapid.SampledFrom([]string{"DELHOOK", "PDELHOOK", "HOOKS", "DELCHAN", "PDELCHAN", "CHANS"}).Draw(rt, "hk2"), "h*"}
	case 32:
		return []string{rapid.SampledFrom([]string{"EVAL", "EVALRO", "EVALNA"}).Draw(rt, "ev"), "return tile38.call('get', KEYS[1], ARGV[1])", "1", k(), id()}
	case 33:
		return []string{rapid.SampledFrom([]string{"EVALSHA", "EVALROSHA", "EVALNASHA"}).Draw(rt, "evs"), "da39a3ee5e6b4b0d3255bfef95601890afd80709", "0"}
	case 34:
		return []string{"SCRIPT", rapid.SampledFrom([]string{"LOAD", "EXISTS", "FLUSH"}).Draw(rt, "scr"), "return 1"}
	case 35:
		if depth == 0 {
			return cat([]string{"TIMEOUT", "0.5"}, template(rt, 1))
		}
		return []string{"PING"}
	case 36:
		return []string{rapid.SampledFrom([]string{"SERVER", "INFO", "ROLE", "HEALTHZ", "AOFMD5", "GC", "OUTPUT", "HELLO", "COMMAND", "ECHO", "PING", "AUTH", "REPLCONF", "MASSINSERT", "SLEEP", "CONFIG", "CLIENT"}).Draw(rt, "adm"),
			rapid.SampledFrom([]string{"", "ext", "0", "3", "json", "resp", "GET", "LIST", "GETNAME", "SETNAME", "REWRITE", "DOCS", "listening-port", "requirepass", "*"}).Draw(rt, "admarg"), "0", "10"}
	case 37:
		return []string{"AOFMD5", rapid.SampledFrom([]string{"0", "0", "1", "10", "-1", "9223372036854775807"}).Draw(rt, "md5pos"), rapid.SampledFrom([]string{"0", "0", "1", "10", "-1"}).Draw(rt, "md5size")}
	case 38:
		return []string{rapid.SampledFrom([]string{"SUBSCRIBE", "PSUBSCRIBE", "PUBLISH"}).Draw(rt, "ps"), "ch*", "msg"}
	case 39:
		return cat([]string{"INTERSECTS", k()}, searchOpts(rt), []string{"MVT", "5", "12", "5"})
	case 40:
		return cat([]string{"NEARBY", k(), "FENCE"}, searchOpts(rt), []string{"POINT", "33", "-115", "1000"})
	case 41:
		return []string{"AOF", "0"}
	case 42:
		return []string{"MONITOR"}
	case 43:
		return cat([]string{"SET", k(), id()}, []string{"FIELD", f(), `{"a":[1,2,{"b":null}]}`, "FIELD", "g", "abc"}, gen.ObjectSpec(rt))
	default:
		return []string{"CONFIG", "GET", rapid.SampledFrom([]string{"*", "requirepass", "maxmemory", "keepalive", "x"}).Draw(rt, "cfg")}
	}
}

// forbidden: commands whose documented effect legitimately reaches other
// connections or the whole dataset (they are not "malformed input").
func forbidden(a []string) bool {
	if len(a) == 0 {
		return true
	}
	name := strings.ToLower(a[0])
	if name == "timeout" && len(a) > 2 {
		return forbidden(a[2:])
	}
	switch name {
	case "flushdb", "follow", "slaveof", "readonly", "shutdown", "aofshrink", "config set", "quit":
		return true
	case "config":
		return len(a) > 1 && !strings.EqualFold(a[1], "get")
	case "client":
		return len(a) > 1 && strings.EqualFold(a[1], "kill")
	}
	for _, x := range a {
		if strings.Contains(x, canaryKey) || strings.Contains(strings.ToLower(x), "flushdb") || strings.Contains(x, "while") || strings.Contains(x, "repeat") {
			return true
		}
	}
	return false
}

func goesLive(a []string) bool {
	switch strings.ToLower(a[0]) {
	case "subscribe", "psubscribe", "monitor", "aof":
		return true
	}
	return lowerHas(a, "fence")
}

// hostileCmd draws a template and damages it.
func hostileCmd(rt *rapid.T) ([]string, []string) {
	a := append([]string(nil), template(rt, 0)...)
	var ops []string
	n := rapid.IntRange(0, 3).Draw(rt, "ndamage")
	tok := func() (string, string) {
		switch rapid.IntRange(0, 5).Draw(rt, "tokclass") {
		case 0, 1, 2:
			return rapid.SampledFrom(hostileArgs).Draw(rt, "hostile"), "hostile"
		case 3:
			return rapid.SampledFrom(optTokens).Draw(rt, "opt"), "option"
		case 4:
			return rapid.SampledFrom(hostileNums).Draw(rt, "num"), "number"
		default:
			return rapid.SampledFrom(append(append([]string{}, poolKeys...), poolIDs...)).Draw(rt, "name"), "name"
		}
	}
	for i := 0; i < n && len(a) > 1; i++ {
		pos := rapid.IntRange(1, len(a)-1).Draw(rt, "dpos")
		switch rapid.IntRange(0, 5).Draw(rt, "dop") {
		case 0, 1:
			t, cl := tok()
			a[pos] = t
			ops = append(ops, "replace-with-"+cl)
		case 2:
			t, cl := tok()
			a = append(append(append([]string(nil), a[:pos]...), t), a[pos:]...)
			ops = append(ops, "insert-"+cl)
		case 3:
			a = append(append([]string(nil), a[:pos]...), a[pos+1:]...)
			ops = append(ops, "delete")
		case 4:
			a = a[:pos]
			ops = append(ops, "truncate")
		case 5:
			j := rapid.IntRange(1, len(a)-1).Draw(rt, "swapj")
			a[pos], a[j] = a[j], a[pos]
			ops = append(ops, "swap")
		}
	}
	return a, ops
}

func TestC16_ContainArgs(t *testing.T) {
	c := ev.New("C16", "contain-args", "exploration")
	t.Cleanup(c.Flush)
	t.Cleanup(func() { drainExcluded(c) })
	c.Rule("1-4 well-framed commands per connection (RESP or JSON output) drawn from templates of the whole command table (SET/FSET with RETURN, GET, DEL, PDEL, RENAME, EXPIRE, TTL..., JSET/JGET/JDEL, KEYS, SCAN/SEARCH/NEARBY/WITHIN/INTERSECTS with CURSOR/LIMIT/MATCH/WHERE/WHEREIN/WHEREEVAL/SPARSE/CLIP/BUFFER/DETECT/COMMANDS/FENCE/MVT and every output and area kind, area expressions, TEST, SETHOOK/SETCHAN, EVAL*/SCRIPT, TIMEOUT, pub/sub, admin reads) and then damaged 0-3 times (replace/insert a hostile constant, option token, extreme number or pool name; delete; truncate; swap) against a small seeded dataset on a subprocess server; commands whose documented effect reaches other connections (FLUSHDB, FOLLOW, READONLY, CONFIG SET/REWRITE, CLIENT KILL, SHUTDOWN, AOFSHRINK, looping scripts) are not generated. Oracle: process alive, bystander PING + canary unchanged. Shapes matching the predicate of a listed known finding are counted as excluded. Non-trivial: a damaged command got a reply; distinct by (command, damage operations, reply class, output mode).")
	gStd := newGuard(t, c)
	gNoAOF := newGuardOpt(t, c, true)
	t.Cleanup(func() { gStd.report(t); gStd.stop(); gNoAOF.report(t); gNoAOF.stop() })
	ev.Rapid("contain-args", ev.Pick(4000, 35000))
	rapid.Check(t, func(rt *rapid.T) {
		// a fifth of the connections go to a server started with --appendonly no
		g := gStd
		if rapid.IntRange(0, 4).Draw(rt, "noaof") == 0 {
			g = gNoAOF
			c.Label("server:appendonly-no")
		}
		in := fuzzInput{Kind: "cmds", JSON: rapid.IntRange(0, 3).Draw(rt, "json") == 0}
		n := rapid.IntRange(1, 4).Draw(rt, "ncmds")
		var opsAll [][]string
		excludedShape := false
		for i := 0; i < n; i++ {
			a, ops := hostileCmd(rt)
			if forbidden(a) {
				c.Label("not-generated:legitimate-global-effect")
				continue
			}
			skip := false
			for _, k := range knownCrashes {
				if k.match != nil && k.match(a) {
					if ev.KnownActive(k.id) {
						c.Excluded(k.id)
						skip = true
					}
				}
			}
			if skip {
				excludedShape = true
				continue
			}
			in.Cmds = append(in.Cmds, a)
			opsAll = append(opsAll, ops)
			if goesLive(a) {
				break
			}
			// a hook or channel is evaluated by the next write on its key
			if n0 := strings.ToLower(a[0]); n0 == "sethook" || n0 == "setchan" {
				for j, x := range a {
					switch strings.ToLower(x) {
					case "nearby", "within", "intersects":
						if j+1 < len(a) && a[j+1] != "" && !strings.Contains(a[j+1], canaryKey) {
							in.Cmds = append(in.Cmds, []string{"SET", a[j+1], "hooked", "POINT", "33", "-115"})
							opsAll = append(opsAll, nil)
						}
					}
				}
			}
		}
		if len(in.Cmds) == 0 {
			return
		}
		c.Case()
		if g.inputs > 1500 {
			g.restart()
		}
		if err := g.reseed(); err != nil {
			// a tail effect of the previous case; start from a clean server
			c.Label("reseed-failed-restart")
			if err := g.restart(); err != nil {
				rt.Fatalf("harness: restart: %v", err)
			}
			if err := g.reseed(); err != nil {
				rt.Fatalf("harness: reseed failed on a fresh server: %v", err)
			}
		}
		g.last = in
		classes := g.sendCmds(in)
		vd := g.check()
		switch {
		case vd.crashID != "":
			_ = excludedShape
			g.record(t, vd, in, false, func(still func(fuzzInput) bool) fuzzInput {
				return minimizeCmds(in, still)
			})
			return
		case vd.restart:
			g.restart()
			return
		case vd.bystander != "":
			key := strings.SplitN(vd.bystander, ":", 2)[0]
			g.restart()
			c.Fail(rt, key, fmt.Sprintf("after %s the process lives but %s", describeInput(in), vd.bystander), in)
		}
		for i, cl := range classes {
			name := strings.ToLower(in.Cmds[i][0])
			if len(name) > 12 {
				name = name[:12]
			}
			c.Label("cmd:" + name)
			switch {
			case cl == "ok":
				c.Label("reply:ok")
			case strings.HasPrefix(cl, "err:"):
				c.Label("reply:error")
			default:
				c.Label("reply:" + cl)
			}
			if len(opsAll[i]) > 0 && (cl == "ok" || strings.HasPrefix(cl, "err:")) {
				c.NonTrivial(fmt.Sprintf("%s|%v|%s|%v", name, opsAll[i], cl, in.JSON))
				if c.WantSample() {
					c.Sample(map[string]any{"cmd": clip(t38.CmdString(in.Cmds[i]), 300), "damage": opsAll[i], "reply": cl, "json": in.JSON})
				}
			}
		}
	})
}

// minimizeCmds drops commands, then arguments of the last command.
func minimizeCmds(in fuzzInput, still func(fuzzInput) bool) fuzzInput {
	cur := in
	for i := 0; i < len(cur.Cmds)-1; {
		cand := cur
		cand.Cmds = append(append([][]string(nil), cur.Cmds[:i]...), cur.Cmds[i+1:]...)
		if still(cand) {
			cur = cand
		} else {
			i++
		}
	}
	// find the command that kills: try each alone
	if len(cur.Cmds) > 1 {
		for i := range cur.Cmds {
			cand := cur
			cand.Cmds = [][]string{cur.Cmds[i]}
			if still(cand) {
				cur = cand
				break
			}
		}
	}
	last := len(cur.Cmds) - 1
	for i := 1; i < len(cur.Cmds[last]); {
		cand := cur
		cmds := append([][]string(nil), cur.Cmds...)
		cmds[last] = append(append([]string(nil), cur.Cmds[last][:i]...), cur.Cmds[last][i+1:]...)
		cand.Cmds = cmds
		if still(cand) {
			cur = cand
		} else {
			i++
		}
	}
	return cur
}

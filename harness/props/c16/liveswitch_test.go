// Part (b'), going live: a connection that issues SUBSCRIBE/PSUBSCRIBE is
// handed to a second read loop (liveSubscription) that keeps using the same
// PipelineReader. The bytes around and after that switch are cut in the same
// ways; the reference is the fully synchronised run (one command per write,
// each awaited) on the twin.
package c16

import (
	"fmt"
	"strings"
	"testing"
	"time"

	"github.com/tidwall/tile38/verif/harness/ev"
	"github.com/tidwall/tile38/verif/harness/gen"
	"pgregory.net/rapid"
)

const liveSwitchID = "live-switch-drops-pipelined"

type switchCase struct {
	JSON  bool       `json:"json"`
	Prior [][]string `json:"prior"`
	First []string   `json:"first"`
	Live  [][]string `json:"live"`
	Cuts  []int      `json:"cuts"`
}

func (sc switchCase) cmds() [][]string {
	var out [][]string
	if sc.JSON {
		out = append(out, []string{"OUTPUT", "json"})
	}
	out = append(out, sc.Prior...)
	out = append(out, sc.First)
	out = append(out, sc.Live...)
	return out
}

// repliesOf: how many replies a command owes (before / inside the live loop).
func repliesOf(cmd []string) int {
	switch strings.ToLower(cmd[0]) {
	case "subscribe", "psubscribe", "unsubscribe", "punsubscribe":
		return len(cmd) - 1
	}
	return 1
}

var finalPacket = [][]string{{"PING", "zz-final"}, {"QUIT"}}

// playSwitch sends the commands in the given segments. Waits after a segment
// are short and never a verdict: the final packet (PING zz-final, QUIT) makes
// the server close, and the complete reply list is judged after EOF.
func playSwitch(addr string, sc switchCase, cuts []int, perCommand bool) (got []string, problem string) {
	cmds := sc.cmds()
	var b []byte
	offs := []int{0}
	owedAt := []int{0}
	for _, c := range cmds {
		b = append(b, encRESP(c)...)
		offs = append(offs, len(b))
		owedAt = append(owedAt, owedAt[len(owedAt)-1]+repliesOf(c))
	}
	total := owedAt[len(owedAt)-1] + 2
	kinds := make([]replyKind, total)
	rc, err := dialRaw(addr)
	if err != nil {
		return nil, "harness:dial: " + err.Error()
	}
	defer rc.c.Close()
	if perCommand {
		cuts = offs[1 : len(offs)-1]
	}
	segs := cutBytes(b, cuts)
	sent := 0
	short := func(want int) {
		old := hangBudget
		hangBudget = 3 * time.Second
		rc.await(kinds, want)
		hangBudget = old
	}
	for _, seg := range segs {
		if _, err := rc.c.Write(seg); err != nil {
			return rc.got, "closed:write failed before the final packet: " + err.Error()
		}
		sent += len(seg)
		j := 0
		for j+1 < len(offs) && offs[j+1] <= sent {
			j++
		}
		if offs[j] == sent {
			if perCommand {
				if p := rc.await(kinds, owedAt[j]); p != "" {
					return rc.got, p
				}
			} else {
				short(owedAt[j])
			}
		} else {
			time.Sleep(300 * time.Microsecond)
		}
	}
	var fb []byte
	for _, c := range finalPacket {
		fb = append(fb, encRESP(c)...)
	}
	if _, err := rc.c.Write(fb); err != nil {
		return rc.got, "closed:write of the final packet failed: " + err.Error()
	}
	tail, p := rc.awaitEOF()
	if p != "" {
		return rc.got, p
	}
	// tokenise everything that arrived
	rc.mu.Lock()
	rc.buf = append(rc.buf[:rc.pos:rc.pos], []byte(tail)...)
	rc.mu.Unlock()
	_ = tail
	for {
		rc.mu.Lock()
		n, canon, err := nextReply(rc.buf[rc.pos:], rkRESP)
		if err == nil && n > 0 {
			rc.pos += n
			rc.got = append(rc.got, canon)
		}
		rest := len(rc.buf) - rc.pos
		rc.mu.Unlock()
		if err != nil {
			return rc.got, "malformed:" + err.Error()
		}
		if n == 0 {
			if rest > 0 {
				return rc.got, fmt.Sprintf("malformed:%d trailing bytes that are not a reply", rest)
			}
			return rc.got, ""
		}
	}
}

func runSwitch(t failer, c *ev.Collector, sc switchCase) {
	if err := prepTwin(ctlA, nil); err != nil {
		t.Fatalf("harness: prepare twin A: %v", err)
	}
	if err := prepTwin(ctlB, nil); err != nil {
		t.Fatalf("harness: prepare twin B: %v", err)
	}
	want := 2
	for _, cmd := range sc.cmds() {
		want += repliesOf(cmd)
	}
	ref, rp := playSwitch(twinA.Addr, sc, nil, true)
	if strings.HasPrefix(rp, "harness:") {
		t.Fatalf("%s", rp)
	}
	if rp != "" {
		if strings.HasPrefix(rp, "hang") {
			hangSeen = true
		}
		c.Fail(t, "live-reference-"+rp[:strings.IndexByte(rp, ':')], "one command per packet, each awaited: "+rp, sc)
	}
	if len(ref) != want {
		c.Fail(t, "live-reference-reply-count", fmt.Sprintf("one command per packet: %d replies, %d commands/channels: %q", len(ref), want, ref), sc)
	}
	got, gp := playSwitch(twinB.Addr, sc, sc.Cuts, false)
	if strings.HasPrefix(gp, "harness:") {
		t.Fatalf("%s", gp)
	}
	if gp != "" {
		if strings.HasPrefix(gp, "hang") {
			hangSeen = true
		}
		c.Fail(t, "live-cut-"+gp[:strings.IndexByte(gp, ':')], fmt.Sprintf("cuts %v: %s", sc.Cuts, gp), sc)
	}
	if len(got) == len(ref) {
		for i := range ref {
			if ref[i] != got[i] {
				c.Fail(t, "cut-changes-reply:live", fmt.Sprintf("reply %d: one-per-packet %q, cuts %v %q", i, clip(ref[i], 200), sc.Cuts, clip(got[i], 200)), sc)
			}
		}
		return
	}
	// fewer replies: were commands behind the going-live command dropped?
	key := "reply-count:live"
	if len(got) < len(ref) && len(got) >= 2 && got[len(got)-1] == ref[len(ref)-1] && got[len(got)-2] == ref[len(ref)-2] {
		// the final packet was answered, earlier commands were not: they are lost, not late
		key = liveSwitchID
	}
	c.Fail(t, key, fmt.Sprintf("the same bytes in segments %v got %d replies %q; one command per packet got %d %q", sc.Cuts, len(got), clipList(got), len(ref), clipList(ref)), sc)
}

func clipList(xs []string) []string {
	out := make([]string, len(xs))
	for i, x := range xs {
		out[i] = clip(x, 60)
	}
	return out
}

func drawSwitchCase(rt *rapid.T) switchCase {
	var sc switchCase
	sc.JSON = rapid.IntRange(0, 2).Draw(rt, "json") == 0
	n := rapid.IntRange(0, 3).Draw(rt, "nprior")
	for i := 0; i < n; i++ {
		a := gen.KeyspaceCmd(rt, gen.SmallNames)
		if strings.EqualFold(a[0], "TTL") {
			a = []string{"PING"}
		}
		sc.Prior = append(sc.Prior, a)
	}
	chans := []string{"ca", "cb", "cc"}
	pats := []string{"p*", "q?", "c[ab]"}
	sub := func() []string {
		if rapid.Bool().Draw(rt, "pattern") {
			return append([]string{"PSUBSCRIBE"}, rapid.SliceOfNDistinct(rapid.SampledFrom(pats), 1, 2, rapid.ID[string]).Draw(rt, "pats")...)
		}
		return append([]string{"SUBSCRIBE"}, rapid.SliceOfNDistinct(rapid.SampledFrom(chans), 1, 2, rapid.ID[string]).Draw(rt, "chans")...)
	}
	sc.First = sub()
	m := rapid.IntRange(1, 4).Draw(rt, "nlive")
	for i := 0; i < m; i++ {
		switch rapid.IntRange(0, 5).Draw(rt, "livecmd") {
		case 0, 1:
			sc.Live = append(sc.Live, []string{"PING", "x" + fmt.Sprint(i)})
		case 2:
			sc.Live = append(sc.Live, sub())
		case 3:
			sc.Live = append(sc.Live, []string{"UNSUBSCRIBE", rapid.SampledFrom(chans).Draw(rt, "unsub")})
		case 4:
			sc.Live = append(sc.Live, []string{"PUNSUBSCRIBE", rapid.SampledFrom(pats).Draw(rt, "punsub")})
		default:
			sc.Live = append(sc.Live, []string{"GET", "k1", "a"})
		}
	}
	return sc
}

// boundaryAfterFirst returns the offset right after the going-live command.
func (sc switchCase) boundaryAfterFirst() (int, int) {
	idx := len(sc.Prior)
	if sc.JSON {
		idx++
	}
	after, total := 0, 0
	for i, c := range sc.cmds() {
		total += len(encRESP(c))
		if i == idx {
			after = total
		}
	}
	return after, total
}

func TestC16_LiveSwitch(t *testing.T) {
	twins(t)
	c := ev.New("C16", "live-switch", "exploration")
	t.Cleanup(c.Flush)
	t.Cleanup(func() { drainExcluded(c) })
	c.Rule("[OUTPUT json,] 0-3 keyspace commands, SUBSCRIBE/PSUBSCRIBE of 1-2 channels (the connection goes live), then 1-4 of PING x, (P)SUBSCRIBE, (P)UNSUBSCRIBE, GET (refused in this context), as one RESP byte stream cut at 0-6 random points (uncut in a fifth of the cases), followed by a separate final packet PING zz-final + QUIT; the replies until EOF must equal those of the run with one command per packet, each awaited, on the twin. Waits inside the cut run are never verdicts. Non-trivial: a cut strictly inside a command that is read by the live loop, or several commands behind the going-live command in one segment; distinct by (output, first, live commands, cut classes). A deterministic probe (SUBSCRIBE ca | PING x | SUBSCRIBE cb in one packet) runs first; while the finding " + liveSwitchID + " is listed as known, a cut right after the going-live command is forced and counted as excluded.")
	// deterministic probe
	probe := switchCase{First: []string{"SUBSCRIBE", "ca"}, Live: [][]string{{"PING", "x"}, {"SUBSCRIBE", "cb"}}}
	{
		c.Case()
		prepTwin(ctlA, nil)
		prepTwin(ctlB, nil)
		ref, rp := playSwitch(twinA.Addr, probe, nil, true)
		got, gp := playSwitch(twinB.Addr, probe, nil, false)
		switch {
		case rp != "" || gp != "":
			c.Violation("live-probe-transport", fmt.Sprintf("probe: reference %q, one packet %q", rp, gp), probe)
			t.Errorf("VIOLATION-CANDIDATE key=live-probe-transport")
		case len(got) != len(ref):
			what := fmt.Sprintf("`SUBSCRIBE ca` `PING x` `SUBSCRIBE cb` written in one packet, then `PING zz-final` `QUIT`: replies %q; the same commands one per packet: %q. netServe hands the connection to liveSubscription at the first going-live command and discards the remaining messages parsed from that packet (server.go netServe goingLive branch: msgs after the SUBSCRIBE are never executed)", clipList(got), clipList(ref))
			if ev.KnownActive(liveSwitchID) {
				c.Known(liveSwitchID, what)
			} else {
				c.Violation(liveSwitchID, what, probe)
				t.Errorf("VIOLATION-CANDIDATE key=%s: %s", liveSwitchID, what)
			}
			c.Label("probe-reproduces:" + liveSwitchID)
		default:
			c.Label("probe-ok:" + liveSwitchID)
		}
	}
	if t.Failed() {
		// the random search would only rediscover the same defect, slowly
		c.Note("random live-switch cases skipped: the deterministic probe already fails and the finding is not listed")
		return
	}
	ev.Rapid("live-switch", ev.Pick(120, 1500))
	hangSeen = false
	rapid.Check(t, func(rt *rapid.T) {
		skipIfHangSeen(rt)
		sc := drawSwitchCase(rt)
		after, total := sc.boundaryAfterFirst()
		if rapid.IntRange(0, 4).Draw(rt, "uncut") != 0 {
			sc.Cuts = drawCuts(rt, total, 7, []int{after})
		}
		if ev.KnownActive(liveSwitchID) && after < total {
			hasIt := false
			for _, p := range sc.Cuts {
				if p == after {
					hasIt = true
				}
			}
			if !hasIt {
				c.Excluded(liveSwitchID)
				sc.Cuts = append(sc.Cuts, after)
				sortInts(sc.Cuts)
			}
		}
		c.Case()
		runSwitch(rt, c, sc)
		insideLive, pipelined := false, false
		nAfter := 0
		for _, p := range sc.Cuts {
			if p > after {
				nAfter++
				insideLive = true
			}
		}
		if len(sc.Live) > nAfter {
			pipelined = true
		}
		if sc.JSON {
			c.Label("output:json")
		} else {
			c.Label("output:resp")
		}
		if insideLive {
			c.Label("cut-inside-live-phase")
		}
		if pipelined {
			c.Label("several-live-commands-in-one-segment")
		}
		if insideLive || pipelined {
			var names []string
			for _, l := range sc.Live {
				names = append(names, strings.ToLower(l[0]))
			}
			c.NonTrivial(fmt.Sprintf("%v|%s|%v|%d|%d", sc.JSON, strings.ToLower(sc.First[0]), names, len(sc.Cuts), nAfter))
			if c.WantSample() {
				c.Sample(map[string]any{"first": sc.First, "live": sc.Live, "cuts": sc.Cuts, "json": sc.JSON})
			}
		}
	})
}

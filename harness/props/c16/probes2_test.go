// Deterministic probes that need the live twins or a dedicated subprocess:
// empty command names inside a packet, inline commands ended by a bare LF,
// memory per distinct command name.
package c16

import (
	"bytes"
	"fmt"
	"net"
	"os"
	"strconv"
	"strings"
	"testing"
	"time"

	"github.com/tidwall/tile38/verif/harness/ev"
	"github.com/tidwall/tile38/verif/harness/t38"
)

const emptyCommandID = "empty-command-drops-packet"

// rawExchange writes `first` in one segment, gives the server up to `settle`
// to answer `expectFirst` RESP replies (never a verdict), writes `final`
// (which ends in QUIT) and returns every byte received until EOF together with
// the number of replies that had arrived before `final` was sent.
func rawExchange(addr string, first []byte, expectFirst int, settle time.Duration, final []byte) (raw []byte, before int, problem string) {
	rc, err := dialRaw(addr)
	if err != nil {
		return nil, 0, "harness:dial: " + err.Error()
	}
	defer rc.c.Close()
	if _, err := rc.c.Write(first); err != nil {
		return nil, 0, "closed:write: " + err.Error()
	}
	deadline := time.Now().Add(settle)
	for time.Now().Before(deadline) {
		rc.mu.Lock()
		b := append([]byte(nil), rc.buf...)
		rc.mu.Unlock()
		vs, _ := t38.ParseAll(b)
		before = len(vs)
		if before >= expectFirst {
			break
		}
		time.Sleep(5 * time.Millisecond)
	}
	if _, err := rc.c.Write(final); err != nil {
		return nil, before, "closed:write of the final segment: " + err.Error()
	}
	if _, p := rc.awaitEOF(); p != "" {
		rc.mu.Lock()
		raw = append([]byte(nil), rc.buf...)
		rc.mu.Unlock()
		return raw, before, p
	}
	rc.mu.Lock()
	raw = append([]byte(nil), rc.buf...)
	rc.mu.Unlock()
	return raw, before, ""
}

func TestC16_LiveProbes(t *testing.T) {
	twins(t)
	c := ev.New("C16", "live-probes", "exploration")
	t.Cleanup(c.Flush)
	c.Rule("deterministic inputs on the in-process server. (1) " + emptyCommandID + ": `PING a`, an empty command name (`*1 $0`, `*2 $0 $1 x`, or `\"\"` on a telnet line) and `PING b` in ONE segment, then `PING zz` + QUIT in a second one: all bytes until EOF must be exactly five RESP replies: a, an error, b, zz, +OK (RESP and JSON output). (2) " + inlineLFID + ": `PING\\n` / `GET k i\\n` on one connection while `ping\\n` on a second connection is answered: the reply must arrive without a later CRLF (2 s, confirmed by the reply being released by a following CRLF).")
	finalSeg := append(encRESP([]string{"PING", "zz"}), encRESP([]string{"QUIT"})...)
	// (1) empty command names
	for _, v := range []struct {
		name  string
		empty []byte
		json  bool
	}{
		{"resp *1 $0", []byte("*1\r\n$0\r\n\r\n"), false},
		{"resp *2 $0 $1", []byte("*2\r\n$0\r\n\r\n$1\r\nx\r\n"), false},
		{"telnet \"\"", []byte("\"\"\r\n"), false},
		{"resp *1 $0, JSON output", []byte("*1\r\n$0\r\n\r\n"), true},
	} {
		c.Case()
		var first []byte
		n := 3
		if v.json {
			first = append(first, encRESP([]string{"OUTPUT", "json"})...)
			n = 4
		}
		first = append(first, encRESP([]string{"PING", "a"})...)
		first = append(first, v.empty...)
		first = append(first, encRESP([]string{"PING", "b"})...)
		raw, before, p := rawExchange(twinB.Addr, first, n, 2*time.Second, finalSeg)
		if strings.HasPrefix(p, "harness:") {
			t.Fatalf("%s", p)
		}
		vals, perr := t38.ParseAll(raw)
		problem := ""
		off := n - 3
		switch {
		case p != "":
			problem = p
		case perr != nil:
			problem = fmt.Sprintf("the reply stream is not RESP: %v", perr)
		case len(vals) != n+1 && !(v.json && len(vals) == n+1):
			problem = fmt.Sprintf("%d replies for %d commands", len(vals), n+2)
		}
		wantLen := n + 2 // + PING zz + QUIT(+OK in RESP mode)
		if v.json {
			wantLen = n + 1 // QUIT is not answered in JSON mode (impl-mirrored)
		}
		if problem == "" || strings.HasSuffix(problem, "commands") {
			problem = ""
			switch {
			case len(vals) != wantLen:
				problem = fmt.Sprintf("%d replies, expected %d", len(vals), wantLen)
			case !strings.Contains(vals[off].String(), "a") || !strings.Contains(vals[off+2].String(), "b") || !strings.Contains(vals[off+3].String(), "zz"):
				problem = "replies out of order"
			case !v.json && !vals[off+1].IsErr():
				problem = "the empty command name was not answered with an error: " + vals[off+1].String()
			case v.json && !strings.Contains(vals[off+1].Str, `"ok":false`):
				problem = "the empty command name was not answered with an error: " + vals[off+1].String()
			}
		}
		if problem != "" {
			what := fmt.Sprintf("%s between `PING a` and `PING b` in one segment (%d replies had arrived before the next segment): %s; received %s", v.name, before, problem, clip(strconv.QuoteToASCII(string(raw)), 300))
			if ev.KnownActive(emptyCommandID) {
				c.Known(emptyCommandID, what)
			} else {
				c.Violation(emptyCommandID, what, map[string]any{"first_segment": string(first), "final_segment": string(finalSeg)})
				t.Errorf("VIOLATION-CANDIDATE key=%s: %s", emptyCommandID, what)
			}
			c.Label("probe-reproduces:" + emptyCommandID)
			break
		}
		c.Label("probe-ok:" + emptyCommandID)
		c.NonTrivial("empty:" + v.name)
	}
	// (2) inline commands ended by a bare LF whose first letter is G, P or O
	prepTwin(ctlB, nil)
	for _, line := range []string{"PING\n", "GET k i\n", "OUTPUT\n"} {
		c.Case()
		rc, err := dialRaw(twinB.Addr)
		if err != nil {
			t.Fatalf("harness: %v", err)
		}
		ctrl, err := dialRaw(twinB.Addr)
		if err != nil {
			t.Fatalf("harness: %v", err)
		}
		rc.c.Write([]byte(line))
		ctrl.c.Write([]byte("ping\n"))
		kinds := []replyKind{rkRESP, rkRESP, rkRESP}
		old := hangBudget
		hangBudget = 2 * time.Second
		ctrlProblem := ctrl.await(kinds, 1)
		lineProblem := rc.await(kinds, 1)
		hangBudget = old
		switch {
		case ctrlProblem != "":
			c.Inconclusive("inline-LF probe: the control `ping\\n` was not answered within 2 s (%s); machine too busy", ctrlProblem)
		case lineProblem == "":
			c.Label("probe-ok:" + inlineLFID)
			c.NonTrivial("inline-lf:" + line)
		default:
			// released by a CRLF?
			rc.c.Write([]byte("\r\n"))
			released := rc.await(kinds, 1) == ""
			what := fmt.Sprintf("%q sent alone got no reply within 2 s while `ping\\n` on a second connection was answered at once; released by a following CRLF: %v. readNextCommand's HTTP sniffing (first byte G, P or O) waits for a CRLF-terminated line before it lets the telnet framer see the LF-terminated command", line, released)
			if ev.KnownActive(inlineLFID) {
				c.Known(inlineLFID, what)
			} else {
				c.Violation(inlineLFID, what, map[string]any{"line": line})
				t.Errorf("VIOLATION-CANDIDATE key=%s: %s", inlineLFID, what)
			}
			c.Label("probe-reproduces:" + inlineLFID)
		}
		rc.c.Close()
		ctrl.c.Close()
		if t.Failed() || c == nil {
			break
		}
		if lineProblem != "" {
			break // one sighting is enough, each costs 2 s
		}
	}
}

// ---- memory per distinct command name ---------------------------------------------------

const metricsLabelID = "metrics-label-per-command-name"

func rssBytes(pid int) int64 {
	b, err := os.ReadFile(fmt.Sprintf("/proc/%d/statm", pid))
	if err != nil {
		return -1
	}
	f := strings.Fields(string(b))
	if len(f) < 2 {
		return -1
	}
	pages, _ := strconv.ParseInt(f[1], 10, 64)
	return pages * int64(os.Getpagesize())
}

// floodNames sends n distinct unknown command names pipelined and reads all
// replies; it returns the number of reply lines.
func floodNames(addr string, n int, name func(i int) []string) (int, error) {
	c, err := net.DialTimeout("tcp", addr, 5*time.Second)
	if err != nil {
		return 0, err
	}
	defer c.Close()
	done := make(chan int, 1)
	go func() {
		buf := make([]byte, 1<<16)
		lines := 0
		for lines < n {
			c.SetReadDeadline(time.Now().Add(60 * time.Second))
			k, err := c.Read(buf)
			lines += bytes.Count(buf[:k], []byte("\n"))
			if err != nil {
				break
			}
		}
		done <- lines
	}()
	var b []byte
	for i := 0; i < n; i++ {
		b = append(b, encRESP(name(i))...)
		if len(b) > 60000 || i == n-1 {
			c.SetWriteDeadline(time.Now().Add(60 * time.Second))
			if _, err := c.Write(b); err != nil {
				return 0, err
			}
			b = b[:0]
		}
	}
	return <-done, nil
}

func TestC16_MemoryPerName(t *testing.T) {
	c := ev.New("C16", "memory-per-name", "exploration")
	t.Cleanup(c.Flush)
	const n = 100000
	const boundMB = 100
	c.Rule(fmt.Sprintf("subprocess server: %d distinct unknown command names (one-word, mixed case, some with arguments) pipelined on one connection, then `CONFIG SET requirepass` and another %d distinct names from an UNAUTHENTICATED connection; resident set size from /proc/<pid>/statm after a server-side GC before and after each phase. Bound: each phase may grow the process by at most %d MB (the repaired code grows by ~0; one prometheus label per name cost ~7 KB each = ~700 MB per phase). Every name must be answered with an error.", n, n, boundMB))
	g := newGuard(t, c)
	defer g.stop()
	m := pidRE.FindStringSubmatch(g.p.Stderr.String())
	if m == nil {
		t.Fatalf("harness: no PID in the server banner")
	}
	pid, _ := strconv.Atoi(m[1])
	settle := func() int64 {
		g.ctl.Do("GC")
		time.Sleep(50 * time.Millisecond)
		return rssBytes(pid)
	}
	phases := []struct {
		name  string
		setup func()
		mk    func(i int) []string
	}{
		{"unknown names on an open server", func() {}, func(i int) []string {
			switch i % 4 {
			case 0:
				return []string{fmt.Sprintf("xq%06d", i)}
			case 1:
				return []string{fmt.Sprintf("Xq%06dZ", i), "arg"}
			case 2:
				return []string{fmt.Sprintf("k%06d:%s", i, strings.Repeat("n", i%40))}
			default:
				return []string{fmt.Sprintf("%06dset", i), "k1", "a"}
			}
		}},
		{"unknown names from an unauthenticated connection (requirepass set)", func() {
			g.ctl.Do("CONFIG", "SET", "requirepass", "pw")
			g.ctl.Do("AUTH", "pw")
			g.readonly = true // the bystander is not authenticated: no write step
		}, func(i int) []string { return []string{fmt.Sprintf("una%06d", i)} }},
	}
	for _, ph := range phases {
		c.Case()
		ph.setup()
		before := settle()
		lines, err := floodNames(g.p.Addr, n, ph.mk)
		if lines < n {
			// a dying process keeps its sockets for a moment
			for i := 0; i < 100 && g.p.Alive() && !panicLineRE.MatchString(g.p.Stderr.String()); i++ {
				time.Sleep(50 * time.Millisecond)
			}
		}
		if err != nil || !g.p.Alive() || panicLineRE.MatchString(g.p.Stderr.String()) {
			vd := g.diagnose("bystander-disconnected: flood: " + fmt.Sprint(err))
			what := fmt.Sprintf("%s: the server did not survive %d distinct command names (%d answered, 4 GB address-space limit): %s at %s", ph.name, n, lines, vd.panicLine, vd.frame)
			c.Violation(metricsLabelID, what, map[string]any{"phase": ph.name, "names": n})
			t.Errorf("VIOLATION-CANDIDATE key=%s: %s", metricsLabelID, what)
			return
		}
		after := settle()
		grow := (after - before) >> 20
		c.Note("%s: %d names, %d reply lines, RSS %d MB -> %d MB", ph.name, n, lines, before>>20, after>>20)
		c.Label("phase:" + ph.name)
		if lines < n {
			what := fmt.Sprintf("%s: %d reply lines for %d commands", ph.name, lines, n)
			c.Violation("reply-count:flood", what, map[string]any{"phase": ph.name})
			t.Errorf("VIOLATION-CANDIDATE key=reply-count:flood: %s", what)
		}
		if before < 0 || after < 0 {
			c.Inconclusive("cannot read /proc/%d/statm", pid)
			continue
		}
		if grow > boundMB {
			what := fmt.Sprintf("%s: %d distinct command names grew the resident set from %d MB to %d MB (+%d MB, bound %d MB): state is kept per command NAME sent by the client (prometheus label in handleInputCommand) and never freed", ph.name, n, before>>20, after>>20, grow, boundMB)
			if ev.KnownActive(metricsLabelID) {
				c.Known(metricsLabelID, what)
			} else {
				c.Violation(metricsLabelID, what, map[string]any{"phase": ph.name, "names": n, "rss_before": before, "rss_after": after})
				t.Errorf("VIOLATION-CANDIDATE key=%s: %s", metricsLabelID, what)
			}
			return
		}
		c.NonTrivial(ph.name)
	}
}
